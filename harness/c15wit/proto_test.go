package c15wit

import (
	"testing"
	"time"

	"github.com/nspcc-dev/neo-go/pkg/core/transaction"
	"github.com/nspcc-dev/neo-go/pkg/util"
)

func TestProto(t *testing.T) {
	w := newWorld(t)
	for _, id := range []string{"", "cA", "cA.cB", "cA.nB.cC", "dyn.cA", "nC.dyn", "cB.qC", "cA.cB.cC"} {
		cp, err := w.parseChain(id)
		if err != nil {
			t.Fatal(err)
		}
		checks := make([][]check, len(cp.probe))
		for i := range checks {
			accs := []util.Uint160{w.hashes["S"], w.hashes["X"]}
			if i > 0 {
				accs = append(accs, w.hashes[cp.frames[cp.probe[i]-1].Name])
			}
			for _, a := range accs {
				checks[i] = append(checks[i], check{a, 0})
			}
			if cp.frames[cp.probe[i]].RS && id != "dyn.cA" && !(id == "nC.dyn" && i == 2) {
				checks[i] = append(checks[i], check{w.hashes["S"], 1})
			}
		}
		for _, sc := range []transaction.WitnessScope{transaction.Global, transaction.CalledByEntry, transaction.CustomGroups} {
			s := transaction.Signer{Account: w.hashes["S"], Scopes: sc}
			if sc == transaction.CustomGroups {
				s.AllowedGroups = append(s.AllowedGroups, w.gkeys["G2"].PublicKey())
			}
			t0 := time.Now()
			out, ok, f := w.run([]transaction.Signer{s}, w.buildPlan(cp, checks))
			t.Logf("%q scope=%v halted=%v fault=%q dt=%v\n   %v", id, sc, ok, f, time.Since(t0), out)
		}
	}
}
