package c17wire

import (
	"bytes"
	"encoding/binary"
	"encoding/json"
	"fmt"
	gio "io"
	"strings"

	"github.com/nspcc-dev/neo-go/pkg/io"
)

// ------------------------------------------------------------------------------------------------ field maps
//
// The layout of an encoding is LEARNT from the decoder itself, not restated: the valid encoding is decoded once through
// a reader that records every read the decoder makes (offset, length).  Every read is a field: a var-int prefix is a
// one-byte read (followed by a 2/4/8-byte read when not minimal), a hash a 32-byte read, a counted string a one-byte read
// followed by a read of that many bytes.

type field struct{ off, n int }

type recReader struct {
	r      *bytes.Reader
	pos    int
	fields []field
}

func (r *recReader) Read(p []byte) (int, error) {
	n, err := r.r.Read(p)
	if n > 0 {
		r.fields = append(r.fields, field{r.pos, n})
		r.pos += n
	}
	return n, err
}

// traceFields decodes b with dec through a recording reader and returns the fields read.
func traceFields(b []byte, dec func(*io.BinReader)) (fs []field, err error) {
	defer func() {
		if r := recover(); r != nil {
			err = fmt.Errorf("panic: %v", r)
		}
	}()
	rr := &recReader{r: bytes.NewReader(b)}
	br := io.NewBinReaderFromIO(rr)
	dec(br)
	return rr.fields, br.Err
}

func shift(fs []field, by int) []field {
	out := make([]field, len(fs))
	for i, f := range fs {
		out[i] = field{f.off + by, f.n}
	}
	return out
}

// ------------------------------------------------------------------------------------------------ byte operators

type mutCase struct {
	Fmts   string   `json:"fmts"` // "binary" / "json": the case applies to every format of that list; "list": the lists
	Binary []string `json:"binary"`
	JSON   []string `json:"json"`
	Fmt    string   `json:"fmt"`
	Op     string   `json:"op"`
	Anchor string   `json:"anchor"`
	K      int      `json:"k"`
	Tag    int      `json:"tag"`
}

func varint(v uint64) []byte {
	switch {
	case v < 0xfd:
		return []byte{byte(v)}
	case v <= 0xffff:
		return binary.LittleEndian.AppendUint16([]byte{0xfd}, uint16(v))
	case v <= 0xffffffff:
		return binary.LittleEndian.AppendUint32([]byte{0xfe}, uint32(v))
	}
	return binary.LittleEndian.AppendUint64([]byte{0xff}, v)
}

func splice(b []byte, off, n int, with []byte) []byte {
	out := make([]byte, 0, len(b)-n+len(with))
	out = append(out, b[:off]...)
	out = append(out, with...)
	return append(out, b[off+n:]...)
}

var counts = map[string]uint64{"cnt-17": 17, "cnt-256": 256, "cnt-64k": 65535, "cnt-64k1": 65536, "cnt-16m": 0x1000000,
	"cnt-16m1": 0x1000001, "cnt-2g": 0x7fffffff, "cnt-max": ^uint64(0)}

// applyMut returns the mutated encoding, or nil when the operator does not apply to that field.
func applyMut(b []byte, fs []field, c mutCase) []byte {
	if c.Op == "trail" {
		return append(bytes.Clone(b), bytes.Repeat([]byte{byte(c.Tag)}, c.K)...)
	}
	idx := c.K
	switch c.Anchor {
	case "tail":
		idx = len(fs) - 1 - c.K
	case "small": // the K-th one-byte field with a small value: counts, lengths, tags and flags wherever they lie
		idx = -1
		n := 0
		for i, f := range fs {
			if f.n == 1 && f.off < len(b) && b[f.off] < 0x40 {
				if n == c.K {
					idx = i
					break
				}
				n++
			}
		}
	}
	if idx < 0 || idx >= len(fs) {
		return nil
	}
	f := fs[idx]
	if f.off+f.n > len(b) {
		return nil
	}
	one := f.n == 1
	var v byte
	if one {
		v = b[f.off]
	}
	switch c.Op {
	case "nc-fd":
		if one && v < 0xfd {
			return splice(b, f.off, 1, []byte{0xfd, v, 0})
		}
	case "nc-fe":
		if one && v < 0xfd {
			return splice(b, f.off, 1, []byte{0xfe, v, 0, 0, 0})
		}
	case "nc-ff":
		if one && v < 0xfd {
			return splice(b, f.off, 1, []byte{0xff, v, 0, 0, 0, 0, 0, 0, 0})
		}
	case "len-inc":
		if one && v < 0xfc {
			return splice(b, f.off, 1, []byte{v + 1})
		}
	case "len-dec":
		if one && v > 0 && v < 0xfd {
			return splice(b, f.off, 1, []byte{v - 1})
		}
	case "trunc":
		if f.off > 0 {
			return bytes.Clone(b[:f.off])
		}
		return []byte{}
	case "trunc-mid":
		if f.n > 1 {
			return bytes.Clone(b[:f.off+f.n/2])
		}
	case "dup-field":
		return splice(b, f.off+f.n, 0, b[f.off:f.off+f.n])
	case "dup-span":
		last := min(idx+3, len(fs)-1)
		end := fs[last].off + fs[last].n
		if end <= len(b) && end-f.off <= 4096 {
			return splice(b, end, 0, b[f.off:end])
		}
	case "drop-field":
		return splice(b, f.off, f.n, nil)
	case "fill-00", "fill-ff":
		if f.n > 1 {
			x := byte(0)
			if c.Op == "fill-ff" {
				x = 0xff
			}
			return splice(b, f.off, f.n, bytes.Repeat([]byte{x}, f.n))
		}
	case "tag":
		if one && v != byte(c.Tag) {
			return splice(b, f.off, 1, []byte{byte(c.Tag)})
		}
	default:
		if n, ok := counts[c.Op]; ok && one {
			return splice(b, f.off, 1, varint(n))
		}
	}
	return nil
}

// ------------------------------------------------------------------------------------------------ JSON operators

// jnode is a JSON document that keeps member order and literal spellings.
type jnode struct {
	kind byte // 'o' object, 'a' array, 'l' literal (string / number / true / false / null as written)
	keys []string
	vals []*jnode
	lit  string
}

func parseJSON(data []byte) (*jnode, error) {
	d := json.NewDecoder(bytes.NewReader(data))
	d.UseNumber()
	n, err := parseNode(d)
	if err != nil {
		return nil, err
	}
	if _, err := d.Token(); err != gio.EOF {
		return nil, fmt.Errorf("trailing data")
	}
	return n, nil
}

func parseNode(d *json.Decoder) (*jnode, error) {
	t, err := d.Token()
	if err != nil {
		return nil, err
	}
	switch v := t.(type) {
	case json.Delim:
		switch v {
		case '{':
			n := &jnode{kind: 'o'}
			for d.More() {
				kt, err := d.Token()
				if err != nil {
					return nil, err
				}
				c, err := parseNode(d)
				if err != nil {
					return nil, err
				}
				n.keys = append(n.keys, kt.(string))
				n.vals = append(n.vals, c)
			}
			_, err := d.Token()
			return n, err
		case '[':
			n := &jnode{kind: 'a'}
			for d.More() {
				c, err := parseNode(d)
				if err != nil {
					return nil, err
				}
				n.vals = append(n.vals, c)
			}
			_, err := d.Token()
			return n, err
		}
		return nil, fmt.Errorf("unexpected delimiter")
	case string:
		b, _ := json.Marshal(v)
		return &jnode{kind: 'l', lit: string(b)}, nil
	case json.Number:
		return &jnode{kind: 'l', lit: v.String()}, nil
	case bool:
		if v {
			return &jnode{kind: 'l', lit: "true"}, nil
		}
		return &jnode{kind: 'l', lit: "false"}, nil
	case nil:
		return &jnode{kind: 'l', lit: "null"}, nil
	}
	return nil, fmt.Errorf("unexpected token")
}

func (n *jnode) write(sb *strings.Builder) {
	switch n.kind {
	case 'o':
		sb.WriteByte('{')
		for i := range n.keys {
			if i > 0 {
				sb.WriteByte(',')
			}
			k, _ := json.Marshal(n.keys[i])
			sb.Write(k)
			sb.WriteByte(':')
			n.vals[i].write(sb)
		}
		sb.WriteByte('}')
	case 'a':
		sb.WriteByte('[')
		for i := range n.vals {
			if i > 0 {
				sb.WriteByte(',')
			}
			n.vals[i].write(sb)
		}
		sb.WriteByte(']')
	default:
		sb.WriteString(n.lit)
	}
}

func (n *jnode) String() string {
	var sb strings.Builder
	n.write(&sb)
	return sb.String()
}

func (n *jnode) clone() *jnode {
	c := &jnode{kind: n.kind, lit: n.lit, keys: append([]string(nil), n.keys...)}
	for _, v := range n.vals {
		c.vals = append(c.vals, v.clone())
	}
	return c
}

// jref addresses a node by its parent and its position in it.
type jref struct {
	parent *jnode
	i      int
	node   *jnode
}

func (n *jnode) walk(parent *jnode, i int, out *[]jref) {
	*out = append(*out, jref{parent, i, n})
	for j, v := range n.vals {
		v.walk(n, j, out)
	}
}

func isString(n *jnode) bool { return n.kind == 'l' && strings.HasPrefix(n.lit, `"`) }
func isNumber(n *jnode) bool {
	return n.kind == 'l' && n.lit != "" && (n.lit[0] == '-' || (n.lit[0] >= '0' && n.lit[0] <= '9'))
}

// applyJSONMut returns the mutated document text, or "" when the operator does not apply to the k-th node (pre-order).
func applyJSONMut(doc *jnode, c mutCase) string {
	root := doc.clone()
	var refs []jref
	root.walk(nil, 0, &refs)
	if c.K >= len(refs) {
		return ""
	}
	r := refs[c.K]
	n := r.node
	set := func(with *jnode) bool {
		if r.parent == nil {
			*root = *with
		} else {
			r.parent.vals[r.i] = with
		}
		return true
	}
	lit := func(s string) *jnode { return &jnode{kind: 'l', lit: s} }
	ok := false
	switch c.Op {
	case "drop":
		if r.parent != nil && r.parent.kind == 'o' {
			r.parent.keys = append(r.parent.keys[:r.i:r.i], r.parent.keys[r.i+1:]...)
			r.parent.vals = append(r.parent.vals[:r.i:r.i], r.parent.vals[r.i+1:]...)
			ok = true
		}
	case "null":
		if n.lit != "null" {
			ok = set(lit("null"))
		}
	case "dup-elem":
		if n.kind == 'a' && len(n.vals) > 0 {
			n.vals = append(n.vals, n.vals[len(n.vals)-1].clone())
			ok = true
		}
	case "drop-elem":
		if n.kind == 'a' && len(n.vals) > 0 {
			n.vals = n.vals[:len(n.vals)-1]
			ok = true
		}
	case "to-number":
		if !isNumber(n) {
			ok = set(lit("1"))
		}
	case "to-string":
		if !isString(n) {
			ok = set(lit(`"x"`))
		}
	case "to-bool":
		if n.lit != "true" && n.lit != "false" {
			ok = set(lit("true"))
		}
	case "to-array":
		if n.kind != 'a' {
			ok = set(&jnode{kind: 'a', vals: []*jnode{n.clone()}})
		}
	case "to-object":
		if n.kind != 'o' {
			ok = set(&jnode{kind: 'o', keys: []string{"value"}, vals: []*jnode{n.clone()}})
		}
	case "big-number":
		if isNumber(n) {
			ok = set(lit("1" + strings.Repeat("0", 90)))
		} else if isString(n) && len(n.lit) > 2 && strings.Trim(n.lit, `"-0123456789`) == "" {
			ok = set(lit(`"1` + strings.Repeat("0", 90) + `"`))
		}
	case "negative":
		if isNumber(n) && n.lit[0] != '-' {
			ok = set(lit("-" + n.lit))
		} else if isString(n) && len(n.lit) > 2 && strings.Trim(n.lit, `"0123456789`) == "" {
			ok = set(lit(`"-` + n.lit[1:]))
		}
	case "fraction":
		if isNumber(n) {
			ok = set(lit(n.lit + ".5"))
		}
	case "deep":
		w := n.clone()
		for i := 0; i < 40; i++ {
			w = &jnode{kind: 'a', vals: []*jnode{w}}
		}
		ok = set(w)
	case "long-string":
		if isString(n) {
			ok = set(lit(`"` + strings.Repeat(strings.Trim(n.lit, `"`)+"A", 300) + `"`))
		}
	case "bogus-enum":
		if isString(n) {
			ok = set(lit(`"Bogus"`))
		}
	case "empty-string":
		if isString(n) && n.lit != `""` {
			ok = set(lit(`""`))
		}
	case "bad-base64":
		if isString(n) && len(n.lit) > 2 {
			ok = set(lit(n.lit[:len(n.lit)-1] + `*"`))
		}
	case "bad-hex":
		if isString(n) && len(n.lit) > 3 {
			ok = set(lit(n.lit[:len(n.lit)-2] + `"`))
		}
	case "dup-key":
		if n.kind == 'o' && len(n.keys) > 0 {
			n.keys = append(n.keys, n.keys[0])
			n.vals = append(n.vals, n.vals[0].clone())
			ok = true
		}
	}
	if !ok {
		return ""
	}
	return root.String()
}
