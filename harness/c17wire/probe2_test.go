//go:build verif

package c17wire

import (
	"fmt"
	"strings"
	"testing"

	"github.com/nspcc-dev/neo-go/pkg/vm/stackitem"
)

func try(name string, f func() error) string {
	var out string
	func() {
		defer func() {
			if r := recover(); r != nil {
				out = fmt.Sprintf("%s: PANIC %v", name, r)
			}
		}()
		err := f()
		out = fmt.Sprintf("%s: err=%v", name, err)
	}()
	return out
}

func TestProbeItems(t *testing.T) {
	t.Log(try("map-array-key", func() error { _, err := stackitem.Deserialize([]byte{0x48, 1, 0x40, 0, 0x21, 1, 1}); return err }))
	t.Log(try("map-bigkey", func() error {
		b := append([]byte{0x48, 1, 0x28, 65}, make([]byte, 65)...)
		b = append(b, 0x21, 1, 1)
		_, err := stackitem.Deserialize(b)
		return err
	}))
	t.Log(try("int33", func() error {
		b := append([]byte{0x21, 33}, make([]byte, 32)...)
		b = append(b, 1)
		_, err := stackitem.Deserialize(b)
		return err
	}))
	t.Log(try("json-bigint", func() error {
		_, err := stackitem.FromJSONWithTypes([]byte(`{"type":"Integer","value":"1` + strings.Repeat("0", 100) + `"}`))
		return err
	}))
	t.Log(try("json-plain-bigint", func() error {
		_, err := stackitem.FromJSON([]byte(`1`+strings.Repeat("0", 100)), 100, true)
		return err
	}))
}
