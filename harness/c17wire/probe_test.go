//go:build verif

package c17wire

import (
	"encoding/binary"
	"runtime"
	"testing"
	"time"

	"github.com/nspcc-dev/neo-go/pkg/config/netmode"
	"github.com/nspcc-dev/neo-go/pkg/consensus"
	"github.com/nspcc-dev/neo-go/pkg/io"
	"github.com/nspcc-dev/neo-go/pkg/network/payload"
	"github.com/nspcc-dev/neo-go/pkg/smartcontract/nef"
)

func measure(f func()) (uint64, time.Duration) {
	var a, b runtime.MemStats
	runtime.GC()
	runtime.ReadMemStats(&a)
	t := time.Now()
	f()
	d := time.Since(t)
	runtime.ReadMemStats(&b)
	return b.TotalAlloc - a.TotalAlloc, d
}

func TestProbeNEF(t *testing.T) {
	buf := make([]byte, 0, 100)
	buf = binary.LittleEndian.AppendUint32(buf, nef.Magic)
	buf = append(buf, make([]byte, 64)...)
	buf = append(buf, 0)    // source ""
	buf = append(buf, 0)    // reserved
	buf = append(buf, 0xfe, 0, 0, 0, 1) // 16M tokens
	al, d := measure(func() {
		_, err := nef.FileFromBytes(buf)
		t.Log(err)
	})
	t.Logf("nef: input %d bytes, alloc %d MB, %v", len(buf), al>>20, d)
}

func TestProbeRecovery(t *testing.T) {
	w := io.NewBufBinWriter()
	w.WriteB(0x41)
	w.WriteU32LE(5)
	w.WriteB(0)
	w.WriteB(0)
	w.WriteBytes([]byte{0xfe, 0, 0, 0, 1})
	e := payload.Extensible{Category: "dBFT", ValidBlockEnd: 5, Data: w.Bytes()}
	bw := io.NewBufBinWriter()
	e.EncodeBinary(bw.BinWriter)
	raw := bw.Bytes()
	al, d := measure(func() {
		p := consensus.NewPayload(netmode.UnitTestNet, false)
		r := io.NewBinReaderFromBuf(raw)
		p.DecodeBinary(r)
		t.Log(r.Err)
	})
	t.Logf("recovery: input %d bytes, alloc %d MB, %v", len(raw), al>>20, d)
}
