package c17wire

import (
	"bytes"
	"encoding/json"
	"errors"
	"fmt"
	"sort"

	"github.com/nspcc-dev/neo-go/pkg/core/block"
	"github.com/nspcc-dev/neo-go/pkg/core/mpt"
	"github.com/nspcc-dev/neo-go/pkg/core/state"
	"github.com/nspcc-dev/neo-go/pkg/core/transaction"
	"github.com/nspcc-dev/neo-go/pkg/io"
	"github.com/nspcc-dev/neo-go/pkg/neorpc/result"
	"github.com/nspcc-dev/neo-go/pkg/network"
	"github.com/nspcc-dev/neo-go/pkg/network/payload"
	"github.com/nspcc-dev/neo-go/pkg/services/stateroot"
	"github.com/nspcc-dev/neo-go/pkg/smartcontract/nef"
	"github.com/nspcc-dev/neo-go/pkg/vm/stackitem"
)

// formatT is a decoder FROM BYTES (binary or JSON text) with the matching encoder: what the decode law is judged on.
type formatT struct {
	name   string
	decode func(b []byte) (any, error)
	encode func(v any) ([]byte, error)
	// canon: the bytes the fixpoint is judged on when encode is not a function of the value alone (a compressed frame
	// depends on the compressor's internal state: the law is about the payload)
	canon func(v any) ([]byte, error)
	ident func(v any) string // reported hash and sizes of the decoded value
	// binary formats: the decoder run on a recording reader (field map); JSON formats: toBinary re-encodes the value
	// accepted from JSON in the binary form and decodes it (nil if the format has no binary form)
	trace    func(b []byte) ([]field, error)
	toBinary func(v any) error
}

func identOf(k *kindT) func(v any) string {
	return func(v any) string {
		sz := k.sizes(v)
		var names []string
		for n := range sz {
			names = append(names, n)
		}
		sort.Strings(names)
		s := k.hash(v)
		for _, n := range names {
			s += fmt.Sprintf(" %s=%d", n, sz[n])
		}
		return s
	}
}

func serTrace(fresh func() io.Serializable) func([]byte) ([]field, error) {
	return func(b []byte) ([]field, error) {
		return traceFields(b, func(r *io.BinReader) { fresh().DecodeBinary(r) })
	}
}

// kindFormat makes a binary format of a kind (decoder: the way objects of the kind arrive from bytes).
func kindFormat(ks map[string]*kindT, name, kind string, srih bool, fresh func() io.Serializable) *formatT {
	k := ks[kind]
	f := &formatT{name: name, encode: k.enc, ident: identOf(k)}
	f.decode = func(b []byte) (any, error) { return arrive(kind, b, srih)() }
	if fresh != nil {
		f.trace = serTrace(fresh)
	}
	return f
}

func plainFormat(name string, fresh func() io.Serializable) *formatT {
	return &formatT{name: name,
		decode: func(b []byte) (any, error) { v := fresh(); return v, decodeInto(b, v, false) },
		encode: func(v any) ([]byte, error) { return encode(v.(io.Serializable)) },
		ident:  func(v any) string { return fmt.Sprintf("GetVarSize=%d", varSize(v)) },
		trace:  serTrace(fresh)}
}

func messageFormat(name string, srih bool) *formatT {
	f := &formatT{name: name}
	f.decode = func(b []byte) (any, error) {
		m := &network.Message{StateRootInHeader: srih}
		r := io.NewBinReaderFromBuf(b)
		if err := m.Decode(r); err != nil {
			return nil, err
		}
		return m, nil
	}
	f.encode = func(v any) ([]byte, error) {
		m := v.(*network.Message)
		// a fresh message around the same payload: Bytes() decides about compression itself
		return network.NewMessage(m.Command, m.Payload).Bytes()
	}
	f.canon = func(v any) ([]byte, error) {
		m := v.(*network.Message)
		return network.NewMessage(m.Command, m.Payload).BytesCompressed(false)
	}
	f.ident = func(v any) string {
		m := v.(*network.Message)
		s := fmt.Sprintf("cmd=%s", m.Command)
		switch p := m.Payload.(type) {
		case *transaction.Transaction:
			s += fmt.Sprintf(" %s Size=%d", p.Hash().StringLE(), p.Size())
		case *block.Block:
			s += fmt.Sprintf(" %s size=%d", p.Hash().StringLE(), p.GetExpectedBlockSize())
		case *payload.Extensible:
			s += " " + p.Hash().StringLE()
		case *payload.P2PNotaryRequest:
			s += " " + p.Hash().StringLE()
		case *payload.Headers:
			for _, h := range p.Hdrs {
				s += " " + h.Hash().StringLE()
			}
		}
		if ser, ok := m.Payload.(io.Serializable); ok && m.Payload != nil {
			if _, null := m.Payload.(payload.NullPayload); !null {
				s += fmt.Sprintf(" GetVarSize=%d", varSize(ser))
			}
		}
		return s
	}
	f.trace = func(b []byte) ([]field, error) {
		// frame: flags, command, payload length; the payload's own fields when it is not compressed
		fs, err := traceFields(b, func(r *io.BinReader) {
			r.ReadB()
			r.ReadB()
			r.ReadVarUint()
		})
		if err != nil || len(b) == 0 || b[0]&byte(network.Compressed) != 0 {
			return fs, err
		}
		hdr := 0
		for _, x := range fs {
			hdr = x.off + x.n
		}
		m := &network.Message{StateRootInHeader: srih}
		if m.Decode(io.NewBinReaderFromBuf(b)) != nil || m.Payload == nil {
			return fs, nil
		}
		var ps []field
		switch p := m.Payload.(type) {
		case *transaction.Transaction:
			ps, _ = traceFields(b[hdr:], func(r *io.BinReader) { (&transaction.Transaction{}).DecodeBinary(r) })
		case *block.Block:
			ps, _ = traceFields(b[hdr:], func(r *io.BinReader) { block.New(srih).DecodeBinary(r) })
		case *payload.Headers:
			ps, _ = traceFields(b[hdr:], func(r *io.BinReader) { (&payload.Headers{StateRootInHeader: srih}).DecodeBinary(r) })
		case payload.NullPayload:
		default:
			_ = p
			ps, _ = traceFields(b[hdr:], func(r *io.BinReader) {
				if fresh := freshPayload(m.Command); fresh != nil {
					fresh.DecodeBinary(r)
				}
			})
		}
		return append(fs, shift(ps, hdr)...), nil
	}
	return f
}

func freshPayload(c network.CommandType) payload.Payload {
	switch c {
	case network.CMDVersion:
		return &payload.Version{}
	case network.CMDInv, network.CMDGetData, network.CMDNotFound:
		return &payload.Inventory{}
	case network.CMDGetMPTData:
		return &payload.MPTInventory{}
	case network.CMDMPTData:
		return &payload.MPTData{}
	case network.CMDAddr:
		return &payload.AddressList{}
	case network.CMDExtensible:
		return payload.NewExtensible()
	case network.CMDP2PNotaryRequest:
		return &payload.P2PNotaryRequest{}
	case network.CMDGetBlocks:
		return &payload.GetBlocks{}
	case network.CMDGetHeaders, network.CMDGetBlockByIndex:
		return &payload.GetBlockByIndex{}
	case network.CMDMerkleBlock:
		return &payload.MerkleBlock{}
	case network.CMDPing, network.CMDPong:
		return &payload.Ping{}
	}
	return nil
}

func binaryFormats(ks map[string]*kindT) map[string]*formatT {
	m := map[string]*formatT{}
	add := func(f *formatT) { m[f.name] = f }
	add(kindFormat(ks, "tx-frombytes", "tx", false, func() io.Serializable { return &transaction.Transaction{} }))
	tx := kindFormat(ks, "tx", "tx", false, func() io.Serializable { return &transaction.Transaction{} })
	tx.decode = func(b []byte) (any, error) { t := &transaction.Transaction{}; return t, decodeInto(b, t, false) }
	add(tx)
	add(kindFormat(ks, "block", "block", false, func() io.Serializable { return block.New(false) }))
	add(kindFormat(ks, "block-sr", "block", true, func() io.Serializable { return block.New(true) }))
	add(kindFormat(ks, "header", "header", false, func() io.Serializable { return &block.Header{} }))
	add(kindFormat(ks, "header-sr", "header", true, func() io.Serializable { return &block.Header{StateRootEnabled: true} }))
	add(plainFormat("witness", func() io.Serializable { return &transaction.Witness{} }))
	add(kindFormat(ks, "signer", "signer", false, func() io.Serializable { return &transaction.Signer{} }))
	add(kindFormat(ks, "rule", "rule", false, func() io.Serializable { return &transaction.WitnessRule{} }))
	add(plainFormat("attr", func() io.Serializable { return &transaction.Attribute{} }))
	for _, n := range []string{"tx", "block", "headers", "ext", "notary", "inv", "version", "addr", "ping", "getblocks", "getblockbyindex", "merkleblock",
		"mptdata", "mptinv"} {
		add(messageFormat("message-"+n, false))
	}
	add(kindFormat(ks, "extensible", "extensible", false, func() io.Serializable { return payload.NewExtensible() }))
	for _, n := range []string{"changeview", "preparerequest", "prepareresponse", "commit", "recoveryrequest", "recoverymessage"} {
		f := kindFormat(ks, "consensus-"+n, "consensus", false, nil)
		f.trace = func(b []byte) ([]field, error) {
			// the dBFT message travels as the Data of an extensible payload and is decoded from a buffer of its own:
			// every byte of Data is a field here (the message types are private, their layout is not restated), followed
			// by the fields of the witness
			fs, err := traceFields(b, func(r *io.BinReader) { payload.NewExtensible().DecodeBinary(r) })
			if err != nil {
				return fs, err
			}
			var out []field
			for _, x := range fs {
				if x.n > 40 && len(out) == 0 { // Data: the first long field after category / sender
					for i := 0; i < x.n; i++ {
						out = append(out, field{x.off + i, 1})
					}
				} else if len(out) > 0 {
					out = append(out, x)
				}
			}
			if len(out) == 0 {
				return fs, nil
			}
			return out, nil
		}
		add(f)
	}
	add(kindFormat(ks, "notaryreq", "notaryreq", false, func() io.Serializable { return &payload.P2PNotaryRequest{} }))
	add(kindFormat(ks, "stateroot", "stateroot", false, func() io.Serializable { return &state.MPTRoot{} }))
	add(plainFormat("stateroot-msg", func() io.Serializable { return &stateroot.Message{} }))
	add(kindFormat(ks, "mptnode", "mptnode", false, nil))
	m["mptnode"].trace = func(b []byte) ([]field, error) {
		return traceFields(b, func(r *io.BinReader) { arriveReader("mptnode", r) })
	}
	add(plainFormat("mptproof", func() io.Serializable { return &result.ProofWithKey{} }))
	add(kindFormat(ks, "nef", "nef", false, nil))
	m["nef"].trace = func(b []byte) ([]field, error) {
		return traceFields(b, func(r *io.BinReader) { arriveReader("nef", r) })
	}
	add(kindFormat(ks, "item-protected", "item", false, nil))
	m["item-protected"].encode = func(v any) ([]byte, error) { // the marker of an invalid item is a legal output of this form
		w := io.NewBufBinWriter()
		stackitem.EncodeBinaryProtected(v.(*itemObj).it, w.BinWriter)
		if w.Err != nil {
			return nil, w.Err
		}
		return w.Bytes(), nil
	}
	m["item-protected"].trace = func(b []byte) ([]field, error) {
		return traceFields(b, func(r *io.BinReader) { stackitem.DecodeBinaryProtected(r) })
	}
	item := kindFormat(ks, "item", "item", false, nil)
	item.decode = func(b []byte) (any, error) {
		it, err := stackitem.Deserialize(b)
		return &itemObj{it}, err
	}
	item.encode = func(v any) ([]byte, error) { return stackitem.Serialize(v.(*itemObj).it) }
	item.trace = func(b []byte) ([]field, error) {
		return traceFields(b, func(r *io.BinReader) { stackitem.DecodeBinary(r) })
	}
	add(item)
	add(kindFormat(ks, "aer", "aer", false, func() io.Serializable { return &state.AppExecResult{} }))
	add(plainFormat("notification", func() io.Serializable { return &state.NotificationEvent{} }))
	add(kindFormat(ks, "contract", "contract", false, nil))
	m["contract"].trace = func(b []byte) ([]field, error) {
		return traceFields(b, func(r *io.BinReader) { stackitem.DecodeBinary(r) })
	}
	add(&formatT{name: "trimmed-block",
		decode: func(b []byte) (any, error) { return block.NewTrimmedFromReader(false, io.NewBinReaderFromBuf(b)) },
		encode: func(v any) ([]byte, error) {
			w := io.NewBufBinWriter()
			v.(*block.Block).EncodeTrimmed(w.BinWriter)
			if w.Err != nil {
				return nil, w.Err
			}
			return w.Bytes(), nil
		},
		ident: func(v any) string { return v.(*block.Block).Hash().StringLE() },
		trace: func(b []byte) ([]field, error) {
			return traceFields(b, func(r *io.BinReader) { _, _ = block.NewTrimmedFromReader(false, r) })
		}})
	return m
}

// arriveReader runs the kind's decoder on a given reader (for field maps of kinds that have no Serializable zero value).
func arriveReader(kind string, r *io.BinReader) {
	switch kind {
	case "mptnode":
		var n mpt.NodeObject
		n.DecodeBinary(r)
	case "nef":
		(&nef.File{}).DecodeBinary(r)
	}
}

// ------------------------------------------------------------------------------------------------ JSON formats

func jsonFormats(ks map[string]*kindT) map[string]*formatT {
	m := map[string]*formatT{}
	fromKind := func(name, kind string, like any) {
		k := ks[kind]
		f := &formatT{name: name, ident: identOf(k)}
		f.decode = func(b []byte) (any, error) { return k.jdec(b, like) }
		f.encode = k.jenc
		f.toBinary = func(v any) error {
			raw, err := k.enc(v)
			if err != nil {
				return fmt.Errorf("encode: %w", err)
			}
			srih := false
			switch l := like.(type) {
			case *block.Block:
				srih = l.StateRootEnabled
			case *block.Header:
				srih = l.StateRootEnabled
			}
			v2, err := arrive(kind, raw, srih)()
			if err != nil {
				return fmt.Errorf("decode: %w", err)
			}
			raw2, err := k.enc(v2)
			if err != nil {
				return fmt.Errorf("re-encode: %w", err)
			}
			if !bytes.Equal(raw, raw2) {
				return errors.New("binary form changes the value")
			}
			if k.hash(v) != k.hash(v2) {
				return errors.New("binary form changes the hash")
			}
			return nil
		}
		m[name] = f
	}
	fromKind("tx", "tx", nil)
	fromKind("block", "block", block.New(false))
	fromKind("header", "header", &block.Header{})
	fromKind("signer", "signer", nil)
	fromKind("rule", "rule", nil)
	fromKind("stateroot", "stateroot", nil)
	fromKind("notaryreq", "notaryreq", nil)
	fromKind("applog", "aer", nil)
	fromKind("nef", "nef", nil)
	fromKind("manifest", "manifest", nil)
	m["manifest"].toBinary = func(v any) error { // the stored form of a manifest is its stack item
		_, err := ks["manifest"].hop["db"](v, "")
		return err
	}
	fromKind("contract", "contract", nil)
	fromKind("item", "item", nil)
	fromKind("mptnode", "mptnode", nil)
	plain := func(name string, fresh func() any, bin bool) {
		f := &formatT{name: name, ident: func(v any) string { return "" }}
		f.decode = func(b []byte) (any, error) { v := fresh(); return v, json.Unmarshal(b, v) }
		f.encode = func(v any) ([]byte, error) { return json.Marshal(v) }
		if bin {
			f.toBinary = func(v any) error {
				raw, err := encode(v.(io.Serializable))
				if err != nil {
					return fmt.Errorf("encode: %w", err)
				}
				v2 := fresh()
				if err := decodeInto(raw, v2.(io.Serializable), true); err != nil {
					return fmt.Errorf("decode: %w", err)
				}
				raw2, err := encode(v2.(io.Serializable))
				if err != nil || !bytes.Equal(raw, raw2) {
					return errors.New("binary form changes the value")
				}
				return nil
			}
		}
		m[name] = f
	}
	plain("attr", func() any { return &transaction.Attribute{} }, true)
	plain("witness", func() any { return &transaction.Witness{} }, true)
	plain("aer", func() any { return &state.AppExecResult{} }, true)
	plain("notification", func() any { return &state.NotificationEvent{} }, true)
	m["item-plain"] = &formatT{name: "item-plain", ident: func(v any) string { return "" },
		decode: func(b []byte) (any, error) {
			it, err := stackitem.FromJSON(b, stackitem.MaxDeserialized, true)
			return &itemObj{it}, err
		},
		encode: func(v any) ([]byte, error) { return stackitem.ToJSON(v.(*itemObj).it) }}
	return m
}
