package c17wire

import (
	"bytes"
	"crypto/sha256"
	"encoding/binary"
	"encoding/json"
	"fmt"
	"math/rand"
	"strings"
	"testing"

	"github.com/nspcc-dev/neo-go/pkg/config"
	"github.com/nspcc-dev/neo-go/pkg/core"
	"github.com/nspcc-dev/neo-go/pkg/core/block"
	"github.com/nspcc-dev/neo-go/pkg/core/mpt"
	"github.com/nspcc-dev/neo-go/pkg/core/state"
	"github.com/nspcc-dev/neo-go/pkg/core/storage"
	"github.com/nspcc-dev/neo-go/pkg/core/transaction"
	"github.com/nspcc-dev/neo-go/pkg/crypto/hash"
	"github.com/nspcc-dev/neo-go/pkg/io"
	"github.com/nspcc-dev/neo-go/pkg/network/payload"
	"github.com/nspcc-dev/neo-go/pkg/smartcontract/nef"
	"github.com/nspcc-dev/neo-go/pkg/smartcontract/trigger"
	"github.com/nspcc-dev/neo-go/pkg/util"
	"github.com/nspcc-dev/neo-go/pkg/vm/opcode"
	"github.com/nspcc-dev/neo-go/pkg/vm/stackitem"

	"verifharness/internal/chainkit"
	"verifharness/internal/histgen"
	"verifharness/internal/vh"
)

// valueT is one object of the value universe as it ARRIVES at the node: fresh() makes a new object from the arriving
// form every time (paths never share an object).
type valueT struct {
	kind   string
	cls    string // class of the value (part of violation signatures)
	src    string // "chain" (grown by histgen on a real ledger), "enum" (instantiated from a TLC shape), "hand"
	origin string // canon | nc-signed | nc-unsigned
	fresh  func() (any, error)
	// expected observations, computed by the harness from the canonical bytes (not by the object's own Hash())
	h0      string
	b0      []byte
	deep    bool // take part in paths of two transports
	deeper  bool // take part in paths of three transports
	deepest bool // take part in the longest paths
}

func sha(b []byte) util.Uint256 { return util.Uint256(sha256.Sum256(b)) }

func witnessLen(w *transaction.Witness) int {
	b, _ := encode(w)
	return len(b)
}

// expectedHash is the DEFINITION of the object's hash applied by the harness to the canonical bytes: the digest of the
// signed part of the encoding.
func expectedHash(kind string, v any, canon []byte) string {
	switch kind {
	case "tx":
		t := v.(*transaction.Transaction)
		n := len(varint(uint64(len(t.Scripts))))
		for i := range t.Scripts {
			n += witnessLen(&t.Scripts[i])
		}
		return sha(canon[:len(canon)-n]).StringLE()
	case "header":
		h := v.(*block.Header)
		return sha(canon[:len(canon)-1-witnessLen(&h.Script)]).StringLE()
	case "block":
		b := v.(*block.Block)
		hb, _ := encode(&b.Header)
		return sha(hb[:len(hb)-1-witnessLen(&b.Script)]).StringLE()
	case "extensible":
		e := v.(*payload.Extensible)
		return sha(canon[:len(canon)-1-witnessLen(&e.Witness)]).StringLE()
	case "consensus":
		e := &v.(*consensusObj).p.Extensible
		return sha(canon[:len(canon)-1-witnessLen(&e.Witness)]).StringLE()
	case "stateroot":
		return sha(canon[:1+4+32]).StringLE()
	case "notaryreq":
		r := v.(*payload.P2PNotaryRequest)
		return sha(canon[:len(canon)-witnessLen(&r.Witness)]).StringLE()
	case "mptnode":
		switch mpt.NodeType(canon[0]) {
		case mpt.HashT:
			h, _ := util.Uint256DecodeBytesBE(canon[1:])
			return h.StringLE()
		case mpt.EmptyT:
			return ""
		}
		return hash.DoubleSha256(canon).StringLE()
	case "nef":
		c := binary.LittleEndian.Uint32(hash.Checksum(canon[:len(canon)-4]))
		return fmt.Sprintf("%08x/%08x", c, c)
	}
	return ""
}

// mkValue completes a value: canonical bytes and expected hash from the first fresh object.
func mkValue(ks map[string]*kindT, v *valueT) (*valueT, error) {
	o, err := v.fresh()
	if err != nil {
		return nil, fmt.Errorf("%s/%s does not arrive: %w", v.kind, v.cls, err)
	}
	b, err := ks[v.kind].enc(o)
	if err != nil {
		return nil, fmt.Errorf("%s/%s cannot be encoded: %w", v.kind, v.cls, err)
	}
	v.b0 = bytes.Clone(b)
	v.h0 = expectedHash(v.kind, o, v.b0)
	if v.origin == "" {
		v.origin = "canon"
	}
	return v, nil
}

// ------------------------------------------------------------------------------------------------ arrival from bytes

func arrive(kind string, raw []byte, srih bool) func() (any, error) {
	raw = bytes.Clone(raw)
	switch kind {
	case "tx":
		return func() (any, error) { return transaction.NewTransactionFromBytes(raw) }
	case "block":
		return func() (any, error) { b := block.New(srih); return b, decodeInto(raw, b, true) }
	case "header":
		return func() (any, error) { h := &block.Header{StateRootEnabled: srih}; return h, decodeInto(raw, h, true) }
	case "stateroot":
		return func() (any, error) { s := &state.MPTRoot{}; return s, decodeInto(raw, s, true) }
	case "extensible":
		return func() (any, error) { e := payload.NewExtensible(); return e, decodeInto(raw, e, true) }
	case "consensus":
		return func() (any, error) { return decodeConsensus(raw, srih) }
	case "notaryreq":
		return func() (any, error) { return payload.NewP2PNotaryRequestFromBytes(raw) }
	case "aer":
		return func() (any, error) { a := &state.AppExecResult{}; return a, decodeInto(raw, a, true) }
	case "nef":
		return func() (any, error) { n, err := nef.FileFromBytes(raw); return &n, err }
	case "manifest":
		return func() (any, error) { return decodeManifest(raw) }
	case "contract":
		return func() (any, error) { c := &state.Contract{}; return c, stackitem.DeserializeConvertible(raw, c) }
	case "mptnode":
		return func() (any, error) {
			var n mpt.NodeObject
			err := decodeInto(raw, &n, true)
			return n.Node, err
		}
	case "rule":
		return func() (any, error) { r := &transaction.WitnessRule{}; return r, decodeInto(raw, r, true) }
	case "signer":
		return func() (any, error) { s := &transaction.Signer{}; return s, decodeInto(raw, s, true) }
	case "item":
		return func() (any, error) {
			r := io.NewBinReaderFromBuf(raw)
			it := stackitem.DecodeBinaryProtected(r)
			return &itemObj{it}, r.Err
		}
	}
	panic("no arrival for " + kind)
}

func fromBytes(ks map[string]*kindT, kind, cls, src string, raw []byte, srih bool) (*valueT, error) {
	return mkValue(ks, &valueT{kind: kind, cls: cls, src: src, fresh: arrive(kind, raw, srih)})
}

// nonCanonical derives, WITHOUT knowledge of the layout, encodings of the same content that differ from the canonical
// one: a one-byte field of the recorded field map is rewritten as a 3-byte var-int; the result is kept if the decoder
// still accepts it and the decoded object re-encodes to the canonical bytes.
func nonCanonical(ks map[string]*kindT, v *valueT, trace func([]byte) ([]field, error), signedLen int, srih bool, max int) []*valueT {
	fs, err := trace(v.b0)
	if err != nil {
		return nil
	}
	var out []*valueT
	seenSigned, seenUnsigned := 0, 0
	for i, f := range fs {
		m := applyMut(v.b0, fs, mutCase{Op: "nc-fd", Anchor: "head", K: i})
		if m == nil {
			continue
		}
		signed := f.off < signedLen
		if (signed && seenSigned >= max) || (!signed && seenUnsigned >= max) {
			continue
		}
		fr := arrive(v.kind, m, srih)
		o, err := fr()
		if err != nil {
			continue
		}
		b, err := ks[v.kind].enc(o)
		if err != nil || !bytes.Equal(b, v.b0) {
			continue
		}
		org := "nc-unsigned"
		if signed {
			org = "nc-signed"
			seenSigned++
		} else {
			seenUnsigned++
		}
		out = append(out, &valueT{kind: v.kind, cls: v.cls, src: v.src, origin: org, fresh: fr, h0: v.h0, b0: v.b0, deep: true})
	}
	return out
}

// ------------------------------------------------------------------------------------------------ chain-grown values

type chainVals struct {
	srih   bool
	vals   []*valueT
	checks []map[string]any // "chaindb" hop events: what the real ledger returns equals what was generated
	stats  map[string]int
}

func txClass(tx *transaction.Transaction) string {
	var parts []string
	for _, a := range tx.Attributes {
		parts = append(parts, a.Type.String())
	}
	sc := map[string]bool{}
	for _, s := range tx.Signers {
		sc[s.Scopes.String()] = true
	}
	cls := fmt.Sprintf("signers=%d", len(tx.Signers))
	if len(parts) > 0 {
		cls += " attrs=" + strings.Join(parts, "+")
	}
	return cls
}

func aerClass(a *state.AppExecResult) string {
	kinds := map[string]bool{}
	var walk func(it stackitem.Item, d int)
	walk = func(it stackitem.Item, d int) {
		if it == nil || d > 8 {
			return
		}
		kinds[it.Type().String()] = true
		switch v := it.Value().(type) {
		case []stackitem.Item:
			for _, e := range v {
				walk(e, d+1)
			}
		case []stackitem.MapElement:
			for _, e := range v {
				walk(e.Key, d+1)
				walk(e.Value, d+1)
			}
		}
	}
	for _, it := range a.Stack {
		walk(it, 0)
	}
	inv := ""
	if len(a.Invocations) > 0 {
		inv = fmt.Sprintf(" invocations=%d", len(a.Invocations))
	}
	return fmt.Sprintf("%s %s stack=%d events=%d%s", a.Trigger, a.VMState, len(a.Stack), len(a.Events), inv)
}

func growChain(t testing.TB, ks map[string]*kindT, srih bool, seed int64, nblocks, maxTx int) (*chainVals, error) {
	cv := &chainVals{srih: srih, stats: map[string]int{}}
	net := chainkit.NewNet(5, 3)
	bc, err := net.NewChain(nil, func(c *config.Blockchain) { c.StateRootInHeader = srih; c.SaveInvocations = srih })
	if err != nil {
		return nil, err
	}
	chainkit.Start(bc)
	defer bc.Close()
	gen := histgen.New(t, net, bc, seed, 8)
	gen.Weights["kvfail"] = 7
	gen.Weights["kvtry"] = 6
	gen.Weights["notify"] = 6
	gen.Weights["deploy"] = 4
	gen.Weights["oraclereq"] = 5
	gen.Weights["oracleresp"] = 6
	var blocks []*block.Block
	var raws [][]byte
	for i := 0; i < nblocks; i++ {
		b, err := gen.NextBlock(maxTx)
		if err != nil {
			return nil, err
		}
		raw, err := chainkit.EncodeBlock(b)
		if err != nil {
			return nil, err
		}
		blocks = append(blocks, b)
		raws = append(raws, raw)
	}
	if err := bc.VerifPersist(); err != nil {
		return nil, err
	}
	add := func(v *valueT, err error) {
		if err != nil {
			t.Fatalf("chain value: %v", err)
		}
		cv.vals = append(cv.vals, v)
		cv.stats[v.kind]++
	}
	seenTx := map[string]bool{}
	seenAER := map[string]bool{}
	for i, b := range blocks {
		deep := i%4 == 0
		v, err := fromBytes(ks, "block", fmt.Sprintf("txs=%d sr=%v", len(b.Transactions), srih), "chain", raws[i], srih)
		if v != nil {
			v.deep = deep
		}
		add(v, err)
		hraw, _ := encode(&b.Header)
		v, err = fromBytes(ks, "header", fmt.Sprintf("sr=%v", srih), "chain", hraw, srih)
		if v != nil {
			v.deep = deep
		}
		add(v, err)
		// what the ledger returns for the block, its transactions and their execution results
		cv.checks = append(cv.checks, chainCheck(ks, bc, b, raws[i])...)
		for _, tx := range b.Transactions {
			cls := txClass(tx)
			v, err := fromBytes(ks, "tx", cls, "chain", tx.Bytes(), srih)
			if v != nil {
				v.deep = !seenTx[cls]
			}
			seenTx[cls] = true
			add(v, err)
		}
		var hs []util.Uint256
		hs = append(hs, b.Hash())
		for _, tx := range b.Transactions {
			hs = append(hs, tx.Hash())
		}
		for _, h := range hs {
			aers, err := bc.GetAppExecResults(h, trigger.All)
			if err != nil {
				return nil, err
			}
			for j := range aers {
				raw, err := encode(&aers[j])
				if err != nil {
					return nil, err
				}
				cls := aerClass(&aers[j])
				v, err := fromBytes(ks, "aer", cls, "chain", raw, srih)
				if v != nil {
					v.deep = !seenAER[cls]
				}
				seenAER[cls] = true
				add(v, err)
				for _, ev := range aers[j].Events {
					raw, err := stackitem.Serialize(ev.Item)
					if err == nil && cv.stats["item"] < 60 {
						v, err := fromBytes(ks, "item", "notification "+ev.Name, "chain", raw, srih)
						add(v, err)
					}
				}
			}
		}
		if sr, err := bc.GetStateModule().GetStateRoot(b.Index); err == nil && i%3 == 0 {
			raw, _ := encode(sr)
			v, err := fromBytes(ks, "stateroot", "local", "chain", raw, srih)
			if v != nil {
				v.deep = i%12 == 0
			}
			add(v, err)
		}
	}
	// contract states (natives and deployed), their NEFs and manifests
	var cs []*state.Contract
	for _, n := range bc.GetNatives() {
		c := n
		cs = append(cs, &c)
	}
	for _, h := range gen.AllKVs {
		if c := bc.GetContractState(h); c != nil {
			cs = append(cs, c)
		}
	}
	for i, c := range cs {
		raw, err := stackitem.SerializeConvertible(c)
		if err != nil {
			return nil, err
		}
		cls := "deployed"
		if c.ID < 0 {
			cls = "native"
		}
		v, err := fromBytes(ks, "contract", cls, "chain", raw, srih)
		if v != nil {
			v.deep = i%3 == 0
		}
		add(v, err)
		nraw, err := c.NEF.Bytes()
		if err != nil {
			return nil, err
		}
		v, err = fromBytes(ks, "nef", cls, "chain", nraw, srih)
		if v != nil {
			v.deep = i%3 == 0
		}
		add(v, err)
		mraw, err := json.Marshal(&c.Manifest)
		if err != nil {
			return nil, err
		}
		v, err = fromBytes(ks, "manifest", cls, "chain", mraw, srih)
		if v != nil {
			v.deep = i%3 == 0
		}
		add(v, err)
	}
	// trie nodes of the real state: proofs of storage keys of the last root
	root := bc.GetStateModule().CurrentLocalStateRoot()
	seenNode := map[string]bool{}
	n := 0
	bc.GetStateModule().SeekStates(root, nil, func(k, _ []byte) bool {
		n++
		if n%7 != 0 {
			return true
		}
		proof, err := bc.GetStateModule().GetStateProof(root, k)
		if err != nil {
			return true
		}
		for _, nb := range proof {
			if seenNode[string(nb)] || len(nb) == 0 {
				continue
			}
			seenNode[string(nb)] = true
			cls := []string{"branch", "extension", "leaf", "hash", "empty"}[min(int(nb[0]), 4)]
			v, err := fromBytes(ks, "mptnode", cls, "chain", nb, srih)
			if v != nil {
				v.deep = cv.stats["mptnode"]%10 == 0
			}
			add(v, err)
		}
		return cv.stats["mptnode"] < 150
	})
	for k, n := range gen.Stats {
		cv.stats["gen:"+k] = n
	}
	return cv, nil
}

// chainCheck compares what the real ledger gives back (database path of the node itself) with what was generated.
func chainCheck(ks map[string]*kindT, bc *core.Blockchain, b *block.Block, raw []byte) []map[string]any {
	var evs []map[string]any
	ev := func(kind, cls string, want []byte, wantHash string, got any, err error) {
		e := map[string]any{"event": "hop", "kind": kind, "cls": cls, "src": "chain", "origin": "canon", "path": []string{"chaindb"}, "tr": "chaindb",
			"h0": wantHash, "b0": dig(want), "panic": false, "err": ""}
		if err != nil {
			e["err"] = err.Error()
		} else {
			o := observe(ks[kind], got)
			e["ha"], e["ba"], e["len"], e["sizes"], e["eq"] = o.hash, dig(o.bytes), len(o.bytes), sizeList(o.sizes), bytes.Equal(o.bytes, want)
			if o.err != "" {
				e["err"] = o.err
			}
		}
		evs = append(evs, e)
	}
	nb, err := bc.GetBlock(b.Hash())
	ev("block", "ledger", raw, b.Hash().StringLE(), nb, err)
	hd, err := bc.GetHeader(b.Hash())
	hraw, _ := encode(&b.Header)
	ev("header", "ledger", hraw, b.Hash().StringLE(), hd, err)
	for _, tx := range b.Transactions {
		nt, _, err := bc.GetTransaction(tx.Hash())
		ev("tx", "ledger", tx.Bytes(), tx.Hash().StringLE(), nt, err)
	}
	return evs
}

// ------------------------------------------------------------------------------------------------ hand-made values

func rnd(r *rand.Rand, n int) []byte {
	b := make([]byte, n)
	r.Read(b)
	return b
}

func u160(r *rand.Rand) (u util.Uint160) { r.Read(u[:]); return }
func u256(r *rand.Rand) (u util.Uint256) { r.Read(u[:]); return }

// sizedTx returns a transaction whose encoding has exactly `size` bytes (script filled with compressible or random bytes).
func sizedTx(r *rand.Rand, size int, random bool) *transaction.Transaction {
	tx := carrierTx(transaction.Signer{Account: u160(r), Scopes: transaction.CalledByEntry})
	tx.Scripts[0] = transaction.Witness{InvocationScript: rnd(r, 66), VerificationScript: rnd(r, 40)}
	for n := 1; n < 70000; n++ {
		base := len(tx.Bytes()) - len(tx.Script) - len(varint(uint64(len(tx.Script))))
		want := size - base
		if want < 1 {
			want = 1
		}
		l := want - len(varint(uint64(want)))
		if l < 1 {
			l = 1
		}
		if random {
			tx.Script = rnd(r, l)
		} else {
			tx.Script = bytes.Repeat([]byte{byte(opcode.NOP)}, l)
		}
		if len(tx.Bytes()) == size || n > 3 {
			break
		}
	}
	return tx
}

func handValues(ks map[string]*kindT, r *rand.Rand) []*valueT {
	var out []*valueT
	add := func(kind, cls string, raw []byte, srih, deep bool) {
		v, err := fromBytes(ks, kind, cls, "hand", raw, srih)
		if err != nil {
			panic(err)
		}
		v.deep = deep
		out = append(out, v)
	}
	// sizes around the compression threshold of network.Message (payload > 1024 is compressed)
	for _, sz := range []int{1023, 1024, 1025, 1026, 2048, 65000} {
		for _, random := range []bool{false, true} {
			tx := sizedTx(r, sz, random)
			add("tx", fmt.Sprintf("size=%d random=%v", len(tx.Bytes()), random), tx.Bytes(), false, sz == 1024 || sz == 1025)
		}
	}
	// extensible payloads: category lengths, data sizes around the threshold, and the six consensus messages
	wit := transaction.Witness{InvocationScript: rnd(r, 66), VerificationScript: rnd(r, 35)}
	for _, cat := range []string{"", "x", "dBFT", strings.Repeat("c", 32)} {
		for _, n := range []int{0, 1, 900, 940, 941, 942, 943, 70000} {
			e := &payload.Extensible{Category: cat, ValidBlockStart: 1, ValidBlockEnd: 100, Sender: u160(r), Data: rnd(r, n), Witness: wit}
			raw, _ := encode(e)
			add("extensible", fmt.Sprintf("cat=%d data=%d size=%d", len(cat), n, len(raw)), raw, false, n == 1 || n == 942)
		}
	}
	for _, srih := range []bool{false, true} {
		for name, data := range consensusMessages(r, srih) {
			e := &payload.Extensible{Category: payload.ConsensusCategory, ValidBlockStart: 0, ValidBlockEnd: 12, Sender: u160(r), Data: data, Witness: wit}
			raw, _ := encode(e)
			add("consensus", fmt.Sprintf("%s sr=%v", name, srih), raw, srih, true)
		}
	}
	// state roots with and without a witness
	for _, w := range [][]transaction.Witness{nil, {wit}} {
		s := &state.MPTRoot{Version: 0, Index: r.Uint32(), Root: u256(r), Witness: w}
		raw, _ := encode(s)
		add("stateroot", fmt.Sprintf("witnesses=%d", len(w)), raw, false, true)
	}
	// notary requests
	for _, nkeys := range []uint8{1, 4, 255} {
		req := notaryRequest(r, nkeys, 1+int(nkeys)%3)
		raw, err := req.Bytes()
		if err != nil {
			panic(err)
		}
		add("notaryreq", fmt.Sprintf("nkeys=%d", nkeys), raw, false, true)
	}
	// trie nodes built by a real trie over keys with common prefixes
	tr := mpt.NewTrie(nil, mpt.ModeAll, storage.NewMemCachedStore(storage.NewMemoryStore()))
	keys := [][]byte{{1}, {1, 2}, {1, 2, 3}, {1, 3}, {0xff}, {0xff, 0xff}, {0}, rnd(r, 40), rnd(r, 64)}
	for i, k := range keys {
		val := rnd(r, 1+i*7)
		if i == 3 {
			val = rnd(r, 1000)
		}
		if err := tr.Put(k, val); err != nil {
			panic(err)
		}
	}
	seen := map[string]bool{}
	for _, k := range keys {
		proof, err := tr.GetProof(k)
		if err != nil {
			panic(err)
		}
		for _, nb := range proof {
			if !seen[string(nb)] {
				seen[string(nb)] = true
				add("mptnode", []string{"branch", "extension", "leaf", "hash", "empty"}[min(int(nb[0]), 4)], nb, false, len(seen)%3 == 0)
			}
		}
	}
	add("mptnode", "hash", append([]byte{byte(mpt.HashT)}, rnd(r, 32)...), false, true)
	return out
}

// consensusMessages are encodings of the six dBFT messages (the types are private to pkg/consensus; the encodings are
// written here by their documented layout and serve as SAMPLES only: every one is accepted by the real decoder or the
// driver stops).
func consensusMessages(r *rand.Rand, srih bool) map[string][]byte {
	hdr := func(t byte, view byte) *io.BufBinWriter {
		w := io.NewBufBinWriter()
		w.WriteB(t)
		w.WriteU32LE(12)
		w.WriteB(2)
		w.WriteB(view)
		return w
	}
	out := map[string][]byte{}
	w := hdr(0x00, 1) // ChangeView: timestamp, reason (+ rejected hashes for the two "transaction" reasons)
	w.WriteU64LE(123456)
	w.WriteB(0)
	out["changeview"] = bytes.Clone(w.Bytes())
	w = hdr(0x00, 0)
	w.WriteU64LE(123456)
	w.WriteB(2) // CVTxInvalid
	w.WriteVarUint(2)
	w.WriteBytes(rnd(r, 64))
	out["changeview-rejected"] = bytes.Clone(w.Bytes())
	preq := func(w *io.BufBinWriter, n int) {
		w.WriteU32LE(0)
		w.WriteBytes(rnd(r, 32))
		w.WriteU64LE(1700000000)
		w.WriteU64LE(r.Uint64())
		w.WriteVarUint(uint64(n))
		w.WriteBytes(rnd(r, 32*n))
		if srih {
			w.WriteBytes(rnd(r, 32))
		}
	}
	w = hdr(0x20, 0)
	preq(w, 3)
	out["preparerequest"] = bytes.Clone(w.Bytes())
	w = hdr(0x21, 0)
	w.WriteBytes(rnd(r, 32))
	out["prepareresponse"] = bytes.Clone(w.Bytes())
	w = hdr(0x30, 0)
	w.WriteBytes(rnd(r, 64))
	out["commit"] = bytes.Clone(w.Bytes())
	w = hdr(0x40, 0)
	w.WriteU64LE(99)
	out["recoveryrequest"] = bytes.Clone(w.Bytes())
	w = hdr(0x41, 1)
	w.WriteVarUint(2) // change view compacts
	for i := 0; i < 2; i++ {
		w.WriteB(byte(i))
		w.WriteB(0)
		w.WriteU64LE(77)
		w.WriteVarBytes(rnd(r, 66))
	}
	w.WriteBool(true) // prepare request included: a whole message
	w.WriteB(0x20)
	w.WriteU32LE(12)
	w.WriteB(1)
	w.WriteB(1)
	preq(w, 2)
	w.WriteVarUint(2) // preparation compacts
	for i := 0; i < 2; i++ {
		w.WriteB(byte(i))
		w.WriteVarBytes(rnd(r, 66))
	}
	w.WriteVarUint(1) // commit compacts
	w.WriteB(1)
	w.WriteB(3)
	w.WriteBytes(rnd(r, 64))
	w.WriteVarBytes(rnd(r, 66))
	out["recoverymessage"] = bytes.Clone(w.Bytes())
	w = hdr(0x41, 0)
	w.WriteVarUint(0)
	w.WriteBool(false)
	w.WriteVarUint(32)
	w.WriteBytes(rnd(r, 32))
	w.WriteVarUint(0)
	w.WriteVarUint(0)
	out["recoverymessage-hash"] = bytes.Clone(w.Bytes())
	return out
}

func notaryRequest(r *rand.Rand, nkeys uint8, nsig int) *payload.P2PNotaryRequest {
	var signers []transaction.Signer
	for i := 0; i < nsig; i++ {
		signers = append(signers, transaction.Signer{Account: u160(r), Scopes: transaction.None})
	}
	main := carrierTx(signers...)
	main.Nonce = r.Uint32()
	main.Attributes = []transaction.Attribute{{Type: transaction.NotaryAssistedT, Value: &transaction.NotaryAssisted{NKeys: nkeys}}}
	for i := range main.Scripts {
		main.Scripts[i] = transaction.Witness{InvocationScript: rnd(r, 66), VerificationScript: rnd(r, 40)}
	}
	fb := carrierTx(transaction.Signer{Account: u160(r), Scopes: transaction.None}, transaction.Signer{Account: u160(r), Scopes: transaction.None})
	fb.Nonce = r.Uint32()
	fb.Script = []byte{byte(opcode.RET)}
	fb.Attributes = []transaction.Attribute{
		{Type: transaction.NotaryAssistedT, Value: &transaction.NotaryAssisted{NKeys: 0}},
		{Type: transaction.NotValidBeforeT, Value: &transaction.NotValidBefore{Height: 50}},
		{Type: transaction.ConflictsT, Value: &transaction.Conflicts{Hash: main.Hash()}},
	}
	fb.Scripts[0] = transaction.Witness{InvocationScript: append([]byte{byte(opcode.PUSHDATA1), 64}, make([]byte, 64)...), VerificationScript: []byte{}}
	fb.Scripts[1] = transaction.Witness{InvocationScript: rnd(r, 66), VerificationScript: rnd(r, 40)}
	return &payload.P2PNotaryRequest{MainTransaction: main, FallbackTransaction: fb,
		Witness: transaction.Witness{InvocationScript: rnd(r, 66), VerificationScript: rnd(r, 40)}}
}

var _ = vh.Seed
