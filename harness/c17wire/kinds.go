package c17wire

import (
	"bytes"
	"encoding/json"
	"errors"
	"fmt"
	"math/big"

	"github.com/nspcc-dev/neo-go/pkg/config/netmode"
	"github.com/nspcc-dev/neo-go/pkg/consensus"
	"github.com/nspcc-dev/neo-go/pkg/core/block"
	"github.com/nspcc-dev/neo-go/pkg/core/dao"
	"github.com/nspcc-dev/neo-go/pkg/core/mempool"
	"github.com/nspcc-dev/neo-go/pkg/core/mempoolevent"
	"github.com/nspcc-dev/neo-go/pkg/core/mpt"
	"github.com/nspcc-dev/neo-go/pkg/core/state"
	"github.com/nspcc-dev/neo-go/pkg/core/storage"
	"github.com/nspcc-dev/neo-go/pkg/core/transaction"
	"github.com/nspcc-dev/neo-go/pkg/io"
	"github.com/nspcc-dev/neo-go/pkg/neorpc/result"
	"github.com/nspcc-dev/neo-go/pkg/network"
	"github.com/nspcc-dev/neo-go/pkg/network/payload"
	"github.com/nspcc-dev/neo-go/pkg/services/stateroot"
	"github.com/nspcc-dev/neo-go/pkg/smartcontract/manifest"
	"github.com/nspcc-dev/neo-go/pkg/smartcontract/nef"
	"github.com/nspcc-dev/neo-go/pkg/smartcontract/trigger"
	"github.com/nspcc-dev/neo-go/pkg/util"
	"github.com/nspcc-dev/neo-go/pkg/vm/opcode"
	"github.com/nspcc-dev/neo-go/pkg/vm/stackitem"
	"github.com/nspcc-dev/neo-go/pkg/vm/vmstate"
)

// kindT binds one object kind of WirePaths.tla to the real code: how it is observed and how each transport is realised.
type kindT struct {
	name  string
	hash  func(v any) string         // reported hash ("" if the kind has none)
	sizes func(v any) map[string]int // reported sizes by the name of the reporter
	enc   func(v any) ([]byte, error)
	hop   map[string]func(v any, h0 string) (any, error)
	// the JSON codec of the kind: the form the RPC server sends and rpcclient decodes (like: an object of the same kind
	// that supplies decoding context such as the state-root-in-header flag)
	jenc func(v any) ([]byte, error)
	jdec func(raw []byte, like any) (any, error)
}

// finish adds the "json" transport made of the kind's JSON codec.
func (k *kindT) finish() *kindT {
	if k.jenc != nil {
		k.hop["json"] = func(v any, _ string) (any, error) {
			raw, err := k.jenc(v)
			if err != nil {
				return nil, err
			}
			return k.jdec(raw, v)
		}
	}
	return k
}

func encode(s io.Serializable) ([]byte, error) {
	w := io.NewBufBinWriter()
	s.EncodeBinary(w.BinWriter)
	if w.Err != nil {
		return nil, w.Err
	}
	return w.Bytes(), nil
}

func decodeInto(b []byte, s io.Serializable, exact bool) error {
	r := io.NewBinReaderFromBuf(b)
	s.DecodeBinary(r)
	if r.Err != nil {
		return r.Err
	}
	if exact && r.Len() != 0 {
		return fmt.Errorf("%d bytes left after the value", r.Len())
	}
	return nil
}

// varSize is io.GetVarSize; it panics by contract on a value that cannot be encoded: such a value reports no size (-1).
func varSize(v any) (n int) {
	defer func() {
		if recover() != nil {
			n = -1
		}
	}()
	return io.GetVarSize(v)
}

// through sends a payload through network.Message framing: Bytes() (compressed above the threshold), Decode.
func through(cmd network.CommandType, p payload.Payload, srih bool) (payload.Payload, error) {
	raw, err := network.NewMessage(cmd, p).Bytes()
	if err != nil {
		return nil, err
	}
	m := &network.Message{StateRootInHeader: srih}
	r := io.NewBinReaderFromBuf(raw)
	if err := m.Decode(r); err != nil {
		return nil, err
	}
	if r.Len() != 0 {
		return nil, fmt.Errorf("%d bytes left after the message", r.Len())
	}
	if m.Command != cmd {
		return nil, fmt.Errorf("command changed to %s", m.Command)
	}
	return m.Payload, nil
}

func newDAO(srih bool) *dao.Simple { return dao.NewSimple(storage.NewMemoryStore(), srih) }

type feerT struct{}

func (feerT) FeePerByte() int64                                 { return 0 }
func (feerT) GetUtilityTokenBalance(_, _ util.Uint160) *big.Int { return big.NewInt(1 << 60) }
func (feerT) BlockHeight() uint32                               { return 1 }

func carrierHeader(srih bool) block.Header {
	h := block.Header{Version: 0, Timestamp: 1700000000000, Nonce: 0x1122334455667788, Index: 7, PrimaryIndex: 1,
		Script:           transaction.Witness{InvocationScript: []byte{1, 2, 3}, VerificationScript: []byte{byte(opcode.PUSH1)}},
		StateRootEnabled: srih}
	h.PrevHash[0] = 9
	h.NextConsensus[3] = 5
	if srih {
		h.PrevStateRoot[5] = 0x77
	}
	return h
}

func carrierTx(signers ...transaction.Signer) *transaction.Transaction {
	if len(signers) == 0 {
		signers = []transaction.Signer{{Account: util.Uint160{1, 2, 3}, Scopes: transaction.CalledByEntry}}
	}
	tx := &transaction.Transaction{Nonce: 42, SystemFee: 100, NetworkFee: 200, ValidUntilBlock: 99, Script: []byte{byte(opcode.PUSH1)},
		Signers: signers, Attributes: []transaction.Attribute{}}
	for range signers {
		tx.Scripts = append(tx.Scripts, transaction.Witness{InvocationScript: []byte{}, VerificationScript: []byte{}})
	}
	return tx
}

func dummyAER(h util.Uint256) *state.AppExecResult {
	return &state.AppExecResult{Container: h, Execution: state.Execution{Trigger: trigger.Application, VMState: vmstate.Halt,
		Stack: []stackitem.Item{}, Events: []state.NotificationEvent{}}}
}

var errNotFound = errors.New("not found under the hash the object arrived with")

// ------------------------------------------------------------------------------------------------ transaction

func txKind() *kindT {
	k := &kindT{name: "tx"}
	tx := func(v any) *transaction.Transaction { return v.(*transaction.Transaction) }
	k.hash = func(v any) string { return tx(v).Hash().StringLE() }
	k.sizes = func(v any) map[string]int { return map[string]int{"Size": tx(v).Size(), "GetVarSize": varSize(tx(v))} }
	k.enc = func(v any) ([]byte, error) { return encode(tx(v)) }
	k.jenc = func(v any) ([]byte, error) {
		return json.Marshal(result.TransactionOutputRaw{Transaction: *tx(v), TransactionMetadata: result.TransactionMetadata{
			Blockhash: util.Uint256{1}, Confirmations: 3, Timestamp: 5, VMState: "HALT"}})
	}
	k.jdec = func(raw []byte, _ any) (any, error) {
		out := &result.TransactionOutputRaw{}
		if err := json.Unmarshal(raw, out); err != nil {
			return nil, err
		}
		return &out.Transaction, nil
	}
	k.hop = map[string]func(any, string) (any, error){
		"p2p": func(v any, _ string) (any, error) {
			p, err := through(network.CMDTX, tx(v), false)
			if err != nil {
				return nil, err
			}
			return p.(*transaction.Transaction), nil
		},
		"block": func(v any, _ string) (any, error) {
			b := &block.Block{Header: carrierHeader(false), Transactions: []*transaction.Transaction{tx(v)}}
			raw, err := encode(b)
			if err != nil {
				return nil, err
			}
			nb := block.New(false)
			if err := decodeInto(raw, nb, true); err != nil {
				return nil, err
			}
			return nb.Transactions[0], nil
		},
		"pool": func(v any, h0 string) (any, error) {
			mp := mempool.New(4, false, nil)
			if err := mp.Add(tx(v), feerT{}); err != nil {
				return nil, err
			}
			h, _ := util.Uint256DecodeStringLE(h0)
			t, ok := mp.TryGetValue(h)
			if !ok {
				return nil, errNotFound
			}
			return t, nil
		},
		"db": func(v any, h0 string) (any, error) {
			d := newDAO(false)
			if err := d.StoreAsTransaction(tx(v), 7, dummyAER(tx(v).Hash())); err != nil {
				return nil, err
			}
			h, _ := util.Uint256DecodeStringLE(h0)
			t, height, err := d.GetTransaction(h)
			if err != nil {
				return nil, fmt.Errorf("%w (%v)", errNotFound, err)
			}
			if height != 7 {
				return nil, fmt.Errorf("height %d", height)
			}
			return t, nil
		},
		"reenc": func(v any, _ string) (any, error) {
			raw, err := encode(tx(v))
			if err != nil {
				return nil, err
			}
			t := &transaction.Transaction{}
			return t, decodeInto(raw, t, true)
		},
		"copy":      func(v any, _ string) (any, error) { return tx(v).Copy(), nil },
		"frombytes": func(v any, _ string) (any, error) { return transaction.NewTransactionFromBytes(tx(v).Bytes()) },
	}
	return k
}

// ------------------------------------------------------------------------------------------------ block, header

func fillFromDAO(d *dao.Simple, b *block.Block) error {
	for _, t := range b.Transactions {
		st, _, err := d.GetTransaction(t.Hash())
		if err != nil {
			return err
		}
		*t = *st
	}
	b.Trimmed = false
	return nil
}

func blockKind() *kindT {
	k := &kindT{name: "block"}
	bl := func(v any) *block.Block { return v.(*block.Block) }
	k.hash = func(v any) string { return bl(v).Hash().StringLE() }
	k.sizes = func(v any) map[string]int {
		return map[string]int{"GetExpectedBlockSize": bl(v).GetExpectedBlockSize(), "GetVarSize": varSize(bl(v))}
	}
	k.enc = func(v any) ([]byte, error) { return encode(bl(v)) }
	k.jenc = func(v any) ([]byte, error) {
		nh := util.Uint256{7}
		return json.Marshal(result.Block{Block: *bl(v), BlockMetadata: result.BlockMetadata{Size: varSize(bl(v)), Confirmations: 2, NextBlockHash: &nh}})
	}
	k.jdec = func(raw []byte, like any) (any, error) {
		out := &result.Block{}
		out.Header.StateRootEnabled = bl(like).StateRootEnabled
		if err := json.Unmarshal(raw, out); err != nil {
			return nil, err
		}
		return &out.Block, nil
	}
	k.hop = map[string]func(any, string) (any, error){
		"p2p": func(v any, _ string) (any, error) {
			p, err := through(network.CMDBlock, bl(v), bl(v).StateRootEnabled)
			if err != nil {
				return nil, err
			}
			return p.(*block.Block), nil
		},
		"db": func(v any, h0 string) (any, error) {
			b := bl(v)
			d := newDAO(b.StateRootEnabled)
			for _, t := range b.Transactions {
				if err := d.StoreAsTransaction(t, b.Index, dummyAER(t.Hash())); err != nil {
					return nil, err
				}
			}
			if err := d.StoreAsBlock(b, nil, nil); err != nil {
				return nil, err
			}
			h, _ := util.Uint256DecodeStringLE(h0)
			nb, err := d.GetBlock(h)
			if err != nil {
				return nil, fmt.Errorf("%w (%v)", errNotFound, err)
			}
			return nb, fillFromDAO(d, nb)
		},
		"reenc": func(v any, _ string) (any, error) {
			raw, err := encode(bl(v))
			if err != nil {
				return nil, err
			}
			nb := block.New(bl(v).StateRootEnabled)
			return nb, decodeInto(raw, nb, true)
		},
	}
	return k
}

func headerKind() *kindT {
	k := &kindT{name: "header"}
	hd := func(v any) *block.Header { return v.(*block.Header) }
	k.hash = func(v any) string { return hd(v).Hash().StringLE() }
	k.sizes = func(v any) map[string]int { return map[string]int{"GetVarSize": varSize(hd(v))} }
	k.enc = func(v any) ([]byte, error) { return encode(hd(v)) }
	k.jenc = func(v any) ([]byte, error) {
		return json.Marshal(result.Header{Header: *hd(v), BlockMetadata: result.BlockMetadata{Size: varSize(hd(v)), Confirmations: 2}})
	}
	k.jdec = func(raw []byte, like any) (any, error) {
		out := &result.Header{}
		out.Header.StateRootEnabled = hd(like).StateRootEnabled
		if err := json.Unmarshal(raw, out); err != nil {
			return nil, err
		}
		return &out.Header, nil
	}
	k.hop = map[string]func(any, string) (any, error){
		"p2p": func(v any, _ string) (any, error) {
			p, err := through(network.CMDHeaders, &payload.Headers{Hdrs: []*block.Header{hd(v)}}, hd(v).StateRootEnabled)
			if err != nil {
				return nil, err
			}
			hs := p.(*payload.Headers).Hdrs
			if len(hs) != 1 {
				return nil, fmt.Errorf("%d headers", len(hs))
			}
			return hs[0], nil
		},
		"block": func(v any, _ string) (any, error) {
			raw, err := encode(&block.Block{Header: *hd(v)})
			if err != nil {
				return nil, err
			}
			nb := block.New(hd(v).StateRootEnabled)
			if err := decodeInto(raw, nb, true); err != nil {
				return nil, err
			}
			return &nb.Header, nil
		},
		"db": func(v any, h0 string) (any, error) {
			d := newDAO(hd(v).StateRootEnabled)
			if err := d.StoreHeader(hd(v)); err != nil {
				return nil, err
			}
			h, _ := util.Uint256DecodeStringLE(h0)
			nb, err := d.GetBlock(h)
			if err != nil {
				return nil, fmt.Errorf("%w (%v)", errNotFound, err)
			}
			return &nb.Header, nil
		},
		"reenc": func(v any, _ string) (any, error) {
			raw, err := encode(hd(v))
			if err != nil {
				return nil, err
			}
			nh := &block.Header{StateRootEnabled: hd(v).StateRootEnabled}
			return nh, decodeInto(raw, nh, true)
		},
	}
	return k
}

// ------------------------------------------------------------------------------------------------ state root, extensible, consensus

func stateRootKind() *kindT {
	k := &kindT{name: "stateroot"}
	sr := func(v any) *state.MPTRoot { return v.(*state.MPTRoot) }
	k.hash = func(v any) string { return sr(v).Hash().StringLE() }
	k.sizes = func(v any) map[string]int { return map[string]int{"GetVarSize": varSize(sr(v))} }
	k.enc = func(v any) ([]byte, error) { return encode(sr(v)) }
	k.jenc = func(v any) ([]byte, error) { return json.Marshal(sr(v)) }
	k.jdec = func(raw []byte, _ any) (any, error) { n := &state.MPTRoot{}; return n, json.Unmarshal(raw, n) }
	k.hop = map[string]func(any, string) (any, error){
		"p2p": func(v any, _ string) (any, error) {
			data, err := encode(stateroot.NewMessage(stateroot.RootT, sr(v)))
			if err != nil {
				return nil, err
			}
			e := &payload.Extensible{Category: stateroot.Category, ValidBlockStart: sr(v).Index, ValidBlockEnd: sr(v).Index + 100, Sender: util.Uint160{4},
				Data: data, Witness: transaction.Witness{InvocationScript: []byte{1}, VerificationScript: []byte{2}}}
			p, err := through(network.CMDExtensible, e, false)
			if err != nil {
				return nil, err
			}
			m := &stateroot.Message{}
			if err := decodeInto(p.(*payload.Extensible).Data, m, true); err != nil {
				return nil, err
			}
			if m.Type != stateroot.RootT {
				return nil, fmt.Errorf("message type %d", m.Type)
			}
			return m.Payload.(*state.MPTRoot), nil
		},
		"db": func(v any, _ string) (any, error) {
			raw, err := encode(sr(v))
			if err != nil {
				return nil, err
			}
			d := newDAO(false)
			key := []byte{byte(storage.DataMPTAux), 1, 2, 3, 4}
			d.Store.Put(key, raw)
			n := &state.MPTRoot{}
			return n, d.GetAndDecode(n, key)
		},
		"reenc": func(v any, _ string) (any, error) {
			raw, err := encode(sr(v))
			if err != nil {
				return nil, err
			}
			n := &state.MPTRoot{}
			return n, decodeInto(raw, n, true)
		},
	}
	return k
}

func extensibleKind() *kindT {
	k := &kindT{name: "extensible"}
	ex := func(v any) *payload.Extensible { return v.(*payload.Extensible) }
	k.hash = func(v any) string { return ex(v).Hash().StringLE() }
	k.sizes = func(v any) map[string]int { return map[string]int{"GetVarSize": varSize(ex(v))} }
	k.enc = func(v any) ([]byte, error) { return encode(ex(v)) }
	k.hop = map[string]func(any, string) (any, error){
		"p2p": func(v any, _ string) (any, error) {
			p, err := through(network.CMDExtensible, ex(v), false)
			if err != nil {
				return nil, err
			}
			return p.(*payload.Extensible), nil
		},
		"reenc": func(v any, _ string) (any, error) {
			raw, err := encode(ex(v))
			if err != nil {
				return nil, err
			}
			n := payload.NewExtensible()
			return n, decodeInto(raw, n, true)
		},
	}
	return k
}

// consensusObj keeps the state-root flag the payload was decoded with.
type consensusObj struct {
	p    *consensus.Payload
	srih bool
}

func decodeConsensus(raw []byte, srih bool) (*consensusObj, error) {
	p := consensus.NewPayload(netmode.UnitTestNet, srih)
	if err := decodeInto(raw, p, true); err != nil {
		return nil, err
	}
	return &consensusObj{p, srih}, nil
}

func consensusKind() *kindT {
	k := &kindT{name: "consensus"}
	co := func(v any) *consensusObj { return v.(*consensusObj) }
	k.hash = func(v any) string { return co(v).p.Hash().StringLE() }
	k.sizes = func(v any) map[string]int { return map[string]int{"GetVarSize": varSize(co(v).p)} }
	k.enc = func(v any) ([]byte, error) { return encode(co(v).p) }
	k.hop = map[string]func(any, string) (any, error){
		"p2p": func(v any, _ string) (any, error) {
			// the service broadcasts &p.Extensible and receives a *payload.Extensible that it wraps again
			p, err := through(network.CMDExtensible, &co(v).p.Extensible, false)
			if err != nil {
				return nil, err
			}
			raw, err := encode(p.(*payload.Extensible))
			if err != nil {
				return nil, err
			}
			return decodeConsensus(raw, co(v).srih)
		},
		"reenc": func(v any, _ string) (any, error) {
			raw, err := encode(co(v).p)
			if err != nil {
				return nil, err
			}
			return decodeConsensus(raw, co(v).srih)
		},
	}
	return k
}

// ------------------------------------------------------------------------------------------------ notary request

func notaryKind() *kindT {
	k := &kindT{name: "notaryreq"}
	nr := func(v any) *payload.P2PNotaryRequest { return v.(*payload.P2PNotaryRequest) }
	k.hash = func(v any) string { return nr(v).Hash().StringLE() }
	k.sizes = func(v any) map[string]int {
		return map[string]int{"GetVarSize": varSize(nr(v)),
			"parts": nr(v).MainTransaction.Size() + nr(v).FallbackTransaction.Size() + varSize(&nr(v).Witness)}
	}
	k.enc = func(v any) ([]byte, error) { return nr(v).Bytes() }
	k.jenc = func(v any) ([]byte, error) {
		return json.Marshal(result.NotaryRequestEvent{Type: mempoolevent.TransactionAdded, NotaryRequest: nr(v)})
	}
	k.jdec = func(raw []byte, _ any) (any, error) {
		out := &result.NotaryRequestEvent{}
		if err := json.Unmarshal(raw, out); err != nil {
			return nil, err
		}
		if out.NotaryRequest == nil || out.NotaryRequest.MainTransaction == nil || out.NotaryRequest.FallbackTransaction == nil {
			return nil, errors.New("no request")
		}
		return out.NotaryRequest, nil
	}
	k.hop = map[string]func(any, string) (any, error){
		"p2p": func(v any, _ string) (any, error) {
			p, err := through(network.CMDP2PNotaryRequest, nr(v), false)
			if err != nil {
				return nil, err
			}
			return p.(*payload.P2PNotaryRequest), nil
		},
		"reenc": func(v any, _ string) (any, error) {
			raw, err := encode(nr(v))
			if err != nil {
				return nil, err
			}
			n := &payload.P2PNotaryRequest{}
			return n, decodeInto(raw, n, true)
		},
		"copy": func(v any, _ string) (any, error) { return nr(v).Copy(), nil },
		"frombytes": func(v any, _ string) (any, error) {
			raw, err := nr(v).Bytes()
			if err != nil {
				return nil, err
			}
			return payload.NewP2PNotaryRequestFromBytes(raw)
		},
	}
	return k
}

// ------------------------------------------------------------------------------------------------ execution result

func aerKind() *kindT {
	k := &kindT{name: "aer"}
	ae := func(v any) *state.AppExecResult { return v.(*state.AppExecResult) }
	k.hash = func(v any) string { return "" }
	k.sizes = func(v any) map[string]int { return map[string]int{"GetVarSize": varSize(ae(v))} }
	k.enc = func(v any) ([]byte, error) { return encode(ae(v)) }
	k.jenc = func(v any) ([]byte, error) {
		return json.Marshal(result.NewApplicationLog(ae(v).Container, []state.AppExecResult{*ae(v)}, trigger.All))
	}
	k.jdec = func(raw []byte, _ any) (any, error) {
		out := &result.ApplicationLog{}
		if err := json.Unmarshal(raw, out); err != nil {
			return nil, err
		}
		if len(out.Executions) != 1 {
			return nil, fmt.Errorf("%d executions", len(out.Executions))
		}
		return &state.AppExecResult{Container: out.Container, Execution: out.Executions[0]}, nil
	}
	k.hop = map[string]func(any, string) (any, error){
		"db": func(v any, _ string) (any, error) {
			a := ae(v)
			d := newDAO(false)
			if a.Trigger == trigger.Application {
				t := carrierTx()
				if err := d.StoreAsTransaction(t, 3, a); err != nil {
					return nil, err
				}
				rs, err := d.GetAppExecResults(t.Hash(), trigger.All)
				if err != nil {
					return nil, err
				}
				if len(rs) != 1 {
					return nil, fmt.Errorf("%d results", len(rs))
				}
				return &rs[0], nil
			}
			b := &block.Block{Header: carrierHeader(false)}
			other := dummyAER(a.Container)
			other.Trigger = trigger.OnPersist | trigger.PostPersist ^ a.Trigger
			var err error
			if a.Trigger == trigger.OnPersist {
				err = d.StoreAsBlock(b, a, other)
			} else {
				err = d.StoreAsBlock(b, other, a)
			}
			if err != nil {
				return nil, err
			}
			rs, err := d.GetAppExecResults(b.Hash(), a.Trigger)
			if err != nil {
				return nil, err
			}
			if len(rs) != 1 {
				return nil, fmt.Errorf("%d results", len(rs))
			}
			return &rs[0], nil
		},
		"reenc": func(v any, _ string) (any, error) {
			raw, err := encode(ae(v))
			if err != nil {
				return nil, err
			}
			n := &state.AppExecResult{}
			return n, decodeInto(raw, n, true)
		},
	}
	return k
}

// ------------------------------------------------------------------------------------------------ NEF, manifest, contract

func viaItem(conv stackitem.Convertible, into stackitem.Convertible, serialise bool) error {
	it, err := conv.ToStackItem()
	if err != nil {
		return err
	}
	if serialise {
		raw, err := stackitem.Serialize(it)
		if err != nil {
			return err
		}
		if it, err = stackitem.Deserialize(raw); err != nil {
			return err
		}
	}
	return into.FromStackItem(it)
}

type manifestConv struct{ m *manifest.Manifest }

func (c manifestConv) ToStackItem() (stackitem.Item, error)  { return c.m.ToStackItem() }
func (c manifestConv) FromStackItem(it stackitem.Item) error { return c.m.FromStackItem(it) }

func nefKind() *kindT {
	k := &kindT{name: "nef"}
	nf := func(v any) *nef.File { return v.(*nef.File) }
	k.hash = func(v any) (h string) {
		// CalculateChecksum panics by contract on a file that cannot be encoded: such a file has no checksum
		defer func() {
			if recover() != nil {
				h = fmt.Sprintf("%08x/unencodable", nf(v).Checksum)
			}
		}()
		return fmt.Sprintf("%08x/%08x", nf(v).Checksum, nf(v).CalculateChecksum())
	}
	k.sizes = func(v any) map[string]int { return map[string]int{"GetVarSize": varSize(nf(v))} }
	k.enc = func(v any) ([]byte, error) { return nf(v).Bytes() }
	k.jenc = func(v any) ([]byte, error) { return json.Marshal(nf(v)) }
	k.jdec = func(raw []byte, _ any) (any, error) { n := &nef.File{}; return n, json.Unmarshal(raw, n) }
	k.hop = map[string]func(any, string) (any, error){
		"db": func(v any, _ string) (any, error) {
			c := &state.Contract{ContractBase: state.ContractBase{ID: 5, NEF: *nf(v), Manifest: *manifest.DefaultManifest("c")}}
			n := &state.Contract{}
			if err := viaItem(c, n, true); err != nil {
				return nil, err
			}
			return &n.NEF, nil
		},
		"reenc": func(v any, _ string) (any, error) {
			raw, err := encode(nf(v))
			if err != nil {
				return nil, err
			}
			n := &nef.File{}
			return n, decodeInto(raw, n, true)
		},
		"frombytes": func(v any, _ string) (any, error) {
			raw, err := nf(v).Bytes()
			if err != nil {
				return nil, err
			}
			n, err := nef.FileFromBytes(raw)
			return &n, err
		},
	}
	return k
}

// decodeManifest is how a manifest is accepted by the node (ContractManagement deploy / update): JSON decoding AND
// the validity check; an all-zero contract hash leaves out the group signature check.
func decodeManifest(raw []byte) (*manifest.Manifest, error) {
	m := &manifest.Manifest{}
	if err := json.Unmarshal(raw, m); err != nil {
		return nil, err
	}
	return m, m.IsValid(util.Uint160{}, true)
}

func manifestKind() *kindT {
	k := &kindT{name: "manifest"}
	mf := func(v any) *manifest.Manifest { return v.(*manifest.Manifest) }
	k.hash = func(v any) string { return "" }
	k.sizes = func(v any) map[string]int { return map[string]int{} }
	k.jenc = func(v any) ([]byte, error) { return json.Marshal(mf(v)) }
	k.jdec = func(raw []byte, _ any) (any, error) { return decodeManifest(raw) }
	k.enc = func(v any) ([]byte, error) {
		raw, err := json.Marshal(mf(v))
		if err != nil {
			return nil, err
		}
		var out bytes.Buffer
		err = json.Compact(&out, raw)
		return out.Bytes(), err
	}
	k.hop = map[string]func(any, string) (any, error){
		"db": func(v any, _ string) (any, error) {
			n := &manifest.Manifest{}
			return n, viaItem(manifestConv{mf(v)}, manifestConv{n}, true)
		},
		"item": func(v any, _ string) (any, error) {
			n := &manifest.Manifest{}
			return n, viaItem(manifestConv{mf(v)}, manifestConv{n}, false)
		},
	}
	return k
}

func contractKind() *kindT {
	k := &kindT{name: "contract"}
	cs := func(v any) *state.Contract { return v.(*state.Contract) }
	k.hash = func(v any) string { return "" }
	k.sizes = func(v any) map[string]int { return map[string]int{} }
	k.enc = func(v any) ([]byte, error) { return stackitem.SerializeConvertible(cs(v)) }
	k.jenc = func(v any) ([]byte, error) { return json.Marshal(cs(v)) }
	k.jdec = func(raw []byte, _ any) (any, error) { n := &state.Contract{}; return n, json.Unmarshal(raw, n) }
	k.hop = map[string]func(any, string) (any, error){
		"db": func(v any, _ string) (any, error) {
			n := &state.Contract{}
			return n, viaItem(cs(v), n, true)
		},
		"item": func(v any, _ string) (any, error) {
			n := &state.Contract{}
			return n, viaItem(cs(v), n, false)
		},
	}
	return k
}

// ------------------------------------------------------------------------------------------------ trie node

func mptKind() *kindT {
	k := &kindT{name: "mptnode"}
	nd := func(v any) mpt.Node { return v.(mpt.Node) }
	k.hash = func(v any) string {
		if nd(v).Type() == mpt.EmptyT {
			return "" // an empty node has no hash (Hash() panics by contract)
		}
		return nd(v).Hash().StringLE()
	}
	k.sizes = func(v any) map[string]int {
		// Size() is the size of the node's own encoding WITHOUT the type byte
		m := map[string]int{"Size+1": nd(v).Size() + 1}
		if nd(v).Type() != mpt.EmptyT {
			m["len(Bytes)"] = len(nd(v).Bytes())
		}
		return m
	}
	k.enc = func(v any) ([]byte, error) { return encode(&mpt.NodeObject{Node: nd(v)}) }
	k.jenc = func(v any) ([]byte, error) { return json.Marshal(nd(v)) }
	k.jdec = func(raw []byte, _ any) (any, error) {
		var n mpt.NodeObject
		if err := json.Unmarshal(raw, &n); err != nil {
			return nil, err
		}
		if n.Node == nil {
			return nil, errors.New("no node")
		}
		return n.Node, nil
	}
	dec := func(raw []byte) (any, error) {
		var n mpt.NodeObject
		if err := decodeInto(raw, &n, true); err != nil {
			return nil, err
		}
		return n.Node, nil
	}
	k.hop = map[string]func(any, string) (any, error){
		"p2p": func(v any, _ string) (any, error) {
			p, err := through(network.CMDMPTData, &payload.MPTData{Nodes: [][]byte{bytes.Clone(nd(v).Bytes())}}, false)
			if err != nil {
				return nil, err
			}
			ns := p.(*payload.MPTData).Nodes
			if len(ns) != 1 {
				return nil, fmt.Errorf("%d nodes", len(ns))
			}
			return dec(ns[0])
		},
		"db": func(v any, _ string) (any, error) {
			d := newDAO(false)
			key := append([]byte{byte(storage.DataMPT)}, sha(nd(v).Bytes()).BytesBE()...)
			d.Store.Put(key, bytes.Clone(nd(v).Bytes()))
			raw, err := d.Store.Get(key)
			if err != nil {
				return nil, err
			}
			return dec(raw)
		},
		"reenc": func(v any, _ string) (any, error) {
			raw, err := encode(&mpt.NodeObject{Node: nd(v)})
			if err != nil {
				return nil, err
			}
			return dec(raw)
		},
		"copy": func(v any, _ string) (any, error) { return nd(v).Clone(), nil },
	}
	return k
}

// ------------------------------------------------------------------------------------------------ witness rule, signer

func throughTxInBlock(s transaction.Signer) (*transaction.Signer, error) {
	b := &block.Block{Header: carrierHeader(false), Transactions: []*transaction.Transaction{carrierTx(s)}}
	raw, err := encode(b)
	if err != nil {
		return nil, err
	}
	nb := block.New(false)
	if err := decodeInto(raw, nb, true); err != nil {
		return nil, err
	}
	return &nb.Transactions[0].Signers[0], nil
}

func ruleKind() *kindT {
	k := &kindT{name: "rule"}
	ru := func(v any) *transaction.WitnessRule { return v.(*transaction.WitnessRule) }
	k.hash = func(v any) string { return "" }
	k.sizes = func(v any) map[string]int { return map[string]int{"GetVarSize": varSize(ru(v))} }
	k.enc = func(v any) ([]byte, error) { return encode(ru(v)) }
	k.jenc = func(v any) ([]byte, error) { return json.Marshal(ru(v)) }
	k.jdec = func(raw []byte, _ any) (any, error) {
		n := &transaction.WitnessRule{}
		return n, json.Unmarshal(raw, n)
	}
	k.hop = map[string]func(any, string) (any, error){
		"block": func(v any, _ string) (any, error) {
			s, err := throughTxInBlock(transaction.Signer{Account: util.Uint160{8}, Scopes: transaction.Rules, Rules: []transaction.WitnessRule{*ru(v)}})
			if err != nil {
				return nil, err
			}
			if len(s.Rules) != 1 {
				return nil, fmt.Errorf("%d rules", len(s.Rules))
			}
			return &s.Rules[0], nil
		},
		"reenc": func(v any, _ string) (any, error) {
			raw, err := encode(ru(v))
			if err != nil {
				return nil, err
			}
			n := &transaction.WitnessRule{}
			return n, decodeInto(raw, n, true)
		},
		"copy": func(v any, _ string) (any, error) { return ru(v).Copy(), nil },
		"item": func(v any, _ string) (any, error) {
			n := &transaction.WitnessRule{}
			return n, n.FromStackItem(ru(v).ToStackItem())
		},
	}
	return k
}

func signerKind() *kindT {
	k := &kindT{name: "signer"}
	sg := func(v any) *transaction.Signer { return v.(*transaction.Signer) }
	k.hash = func(v any) string { return "" }
	k.sizes = func(v any) map[string]int { return map[string]int{"GetVarSize": varSize(sg(v))} }
	k.enc = func(v any) ([]byte, error) { return encode(sg(v)) }
	k.jenc = func(v any) ([]byte, error) { return json.Marshal(sg(v)) }
	k.jdec = func(raw []byte, _ any) (any, error) { n := &transaction.Signer{}; return n, json.Unmarshal(raw, n) }
	k.hop = map[string]func(any, string) (any, error){
		"block": func(v any, _ string) (any, error) { return throughTxInBlock(*sg(v)) },
		"reenc": func(v any, _ string) (any, error) {
			raw, err := encode(sg(v))
			if err != nil {
				return nil, err
			}
			n := &transaction.Signer{}
			return n, decodeInto(raw, n, true)
		},
		"copy": func(v any, _ string) (any, error) { return sg(v).Copy(), nil },
		"item": func(v any, _ string) (any, error) {
			it, err := sg(v).ToStackItem()
			if err != nil {
				return nil, err
			}
			n := &transaction.Signer{}
			return n, n.FromStackItem(it)
		},
	}
	return k
}

// ------------------------------------------------------------------------------------------------ stack item

type itemObj struct{ it stackitem.Item }

func itemKind() *kindT {
	k := &kindT{name: "item"}
	io_ := func(v any) stackitem.Item { return v.(*itemObj).it }
	protected := func(it stackitem.Item) ([]byte, error) {
		w := io.NewBufBinWriter()
		stackitem.EncodeBinaryProtected(it, w.BinWriter)
		if w.Err != nil {
			return nil, w.Err
		}
		return w.Bytes(), nil
	}
	k.hash = func(v any) string { return "" }
	k.sizes = func(v any) map[string]int { return map[string]int{} }
	k.enc = func(v any) ([]byte, error) {
		b, err := protected(io_(v))
		if err == nil && len(b) == 1 && b[0] == byte(stackitem.InvalidT) {
			return nil, errors.New("the protected serialiser writes the invalid-item marker: not a serialisable value")
		}
		return b, err
	}
	k.jenc = func(v any) ([]byte, error) { return stackitem.ToJSONWithTypes(io_(v)) }
	k.jdec = func(raw []byte, _ any) (any, error) {
		it, err := stackitem.FromJSONWithTypes(raw)
		return &itemObj{it}, err
	}
	k.hop = map[string]func(any, string) (any, error){
		// the form notifications and execution results are stored in
		"db": func(v any, _ string) (any, error) {
			raw, err := stackitem.NewSerializationContext().Serialize(io_(v), true)
			if err != nil {
				return nil, err
			}
			r := io.NewBinReaderFromBuf(bytes.Clone(raw))
			it := stackitem.DecodeBinaryProtected(r)
			if r.Err != nil {
				return nil, r.Err
			}
			if r.Len() != 0 {
				return nil, errors.New("bytes left")
			}
			return &itemObj{it}, nil
		},
		"reenc": func(v any, _ string) (any, error) {
			raw, err := protected(io_(v))
			if err != nil {
				return nil, err
			}
			r := io.NewBinReaderFromBuf(raw)
			it := stackitem.DecodeBinaryProtected(r)
			return &itemObj{it}, r.Err
		},
		"copy": func(v any, _ string) (any, error) { return &itemObj{stackitem.DeepCopy(io_(v), false)}, nil },
	}
	return k
}

func allKinds() map[string]*kindT {
	m := map[string]*kindT{}
	for _, k := range []*kindT{txKind(), blockKind(), headerKind(), stateRootKind(), extensibleKind(), consensusKind(), notaryKind(), aerKind(),
		nefKind(), manifestKind(), contractKind(), mptKind(), ruleKind(), signerKind(), itemKind()} {
		m[k.name] = k.finish()
	}
	return m
}
