//go:build verif

package c17wire

import (
	"encoding/hex"
	"os"
	"testing"
)

// TestOne replays one decode-law case: VERIF_C17_FMT (prefix "json:" for a JSON format), VERIF_C17_INPUT (hex, or a file name).
func TestOne(t *testing.T) {
	name := os.Getenv("VERIF_C17_FMT")
	if name == "" {
		t.Skip("replay aid")
	}
	ks := allKinds()
	var f *formatT
	if len(name) > 5 && name[:5] == "json:" {
		f = jsonFormats(ks)[name[5:]]
	} else {
		f = binaryFormats(ks)[name]
	}
	in, err := hex.DecodeString(os.Getenv("VERIF_C17_INPUT"))
	if err != nil {
		in, err = os.ReadFile(os.Getenv("VERIF_C17_INPUT"))
		if err != nil {
			t.Fatal(err)
		}
	}
	r := lawOn(f, in)
	t.Logf("%+v", r)
}
