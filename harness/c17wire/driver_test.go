//go:build verif

// Package c17wire binds spec/wire (WirePaths, WireShapes, WireTrace) to the real codecs of neo-go: every TLC-enumerated
// path is realised on real objects (enumerated, hand-made and grown on real ledgers by histgen), every TLC-enumerated shape
// is instantiated with real values, every TLC-chosen mutation is applied to real encodings (in a child process with a
// time and allocation guard).  One NDJSON event per hop / shape / mutation; WireTrace.tla is the judge.
package c17wire

import (
	"bufio"
	"bytes"
	"encoding/hex"
	"encoding/json"
	"fmt"
	"math/rand"
	"os"
	"os/exec"
	"path/filepath"
	"regexp"
	"runtime"
	"runtime/debug"
	"sort"
	"strings"
	"syscall"
	"testing"
	"time"

	"github.com/nspcc-dev/neo-go/pkg/config/netmode"
	"github.com/nspcc-dev/neo-go/pkg/core/block"
	"github.com/nspcc-dev/neo-go/pkg/core/state"
	"github.com/nspcc-dev/neo-go/pkg/core/transaction"
	"github.com/nspcc-dev/neo-go/pkg/io"
	"github.com/nspcc-dev/neo-go/pkg/network"
	"github.com/nspcc-dev/neo-go/pkg/network/capability"
	"github.com/nspcc-dev/neo-go/pkg/network/payload"
	"github.com/nspcc-dev/neo-go/pkg/util"
	"github.com/nspcc-dev/neo-go/pkg/vm/stackitem"

	"verifharness/internal/vh"
)

type pathCase struct {
	Kind    string   `json:"kind"`
	Origin  string   `json:"origin"`
	Ev      int      `json:"ev"`
	Path    []string `json:"path"`
	Refused bool     `json:"refused"`
	HashOK  bool     `json:"hashok"`
	SizeOK  bool     `json:"sizeok"`
}

type obsT struct {
	hash  string
	sizes map[string]int
	bytes []byte
	cont  string
	err   string
	panic bool
}

func contentOf(v any) string {
	switch x := v.(type) {
	case *itemObj:
		return itemString(x.it)
	case *consensusObj:
		return content(&x.p.Extensible) + fmt.Sprintf("type=%d view=%d height=%d validator=%d", x.p.Type(), x.p.ViewNumber(), x.p.Height(), x.p.ValidatorIndex())
	}
	return content(v)
}

// observe reads hash, sizes, canonical bytes and exported content back from the real object.
func observe(k *kindT, v any) (o obsT) {
	defer func() {
		if r := recover(); r != nil {
			o.panic = true
			o.err = fmt.Sprintf("panic while observing: %v", r)
		}
	}()
	o.cont = contentOf(v) // before anything is asked of the object: asking must not change it (see the "encode" hop)
	o.hash = k.hash(v)
	o.sizes = k.sizes(v)
	b, err := k.enc(v)
	if err != nil {
		o.err = "encode: " + err.Error()
		return
	}
	o.bytes = bytes.Clone(b)
	return
}

func sizeList(m map[string]int) []int {
	var names []string
	for n := range m {
		names = append(names, n)
	}
	sort.Strings(names)
	out := []int{}
	for _, n := range names {
		out = append(out, m[n])
	}
	return out
}

// hop applies one transport, converting a panic of the code under test into an observation.
func hop(k *kindT, tr string, v any, h0 string) (nv any, err error, panicked bool) {
	defer func() {
		if r := recover(); r != nil {
			err = fmt.Errorf("panic: %v", r)
			panicked = true
		}
	}()
	f := k.hop[tr]
	if f == nil {
		return nil, fmt.Errorf("harness: kind %s has no transport %s", k.name, tr), false
	}
	nv, err = f(v, h0)
	return
}

type driver struct {
	t     *testing.T
	res   *vh.Result
	tr    *vh.Trace
	ks    map[string]*kindT
	rnd   *rand.Rand
	drift map[string]int
}

func (d *driver) noteDrift(key string, detail any) {
	d.drift[key]++
	if d.drift[key] == 1 {
		d.res.AddDrift(map[string]any{"kind": key, "first": detail})
	}
}

func hopClass(v *valueT, _ obsT) string {
	if v.kind == "aer" && strings.Contains(v.cls, "invocations") {
		return v.origin + " with invocations"
	}
	return v.origin
}

// runPaths realises every enumerated path on every value of its kind and origin form.
func (d *driver) runPaths(cases []pathCase, vals []*valueT, longFrom int) {
	byKO := map[string][]pathCase{}
	for _, c := range cases {
		inv := ""
		if c.Ev > 0 {
			inv = "/inv"
		}
		byKO[c.Kind+"/"+c.Origin+inv] = append(byKO[c.Kind+"/"+c.Origin+inv], c)
	}
	for _, cs := range byKO {
		sort.SliceStable(cs, func(i, j int) bool { return len(cs[i].Path) < len(cs[j].Path) })
	}
	type memo struct {
		hash, bd, cont string
		sizes          string
	}
	for vi, v := range vals {
		k := d.ks[v.kind]
		cs := byKO[v.kind+"/"+v.origin]
		if v.kind == "aer" && strings.Contains(v.cls, "invocations") {
			cs = byKO[v.kind+"/"+v.origin+"/inv"]
		}
		if len(cs) == 0 {
			continue
		}
		o0, err := v.fresh()
		if err != nil {
			d.t.Fatalf("value %s/%s does not arrive any more: %v", v.kind, v.cls, err)
		}
		origin := observe(k, o0)
		// hop 0: the arrival itself is judged (hash by definition, size against the canonical bytes)
		d.emitHop(v, nil, "arrive", "", origin, origin, origin, "", false)
		// encoding an object (binary, JSON) and asking for its hash / size must leave the object as it was
		for _, form := range []string{"encode", "jsonencode"} {
			if form == "jsonencode" && k.jenc == nil {
				continue
			}
			o1, err := v.fresh()
			if err != nil {
				d.t.Fatalf("fresh: %v", err)
			}
			st, err := stage(func() error {
				var err error
				if form == "encode" {
					_, err = k.enc(o1)
				} else {
					_, err = k.jenc(o1)
				}
				return err
			})
			after := origin
			after.cont = contentOf(o1)
			after.sizes = nil // the sizes were judged at the arrival
			errs := ""
			if err != nil {
				errs = err.Error()
			}
			d.emitHop(v, nil, form, errs, origin, origin, after, "", st == "panic")
			d.res.Count([]any{"enc", v.kind, vi, form})
		}
		seen := map[string]memo{}    // observation after a path (determinism of re-executed prefixes)
		blocked := map[string]bool{} // prefixes that ended in a refusal: reported once, not extended
		reps := map[string]obsT{}    // first object that arrived through a given last transport
		for _, c := range cs {
			if len(c.Path) >= 2 && !v.deep || len(c.Path) >= longFrom && !v.deeper || len(c.Path) > longFrom && !v.deepest {
				continue
			}
			key := strings.Join(c.Path, ">")
			if blocked[strings.Join(c.Path[:len(c.Path)-1], ">")] {
				blocked[key] = true
				d.res.Inc("paths_behind_a_refusal", 1)
				continue
			}
			obj, err := v.fresh()
			if err != nil {
				d.t.Fatalf("fresh: %v", err)
			}
			before := origin
			var after obsT
			var herr error
			var pan bool
			for i, tr := range c.Path {
				var nv any
				nv, herr, pan = hop(k, tr, obj, v.h0)
				if herr != nil {
					if i < len(c.Path)-1 {
						d.t.Fatalf("prefix %v of %v refused on re-execution: %v", c.Path[:i+1], c.Path, herr)
					}
					break
				}
				obj = nv
				after = observe(k, obj)
				pk := strings.Join(c.Path[:i+1], ">")
				m := memo{after.hash, dig(after.bytes), dig([]byte(after.cont)), fmt.Sprint(sizeList(after.sizes))}
				if old, ok := seen[pk]; ok {
					if old != m {
						d.res.Violate(map[string]any{"kind": "Confluent", "object": v.kind, "transport": tr, "class": "same path, two executions"},
							"the same path executed twice on equal fresh objects gave different observations", map[string]any{"path": c.Path[:i+1], "value": v.cls})
					}
				} else {
					seen[pk] = m
				}
				if i < len(c.Path)-1 {
					before = after
				}
			}
			last := c.Path[len(c.Path)-1]
			errs := ""
			if herr != nil {
				errs = herr.Error()
				blocked[key] = true
			} else if after.err != "" {
				errs = after.err
				blocked[key] = true
			}
			rep, ok := reps[last]
			if !ok && errs == "" {
				reps[last] = after
				rep = after
			}
			if errs != "" {
				rep = after
			}
			d.emitHop(v, c.Path, last, errs, origin, before, after, "", pan)
			d.lastRep(rep)
			// Impl-level prediction against reality: drift only
			hashok := errs == "" && (v.h0 == "" || after.hash == v.h0) && bytes.Equal(after.bytes, v.b0)
			sizeok := true
			for _, s := range after.sizes {
				if s != len(after.bytes) {
					sizeok = false
				}
			}
			if c.Refused != (errs != "") {
				d.noteDrift(fmt.Sprintf("impl-predicts-refusal=%v kind=%s last=%s origin=%s", c.Refused, v.kind, last, v.origin), map[string]any{"path": c.Path, "value": v.cls, "err": errs})
			} else if errs == "" && (c.HashOK != hashok || (c.SizeOK != sizeok && (v.kind == "tx" || v.kind == "block" || v.kind == "mptnode"))) {
				d.noteDrift(fmt.Sprintf("impl-predicts hashok=%v sizeok=%v, observed %v %v kind=%s last=%s origin=%s", c.HashOK, c.SizeOK, hashok, sizeok, v.kind, last, v.origin),
					map[string]any{"path": c.Path, "value": v.cls})
			}
			d.res.Count([]any{"path", v.kind, v.origin, vi, key})
		}
	}
}

// pending event of the hop just emitted (completed with the representative's observation by lastRep)
var pendingHop map[string]any

func (d *driver) emitHop(v *valueT, path []string, tr, errs string, origin, before, after obsT, _ string, pan bool) {
	d.flushHop()
	if path == nil {
		path = []string{}
	}
	e := map[string]any{"event": "hop", "kind": v.kind, "cls": v.cls, "sig": hopClass(v, origin), "src": v.src, "origin": v.origin, "path": path, "tr": tr,
		"h0": v.h0, "b0": dig(v.b0), "hb": before.hash, "ha": after.hash, "ba": dig(after.bytes), "len": len(after.bytes), "sizes": sizeList(after.sizes),
		"eq": after.cont == origin.cont, "err": errs, "panic": pan || after.panic}
	if errs != "" {
		e["ha"], e["ba"], e["len"], e["sizes"], e["eq"] = "", "", 0, []int{}, false
	}
	e["mh"], e["mb"], e["meq"] = e["ha"], e["ba"], true
	pendingHop = e
	if len(path) == 0 {
		d.flushHop()
	}
}

func (d *driver) lastRep(rep obsT) {
	if pendingHop != nil && pendingHop["err"] == "" {
		mine := pendingHop
		mine["mh"], mine["mb"] = rep.hash, dig(rep.bytes)
		mine["meq"] = fmt.Sprint(sizeList(rep.sizes)) == fmt.Sprint(mine["sizes"])
	}
	d.flushHop()
}

func (d *driver) flushHop() {
	if pendingHop != nil {
		d.tr.Emit(pendingHop)
		pendingHop = nil
	}
}

// ------------------------------------------------------------------------------------------------ shapes

func stage(f func() error) (st string, err error) {
	defer func() {
		if r := recover(); r != nil {
			st, err = "panic", fmt.Errorf("panic: %v", r)
		}
	}()
	if err = f(); err != nil {
		return "err", err
	}
	return "ok", nil
}

// shapeLaws evaluates the per-shape laws on a constructed value of a kind: binary round trip, JSON round trip,
// binary -> JSON -> binary, item form; which decoders accept.
func (d *driver) shapeLaws(space, kind, cls, sig string, legal bool, v any, raw []byte, jsonText string, srih bool) {
	k := d.ks[kind]
	e := map[string]any{"event": "shape", "space": space, "kind": kind, "cls": cls, "sig": sig, "legal": legal,
		"benc": "na", "bdec": "na", "bsame": false, "bsize": false, "jenc": "na", "jdec": "na", "jsame": false,
		"xdec": "na", "xsame": false, "idec": "na", "isame": false, "jbin": "na", "note": ""}
	var b0 []byte
	notes := []string{}
	note := func(where string, err error) {
		if err != nil {
			notes = append(notes, where+": "+err.Error())
		}
	}
	var err error
	if v != nil {
		e["benc"], err = stage(func() error { b, err := k.enc(v); b0 = bytes.Clone(b); return err })
		note("binary encode", err)
	} else {
		e["benc"], b0 = "ok", raw
	}
	var v1 any
	if e["benc"] == "ok" {
		e["bdec"], err = stage(func() error { var err error; v1, err = arrive(kind, b0, srih)(); return err })
		note("binary decode", err)
		if e["bdec"] == "ok" {
			o := observe(k, v1)
			same := bytes.Equal(o.bytes, b0) && o.err == ""
			if v != nil {
				same = same && k.hash(v1) == func() (h string) { defer func() { _ = recover() }(); return k.hash(v) }()
			}
			e["bsame"] = same
			sz := true
			for _, s := range o.sizes {
				sz = sz && s == len(b0)
			}
			e["bsize"] = sz
			if o.panic {
				e["bdec"] = "panic"
			}
		}
	}
	var j0 []byte
	if k.jenc != nil {
		if v != nil && e["benc"] == "ok" { // a constructed object the binary encoder refuses is not a value at all
			e["jenc"], err = stage(func() error { b, err := k.jenc(v); j0 = b; return err })
			note("JSON encode", err)
		} else if jsonText != "" {
			e["jenc"], j0 = "ok", []byte(jsonText)
		}
		if e["jenc"] == "ok" {
			var v2 any
			like := v
			if like == nil {
				like = v1
			}
			e["jdec"], err = stage(func() error { var err error; v2, err = k.jdec(j0, like); return err })
			note("JSON decode", err)
			if e["jdec"] == "ok" {
				st, err := stage(func() error {
					j1, err := k.jenc(v2)
					if err != nil {
						return err
					}
					if v != nil && e["bdec"] == "ok" && !bytes.Equal(j1, j0) {
						return fmt.Errorf("JSON form changes: %.200s -> %.200s", j0, j1)
					}
					v3, err := k.jdec(j1, like)
					if err != nil {
						return fmt.Errorf("re-encoded JSON form refused: %w", err)
					}
					j2, err := k.jenc(v3)
					if err != nil || !bytes.Equal(j2, j1) {
						return fmt.Errorf("JSON form is not a fixpoint")
					}
					if e["bdec"] == "ok" {
						b2, err := k.enc(v2)
						if err != nil {
							return fmt.Errorf("value accepted from JSON cannot be encoded: %w", err)
						}
						if !bytes.Equal(b2, b0) {
							return fmt.Errorf("value accepted from JSON encodes to other bytes")
						}
					}
					return nil
				})
				note("JSON round trip", err)
				e["jsame"] = st == "ok"
				if st == "panic" {
					e["jdec"] = "panic"
				}
				// the value the JSON decoder accepted, in the binary form
				e["jbin"], err = stage(func() error {
					b2, err := k.enc(v2)
					if err != nil {
						return fmt.Errorf("encode: %w", err)
					}
					b2 = bytes.Clone(b2)
					v4, err := arrive(kind, b2, srih)()
					if err != nil {
						return fmt.Errorf("decode: %w", err)
					}
					b4, err := k.enc(v4)
					if err != nil || !bytes.Equal(b4, b2) {
						return fmt.Errorf("binary form changes the value")
					}
					return nil
				})
				note("JSON-accepted value in binary", err)
				if e["jbin"] == "err" { // the class of this finding is the ground of the refusal
					e["sig"] = reasonClass(err.Error())
				}
			}
		}
		// binary -> JSON -> binary, starting from the object the binary decoder delivered
		if e["bdec"] == "ok" {
			e["xdec"], err = stage(func() error {
				j1, err := k.jenc(v1)
				if err != nil {
					return fmt.Errorf("JSON encode of a decoded value: %w", err)
				}
				v3, err := k.jdec(j1, v1)
				if err != nil {
					return fmt.Errorf("JSON decode of a decoded value: %w", err)
				}
				b3, err := k.enc(v3)
				if err != nil {
					return err
				}
				v4, err := arrive(kind, b3, srih)()
				if err != nil {
					return err
				}
				e["xsame"] = bytes.Equal(b3, b0) && k.hash(v4) == k.hash(v1)
				return nil
			})
			note("binary->JSON->binary", err)
		}
	}
	if f := k.hop["item"]; f != nil && v != nil {
		var v5 any
		e["idec"], err = stage(func() error { var err error; v5, err = f(v, ""); return err })
		note("item form", err)
		if e["idec"] == "ok" && e["bdec"] == "ok" {
			o := observe(k, v5)
			e["isame"] = bytes.Equal(o.bytes, b0)
		}
	}
	e["note"] = strings.Join(notes, "; ")
	for _, st := range []string{"benc", "bdec", "jenc", "jdec", "xdec", "idec", "jbin"} {
		if e[st] == "panic" { // the class of a panic is what panicked
			e["sig"] = mutClass("", jobResult{Out: "panic", Note: e["note"].(string)})
		}
	}
	if len(e["note"].(string)) > 400 {
		e["note"] = e["note"].(string)[:400]
	}
	d.tr.Emit(e)
	d.res.Count([]any{"shape", space, kind, cls})
}

func condSig(c condShape) string {
	lv, wd := c.measure()
	switch {
	case lv > 3:
		return fmt.Sprintf("levels=%d", lv)
	case wd > 16:
		return "width>16"
	case (c.T == "And" || c.T == "Or") && c.Rep == -1:
		return "empty-node"
	}
	return "within-limits"
}

func signerSig(s signerShape) string {
	sc := s.Scopes
	switch {
	case sc&^0xf1 != 0:
		return "unknown-scope-bit"
	case sc&0x80 != 0 && sc != 0x80:
		return "global-combined"
	case (sc&0x10 != 0 && s.Nc > 16) || (sc&0x20 != 0 && s.Ng > 16) || (sc&0x40 != 0 && s.Nr > 16):
		return "list>16"
	case (sc&0x10 == 0 && s.Nc > 0) || (sc&0x20 == 0 && s.Ng > 0) || (sc&0x40 == 0 && s.Nr > 0):
		return "list-without-scope"
	case s.Dup:
		return "equal-entries"
	}
	return "within-limits"
}

func attrSig(a attrShape, legal bool) string {
	for _, n := range a.Attrs {
		if n == "Reserved" && legal {
			return "Reserved attribute"
		}
	}
	if legal {
		if len(a.Attrs) == 1 {
			return "single " + a.Attrs[0]
		}
		return "within-limits"
	}
	for _, n := range a.Attrs {
		if n == "OracleFailData" || n == "OracleBadCode" || n == "Unknown" {
			return n
		}
	}
	if a.Nsig+len(a.Attrs)+a.Fill > 16 {
		return "total>16"
	}
	return "duplicate-attribute"
}

func itemSig(s itemShape, legal bool) string {
	if s.T == "Special" {
		return s.Name
	}
	if !legal {
		return "tree with interop/pointer"
	}
	return "tree"
}

func (d *driver) runShapes(cases []shapeCase) (txVals, ruleVals, signerVals, itemVals, aerVals []*valueT) {
	nth := map[string]int{}
	mk := func(kind, cls string, fresh func() (any, error), deep bool) *valueT {
		v, err := mkValue(d.ks, &valueT{kind: kind, cls: cls, src: "enum", fresh: fresh})
		if err != nil { // the shape event carries the verdict (a value inside the limits that is refused); no path value
			d.res.Inc("enumerated_values_refused", 1)
			return nil
		}
		v.deep = deep
		return v
	}
	keep := func(vs []*valueT, v *valueT) []*valueT {
		if v == nil {
			return vs
		}
		return append(vs, v)
	}
	for _, c := range cases {
		nth[c.Space]++
		switch c.Space {
		case "cond":
			var s condShape
			must(json.Unmarshal(c.C, &s))
			r := &transaction.WitnessRule{Action: transaction.WitnessAllow, Condition: buildCond(s)}
			d.shapeLaws("cond", "rule", s.class(), condSig(s), c.Legal, r, nil, "", false)
			if c.Legal && nth["cond"]%9 == 0 {
				raw, err := encode(r)
				must(err)
				ruleVals = keep(ruleVals, mk("rule", s.class(), arrive("rule", raw, false), nth["cond"]%90 == 0))
			}
		case "signer":
			var s signerShape
			must(json.Unmarshal(c.C, &s))
			sg := buildSigner(s)
			d.shapeLaws("signer", "signer", s.class(), signerSig(s), c.Legal, sg, nil, "", false)
			tx := carrierTx(*sg)
			d.shapeLaws("signer", "tx", s.class(), signerSig(s), c.Legal, tx, nil, "", false)
			if c.Legal && signerSig(s) == "within-limits" {
				raw, err := encode(sg)
				must(err)
				signerVals = keep(signerVals, mk("signer", s.class(), arrive("signer", raw, false), nth["signer"]%10 == 0))
				txVals = keep(txVals, mk("tx", "signer "+s.class(), arrive("tx", tx.Bytes(), false), nth["signer"]%10 == 0))
			}
		case "attrs":
			var a attrShape
			must(json.Unmarshal(c.C, &a))
			tx := buildAttrTx(a)
			d.shapeLaws("attrs", "tx", a.class(), attrSig(a, c.Legal), c.Legal, tx, nil, "", false)
			if c.Legal && !strings.Contains(a.class(), "Reserved") {
				txVals = keep(txVals, mk("tx", a.class(), arrive("tx", tx.Bytes(), false), nth["attrs"]%10 == 0))
			}
		case "item":
			var s itemShape
			must(json.Unmarshal(c.C, &s))
			it := buildItem(s)
			sig := itemSig(s, c.Legal)
			if it == nil {
				d.shapeLaws("item", "item", s.class(), sig, false, nil, specialItemBytes(s.Name), specialItemJSON(s.Name), false)
				continue
			}
			d.shapeLaws("item", "item", s.class(), sig, c.Legal, &itemObj{it}, nil, "", false)
			strict := false
			if _, err := stage(func() error { _, err := stackitem.Serialize(it); return err }); err == nil {
				strict = true
			}
			if _, err := d.ks["item"].enc(&itemObj{it}); err == nil { // an item no serialiser takes is stored as the invalid-item marker
				d.shapeLaws("item", "aer", s.class(), sig, c.Legal, aerWith(it, strict, nth["item"]%2 == 0), nil, "", false)
			}
			if s.T != "Special" || strings.HasPrefix(s.Name, "map-mixed") || s.Name == "all-kinds" || s.Name == "shared" || s.Name == "struct-in-map-in-array" {
				if nth["item"]%7 == 0 || s.T == "Special" {
					shape := s
					itemVals = keep(itemVals, mk("item", s.class(), func() (any, error) { return &itemObj{buildItem(shape)}, nil }, nth["item"]%70 == 0 || s.T == "Special"))
					fault := nth["item"]%2 == 0
					aerVals = keep(aerVals, mk("aer", s.class(), func() (any, error) { return aerWith(buildItem(shape), strict, fault), nil }, nth["item"]%70 == 0 || s.T == "Special"))
				}
			}
		case "manifest":
			var s manifestShape
			must(json.Unmarshal(c.C, &s))
			m := buildManifest(s)
			d.shapeLaws("manifest", "manifest", s.class(), s.class(), c.Legal, m, nil, "", false)
			// what the node's own validity check says: drift against the specification's Legal only
			st, _ := stage(func() error { return m.IsValid(contractHash, true) })
			if (st == "ok") != c.Legal {
				d.noteDrift("manifest IsValid differs from the specification's limits: "+s.class(), map[string]any{"valid": st, "spec": c.Legal})
			}
		case "nef":
			var s nefShape
			must(json.Unmarshal(c.C, &s))
			f, raw := buildNEF(s)
			if f != nil {
				d.shapeLaws("nef", "nef", s.class(), s.class(), c.Legal, f, nil, "", false)
			} else {
				d.shapeLaws("nef", "nef", s.class(), s.class(), c.Legal, nil, raw, "", false)
			}
		}
	}
	return
}

// selectDepth chooses, per kind, the values that take part in paths of two transports (deep) and in the longest paths
// (deeper): distinct value classes first, in seeded order.
func selectDepth(vals []*valueT, r *rand.Rand, n2, n3, n4 int) {
	byKind := map[string][]*valueT{}
	var kinds []string
	for _, v := range vals {
		v.deep, v.deeper, v.deepest = false, false, false
		if byKind[v.kind] == nil {
			kinds = append(kinds, v.kind)
		}
		byKind[v.kind] = append(byKind[v.kind], v)
	}
	sort.Strings(kinds)
	for _, k := range kinds {
		vs := byKind[k]
		r.Shuffle(len(vs), func(i, j int) { vs[i], vs[j] = vs[j], vs[i] })
		seen := map[string]bool{}
		var first, rest []*valueT
		for _, v := range vs {
			if !seen[v.src+v.cls] {
				seen[v.src+v.cls] = true
				first = append(first, v)
			} else {
				rest = append(rest, v)
			}
		}
		// hand-made values (size classes, consensus messages) always go deep
		sort.SliceStable(first, func(i, j int) bool { return first[i].src == "hand" && first[j].src != "hand" })
		for i, v := range append(first, rest...) {
			v.deep = i < n2 || v.src == "hand"
			v.deeper = i < n3
			v.deepest = i < n4
		}
	}
}

func must(err error) {
	if err != nil {
		panic(err)
	}
}

// ------------------------------------------------------------------------------------------------ mutations

type job struct {
	ID    int    `json:"id"`
	Fmt   string `json:"fmt"`
	JSON  bool   `json:"json"`
	Op    string `json:"op"`
	Input string `json:"input"` // hex
}

type jobResult struct {
	ID      int    `json:"id"`
	Out     string `json:"out"` // error | value | panic
	Reenc   string `json:"reenc"`
	Redec   string `json:"redec"`
	Fix     bool   `json:"fix"`
	IdentEq bool   `json:"identeq"`
	ToBin   string `json:"tobin"`
	Ms      int64  `json:"ms"`
	AllocMB int64  `json:"allocmb"`
	Note    string `json:"note"`
}

// lawOn decodes one input and evaluates the decode law on it.  Nothing the code under test does escapes: a panic in
// any later stage (observing the decoded value, re-encoding it) is the outcome "panic" of the decoded value.
func lawOn(f *formatT, in []byte) (r jobResult) {
	r.Reenc, r.Redec, r.ToBin = "na", "na", "na"
	var v any
	st, err := stage(func() error { var err error; v, err = f.decode(in); return err })
	if st != "ok" {
		r.Out = map[string]string{"err": "error", "panic": "panic"}[st]
		r.Note = err.Error()
		return
	}
	r.Out = "value"
	canon := f.canon
	if canon == nil {
		canon = f.encode
	}
	var b1, c1 []byte
	var id1 string
	r.Reenc, err = stage(func() error {
		var err error
		id1 = f.ident(v)
		if b1, err = f.encode(v); err != nil {
			return err
		}
		b1 = bytes.Clone(b1)
		c1, err = canon(v)
		c1 = bytes.Clone(c1)
		return err
	})
	if r.Reenc != "ok" {
		r.Note = "re-encoding the decoded value: " + err.Error()
		if r.Reenc == "panic" {
			r.Out = "panic"
		}
		return
	}
	var v2 any
	r.Redec, err = stage(func() error { var err error; v2, err = f.decode(b1); return err })
	if r.Redec != "ok" {
		r.Note = "decoding the re-encoding: " + err.Error()
		return
	}
	st, err = stage(func() error {
		c2, err := canon(v2)
		if err != nil {
			return err
		}
		r.Fix = bytes.Equal(c2, c1)
		id2 := f.ident(v2)
		r.IdentEq = id2 == id1
		if !r.IdentEq {
			r.Note = fmt.Sprintf("%s -> %s", id1, id2)
		}
		return nil
	})
	if st != "ok" {
		r.Note = "second re-encoding: " + err.Error()
		r.Redec = st
	}
	if f.toBinary != nil {
		r.ToBin, err = stage(func() error { return f.toBinary(v) })
		if err != nil && r.Note == "" {
			r.Note = "binary form of a value accepted from JSON: " + err.Error()
		}
	}
	return
}

const (
	callTimeout = 5 * time.Second
	heapGuard   = 3 << 30
)

// TestChild is the guarded worker: reads jobs from the file named by VERIF_C17_JOBS, writes one line per job to stdout
// ("B id" before the call, "E json" after it).  A call that does not return within callTimeout or drives the heap over
// heapGuard ends the process with "H id" / "M id".
func TestChild(t *testing.T) {
	path := os.Getenv("VERIF_C17_JOBS")
	if path == "" {
		t.Skip("worker of TestDriver")
	}
	_ = syscall.Setrlimit(syscall.RLIMIT_AS, &syscall.Rlimit{Cur: 24 << 30, Max: 24 << 30})
	debug.SetGCPercent(50)
	ks := allKinds()
	bf, jf := binaryFormats(ks), jsonFormats(ks)
	data, err := os.ReadFile(path)
	must(err)
	var jobs []job
	must(json.Unmarshal(data, &jobs))
	out := bufio.NewWriter(os.Stdout)
	cur := make(chan int, 1)
	go func() { // heap guard
		var ms runtime.MemStats
		for {
			time.Sleep(40 * time.Millisecond)
			runtime.ReadMemStats(&ms)
			if ms.HeapAlloc > heapGuard {
				fmt.Fprintf(os.Stdout, "\nM %d %d\n", <-cur, ms.HeapAlloc>>20)
				os.Exit(4)
			}
		}
	}()
	for _, j := range jobs {
		f := bf[j.Fmt]
		if j.JSON {
			f = jf[j.Fmt]
		}
		in, _ := hex.DecodeString(j.Input)
		fmt.Fprintf(out, "B %d\n", j.ID)
		out.Flush()
		select {
		case <-cur:
		default:
		}
		cur <- j.ID
		done := make(chan jobResult, 1)
		var a, b runtime.MemStats
		runtime.ReadMemStats(&a)
		t0 := time.Now()
		go func() { done <- lawOn(f, in) }()
		select {
		case r := <-done:
			runtime.ReadMemStats(&b)
			r.ID, r.Ms, r.AllocMB = j.ID, time.Since(t0).Milliseconds(), int64((b.TotalAlloc-a.TotalAlloc)>>20)
			if len(r.Note) > 300 {
				r.Note = r.Note[:300]
			}
			js, _ := json.Marshal(r)
			fmt.Fprintf(out, "E %s\n", js)
			out.Flush()
		case <-time.After(callTimeout):
			runtime.ReadMemStats(&b)
			fmt.Fprintf(out, "H %d %d\n", j.ID, (b.TotalAlloc-a.TotalAlloc)>>20)
			out.Flush()
			os.Exit(3)
		}
	}
}

// runJobs executes the jobs in guarded workers; a worker that dies is restarted behind the job it died on.
func (d *driver) runJobs(jobs []job, workers int) map[int]jobResult {
	results := map[int]jobResult{}
	type part struct{ jobs []job }
	parts := make([][]job, workers)
	for i, j := range jobs {
		parts[i%workers] = append(parts[i%workers], j)
	}
	ch := make(chan map[int]jobResult, workers)
	for w := range parts {
		go func(w int, js []job) {
			got := map[int]jobResult{}
			for len(js) > 0 {
				path := filepath.Join(vh.OutDir(), fmt.Sprintf("jobs-%d.json", w))
				data, _ := json.Marshal(js)
				must(os.WriteFile(path, data, 0o644))
				cmd := exec.Command(os.Args[0], "-test.run", "^TestChild$", "-test.timeout", "3600s")
				cmd.Env = append(os.Environ(), "VERIF_C17_JOBS="+path)
				outb, _ := cmd.Output()
				lastB := -1
				ended := map[int]bool{}
				special := ""
				for _, line := range strings.Split(string(outb), "\n") {
					switch {
					case strings.HasPrefix(line, "B "):
						fmt.Sscanf(line, "B %d", &lastB)
					case strings.HasPrefix(line, "E "):
						var r jobResult
						if json.Unmarshal([]byte(line[2:]), &r) == nil {
							got[r.ID] = r
							ended[r.ID] = true
						}
					case strings.HasPrefix(line, "H "), strings.HasPrefix(line, "M "):
						special = line
					}
				}
				if lastB < 0 || ended[lastB] {
					if len(ended) == 0 {
						panic(fmt.Sprintf("worker produced nothing: %.2000s", outb))
					}
					// all jobs of this run answered
					var rest []job
					for _, j := range js {
						if !ended[j.ID] {
							rest = append(rest, j)
						}
					}
					if len(rest) == len(js) {
						panic("worker makes no progress")
					}
					js = rest
					continue
				}
				// the worker died inside job lastB
				r := jobResult{ID: lastB, Out: "crash", Reenc: "na", Redec: "na", ToBin: "na", Note: tailOf(string(outb), 400)}
				if strings.HasPrefix(special, "H ") {
					r.Out = "hang"
					fmt.Sscanf(special, "H %d %d", &r.ID, &r.AllocMB)
					r.Ms = callTimeout.Milliseconds()
				} else if strings.HasPrefix(special, "M ") {
					r.Out = "memory"
					fmt.Sscanf(special, "M %d %d", &r.ID, &r.AllocMB)
				}
				got[lastB] = r
				var rest []job
				for _, j := range js {
					if !ended[j.ID] && j.ID != lastB {
						rest = append(rest, j)
					}
				}
				js = rest
			}
			ch <- got
		}(w, parts[w])
	}
	for range parts {
		for id, r := range <-ch {
			results[id] = r
		}
	}
	return results
}

func tailOf(s string, n int) string {
	if len(s) > n {
		return s[len(s)-n:]
	}
	return s
}

type sampleT struct {
	raw []byte
	cls string
	fs  []field
	doc *jnode
}

// samplesFor picks valid encodings of a format from the value universe.
func (d *driver) binarySamples(vals []*valueT, max int) map[string][]sampleT {
	out := map[string][]sampleT{}
	add := func(name string, raw []byte, cls string) {
		if len(out[name]) < max {
			out[name] = append(out[name], sampleT{raw: bytes.Clone(raw), cls: cls})
		}
	}
	msg := func(name string, cmd network.CommandType, p payload.Payload, cls string) {
		raw, err := network.NewMessage(cmd, p).BytesCompressed(false)
		if err == nil {
			add(name, raw, cls)
		}
	}
	r := d.rnd
	order := r.Perm(len(vals))
	for _, i := range order {
		v := vals[i]
		if v.origin != "canon" || len(v.b0) > 6000 {
			continue
		}
		o, err := v.fresh()
		if err != nil {
			continue
		}
		switch v.kind {
		case "tx":
			add("tx", v.b0, v.cls)
			add("tx-frombytes", v.b0, v.cls)
			msg("message-tx", network.CMDTX, o.(*transaction.Transaction), v.cls)
			t := o.(*transaction.Transaction)
			for i := range t.Signers {
				if b, err := encode(&t.Signers[i]); err == nil && (t.Signers[i].Scopes&^0x81 != 0 || len(out["signer"]) == 0) {
					add("signer", b, v.cls)
				}
			}
			for i := range t.Attributes {
				if b, err := encode(&t.Attributes[i]); err == nil {
					add("attr", b, t.Attributes[i].Type.String())
				}
			}
			for i := range t.Scripts {
				if b, err := encode(&t.Scripts[i]); err == nil && i == 0 {
					add("witness", b, v.cls)
				}
			}
		case "block":
			b := o.(*block.Block)
			if b.StateRootEnabled {
				add("block-sr", v.b0, v.cls)
			} else {
				add("block", v.b0, v.cls)
				msg("message-block", network.CMDBlock, b, v.cls)
				w := io.NewBufBinWriter()
				b.EncodeTrimmed(w.BinWriter)
				add("trimmed-block", w.Bytes(), v.cls)
				hs := make([]util.Uint256, 0, len(b.Transactions))
				for _, t := range b.Transactions {
					hs = append(hs, t.Hash())
				}
				if len(hs) > 0 {
					msg("message-inv", network.CMDInv, payload.NewInventory(payload.TXType, hs), v.cls)
					msg("message-mptinv", network.CMDGetMPTData, payload.NewMPTInventory(hs), v.cls)
				}
			}
		case "header":
			h := o.(*block.Header)
			if h.StateRootEnabled {
				add("header-sr", v.b0, v.cls)
			} else {
				add("header", v.b0, v.cls)
				msg("message-headers", network.CMDHeaders, &payload.Headers{Hdrs: []*block.Header{h, h}}, v.cls)
			}
		case "rule":
			add("rule", v.b0, v.cls)
		case "signer":
			add("signer", v.b0, v.cls)
		case "extensible":
			add("extensible", v.b0, v.cls)
			msg("message-ext", network.CMDExtensible, o.(*payload.Extensible), v.cls)
		case "consensus":
			name := "consensus-" + strings.SplitN(strings.SplitN(v.cls, " ", 2)[0], "-", 2)[0]
			if !strings.Contains(v.cls, "sr=true") {
				add(name, v.b0, v.cls)
			}
		case "notaryreq":
			add("notaryreq", v.b0, v.cls)
			msg("message-notary", network.CMDP2PNotaryRequest, o.(*payload.P2PNotaryRequest), v.cls)
		case "stateroot":
			add("stateroot", v.b0, v.cls)
		case "mptnode":
			add("mptnode", v.b0, v.cls)
		case "nef":
			add("nef", v.b0, v.cls)
		case "item":
			if b, err := stackitem.Serialize(o.(*itemObj).it); err == nil {
				add("item", b, v.cls)
			}
			add("item-protected", v.b0, v.cls)
		case "aer":
			add("aer", v.b0, v.cls)
			for _, ev := range o.(*state.AppExecResult).Events {
				if b, err := encode(&ev); err == nil {
					add("notification", b, ev.Name)
				}
			}
		case "contract":
			add("contract", v.b0, v.cls)
		}
	}
	return out
}

func (d *driver) jsonSamples(vals []*valueT, max int) map[string][]sampleT {
	out := map[string][]sampleT{}
	add := func(name string, text []byte, cls string) {
		if len(out[name]) >= max || len(text) > 20000 {
			return
		}
		doc, err := parseJSON(text)
		if err != nil {
			d.t.Fatalf("JSON sample of %s does not parse: %v", name, err)
		}
		out[name] = append(out[name], sampleT{raw: text, cls: cls, doc: doc})
	}
	order := d.rnd.Perm(len(vals))
	for _, i := range order {
		v := vals[i]
		k := d.ks[v.kind]
		if v.origin != "canon" || k.jenc == nil {
			continue
		}
		o, err := v.fresh()
		if err != nil {
			continue
		}
		if b, ok := o.(*block.Block); ok && b.StateRootEnabled {
			continue
		}
		if h, ok := o.(*block.Header); ok && h.StateRootEnabled {
			continue
		}
		text, err := k.jenc(o)
		if err != nil {
			continue
		}
		name := v.kind
		if name == "aer" {
			name = "applog"
			if t2, err := json.Marshal(o); err == nil {
				add("aer", t2, v.cls)
			}
			for _, ev := range o.(*state.AppExecResult).Events {
				if t3, err := json.Marshal(ev); err == nil {
					add("notification", t3, ev.Name)
				}
			}
		}
		add(name, text, v.cls)
		switch x := o.(type) {
		case *transaction.Transaction:
			for i := range x.Attributes {
				if t2, err := json.Marshal(&x.Attributes[i]); err == nil {
					add("attr", t2, x.Attributes[i].Type.String())
				}
			}
			if t2, err := json.Marshal(&x.Scripts[0]); err == nil {
				add("witness", t2, "")
			}
		case *itemObj:
			if t2, err := stackitem.ToJSON(x.it); err == nil {
				add("item-plain", t2, v.cls)
			}
		}
	}
	return out
}

// ------------------------------------------------------------------------------------------------ TestDriver

func TestDriver(t *testing.T) {
	res := vh.NewResult()
	defer func() {
		if err := res.Write(); err != nil {
			t.Fatal(err)
		}
	}()
	tr := vh.NewTrace("trace.ndjson")
	defer tr.Close()
	d := &driver{t: t, res: res, tr: tr, ks: allKinds(), rnd: vh.Rand(17), drift: map[string]int{}}

	var paths []pathCase
	var shapes []shapeCase
	var muts []mutCase
	must(vh.ReadJSON("paths.json", &paths))
	must(vh.ReadJSON("shapes.json", &shapes))
	must(vh.ReadJSON("muts.json", &muts))
	only := os.Getenv("VERIF_C17_ONLY") // development aid: "paths", "shapes", "muts"

	// 1. the value universe: shapes (enumerated), ledgers (grown), hand-made
	t0 := time.Now()
	txV, ruleV, signerV, itemV, aerV := d.runShapes(shapes)
	res.Stats["shape_cases"] = len(shapes)
	res.Stats["wall_shapes_s"] = int(time.Since(t0).Seconds())
	var vals []*valueT
	vals = append(vals, txV...)
	vals = append(vals, ruleV...)
	vals = append(vals, signerV...)
	vals = append(vals, itemV...)
	vals = append(vals, aerV...)
	vals = append(vals, handValues(d.ks, vh.Rand(23))...)
	t0 = time.Now()
	nblocks := vh.EnvInt("VERIF_C17_BLOCKS", 24)
	for wi, srih := range []bool{false, true} {
		cv, err := growChain(t, d.ks, srih, vh.Seed()*9176+int64(wi), nblocks, 6)
		if err != nil {
			t.Fatalf("growing a ledger: %v", err)
		}
		vals = append(vals, cv.vals...)
		for _, e := range cv.checks {
			e["sig"], e["hb"], e["mh"], e["mb"], e["meq"] = "canon", e["h0"], e["ha"], e["ba"], true
			if e["err"] != "" {
				e["ha"], e["ba"], e["len"], e["sizes"], e["eq"], e["mh"], e["mb"] = "", "", 0, []int{}, false, "", ""
			}
			tr.Emit(e)
			res.Count([]any{"chaindb", wi, e["kind"], e["h0"]})
		}
		for k, n := range cv.stats {
			res.Inc(fmt.Sprintf("chain_sr=%v_%s", srih, k), n)
		}
	}
	res.Stats["wall_chains_s"] = int(time.Since(t0).Seconds())
	selectDepth(vals, vh.Rand(29), vh.EnvInt("VERIF_C17_DEEP", 30), vh.EnvInt("VERIF_C17_DEEPER", 6), vh.EnvInt("VERIF_C17_DEEPEST", 2))
	// non-canonical arrivals of the same contents
	var nc []*valueT
	for _, v := range vals {
		if !v.deeper || v.origin != "canon" {
			continue
		}
		var tracef func([]byte) ([]field, error)
		signed := 0
		srih := strings.Contains(v.cls, "sr=true")
		switch v.kind {
		case "tx":
			tracef = serTrace(func() io.Serializable { return &transaction.Transaction{} })
			o, _ := v.fresh()
			tx := o.(*transaction.Transaction)
			n := len(varint(uint64(len(tx.Scripts))))
			for i := range tx.Scripts {
				n += witnessLen(&tx.Scripts[i])
			}
			signed = len(v.b0) - n
		case "block":
			tracef = serTrace(func() io.Serializable { return block.New(srih) })
			signed = 0 // the header has no variable-length integer inside its signed part
		case "notaryreq":
			tracef = serTrace(func() io.Serializable { return &payload.P2PNotaryRequest{} })
			signed = len(v.b0)
		case "extensible":
			tracef = serTrace(func() io.Serializable { return payload.NewExtensible() })
			o, _ := v.fresh()
			signed = len(v.b0) - 1 - witnessLen(&o.(*payload.Extensible).Witness)
		default:
			continue
		}
		nc = append(nc, nonCanonical(d.ks, v, tracef, signed, srih, 2)...)
	}
	for i, v := range nc { // the first few take part in the longest paths too
		v.deeper = i%4 == 0 && i < 48
		v.deepest = i%8 == 0 && i < 48
	}
	res.Stats["noncanonical_values"] = len(nc)
	vals = append(vals, nc...)
	byKind := map[string]int{}
	for _, v := range vals {
		byKind[v.kind+"/"+v.src]++
	}
	res.Stats["values"] = byKind

	// 2. paths
	if only == "" || only == "paths" {
		t0 = time.Now()
		d.runPaths(paths, vals, vh.EnvInt("VERIF_C17_LONG", 3))
		d.flushHop()
		res.Stats["wall_paths_s"] = int(time.Since(t0).Seconds())
	}

	// 3. mutations, in guarded workers
	if only == "" || only == "muts" {
		t0 = time.Now()
		d.runMutations(muts, vals)
		res.Stats["wall_mutations_s"] = int(time.Since(t0).Seconds())
	}
	res.Stats["drift_counts"] = d.drift
	res.Traces = 1
	res.Sample(map[string]any{"values": byKind, "paths": len(paths), "shapes": len(shapes), "mutation_cases": len(muts)})
}

func (d *driver) runMutations(muts []mutCase, vals []*valueT) {
	nsamp := vh.EnvInt("VERIF_C17_SAMPLES", 2)
	bs := d.binarySamples(vals, nsamp)
	js := d.jsonSamples(vals, nsamp)
	bf := binaryFormats(d.ks)
	// hand-made samples of message kinds that carry no chain object
	caps := capability.Capabilities{{Type: capability.TCPServer, Data: &capability.Server{Port: 20333}},
		{Type: capability.FullNode, Data: &capability.Node{StartHeight: 12}}}
	hdr := carrierHeader(false)
	extra := map[string]payload.Payload{
		"message-ping":            payload.NewPing(5, 77),
		"message-getblocks":       payload.NewGetBlocks(util.Uint256{1}, 10),
		"message-getblockbyindex": payload.NewGetBlockByIndex(3, 10),
		"message-addr": &payload.AddressList{Addrs: []*payload.AddressAndTime{
			{Timestamp: 1700000000, IP: [16]byte{0, 0, 0, 0, 0, 0, 0, 0, 0, 0, 0xff, 0xff, 10, 0, 0, 1}, Capabilities: caps},
			{Timestamp: 1700000001, IP: [16]byte{0x20, 1}, Capabilities: caps[:1]}}},
		"message-version":     payload.NewVersion(netmode.UnitTestNet, 77, "/NEO-GO:test/", caps),
		"message-merkleblock": &payload.MerkleBlock{Header: &hdr, TxCount: 2, Hashes: []util.Uint256{{1}, {2}}, Flags: []byte{1}},
	}
	cmds := map[string]network.CommandType{"message-ping": network.CMDPing, "message-getblocks": network.CMDGetBlocks,
		"message-getblockbyindex": network.CMDGetBlockByIndex, "message-addr": network.CMDAddr, "message-version": network.CMDVersion,
		"message-merkleblock": network.CMDMerkleBlock}
	for n, p := range extra {
		if raw, err := network.NewMessage(cmds[n], p).BytesCompressed(false); err == nil {
			bs[n] = append(bs[n], sampleT{raw: raw, cls: "hand"})
		}
	}
	for _, v := range vals {
		if v.kind == "mptnode" && len(bs["message-mptdata"]) < nsamp {
			if raw, err := network.NewMessage(network.CMDMPTData, &payload.MPTData{Nodes: [][]byte{v.b0, v.b0}}).BytesCompressed(false); err == nil {
				bs["message-mptdata"] = append(bs["message-mptdata"], sampleT{raw: raw, cls: v.cls})
			}
			w := io.NewBufBinWriter()
			w.WriteVarBytes([]byte{1, 2, 3})
			w.WriteVarUint(2)
			w.WriteVarBytes(v.b0)
			w.WriteVarBytes(v.b0)
			bs["mptproof"] = append(bs["mptproof"], sampleT{raw: bytes.Clone(w.Bytes()), cls: v.cls})
		}
		if v.kind == "stateroot" && len(bs["stateroot-msg"]) < nsamp {
			bs["stateroot-msg"] = append(bs["stateroot-msg"], sampleT{raw: append([]byte{1}, v.b0...), cls: v.cls})
		}
	}
	for name, ss := range bs {
		f := bf[name]
		if f == nil {
			d.t.Fatalf("no format %s", name)
		}
		for i := range ss {
			if f.trace != nil {
				fs, err := f.trace(ss[i].raw)
				if err != nil {
					d.t.Fatalf("the valid sample of %s (%s) is refused by its decoder: %v", name, ss[i].cls, err)
				}
				ss[i].fs = fs
			}
			if _, err := f.decode(ss[i].raw); err != nil {
				d.t.Fatalf("the valid sample of %s (%s) is refused by its decoder: %v", name, ss[i].cls, err)
			}
		}
	}
	var jobs []job
	meta := map[int]map[string]any{}
	seen := map[string]bool{}
	nofmt := map[string]bool{}
	var all []mutCase
	var lists struct{ Binary, JSON []string }
	for _, c := range muts {
		if c.Fmts == "list" {
			lists.Binary, lists.JSON = c.Binary, c.JSON
		}
	}
	if len(lists.Binary) == 0 || len(lists.JSON) == 0 {
		d.t.Fatalf("the list of formats is missing from the mutation cases")
	}
	sort.Strings(lists.Binary)
	sort.Strings(lists.JSON)
	for _, c := range muts {
		fl := lists.Binary
		if c.Fmts == "json" {
			fl = lists.JSON
		} else if c.Fmts != "binary" {
			continue
		}
		for _, f := range fl {
			x := c
			x.Fmt = f
			all = append(all, x)
		}
	}
	for _, c := range all {
		isJSON := c.Fmts == "json"
		var ss []sampleT
		if isJSON {
			ss = js[c.Fmt]
		} else {
			ss = bs[c.Fmt]
		}
		if len(ss) == 0 {
			nofmt[fmt.Sprintf("%s json=%v", c.Fmt, isJSON)] = true
			continue
		}
		for si, s := range ss {
			if si > 0 && (c.Op == "cnt-16m" || c.Op == "cnt-16m1" || c.Op == "cnt-2g" || c.Op == "cnt-max" || c.Op == "cnt-64k1") {
				continue // the expensive count classes: one sample each
			}
			var in []byte
			if isJSON {
				txt := applyJSONMut(s.doc, c)
				if txt == "" {
					continue
				}
				in = []byte(txt)
			} else {
				in = applyMut(s.raw, s.fs, c)
				if in == nil || bytes.Equal(in, s.raw) {
					continue
				}
			}
			key := fmt.Sprintf("%v|%s|%x", isJSON, c.Fmt, in)
			if len(in) > 64 {
				key = fmt.Sprintf("%v|%s|%s|%d", isJSON, c.Fmt, dig(in), len(in))
			}
			if seen[key] {
				continue
			}
			seen[key] = true
			id := len(jobs)
			jobs = append(jobs, job{ID: id, Fmt: c.Fmt, JSON: isJSON, Op: c.Op, Input: hex.EncodeToString(in)})
			meta[id] = map[string]any{"fmt": c.Fmt, "json": isJSON, "op": c.Op, "anchor": c.Anchor, "k": c.K, "tag": c.Tag, "sample": si, "inlen": len(in),
				"input": hex.EncodeToString(in[:min(len(in), 600)])}
		}
	}
	var missing []string
	for k := range nofmt {
		missing = append(missing, k)
	}
	sort.Strings(missing)
	d.res.Stats["formats_without_samples"] = missing
	d.res.Stats["mutation_jobs"] = len(jobs)
	results := d.runJobs(jobs, vh.EnvInt("VERIF_C17_WORKERS", 6))
	for id := 0; id < len(jobs); id++ {
		r, ok := results[id]
		if !ok {
			d.t.Fatalf("job %d has no result", id)
		}
		m := meta[id]
		e := map[string]any{"event": "mut", "fmt": m["fmt"], "json": m["json"], "op": m["op"], "anchor": m["anchor"], "k": m["k"], "tag": m["tag"],
			"inlen": m["inlen"], "out": r.Out, "reenc": r.Reenc, "redec": r.Redec, "fix": r.Fix, "identeq": r.IdentEq, "tobin": r.ToBin, "ms": r.Ms,
			"allocmb": r.AllocMB, "note": r.Note, "input": m["input"], "sig": mutClass(m["op"].(string), r)}
		d.tr.Emit(e)
		d.res.Count([]any{"mut", m["fmt"], m["json"], m["input"]})
		d.res.Inc("mut_"+r.Out, 1)
	}
}

var digits = regexp.MustCompile(`[0-9]+`)

func reasonClass(note string) string {
	n := strings.ToLower(note)
	if i := strings.LastIndex(n, "code: "); i >= 0 {
		n = n[i+6:]
	}
	if i := strings.LastIndex(n, ": "); i >= 0 && i < len(n)-10 {
		n = n[i+2:]
	}
	return strings.TrimSpace(digits.ReplaceAllString(n, "N"))
}

// mutClass is the coarse class of a mutation outcome (part of violation signatures): the kind of panic, the reason of a
// refusal, the family of the operator.
func mutClass(op string, r jobResult) string {
	note := strings.ToLower(r.Note)
	switch {
	case r.Out == "panic" || r.Reenc == "panic" || r.Redec == "panic" || r.ToBin == "panic":
		switch {
		case strings.Contains(note, "frombytes"):
			return "stack item: integer longer than 32 bytes"
		case strings.Contains(note, "makeslice"):
			return "stack item: count field overflows int"
		case strings.Contains(note, "map key"):
			return "stack item: invalid map key"
		case strings.Contains(note, "too big: integer"):
			return "stack item: integer beyond 256 bits"
		case strings.Contains(note, "nil pointer"):
			return "nil dereference"
		case strings.Contains(note, "failed to compute hash"), strings.Contains(note, "invalid compiler name"), strings.Contains(note, "does not have signers"):
			return "value accepted from JSON cannot be encoded"
		}
		return "other"
	case r.Out == "hang" || r.Out == "memory" || r.Out == "crash" || r.AllocMB > 256:
		return "count field"
	case r.Out == "value" && r.ToBin != "na" && r.ToBin != "ok":
		return reasonClass(note)
	}
	if strings.HasPrefix(op, "nc-") {
		return "non-minimal var-int"
	}
	if strings.HasPrefix(op, "cnt-") {
		return "count field"
	}
	return op
}

func isJSONOp(op string) bool {
	switch op {
	case "drop", "null", "dup-elem", "drop-elem", "to-number", "to-string", "to-bool", "to-array", "to-object", "big-number", "negative", "fraction",
		"deep", "long-string", "bogus-enum", "empty-string", "bad-base64", "bad-hex", "dup-key":
		return true
	}
	return false
}
