package c17wire

import (
	"bytes"
	"crypto/sha256"
	"encoding/hex"
	"encoding/json"
	"fmt"
	"math/big"
	"reflect"
	"sort"
	"strings"

	"github.com/nspcc-dev/neo-go/pkg/core/mpt"
	"github.com/nspcc-dev/neo-go/pkg/crypto/keys"
	"github.com/nspcc-dev/neo-go/pkg/smartcontract/manifest"
	"github.com/nspcc-dev/neo-go/pkg/vm/stackitem"
)

// dig is a short digest used in traces instead of long byte strings.
func dig(b []byte) string {
	h := sha256.Sum256(b)
	return hex.EncodeToString(h[:6])
}

// dumpItem renders a stack item with the harness's own walk (public accessors only): kind, value, children.  Shared and
// recursive references are rendered by back-reference number, so the dump of a cyclic item terminates.
func dumpItem(sb *strings.Builder, it stackitem.Item, seen map[stackitem.Item]int) {
	if it == nil {
		sb.WriteString("nil")
		return
	}
	switch v := it.(type) {
	case stackitem.Null:
		sb.WriteString("Any")
	case stackitem.Bool:
		fmt.Fprintf(sb, "Bool(%v)", bool(v))
	case *stackitem.BigInteger:
		fmt.Fprintf(sb, "Int(%s)", v.Big().String())
	case *stackitem.ByteArray:
		fmt.Fprintf(sb, "Bytes(%x)", v.Value().([]byte))
	case *stackitem.Buffer:
		fmt.Fprintf(sb, "Buffer(%x)", v.Value().([]byte))
	case *stackitem.Interop:
		sb.WriteString("Interop")
	case *stackitem.Pointer:
		fmt.Fprintf(sb, "Pointer(%d)", v.Position())
	case *stackitem.Array, *stackitem.Struct:
		if n, ok := seen[it]; ok {
			fmt.Fprintf(sb, "^%d", n)
			return
		}
		seen[it] = len(seen)
		if it.Type() == stackitem.ArrayT {
			sb.WriteString("Array[")
		} else {
			sb.WriteString("Struct[")
		}
		for i, e := range it.Value().([]stackitem.Item) {
			if i > 0 {
				sb.WriteByte(',')
			}
			dumpItem(sb, e, seen)
		}
		sb.WriteByte(']')
		delete(seen, it) // only cycles are back-references: a shared (acyclic) child is rendered in full
	case *stackitem.Map:
		if n, ok := seen[it]; ok {
			fmt.Fprintf(sb, "^%d", n)
			return
		}
		seen[it] = len(seen)
		sb.WriteString("Map{")
		for i, e := range v.Value().([]stackitem.MapElement) {
			if i > 0 {
				sb.WriteByte(',')
			}
			dumpItem(sb, e.Key, seen)
			sb.WriteByte(':')
			dumpItem(sb, e.Value, seen)
		}
		sb.WriteByte('}')
		delete(seen, it)
	default:
		fmt.Fprintf(sb, "?%T", it)
	}
}

func itemString(it stackitem.Item) string {
	var sb strings.Builder
	dumpItem(&sb, it, map[stackitem.Item]int{})
	return sb.String()
}

var (
	itemType    = reflect.TypeOf((*stackitem.Item)(nil)).Elem()
	pubKeyType  = reflect.TypeOf(&keys.PublicKey{})
	bigIntType  = reflect.TypeOf(&big.Int{})
	rawJSONType = reflect.TypeOf(json.RawMessage{})
	mptNodeType = reflect.TypeOf((*mpt.Node)(nil)).Elem()
)

// dump renders the EXPORTED content of a value: struct fields that are not exported (memo fields, caches) are left
// out, nil and empty slices are the same, pointers are followed.  Types whose content is not in exported fields are
// rendered through their public accessors.
func dump(sb *strings.Builder, v reflect.Value, depth int) {
	if depth > 64 {
		sb.WriteString("<deep>")
		return
	}
	if !v.IsValid() {
		sb.WriteString("nil")
		return
	}
	t := v.Type()
	if t.Implements(itemType) && (v.Kind() != reflect.Interface || !v.IsNil()) && (v.Kind() != reflect.Pointer || !v.IsNil()) {
		if v.CanInterface() {
			dumpItem(sb, v.Interface().(stackitem.Item), map[stackitem.Item]int{})
			return
		}
	}
	if t.Implements(mptNodeType) && v.CanInterface() && !(v.Kind() == reflect.Interface && v.IsNil()) && !(v.Kind() == reflect.Pointer && v.IsNil()) {
		n := v.Interface().(mpt.Node)
		fmt.Fprintf(sb, "mpt(%d:%x)", n.Type(), n.Bytes())
		return
	}
	switch t {
	case pubKeyType:
		if v.IsNil() {
			sb.WriteString("nilkey")
		} else {
			fmt.Fprintf(sb, "key(%x)", v.Interface().(*keys.PublicKey).Bytes())
		}
		return
	case bigIntType:
		if v.IsNil() {
			sb.WriteString("nilint")
		} else {
			sb.WriteString(v.Interface().(*big.Int).String())
		}
		return
	case rawJSONType:
		var out bytes.Buffer
		raw := v.Bytes()
		if len(raw) == 0 {
			sb.WriteString("json()")
			return
		}
		if err := json.Compact(&out, raw); err != nil {
			fmt.Fprintf(sb, "badjson(%x)", raw)
		} else {
			fmt.Fprintf(sb, "json(%s)", out.String())
		}
		return
	case reflect.TypeOf(keys.PublicKey{}):
		if v.CanAddr() {
			fmt.Fprintf(sb, "key(%x)", v.Addr().Interface().(*keys.PublicKey).Bytes())
		} else {
			k := v.Interface().(keys.PublicKey)
			fmt.Fprintf(sb, "key(%x)", (&k).Bytes())
		}
		return
	case reflect.TypeOf(manifest.WildStrings{}):
		w := v.Interface().(manifest.WildStrings)
		if w.Value == nil {
			sb.WriteString("wild*")
		} else {
			fmt.Fprintf(sb, "wild%q", w.Value)
		}
		return
	}
	switch v.Kind() {
	case reflect.Pointer, reflect.Interface:
		if v.IsNil() {
			sb.WriteString("nil")
			return
		}
		if v.Kind() == reflect.Interface {
			sb.WriteString(v.Elem().Type().String())
			sb.WriteByte(':')
		}
		dump(sb, v.Elem(), depth+1)
	case reflect.Struct:
		sb.WriteByte('{')
		for i := 0; i < v.NumField(); i++ {
			f := t.Field(i)
			if !f.IsExported() {
				continue
			}
			sb.WriteString(f.Name)
			sb.WriteByte('=')
			dump(sb, v.Field(i), depth+1)
			sb.WriteByte(';')
		}
		sb.WriteByte('}')
	case reflect.Slice, reflect.Array:
		if t.Elem().Kind() == reflect.Uint8 {
			sb.WriteString("x")
			for i := 0; i < v.Len(); i++ {
				fmt.Fprintf(sb, "%02x", v.Index(i).Uint())
			}
			return
		}
		sb.WriteByte('[')
		for i := 0; i < v.Len(); i++ {
			if i > 0 {
				sb.WriteByte(',')
			}
			dump(sb, v.Index(i), depth+1)
		}
		sb.WriteByte(']')
	case reflect.Map:
		ks := v.MapKeys()
		sort.Slice(ks, func(i, j int) bool { return fmt.Sprint(ks[i]) < fmt.Sprint(ks[j]) })
		sb.WriteString("map{")
		for _, k := range ks {
			fmt.Fprintf(sb, "%v=", k)
			dump(sb, v.MapIndex(k), depth+1)
			sb.WriteByte(';')
		}
		sb.WriteByte('}')
	case reflect.String:
		fmt.Fprintf(sb, "%q", v.String())
	case reflect.Bool:
		fmt.Fprintf(sb, "%v", v.Bool())
	case reflect.Int, reflect.Int8, reflect.Int16, reflect.Int32, reflect.Int64:
		fmt.Fprintf(sb, "%d", v.Int())
	case reflect.Uint, reflect.Uint8, reflect.Uint16, reflect.Uint32, reflect.Uint64:
		fmt.Fprintf(sb, "%d", v.Uint())
	default:
		fmt.Fprintf(sb, "<%s>", v.Kind())
	}
}

// content is the rendering of the exported content of v.
func content(v any) string {
	var sb strings.Builder
	dump(&sb, reflect.ValueOf(v), 0)
	return sb.String()
}
