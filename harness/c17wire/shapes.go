package c17wire

import (
	"bytes"
	"encoding/json"
	"fmt"
	"math/big"
	"strings"

	"github.com/nspcc-dev/neo-go/pkg/core/state"
	"github.com/nspcc-dev/neo-go/pkg/core/transaction"
	"github.com/nspcc-dev/neo-go/pkg/crypto/hash"
	"github.com/nspcc-dev/neo-go/pkg/crypto/keys"
	"github.com/nspcc-dev/neo-go/pkg/io"
	"github.com/nspcc-dev/neo-go/pkg/smartcontract"
	"github.com/nspcc-dev/neo-go/pkg/smartcontract/callflag"
	"github.com/nspcc-dev/neo-go/pkg/smartcontract/manifest"
	"github.com/nspcc-dev/neo-go/pkg/smartcontract/nef"
	"github.com/nspcc-dev/neo-go/pkg/smartcontract/trigger"
	"github.com/nspcc-dev/neo-go/pkg/util"
	"github.com/nspcc-dev/neo-go/pkg/vm/opcode"
	"github.com/nspcc-dev/neo-go/pkg/vm/stackitem"
	"github.com/nspcc-dev/neo-go/pkg/vm/vmstate"

	"verifharness/internal/chainkit"
)

// shapeCase is one case printed by WireShapes.tla.
type shapeCase struct {
	Space string          `json:"space"`
	Legal bool            `json:"legal"`
	C     json.RawMessage `json:"c"`
}

var (
	sampleKey  = chainkit.Key("c17-group").PublicKey()
	sampleKey2 = chainkit.Key("c17-group-2").PublicKey()
	sampleHash = util.Uint160{0xde, 0xad, 0xbe, 0xef, 1, 2, 3, 4, 5, 6, 7, 8, 9, 10, 11, 12, 13, 14, 15, 16}
)

// ------------------------------------------------------------------------------------------------ conditions

type condShape struct {
	T   string      `json:"t"`
	Cs  []condShape `json:"cs"`
	Rep int         `json:"rep"`
}

func (c condShape) class() string {
	lv, wd := c.measure()
	return fmt.Sprintf("levels=%d width=%d", lv, wd)
}

func (c condShape) measure() (levels, width int) {
	levels = 1
	if c.T == "And" || c.T == "Or" {
		width = len(c.Cs)
		if c.Rep > 0 {
			width = c.Rep
		}
	}
	for _, s := range c.Cs {
		l, w := s.measure()
		levels = max(levels, l+1)
		width = max(width, w)
	}
	return
}

func buildCond(c condShape) transaction.WitnessCondition {
	kids := func() []transaction.WitnessCondition {
		var out []transaction.WitnessCondition
		if c.Rep > 0 {
			for i := 0; i < c.Rep; i++ {
				out = append(out, buildCond(c.Cs[0]))
			}
			return out
		}
		for _, s := range c.Cs {
			out = append(out, buildCond(s))
		}
		return out
	}
	switch c.T {
	case "BoolT", "BoolF":
		b := transaction.ConditionBoolean(c.T == "BoolT")
		return &b
	case "Not":
		return &transaction.ConditionNot{Condition: buildCond(c.Cs[0])}
	case "And":
		v := transaction.ConditionAnd(kids())
		return &v
	case "Or":
		v := transaction.ConditionOr(kids())
		return &v
	case "ScriptHash":
		v := transaction.ConditionScriptHash(sampleHash)
		return &v
	case "Group":
		v := transaction.ConditionGroup(*sampleKey)
		return &v
	case "CalledByEntry":
		return transaction.ConditionCalledByEntry{}
	case "CalledByContract":
		v := transaction.ConditionCalledByContract(sampleHash)
		return &v
	case "CalledByGroup":
		v := transaction.ConditionCalledByGroup(*sampleKey2)
		return &v
	}
	panic("unknown condition " + c.T)
}

// ------------------------------------------------------------------------------------------------ signers, attributes

type signerShape struct {
	Scopes int  `json:"scopes"`
	Nc     int  `json:"nc"`
	Ng     int  `json:"ng"`
	Nr     int  `json:"nr"`
	Dup    bool `json:"dup"`
}

func (s signerShape) class() string {
	return fmt.Sprintf("scopes=0x%02x contracts=%d groups=%d rules=%d dup=%v", s.Scopes, s.Nc, s.Ng, s.Nr, s.Dup)
}

func buildSigner(s signerShape) *transaction.Signer {
	sg := &transaction.Signer{Account: util.Uint160{0xaa, 1}, Scopes: transaction.WitnessScope(s.Scopes)}
	for i := 0; i < s.Nc; i++ {
		h := sampleHash
		if !s.Dup {
			h[0] = byte(i)
		}
		sg.AllowedContracts = append(sg.AllowedContracts, h)
	}
	for i := 0; i < s.Ng; i++ {
		k := sampleKey
		if !s.Dup {
			k = chainkit.Key(fmt.Sprintf("c17-g%d", i)).PublicKey()
		}
		sg.AllowedGroups = append(sg.AllowedGroups, k)
	}
	for i := 0; i < s.Nr; i++ {
		sg.Rules = append(sg.Rules, transaction.WitnessRule{Action: transaction.WitnessAction(i % 2), Condition: transaction.ConditionCalledByEntry{}})
	}
	return sg
}

type attrShape struct {
	Attrs []string `json:"attrs"`
	Nsig  int      `json:"nsig"`
	Fill  int      `json:"fill"`
}

func (a attrShape) class() string {
	return fmt.Sprintf("attrs=%s signers=%d fill=%d", strings.Join(a.Attrs, "+"), a.Nsig, a.Fill)
}

func buildAttr(name string, i int) transaction.Attribute {
	switch name {
	case "HighPriority":
		return transaction.Attribute{Type: transaction.HighPriority}
	case "OracleOK":
		return transaction.Attribute{Type: transaction.OracleResponseT, Value: &transaction.OracleResponse{ID: uint64(7 + i), Code: transaction.Success, Result: []byte{1, 2, 3}}}
	case "OracleFail":
		return transaction.Attribute{Type: transaction.OracleResponseT, Value: &transaction.OracleResponse{ID: 1 << 40, Code: transaction.Timeout, Result: []byte{}}}
	case "OracleFailData":
		return transaction.Attribute{Type: transaction.OracleResponseT, Value: &transaction.OracleResponse{ID: 9, Code: transaction.Forbidden, Result: []byte{1}}}
	case "OracleBadCode":
		return transaction.Attribute{Type: transaction.OracleResponseT, Value: &transaction.OracleResponse{ID: 9, Code: 0x55, Result: []byte{}}}
	case "NotValidBefore":
		return transaction.Attribute{Type: transaction.NotValidBeforeT, Value: &transaction.NotValidBefore{Height: 0x01020304}}
	case "Conflicts":
		h := util.Uint256{0x11, 0x22, 0x33}
		h[31] = byte(i)
		h[30] = 0x99
		return transaction.Attribute{Type: transaction.ConflictsT, Value: &transaction.Conflicts{Hash: h}}
	case "NotaryAssisted":
		return transaction.Attribute{Type: transaction.NotaryAssistedT, Value: &transaction.NotaryAssisted{NKeys: 3}}
	case "Reserved":
		return transaction.Attribute{Type: transaction.ReservedLowerBound + 1, Value: &transaction.Reserved{Value: []byte{4, 5, 6}}}
	case "Unknown":
		return transaction.Attribute{Type: 0x55, Value: &transaction.Reserved{Value: []byte{4}}}
	}
	panic("unknown attribute " + name)
}

func buildAttrTx(a attrShape) *transaction.Transaction {
	var signers []transaction.Signer
	for i := 0; i < a.Nsig; i++ {
		signers = append(signers, transaction.Signer{Account: util.Uint160{0xbb, byte(i)}, Scopes: transaction.CalledByEntry})
	}
	tx := carrierTx(signers...)
	for i, n := range a.Attrs {
		tx.Attributes = append(tx.Attributes, buildAttr(n, i))
	}
	for i := 0; i < a.Fill; i++ {
		tx.Attributes = append(tx.Attributes, buildAttr("Conflicts", 100+i))
	}
	return tx
}

// ------------------------------------------------------------------------------------------------ stack items

type itemShape struct {
	T    string      `json:"t"`
	N    int         `json:"n"`
	Sub  []itemShape `json:"sub"`
	Name string      `json:"name"`
}

func (s itemShape) class() string {
	if s.T == "Special" {
		return s.Name
	}
	kinds := map[string]bool{}
	var depth func(x itemShape) int
	depth = func(x itemShape) int {
		kinds[x.T] = true
		d := 1
		for _, c := range x.Sub {
			d = max(d, 1+depth(c))
		}
		return d
	}
	d := depth(s)
	var ks []string
	for _, k := range []string{"Any", "Bool", "Int", "Bytes", "Buffer", "Array", "Struct", "Map", "Interop", "Pointer"} {
		if kinds[k] {
			ks = append(ks, k)
		}
	}
	return fmt.Sprintf("%s levels=%d kinds=%s", s.T, d, strings.Join(ks, "+"))
}

var (
	intMax = new(big.Int).Sub(new(big.Int).Lsh(big.NewInt(1), 255), big.NewInt(1))
	intMin = new(big.Int).Neg(new(big.Int).Lsh(big.NewInt(1), 255))
)

func buildItem(s itemShape) stackitem.Item {
	switch s.T {
	case "Any":
		return stackitem.Null{}
	case "Bool":
		return stackitem.NewBool(s.N == 1)
	case "Int":
		switch s.N {
		case 0:
			return stackitem.NewBigInteger(big.NewInt(0))
		case 1:
			return stackitem.NewBigInteger(big.NewInt(-1))
		case 2:
			return stackitem.NewBigInteger(new(big.Int).Lsh(big.NewInt(1), 63))
		case 3:
			return stackitem.NewBigInteger(new(big.Int).Set(intMax))
		default:
			return stackitem.NewBigInteger(new(big.Int).Set(intMin))
		}
	case "Bytes":
		return stackitem.NewByteArray(bytes.Repeat([]byte{0xab}, s.N))
	case "Buffer":
		return stackitem.NewBuffer(bytes.Repeat([]byte{0xcd}, s.N))
	case "Interop":
		return stackitem.NewInterop(struct{ x int }{7})
	case "Pointer":
		return stackitem.NewPointer(s.N, []byte{byte(opcode.NOP), byte(opcode.NOP), byte(opcode.NOP), byte(opcode.NOP), byte(opcode.NOP), byte(opcode.NOP), byte(opcode.NOP), byte(opcode.RET)})
	case "Array", "Struct":
		var sub []stackitem.Item
		for _, c := range s.Sub {
			sub = append(sub, buildItem(c))
		}
		if s.T == "Array" {
			return stackitem.NewArray(sub)
		}
		return stackitem.NewStruct(sub)
	case "Map":
		m := stackitem.NewMap()
		for i := 0; i+1 < len(s.Sub); i += 2 {
			m.Add(buildItem(s.Sub[i]), buildItem(s.Sub[i+1]))
		}
		return m
	case "Special":
		return buildSpecialItem(s.Name)
	}
	panic("unknown item " + s.T)
}

func ints(n int) []stackitem.Item {
	out := make([]stackitem.Item, n)
	for i := range out {
		out[i] = stackitem.NewBigInteger(big.NewInt(int64(i)))
	}
	return out
}

func chain(n int) stackitem.Item {
	var it stackitem.Item = stackitem.NewBigInteger(big.NewInt(1))
	for i := 0; i < n; i++ {
		it = stackitem.NewArray([]stackitem.Item{it})
	}
	return it
}

// rawMap builds a map whose keys the public constructor refuses (Add panics on them): through a Struct conversion is
// not possible either, so such shapes are delivered as ENCODINGS (see specialItemBytes); here nil.
func buildSpecialItem(name string) stackitem.Item {
	switch name {
	case "count-2047":
		return stackitem.NewArray(ints(2047)) // 2048 items with the array itself
	case "count-2048":
		return stackitem.NewArray(ints(2048))
	case "count-2049":
		return stackitem.NewArray(ints(2049))
	case "map-1023", "map-1024":
		m := stackitem.NewMap()
		n := 1023
		if name == "map-1024" {
			n = 1024
		}
		for i := 0; i < n; i++ {
			m.Add(stackitem.NewBigInteger(big.NewInt(int64(i))), stackitem.Null{})
		}
		return m
	case "size-max":
		return stackitem.NewByteArray(make([]byte, stackitem.MaxSize-1-3)) // type + 3-byte length + data = MaxSize
	case "size-over":
		return stackitem.NewByteArray(make([]byte, stackitem.MaxSize-1-3+1))
	case "shared":
		a := stackitem.NewArray(ints(3))
		return stackitem.NewArray([]stackitem.Item{a, a, a})
	case "shared-deep":
		a := stackitem.NewStruct(ints(2))
		b := stackitem.NewArray([]stackitem.Item{a, a})
		return stackitem.NewArray([]stackitem.Item{b, b, a})
	case "recursive":
		a := stackitem.NewArray(ints(1))
		a.Append(a)
		return a
	case "recursive-map":
		m := stackitem.NewMap()
		a := stackitem.NewArray([]stackitem.Item{m})
		m.Add(stackitem.NewBool(true), a)
		return m
	case "map-mixed-keys":
		m := stackitem.NewMap()
		m.Add(stackitem.NewBool(true), stackitem.NewBigInteger(big.NewInt(1)))
		m.Add(stackitem.NewBigInteger(big.NewInt(1)), stackitem.NewByteArray([]byte{1}))
		m.Add(stackitem.NewByteArray([]byte{1}), stackitem.NewBool(false))
		m.Add(stackitem.NewBool(false), stackitem.Null{})
		m.Add(stackitem.NewByteArray([]byte{}), stackitem.NewBuffer([]byte{}))
		m.Add(stackitem.NewBigInteger(big.NewInt(0)), stackitem.NewArray(nil))
		return m
	case "map-equal-keys":
		m := stackitem.NewMap()
		m.Add(stackitem.NewBigInteger(big.NewInt(5)), stackitem.NewBigInteger(big.NewInt(1)))
		m.Add(stackitem.NewBigInteger(big.NewInt(5)), stackitem.NewBigInteger(big.NewInt(2)))
		return m
	case "map-key-64":
		m := stackitem.NewMap()
		m.Add(stackitem.NewByteArray(make([]byte, 64)), stackitem.Null{})
		return m
	case "chain-9":
		return chain(9)
	case "chain-10":
		return chain(10)
	case "chain-11":
		return chain(11)
	case "chain-64":
		return chain(64)
	case "int-32-bytes", "int-max":
		return stackitem.NewBigInteger(new(big.Int).Set(intMax))
	case "int-min":
		return stackitem.NewBigInteger(new(big.Int).Set(intMin))
	case "bytes-65535":
		return stackitem.NewByteArray(make([]byte, 65535))
	case "bytes-65536":
		return stackitem.NewByteArray(make([]byte, 65536))
	case "struct-in-map-in-array":
		m := stackitem.NewMap()
		m.Add(stackitem.NewByteArray([]byte("k")), stackitem.NewStruct([]stackitem.Item{stackitem.NewBool(true), stackitem.NewStruct(nil)}))
		return stackitem.NewArray([]stackitem.Item{m, stackitem.NewMap()})
	case "all-kinds":
		m := stackitem.NewMap()
		m.Add(stackitem.NewBigInteger(big.NewInt(1)), stackitem.NewBuffer([]byte{1, 2}))
		return stackitem.NewArray([]stackitem.Item{stackitem.Null{}, stackitem.NewBool(true), stackitem.NewBigInteger(big.NewInt(-5)),
			stackitem.NewByteArray([]byte("abc")), stackitem.NewBuffer([]byte{9}), stackitem.NewArray(nil), stackitem.NewStruct(nil), m,
			stackitem.NewInterop(nil), stackitem.NewPointer(3, []byte{1, 2, 3, 4})})
	}
	return nil // delivered as bytes
}

// specialItemBytes: shapes the public constructors cannot build, written as encodings by hand (maps with keys that
// are not primitive or too long).
func specialItemBytes(name string) []byte {
	switch name {
	case "map-key-65":
		b := append([]byte{byte(stackitem.MapT), 1, byte(stackitem.ByteArrayT), 65}, make([]byte, 65)...)
		return append(b, byte(stackitem.AnyT))
	case "map-key-array":
		return []byte{byte(stackitem.MapT), 1, byte(stackitem.ArrayT), 0, byte(stackitem.AnyT)}
	case "map-key-null":
		return []byte{byte(stackitem.MapT), 1, byte(stackitem.AnyT), byte(stackitem.AnyT)}
	case "map-key-buffer":
		return []byte{byte(stackitem.MapT), 1, byte(stackitem.BufferT), 1, 7, byte(stackitem.AnyT)}
	}
	return nil
}

func specialItemJSON(name string) string {
	switch name {
	case "map-key-65":
		return `{"type":"Map","value":[{"key":{"type":"ByteString","value":"` + strings.Repeat("AAAA", 21) + `AAA="},"value":{"type":"Any"}}]}`
	case "map-key-array":
		return `{"type":"Map","value":[{"key":{"type":"Array","value":[]},"value":{"type":"Any"}}]}`
	case "map-key-null":
		return `{"type":"Map","value":[{"key":{"type":"Any"},"value":{"type":"Any"}}]}`
	case "map-key-buffer":
		return `{"type":"Map","value":[{"key":{"type":"Buffer","value":"Bw=="},"value":{"type":"Any"}}]}`
	}
	return ""
}

// aerWith wraps an item into an execution result: on the stack, and (when the strict serialiser takes it) in a notification.
func aerWith(it stackitem.Item, strict bool, fault bool) *state.AppExecResult {
	a := &state.AppExecResult{Container: util.Uint256{0x42}, Execution: state.Execution{Trigger: trigger.Application, VMState: vmstate.Halt,
		GasConsumed: 1234567, Stack: []stackitem.Item{it, stackitem.NewBool(true)}, Events: []state.NotificationEvent{}}}
	if strict {
		a.Events = append(a.Events, state.NotificationEvent{ScriptHash: sampleHash, Name: "Event", Item: stackitem.NewArray([]stackitem.Item{it})})
	}
	if fault {
		a.VMState = vmstate.Fault
		a.FaultException = "at instruction 7 (SYSCALL): boom"
	}
	return a
}

// ------------------------------------------------------------------------------------------------ manifest, NEF

type manifestShape struct {
	Name, Groups, Perms, Methods, Events, Trusts, Stds, Features, Extra string
}

func (m manifestShape) class() string {
	var parts []string
	for _, kv := range [][2]string{{"name", m.Name}, {"groups", m.Groups}, {"perms", m.Perms}, {"methods", m.Methods}, {"events", m.Events},
		{"trusts", m.Trusts}, {"stds", m.Stds}, {"features", m.Features}, {"extra", m.Extra}} {
		def := map[string]string{"name": "ok", "groups": "none", "perms": "wild", "methods": "one", "events": "none", "trusts": "none", "stds": "none",
			"features": "empty", "extra": "null"}[kv[0]]
		if kv[1] != def {
			parts = append(parts, kv[0]+"="+kv[1])
		}
	}
	if len(parts) == 0 {
		return "default"
	}
	return strings.Join(parts, " ")
}

var contractHash = util.Uint160{0xc0, 0x17}

func groupFor(label string, good bool) manifest.Group {
	k := chainkit.Key(label)
	sig := k.Sign(contractHash.BytesBE())
	if !good {
		sig[5] ^= 1
	}
	return manifest.Group{PublicKey: k.PublicKey(), Signature: sig}
}

func buildManifest(s manifestShape) *manifest.Manifest {
	m := manifest.NewManifest(map[string]string{"ok": "Contract", "empty": "", "long": strings.Repeat("n", 300), "unicode": "Контракт ☃"}[s.Name])
	switch s.Groups {
	case "one":
		m.Groups = []manifest.Group{groupFor("c17-mg1", true)}
	case "two":
		m.Groups = []manifest.Group{groupFor("c17-mg1", true), groupFor("c17-mg2", true)}
	case "dup":
		m.Groups = []manifest.Group{groupFor("c17-mg1", true), groupFor("c17-mg1", true)}
	case "badsig":
		m.Groups = []manifest.Group{groupFor("c17-mg1", false)}
	}
	perm := func(t manifest.PermissionType, arg any, methods []string) manifest.Permission {
		var p *manifest.Permission
		if arg == nil {
			p = manifest.NewPermission(t)
		} else {
			p = manifest.NewPermission(t, arg)
		}
		if methods != nil {
			p.Methods.Value = methods
		}
		return *p
	}
	switch s.Perms {
	case "none":
		m.Permissions = []manifest.Permission{}
	case "wild":
		m.Permissions = []manifest.Permission{perm(manifest.PermissionWildcard, nil, nil)}
	case "hash":
		m.Permissions = []manifest.Permission{perm(manifest.PermissionHash, sampleHash, nil)}
	case "group":
		m.Permissions = []manifest.Permission{perm(manifest.PermissionGroup, sampleKey, nil)}
	case "hash-methods":
		m.Permissions = []manifest.Permission{perm(manifest.PermissionHash, sampleHash, []string{"a", "b"})}
	case "wild-methods":
		m.Permissions = []manifest.Permission{perm(manifest.PermissionWildcard, nil, []string{})}
	case "dup-contract":
		m.Permissions = []manifest.Permission{perm(manifest.PermissionHash, sampleHash, nil), perm(manifest.PermissionHash, sampleHash, []string{"a"})}
	case "dup-method":
		m.Permissions = []manifest.Permission{perm(manifest.PermissionHash, sampleHash, []string{"a", "a"})}
	case "empty-method":
		m.Permissions = []manifest.Permission{perm(manifest.PermissionHash, sampleHash, []string{""})}
	case "two":
		m.Permissions = []manifest.Permission{perm(manifest.PermissionHash, sampleHash, nil), perm(manifest.PermissionGroup, sampleKey, []string{"x"})}
	case "hash-zero":
		m.Permissions = []manifest.Permission{perm(manifest.PermissionHash, util.Uint160{}, nil)}
	}
	mt := func(name string, off int, ret smartcontract.ParamType, ps ...manifest.Parameter) manifest.Method {
		if ps == nil {
			ps = []manifest.Parameter{}
		}
		return manifest.Method{Name: name, Offset: off, Parameters: ps, ReturnType: ret}
	}
	par := manifest.NewParameter
	switch s.Methods {
	case "none":
	case "one":
		m.ABI.Methods = []manifest.Method{mt("main", 0, smartcontract.VoidType)}
	case "two":
		m.ABI.Methods = []manifest.Method{mt("main", 0, smartcontract.VoidType), mt("get", 10, smartcontract.ByteArrayType)}
	case "dup":
		m.ABI.Methods = []manifest.Method{mt("main", 0, smartcontract.VoidType), mt("main", 5, smartcontract.VoidType)}
	case "overload":
		m.ABI.Methods = []manifest.Method{mt("main", 0, smartcontract.VoidType), mt("main", 5, smartcontract.VoidType, par("a", smartcontract.IntegerType))}
	case "noname":
		m.ABI.Methods = []manifest.Method{mt("", 0, smartcontract.VoidType)}
	case "negoffset":
		m.ABI.Methods = []manifest.Method{mt("main", -1, smartcontract.VoidType)}
	case "params":
		m.ABI.Methods = []manifest.Method{mt("main", 0, smartcontract.BoolType, par("a", smartcontract.IntegerType), par("b", smartcontract.Hash160Type))}
	case "dup-param":
		m.ABI.Methods = []manifest.Method{mt("main", 0, smartcontract.BoolType, par("a", smartcontract.IntegerType), par("a", smartcontract.Hash160Type))}
	case "void-param":
		m.ABI.Methods = []manifest.Method{mt("main", 0, smartcontract.BoolType, par("a", smartcontract.VoidType))}
	case "safe":
		x := mt("main", 0, smartcontract.IntegerType)
		x.Safe = true
		m.ABI.Methods = []manifest.Method{x}
	case "all-types":
		var ps []manifest.Parameter
		for i, t := range []smartcontract.ParamType{smartcontract.AnyType, smartcontract.BoolType, smartcontract.IntegerType, smartcontract.ByteArrayType,
			smartcontract.StringType, smartcontract.Hash160Type, smartcontract.Hash256Type, smartcontract.PublicKeyType, smartcontract.SignatureType,
			smartcontract.ArrayType, smartcontract.MapType, smartcontract.InteropInterfaceType} {
			ps = append(ps, par(fmt.Sprintf("p%d", i), t))
		}
		m.ABI.Methods = []manifest.Method{mt("main", 0, smartcontract.AnyType, ps...)}
	case "bad-rettype":
		m.ABI.Methods = []manifest.Method{mt("main", 0, smartcontract.ParamType(0x77))}
	}
	ev := func(name string, ps ...manifest.Parameter) manifest.Event {
		if ps == nil {
			ps = []manifest.Parameter{}
		}
		return manifest.Event{Name: name, Parameters: ps}
	}
	switch s.Events {
	case "one":
		m.ABI.Events = []manifest.Event{ev("E")}
	case "two":
		m.ABI.Events = []manifest.Event{ev("E"), ev("F", par("x", smartcontract.IntegerType))}
	case "dup":
		m.ABI.Events = []manifest.Event{ev("E"), ev("E")}
	case "noname":
		m.ABI.Events = []manifest.Event{ev("")}
	case "params":
		m.ABI.Events = []manifest.Event{ev("E", par("x", smartcontract.IntegerType), par("y", smartcontract.ArrayType))}
	case "dup-param":
		m.ABI.Events = []manifest.Event{ev("E", par("x", smartcontract.IntegerType), par("x", smartcontract.ArrayType))}
	}
	hd := manifest.PermissionDesc{Type: manifest.PermissionHash, Value: sampleHash}
	gd := manifest.PermissionDesc{Type: manifest.PermissionGroup, Value: sampleKey}
	switch s.Trusts {
	case "wild":
		m.Trusts = manifest.WildPermissionDescs{Wildcard: true}
	case "hash":
		m.Trusts = manifest.WildPermissionDescs{Value: []manifest.PermissionDesc{hd}}
	case "group":
		m.Trusts = manifest.WildPermissionDescs{Value: []manifest.PermissionDesc{gd}}
	case "two":
		m.Trusts = manifest.WildPermissionDescs{Value: []manifest.PermissionDesc{hd, gd}}
	case "dup":
		m.Trusts = manifest.WildPermissionDescs{Value: []manifest.PermissionDesc{hd, hd}}
	case "null":
		m.Trusts = manifest.WildPermissionDescs{}
	}
	switch s.Stds {
	case "one":
		m.SupportedStandards = []string{"NEP-17"}
	case "two":
		m.SupportedStandards = []string{"NEP-17", "NEP-11"}
	case "dup":
		m.SupportedStandards = []string{"NEP-17", "NEP-17"}
	case "empty-name":
		m.SupportedStandards = []string{""}
	}
	m.Features = json.RawMessage(map[string]string{"empty": `{}`, "spaced": "{ \n}", "nonempty": `{"storage":true}`, "null": `null`}[s.Features])
	m.Extra = json.RawMessage(map[string]string{"null": `null`, "object": `{"a":1,"b":"x"}`, "indented": "{\n  \"z\": 1,\n  \"a\": [1, 2]\n}",
		"nested": `{"a":{"b":{"c":[{"d":null}]}}}`, "number": `12.50`, "bignumber": `123456789012345678901234567890`, "string": `"str"`,
		"dupkeys": `{"a":1,"a":2}`, "array": `[1,"2",null]`}[s.Extra])
	return m
}

type nefShape struct {
	Compiler, Source, Tokens, Script, Checksum, Magic, Reserved string
}

func (n nefShape) class() string {
	var parts []string
	for _, kv := range [][2]string{{"compiler", n.Compiler}, {"source", n.Source}, {"tokens", n.Tokens}, {"script", n.Script}, {"checksum", n.Checksum},
		{"magic", n.Magic}, {"reserved", n.Reserved}} {
		def := map[string]string{"compiler": "short", "source": "empty", "tokens": "none", "script": "small", "checksum": "ok", "magic": "ok", "reserved": "zero"}[kv[0]]
		if kv[1] != def {
			parts = append(parts, kv[0]+"="+kv[1])
		}
	}
	if len(parts) == 0 {
		return "default"
	}
	return strings.Join(parts, " ")
}

// buildNEF returns the object and, for shapes the struct cannot express (reserved bytes, wrong magic kept with a right
// checksum), the encoding written by patching the real encoder's output.
func buildNEF(s nefShape) (*nef.File, []byte) {
	f := &nef.File{Header: nef.Header{Magic: nef.Magic}, Tokens: []nef.MethodToken{}}
	f.Compiler = map[string]string{"short": "neo-go-test", "empty": "", "len-64": strings.Repeat("c", 64), "len-65": strings.Repeat("c", 65),
		"inner-zero": "ab\x00cd"}[s.Compiler]
	f.Source = map[string]string{"empty": "", "url": "https://example.org/src", "len-256": strings.Repeat("s", 256), "len-257": strings.Repeat("s", 257)}[s.Source]
	tok := func(i int, name string, flags callflag.CallFlag) nef.MethodToken {
		h := sampleHash
		h[1] = byte(i)
		return nef.MethodToken{Hash: h, Method: name, ParamCount: uint16(i), HasReturn: i%2 == 0, CallFlag: flags}
	}
	switch s.Tokens {
	case "one":
		f.Tokens = []nef.MethodToken{tok(1, "transfer", callflag.All)}
	case "two":
		f.Tokens = []nef.MethodToken{tok(1, "transfer", callflag.All), tok(2, "balanceOf", callflag.ReadStates)}
	case "len-128", "len-129":
		n := 128
		if s.Tokens == "len-129" {
			n = 129
		}
		for i := 0; i < n; i++ {
			f.Tokens = append(f.Tokens, tok(i, fmt.Sprintf("m%d", i), callflag.ReadOnly))
		}
	case "underscore":
		f.Tokens = []nef.MethodToken{tok(1, "_deploy", callflag.All)}
	case "name-32":
		f.Tokens = []nef.MethodToken{tok(1, strings.Repeat("m", 32), callflag.All)}
	case "name-33":
		f.Tokens = []nef.MethodToken{tok(1, strings.Repeat("m", 33), callflag.All)}
	case "flags-all":
		f.Tokens = []nef.MethodToken{tok(1, "x", callflag.All), tok(2, "y", callflag.NoneFlag)}
	case "flags-bad":
		f.Tokens = []nef.MethodToken{tok(1, "x", callflag.CallFlag(0x80))}
	case "dup":
		f.Tokens = []nef.MethodToken{tok(1, "x", callflag.All), tok(1, "x", callflag.All)}
	case "params-max":
		t := tok(1, "x", callflag.All)
		t.ParamCount = 0xffff
		f.Tokens = []nef.MethodToken{t}
	}
	f.Script = map[string][]byte{"small": {byte(opcode.PUSH1), byte(opcode.RET)}, "empty": {}, "one": {byte(opcode.RET)},
		"len-65535": bytes.Repeat([]byte{byte(opcode.NOP)}, 65535), "len-max": bytes.Repeat([]byte{byte(opcode.NOP)}, stackitem.MaxSize-200),
		"len-over": bytes.Repeat([]byte{byte(opcode.NOP)}, stackitem.MaxSize+1)}[s.Script]
	if s.Magic == "wrong" {
		f.Magic = 0x12345678
	}
	func() {
		defer func() { _ = recover() }() // CalculateChecksum panics when the file cannot be encoded (compiler of 65 bytes)
		f.Checksum = f.CalculateChecksum()
	}()
	if s.Checksum == "wrong" {
		f.Checksum ^= 0x10
	}
	if s.Reserved == "zero" {
		return f, nil
	}
	raw, err := f.BytesLong()
	if err != nil {
		return f, nil
	}
	// reserved byte after the source string, reserved uint16 after the tokens: located through the recorded field map
	fs, _ := traceFields(raw, func(r *io.BinReader) { (&nef.File{}).DecodeBinary(r) })
	want := 3 // magic, compiler, source length (source is empty: no data read), then the reserved byte
	if s.Reserved == "second" {
		want = len(fs) - 4 // ... reserved uint16, script length, script, checksum
	}
	if want < 0 || want >= len(fs) {
		return f, nil
	}
	raw = bytes.Clone(raw)
	raw[fs[want].off] = 1
	sum := hash.Checksum(raw[:len(raw)-4])
	copy(raw[len(raw)-4:], sum[:4])
	if s.Checksum == "wrong" {
		raw[len(raw)-1] ^= 0x10
	}
	return nil, raw
}

var _ = keys.PublicKey{}
