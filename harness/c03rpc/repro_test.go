//go:build verif

package c03rpc

import (
	"testing"

	"verifharness/internal/chainkit"

	"github.com/nspcc-dev/neo-go/pkg/config"
	"github.com/nspcc-dev/neo-go/pkg/core/native/nativehashes"
)

// Minimal reproductions of what the extension found on the unchanged tree:
//   go test -tags verif -run 'TestRepro' -v ./c03rpc
// TestReproHistoricBoundaryPanics was repaired (/repo 4d35dd0) and passes; the other two document behaviour that is not
// repaired (a known finding of C03 and an observation outside the property): they SKIP with a message while it is there.

// findstates with a negative count: the handler asks the trie for count+1 = 0 items and then cuts the last of them
// (kvs[:len(kvs)-1] with len 0): index out of range, the HTTP connection dies without a JSON-RPC answer.
func TestReproFindStatesNegativeCount(t *testing.T) {
	net := chainkit.NewNet(1, 1)
	n, err := newNode("r", net, nil, "all")
	if err != nil {
		t.Fatal(err)
	}
	defer n.close()
	s, err := n.serve("a", 0, 0, true)
	if err != nil {
		t.Fatal(err)
	}
	sr, _ := n.bc.GetStateModule().GetStateRoot(0)
	r, e, err := s.raw("findstates", le256(sr.Root, false), le160(nativehashes.PolicyContract, false), b64([]byte{}), "", -1)
	t.Logf("result=%s error=%+v transport=%v", r, e, err)
	if err != nil {
		t.Skipf("observation (not judged: malformed parameters are not C03's subject): findstates(count=-1) gets no JSON-RPC response at all, the handler panicked: %v", err)
	}
}

func windowNode(t *testing.T, blocks int) *node {
	net := chainkit.NewNet(1, 1)
	n, err := newNode("w", net, func(c *config.Blockchain) {
		c.MaxTraceableBlocks = 10
		c.MaxValidUntilBlockIncrement = 5
		c.Ledger.RemoveUntraceableBlocks = true
		c.Ledger.GarbageCollectionPeriod = 2
	}, "window")
	if err != nil {
		t.Fatal(err)
	}
	for i := 0; i < blocks; i++ {
		b, err := net.NewBlock(n.bc, 1)
		if err != nil {
			t.Fatal(err)
		}
		if err := n.bc.AddBlock(b); err != nil {
			t.Fatal(err)
		}
		if err := n.bc.VerifPersist(); err != nil { // flush + the garbage collection attempt of the timer branch of Run
			t.Fatal(err)
		}
	}
	return n
}

// RemoveUntraceableBlocks: GetTestHistoricVM lets the invocation "as of block N" through when N >= height - MaxTraceableBlocks,
// but that invocation reads the state of N-1, which the MPT collector (target height - MaxTraceableBlocks) has already
// taken apart: the native cache initialisation panics ("item with id = -7 and key = .. is not initialized").
func TestReproHistoricBoundaryPanics(t *testing.T) {
	n := windowNode(t, 24)
	defer n.close()
	s, err := n.serve("a", 0, 0, true)
	if err != nil {
		t.Fatal(err)
	}
	at := n.bc.BlockHeight()
	for _, h := range []uint32{at - 10, at - 11, at - 12} {
		r, e, err := s.raw("invokefunctionhistoric", h, le160(nativehashes.PolicyContract, false), "getFeePerByte", []any{})
		t.Logf("height %d (tip %d, window 10): result=%.80s error=%+v transport=%v", h, at, r, e, err)
		if err != nil {
			t.Errorf("invokefunctionhistoric(%d) at tip %d: no JSON-RPC response at all (handler panicked): %v", h, at, err)
		}
	}
}

// RemoveUntraceableBlocks: findstoragehistoric for a root whose trie has been collected answers an EMPTY list (the range
// search over the trie swallows the missing-node error) instead of an error; getstoragehistoric of the same root fails.
func TestReproFindStorageHistoricCollected(t *testing.T) {
	n := windowNode(t, 24)
	defer n.close()
	s, err := n.serve("a", 0, 0, true)
	if err != nil {
		t.Fatal(err)
	}
	sr, err := n.bc.GetStateModule().GetStateRoot(3)
	if err != nil {
		t.Fatal(err)
	}
	// the Policy contract has had its settings in storage since genesis
	r, e, err := s.raw("findstoragehistoric", le256(sr.Root, false), -7, b64([]byte{}), 0)
	t.Logf("findstoragehistoric(root of 3, Policy): result=%s error=%+v transport=%v", r, e, err)
	r2, e2, _ := s.raw("findstorage", -7, b64([]byte{}), 0)
	t.Logf("findstorage(Policy) live: result=%.120s error=%+v", r2, e2)
	r3, e3, _ := s.raw("getstoragehistoric", le256(sr.Root, false), -7, b64([]byte{10}))
	t.Logf("getstoragehistoric(root of 3, Policy, feePerByte key): result=%s error=%+v", r3, e3)
	if err == nil && e == nil && string(r) == `{"results":[],"next":0,"truncated":false}` {
		t.Skip("KNOWN FINDING of C03 (known_findings.json): findstoragehistoric of a collected root answered an empty list instead of failing")
	}
}
