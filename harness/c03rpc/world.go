// Package c03rpc binds spec/rpcstate to the real RPC server: real core.Blockchains (a reference node that keeps every
// state plus nodes with KeepOnlyLatestState / RemoveUntraceableBlocks fed the same serialized blocks), each with real
// rpcsrv.Servers (several per chain: different MaxFindResultItems / MaxFindStoragePageSize) listening on loopback
// ports, a real (never started) network.Server behind them for sendrawtransaction.  Every request is made twice over:
// through pkg/rpcclient (the real client, its encoding / decoding included) and as a raw JSON-RPC document over HTTP
// decoded here with encoding/json only.  What is recorded is what came back; TLC (RPCStateTrace) recomputes every
// answer from the reference node's flat storage dump of the height the request names.
package c03rpc

import (
	"bytes"
	"context"
	"encoding/base64"
	"encoding/binary"
	"encoding/hex"
	"encoding/json"
	"fmt"
	"io"
	"net/http"
	"time"

	"verifharness/internal/chainkit"

	"github.com/nspcc-dev/neo-go/pkg/config"
	"github.com/nspcc-dev/neo-go/pkg/core"
	"github.com/nspcc-dev/neo-go/pkg/network"
	"github.com/nspcc-dev/neo-go/pkg/rpcclient"
	"github.com/nspcc-dev/neo-go/pkg/services/rpcsrv"
	"github.com/nspcc-dev/neo-go/pkg/util"
	"go.uber.org/zap"
)

// item is one contract storage item; keys travel as byte arrays (TLC compares them lexicographically), values as hex.
type item struct {
	ID int32  `json:"id"`
	K  []int  `json:"k"`
	V  string `json:"v"`
}

func ints(b []byte) []int {
	r := make([]int, len(b))
	for i, x := range b {
		r[i] = int(x)
	}
	return r
}

func bytesOf(k []int) []byte {
	b := make([]byte, len(k))
	for i, x := range k {
		b[i] = byte(x)
	}
	return b
}

func b64(b []byte) string { return base64.StdEncoding.EncodeToString(b) }

// maxID is the highest deployed-contract id the storage dump looks at (a world that deploys more fails loudly).
const maxID = 96

var ids = func() []int32 {
	var r []int32
	for id := int32(-15); id <= maxID; id++ {
		if id != 0 {
			r = append(r, id)
		}
	}
	return r
}()

// flat returns the live contract storage in (id, key) order, straight from the ledger's DAO (no RPC, no trie).
func flat(bc *core.Blockchain) []item {
	out := []item{}
	for _, id := range ids {
		bc.SeekStorage(id, nil, func(k, v []byte) bool {
			out = append(out, item{ID: id, K: ints(k), V: hex.EncodeToString(v)})
			return true
		})
	}
	return out
}

func idKey(id int32, k []byte) []byte {
	b := make([]byte, 4, 4+len(k))
	binary.LittleEndian.PutUint32(b, uint32(id))
	return append(b, k...)
}

// srv is one RPC server of a node.
type srv struct {
	name    string
	s       *rpcsrv.Server
	url     string
	cl      *rpcclient.Client
	capFind int // MaxFindResultItems
	capPage int // MaxFindStoragePageSize
	hc      *http.Client
	nreq    int
}

// node is one ledger with its network server and RPC servers.
type node struct {
	name   string
	bc     *core.Blockchain
	net    *network.Server
	srvs   []*srv
	keep   string // "all" | "latest" | "window"
	window uint32
	h      uint32
}

func (n *node) close() {
	for _, s := range n.srvs {
		s.cl.Close()
		s.s.Shutdown()
	}
	n.bc.Close()
}

// retained tells whether the node must still be able to answer for the state of height hh.
func (n *node) retained(hh uint32) bool {
	switch n.keep {
	case "all":
		return true
	case "window":
		return hh+n.window >= n.bc.BlockHeight()
	}
	return hh == n.bc.BlockHeight()
}

func newNode(name string, net *chainkit.Net, hook func(*config.Blockchain), keep string) (*node, error) {
	bc, err := net.NewChain(nil, hook)
	if err != nil {
		return nil, err
	}
	chainkit.Start(bc)
	ns, err := network.NewServer(network.ServerConfig{Addresses: []config.AnnounceableAddress{{Address: "127.0.0.1:0"}}, MinPeers: 0},
		bc, bc.GetStateSyncModule(), zap.NewNop())
	if err != nil {
		bc.Close()
		return nil, err
	}
	n := &node{name: name, bc: bc, net: ns, keep: keep, window: bc.GetConfig().MaxTraceableBlocks}
	return n, nil
}

// serve starts one more RPC server on the node.
func (n *node) serve(name string, capFind, capPage int, direct bool) (*srv, error) {
	errCh := make(chan error, 4)
	conf := config.RPC{
		BasicService:              config.BasicService{Enabled: true, Addresses: []string{"127.0.0.1:0"}},
		MaxGasInvoke:              50_0000_0000,
		MaxFindResultItems:        capFind,
		MaxFindStorageResultItems: capPage,
		DirectRelay:               direct,
		SessionEnabled:            false,
		MaxIteratorResultItems:    1000,
	}
	s := rpcsrv.New(n.bc, conf, n.net, nil, zap.NewNop(), errCh)
	s.Start()
	select {
	case err := <-errCh:
		return nil, fmt.Errorf("rpc server: %w", err)
	default:
	}
	addrs := s.Addresses()
	if len(addrs) == 0 {
		return nil, fmt.Errorf("rpc server has no address")
	}
	r := &srv{name: n.name + "/" + name, s: s, url: "http://" + addrs[0], capFind: capFind, capPage: capPage,
		hc: &http.Client{Timeout: 60 * time.Second, Transport: &http.Transport{MaxIdleConnsPerHost: 4}}}
	if r.capFind <= 0 {
		r.capFind = config.DefaultMaxFindResultItems
	}
	if r.capPage <= 0 {
		r.capPage = config.DefaultMaxFindStorageResultItems
	}
	cl, err := rpcclient.New(context.Background(), r.url, rpcclient.Options{RequestTimeout: 60 * time.Second})
	if err != nil {
		return nil, err
	}
	if err := cl.Init(); err != nil {
		return nil, fmt.Errorf("client init: %w", err)
	}
	r.cl = cl
	n.srvs = append(n.srvs, r)
	return r, nil
}

// rpcErr is the error member of a JSON-RPC response.
type rpcErr struct {
	Code    int    `json:"code"`
	Message string `json:"message"`
	Data    string `json:"data"`
}

// raw posts one JSON-RPC request document and returns the raw result or the error member.
func (s *srv) raw(method string, params ...any) (json.RawMessage, *rpcErr, error) {
	s.nreq++
	if params == nil {
		params = []any{}
	}
	body, err := json.Marshal(map[string]any{"jsonrpc": "2.0", "id": s.nreq, "method": method, "params": params})
	if err != nil {
		return nil, nil, err
	}
	resp, err := s.hc.Post(s.url, "application/json", bytes.NewReader(body))
	if err != nil {
		return nil, nil, err
	}
	defer resp.Body.Close()
	data, err := io.ReadAll(resp.Body)
	if err != nil {
		return nil, nil, err
	}
	var out struct {
		ID     json.RawMessage `json:"id"`
		Result json.RawMessage `json:"result"`
		Error  *rpcErr         `json:"error"`
	}
	if err := json.Unmarshal(data, &out); err != nil {
		return nil, nil, fmt.Errorf("undecodable response to %s: %v: %.200s", method, err, data)
	}
	if out.Error != nil {
		return nil, out.Error, nil
	}
	return out.Result, nil, nil
}

func le256(u util.Uint256, pfx bool) string {
	if pfx {
		return "0x" + u.StringLE()
	}
	return u.StringLE()
}

func le160(u util.Uint160, pfx bool) string {
	if pfx {
		return "0x" + u.StringLE()
	}
	return u.StringLE()
}

// unb64 decodes a JSON string holding base64.
func unb64(r json.RawMessage) ([]byte, error) {
	var s string
	if err := json.Unmarshal(r, &s); err != nil {
		return nil, err
	}
	return base64.StdEncoding.DecodeString(s)
}
