//go:build verif

package c03rpc

import (
	"fmt"
	"testing"
	"time"

	"verifharness/internal/chainkit"
	"verifharness/internal/histgen"

	"github.com/nspcc-dev/neo-go/pkg/neotest"
)

func TestProbe(t *testing.T) {
	t0 := time.Now()
	net := chainkit.NewNet(5, 3)
	n, err := newNode("ref", net, nil, "all")
	if err != nil {
		t.Fatal(err)
	}
	defer n.close()
	g := histgen.New(t, net, n.bc, 7, 8)
	for i := 0; i < 12; i++ {
		if _, err := g.NextBlock(5); err != nil {
			t.Fatal(err)
		}
	}
	a := g.Accts[0]
	c := histgen.KV(t, a.ScriptHash(), 99, 99)
	tx := g.SafeDeploy(a, c)
	b, _ := net.NewBlock(n.bc, 1, tx)
	if err := n.bc.AddBlock(b); err != nil {
		t.Fatal(err)
	}
	var txs = []any{}
	_ = txs
	put := func(k, v []byte) {
		tx := g.Tx([]neotest.Signer{a}, c.Hash, "put", k, v)
		b, _ := net.NewBlock(n.bc, 1, tx)
		if err := n.bc.AddBlock(b); err != nil {
			t.Fatal(err)
		}
	}
	put([]byte{}, []byte{7})
	put([]byte{1}, []byte{})
	put([]byte{1, 2}, []byte{9})
	put([]byte{0xff}, []byte{9, 9})
	fmt.Println("chain built", time.Since(t0), n.bc.BlockHeight())
	s, err := n.serve("a", 2, 2, true)
	if err != nil {
		t.Fatal(err)
	}
	fmt.Println("server up", time.Since(t0), s.url)
	h := n.bc.BlockHeight()
	sr, err := s.cl.GetStateRootByHeight(h)
	fmt.Println("root", sr.Root.StringLE(), err)
	cs := n.bc.GetContractState(c.Hash)
	fmt.Println("contract id", cs.ID)
	for _, it := range flat(n.bc) {
		if it.ID == cs.ID {
			fmt.Println("  flat", it)
		}
	}
	for _, k := range [][]byte{{}, {1}, {1, 2}, {0xff}, {3}} {
		v, err := s.cl.GetState(sr.Root, c.Hash, k)
		fmt.Printf("getstate %x -> %x (nil=%v) err=%v\n", k, v, v == nil, err)
		r, e, err := s.raw("getstate", le256(sr.Root, true), le160(c.Hash, true), b64(k))
		fmt.Printf("   raw %s %+v %v\n", r, e, err)
		v, err = s.cl.GetStorageByHash(c.Hash, k)
		fmt.Printf("getstorage %x -> %x (nil=%v) err=%v\n", k, v, v == nil, err)
		r, e, err = s.raw("getstorage", cs.ID, b64(k))
		fmt.Printf("   raw %s %+v %v\n", r, e, err)
		v, err = s.cl.GetStorageByHashHistoric(sr.Root, c.Hash, k)
		fmt.Printf("getstoragehistoric %x -> %x (nil=%v) err=%v\n", k, v, v == nil, err)
		p, err := s.cl.GetProof(sr.Root, c.Hash, k)
		fmt.Printf("getproof %x -> %v err=%v\n", k, p != nil, err)
		if p != nil {
			v, err := s.cl.VerifyProof(sr.Root, p)
			fmt.Printf("   verifyproof -> %x (nil=%v) err=%v\n", v, v == nil, err)
			r, e, err = s.raw("verifyproof", le256(sr.Root, false), p.String())
			fmt.Printf("   raw %s %+v %v\n", r, e, err)
		}
	}
	// paging
	one := 1
	fs, err := s.cl.FindStates(sr.Root, c.Hash, []byte{}, nil, &one)
	fmt.Printf("findstates page1 %+v err=%v\n", fs, err)
	if len(fs.Results) > 0 {
		fs2, err := s.cl.FindStates(sr.Root, c.Hash, []byte{}, fs.Results[len(fs.Results)-1].Key, &one)
		fmt.Printf("findstates page2 %+v err=%v\n", fs2.Results, err)
	}
	r, e, err := s.raw("findstates", le256(sr.Root, false), le160(c.Hash, false), b64([]byte{1}))
	fmt.Printf("raw findstates %s %+v %v\n", r, e, err)
	r, e, err = s.raw("findstates", le256(sr.Root, false), le160(c.Hash, false), b64([]byte{1}), b64([]byte{1}), 5)
	fmt.Printf("raw findstates from=prefix %s %+v %v\n", r, e, err)
	r, e, err = s.raw("findstates", le256(sr.Root, false), le160(c.Hash, false), b64([]byte{1}), b64([]byte{2}), 5)
	fmt.Printf("raw findstates from!=prefix %s %+v %v\n", r, e, err)
	r, e, err = s.raw("findstates", le256(sr.Root, false), le160(c.Hash, false), b64([]byte{9}))
	fmt.Printf("raw findstates noitems %s %+v %v\n", r, e, err)
	r, e, err = s.raw("findstates", le256(sr.Root, false), le160(c.Hash, false), b64([]byte{}), "", 0)
	fmt.Printf("raw findstates count0 %s %+v %v\n", r, e, err)
	r, e, err = s.raw("findstates", le256(sr.Root, false), le160(c.Hash, false), b64([]byte{}), "", -1)
	fmt.Printf("raw findstates count-1 %s %+v %v\n", r, e, err)
	r, e, err = s.raw("findstorage", cs.ID, b64([]byte{}), 0)
	fmt.Printf("raw findstorage %s %+v %v\n", r, e, err)
	r, e, err = s.raw("findstorage", cs.ID, b64([]byte{}), 2)
	fmt.Printf("raw findstorage %s %+v %v\n", r, e, err)
	r, e, err = s.raw("findstorage", cs.ID, b64([]byte{}), 4)
	fmt.Printf("raw findstorage %s %+v %v\n", r, e, err)
	r, e, err = s.raw("findstoragehistoric", le256(sr.Root, false), cs.ID, b64([]byte{1}), 0)
	fmt.Printf("raw findstoragehistoric %s %+v %v\n", r, e, err)
	r, e, err = s.raw("getstateheight")
	fmt.Printf("raw getstateheight %s %+v %v\n", r, e, err)
	r, e, err = s.raw("getstateroot", h)
	fmt.Printf("raw getstateroot %s %+v %v\n", r, e, err)
	r, e, err = s.raw("invokefunctionhistoric", h-1, le160(c.Hash, false), "get", []any{map[string]any{"type": "ByteArray", "value": b64([]byte{0xff})}})
	fmt.Printf("raw invokefunctionhistoric h-1 %s %+v %v\n", r, e, err)
	r, e, err = s.raw("invokefunctionhistoric", le256(sr.Root, false), le160(c.Hash, false), "get", []any{map[string]any{"type": "ByteArray", "value": b64([]byte{0xff})}})
	fmt.Printf("raw invokefunctionhistoric root %s %+v %v\n", r, e, err)
	r, e, err = s.raw("getstate", le256(sr.Root, true), le160(a.ScriptHash(), true), b64([]byte{1}))
	fmt.Printf("unknown contract raw %s %+v %v\n", r, e, err)
	bad := sr.Root
	bad[0] ^= 1
	r, e, err = s.raw("getstate", le256(bad, true), le160(c.Hash, true), b64([]byte{1}))
	fmt.Printf("unknown root raw %s %+v %v\n", r, e, err)
	fmt.Println("done", time.Since(t0))
}
