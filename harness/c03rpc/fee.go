package c03rpc

import (
	"encoding/json"
	"fmt"
	"slices"
	"testing"

	"verifharness/internal/chainkit"
	"verifharness/internal/vh"

	"github.com/nspcc-dev/neo-go/pkg/core/fee"
	"github.com/nspcc-dev/neo-go/pkg/core/native/nativenames"
	"github.com/nspcc-dev/neo-go/pkg/core/transaction"
	"github.com/nspcc-dev/neo-go/pkg/crypto/hash"
	"github.com/nspcc-dev/neo-go/pkg/crypto/keys"
	"github.com/nspcc-dev/neo-go/pkg/io"
	"github.com/nspcc-dev/neo-go/pkg/neotest"
	"github.com/nspcc-dev/neo-go/pkg/smartcontract"
	"github.com/nspcc-dev/neo-go/pkg/util"
	"github.com/nspcc-dev/neo-go/pkg/vm/emit"
	"github.com/nspcc-dev/neo-go/pkg/vm/opcode"
)

// facct is a standard signature (m = n = 1, single key) or m-of-n multisignature account.
type facct struct {
	name  string
	multi bool
	m     int
	keys  []*keys.PrivateKey // sorted by public key
	ver   []byte
	h     util.Uint160
}

func newFacct(name string, multi bool, m, n int) *facct {
	a := &facct{name: name, multi: multi, m: m}
	for i := 0; i < n; i++ {
		a.keys = append(a.keys, chainkit.Key(fmt.Sprintf("c03rpc-%s-%d", name, i)))
	}
	slices.SortFunc(a.keys, func(x, y *keys.PrivateKey) int { return x.PublicKey().Cmp(y.PublicKey()) })
	if multi {
		pubs := keys.PublicKeys{}
		for _, k := range a.keys {
			pubs = append(pubs, k.PublicKey())
		}
		ver, err := smartcontract.CreateMultiSigRedeemScript(m, pubs)
		if err != nil {
			panic(err)
		}
		a.ver = ver
	} else {
		a.ver = a.keys[0].PublicKey().GetVerificationScript()
	}
	a.h = hash.Hash160(a.ver)
	return a
}

func (a *facct) sign(magic uint32, tx *transaction.Transaction) []byte {
	var inv []byte
	for _, k := range a.keys[:a.m] {
		inv = append(inv, byte(opcode.PUSHDATA1), keys.SignatureLen)
		inv = append(inv, k.SignHashable(magic, tx)...)
	}
	return inv
}

// fcase is one transaction shape.
type fcase struct {
	signers []*facct // the first one pays
	attrs   string   // "" | "conflicts1" | "conflicts2" | "nvb"
	unsig   bool     // ask calculatenetworkfee with empty invocation scripts (the server infers them)
}

func (c fcase) label() string {
	s := ""
	for i, a := range c.signers {
		if i > 0 {
			s += "+"
		}
		s += a.name
	}
	if c.attrs != "" {
		s += "/" + c.attrs
	}
	if c.unsig {
		s += "/unsigned"
	}
	return s
}

// feeWorld: calculatenetworkfee = F such that sendrawtransaction accepts the transaction with NetworkFee = F and refuses
// it with F-1, for signature and m-of-n multisignature witnesses with co-signers and fee-bearing attributes, under policy
// values changed by committee transactions between the phases.
func feeWorld(t *testing.T, res *vh.Result, tr *vh.Trace, wi int, phases, perPhase int) {
	net := chainkit.NewNet(1, 1)
	n, err := newNode(fmt.Sprintf("fee%d", wi), net, nil, "all")
	if err != nil {
		t.Fatal(err)
	}
	defer n.close()
	o := &obs{tr: tr, res: res, r: vh.Rand(int64(4300 + wi)), w: fmt.Sprintf("fee%d", wi)}
	// with the hash-advertising relay a never-started network server buffers 64 accepted transactions: stay below
	direct := wi%2 == 0 || phases*perPhase > 55
	s, err := n.serve("f", 0, 0, direct)
	if err != nil {
		t.Fatal(err)
	}
	e := net.Executor(t, n.bc)
	magic := uint32(n.bc.GetConfig().Magic)
	gasH, polH := e.NativeHash(t, nativenames.Gas), e.NativeHash(t, nativenames.Policy)
	o.wi = openWorld(tr, o.w, nil)
	accts := []*facct{newFacct("s1", false, 1, 1), newFacct("s2", false, 1, 1), newFacct("m11", true, 1, 1), newFacct("m23", true, 2, 3), newFacct("m34", true, 3, 4)}
	byName := map[string]*facct{}
	for _, a := range accts {
		byName[a.name] = a
	}
	addBlock := func(txs ...*transaction.Transaction) {
		b, err := net.NewBlock(n.bc, 1, txs...)
		if err != nil {
			t.Fatal(err)
		}
		if err := n.bc.AddBlock(b); err != nil {
			t.Fatalf("fee world: block refused: %v", err)
		}
		for _, tx := range txs {
			if aer, err := n.bc.GetAppExecResults(tx.Hash(), 0x40); err != nil || len(aer) != 1 || aer[0].VMState.String() != "HALT" {
				t.Fatalf("fee world: preparation transaction did not HALT: %v %+v", err, aer)
			}
		}
	}
	prep := func(signer neotest.Signer, h util.Uint160, method string, args ...any) *transaction.Transaction {
		tx := e.NewUnsignedTx(t, h, method, args...)
		tx.ValidUntilBlock = n.bc.BlockHeight() + 5
		return e.SignTx(t, tx, 5_0000_0000, signer)
	}
	var fund []*transaction.Transaction
	for _, a := range accts {
		fund = append(fund, prep(e.Validator, gasH, "transfer", e.Validator.ScriptHash(), a.h, int64(2000_0000_0000), nil))
	}
	fund = append(fund, prep(e.Validator, gasH, "transfer", e.Validator.ScriptHash(), e.Committee.ScriptHash(), int64(2000_0000_0000), nil))
	addBlock(fund...)
	shapes := [][]string{{"s1"}, {"m11"}, {"m23"}, {"m34"}, {"s1", "s2"}, {"s1", "m23"}, {"m23", "s2"}, {"m34", "m23", "s1"}, {"m11", "m34"}, {"s2", "m34", "m11"}}
	nonce := uint32(1000 * (wi + 1))
	ncase := 0
	for ph := 0; ph < phases; ph++ {
		if ph > 0 {
			// the committee changes what the fee is made of
			var txs []*transaction.Transaction
			txs = append(txs, prep(e.Committee, polH, "setFeePerByte", int64(1+o.r.Intn(4000))))
			txs = append(txs, prep(e.Committee, polH, "setExecFeeFactor", int64(1+o.r.Intn(90))))
			txs = append(txs, prep(e.Committee, polH, "setAttributeFee", int64(transaction.ConflictsT), int64(o.r.Intn(4))*int64(1+o.r.Intn(50_0000))))
			txs = append(txs, prep(e.Committee, polH, "setAttributeFee", int64(transaction.NotValidBeforeT), int64(o.r.Intn(3))*int64(1+o.r.Intn(90_0000))))
			addBlock(txs...)
		}
		fpb := n.bc.FeePerByte()
		for ci := 0; ci < perPhase; ci++ {
			var fc fcase
			if ci < len(shapes) && (ph+ci)%2 == 0 {
				for _, nm := range shapes[(ci+ph)%len(shapes)] {
					fc.signers = append(fc.signers, byName[nm])
				}
			} else {
				for _, nm := range shapes[o.r.Intn(len(shapes))] {
					fc.signers = append(fc.signers, byName[nm])
				}
			}
			fc.attrs = []string{"", "", "conflicts1", "conflicts2", "nvb"}[o.r.Intn(5)]
			fc.unsig = o.r.Intn(2) == 0
			nonce++
			ncase++
			build := func(netfee int64, signed bool) *transaction.Transaction {
				w := io.NewBufBinWriter()
				emit.Opcodes(w.BinWriter, opcode.PUSH1, opcode.DROP, opcode.RET)
				tx := transaction.New(w.Bytes(), 100_0000)
				tx.Nonce = nonce
				tx.ValidUntilBlock = n.bc.BlockHeight() + 4
				tx.NetworkFee = netfee
				for _, a := range fc.signers {
					tx.Signers = append(tx.Signers, transaction.Signer{Account: a.h, Scopes: transaction.CalledByEntry})
				}
				switch fc.attrs {
				case "conflicts1", "conflicts2":
					tx.Attributes = append(tx.Attributes, transaction.Attribute{Type: transaction.ConflictsT, Value: &transaction.Conflicts{Hash: util.Uint256{1, byte(nonce), byte(nonce >> 8)}}})
					if fc.attrs == "conflicts2" {
						tx.Attributes = append(tx.Attributes, transaction.Attribute{Type: transaction.ConflictsT, Value: &transaction.Conflicts{Hash: util.Uint256{2, byte(nonce), byte(nonce >> 8)}}})
					}
				case "nvb":
					tx.Attributes = append(tx.Attributes, transaction.Attribute{Type: transaction.NotValidBeforeT, Value: &transaction.NotValidBefore{Height: n.bc.BlockHeight()}})
				}
				for _, a := range fc.signers {
					tx.Scripts = append(tx.Scripts, transaction.Witness{InvocationScript: []byte{}, VerificationScript: a.ver})
				}
				if signed {
					for i, a := range fc.signers {
						tx.Scripts[i].InvocationScript = a.sign(magic, tx)
					}
				}
				return tx
			}
			ev := map[string]any{"event": "fee", "w": o.wi, "node": n.name, "cfg": n.keep, "srv": s.name, "world": o.w, "phase": ph, "case": fc.label(), "fpb": fpb,
				"exec": n.bc.GetBaseExecFee(), "direct": direct}
			// 1. the fee calculator, through the client and as a raw request (the transaction signed or with empty invocations)
			probe := build(0, !fc.unsig)
			fClient, errC := s.cl.CalculateNetworkFee(probe)
			ev["ok_client"], ev["f_client"] = errC == nil, fClient
			res.Inc("req_calculatenetworkfee", 2)
			var fRaw int64
			okRaw := false
			if r, e2, err := s.raw("calculatenetworkfee", b64(build(0, fc.unsig).Bytes())); err != nil {
				o.dropped(n, s, "calculatenetworkfee", "wellformed", err)
			} else if e2 == nil {
				var out struct {
					Fee json.Number `json:"networkfee"`
				}
				if json.Unmarshal(r, &out) == nil {
					if v, perr := out.Fee.Int64(); perr == nil {
						fRaw, okRaw = v, true
					}
				}
			} else {
				ev["err_raw"] = e2.Code
			}
			ev["ok_raw"], ev["f_raw"] = okRaw, fRaw
			via := "client"
			if o.r.Intn(2) == 0 {
				via = "raw"
			}
			ev["via"] = via
			F := fClient
			send := func(tx *transaction.Transaction) (bool, any) {
				res.Inc("req_sendrawtransaction", 1)
				if via == "client" {
					_, err := s.cl.SendRawTransaction(tx)
					if err != nil {
						return false, err.Error()
					}
					return true, nil
				}
				_, e2, err := s.raw("sendrawtransaction", b64(tx.Bytes()))
				if err != nil {
					o.dropped(n, s, "sendrawtransaction", "wellformed", err)
					return false, "dropped"
				}
				if e2 != nil {
					return false, e2.Code
				}
				return true, nil
			}
			// 2. one unit less is refused, the fee itself is accepted
			low, exact := build(F-1, true), build(F, true)
			var lowErr, exErr any
			ev["acc_fm1"], lowErr = send(low)
			ev["acc_f"], exErr = send(exact)
			ev["err_fm1"], ev["err_f"] = lowErr, exErr
			// 3. the pool as getrawmempool shows it
			pool := map[string]bool{}
			res.Inc("req_getrawmempool", 1)
			if via == "client" {
				hs, err := s.cl.GetRawMemPool()
				if err == nil {
					for _, h := range hs {
						pool[h.StringLE()] = true
					}
				}
			} else if r, e2, err := s.raw("getrawmempool"); err == nil && e2 == nil {
				var hs []string
				if json.Unmarshal(r, &hs) == nil {
					for _, h := range hs {
						if len(h) > 2 && h[:2] == "0x" {
							h = h[2:]
						}
						pool[h] = true
					}
				}
			}
			ev["pool_f"], ev["pool_fm1"] = pool[exact.Hash().StringLE()], pool[low.Hash().StringLE()]
			// informational: the fee as the public fee calculator composes it
			var wit int64
			for _, a := range fc.signers {
				f, _ := fee.Calculate(n.bc.GetBaseExecFee(), a.ver)
				wit += f
			}
			ev["size"], ev["attr"], ev["wit"] = exact.Size(), n.bc.CalculateAttributesFee(exact), wit
			tr.Emit(ev)
			res.Count([]any{o.w, ph, fc.label(), fpb, n.bc.GetBaseExecFee()})
			if ncase <= 2 && wi == 0 {
				res.Sample(map[string]any{"world": o.w, "case": fc.label(), "fee": F, "fee_per_byte": fpb, "exec_fee": n.bc.GetBaseExecFee(), "size": exact.Size(),
					"accepted_with_fee": ev["acc_f"], "accepted_with_one_less": ev["acc_fm1"], "refusal": lowErr})
			}
		}
	}
	res.Inc("fee_cases", ncase)
	res.Traces++
}
