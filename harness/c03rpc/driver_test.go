//go:build verif

// Driver of the extension c03_rpc: the properties of C03 (and the fee clause of C07) observed through the RPC server.
package c03rpc

import (
	"encoding/json"
	"testing"

	"verifharness/internal/vh"
)

func TestDriver(t *testing.T) {
	res := vh.NewResult()
	tr := vh.NewTrace("trace.ndjson")
	var cases []pcase
	if err := vh.ReadJSON("cases.json", &cases); err != nil {
		t.Fatalf("no paging cases: %v", err)
	}
	if vh.EnvInt("VERIF_PAGING", 1) > 0 {
		pagingWorld(t, res, tr, cases)
	}
	nb := vh.EnvInt("VERIF_HIST_BLOCKS", 28)
	for i := 0; i < vh.EnvInt("VERIF_HIST_WORLDS", 2); i++ {
		histWorld(t, res, tr, i, nb)
	}
	for i := 0; i < vh.EnvInt("VERIF_FEE_WORLDS", 2); i++ {
		feeWorld(t, res, tr, i, vh.EnvInt("VERIF_FEE_PHASES", 3), vh.EnvInt("VERIF_FEE_CASES", 8))
	}
	tr.Close()
	b, _ := json.Marshal(res.Stats)
	t.Log(string(b))
	if err := res.Write(); err != nil {
		t.Fatal(err)
	}
}
