//go:build verif

// Driver of the extension c03_rpc: the properties of C03 (and the fee clause of C07) observed through the RPC server.
package c03rpc

import (
	"encoding/json"
	"sync"
	"testing"

	"verifharness/internal/vh"
)

func TestDriver(t *testing.T) {
	res := vh.NewResult()
	tr := vh.NewTrace("trace.ndjson")
	var cases []pcase
	if err := vh.ReadJSON("cases.json", &cases); err != nil {
		t.Fatalf("no paging cases: %v", err)
	}
	// worlds are independent (own chains, servers, random streams; events name their world): they run side by side
	var wg sync.WaitGroup
	sem := make(chan struct{}, vh.EnvInt("VERIF_PAR", 4))
	world := func(f func()) {
		wg.Add(1)
		go func() {
			defer wg.Done()
			sem <- struct{}{}
			defer func() { <-sem }()
			f()
		}()
	}
	if vh.EnvInt("VERIF_PAGING", 1) > 0 {
		world(func() { pagingWorld(t, res, tr, cases) })
	}
	nb := vh.EnvInt("VERIF_HIST_BLOCKS", 28)
	for i := 0; i < vh.EnvInt("VERIF_HIST_WORLDS", 2); i++ {
		world(func() { histWorld(t, res, tr, i, nb) })
	}
	for i := 0; i < vh.EnvInt("VERIF_FEE_WORLDS", 2); i++ {
		world(func() { feeWorld(t, res, tr, i, vh.EnvInt("VERIF_FEE_PHASES", 3), vh.EnvInt("VERIF_FEE_CASES", 8)) })
	}
	wg.Wait()
	tr.Close()
	b, _ := json.Marshal(res.Stats)
	t.Log(string(b))
	if err := res.Write(); err != nil {
		t.Fatal(err)
	}
}
