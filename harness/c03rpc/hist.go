package c03rpc

import (
	"fmt"
	"testing"

	"verifharness/internal/chainkit"
	"verifharness/internal/histgen"
	"verifharness/internal/vh"

	"github.com/nspcc-dev/neo-go/pkg/config"
	"github.com/nspcc-dev/neo-go/pkg/core/native/nativenames"
	"github.com/nspcc-dev/neo-go/pkg/util"
)

type refHeight struct {
	flat  []item
	root  util.Uint256
	bhash util.Uint256
	calls []call
}

type histWorldT struct {
	t      *testing.T
	o      *obs
	net    *chainkit.Net
	ref    *node
	nodes  []*node
	gen    *histgen.Gen
	hs     []refHeight // hs[h-1]
	blocks [][]byte
	srih   bool
	hashOf map[int32]util.Uint160
	nameOf map[int32]string
}

// calls builds the read-only calls whose answers must be the same live at height h and historic against h.
func (w *histWorldT) calls() []call {
	var out []call
	e := w.gen.E
	neo, gas, pol := e.NativeHash(w.t, nativenames.Neo), e.NativeHash(w.t, nativenames.Gas), e.NativeHash(w.t, nativenames.Policy)
	for i, a := range w.gen.Accts {
		if i < 3 {
			out = append(out, call{neo, "balanceOf", []any{a.ScriptHash()}}, call{gas, "balanceOf", []any{a.ScriptHash()}},
				call{neo, "unclaimedGas", []any{a.ScriptHash(), int64(w.ref.bc.BlockHeight() + 1)}},
				call{neo, "getAccountState", []any{a.ScriptHash()}})
		}
	}
	out = append(out, call{neo, "getCandidates", nil}, call{neo, "getCommittee", nil}, call{neo, "getNextBlockValidators", nil},
		call{neo, "totalSupply", nil}, call{gas, "totalSupply", nil}, call{pol, "getFeePerByte", nil}, call{pol, "getStoragePrice", nil},
		call{pol, "getExecFeeFactor", nil}, call{pol, "isBlocked", []any{w.gen.Accts[0].ScriptHash()}})
	for _, kv := range w.gen.AllKVs {
		for _, p := range [][]byte{{}, {0x01}} {
			for _, o := range []int64{0, 1 | 2, 128} {
				out = append(out, call{kv, "find", []any{p, o}})
			}
		}
		out = append(out, call{kv, "get", []any{[]byte{0x01}}}, call{kv, "get", []any{[]byte{0x01, 0x02}}}, call{kv, "get", []any{[]byte{0x07}}},
			call{kv, "version", nil})
	}
	return out
}

// grow adds the next generated block to the reference node and records the reference data of the new height.
func (w *histWorldT) grow() error {
	b, err := w.gen.NextBlock(5)
	if err != nil {
		return err
	}
	raw, err := chainkit.EncodeBlock(b)
	if err != nil {
		return err
	}
	w.blocks = append(w.blocks, raw)
	bc := w.ref.bc
	h := bc.BlockHeight()
	sr, err := bc.GetStateModule().GetStateRoot(h)
	if err != nil {
		return fmt.Errorf("reference node has no state root for %d: %w", h, err)
	}
	for id := int32(1); id <= maxID; id++ {
		if hh, err := bc.GetContractScriptHash(id); err == nil {
			w.hashOf[id] = hh
		}
	}
	if _, err := bc.GetContractScriptHash(maxID + 1); err == nil {
		return fmt.Errorf("more than %d contracts deployed: the storage dump would be incomplete", maxID)
	}
	rh := refHeight{flat: flat(bc), root: sr.Root, bhash: b.Hash(), calls: w.calls()}
	w.hs = append(w.hs, rh)
	live := w.o.invokeLive(w.ref, w.ref.srvs[w.o.r.Intn(len(w.ref.srvs))], rh.calls)
	w.o.tr.Emit(map[string]any{"event": "ref", "w": w.o.wi, "h": h, "flat": rh.flat, "live": live, "root": sr.Root.StringLE(), "bhash": b.Hash().StringLE(),
		"ntx": len(b.Transactions)})
	return nil
}

func histWorld(t *testing.T, res *vh.Result, tr *vh.Trace, wi int, nblocks int) {
	srih, smallMTB := wi%3 == 1, wi%2 == 0
	w := &histWorldT{t: t, net: chainkit.NewNet(5, 3), srih: srih, hashOf: map[int32]util.Uint160{}, nameOf: map[int32]string{}}
	w.o = &obs{tr: tr, res: res, r: vh.Rand(int64(4200 + wi)), w: fmt.Sprintf("hist%d", wi), rpcProofEvery: 3}
	protocol := func(c *config.Blockchain) {
		c.StateRootInHeader = srih
		if smallMTB {
			c.MaxTraceableBlocks = 10
			c.MaxValidUntilBlockIncrement = 5
		}
	}
	mk := func(name, keep string, hook func(*config.Blockchain)) *node {
		n, err := newNode(name, w.net, func(c *config.Blockchain) {
			protocol(c)
			if hook != nil {
				hook(c)
			}
		}, keep)
		if err != nil {
			t.Fatal(err)
		}
		return n
	}
	w.ref = mk("ref", "all", nil)
	lat := mk("lat", "latest", func(c *config.Blockchain) { c.Ledger.KeepOnlyLatestState = true })
	win := mk("win", "window", func(c *config.Blockchain) {
		c.Ledger.RemoveUntraceableBlocks = true
		c.Ledger.GarbageCollectionPeriod = 2
	})
	w.nodes = []*node{w.ref, lat, win}
	defer func() {
		for _, n := range w.nodes {
			n.close()
		}
	}()
	for _, n := range w.nodes {
		if _, err := n.serve("d", 0, 0, true); err != nil { // default limits
			t.Fatal(err)
		}
		if _, err := n.serve("s", 3, 2, true); err != nil {
			t.Fatal(err)
		}
	}
	for _, c := range w.ref.bc.GetNatives() {
		w.hashOf[c.ID], w.nameOf[c.ID] = c.Hash, c.Manifest.Name
	}
	w.gen = histgen.New(t, w.net, w.ref.bc, vh.Seed()*7919+int64(500+wi), 8)
	for k, v := range map[string]int{"deploy": 5, "kvput": 12, "kvmany": 6, "kvdel": 5, "destroy": 2} {
		w.gen.Weights[k] = v
	}
	w.o.wi = openWorld(tr, w.o.w, map[string]any{"srih": srih, "small_mtb": smallMTB})
	for h := uint32(1); h <= uint32(nblocks); h++ {
		if err := w.grow(); err != nil {
			t.Fatalf("generator: %v", err)
		}
		for i, n := range w.nodes {
			if n != w.ref {
				b, err := chainkit.DecodeBlock(w.blocks[h-1], srih)
				if err != nil {
					t.Fatal(err)
				}
				if err := n.bc.AddBlock(b); err != nil {
					t.Fatalf("node %s refused block %d of the reference node: %v", n.name, h, err)
				}
			}
			// the window node flushes (and lets the MPT collector run) after every block: what is outside its window is really gone
			if n.keep == "window" || (int(h)+i)%3 == 0 {
				if err := n.bc.VerifPersist(); err != nil {
					t.Fatal(err)
				}
			}
		}
		if h < 3 {
			continue
		}
		for _, n := range w.nodes {
			w.observe(n, h)
		}
	}
	if smallMTB {
		// scripted (every run): range search over the storage under the root of a height the collector has been over
		h := uint32(2)
		for _, via := range []string{"raw", "client"} {
			w.o.findStorage(win, win.srvs[0], via, false, h, true, w.hs[h-1].root, w.hashOf[-7], -7, w.nameOf[-7], nil, 0)
		}
		w.o.getStorage(win, win.srvs[0], h, true, w.hs[h-1].root, w.hashOf[-7], -7, w.nameOf[-7], []byte{10})
		res.Inc("collected_root_probes", 3)
	}
	res.Traces++
	if wi < 2 {
		res.Sample(map[string]any{"world": w.o.w, "srih": srih, "small_mtb": smallMTB, "blocks": nblocks, "tx_kinds": w.gen.Stats,
			"items_at_tip": len(w.hs[len(w.hs)-1].flat)})
	}
	for k, v := range w.gen.Stats {
		res.Inc("tx_"+k, v)
	}
	res.Inc("hist_blocks", nblocks)
}

// observe queries node n (whose chain is at height at): the tip, and two older heights whether retained or not.
func (w *histWorldT) observe(n *node, at uint32) {
	o := w.o
	r := o.r
	hs := []uint32{at}
	for k := 0; k < 2; k++ {
		hs = append(hs, 1+uint32(r.Intn(int(at-1))))
	}
	if n.keep == "window" && at > n.window+2 {
		hs = append(hs, at-n.window-1) // right outside the window
		if r.Intn(2) == 0 {
			hs = append(hs, at-n.window-2)
		}
	}
	for hi, h := range hs {
		rh := w.hs[h-1]
		s := n.srvs[r.Intn(len(n.srvs))]
		if hi == 0 {
			o.stateHeight(n, s)
		}
		// the root as the NODE UNDER TEST names it (getstateroot); requests use that root when it answers
		root, ok := o.stateRoot(n, s, h, rh.bhash)
		if !ok {
			root = rh.root
		}
		if len(rh.flat) == 0 {
			continue
		}
		for k := 0; k < 4; k++ {
			if k == 1 && hi > 0 {
				continue
			}
			it := rh.flat[r.Intn(len(rh.flat))]
			if k == 3 { // one of the longest keys
				for tries := 0; tries < 6; tries++ {
					if c := rh.flat[r.Intn(len(rh.flat))]; len(c.K) > len(it.K) {
						it = c
					}
				}
			}
			if k == 2 { // a scenario contract's item, if there is one
				for tries := 0; tries < 12 && it.ID < 0; tries++ {
					it = rh.flat[r.Intn(len(rh.flat))]
				}
			}
			hash, known := w.hashOf[it.ID]
			if !known {
				continue
			}
			key := bytesOf(it.K)
			switch r.Intn(4) {
			case 1: // (usually) absent: extension of a present key
				key = append(append([]byte{}, key...), byte(r.Intn(256)))
			case 2: // absent or present: truncated key
				if len(key) > 0 {
					key = key[:len(key)-1]
				}
			}
			s = n.srvs[r.Intn(len(n.srvs))]
			o.getState(n, s, h, root, hash, it.ID, key)
			full, nodes := o.getProof(n, s, h, root, hash, it.ID, key)
			if full != nil {
				// the same node list offered for ANOTHER key, against ANOTHER root, and tampered with
				other := rh.flat[r.Intn(len(rh.flat))]
				o.forged(n, s, "other-key", h, root, other.ID, bytesOf(other.K), nodes)
				h2 := 1 + uint32(r.Intn(int(at)))
				o.forged(n, s, "other-root", h2, w.hs[h2-1].root, it.ID, key, nodes)
				if len(nodes) > 0 {
					tp := make([][]byte, len(nodes))
					for i := range nodes {
						tp[i] = append([]byte{}, nodes[i]...)
					}
					switch r.Intn(3) {
					case 0:
						tp = tp[1:]
					case 1:
						j := r.Intn(len(tp))
						if len(tp[j]) > 0 {
							tp[j][r.Intn(len(tp[j]))] ^= byte(1 + r.Intn(255))
						}
					case 2:
						tp[len(tp)-1], tp[0] = tp[0], tp[len(tp)-1]
					}
					o.forged(n, s, "tampered", h, root, it.ID, key, tp)
				}
			}
			o.getStorage(n, s, h, true, root, hash, it.ID, w.nameOf[it.ID], key)
			if hi == 0 {
				o.getStorage(n, s, h, false, util.Uint256{}, hash, it.ID, w.nameOf[it.ID], key)
			}
			// bounded range search: prefix = leading bytes of the key, from = none / empty / a present key / an absent one
			pl := 0
			if len(it.K) > 0 {
				pl = r.Intn(len(it.K) + 1)
			}
			prefix := bytesOf(it.K[:pl])
			var (
				from  []byte
				given = true
			)
			switch r.Intn(5) {
			case 0:
				given = false
			case 1:
				from = []byte{}
			case 2:
				from = bytesOf(it.K)
			case 3:
				from = append(append([]byte{}, prefix...), byte(r.Intn(256)))
			case 4:
				from = prefix
			}
			count := -1
			if r.Intn(3) > 0 {
				count = 1 + r.Intn(6)
			}
			via, pfx := pick(r)
			o.findStates(n, s, via, pfx, h, root, hash, it.ID, prefix, given, from, count)
			o.res.Count([]any{o.w, "findstates", n.name, h, it.ID, prefix, given, from, count, via})
			via, pfx = pick(r)
			o.findStorage(n, s, via, pfx, h, true, root, hash, it.ID, w.nameOf[it.ID], prefix, r.Intn(4))
			if hi == 0 {
				o.findStorage(n, s, via, pfx, h, false, util.Uint256{}, hash, it.ID, w.nameOf[it.ID], prefix, r.Intn(4))
			}
			nitems := 0
			for _, x := range rh.flat {
				if x.ID == it.ID {
					nitems++
				}
			}
			if k == 2 && n.retained(h) && nitems <= 30 {
				// whole-contract walks in both protocols
				o.walkFrom(n, n.srvs[1], h, root, hash, it.ID, nil, 1+r.Intn(3), 400, nil)
				o.walkIndex(n, n.srvs[1], h, true, root, hash, it.ID, w.nameOf[it.ID], nil, 400, nil)
			}
		}
		// a contract that does not exist at h: a scenario contract before its deployment / after its destruction, or nothing at all
		ghost := util.Uint160{0xde, 0xad, byte(h)}
		if len(w.gen.AllKVs) > 0 && r.Intn(3) > 0 {
			ghost = w.gen.AllKVs[r.Intn(len(w.gen.AllKVs))]
		}
		gid := int32(0)
		for id, hh := range w.hashOf {
			if hh == ghost {
				gid = id
			}
		}
		o.getState(n, s, h, root, ghost, gid, []byte{0x01})
		o.findStates(n, s, "raw", false, h, root, ghost, gid, []byte{}, false, nil, -1)
		o.getProof(n, s, h, root, ghost, gid, []byte{0x01})
		// historic invocations, the height given as index, block hash and state root
		if hi > 0 || n.keep != "latest" {
			hows := []string{"index", "hash", "root"}
			if hi > 0 {
				hows = hows[r.Intn(3):][:1]
			}
			for _, how := range hows {
				o.invokeHistoric(n, s, h, how, rh.bhash, rh.root, rh.calls, 8)
			}
		}
	}
}
