package c03rpc

import (
	"crypto/sha1"
	"encoding/binary"
	"encoding/hex"
	"encoding/json"
	"errors"
	"fmt"
	"math/big"
	"math/rand"
	"net/url"
	"sort"
	"strconv"
	"sync"

	"verifharness/internal/vh"

	"github.com/nspcc-dev/neo-go/pkg/core/mpt"
	"github.com/nspcc-dev/neo-go/pkg/core/native"
	"github.com/nspcc-dev/neo-go/pkg/encoding/address"
	"github.com/nspcc-dev/neo-go/pkg/neorpc/result"
	"github.com/nspcc-dev/neo-go/pkg/smartcontract"
	"github.com/nspcc-dev/neo-go/pkg/util"
	"github.com/nspcc-dev/neo-go/pkg/vm/stackitem"
)

var (
	nworlds  int
	worldsMu sync.Mutex
)

// openWorld emits the init event of a new world and returns its number.
func openWorld(tr *vh.Trace, label string, extra map[string]any) int {
	worldsMu.Lock()
	defer worldsMu.Unlock()
	nworlds++
	ev := map[string]any{"event": "init", "world": label, "w": nworlds}
	for k, v := range extra {
		ev[k] = v
	}
	tr.Emit(ev)
	return nworlds
}

// obs records observations of one world.
type obs struct {
	tr  *vh.Trace
	res *vh.Result
	r   *rand.Rand
	w   string // world label
	wi  int    // world number in the trace (the wi-th init event)
	// rpcProofEvery: every n-th returned proof is also verified through the verifyproof RPC (all of them locally)
	rpcProofEvery int
	nproof        int
}

func (o *obs) base(ev string, n *node, s *srv, via string, h uint32) map[string]any {
	o.res.Inc("req_"+ev, 1)
	return map[string]any{"event": ev, "w": o.wi, "node": n.name, "cfg": n.keep, "srv": s.name, "via": via, "h": h, "at": n.bc.BlockHeight(), "ret": n.retained(h)}
}

// dropped records a request that got no JSON-RPC response at all (a handler that died takes the connection with it).
func (o *obs) dropped(n *node, s *srv, method, class string, err error, h ...uint32) {
	ev := map[string]any{"event": "malformed", "w": o.wi, "node": n.name, "cfg": n.keep, "srv": s.name, "via": "raw", "method": method, "class": class,
		"answered": false, "err": fmt.Sprint(err), "at": n.bc.BlockHeight()}
	if len(h) > 0 {
		ev["about"], ev["retained"] = h[0], n.retained(h[0])
	}
	o.tr.Emit(ev)
}

// cerr describes a client-side error; a transport failure (no response: the handler died) is recorded as such.
func (o *obs) cerr(n *node, s *srv, method string, err error, h uint32) string {
	var ue *url.Error
	if errors.As(err, &ue) {
		o.dropped(n, s, method, "wellformed", err, h)
	}
	return err.Error()
}

func pick(r *rand.Rand) (via string, pfx bool) {
	if r.Intn(2) == 0 {
		return "client", false
	}
	return "raw", r.Intn(2) == 0
}

func ckOf(h util.Uint160) []int { return ints(native.MakeContractKey(h)) }

// ---------------------------------------------------------------- getstate

func (o *obs) getState(n *node, s *srv, h uint32, root util.Uint256, hash util.Uint160, id int32, key []byte) {
	via, pfx := pick(o.r)
	ev := o.base("getstate", n, s, via, h)
	ev["id"], ev["ck"], ev["k"] = id, ckOf(hash), ints(key)
	var v []byte
	ok := false
	if via == "client" {
		x, err := s.cl.GetState(root, hash, key)
		ok, v = err == nil, x
		if err != nil {
			ev["err"] = o.cerr(n, s, "getstate", err, h)
		}
	} else {
		r, e, err := s.raw("getstate", le256(root, pfx), le160(hash, pfx), b64(key))
		if err != nil {
			o.dropped(n, s, "getstate", "wellformed", err)
			return
		}
		if e == nil {
			x, derr := unb64(r)
			ok, v = derr == nil, x
		} else {
			ev["err"] = e.Code
		}
	}
	ev["ok"], ev["v"] = ok, hex.EncodeToString(v)
	o.tr.Emit(ev)
	o.res.Count([]any{o.w, "getstate", n.name, h, id, key, via})
}

// ---------------------------------------------------------------- proofs

// decodeProof parses the serialized key + node list (var-bytes key, var-uint count, var-bytes nodes) by hand.
func decodeProof(b []byte) (key []byte, nodes [][]byte, err error) {
	pos := 0
	varuint := func() (uint64, error) {
		if pos >= len(b) {
			return 0, fmt.Errorf("short")
		}
		c := b[pos]
		pos++
		n := 0
		switch c {
		case 0xfd:
			n = 2
		case 0xfe:
			n = 4
		case 0xff:
			n = 8
		default:
			return uint64(c), nil
		}
		if pos+n > len(b) {
			return 0, fmt.Errorf("short")
		}
		var buf [8]byte
		copy(buf[:], b[pos:pos+n])
		pos += n
		return binary.LittleEndian.Uint64(buf[:]), nil
	}
	varbytes := func() ([]byte, error) {
		l, err := varuint()
		if err != nil || uint64(pos)+l > uint64(len(b)) {
			return nil, fmt.Errorf("short")
		}
		x := b[pos : pos+int(l)]
		pos += int(l)
		return x, nil
	}
	if key, err = varbytes(); err != nil {
		return
	}
	cnt, err := varuint()
	if err != nil {
		return nil, nil, err
	}
	for i := uint64(0); i < cnt; i++ {
		nd, err := varbytes()
		if err != nil {
			return nil, nil, err
		}
		nodes = append(nodes, nd)
	}
	if pos != len(b) {
		return nil, nil, fmt.Errorf("trailing bytes")
	}
	return key, nodes, nil
}

func noProof() map[string]any {
	return map[string]any{"have": false, "id": 0, "k": []int{}, "lok": false, "lv": "", "rchecked": false, "rok": false, "rv": ""}
}

// verifyRec verifies a key + node list against root locally (mpt.VerifyProof) and, when asked, through verifyproof.
func (o *obs) verifyRec(n *node, s *srv, via string, root util.Uint256, key []byte, nodes [][]byte, rpcCheck bool) map[string]any {
	rec := noProof()
	rec["have"] = true
	rpcCheck = rpcCheck && n.keep != "latest" // getproof / verifyproof are switched off altogether with KeepOnlyLatestState
	if len(key) >= 4 {
		rec["id"], rec["k"] = int32(binary.LittleEndian.Uint32(key)), ints(key[4:])
	} else {
		rec["id"], rec["k"] = 0, ints(key)
	}
	if v, ok := mpt.VerifyProof(root, key, nodes); ok {
		rec["lok"], rec["lv"] = true, hex.EncodeToString(v)
	}
	if rpcCheck {
		rec["rchecked"] = true
		p := &result.ProofWithKey{Key: key, Proof: nodes}
		o.res.Inc("req_verifyproof", 1)
		if via == "client" {
			if v, err := s.cl.VerifyProof(root, p); err == nil {
				rec["rok"], rec["rv"] = true, hex.EncodeToString(v)
			} else {
				o.cerr(n, s, "verifyproof", err, 0)
			}
		} else {
			r, e, err := s.raw("verifyproof", le256(root, false), p.String())
			if err != nil {
				o.dropped(n, s, "verifyproof", "wellformed", err)
			} else if e == nil {
				if v, derr := unb64(r); derr == nil {
					rec["rok"], rec["rv"] = true, hex.EncodeToString(v)
				}
			}
		}
	}
	return rec
}

func (o *obs) wantRPCProof() bool {
	o.nproof++
	return o.rpcProofEvery > 0 && o.nproof%o.rpcProofEvery == 0
}

// getProof asks for a proof of (hash, key) under root and verifies what comes back.
func (o *obs) getProof(n *node, s *srv, h uint32, root util.Uint256, hash util.Uint160, id int32, key []byte) (full []byte, nodes [][]byte) {
	via, pfx := pick(o.r)
	ev := o.base("proof", n, s, via, h)
	ev["id"], ev["ck"], ev["k"] = id, ckOf(hash), ints(key)
	if n.keep == "latest" {
		ev["ret"] = false // documented: no proofs at all on such a node
	}
	rec := noProof()
	if via == "client" {
		p, err := s.cl.GetProof(root, hash, key)
		if err == nil && p != nil {
			full, nodes = p.Key, p.Proof
		} else if err != nil {
			ev["err"] = o.cerr(n, s, "getproof", err, h)
		}
	} else {
		r, e, err := s.raw("getproof", le256(root, pfx), le160(hash, pfx), b64(key))
		if err != nil {
			o.dropped(n, s, "getproof", "wellformed", err)
			return nil, nil
		}
		if e == nil {
			if raw, derr := unb64(r); derr == nil {
				if k, nd, derr := decodeProof(raw); derr == nil {
					full, nodes = k, nd
				}
			}
		} else {
			ev["err"] = e.Code
		}
	}
	if full != nil {
		// the proof is judged for the key that was ASKED: a proof packaged with another key is a forged one
		rec = o.verifyRec(n, s, via, root, idKey(id, key), nodes, true)
		ev["keyok"] = string(full) == string(idKey(id, key))
	}
	for k, v := range rec {
		if k != "id" && k != "k" {
			ev[k] = v
		}
	}
	o.tr.Emit(ev)
	o.res.Count([]any{o.w, "proof", n.name, h, id, key, via})
	return full, nodes
}

// forged offers a node list for (id, key) against the root of height h.
func (o *obs) forged(n *node, s *srv, how string, h uint32, root util.Uint256, id int32, key []byte, nodes [][]byte) {
	via, _ := pick(o.r)
	ev := o.base("forged", n, s, via, h)
	rec := o.verifyRec(n, s, via, root, idKey(id, key), nodes, true)
	for k, v := range rec {
		ev[k] = v
	}
	ev["how"] = how
	o.tr.Emit(ev)
	o.res.Count([]any{o.w, "forged", how, n.name, h, id, key})
}

// ---------------------------------------------------------------- findstates

type fsAnswer struct {
	ok     bool
	keys   [][]byte
	vals   [][]byte
	trunc  bool
	fpKey  []byte
	fp     [][]byte
	lpKey  []byte
	lp     [][]byte
	hasFP  bool
	hasLP  bool
	err    any
	noresp error
}

// findStatesReq performs one findstates request. fromGiven / from / count (-1: none) are what is WANTED; the returned
// (fromGiven, from) are what was actually put on the wire (the client always sends a `from` when it sends a count).
func (s *srv) findStatesReq(via string, pfx bool, root util.Uint256, hash util.Uint160, prefix []byte, fromGiven bool, from []byte, count int) (fsAnswer, bool, []byte) {
	var a fsAnswer
	if !fromGiven && count >= 0 {
		fromGiven, from = true, []byte{}
	}
	if via == "client" {
		var start []byte
		if fromGiven {
			start = append([]byte{}, from...)
		}
		var mc *int
		if count >= 0 {
			mc = &count
		}
		r, err := s.cl.FindStates(root, hash, prefix, start, mc)
		if err != nil {
			var ue *url.Error
			if errors.As(err, &ue) {
				a.noresp = err
			}
			a.err = err.Error()
			return a, fromGiven, from
		}
		a.ok, a.trunc = true, r.Truncated
		for _, kv := range r.Results {
			a.keys, a.vals = append(a.keys, kv.Key), append(a.vals, kv.Value)
		}
		if r.FirstProof != nil {
			a.hasFP, a.fpKey, a.fp = true, r.FirstProof.Key, r.FirstProof.Proof
		}
		if r.LastProof != nil {
			a.hasLP, a.lpKey, a.lp = true, r.LastProof.Key, r.LastProof.Proof
		}
		return a, fromGiven, from
	}
	params := []any{le256(root, pfx), le160(hash, pfx), b64(prefix)}
	if fromGiven {
		params = append(params, b64(from))
	}
	if count >= 0 {
		params = append(params, count)
	}
	r, e, err := s.raw("findstates", params...)
	if err != nil {
		a.noresp = err
		return a, fromGiven, from
	}
	if e != nil {
		a.err = e.Code
		return a, fromGiven, from
	}
	var out struct {
		Results []struct {
			Key   string `json:"key"`
			Value string `json:"value"`
		} `json:"results"`
		FirstProof *string `json:"firstProof"`
		LastProof  *string `json:"lastProof"`
		Truncated  bool    `json:"truncated"`
	}
	if err := json.Unmarshal(r, &out); err != nil {
		a.err = "undecodable: " + err.Error()
		return a, fromGiven, from
	}
	a.ok, a.trunc = true, out.Truncated
	for _, kv := range out.Results {
		k, e1 := unb64(json.RawMessage(strconv.Quote(kv.Key)))
		v, e2 := unb64(json.RawMessage(strconv.Quote(kv.Value)))
		if e1 != nil || e2 != nil {
			a.ok, a.err = false, "undecodable item"
			return a, fromGiven, from
		}
		a.keys, a.vals = append(a.keys, k), append(a.vals, v)
	}
	for i, ps := range []*string{out.FirstProof, out.LastProof} {
		if ps == nil {
			continue
		}
		b, derr := unb64(json.RawMessage(strconv.Quote(*ps)))
		var k []byte
		var nd [][]byte
		if derr == nil {
			k, nd, derr = decodeProof(b)
		}
		if derr != nil {
			a.ok, a.err = false, "undecodable proof"
			return a, fromGiven, from
		}
		if i == 0 {
			a.hasFP, a.fpKey, a.fp = true, k, nd
		} else {
			a.hasLP, a.lpKey, a.lp = true, k, nd
		}
	}
	return a, fromGiven, from
}

func intsList(bs [][]byte) [][]int {
	out := [][]int{}
	for _, b := range bs {
		out = append(out, ints(b))
	}
	return out
}
func hexList(bs [][]byte) []string {
	out := []string{}
	for _, b := range bs {
		out = append(out, hex.EncodeToString(b))
	}
	return out
}

// findStates performs and records one findstates request; returns the answer.
func (o *obs) findStates(n *node, s *srv, via string, pfx bool, h uint32, root util.Uint256, hash util.Uint160, id int32, prefix []byte, fromGiven bool, from []byte, count int) fsAnswer {
	a, fg, fr := s.findStatesReq(via, pfx, root, hash, prefix, fromGiven, from, count)
	if a.noresp != nil {
		o.res.Inc("req_findstates", 1)
		o.dropped(n, s, "findstates", "wellformed", a.noresp)
		return a
	}
	ev := o.base("findstates", n, s, via, h)
	ev["id"], ev["ck"], ev["prefix"], ev["fromgiven"], ev["from"], ev["count"], ev["cap"] = id, ckOf(hash), ints(prefix), fg, ints(fr), count, s.capFind
	ev["ok"], ev["keys"], ev["vals"], ev["truncated"] = a.ok, intsList(a.keys), hexList(a.vals), a.trunc
	fp, lp := noProof(), noProof()
	if a.ok {
		if a.hasFP {
			fp = o.verifyRec(n, s, via, root, a.fpKey, a.fp, o.wantRPCProof())
		}
		if a.hasLP {
			lp = o.verifyRec(n, s, via, root, a.lpKey, a.lp, o.wantRPCProof())
		}
	} else {
		ev["err"] = a.err
	}
	ev["fp"], ev["lp"] = fp, lp
	o.tr.Emit(ev)
	return a
}

// walkFrom walks the items under prefix with page size k by passing the last returned key as `from`.
// pred (may be nil) is the page list the Impl model predicts.
func (o *obs) walkFrom(n *node, s *srv, h uint32, root util.Uint256, hash util.Uint160, id int32, prefix []byte, k int, bound int, pred [][][]int) {
	via, pfx := pick(o.r)
	var (
		pages    = [][][]int{}
		truncs   = []bool{}
		from     []byte
		given    bool
		complete bool
		stuck    bool
	)
	for step := 0; step <= bound+2; step++ {
		a := o.findStates(n, s, via, pfx, h, root, hash, id, prefix, given, from, k)
		if !a.ok {
			break
		}
		pages, truncs = append(pages, intsList(a.keys)), append(truncs, a.trunc)
		if !a.trunc {
			complete = true
			break
		}
		if len(a.keys) == 0 {
			break // truncated with nothing to go on with
		}
		given, from = true, a.keys[len(a.keys)-1]
		if len(from) == 0 {
			// the wire format cannot say "after the EMPTY key": the protocol ends here (Paging.tla, EmptyFromIsNone)
			stuck = true
			break
		}
	}
	ev := o.base("paging", n, s, via, h)
	ev["id"], ev["prefix"], ev["k"], ev["cap"], ev["proto"], ev["historic"] = id, ints(prefix), k, s.capFind, "from", true
	ev["pages"], ev["truncs"], ev["complete"], ev["stuck"] = pages, truncs, complete, stuck
	ev["predicted"] = pred == nil || samePages(pred, pages)
	o.tr.Emit(ev)
	o.res.Count([]any{o.w, "walk-from", n.name, h, id, prefix, k, s.capFind})
}

func samePages(a, b [][][]int) bool {
	x, _ := json.Marshal(a)
	y, _ := json.Marshal(b)
	return string(x) == string(y)
}

// ---------------------------------------------------------------- getstorage / findstorage

// contractParam renders the contract of a storage request in one of the forms the server accepts.
func contractParam(r *rand.Rand, id int32, hash util.Uint160, nativeName string) (param any, byID bool) {
	switch x := r.Intn(5); {
	case x == 0:
		return id, true // JSON number
	case x == 1:
		return le160(hash, false), false
	case x == 2:
		return le160(hash, true), false
	case x == 3 && nativeName != "":
		return nativeName, false
	case x == 3:
		return address.Uint160ToString(hash), false
	default:
		return strconv.Itoa(int(id)), true // number in a string
	}
}

func (o *obs) getStorage(n *node, s *srv, h uint32, historic bool, root util.Uint256, hash util.Uint160, id int32, nativeName string, key []byte) {
	via, pfx := pick(o.r)
	ev := o.base("getstorage", n, s, via, h)
	ev["id"], ev["k"], ev["historic"] = id, ints(key), historic
	var v []byte
	ok := false
	if via == "client" {
		byID := o.r.Intn(2) == 0
		var err error
		switch {
		case historic && byID:
			v, err = s.cl.GetStorageByIDHistoric(root, id, key)
		case historic:
			v, err = s.cl.GetStorageByHashHistoric(root, hash, key)
		case byID:
			v, err = s.cl.GetStorageByID(id, key)
		default:
			v, err = s.cl.GetStorageByHash(hash, key)
		}
		ok = err == nil
		if err != nil {
			ev["err"] = o.cerr(n, s, "getstorage", err, h)
		}
		ev["ck"] = []int{}
		if !byID {
			ev["ck"] = ckOf(hash)
		}
	} else {
		cp, byID := contractParam(o.r, id, hash, nativeName)
		ev["ck"] = []int{}
		if !byID {
			ev["ck"] = ckOf(hash)
		}
		ev["form"] = fmt.Sprint(cp)
		var (
			r   json.RawMessage
			e   *rpcErr
			err error
		)
		if historic {
			r, e, err = s.raw("getstoragehistoric", le256(root, pfx), cp, b64(key))
		} else {
			r, e, err = s.raw("getstorage", cp, b64(key))
		}
		if err != nil {
			o.dropped(n, s, "getstorage", "wellformed", err)
			return
		}
		if e == nil {
			x, derr := unb64(r)
			ok, v = derr == nil, x
		} else {
			ev["err"] = e.Code
		}
	}
	ev["ok"], ev["v"] = ok, hex.EncodeToString(v)
	o.tr.Emit(ev)
	o.res.Count([]any{o.w, "getstorage", historic, n.name, h, id, key, via})
}

type stAnswer struct {
	ok    bool
	keys  [][]byte
	vals  [][]byte
	trunc bool
	next  int
}

func (o *obs) findStorage(n *node, s *srv, via string, pfx bool, h uint32, historic bool, root util.Uint256, hash util.Uint160, id int32, nativeName string, prefix []byte, start int) stAnswer {
	var a stAnswer
	ev := o.base("findstorage", n, s, via, h)
	ev["id"], ev["prefix"], ev["start"], ev["cap"], ev["historic"] = id, ints(prefix), start, s.capPage, historic
	ev["ck"] = []int{}
	if via == "client" {
		byID := o.r.Intn(2) == 0
		if !byID {
			ev["ck"] = ckOf(hash)
		}
		var (
			r   result.FindStorage
			err error
		)
		switch {
		case historic && byID:
			r, err = s.cl.FindStorageByIDHistoric(root, id, prefix, &start)
		case historic:
			r, err = s.cl.FindStorageByHashHistoric(root, hash, prefix, &start)
		case byID:
			r, err = s.cl.FindStorageByID(id, prefix, &start)
		default:
			r, err = s.cl.FindStorageByHash(hash, prefix, &start)
		}
		if err == nil {
			a.ok, a.trunc, a.next = true, r.Truncated, r.Next
			for _, kv := range r.Results {
				a.keys, a.vals = append(a.keys, kv.Key), append(a.vals, kv.Value)
			}
		} else {
			ev["err"] = o.cerr(n, s, "findstorage", err, h)
		}
	} else {
		cp, byID := contractParam(o.r, id, hash, nativeName)
		if !byID {
			ev["ck"] = ckOf(hash)
		}
		ev["form"] = fmt.Sprint(cp)
		var (
			r   json.RawMessage
			e   *rpcErr
			err error
		)
		if historic {
			r, e, err = s.raw("findstoragehistoric", le256(root, pfx), cp, b64(prefix), start)
		} else {
			r, e, err = s.raw("findstorage", cp, b64(prefix), start)
		}
		if err != nil {
			o.dropped(n, s, "findstorage", "wellformed", err)
			return a
		}
		if e == nil {
			var out struct {
				Results []struct {
					Key   string `json:"key"`
					Value string `json:"value"`
				} `json:"results"`
				Next      int  `json:"next"`
				Truncated bool `json:"truncated"`
			}
			if derr := json.Unmarshal(r, &out); derr == nil {
				a.ok, a.trunc, a.next = true, out.Truncated, out.Next
				for _, kv := range out.Results {
					k, e1 := unb64(json.RawMessage(strconv.Quote(kv.Key)))
					v, e2 := unb64(json.RawMessage(strconv.Quote(kv.Value)))
					if e1 != nil || e2 != nil {
						a.ok = false
						break
					}
					a.keys, a.vals = append(a.keys, k), append(a.vals, v)
				}
			}
		} else {
			ev["err"] = e.Code
		}
	}
	ev["ok"], ev["keys"], ev["vals"], ev["truncated"], ev["next"] = a.ok, intsList(a.keys), hexList(a.vals), a.trunc, a.next
	o.tr.Emit(ev)
	return a
}

// walkIndex walks the items under prefix by passing the server's `next` as `start`.
func (o *obs) walkIndex(n *node, s *srv, h uint32, historic bool, root util.Uint256, hash util.Uint160, id int32, nativeName string, prefix []byte, bound int, pred [][][]int) {
	via, pfx := pick(o.r)
	var (
		pages    = [][][]int{}
		truncs   = []bool{}
		start    int
		complete bool
	)
	for step := 0; step <= bound+2; step++ {
		a := o.findStorage(n, s, via, pfx, h, historic, root, hash, id, nativeName, prefix, start)
		if !a.ok {
			break
		}
		pages, truncs = append(pages, intsList(a.keys)), append(truncs, a.trunc)
		if !a.trunc {
			complete = true
			break
		}
		if len(a.keys) == 0 {
			break
		}
		start = a.next
	}
	ev := o.base("paging", n, s, via, h)
	ev["id"], ev["prefix"], ev["k"], ev["cap"], ev["proto"], ev["historic"] = id, ints(prefix), 0, s.capPage, "index", historic
	ev["pages"], ev["truncs"], ev["complete"], ev["stuck"] = pages, truncs, complete, false
	ev["predicted"] = pred == nil || samePages(pred, pages)
	o.tr.Emit(ev)
	o.res.Count([]any{o.w, "walk-index", historic, n.name, h, id, prefix, s.capPage})
}

// ---------------------------------------------------------------- invocations

// call is one read-only contract call.
type call struct {
	Hash   util.Uint160
	Method string
	Args   []any // []byte, int64, util.Uint160
}

func (c call) clientParams() []smartcontract.Parameter {
	ps := []smartcontract.Parameter{}
	for _, a := range c.Args {
		switch v := a.(type) {
		case []byte:
			ps = append(ps, smartcontract.Parameter{Type: smartcontract.ByteArrayType, Value: v})
		case int64:
			ps = append(ps, smartcontract.Parameter{Type: smartcontract.IntegerType, Value: big.NewInt(v)})
		case util.Uint160:
			ps = append(ps, smartcontract.Parameter{Type: smartcontract.Hash160Type, Value: v})
		}
	}
	return ps
}

func (c call) rawParams(r *rand.Rand) []any {
	ps := []any{}
	for _, a := range c.Args {
		switch v := a.(type) {
		case []byte:
			ps = append(ps, map[string]any{"type": "ByteArray", "value": b64(v)})
		case int64:
			if r.Intn(2) == 0 {
				ps = append(ps, map[string]any{"type": "Integer", "value": v})
			} else {
				ps = append(ps, map[string]any{"type": "Integer", "value": strconv.FormatInt(v, 10)})
			}
		case util.Uint160:
			ps = append(ps, map[string]any{"type": "Hash160", "value": le160(v, r.Intn(2) == 0)})
		}
	}
	return ps
}

// canon renders state + stack in one canonical string whichever way the answer was decoded.
func canon(state string, stack []json.RawMessage) string {
	out := state
	for _, it := range stack {
		var x any
		if err := json.Unmarshal(it, &x); err != nil {
			out += "|?" + string(it)
			continue
		}
		b, _ := json.Marshal(x) // maps are written with sorted keys
		out += "|" + string(b)
	}
	if len(out) > 96 { // long answers travel as a digest (plus their beginning, for the reader of a replay)
		d := sha1.Sum([]byte(out))
		out = out[:64] + "...#" + hex.EncodeToString(d[:10])
	}
	return out
}

func canonInvoke(r *result.Invoke) string {
	var st []json.RawMessage
	for _, it := range r.Stack {
		b, err := stackitem.ToJSONWithTypes(it)
		if err != nil {
			b = []byte(strconv.Quote("unserializable " + it.Type().String()))
		}
		st = append(st, b)
	}
	return canon(r.State, st)
}

func canonRaw(r json.RawMessage) string {
	var out struct {
		State string            `json:"state"`
		Stack []json.RawMessage `json:"stack"`
	}
	if err := json.Unmarshal(r, &out); err != nil {
		return "UNDECODABLE"
	}
	return canon(out.State, out.Stack)
}

// invokeLive runs the calls through invokefunction on the live state.
func (o *obs) invokeLive(n *node, s *srv, calls []call) []string {
	var out []string
	for _, c := range calls {
		o.res.Inc("req_invokefunction", 1)
		if x := o.r.Intn(5); x == 0 {
			// the same call as a script (invokescript)
			script, serr := smartcontract.CreateCallScript(c.Hash, c.Method, c.Args...)
			if serr != nil {
				out = append(out, "ERR")
				continue
			}
			r, err := s.cl.InvokeScript(script, nil)
			if err != nil {
				out = append(out, "ERR")
				continue
			}
			out = append(out, canonInvoke(r))
		} else if x < 3 {
			r, err := s.cl.InvokeFunction(c.Hash, c.Method, c.clientParams(), nil)
			if err != nil {
				out = append(out, "ERR")
				continue
			}
			out = append(out, canonInvoke(r))
		} else {
			r, e, err := s.raw("invokefunction", le160(c.Hash, o.r.Intn(2) == 0), c.Method, c.rawParams(o.r))
			if err != nil || e != nil {
				out = append(out, "ERR")
				continue
			}
			out = append(out, canonRaw(r))
		}
	}
	return out
}

// invokeHistoric runs the calls through invokefunctionhistoric with the height given as index, block hash or state root.
func (o *obs) invokeHistoric(n *node, s *srv, h uint32, how string, bhash, root util.Uint256, all []call, sample int) {
	via, pfx := pick(o.r)
	ev := o.base("historic", n, s, via, h)
	ev["how"] = how
	results := []string{}
	// a seeded sample of the calls recorded live at h (idx: their 1-based positions in the reference list)
	idx := []int{}
	var calls []call
	for i, p := range o.r.Perm(len(all)) {
		if i < sample {
			idx = append(idx, p+1)
		}
	}
	sort.Ints(idx)
	for _, i := range idx {
		calls = append(calls, all[i-1])
	}
	ev["idx"] = idx
	for _, c := range calls {
		o.res.Inc("req_invokefunctionhistoric", 1)
		// every third call travels as a script (invokescripthistoric)
		var script []byte
		if o.r.Intn(3) == 0 {
			if sc, serr := smartcontract.CreateCallScript(c.Hash, c.Method, c.Args...); serr == nil {
				script = sc
				o.res.Inc("req_invokescripthistoric", 1)
			}
		}
		if via == "client" {
			var (
				r   *result.Invoke
				err error
			)
			switch {
			case script != nil && how == "index":
				r, err = s.cl.InvokeScriptAtHeight(h, script, nil)
			case script != nil && how == "hash":
				r, err = s.cl.InvokeScriptWithState(bhash, script, nil)
			case script != nil:
				r, err = s.cl.InvokeScriptWithState(root, script, nil)
			case how == "index":
				r, err = s.cl.InvokeFunctionAtHeight(h, c.Hash, c.Method, c.clientParams(), nil)
			case how == "hash":
				r, err = s.cl.InvokeFunctionWithState(bhash, c.Hash, c.Method, c.clientParams(), nil)
			default:
				r, err = s.cl.InvokeFunctionWithState(root, c.Hash, c.Method, c.clientParams(), nil)
			}
			if err != nil {
				results = append(results, "UNAVAILABLE")
				ev["err"] = o.cerr(n, s, "invokefunctionhistoric", err, h)
				continue
			}
			results = append(results, canonInvoke(r))
		} else {
			var first any
			switch how {
			case "index":
				first = h
			case "hash":
				first = le256(bhash, pfx)
			default:
				first = le256(root, pfx)
			}
			var (
				r   json.RawMessage
				e   *rpcErr
				err error
			)
			if script != nil {
				r, e, err = s.raw("invokescripthistoric", first, b64(script))
			} else {
				r, e, err = s.raw("invokefunctionhistoric", first, le160(c.Hash, pfx), c.Method, c.rawParams(o.r))
			}
			if err != nil {
				o.dropped(n, s, "invokefunctionhistoric", "wellformed", err, h)
				results = append(results, "UNAVAILABLE")
				continue
			}
			if e != nil {
				results = append(results, "UNAVAILABLE")
				ev["err"] = e.Code
				continue
			}
			results = append(results, canonRaw(r))
		}
	}
	ev["results"] = results
	o.tr.Emit(ev)
	o.res.Count([]any{o.w, "historic", how, n.name, h, via})
}

// ---------------------------------------------------------------- state roots

func (o *obs) stateRoot(n *node, s *srv, h uint32, bhash util.Uint256) (util.Uint256, bool) {
	via, pfx := pick(o.r)
	how := []string{"index", "hash"}[o.r.Intn(2)]
	ev := o.base("root", n, s, via, h)
	ev["how"] = how
	var root util.Uint256
	ok := false
	if via == "client" {
		var (
			r   interface{ GetRoot() util.Uint256 }
			err error
		)
		_ = r
		if how == "index" {
			x, e := s.cl.GetStateRootByHeight(h)
			err = e
			if e == nil {
				root = x.Root
			}
		} else {
			x, e := s.cl.GetStateRootByBlockHash(bhash)
			err = e
			if e == nil {
				root = x.Root
			}
		}
		ok = err == nil
	} else {
		var p any = h
		if how == "hash" {
			p = le256(bhash, pfx)
		}
		r, e, err := s.raw("getstateroot", p)
		if err != nil {
			o.dropped(n, s, "getstateroot", "wellformed", err)
			return root, false
		}
		if e == nil {
			var out struct {
				Index uint32 `json:"index"`
				Root  string `json:"roothash"`
			}
			if json.Unmarshal(r, &out) == nil {
				if len(out.Root) > 2 && out.Root[:2] == "0x" {
					out.Root = out.Root[2:]
				}
				if x, derr := util.Uint256DecodeStringLE(out.Root); derr == nil && out.Index == h {
					root, ok = x, true
				}
			}
		}
	}
	ev["ok"], ev["root"] = ok, root.StringLE()
	o.tr.Emit(ev)
	return root, ok
}

func (o *obs) stateHeight(n *node, s *srv) {
	ev := o.base("stateheight", n, s, "raw", n.bc.BlockHeight())
	r, e, err := s.raw("getstateheight")
	if err != nil {
		o.dropped(n, s, "getstateheight", "wellformed", err)
		return
	}
	var out struct {
		Local uint32 `json:"localrootindex"`
	}
	ev["ok"] = e == nil && json.Unmarshal(r, &out) == nil
	ev["local"] = out.Local
	o.tr.Emit(ev)
}

func sortedU32(m map[uint32]bool) []uint32 {
	var r []uint32
	for k := range m {
		r = append(r, k)
	}
	sort.Slice(r, func(i, j int) bool { return r[i] < r[j] })
	return r
}
