package c03rpc

import (
	"encoding/hex"
	"fmt"
	"math/bits"
	"testing"

	"verifharness/internal/chainkit"
	"verifharness/internal/histgen"
	"verifharness/internal/vh"

	"github.com/nspcc-dev/neo-go/pkg/core/transaction"
	"github.com/nspcc-dev/neo-go/pkg/neotest"
	"github.com/nspcc-dev/neo-go/pkg/util"
)

// pcase is one finished walk of Paging.tla (Enum_Paging.cfg).
type pcase struct {
	M      [][]int   `json:"m"`
	P      []int     `json:"p"`
	K      int       `json:"k"`
	C      int       `json:"c"`
	Proto  string    `json:"proto"`
	Pages  [][][]int `json:"pages"`
	Truncs []bool    `json:"truncs"`
}

// the key universe of MCPaging.U8, in the same order (bit i of a shape = key i present)
var univ = [][]byte{{0}, {1}, {1, 0}, {1, 255}, {1, 255, 0}, {1, 255, 255}, {2}, {255}}

func shapeOf(m [][]int) (int, bool) {
	s := 0
	for _, k := range m {
		found := false
		for i, u := range univ {
			if string(u) == string(bytesOf(k)) {
				s |= 1 << i
				found = true
			}
		}
		if !found {
			return 0, false
		}
	}
	return s, true
}

// pagingWorld grows a chain on which the storage of scenario contract A runs through EVERY map over the key universe
// (one key put or deleted per block, Gray code order) while contract B keeps a fixed decoy map with the same keys, and
// replays the walks of the model against servers whose limits are the model's c.
func pagingWorld(t *testing.T, res *vh.Result, tr *vh.Trace, cases []pcase) {
	net := chainkit.NewNet(1, 1)
	n, err := newNode("pg", net, nil, "all")
	if err != nil {
		t.Fatal(err)
	}
	defer n.close()
	o := &obs{tr: tr, res: res, r: vh.Rand(4100), w: "paging", rpcProofEvery: 7}
	o.wi = openWorld(tr, "paging", nil)
	srvByCap := map[int]*srv{}
	for _, c := range []int{1, 2, 3, 100} {
		s, err := n.serve(fmt.Sprintf("cap%d", c), c, c, true)
		if err != nil {
			t.Fatal(err)
		}
		srvByCap[c] = s
	}
	g := histgen.New(t, net, n.bc, vh.Seed()*31+5, 3)
	emitRef := func() {
		h := n.bc.BlockHeight()
		sr, err := n.bc.GetStateModule().GetStateRoot(h)
		if err != nil {
			t.Fatalf("reference node has no state root for %d: %v", h, err)
		}
		tr.Emit(map[string]any{"event": "ref", "w": o.wi, "h": h, "flat": flat(n.bc), "live": []string{}, "root": sr.Root.StringLE(),
			"bhash": n.bc.GetHeaderHash(h).StringLE()})
	}
	block := func(txs ...*transaction.Transaction) {
		for _, tx := range txs {
			if tx == nil {
				t.Fatal("paging world: transaction could not be built")
			}
		}
		b, err := net.NewBlock(n.bc, 1, txs...)
		if err != nil {
			t.Fatal(err)
		}
		if err := n.bc.AddBlock(b); err != nil {
			t.Fatalf("paging world: block refused: %v", err)
		}
		for _, tx := range txs {
			if aer, err := n.bc.GetAppExecResults(tx.Hash(), 0x40); err != nil || len(aer) != 1 || aer[0].VMState.String() != "HALT" {
				t.Fatalf("paging world: scenario transaction did not HALT: %v %+v", err, aer)
			}
		}
		emitRef()
	}
	// funding (the generator's first block), then the two contracts
	if _, err := g.NextBlock(0); err != nil {
		t.Fatal(err)
	}
	emitRef()
	a := g.Accts[0]
	sa := []neotest.Signer{a}
	cA, cB := histgen.KV(t, a.ScriptHash(), 901, 901), histgen.KV(t, a.ScriptHash(), 902, 902)
	block(g.SafeDeploy(a, cA))
	block(g.SafeDeploy(a, cB))
	idA, idB := n.bc.GetContractState(cA.Hash).ID, n.bc.GetContractState(cB.Hash).ID
	var decoy []*transaction.Transaction
	for i, k := range univ {
		decoy = append(decoy, g.Tx(sa, cB.Hash, "put", k, []byte{0xB0, byte(i)}))
	}
	block(decoy...)
	base := n.bc.BlockHeight() // shape 0: A is empty
	heightOf := map[int]uint32{0: base}
	vals := [][]byte{{1}, {}, {2, 3}, []byte("shared-value-shared-value-shared-value"), {0}, {0xff}}
	for i := 1; i < 1<<len(univ); i++ {
		bit := bits.TrailingZeros(uint(i))
		shape := i ^ (i >> 1)
		if shape&(1<<bit) != 0 {
			block(g.Tx(sa, cA.Hash, "put", univ[bit], vals[i%len(vals)]))
		} else {
			block(g.Tx(sa, cA.Hash, "del", univ[bit]))
		}
		heightOf[shape] = n.bc.BlockHeight()
		if i%64 == 0 {
			if err := n.bc.VerifPersist(); err != nil {
				t.Fatal(err)
			}
		}
	}
	tip := n.bc.BlockHeight()
	res.Inc("paging_blocks", int(tip))
	rootOf := func(h uint32) util.Uint256 {
		sr, err := n.bc.GetStateModule().GetStateRoot(h)
		if err != nil {
			t.Fatalf("no root %d", h)
		}
		return sr.Root
	}
	nshape := 0
	seen := map[int]bool{}
	for ci, c := range cases {
		shape, ok := shapeOf(c.M)
		s := srvByCap[c.C]
		if !ok || s == nil {
			t.Fatalf("paging case outside the realised universe: %+v", c)
		}
		if !seen[shape] {
			seen[shape] = true
			nshape++
		}
		h := heightOf[shape]
		prefix := bytesOf(c.P)
		if c.Proto == "from" {
			o.walkFrom(n, s, h, rootOf(h), cA.Hash, idA, prefix, c.K, len(c.M), c.Pages)
			if ci%16 == 0 { // the decoy contract under the same root: a fixed full map
				o.walkFrom(n, s, h, rootOf(h), cB.Hash, idB, prefix, c.K, len(univ), nil)
			}
		} else {
			o.walkIndex(n, s, h, true, rootOf(h), cA.Hash, idA, "", prefix, len(c.M), c.Pages)
			if h == tip {
				o.walkIndex(n, s, h, false, util.Uint256{}, cA.Hash, idA, "", prefix, len(c.M), c.Pages)
			}
			if ci%16 == 0 {
				o.walkIndex(n, s, tip, false, util.Uint256{}, cB.Hash, idB, "", prefix, len(univ), nil)
			}
		}
	}
	res.Inc("paging_cases", len(cases))
	res.Inc("paging_shapes", nshape)
	res.Traces++
	if len(cases) > 0 {
		c := cases[0]
		res.Sample(map[string]any{"world": "paging", "case": c, "height": heightOf[func() int { s, _ := shapeOf(c.M); return s }()], "blocks": tip})
	}
	// requests outside the protocol: whatever the answer is, there must BE one (a handler must not die)
	o.malformed(n, srvByCap[100], rootOf(tip), cA.Hash)
	// the EMPTY key: a contract may store one; a walk by `from` cannot pass it (recorded, informational)
	block(g.Tx(sa, cB.Hash, "put", []byte{}, []byte{0xEE}))
	h := n.bc.BlockHeight()
	o.walkFrom(n, srvByCap[1], h, rootOf(h), cB.Hash, idB, []byte{}, 1, len(univ)+1, nil)
	o.walkFrom(n, srvByCap[100], h, rootOf(h), cB.Hash, idB, []byte{}, 50, len(univ)+1, nil)
	o.walkIndex(n, srvByCap[2], h, true, rootOf(h), cB.Hash, idB, "", []byte{}, len(univ)+1, nil)
	o.walkIndex(n, srvByCap[2], h, false, util.Uint256{}, cB.Hash, idB, "", []byte{}, len(univ)+1, nil)
	o.getState(n, srvByCap[2], h, rootOf(h), cB.Hash, idB, []byte{})
	o.getStorage(n, srvByCap[2], h, false, util.Uint256{}, cB.Hash, idB, "", []byte{})
}

// malformed sends requests no client would make and records whether the server answered at all.
func (o *obs) malformed(n *node, s *srv, root util.Uint256, hash util.Uint160) {
	probe := func(class, method string, params ...any) {
		_, e, err := s.raw(method, params...)
		ev := map[string]any{"event": "malformed", "w": o.wi, "node": n.name, "cfg": n.keep, "srv": s.name, "via": "raw", "method": method, "class": class, "answered": err == nil}
		if e != nil {
			ev["code"] = e.Code
		}
		if err != nil {
			ev["err"] = err.Error()
		}
		o.tr.Emit(ev)
		o.res.Count([]any{"malformed", method, class})
	}
	r, c := le256(root, false), le160(hash, false)
	probe("negative-count", "findstates", r, c, b64([]byte{1}), "", -1)
	probe("zero-count", "findstates", r, c, b64([]byte{1}), "", 0)
	probe("huge-count", "findstates", r, c, b64([]byte{1}), "", 1<<31-1)
	probe("from-outside-prefix", "findstates", r, c, b64([]byte{1}), b64([]byte{2}), 2)
	probe("negative-start", "findstorage", c, b64([]byte{1}), -1)
	probe("negative-start", "findstoragehistoric", r, c, b64([]byte{1}), -3)
	probe("huge-start", "findstorage", c, b64([]byte{1}), 1<<31-1)
	probe("bad-base64", "getstate", r, c, "***")
	probe("short-root", "getstate", "0x1234", c, b64([]byte{1}))
	probe("no-params", "findstates")
	probe("no-params", "getproof")
	probe("garbage-proof", "verifyproof", r, b64([]byte{0xff, 0xff, 0xff, 0xff, 0xff}))
	probe("garbage-proof", "verifyproof", r, hex.EncodeToString([]byte{1, 2, 3}))
	probe("negative-height", "invokefunctionhistoric", -1, c, "get", []any{})
	probe("future-height", "invokefunctionhistoric", 1<<30, c, "get", []any{})
	probe("negative-height", "getstateroot", -1)
	probe("empty-tx", "calculatenetworkfee", "")
	probe("empty-tx", "sendrawtransaction", "")
}
