// Driver for C18 (partial: parallel multi-signature check, Merkle root, VM integer codec).
//
//	multisig_test.go  part (a)  TLC delivery orders replayed on vm.CheckMultisigPar through the gate hook
//	this file         part (b)  root terms printed by Merkle.tla evaluated with SHA-256 and compared with the code
//	                  part (c)  cases printed by IntCodecMC.tla compared with pkg/encoding/bigint, and a trace
//	                            of real codec outputs for IntCodecTrace.tla
package c18crypto

import (
	"bytes"
	"crypto/sha256"
	"fmt"
	"math/big"
	"math/rand"
	"slices"
	"sort"
	"strconv"
	"testing"

	"verifharness/internal/vh"

	"github.com/nspcc-dev/neo-go/pkg/core/block"
	"github.com/nspcc-dev/neo-go/pkg/core/transaction"
	"github.com/nspcc-dev/neo-go/pkg/crypto/hash"
	"github.com/nspcc-dev/neo-go/pkg/encoding/bigint"
	"github.com/nspcc-dev/neo-go/pkg/io"
	"github.com/nspcc-dev/neo-go/pkg/util"
	"github.com/nspcc-dev/neo-go/pkg/vm"
	"github.com/nspcc-dev/neo-go/pkg/vm/emit"
	"github.com/nspcc-dev/neo-go/pkg/vm/opcode"
	"github.com/nspcc-dev/neo-go/pkg/vm/stackitem"
)

// guard runs f and turns a panic into a violation (a panic escaping these pure APIs on well-formed input).
func guard(res *vh.Result, part, site string, replay any, f func()) (ok bool) {
	defer func() {
		if r := recover(); r != nil {
			res.Violate(map[string]any{"part": part, "kind": "panic", "site": site},
				fmt.Sprintf("Go panic escaped %s: %v", site, r), replay)
			ok = false
		}
	}()
	f()
	return true
}

// ------------------------------------------------------------------ Merkle

type merkleCase struct {
	Len  int    `json:"len"`
	Root string `json:"root"`
}

// evalTerm evaluates a root term "(a,b)" / "i" of Merkle.tla: leaf i is leaves[i-1], (a,b) is
// SHA256(SHA256(a || b)) computed with crypto/sha256 directly.
func evalTerm(s string, pos *int, leaves [][32]byte) ([32]byte, error) {
	if *pos >= len(s) {
		return [32]byte{}, fmt.Errorf("unexpected end of term")
	}
	if s[*pos] == '(' {
		*pos++
		l, err := evalTerm(s, pos, leaves)
		if err != nil {
			return l, err
		}
		if *pos >= len(s) || s[*pos] != ',' {
			return l, fmt.Errorf("',' expected at %d", *pos)
		}
		*pos++
		r, err := evalTerm(s, pos, leaves)
		if err != nil {
			return r, err
		}
		if *pos >= len(s) || s[*pos] != ')' {
			return r, fmt.Errorf("')' expected at %d", *pos)
		}
		*pos++
		var buf [64]byte
		copy(buf[:], l[:])
		copy(buf[32:], r[:])
		h1 := sha256.Sum256(buf[:])
		return sha256.Sum256(h1[:]), nil
	}
	st := *pos
	for *pos < len(s) && s[*pos] >= '0' && s[*pos] <= '9' {
		*pos++
	}
	i, err := strconv.Atoi(s[st:*pos])
	if err != nil || i < 1 || i > len(leaves) {
		return [32]byte{}, fmt.Errorf("bad leaf %q", s[st:*pos])
	}
	return leaves[i-1], nil
}

func toU256(l [][32]byte) []util.Uint256 {
	r := make([]util.Uint256, len(l))
	for i := range l {
		r[i] = util.Uint256(l[i])
	}
	return r
}

func runMerkle(t *testing.T, res *vh.Result) {
	var cases []merkleCase
	if err := vh.ReadJSON("merkle_cases.json", &cases); err != nil {
		t.Logf("no merkle cases: %v", err)
		return
	}
	r := vh.Rand(182)
	variants := vh.EnvInt("VERIF_MERKLE_VARIANTS", 4)
	for _, c := range cases {
		if c.Len == 0 {
			// no root is defined for the empty list; the conventions are recorded, only a panic is judged
			guard(res, "merkle", "hash.CalcMerkleRoot(empty)", nil, func() {
				z := hash.CalcMerkleRoot([]util.Uint256{})
				res.Inc("merkle_empty_is_zero", map[bool]int{true: 1, false: 0}[z.Equals(util.Uint256{})])
			})
			guard(res, "merkle", "hash.NewMerkleTree(empty)", nil, func() {
				_, err := hash.NewMerkleTree([]util.Uint256{})
				res.Inc("merkle_empty_tree_is_error", map[bool]int{true: 1, false: 0}[err != nil])
			})
			guard(res, "merkle", "block.ComputeMerkleRoot(empty)", nil, func() {
				b := &block.Block{}
				b.RebuildMerkleRoot()
			})
			continue
		}
		for v := 0; v < variants+1; v++ {
			leaves := make([][32]byte, c.Len)
			var blk *block.Block
			kind := ""
			switch {
			case v == 0: // hashes of real transactions, through the block API
				kind = "block"
				blk = &block.Block{}
				for i := range leaves {
					tx := transaction.New([]byte{byte(opcode.PUSH1), byte(opcode.RET)}, int64(r.Intn(1000)))
					tx.Nonce = r.Uint32()
					tx.Signers = []transaction.Signer{{Account: util.Uint160{byte(i), byte(i >> 8)}, Scopes: transaction.CalledByEntry}}
					tx.Scripts = []transaction.Witness{{}}
					blk.Transactions = append(blk.Transactions, tx)
					leaves[i] = [32]byte(tx.Hash())
				}
			case v == 1:
				kind = "random"
				for i := range leaves {
					r.Read(leaves[i][:])
				}
			case v == 2: // all leaves equal
				kind = "equal"
				var x [32]byte
				r.Read(x[:])
				for i := range leaves {
					leaves[i] = x
				}
			case v == 3: // the last leaf repeats its neighbour (the shape a duplicated odd element imitates)
				kind = "dup-last"
				for i := range leaves {
					r.Read(leaves[i][:])
				}
				if c.Len >= 2 {
					leaves[c.Len-1] = leaves[c.Len-2]
				}
			default:
				kind = "random"
				for i := range leaves {
					r.Read(leaves[i][:])
					if i > 0 && r.Intn(4) == 0 {
						leaves[i] = leaves[r.Intn(i)]
					}
				}
			}
			pos := 0
			want, err := evalTerm(c.Root, &pos, leaves)
			if err != nil || pos != len(c.Root) {
				t.Fatalf("bad root term for len %d: %v", c.Len, err)
			}
			check := func(site string, got util.Uint256) {
				res.Count([]any{"merkle", site, c.Len, kind, v})
				if !bytes.Equal(got.BytesBE(), want[:]) {
					res.Violate(map[string]any{"part": "merkle", "kind": "root-differs-from-definition", "site": site},
						fmt.Sprintf("%s over %d hashes differs from the recursive pairwise double-SHA256 root", site, c.Len),
						map[string]any{"len": c.Len, "leaves_kind": kind, "term": c.Root, "got": got.StringBE(),
							"want": util.Uint256(want).StringBE(), "leaves": hexLeaves(leaves)})
				}
			}
			rep := map[string]any{"len": c.Len, "leaves_kind": kind}
			guard(res, "merkle", "hash.CalcMerkleRoot", rep, func() { check("hash.CalcMerkleRoot", hash.CalcMerkleRoot(toU256(leaves))) })
			guard(res, "merkle", "hash.NewMerkleTree", rep, func() {
				mt, err := hash.NewMerkleTree(toU256(leaves))
				if err != nil {
					res.Violate(map[string]any{"part": "merkle", "kind": "tree-error", "site": "hash.NewMerkleTree"},
						fmt.Sprintf("NewMerkleTree failed on %d hashes: %v", c.Len, err), rep)
					return
				}
				check("hash.NewMerkleTree.Root", mt.Root())
			})
			if blk != nil {
				guard(res, "merkle", "block.ComputeMerkleRoot", rep, func() {
					check("block.ComputeMerkleRoot", blk.ComputeMerkleRoot())
					blk.RebuildMerkleRoot()
					check("block.RebuildMerkleRoot", blk.MerkleRoot)
					check("block.ComputeMerkleRoot(second call)", blk.ComputeMerkleRoot())
				})
			}
			if v == 1 && c.Len == 5 {
				res.Sample(map[string]any{"part": "merkle", "len": c.Len, "term": c.Root, "root": util.Uint256(want).StringBE()})
			}
		}
	}
	res.Inc("merkle_lengths", len(cases))
}

func hexLeaves(l [][32]byte) []string {
	var r []string
	for i := range l {
		if i >= 40 {
			break
		}
		r = append(r, util.Uint256(l[i]).StringBE())
	}
	return r
}

// ------------------------------------------------------------------ integer codec

type intCase struct {
	Neg bool  `json:"neg"`
	Mag []int `json:"mag"` // little-endian base-256 magnitude
	Enc []int `json:"enc"` // the specified encoding
}

func toBig(neg bool, mag []int) *big.Int {
	be := make([]byte, len(mag))
	for i, d := range mag {
		be[len(mag)-1-i] = byte(d)
	}
	x := new(big.Int).SetBytes(be)
	if neg {
		x.Neg(x)
	}
	return x
}

func ints(b []byte) []int {
	r := make([]int, len(b))
	for i := range b {
		r[i] = int(b[i])
	}
	return r
}

func toBytes(l []int) []byte {
	r := make([]byte, len(l))
	for i := range l {
		r[i] = byte(l[i])
	}
	return r
}

// signMag reads a big.Int back as the record used by the specification.
func signMag(x *big.Int) map[string]any {
	be := x.Bytes()
	slices.Reverse(be)
	return map[string]any{"neg": x.Sign() < 0, "mag": ints(be)}
}

func fitsVM(x *big.Int) bool {
	lim := new(big.Int).Lsh(big.NewInt(1), 255)
	return x.Cmp(lim) < 0 && x.Cmp(new(big.Int).Neg(lim)) >= 0
}

func pad(b []byte, neg bool, p int) []byte {
	r := bytes.Clone(b)
	for i := 0; i < p; i++ {
		if neg {
			r = append(r, 0xff)
		} else {
			r = append(r, 0)
		}
	}
	if r == nil {
		r = []byte{}
	}
	return r
}

type intRun struct {
	res *vh.Result
	tr  *vh.Trace
	vmN int
}

// observeInt records what the real encoder does with x.  The code under test only ever sees private copies
// of x: ToPreallocatedBytes works on the argument's words in place, and a copy it left damaged must not be
// touched again by the harness (only its raw words are compared).
func (ir *intRun) observeInt(x *big.Int, src string) (out []byte, ok bool) {
	rep := map[string]any{"x": x.String(), "src": src}
	ok = guard(ir.res, "intcodec", "bigint.ToBytes", rep, func() {
		same := true
		arg := func() *big.Int {
			c := new(big.Int).Set(x)
			return c
		}
		intact := func(c *big.Int) {
			same = same && c.Sign() == x.Sign() && slices.Equal(c.Bits(), x.Bits())
		}
		c1 := arg()
		out = bigint.ToBytes(c1)
		intact(c1)
		c2 := arg()
		pre := bigint.ToPreallocatedBytes(c2, make([]byte, 0, 4))
		intact(c2)
		c3 := arg()
		pre2 := bigint.ToPreallocatedBytes(c3, make([]byte, 40))
		intact(c3)
		if !bytes.Equal(pre, pre2) {
			pre = pre2 // report the one that differs from ToBytes, if any
		}
		ev := map[string]any{"event": "int", "src": src, "out": ints(out), "pre": ints(pre), "hasitem": false, "item": []int{}}
		if fitsVM(x) {
			c4 := arg()
			ev["hasitem"] = true
			ev["item"] = ints(stackitem.NewBigInteger(c4).Bytes())
			intact(c4)
		}
		back := bigint.FromBytes(pad(out, false, 0))
		ev["back"] = signMag(back)
		ev["same"] = same
		ev["x"] = signMag(x)
		ir.tr.Emit(ev)
		ir.res.Count([]any{"int", x.String()})
	})
	return out, ok
}

// observeBytes records what the real decoder does with an arbitrary (possibly non-minimal) string.
func (ir *intRun) observeBytes(b []byte, src string) (v *big.Int, re []byte, ok bool) {
	rep := map[string]any{"bytes": fmt.Sprintf("%x", b), "src": src}
	ok = guard(ir.res, "intcodec", "bigint.FromBytes", rep, func() {
		in := bytes.Clone(b)
		if in == nil {
			in = []byte{}
		}
		v = bigint.FromBytes(in)
		re = bigint.ToBytes(new(big.Int).Set(v)) // on a copy: the encoder works on its argument's words in place
		ir.tr.Emit(map[string]any{"event": "bytes", "src": src, "b": ints(b), "v": signMag(v), "re": ints(re)})
		ir.res.Count([]any{"bytes", fmt.Sprintf("%x", b)})
	})
	if ok && len(b) >= 1 && len(b) <= 32 && ir.vmN > 0 {
		ir.vmN--
		ir.observeVM(b, src)
	}
	return
}

// observeVM: the string as a PUSHDATA operand converted to Integer (and back to a byte string) by the real VM,
// and the value pushed by the script emit.BigInt produces.
func (ir *intRun) observeVM(b []byte, src string) {
	run := func(how string, script []byte, operand []byte) {
		guard(ir.res, "intcodec", "vm:"+how, map[string]any{"script": fmt.Sprintf("%x", script)}, func() {
			v := vm.New()
			v.Load(script)
			if err := v.Run(); err != nil || v.Estack().Len() != 1 {
				ir.res.Inc("int_vm_faults", 1)
				return
			}
			it := v.Estack().Pop().Item()
			var out []byte
			switch x := it.(type) {
			case *stackitem.BigInteger:
				out = x.Bytes()
			case *stackitem.ByteArray:
				out = x.Value().([]byte)
			default:
				ir.res.Inc("int_vm_faults", 1)
				return
			}
			ir.tr.Emit(map[string]any{"event": "vm", "how": how, "src": src, "b": ints(operand), "out": ints(out)})
			ir.res.Count([]any{"vm", how, fmt.Sprintf("%x", operand)})
		})
	}
	conv := func(types ...stackitem.Type) []byte {
		w := io.NewBufBinWriter()
		emit.Bytes(w.BinWriter, b)
		for _, ty := range types {
			emit.Opcodes(w.BinWriter, opcode.CONVERT)
			w.BinWriter.WriteB(byte(ty))
		}
		return w.Bytes()
	}
	run("PUSHDATA;CONVERT Integer", conv(stackitem.IntegerT), b)
	run("PUSHDATA;CONVERT Integer;CONVERT ByteString", conv(stackitem.IntegerT, stackitem.ByteArrayT), b)
	// the canonical push of the same value
	x := bigint.FromBytes(bytes.Clone(b))
	w2 := io.NewBufBinWriter()
	emit.BigInt(w2.BinWriter, x)
	if w2.Err == nil {
		sc := w2.Bytes()
		if op := opcode.Opcode(sc[0]); op >= opcode.PUSHINT8 && op <= opcode.PUSHINT256 {
			run("emit.BigInt", sc, sc[1:])
		}
	}
}

func runIntCodec(t *testing.T, res *vh.Result) {
	tr := vh.NewTrace("int_trace.ndjson")
	defer tr.Close()
	ir := &intRun{res: res, tr: tr, vmN: vh.EnvInt("VERIF_INT_VM", 600)}
	var cases []intCase
	if err := vh.ReadJSON("int_cases.json", &cases); err != nil {
		t.Logf("no integer cases: %v", err)
	}
	r := vh.Rand(183)
	differs := func(site, class string, c intCase, got any) {
		res.Violate(map[string]any{"part": "intcodec", "kind": "differs-from-specification", "site": site, "class": class},
			fmt.Sprintf("%s disagrees with IntCodec.tla", site),
			map[string]any{"x": toBig(c.Neg, c.Mag).String(), "specified_encoding": c.Enc, "got": got})
	}
	// spec -> code: the specified encoding of every boundary value
	for i, c := range cases {
		x := toBig(c.Neg, c.Mag)
		enc := toBytes(c.Enc)
		class := "positive"
		if c.Neg {
			class = "negative"
		}
		out, ok := ir.observeInt(x, fmt.Sprintf("tlc-%d", i))
		if !ok {
			continue
		}
		if !bytes.Equal(out, enc) {
			differs("bigint.ToBytes", class, c, ints(out))
		}
		for _, p := range []int{0, 1, 2, 3, 7, 8, 9, 33 - len(enc), 40 - len(enc)} {
			if p < 0 {
				continue
			}
			b := pad(enc, c.Neg, p)
			v, re, ok := ir.observeBytes(b, fmt.Sprintf("tlc-%d-pad%d", i, p))
			if !ok {
				continue
			}
			if v.Cmp(x) != 0 {
				differs("bigint.FromBytes", class+"-pad", c, map[string]any{"input": ints(b), "decoded": v.String()})
			}
			if !bytes.Equal(re, enc) {
				differs("bigint.ToBytes(FromBytes(non-minimal))", class+"-pad", c, map[string]any{"input": ints(b), "re": ints(re)})
			}
		}
		if i == 333 {
			res.Sample(map[string]any{"part": "intcodec", "x": x.String(), "specified_encoding": c.Enc, "ToBytes": ints(out)})
		}
	}
	res.Inc("int_tlc_cases", len(cases))
	// code -> spec: random values and strings of every length, judged by IntCodecTrace.tla
	nr := vh.EnvInt("VERIF_INT_RANDOM", 1500)
	for i := 0; i < nr; i++ {
		l := r.Intn(41)
		b := make([]byte, l)
		r.Read(b)
		switch r.Intn(6) {
		case 0: // long sign extension
			if l > 0 {
				neg := b[l-1]&0x80 != 0
				cut := r.Intn(l)
				for j := cut; j < l; j++ {
					if neg {
						b[j] = 0xff
					} else {
						b[j] = 0
					}
				}
			}
		case 1: // runs of 0x00 / 0xff / 0x80 / 0x7f inside
			for j := range b {
				b[j] = []byte{0, 0xff, 0x80, 0x7f, 1, 0xfe}[r.Intn(6)]
			}
		}
		v, _, ok := ir.observeBytes(b, fmt.Sprintf("rnd-%d", i))
		if ok {
			ir.observeInt(v, fmt.Sprintf("rnd-%d", i))
			ir.observeInt(new(big.Int).Neg(v), fmt.Sprintf("rnd-%d-neg", i))
		}
	}
	res.Inc("int_random_strings", nr)
}

func TestDriver(t *testing.T) {
	res := vh.NewResult()
	parts := map[string]bool{}
	for _, p := range []string{"multisig", "merkle", "intcodec"} {
		parts[p] = vh.EnvInt("VERIF_PART_"+p, 1) == 1
	}
	if parts["merkle"] {
		runMerkle(t, res)
	}
	if parts["intcodec"] {
		runIntCodec(t, res)
	}
	if parts["multisig"] {
		runMultisig(t, res)
	}
	sort.Strings(res.Distinct)
	if err := res.Write(); err != nil {
		t.Fatal(err)
	}
}

var _ = rand.Int
