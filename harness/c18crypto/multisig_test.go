package c18crypto

// C18 part (a): the parallel multi-signature checker vm.CheckMultisigPar, stepped through the hook
// vm.VerifMultisigGate.  Every run happens inside a testing/synctest bubble: synctest.Wait() returns
// exactly when every goroutine of the checker is durably blocked (main loop on the result channel,
// idle workers on the task channel, busy workers at the gate), so the harness releases ONE result at
// a time in the order chosen by TLC, and a run that can make no further progress with nothing left to
// release is a genuine hang (no sleeps, no wall clock).

import (
	"bytes"
	"crypto/elliptic"
	"crypto/sha256"
	"fmt"
	"math/rand"
	"strings"
	"sync"
	"sync/atomic"
	"testing"
	"testing/synctest"

	"verifharness/internal/vh"

	"github.com/nspcc-dev/neo-go/pkg/core"
	"github.com/nspcc-dev/neo-go/pkg/core/interop/interopnames"
	"github.com/nspcc-dev/neo-go/pkg/core/transaction"
	"github.com/nspcc-dev/neo-go/pkg/crypto/hash"
	"github.com/nspcc-dev/neo-go/pkg/crypto/keys"
	"github.com/nspcc-dev/neo-go/pkg/io"
	"github.com/nspcc-dev/neo-go/pkg/neotest/chain"
	"github.com/nspcc-dev/neo-go/pkg/smartcontract/callflag"
	"github.com/nspcc-dev/neo-go/pkg/smartcontract/trigger"
	"github.com/nspcc-dev/neo-go/pkg/util"
	"github.com/nspcc-dev/neo-go/pkg/vm"
	"github.com/nspcc-dev/neo-go/pkg/vm/emit"
	"github.com/nspcc-dev/neo-go/pkg/vm/opcode"
)

// ---- cases produced by TLC (MultisigSched.tla) ----

type obsTask struct {
	Sig int  `json:"sig"`
	Key int  `json:"key"`
	On  bool `json:"on"`
}

type obsRec struct {
	Status string  `json:"status"`
	F      obsTask `json:"F"`
	B      obsTask `json:"B"`
}

type msCase struct {
	N      int      `json:"n"`
	V      [][]bool `json:"V"`
	Sched  []string `json:"sched"`
	Obs    []obsRec `json:"obs"`
	Answer bool     `json:"answer"`
	Expect bool     `json:"expect"`
}

// ---- the gate ----

type gtask struct {
	signum int
	pub    *keys.PublicKey
	rel    chan struct{}
	dir    string
}

type gate struct {
	mu      sync.Mutex
	m       int
	block   bool
	pending []*gtask
	bad     bool // a worker was handed a signature index outside 0..m-1 (it would panic in sigs[signum])
}

var curGate atomic.Pointer[gate]

func installHook() {
	vm.VerifMultisigGate = func(signum int, pub *keys.PublicKey) {
		g := curGate.Load()
		if g == nil {
			return
		}
		g.mu.Lock()
		if signum < 0 || signum >= g.m {
			g.bad = true
			g.mu.Unlock()
			<-make(chan struct{}) // keep the worker from indexing out of range (it would kill the process)
		}
		if !g.block {
			g.mu.Unlock()
			return
		}
		t := &gtask{signum: signum, pub: pub, rel: make(chan struct{})}
		g.pending = append(g.pending, t)
		g.mu.Unlock()
		<-t.rel
	}
}

type runOut struct {
	Returned bool
	Answer   bool
	Panic    string
	BadIndex bool
	Sched    []string
	Obs      []obsRec
	Drift    string
}

// bubble runs f inside a synctest bubble; a bubble left with goroutines blocked for ever (hung checker)
// makes synctest panic when f returns: that panic is expected in this case and swallowed here.
func bubble(t *testing.T, f func()) {
	defer func() {
		if r := recover(); r != nil {
			if !strings.Contains(fmt.Sprint(r), "deadlock") {
				panic(r)
			}
		}
	}()
	synctest.Test(t, func(*testing.T) { f() })
}

func keyLabel(pkeys [][]byte, pub []byte) int {
	for i, k := range pkeys {
		if bytes.Equal(k, pub) {
			return i
		}
	}
	return -1
}

// call starts fn (a call of the checker) in its own goroutine and reports its outcome into out.
func call(mu *sync.Mutex, out *runOut, fn func() bool) {
	go func() {
		defer func() {
			if r := recover(); r != nil {
				mu.Lock()
				out.Panic = fmt.Sprint(r)
				mu.Unlock()
			}
		}()
		a := fn()
		mu.Lock()
		out.Returned, out.Answer = true, a
		mu.Unlock()
	}()
}

// runGated delivers the results in the order sched (directions "F"/"B": the task working from the front /
// from the back of the lists); directions not in flight are skipped; when sched is exhausted the order
// continues with `more`.
func runGated(t *testing.T, pkeys, sigs [][]byte, h []byte, sched []string, more func() string) runOut {
	var out runOut
	n, m := len(pkeys), len(sigs)
	bubble(t, func() {
		g := &gate{m: m, block: true}
		curGate.Store(g)
		defer curGate.Store(nil)
		call(&g.mu, &out, func() bool { return vm.CheckMultisigPar(elliptic.P256(), h, pkeys, sigs) })
		slot := map[string]*gtask{}
		last := ""
		si := 0
		for step := 0; ; step++ {
			synctest.Wait()
			g.mu.Lock()
			var fresh []*gtask
			for _, p := range g.pending {
				if p.dir == "" {
					fresh = append(fresh, p)
				}
			}
			if step == 0 {
				// the two initial tasks: (sig 0, key 0) forwards, (sig m-1, key n-1) backwards
				for _, p := range fresh {
					switch {
					case p.signum == 0 && slot["F"] == nil && bytes.Equal(p.pub.Bytes(), pkeys[0]):
						p.dir = "F"
					case p.signum == m-1 && slot["B"] == nil && bytes.Equal(p.pub.Bytes(), pkeys[n-1]):
						p.dir = "B"
					case slot["F"] == nil:
						p.dir, out.Drift = "F", "unexpected initial task"
					case slot["B"] == nil:
						p.dir, out.Drift = "B", "unexpected initial task"
					default:
						out.Drift = "more than two initial tasks"
						continue
					}
					slot[p.dir] = p
				}
			} else {
				for i, p := range fresh {
					d := last
					if i > 0 || slot[d] != nil {
						out.Drift = "more than one new task after a delivery"
						d = map[string]string{"F": "B", "B": "F"}[last]
						if slot[d] != nil {
							continue
						}
					}
					p.dir = d
					slot[d] = p
				}
			}
			st := "recv"
			if out.Returned {
				st = "done"
			}
			o := obsRec{Status: st}
			if p := slot["F"]; p != nil {
				o.F = obsTask{Sig: p.signum, Key: keyLabel(pkeys, p.pub.Bytes()), On: true}
			}
			if p := slot["B"]; p != nil {
				o.B = obsTask{Sig: p.signum, Key: keyLabel(pkeys, p.pub.Bytes()), On: true}
			}
			out.Obs = append(out.Obs, o)
			out.BadIndex = g.bad
			stop := out.Returned || out.Panic != "" || g.bad
			g.mu.Unlock()
			if stop || (slot["F"] == nil && slot["B"] == nil) || step > 6*(n+m)+20 {
				break // returned, or nothing left to release: every goroutine of the checker is blocked
			}
			d := ""
			for d == "" {
				var c string
				if si < len(sched) {
					c = sched[si]
					si++
				} else {
					c = more()
				}
				if slot[c] != nil {
					d = c
				}
			}
			p := slot[d]
			slot[d] = nil
			g.mu.Lock()
			for i, q := range g.pending {
				if q == p {
					g.pending = append(g.pending[:i], g.pending[i+1:]...)
					break
				}
			}
			g.mu.Unlock()
			out.Sched = append(out.Sched, d)
			last = d
			close(p.rel)
		}
		// let the remaining workers go (they deliver into the buffered channel and exit on close(tasks))
		g.mu.Lock()
		g.block = false
		for _, p := range g.pending {
			close(p.rel)
		}
		g.pending = nil
		g.mu.Unlock()
		synctest.Wait()
	})
	return out
}

// runFree lets the Go scheduler order the workers (the gate only guards the index range).
func runFree(t *testing.T, m int, fn func() bool) runOut {
	var out runOut
	bubble(t, func() {
		g := &gate{m: m, block: false}
		curGate.Store(g)
		defer curGate.Store(nil)
		call(&g.mu, &out, fn)
		synctest.Wait()
		g.mu.Lock()
		out.BadIndex = g.bad
		g.mu.Unlock()
	})
	return out
}

// ---- realisation of a validity matrix with real keys and signatures ----

type msWorld struct {
	privs   []*keys.PrivateKey
	pubs    [][]byte
	bc      *core.Blockchain
	net     uint32
	tx      *transaction.Transaction
	h       util.Uint256
	h2      util.Uint256
	sigs    map[int][]byte  // valid signature of h per key
	verify  map[string]bool // cache of real Verify results
	nver    int
	sampled int
}

func newWorld(t *testing.T, r *rand.Rand) *msWorld {
	w := &msWorld{sigs: map[int][]byte{}, verify: map[string]bool{}}
	for len(w.privs) < 24 {
		b := make([]byte, 32)
		r.Read(b)
		p, err := keys.NewPrivateKeyFromBytes(b)
		if err != nil {
			continue
		}
		w.privs = append(w.privs, p)
		w.pubs = append(w.pubs, p.PublicKey().Bytes())
	}
	bc, _ := chain.NewSingle(t)
	w.bc = bc
	w.net = uint32(bc.GetConfig().Magic)
	w.newMessage(r)
	return w
}

func (w *msWorld) newMessage(r *rand.Rand) {
	tx := transaction.New([]byte{byte(opcode.PUSH1), byte(opcode.RET)}, 0)
	tx.Nonce = r.Uint32()
	tx.ValidUntilBlock = 100
	tx.Signers = []transaction.Signer{{Account: util.Uint160{1, 2, 3}, Scopes: transaction.CalledByEntry}}
	tx.Scripts = []transaction.Witness{{}}
	w.tx = tx
	w.h = hash.NetSha256(w.net, tx)
	w.h2 = sha256.Sum256(w.h[:])
	w.sigs = map[int][]byte{}
	w.verify = map[string]bool{}
}

func (w *msWorld) sig(k int) []byte {
	if s, ok := w.sigs[k]; ok {
		return s
	}
	s := w.privs[k].SignHash(w.h)
	w.sigs[k] = s
	return s
}

// realise builds key and signature lists whose validity matrix should be V (if V is realisable: the
// true entries of a row are exactly the columns of one key value).
func (w *msWorld) realise(V [][]bool, n int, r *rand.Rand, allowOddLen bool) (pkeys, sigs [][]byte, ok bool) {
	m := len(V)
	perm := r.Perm(len(w.privs))
	next := 0
	fresh := func() int { k := perm[next]; next++; return k }
	colKey := make([]int, n)
	pat := map[string]int{}
	var shared = -1
	for k := 0; k < n; k++ {
		var sb strings.Builder
		any := false
		for s := 0; s < m; s++ {
			if V[s][k] {
				sb.WriteByte('1')
				any = true
			} else {
				sb.WriteByte('0')
			}
		}
		if !any {
			// a key that signed nothing: a new key, or a repetition of another such key
			if shared >= 0 && r.Intn(2) == 0 {
				colKey[k] = shared
			} else {
				colKey[k] = fresh()
				shared = colKey[k]
			}
			continue
		}
		id, seen := pat[sb.String()]
		if !seen {
			id = fresh()
			pat[sb.String()] = id
		}
		colKey[k] = id
	}
	unused := fresh()
	pkeys = make([][]byte, n)
	for k := range pkeys {
		pkeys[k] = w.pubs[colKey[k]]
	}
	sigs = make([][]byte, m)
	for s := 0; s < m; s++ {
		signer := -1
		for k := 0; k < n; k++ {
			if V[s][k] {
				if signer >= 0 && signer != colKey[k] {
					return nil, nil, false // not realisable
				}
				signer = colKey[k]
			}
		}
		if signer >= 0 {
			for k := 0; k < n; k++ {
				if colKey[k] == signer && !V[s][k] {
					return nil, nil, false
				}
			}
			sigs[s] = w.sig(signer)
			continue
		}
		// an invalid signature, of several kinds
		kinds := 4
		if allowOddLen {
			kinds = 6
		}
		switch r.Intn(kinds) {
		case 0: // a good signature of a key that is not in the list
			sigs[s] = w.sig(unused)
		case 1: // a listed key's signature of another message
			sigs[s] = w.privs[colKey[r.Intn(n)]].SignHash(w.h2)
		case 2: // a listed key's signature with one bit flipped
			b := bytes.Clone(w.sig(colKey[r.Intn(n)]))
			b[r.Intn(len(b))] ^= 1 << uint(r.Intn(8))
			sigs[s] = b
		case 3:
			sigs[s] = make([]byte, keys.SignatureLen)
		case 4:
			sigs[s] = bytes.Clone(w.sig(colKey[r.Intn(n)]))[:keys.SignatureLen-1]
		case 5:
			sigs[s] = []byte{}
		}
	}
	return pkeys, sigs, true
}

// measure computes the validity matrix with real PublicKey.Verify calls.
func (w *msWorld) measure(pkeys, sigs [][]byte) [][]bool {
	V := make([][]bool, len(sigs))
	for s := range sigs {
		V[s] = make([]bool, len(pkeys))
		for k := range pkeys {
			ck := string(sigs[s]) + "|" + string(pkeys[k])
			v, ok := w.verify[ck]
			if !ok {
				pub, err := keys.NewPublicKeyFromBytes(pkeys[k], elliptic.P256())
				if err != nil {
					panic(err)
				}
				v = pub.Verify(sigs[s], w.h[:])
				w.verify[ck] = v
				w.nver++
			}
			V[s][k] = v
		}
	}
	return V
}

// orderedMatch is the sequential definition, used only for the driver's own bookkeeping (samples,
// stratification); the verdict is TLC's (MultisigTrace.tla).
func orderedMatch(V [][]bool, n int) bool {
	k := 0
	for s := range V {
		for k < n && !V[s][k] {
			k++
		}
		if k == n {
			return false
		}
		k++
	}
	return true
}

func keyLabels(pkeys [][]byte) []int {
	l := make([]int, len(pkeys))
	for i := range pkeys {
		l[i] = keyLabel(pkeys, pkeys[i])
	}
	return l
}

func eqMatrix(a, b [][]bool) bool {
	if len(a) != len(b) {
		return false
	}
	for i := range a {
		if len(a[i]) != len(b[i]) {
			return false
		}
		for j := range a[i] {
			if a[i][j] != b[i][j] {
				return false
			}
		}
	}
	return true
}

func reverseBoth(V [][]bool) [][]bool {
	m := len(V)
	R := make([][]bool, m)
	for s := range V {
		n := len(V[s])
		R[m-1-s] = make([]bool, n)
		for k := range V[s] {
			R[m-1-s][n-1-k] = V[s][k]
		}
	}
	return R
}

func reverseInts(keys [][]byte) [][]byte {
	r := make([][]byte, len(keys))
	for i := range keys {
		r[len(keys)-1-i] = keys[i]
	}
	return r
}

// runInterop executes  <sigs> m <keys> n SYSCALL System.Crypto.CheckMultisig  on the real VM with a real
// interop context whose container is the signed transaction.  accepted = HALT with true on the stack.
func (w *msWorld) runInterop(t *testing.T, pkeys, sigs [][]byte) (runOut, bool) {
	bw := io.NewBufBinWriter()
	for _, s := range sigs {
		emit.Bytes(bw.BinWriter, s)
	}
	emit.Int(bw.BinWriter, int64(len(sigs)))
	for _, k := range pkeys {
		emit.Bytes(bw.BinWriter, k)
	}
	emit.Int(bw.BinWriter, int64(len(pkeys)))
	emit.Syscall(bw.BinWriter, interopnames.SystemCryptoCheckMultisig)
	script := bw.Bytes()
	ic, err := w.bc.GetTestVM(trigger.Verification, w.tx, nil)
	if err != nil {
		t.Fatalf("GetTestVM: %v", err)
	}
	defer ic.Finalize()
	ic.VM.LoadScriptWithFlags(script, callflag.ReadOnly)
	fault := false
	out := runFree(t, len(sigs), func() bool {
		if err := ic.VM.Run(); err != nil {
			fault = true
			return false
		}
		if ic.VM.Estack().Len() != 1 {
			fault = true
			return false
		}
		return ic.VM.Estack().Pop().Bool()
	})
	return out, fault
}

func emitMs(tr *vh.Trace, mode, src string, n int, V [][]bool, labels []int, o runOut) {
	sched := o.Sched
	if sched == nil {
		sched = []string{}
	}
	obs := o.Obs
	if obs == nil {
		obs = []obsRec{}
	}
	tr.Emit(map[string]any{"event": "msig", "mode": mode, "src": src, "n": n, "V": V, "keys": labels,
		"returned": o.Returned, "answer": o.Answer, "sched": sched, "obs": obs,
		"panic": o.Panic, "badindex": o.BadIndex})
}

// oneCase realises V, measures the real matrix, runs the three modes and records them.
func (w *msWorld) oneCase(t *testing.T, res *vh.Result, tr *vh.Trace, r *rand.Rand, src string, n int, V [][]bool,
	sched []string, predicted []obsRec) {
	direct := r.Intn(4) == 0 // sometimes use signatures of a wrong length (the syscall rejects those up front)
	pkeys, sigs, ok := w.realise(V, n, r, direct)
	if !ok {
		res.Inc("ms_unrealisable", 1)
		return
	}
	real := w.measure(pkeys, sigs)
	if !eqMatrix(real, V) {
		// sign/verify algebra is outside this check: the run is judged against what Verify really says
		res.AddDrift(map[string]any{"part": "multisig", "what": "measured validity matrix differs from the intended one", "src": src})
		res.Inc("ms_matrix_mismatch", 1)
	}
	labels := keyLabels(pkeys)
	m := len(sigs)
	exp := orderedMatch(real, n)
	h := w.h[:]
	report := func(mode string, o runOut) {
		switch {
		case o.Panic != "":
			res.Violate(map[string]any{"part": "multisig", "kind": "panic", "mode": mode},
				fmt.Sprintf("Go panic escaped the multi-signature check: %s", o.Panic),
				map[string]any{"n": n, "V": real, "keys": labels, "sched": o.Sched, "src": src})
		case o.BadIndex:
			res.Violate(map[string]any{"part": "multisig", "kind": "worker-index-out-of-range", "mode": mode},
				"a worker of CheckMultisigPar was handed a signature index outside the list (it would panic in its goroutine)",
				map[string]any{"n": n, "V": real, "keys": labels, "sched": o.Sched, "src": src})
		}
	}
	if m >= 2 {
		o := runGated(t, pkeys, sigs, h, sched, func() string { return []string{"F", "B"}[r.Intn(2)] })
		emitMs(tr, "gated", src, n, real, labels, o)
		report("gated", o)
		res.Count([]any{"ms-gated", n, real, o.Sched})
		res.Inc("ms_gated_runs", 1)
		res.Inc("ms_gated_deliveries", len(o.Sched))
		if o.Drift != "" {
			res.AddDrift(map[string]any{"part": "multisig", "what": o.Drift, "src": src})
			res.Inc("ms_gate_drift", 1)
		}
		if exp {
			res.Inc("ms_accepting_cases", 1)
		}
		if (exp && len(o.Sched) >= 4 && w.sampled&1 == 0) || (!exp && len(o.Sched) >= 4 && w.sampled&2 == 0 && w.sampled&1 == 1) {
			w.sampled |= map[bool]int{true: 1, false: 2}[exp]
			res.Sample(map[string]any{"part": "multisig", "src": src, "n": n, "m": m, "V": real, "key_labels": labels,
				"delivery_order": o.Sched, "answer": o.Answer, "returned": o.Returned, "ordered_match": exp})
		}
		res.Traces++
	}
	o := runFree(t, m, func() bool { return vm.CheckMultisigPar(elliptic.P256(), h, pkeys, sigs) })
	emitMs(tr, "free", src, n, real, labels, o)
	report("free", o)
	res.Count([]any{"ms-free", n, real})
	res.Inc("ms_free_runs", 1)
	allLen := true
	for _, s := range sigs {
		allLen = allLen && len(s) == keys.SignatureLen
	}
	if allLen {
		// the syscall pops the lists from the stack: it sees both of them reversed
		o, fault := w.runInterop(t, pkeys, sigs)
		emitMs(tr, "interop", src, n, reverseBoth(real), keyLabels(reverseInts(pkeys)), o)
		if o.BadIndex {
			report("interop", o)
		}
		if fault {
			res.Inc("ms_interop_faults", 1)
		}
		res.Count([]any{"ms-interop", n, real})
		res.Inc("ms_interop_runs", 1)
	}
}

// randomMatrix: larger universes than TLC enumerates (up to 12 keys / 8 signatures).
func randomMatrix(r *rand.Rand) (int, [][]bool) {
	n := 1 + r.Intn(10)
	if r.Intn(6) == 0 {
		n = 10 + r.Intn(3)
	}
	m := 1 + r.Intn(min(n, 8))
	nk := 1 + r.Intn(n) // number of distinct key values
	key := make([]int, n)
	for i := range key {
		key[i] = 1 + r.Intn(nk)
	}
	sg := make([]int, m)
	// start from an in-order choice of keys (so that accepting matrices are frequent), then disturb it
	pos := r.Perm(n)[:m]
	for i := 1; i < m; i++ { // insertion sort
		for j := i; j > 0 && pos[j-1] > pos[j]; j-- {
			pos[j-1], pos[j] = pos[j], pos[j-1]
		}
	}
	for s := range sg {
		sg[s] = key[pos[s]]
		switch r.Intn(8) {
		case 0:
			sg[s] = 0
		case 1:
			sg[s] = key[r.Intn(n)]
		}
	}
	if r.Intn(4) == 0 && m >= 2 {
		i, j := r.Intn(m), r.Intn(m)
		sg[i], sg[j] = sg[j], sg[i]
	}
	V := make([][]bool, m)
	for s := range V {
		V[s] = make([]bool, n)
		for k := range V[s] {
			V[s][k] = sg[s] != 0 && sg[s] == key[k]
		}
	}
	return n, V
}

func runMultisig(t *testing.T, res *vh.Result) {
	installHook()
	defer func() { vm.VerifMultisigGate = nil }()
	tr := vh.NewTrace("ms_trace.ndjson")
	defer tr.Close()
	r := vh.Rand(181)
	w := newWorld(t, r)
	var cases []msCase
	if vh.InDir() != "" {
		if err := vh.ReadJSON("ms_cases.json", &cases); err != nil {
			t.Logf("no multisig cases: %v", err)
		}
	}
	for i, c := range cases {
		if i%500 == 499 {
			w.newMessage(r)
		}
		w.oneCase(t, res, tr, r, fmt.Sprintf("tlc-%d", i), c.N, c.V, c.Sched, c.Obs)
	}
	res.Inc("ms_tlc_cases", len(cases))
	nr := vh.EnvInt("VERIF_MS_RANDOM", 300)
	for i := 0; i < nr; i++ {
		if i%500 == 499 {
			w.newMessage(r)
		}
		n, V := randomMatrix(r)
		var sched []string
		for j := 0; j < 3*n; j++ {
			sched = append(sched, []string{"F", "B"}[r.Intn(2)])
		}
		if r.Intn(5) == 0 { // one-sided orders: one direction starved as long as possible
			d := []string{"F", "B"}[r.Intn(2)]
			for j := range sched {
				sched[j] = d
			}
		}
		w.oneCase(t, res, tr, r, fmt.Sprintf("rnd-%d", i), n, V, sched, nil)
	}
	res.Inc("ms_random_cases", nr)
	res.Inc("ms_real_verify_calls", w.nver)
}
