package c03statesvc

import (
	"crypto/elliptic"

	"github.com/nspcc-dev/neo-go/pkg/core/state"
	"github.com/nspcc-dev/neo-go/pkg/core/transaction"
	"github.com/nspcc-dev/neo-go/pkg/crypto/keys"
	"github.com/nspcc-dev/neo-go/pkg/io"
	"github.com/nspcc-dev/neo-go/pkg/network/payload"
	"github.com/nspcc-dev/neo-go/pkg/services/stateroot"
	"github.com/nspcc-dev/neo-go/pkg/smartcontract"
	"github.com/nspcc-dev/neo-go/pkg/smartcontract/scparser"
	"github.com/nspcc-dev/neo-go/pkg/vm/emit"
	"github.com/nspcc-dev/neo-go/pkg/vm/opcode"
)

// ---- crafting (what a peer - honest or not - can put on the wire) ----

func (w *world) magic() uint32 { return uint32(w.net.Magic) }

func (w *world) sign(k int, r *state.MPTRoot) []byte {
	return w.keys[k].SignHashable(w.magic(), r)
}

// ext wraps a state service message into an extensible payload signed by key `from` (the service itself never looks at
// the envelope: network.Server's extensible pool did).
func (w *world) ext(from int, start, end uint32, data []byte) *payload.Extensible {
	k := w.keys[from]
	e := &payload.Extensible{Category: stateroot.Category, ValidBlockStart: start, ValidBlockEnd: end,
		Sender: k.GetScriptHash(), Data: data,
		Witness: transaction.Witness{VerificationScript: k.PublicKey().GetVerificationScript()}}
	buf := io.NewBufBinWriter()
	emit.Bytes(buf.BinWriter, k.SignHashable(w.magic(), e))
	e.Witness.InvocationScript = buf.Bytes()
	return e
}

func (w *world) voteMsg(from int, h uint32, idx int32, sig []byte) *payload.Extensible {
	bw := io.NewBufBinWriter()
	stateroot.NewMessage(stateroot.VoteT, &stateroot.Vote{ValidatorIndex: idx, Height: h, Signature: sig}).EncodeBinary(bw.BinWriter)
	return w.ext(from, h, h+10, bw.Bytes())
}

func (w *world) rootMsg(from int, r *state.MPTRoot) *payload.Extensible {
	bw := io.NewBufBinWriter()
	stateroot.NewMessage(stateroot.RootT, r).EncodeBinary(bw.BinWriter)
	return w.ext(from, r.Index, r.Index+100, bw.Bytes())
}

// multisig returns the witness "m of set" with signatures (over r) of the given signers, in key order.
func (w *world) multisig(r *state.MPTRoot, set []int, m int, signers []int) transaction.Witness {
	pubs := keys.PublicKeys{}
	for _, k := range set {
		pubs = append(pubs, w.keys[k].PublicKey())
	}
	script, err := smartcontract.CreateMultiSigRedeemScript(m, pubs)
	if err != nil {
		panic(err)
	}
	bw := io.NewBufBinWriter()
	for _, k := range set {
		for _, s := range signers {
			if s == k {
				emit.Bytes(bw.BinWriter, w.sign(k, r))
			}
		}
	}
	return transaction.Witness{InvocationScript: bw.Bytes(), VerificationScript: script}
}

func defaultM(n int) int { return smartcontract.GetDefaultHonestNodeCount(n) }

// ---- observation (what a payload / a stored record IS, established from its bytes with the crypto library only) ----

// splitSigs parses an invocation script made of PUSHDATA1 <64 bytes> items; nil if it is anything else.
func splitSigs(inv []byte) [][]byte {
	var out [][]byte
	for len(inv) > 0 {
		if len(inv) < 2 || inv[0] != byte(opcode.PUSHDATA1) || int(inv[1]) != keys.SignatureLen || len(inv) < 2+keys.SignatureLen {
			return nil
		}
		out = append(out, inv[2:2+keys.SignatureLen])
		inv = inv[2+keys.SignatureLen:]
	}
	return out
}

// describeWitness: keys and threshold of the verification script and which of them signed r, the way CHECKMULTISIG
// matches (signatures and keys in the same order).
func (w *world) describeWitness(r *state.MPTRoot, wit *transaction.Witness) map[string]any {
	ck := string(wit.InvocationScript) + "|" + string(wit.VerificationScript) + "|" + string(r.Hash().BytesBE())
	if d, ok := w.witCache[ck]; ok {
		return d
	}
	d := map[string]any{"keys": []string{}, "m": 0, "nsig": -1, "matched": []string{}}
	m, pubs, ok := scparser.ParseMultiSigContract(wit.VerificationScript)
	if ok {
		var ids []string
		var ps keys.PublicKeys
		for _, pb := range pubs {
			p, err := keys.NewPublicKeyFromBytes(pb, elliptic.P256())
			if err != nil {
				ids = append(ids, "bad")
				ps = append(ps, nil)
				continue
			}
			ids = append(ids, w.keyID(p))
			ps = append(ps, p)
		}
		d["keys"], d["m"] = ids, m
		if sigs := splitSigs(wit.InvocationScript); sigs != nil {
			d["nsig"] = len(sigs)
			matched := []string{}
			i := 0
			for j := 0; j < len(ps) && i < len(sigs); j++ {
				if ps[j] != nil && ps[j].VerifyHashable(sigs[i], w.magic(), r) {
					matched = append(matched, ids[j])
					i++
				}
			}
			d["matched"] = matched
		}
	}
	w.witCache[ck] = d
	return d
}

// describeRoot: a root record as the judge sees it.
func (w *world) describeRoot(r *state.MPTRoot) map[string]any {
	d := map[string]any{"kind": "root", "h": int(r.Index), "root": rootID(r.Root), "nwit": len(r.Witness)}
	if len(r.Witness) >= 1 {
		d["wit"] = w.describeWitness(r, &r.Witness[0])
	} else {
		d["wit"] = map[string]any{"keys": []string{}, "m": 0, "nsig": -1, "matched": []string{}}
	}
	return d
}

// describe: a state service payload as the judge sees it.  A vote is described by WHO signed WHAT (found by trying the
// keys of the universe on the root records of the history and on the forged records made so far; "" = nobody / nothing).
func (w *world) describe(e *payload.Extensible) map[string]any {
	m := &stateroot.Message{}
	br := io.NewBinReaderFromBuf(e.Data)
	m.DecodeBinary(br)
	if br.Err != nil {
		return map[string]any{"kind": "junk"}
	}
	switch m.Type {
	case stateroot.RootT:
		return w.describeRoot(m.Payload.(*state.MPTRoot))
	case stateroot.VoteT:
		v := m.Payload.(*stateroot.Vote)
		d := map[string]any{"kind": "vote", "h": int(v.Height), "idx": int(v.ValidatorIndex), "signer": "", "ch": -1, "cr": ""}
		try := func(k int, r *state.MPTRoot) bool {
			if w.keys[k].PublicKey().VerifyHashable(v.Signature, w.magic(), r) {
				d["signer"], d["ch"], d["cr"] = w.keyID(w.keys[k].PublicKey()), int(r.Index), rootID(r.Root)
				return true
			}
			return false
		}
		if len(v.Signature) != keys.SignatureLen {
			return d
		}
		// likely first
		if v.Height <= w.top() {
			if de := w.designated(v.Height); de != nil && v.ValidatorIndex >= 0 && int(v.ValidatorIndex) < len(de.Keys) {
				if try(de.Keys[v.ValidatorIndex], w.localRoot(v.Height)) {
					return d
				}
			}
			for k := range w.keys {
				if try(k, w.localRoot(v.Height)) {
					return d
				}
			}
		}
		for _, f := range w.fakes {
			for k := range w.keys {
				if try(k, f) {
					return d
				}
			}
		}
		for h := uint32(0); h <= w.top(); h++ {
			for k := range w.keys {
				if try(k, w.localRoot(h)) {
					return d
				}
			}
		}
		return d
	}
	return map[string]any{"kind": "junk"}
}
