//go:build verif

// Driver of the state root validation extension of C03 (spec/statesvc): plays TLC behaviours of StateSvcSim, seeded
// random histories and scripted worlds on N real state root services over N real chains and records what the abstract
// level (StateSvcTrace) judges.  Nothing is judged here: disagreement with the model's predictions is drift.
package c03statesvc

import (
	"fmt"
	"os"
	"path/filepath"
	"sync"
	"testing"
	"time"

	"verifharness/internal/vh"
)

type job struct {
	name string
	kind string
	beh  []Op
	sc   *scripted
	seed int64
	big  bool
}

type outcome struct {
	evs   []map[string]any
	drift []map[string]any
	stats map[string]int
	obs   []string
	err   error
}

// runJob plays one world.  A world that cannot go on (a node refuses a block of the history, a service stops answering)
// keeps what it recorded so far - the judge looks at it - and is reported as aborted: the runner turns aborted worlds
// into an inconclusive result unless the recorded part already shows a violation.
func runJob(t testing.TB, dir string, j job) (o outcome) {
	var r *run
	var err error
	defer func() {
		if p := recover(); p != nil {
			o.err = fmt.Errorf("harness panic in %s: %v", j.name, p)
		}
		if o.err != nil && r != nil && len(r.evs) > 0 {
			o.evs, o.drift, o.stats = r.evs, r.drift, r.stats
			o.stats["aborted"]++
			o.drift = append([]map[string]any{{"world": j.name, "aborted": o.err.Error()}}, o.drift...)
			o.err = nil
		}
	}()
	switch j.kind {
	case "beh":
		in := j.beh[0]
		r, err = newRun(t, dir, j.name, j.seed, in.NKeys, in.NodeKey, in.Sets, 1000)
		if err != nil {
			return outcome{err: err}
		}
		defer r.w.close()
		if int(r.w.base) != in.Base {
			return outcome{err: fmt.Errorf("model Base %d, world base %d", in.Base, r.w.base)}
		}
		for _, op := range j.beh[1:] {
			ok, err := r.exec(op)
			if err != nil {
				return outcome{err: fmt.Errorf("%s op %s: %w", j.name, op.Op, err)}
			}
			if !ok {
				r.note("op_skipped")
			}
		}
	case "random":
		rng := vh.Rand(j.seed)
		nn, nkeys := 4, 6
		sets := [][]int{setA, setB, setC, {1, 2, 3}, {2, 3, 4, 5, 6}}
		if j.big {
			nn, nkeys = 7, 9
			sets = [][]int{{1, 2, 3, 4, 5, 6, 7}, {2, 3, 4, 5, 6, 8, 9}, {1, 3, 5, 7, 9}, {1, 2, 3, 4}, {3, 4, 5, 6, 7, 8, 9}}
		}
		nk := make([]int, nn)
		for i := range nk {
			nk[i] = i + 1
		}
		if rng.Intn(4) == 0 {
			nk[rng.Intn(nn)] = 0 // a node without a key: validation only
		}
		first := rng.Intn(3)
		if j.big {
			first = rng.Intn(2)
		}
		sets[0], sets[first] = sets[first], sets[0]
		r, err = newRun(t, dir, j.name, j.seed, nkeys, nk, sets, 1000)
		if err != nil {
			return outcome{err: err}
		}
		defer r.w.close()
		heights := 6 + rng.Intn(8)
		if err := r.randomScenario(rng, heights, 3, heights*nn*(11+rng.Intn(6))); err != nil {
			return outcome{err: fmt.Errorf("%s: %w", j.name, err)}
		}
	case "scripted":
		r, err = newRun(t, dir, j.name, j.seed, j.sc.nkeys, j.sc.nodeKey, j.sc.sets, max(j.sc.ms, 1))
		if err != nil {
			return outcome{err: err}
		}
		defer r.w.close()
		obs, err := j.sc.play(r)
		if err != nil {
			return outcome{err: fmt.Errorf("%s: %w", j.name, err)}
		}
		o.obs = obs
	}
	o.evs, o.drift, o.stats = r.evs, r.drift, r.stats
	return o
}

func TestDriver(t *testing.T) {
	res := vh.NewResult()
	tr := vh.NewTrace("trace.ndjson")
	t0 := time.Now()
	var jobs []job
	// scripted worlds first (the timer world waits for real time: start it early)
	for _, sc := range scriptedWorlds(vh.Thorough()) {
		sc := sc
		jobs = append(jobs, job{name: "scripted/" + sc.name, kind: "scripted", sc: &sc, seed: vh.Seed()})
	}
	var behs [][]Op
	if vh.InDir() != "" {
		if err := vh.ReadJSON("behaviours.json", &behs); err != nil {
			t.Fatalf("behaviours: %v", err)
		}
	}
	for i, b := range behs {
		if len(b) < 2 || b[0].Op != "init" {
			t.Fatalf("behaviour %d does not start with init", i)
		}
		jobs = append(jobs, job{name: fmt.Sprintf("beh/%d", i), kind: "beh", beh: b, seed: vh.Seed()*7919 + int64(i)})
	}
	nrand := vh.EnvInt("VERIF_RANDOM", 12)
	nbig := vh.EnvInt("VERIF_RANDOM7", 0)
	for i := 0; i < nrand+nbig; i++ {
		jobs = append(jobs, job{name: fmt.Sprintf("random/%d", i), kind: "random", seed: int64(1000 + i), big: i >= nrand})
	}
	par := vh.EnvInt("VERIF_PAR", 8)
	out := make([]outcome, len(jobs))
	ch := make(chan int, len(jobs))
	for i := range jobs {
		ch <- i
	}
	close(ch)
	base := t.TempDir()
	wdir := filepath.Join(base, "wallets")
	_ = os.MkdirAll(wdir, 0o755)
	var wg sync.WaitGroup
	for k := 0; k < par; k++ {
		wg.Add(1)
		go func() {
			defer wg.Done()
			for i := range ch {
				out[i] = runJob(t, wdir, jobs[i])
			}
		}()
	}
	wg.Wait()
	kinds := map[string]int{}
	stats := map[string]int{}
	for i, o := range out {
		if o.err != nil {
			t.Errorf("%s: %v", jobs[i].name, o.err)
			continue
		}
		for _, ev := range o.evs {
			kinds[ev["event"].(string)]++
			tr.Emit(ev)
		}
		for k, v := range o.stats {
			stats[k] += v
		}
		for _, d := range o.drift {
			res.AddDrift(d)
		}
		for _, s := range o.obs {
			res.AddDrift(map[string]any{"world": jobs[i].name, "observed": s})
			stats["scripted_observations"]++
		}
		res.Count(map[string]any{"job": jobs[i].name, "n": len(o.evs), "seed": jobs[i].seed, "beh": jobs[i].beh})
		res.Traces++
		if i%37 == 0 {
			res.Sample(map[string]any{"world": jobs[i].name, "events": len(o.evs), "stats": o.stats})
		}
	}
	tr.Close()
	res.Stats["statesvc_event_kinds"] = kinds
	for k, v := range stats {
		res.Stats["statesvc_"+k] = v
	}
	res.Stats["statesvc_worlds"] = len(jobs)
	res.Stats["statesvc_driver_ms"] = int(time.Since(t0) / time.Millisecond)
	if err := res.Write(); err != nil {
		t.Fatal(err)
	}
}
