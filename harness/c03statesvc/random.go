package c03statesvc

import (
	"fmt"
	"math/rand"

	"github.com/nspcc-dev/neo-go/pkg/network/payload"
)

func mOf(n int) int { return n - (n-1)/3 }

// inForce: the model set (1-based keys) in force at model height h according to the world's designation table.
func (r *run) inForce(h int) []int {
	d := r.w.designated(r.w.base + uint32(h))
	if d == nil {
		return nil
	}
	out := make([]int, len(d.Keys))
	for i, k := range d.Keys {
		out[i] = k + 1
	}
	return out
}

func posIn(s []int, k int) int {
	for i, x := range s {
		if x == k {
			return i
		}
	}
	return -1
}

// randomScenario plays a seeded random history of `heights` blocks with up to maxD designation changes on the world:
// the same vocabulary as the TLC behaviours, larger universes, plus byte-level corruption of honest payloads.
func (r *run) randomScenario(rng *rand.Rand, heights, maxD, steps int) error {
	w := r.w
	nn := len(w.nodes)
	nd := 0
	honest := func() (msgKey, bool) {
		if len(r.sentBy) == 0 {
			return msgKey{}, false
		}
		ks := make([]msgKey, 0, len(r.sentBy))
		for k := range r.sentBy {
			ks = append(ks, k)
		}
		// map order is random: sort for determinism
		for i := 1; i < len(ks); i++ {
			for j := i; j > 0 && less(ks[j], ks[j-1]); j-- {
				ks[j], ks[j-1] = ks[j-1], ks[j]
			}
		}
		// recent heights are more interesting
		k := ks[rng.Intn(len(ks))]
		for t := 0; t < 2 && int(k.h) < int(w.top())-3; t++ {
			k = ks[rng.Intn(len(ks))]
		}
		return k, true
	}
	mtop := func() int { return int(w.top() - w.base) }
	for s := 0; s < steps; s++ {
		x := rng.Intn(100)
		n := 1 + rng.Intn(nn)
		nd_ := w.nodes[n-1]
		var err error
		switch {
		case x < 6:
			if mtop() >= heights {
				continue
			}
			behind := false
			for _, y := range w.nodes {
				if w.top()-y.bc.BlockHeight() >= 2 {
					behind = true
				}
			}
			if behind {
				continue
			}
			d := 0
			if nd < maxD && rng.Intn(4) == 0 {
				d = 1 + rng.Intn(len(r.sets))
				cur := r.inForce(mtop() + 2)
				if fmt.Sprint(cur) == fmt.Sprint(r.sets[d-1]) {
					d = 0
				} else {
					nd++
				}
			}
			_, err = r.exec(Op{Op: "newblock", D: d})
		case x < 24:
			if nd_.bc.BlockHeight()-nd_.seen >= 2 {
				_, err = r.exec(Op{Op: "svcblock", N: n})
			} else {
				_, err = r.exec(Op{Op: "addblock", N: n})
			}
		case x < 42:
			_, err = r.exec(Op{Op: "svcblock", N: n})
		case x < 50:
			// the votes of a recent height reach one node (most of them, in some order)
			if mtop() == 0 {
				continue
			}
			h := max(1, mtop()-rng.Intn(3))
			if f := r.inForce(h); len(f) > 0 && rng.Intn(5) < 3 {
				// ... the node that is the first sender of that height, if a node holds that key
				k := f[(int(w.base)+h)%len(f)]
				for i, y := range w.nodes {
					if y.key == k-1 {
						n = i + 1
					}
				}
			}
			for _, f := range rng.Perm(nn) {
				if r.sentBy[msgKey{f, "vote", w.base + uint32(h)}] != nil && rng.Intn(5) > 0 && err == nil {
					_, err = r.exec(Op{Op: "deliver", N: n, T: "vote", From: f + 1, H: h})
				}
			}
		case x < 72:
			if k, ok := honest(); ok {
				_, err = r.exec(Op{Op: "deliver", N: n, T: k.t, From: k.from + 1, H: int(k.h - w.base)})
			}
		case x < 82:
			if mtop() == 0 {
				continue
			}
			h := 1 + rng.Intn(mtop())
			if rng.Intn(3) > 0 {
				h = max(1, mtop()-rng.Intn(2))
			}
			f := r.inForce(h)
			v := &AdvV{H: h, Ch: h, Cr: "g"}
			nk := len(w.keys)
			switch rng.Intn(7) {
			case 0: // garbage
				v.K, v.Idx = 0, rng.Intn(max(1, len(f)))
			case 1: // a signature made for another height
				v.K = 1 + rng.Intn(nk)
				v.Ch = 1 + rng.Intn(mtop())
				v.Idx = posIn(f, v.K)
			case 2: // forged root
				v.K = 1 + rng.Intn(nk)
				v.Cr = "f"
				v.Idx = posIn(f, v.K)
			case 3: // under another index
				v.K = 1 + rng.Intn(nk)
				v.Idx = rng.Intn(len(f)+2) - 1
			case 4: // a key of another set under its index there
				v.K = 1 + rng.Intn(nk)
				o := r.sets[rng.Intn(len(r.sets))]
				v.Idx = posIn(o, v.K)
			case 5: // index far out of range / another height far away
				v.K = 1 + rng.Intn(nk)
				v.Idx = []int{-1, 255, 1 << 20, -(1 << 31)}[rng.Intn(4)]
			default: // a designated key's good vote (a validator that is not one of the nodes, or a replay)
				if len(f) > 0 {
					v.K = f[rng.Intn(len(f))]
					v.Idx = posIn(f, v.K)
				}
			}
			_, err = r.exec(Op{Op: "advvote", N: n, V: v})
		case x < 92:
			if mtop() == 0 {
				continue
			}
			h := 1 + rng.Intn(mtop())
			f := r.inForce(h)
			if len(f) == 0 {
				continue
			}
			p := &AdvP{H: h, Root: "g", Nwit: 1}
			keys := f
			if rng.Intn(4) == 0 {
				keys = r.sets[rng.Intn(len(r.sets))]
			}
			m := mOf(len(keys))
			p.Wit.Keys, p.Wit.M, p.Wit.Nsig = keys, m, m
			matched := m
			switch rng.Intn(8) {
			case 0:
				p.Root = "f"
			case 1:
				p.Wit.Nsig, matched = m-1, m-1
			case 2:
				matched = m - 1
			case 3:
				p.Wit.M, p.Wit.Nsig, matched = m-1, m-1, m-1
			case 4:
				p.Nwit = []int{0, 2}[rng.Intn(2)]
			case 5:
				p.Wit.Nsig = m + 1 // one signature too many
			}
			if matched < 0 {
				matched = 0
			}
			// which keys sign: the first `matched`, or a random subset of that size (in key order)
			idx := rng.Perm(len(keys))[:matched]
			if rng.Intn(2) == 0 {
				idx = idx[:0]
				for i := 0; i < matched; i++ {
					idx = append(idx, i)
				}
			}
			sortInts(idx)
			p.Wit.Matched = []int{}
			for _, i := range idx {
				p.Wit.Matched = append(p.Wit.Matched, keys[i])
			}
			_, err = r.exec(Op{Op: "advroot", N: n, P: p})
		case x < 97:
			// one byte of an honest payload changed / the payload cut short
			if k, ok := honest(); ok {
				e := r.sentBy[k]
				c := &payload.Extensible{Category: e.Category, ValidBlockStart: e.ValidBlockStart, ValidBlockEnd: e.ValidBlockEnd,
					Sender: e.Sender, Data: append([]byte(nil), e.Data...), Witness: e.Witness}
				if rng.Intn(4) == 0 && len(c.Data) > 2 {
					c.Data = c.Data[:1+rng.Intn(len(c.Data)-1)]
				} else {
					c.Data[rng.Intn(len(c.Data))] ^= byte(1 << rng.Intn(8))
				}
				err = r.deliver(Op{Op: "corrupt"}, nd_, c, "corrupt")
			}
		case x < 98:
			if rng.Intn(3) == 0 {
				_, err = r.exec(Op{Op: "restart", N: n})
			}
		default:
			// a validated root of height 0 / of a height far beyond the chain
			rec := w.localRoot(0)
			if rng.Intn(2) == 0 {
				rec = w.localRoot(w.top())
				rec.Index = w.top() + 1 + uint32(rng.Intn(3))
			}
			if f := r.inForce(mtop()); len(f) > 0 {
				set := make([]int, len(f))
				for i, k := range f {
					set[i] = k - 1
				}
				rec.Witness = append(rec.Witness, w.multisig(rec, set, mOf(len(set)), set[:mOf(len(set))]))
				err = r.deliver(Op{Op: "edge"}, nd_, w.rootMsg(set[0], rec), "adv")
			}
		}
		if err != nil {
			return err
		}
	}
	return nil
}

func less(a, b msgKey) bool {
	if a.h != b.h {
		return a.h < b.h
	}
	if a.from != b.from {
		return a.from < b.from
	}
	return a.t < b.t
}

func sortInts(a []int) {
	for i := 1; i < len(a); i++ {
		for j := i; j > 0 && a[j] < a[j-1]; j-- {
			a[j], a[j-1] = a[j-1], a[j]
		}
	}
}
