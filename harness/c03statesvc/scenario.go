package c03statesvc

import (
	"fmt"
	"math/rand"
	"sort"
	"testing"
	"time"

	"github.com/nspcc-dev/neo-go/pkg/core/state"
	"github.com/nspcc-dev/neo-go/pkg/core/transaction"
	"github.com/nspcc-dev/neo-go/pkg/network/payload"
)

// Op is one step of a scenario.  TLC behaviours (StateSvcSim) use model numbering: keys 1.., nodes 1.., heights relative
// to the warm-up; random and scripted scenarios are expressed in the same vocabulary.
type Op struct {
	Op   string `json:"op"`
	N    int    `json:"n,omitempty"` // node (1-based)
	H    int    `json:"h,omitempty"` // model height
	D    int    `json:"d,omitempty"` // newblock: index into sets (0 = no designation)
	T    string `json:"t,omitempty"` // deliver: "vote" | "root"
	From int    `json:"from,omitempty"`
	V    *AdvV  `json:"v,omitempty"`
	P    *AdvP  `json:"p,omitempty"`
	Err  *bool  `json:"err,omitempty"`
	Res  string `json:"res,omitempty"`
	Post *Post  `json:"post,omitempty"`
	// init
	NN      int     `json:"nn,omitempty"`
	NodeKey []int   `json:"nodekey,omitempty"`
	Sets    [][]int `json:"sets,omitempty"`
	Base    int     `json:"base,omitempty"`
	NKeys   int     `json:"nkeys,omitempty"`
	// scripted only
	Ms int `json:"ms,omitempty"`
}

// AdvV is an adversary's vote: key K (0 = nobody: garbage bytes) signed the root record (height Ch, Cr "g" = the
// history's, "f" = a forged one), presented as the vote of validator Idx for height H.
type AdvV struct {
	H   int    `json:"h"`
	Idx int    `json:"idx"`
	K   int    `json:"k"`
	Ch  int    `json:"ch"`
	Cr  string `json:"cr"`
}

// AdvP is an adversary's validated root.
type AdvP struct {
	H    int    `json:"h"`
	Root string `json:"root"`
	Nwit int    `json:"nwit"`
	Wit  struct {
		Keys    []int `json:"keys"`
		M       int   `json:"m"`
		Nsig    int   `json:"nsig"`
		Matched []int `json:"matched"`
	} `json:"wit"`
}

// Post is what StateSvcImpl predicts after a step of node n.
type Post struct {
	Vh  int   `json:"vh"`
	Val []int `json:"val"`
	Out []struct {
		T    string `json:"t"`
		From int    `json:"from"`
		H    int    `json:"h"`
	} `json:"out"`
}

type msgKey struct {
	from int
	t    string
	h    uint32
}

// run is one scenario being played on a world.
type run struct {
	w      *world
	name   string
	sets   [][]int // model sets (keys 1-based)
	evs    []map[string]any
	sentBy map[msgKey]*payload.Extensible
	drift  []map[string]any
	stats  map[string]int
	rng    *rand.Rand
}

func newRun(t testing.TB, dir, name string, seed int64, nkeys int, nodeKey []int, sets [][]int, msPerBlock uint32) (*run, error) {
	initial := make([]int, len(sets[0]))
	for i, k := range sets[0] {
		initial[i] = k - 1
	}
	nk := make([]int, len(nodeKey))
	for i, k := range nodeKey {
		nk[i] = k - 1
	}
	w, err := newWorld(t, dir, seed, nkeys, initial, nk, msPerBlock)
	if err != nil {
		return nil, err
	}
	r := &run{w: w, name: name, sets: sets, sentBy: map[msgKey]*payload.Extensible{}, stats: map[string]int{}, rng: rand.New(rand.NewSource(seed ^ 0x5bd1e995))}
	keyIDs := make([]string, len(w.keys))
	for i := range w.keys {
		keyIDs[i] = fmt.Sprintf("k%d", i)
	}
	nks := make([]string, len(nk))
	for i, k := range nk {
		if k >= 0 {
			nks[i] = keyIDs[k]
		}
	}
	r.evs = append(r.evs, map[string]any{"event": "init", "world": name, "nn": len(nk), "keys": keyIDs, "nodekey": nks,
		"B": []any{map[string]any{"blk": 0, "keys": r.keyNames(initial)}}, "root0": rootID(w.roots[0]), "base": int(w.base)})
	// the warm-up blocks are part of the history
	for h := uint32(1); h <= w.base; h++ {
		r.evs = append(r.evs, map[string]any{"event": "newblock", "h": int(h), "root": rootID(w.roots[h]), "desig": []string{}})
	}
	for _, n := range w.nodes {
		r.evs = append(r.evs, map[string]any{"event": "addblock", "n": n.id, "h": int(w.base), "st": n.project()})
	}
	return r, nil
}

func (r *run) keyNames(ks []int) []string {
	out := make([]string, len(ks))
	for i, k := range ks {
		out[i] = fmt.Sprintf("k%d", k)
	}
	return out
}

func (r *run) note(stat string) { r.stats[stat]++ }

func (r *run) addDrift(d map[string]any) {
	r.note("drift")
	if len(r.drift) < 6 {
		d["world"] = r.name
		r.drift = append(r.drift, d)
	}
}

// collect records what node n relayed during the last step and returns its abstract description.
func (r *run) collect(n *node) []map[string]any {
	var out []map[string]any
	for _, e := range n.collect() {
		d := r.w.describe(e)
		r.evs = append(r.evs, map[string]any{"event": "emit", "n": n.id, "p": d})
		out = append(out, d)
		if k, ok := d["kind"].(string); ok && (k == "vote" || k == "root") {
			r.sentBy[msgKey{n.id, k, uint32(d["h"].(int))}] = e
		}
		r.note("emit_" + fmt.Sprint(d["kind"]))
	}
	return out
}

// compare the model's prediction with what the real node did (Impl level: drift, never a verdict)
func (r *run) compare(op Op, n *node, outs []map[string]any, err error) {
	if op.Post == nil {
		return
	}
	st := n.project()
	base := int(r.w.base)
	if op.Err != nil && *op.Err != (err != nil) {
		r.addDrift(map[string]any{"what": "answer", "op": op.Op, "model_err": *op.Err, "real": fmt.Sprint(err), "h": op.H})
		r.note("mismatch_err")
	}
	if op.Res != "" && (op.Res == "err") != (err != nil) {
		r.addDrift(map[string]any{"what": "answer", "op": op.Op, "model": op.Res, "real": fmt.Sprint(err), "p": op.P})
		r.note("mismatch_err")
	}
	wantVh := 0
	if op.Post.Vh > 0 {
		wantVh = op.Post.Vh + base
	}
	if got := st["vh"].(int); got != wantVh && !(op.Post.Vh == 0 && got <= base) {
		r.addDrift(map[string]any{"what": "validated height", "op": op.Op, "model": wantVh, "real": got})
		r.note("mismatch_vh")
	}
	var have []int
	for _, v := range st["val"].([]any) {
		m := v.(map[string]any)
		if m["nwit"].(int) > 0 && m["h"].(int) > base {
			have = append(have, m["h"].(int)-base)
		}
	}
	want := append([]int(nil), op.Post.Val...)
	sort.Ints(want)
	sort.Ints(have)
	if fmt.Sprint(want) != fmt.Sprint(have) {
		r.addDrift(map[string]any{"what": "validated heights", "op": op.Op, "model": want, "real": have})
		r.note("mismatch_val")
	}
	var wo, ho []string
	for _, o := range op.Post.Out {
		wo = append(wo, fmt.Sprintf("%s:%d", o.T, o.H))
	}
	for _, d := range outs {
		if h, ok := d["h"].(int); ok {
			ho = append(ho, fmt.Sprintf("%s:%d", d["kind"], h-base))
		} else {
			ho = append(ho, fmt.Sprint(d["kind"]))
		}
	}
	sort.Strings(wo)
	sort.Strings(ho)
	if fmt.Sprint(wo) != fmt.Sprint(ho) {
		r.addDrift(map[string]any{"what": "messages sent", "op": op.Op, "n": op.N, "h": op.H, "model": wo, "real": ho})
		r.note("mismatch_out")
	}
	r.note("compared")
}

func (r *run) stepEvent(kind string, n *node, extra map[string]any) {
	ev := map[string]any{"event": kind, "n": n.id, "st": n.project()}
	for k, v := range extra {
		ev[k] = v
	}
	if l := n.takeLogs(); len(l) > 0 {
		r.stats["log_lines"] += len(l)
	}
	r.evs = append(r.evs, ev)
}

// craftVote builds the adversary's vote (nil: not expressible).
func (r *run) craftVote(v *AdvV) *payload.Extensible {
	w := r.w
	base := w.base
	h := base + uint32(v.H)
	var sig []byte
	from := 0
	if v.K == 0 {
		sig = make([]byte, 64)
		r.rng.Read(sig)
	} else {
		if v.Ch < 0 || base+uint32(v.Ch) > w.top() {
			return nil
		}
		var rec *state.MPTRoot
		if v.Cr == "g" {
			rec = w.localRoot(base + uint32(v.Ch))
		} else {
			rec = w.fakeRoot(base+uint32(v.Ch), 0)
		}
		sig = w.sign(v.K-1, rec)
		from = v.K - 1
	}
	return w.voteMsg(from, h, int32(v.Idx), sig)
}

// craftRoot builds the adversary's validated root (nil: not expressible).
func (r *run) craftRoot(p *AdvP) *payload.Extensible {
	w := r.w
	h := w.base + uint32(p.H)
	if h > w.top() {
		return nil
	}
	var rec *state.MPTRoot
	if p.Root == "g" {
		rec = w.localRoot(h)
	} else {
		rec = w.fakeRoot(h, 1)
	}
	if len(p.Wit.Keys) == 0 || p.Wit.M < 1 || p.Wit.M > len(p.Wit.Keys) || p.Wit.Nsig < 0 {
		return nil
	}
	set := make([]int, len(p.Wit.Keys))
	for i, k := range p.Wit.Keys {
		set[i] = k - 1
	}
	signers := make([]int, len(p.Wit.Matched))
	for i, k := range p.Wit.Matched {
		signers[i] = k - 1
	}
	wit := w.multisig(rec, set, p.Wit.M, signers)
	// signatures that match nothing: the next keys' signatures of ANOTHER record
	other := w.fakeRoot(h, 2)
	for i := len(signers); i < p.Wit.Nsig; i++ {
		k := set[i%len(set)]
		wit.InvocationScript = append(wit.InvocationScript, pushSig(w.sign(k, other))...)
	}
	switch p.Nwit {
	case 0:
	case 1:
		rec.Witness = []transaction.Witness{wit}
	default:
		rec.Witness = []transaction.Witness{wit, wit}
	}
	return w.rootMsg(set[0], rec)
}

func pushSig(sig []byte) []byte { return append([]byte{0x0c, 64}, sig...) }

// exec plays one op; a false result means the op could not be played (recorded as drift by the caller's choice).
func (r *run) exec(op Op) (bool, error) {
	w := r.w
	var n *node
	if op.N >= 1 && op.N <= len(w.nodes) {
		n = w.nodes[op.N-1]
	}
	switch op.Op {
	case "init":
		return true, nil
	case "newblock":
		var set []int
		if op.D > 0 {
			for _, k := range r.sets[op.D-1] {
				set = append(set, k-1)
			}
		}
		ok, err := w.newBlock(set)
		if err != nil {
			return false, err
		}
		des := []string{}
		if set != nil && ok {
			des = r.keyNames(w.desig[len(w.desig)-1].Keys)
		} else if set != nil {
			r.addDrift(map[string]any{"what": "designation transaction did not make it into the block", "h": int(w.top())})
		}
		r.evs = append(r.evs, map[string]any{"event": "newblock", "h": int(w.top()), "root": rootID(w.roots[w.top()]), "desig": des})
		return true, nil
	case "addblock":
		h := n.bc.BlockHeight() + 1
		if h > w.top() {
			return false, nil
		}
		if err := n.addBlock(w.blocks[h-1]); err != nil {
			return false, fmt.Errorf("node %d refuses block %d: %w", n.id, h, err)
		}
		r.collect(n)
		r.stepEvent("addblock", n, map[string]any{"h": int(h)})
		return true, nil
	case "svcblock":
		h := n.seen + 1
		if h > n.bc.BlockHeight() {
			return false, nil
		}
		if err := n.svcBlock(w.blocks[h-1]); err != nil {
			return false, err
		}
		outs := r.collect(n)
		r.stepEvent("svcblock", n, map[string]any{"h": int(h)})
		r.compare(op, n, outs, nil)
		return true, nil
	case "restart":
		n.shutdown()
		if err := n.open(); err != nil {
			return false, err
		}
		r.collect(n)
		r.stepEvent("restart", n, nil)
		return true, nil
	case "deliver":
		e := r.sentBy[msgKey{op.From - 1, op.T, w.base + uint32(op.H)}]
		if e == nil {
			r.addDrift(map[string]any{"what": "the model delivers a message the real node never sent", "from": op.From, "t": op.T, "h": op.H})
			r.note("undeliverable")
			return false, nil
		}
		return true, r.deliver(op, n, e, "honest")
	case "advvote":
		e := r.craftVote(op.V)
		if e == nil {
			return false, nil
		}
		return true, r.deliver(op, n, e, "adv")
	case "advroot":
		e := r.craftRoot(op.P)
		if e == nil {
			return false, nil
		}
		return true, r.deliver(op, n, e, "adv")
	case "tick":
		// real timers: let them run for a bounded time, then look
		for _, x := range w.nodes {
			x.led.open.Add(1)
		}
		time.Sleep(time.Duration(op.Ms) * time.Millisecond)
		for _, x := range w.nodes {
			x.led.open.Add(-1)
		}
		for _, x := range w.nodes {
			r.collect(x)
			r.stepEvent("tick", x, nil)
		}
		return true, nil
	}
	return false, fmt.Errorf("unknown op %q", op.Op)
}

func (r *run) deliver(op Op, n *node, e *payload.Extensible, src string) error {
	d := r.w.describe(e)
	err := n.deliver(e)
	outs := r.collect(n)
	r.stepEvent("deliver", n, map[string]any{"p": d, "err": err != nil, "relay": err == nil, "src": src, "errs": fmt.Sprint(err)})
	r.compare(op, n, outs, err)
	r.note("deliver_" + fmt.Sprint(d["kind"]))
	if err != nil {
		r.note("deliver_refused")
	}
	return nil
}
