package c03statesvc

import (
	"encoding/hex"
	"fmt"
	"slices"
	"sort"
	"testing"

	"verifharness/internal/chainkit"
	"verifharness/internal/histgen"

	"github.com/nspcc-dev/neo-go/pkg/config"
	"github.com/nspcc-dev/neo-go/pkg/core"
	"github.com/nspcc-dev/neo-go/pkg/core/block"
	"github.com/nspcc-dev/neo-go/pkg/core/native/nativenames"
	"github.com/nspcc-dev/neo-go/pkg/core/native/noderoles"
	"github.com/nspcc-dev/neo-go/pkg/core/state"
	"github.com/nspcc-dev/neo-go/pkg/core/storage"
	"github.com/nspcc-dev/neo-go/pkg/core/transaction"
	"github.com/nspcc-dev/neo-go/pkg/crypto/keys"
	"github.com/nspcc-dev/neo-go/pkg/neotest"
	"github.com/nspcc-dev/neo-go/pkg/util"
	"github.com/nspcc-dev/neo-go/pkg/wallet"
)

// desigEntry: the keys (indexes into world.keys, in public key order = validator index order) designated as
// StateValidator for every height >= From until the next entry.
type desigEntry struct {
	From uint32
	Keys []int
}

// world is one block history (built as the scenario goes) followed by N nodes.
type world struct {
	t          testing.TB
	net        *chainkit.Net
	hook       func(*config.Blockchain)
	dir        string
	keyLabel   string
	keys       []*keys.PrivateKey // key universe, SORTED by public key (key id i = "k<i>")
	msPerBlock uint32
	ref        *core.Blockchain
	gen        *histgen.Gen
	blocks     []*block.Block // blocks[h-1]
	roots      []util.Uint256 // roots[h], roots[0] = genesis
	desig      []desigEntry
	nodes      []*node
	maxTx      int
	base       uint32 // warm-up heights 1..base
	witCache   map[string]map[string]any
	fakes      []*state.MPTRoot
}

// sortedKeys returns nk deterministic keys sorted by public key.
func sortedKeys(label string, nk int) []*keys.PrivateKey {
	ks := make([]*keys.PrivateKey, nk)
	for i := range ks {
		ks[i] = chainkit.Key(fmt.Sprintf("%s-%d", label, i))
	}
	sort.Slice(ks, func(a, b int) bool { return ks[a].PublicKey().Cmp(ks[b].PublicKey()) < 0 })
	return ks
}

// newWorld creates the reference chain (initial designation `initial` in the genesis block: effective from height 1)
// and nn nodes; nodeKey[i] is the key node i holds (-1: none, service disabled).
func newWorld(t testing.TB, dir string, seed int64, nk int, initial []int, nodeKey []int, msPerBlock uint32) (*world, error) {
	w := &world{t: t, net: chainkit.NewNet(4, 4), dir: dir, keyLabel: "sv", keys: sortedKeys("sv", nk), msPerBlock: msPerBlock,
		maxTx: 2, witCache: map[string]map[string]any{}}
	init := slices.Clone(initial)
	sort.Ints(init)
	w.hook = func(c *config.Blockchain) {
		if len(init) > 0 {
			ps := keys.PublicKeys{}
			for _, k := range init {
				ps = append(ps, w.keys[k].PublicKey())
			}
			c.Genesis.Roles = map[noderoles.Role]keys.PublicKeys{noderoles.StateValidator: ps}
		}
	}
	if len(init) > 0 {
		w.desig = append(w.desig, desigEntry{From: 1, Keys: init})
	}
	var err error
	if w.ref, err = w.net.NewChain(nil, w.hook); err != nil {
		return nil, err
	}
	chainkit.Start(w.ref)
	w.gen = histgen.New(t, w.net, w.ref, seed, 6)
	w.gen.AvoidOldOracle, w.gen.NoVMStateProbe = true, true
	// light traffic that changes contract storage in (nearly) every block; designations are scripted
	w.gen.Weights = map[string]int{"gas": 6, "neo": 3, "kvput": 8, "kvdel": 3, "deploy": 3, "kvmany": 2, "policy": 1, "notify": 1}
	w.gen.Script = map[uint32]func() *transaction.Transaction{}
	r0, err := w.ref.GetStateRoot(0)
	if err != nil {
		return nil, err
	}
	w.roots = append(w.roots, r0.Root)
	for i, k := range nodeKey {
		n := &node{w: w, id: i, key: k, store: keepStore{storage.NewMemoryStore()}}
		if err := n.open(); err != nil {
			return nil, fmt.Errorf("node %d: %w", i, err)
		}
		w.nodes = append(w.nodes, n)
	}
	// warm-up (heights 1..base): funding, then the generator's candidate / voting block is replaced by a plain one and
	// its whale candidates are unfunded, so that the committee stays the standby one and a scripted designation is
	// valid in whatever block the scenario puts it
	fresh := func(l string) neotest.SingleSigner {
		return neotest.NewSingleSigner(wallet.NewAccountFromPrivateKey(chainkit.Key(l)))
	}
	if _, err := w.newBlock(nil); err != nil {
		return nil, err
	}
	w.gen.Churn, w.gen.Churn2 = fresh("sv-nochurn"), fresh("sv-nochurn2")
	tx := w.gen.Tx([]neotest.Signer{w.gen.Accts[0]}, w.gen.E.NativeHash(t, nativenames.Gas), "transfer",
		w.gen.Accts[0].ScriptHash(), w.gen.Accts[1].ScriptHash(), int64(1_0000_0000), nil)
	b, err := w.net.NewBlock(w.ref, 1, tx)
	if err != nil {
		return nil, err
	}
	if err := w.ref.AddBlock(b); err != nil {
		return nil, err
	}
	w.gen.Harvest(b)
	if err := w.noteBlock(b); err != nil {
		return nil, err
	}
	w.base = w.top()
	for _, n := range w.nodes {
		for _, b := range w.blocks {
			if err := n.addBlock(b); err != nil {
				return nil, err
			}
		}
		n.seen = w.base
	}
	return w, nil
}

func (w *world) noteBlock(b *block.Block) error {
	w.blocks = append(w.blocks, b)
	r, err := w.ref.GetStateRoot(b.Index)
	if err != nil {
		return err
	}
	w.roots = append(w.roots, r.Root)
	return nil
}

func (w *world) close() {
	for _, n := range w.nodes {
		n.closed.Store(true)
		n.shutdown()
	}
	w.ref.Close()
}

func (w *world) top() uint32 { return uint32(len(w.blocks)) }

// newBlock makes the next block of the history; set != nil designates these keys as StateValidator in it (effective
// from the NEXT height).  ok=false: the designation transaction did not make it into the block.
func (w *world) newBlock(set []int) (bool, error) {
	h := w.top() + 1
	var want []int
	if set != nil {
		want = slices.Clone(set)
		sort.Ints(want)
		var ks []any
		for _, k := range want {
			ks = append(ks, w.keys[k].PublicKey().Bytes())
		}
		desHash := w.gen.E.NativeHash(w.t, nativenames.Designation)
		w.gen.Script[h] = func() *transaction.Transaction {
			return w.gen.Tx(w.gen.Committee(), desHash, "designateAsRole", int64(noderoles.StateValidator), ks)
		}
	}
	b, err := w.gen.NextBlock(w.maxTx)
	if err != nil {
		return false, err
	}
	if err := w.noteBlock(b); err != nil {
		return false, err
	}
	ok := true
	if set != nil {
		// what the chain says now (the rule under test is NOT taken from here: the judge derives it from the block index)
		pubs, from, err := w.ref.GetDesignatedByRole(noderoles.StateValidator)
		ok = err == nil && from == h+1 && len(pubs) == len(want)
		if ok {
			w.desig = append(w.desig, desigEntry{From: h + 1, Keys: want})
		}
	}
	return ok, nil
}

// designated returns the entry in force at height h (nil: none).
func (w *world) designated(h uint32) *desigEntry {
	var d *desigEntry
	for i := range w.desig {
		if w.desig[i].From <= h {
			d = &w.desig[i]
		}
	}
	return d
}

func (w *world) keyID(p *keys.PublicKey) string {
	for i, k := range w.keys {
		if k.PublicKey().Equal(p) {
			return fmt.Sprintf("k%d", i)
		}
	}
	return "x" + hex.EncodeToString(p.Bytes()[1:5])
}

func rootID(u util.Uint256) string { return hex.EncodeToString(u.BytesBE()[:6]) }

// localRoot is the unsigned root record of height h of the history.
func (w *world) localRoot(h uint32) *state.MPTRoot {
	return &state.MPTRoot{Index: h, Root: w.roots[h]}
}

// fakeRoot is a root record for height h that is NOT the history's.
func (w *world) fakeRoot(h uint32, salt byte) *state.MPTRoot {
	r := w.roots[h]
	r[0] ^= 0x80 | salt
	r[31] ^= 0x01
	f := &state.MPTRoot{Index: h, Root: r}
	for _, x := range w.fakes {
		if x.Index == h && x.Root == r {
			return f
		}
	}
	w.fakes = append(w.fakes, f)
	return f
}

// project reads the node's validation state back from the real module: validated height, and every height whose stored
// record carries a witness (described from its bytes).
func (n *node) project() map[string]any {
	loc := n.bc.BlockHeight()
	val := []any{}
	for h := uint32(1); h <= loc; h++ {
		r, err := n.mod.GetStateRoot(h)
		if err != nil {
			val = append(val, map[string]any{"kind": "missing", "h": int(h), "root": "", "nwit": 0,
				"wit": map[string]any{"keys": []string{}, "m": 0, "nsig": -1, "matched": []string{}}})
			continue
		}
		if len(r.Witness) > 0 || r.Root != n.w.roots[h] {
			val = append(val, n.w.describeRoot(r))
		}
	}
	return map[string]any{"vh": int(n.mod.CurrentValidatedHeight()), "loc": int(loc), "val": val}
}
