//go:build verif

package c03statesvc

import (
	"fmt"
	"testing"
)

func TestProbe(t *testing.T) {
	w, err := newWorld(t, t.TempDir(), 1, 7, []int{0, 1, 2, 3}, []int{0, 1, 2, 3}, 1)
	if err != nil {
		t.Fatal(err)
	}
	defer w.close()
	plan := map[uint32][]int{4: {1, 2, 3, 4}, 8: {2, 3, 4, 5}}
	for h := uint32(3); h <= 12; h++ {
		ok, err := w.newBlock(plan[h])
		if err != nil {
			t.Fatal(err)
		}
		fmt.Println("block", h, "desig ok", ok, len(w.blocks[h-1].Transactions))
		for _, n := range w.nodes {
			if err := n.addBlock(w.blocks[h-1]); err != nil {
				t.Fatal(err)
			}
			if err := n.svcBlock(w.blocks[h-1]); err != nil {
				t.Fatal(err)
			}
			for _, e := range n.collect() {
				fmt.Println("  node", n.id, "emits", w.describe(e), n.takeLogs())
			}
		}
	}
	fmt.Println(w.desig)
	n := w.nodes[0]
	// 1. out of order roots: 11 then 10
	for _, h := range []uint32{11, 10} {
		r := w.localRoot(h)
		d := w.designated(h)
		r.Witness = append(r.Witness, w.multisig(r, d.Keys, defaultM(len(d.Keys)), d.Keys[:3]))
		err := n.deliver(w.rootMsg(d.Keys[0], r))
		fmt.Println("deliver root", h, err, n.project()["vh"])
	}
	// 2. root of height 6 (set B = 1,2,3,4 in force) signed by set A (0,1,2,3)
	r := w.localRoot(6)
	r.Witness = append(r.Witness, w.multisig(r, []int{0, 1, 2, 3}, 3, []int{0, 1, 2}))
	err = n.deliver(w.rootMsg(0, r))
	fmt.Println("deliver root 6 signed by the FIRST set:", err, n.project())
}
