// Package c03statesvc drives N REAL state root services (pkg/services/stateroot) on N real core.Blockchains that follow
// one block history with changing StateValidator designations.  The harness is the network between them: every
// extensible payload a service hands to its relay callback is recorded, and delivered (Service.OnPayload - what
// network.Server calls after its extensible pool admitted the payload) only when the schedule says so.
//
// Determinism: a service normally learns about blocks from a chain subscription and re-sends votes from wall-clock
// timers.  Both are taken over through the Ledger interface the service is constructed with (an interface the harness
// implements): SubscribeForBlocks hands the harness the service's block channel, so the harness decides when the service
// sees block h (after the chain stored it, like the real dispatcher), and waits for the end of the service's loop
// iteration with a sentinel block whose state root does not exist (the loop logs an error for it: the log core of the
// service is the harness's).  HeaderHeight answers "past every vote's validity" to calls that do not come from a
// harness-initiated step, which makes a vote re-send timer that fires on a loaded machine a no-op; worlds that WANT the
// timers let them run and bound the wait (what they produce is recorded, what they fail to produce in time is drift).
package c03statesvc

import (
	"fmt"
	"os"
	"path/filepath"
	"sync"
	"sync/atomic"
	"time"

	"verifharness/internal/chainkit"

	"github.com/nspcc-dev/neo-go/pkg/config"
	"github.com/nspcc-dev/neo-go/pkg/core"
	"github.com/nspcc-dev/neo-go/pkg/core/block"
	"github.com/nspcc-dev/neo-go/pkg/core/native/noderoles"
	corestate "github.com/nspcc-dev/neo-go/pkg/core/stateroot"
	"github.com/nspcc-dev/neo-go/pkg/core/storage"
	"github.com/nspcc-dev/neo-go/pkg/crypto/keys"
	"github.com/nspcc-dev/neo-go/pkg/network/payload"
	"github.com/nspcc-dev/neo-go/pkg/services/stateroot"
	"github.com/nspcc-dev/neo-go/pkg/wallet"
	"go.uber.org/zap"
	"go.uber.org/zap/zapcore"
)

const walletPass = "verif"

// keepStore is a MemoryStore that survives the chain's Close (a node's disk).
type keepStore struct{ *storage.MemoryStore }

func (keepStore) Close() error { return nil }

// ledger is the stateroot.Ledger the service is built on.
type ledger struct {
	n       *node
	bc      atomic.Pointer[core.Blockchain]
	ch      chan *block.Block
	subbed  chan struct{}
	msPerBl uint32
	// open > 0 while a harness-initiated step runs in the service (or timers are wanted).
	open atomic.Int32
}

func (l *ledger) GetConfig() config.Blockchain { return l.bc.Load().GetConfig() }
func (l *ledger) GetDesignatedByRole(r noderoles.Role) (keys.PublicKeys, uint32, error) {
	return l.bc.Load().GetDesignatedByRole(r)
}
func (l *ledger) GetMillisecondsPerBlock() uint32 { return l.msPerBl }
func (l *ledger) HeaderHeight() uint32 {
	if l.open.Load() <= 0 {
		return ^uint32(0)
	}
	return l.bc.Load().HeaderHeight()
}
func (l *ledger) SubscribeForBlocks(ch chan *block.Block) {
	l.ch = ch
	close(l.subbed)
}
func (l *ledger) UnsubscribeFromBlocks(ch chan *block.Block) {}

// logCore is the service's log sink: it turns the sentinel's error line into a barrier and keeps the other lines.
type logCore struct {
	n *node
}

const sentinelMsg = "can't get state root for new block"

func (c logCore) Enabled(zapcore.Level) bool                { return true }
func (c logCore) With([]zapcore.Field) zapcore.Core         { return c }
func (c logCore) Sync() error                               { return nil }
func (c logCore) Check(e zapcore.Entry, ce *zapcore.CheckedEntry) *zapcore.CheckedEntry {
	return ce.AddCore(e, c)
}
func (c logCore) Write(e zapcore.Entry, fs []zapcore.Field) error {
	if e.Message == sentinelMsg {
		select {
		case c.n.barrier <- struct{}{}:
		default:
		}
		return nil
	}
	if e.Level >= zapcore.WarnLevel {
		c.n.mu.Lock()
		c.n.logs = append(c.n.logs, e.Message)
		c.n.mu.Unlock()
	}
	return nil
}

// node is one participant: a chain on its own store, the chain's state root module and a state root service holding
// (at most) one validator key.
type node struct {
	w      *world
	id     int
	key    int // index into world.keys of the key in this node's wallet (-1: service disabled)
	store  keepStore
	bc     *core.Blockchain
	mod    *corestate.Module
	svc    stateroot.Service
	led    *ledger
	seen   uint32 // last block handed to the service
	mu     sync.Mutex
	logs   []string
	outbox []*payload.Extensible // payloads relayed since the last collect
	closed atomic.Bool
	barrier chan struct{}
}

var walletMu sync.Mutex

// walletFile writes (once per process and key) a wallet with cheap scrypt parameters holding one key.
func walletFile(dir string, label string, k *keys.PrivateKey) (string, error) {
	walletMu.Lock()
	defer walletMu.Unlock()
	p := filepath.Join(dir, "w-"+label+".json")
	if _, err := os.Stat(p); err == nil {
		return p, nil
	}
	w, err := wallet.NewWallet(p)
	if err != nil {
		return "", err
	}
	w.Scrypt = keys.ScryptParams{N: 2, R: 1, P: 1}
	acc := wallet.NewAccountFromPrivateKey(k)
	if err := acc.Encrypt(walletPass, w.Scrypt); err != nil {
		return "", err
	}
	w.AddAccount(acc)
	if err := w.Save(); err != nil {
		return "", err
	}
	return p, nil
}

func (n *node) relay(e *payload.Extensible) {
	if n.closed.Load() {
		return
	}
	n.mu.Lock()
	n.outbox = append(n.outbox, e)
	n.mu.Unlock()
}

// collect returns what the service relayed since the last call.
func (n *node) collect() []*payload.Extensible {
	n.mu.Lock()
	defer n.mu.Unlock()
	o := n.outbox
	n.outbox = nil
	return o
}

func (n *node) takeLogs() []string {
	n.mu.Lock()
	defer n.mu.Unlock()
	l := n.logs
	n.logs = nil
	return l
}

// open starts (or restarts) the chain on the node's store and a fresh service on its module.
func (n *node) open() error {
	bc, err := n.w.net.NewChain(n.store, n.w.hook)
	if err != nil {
		return err
	}
	chainkit.Start(bc)
	n.bc = bc
	n.mod = bc.GetStateModule().(*corestate.Module)
	n.led = &ledger{n: n, subbed: make(chan struct{}), msPerBl: n.w.msPerBlock}
	n.led.bc.Store(bc)
	n.barrier = make(chan struct{}, 1)
	cfg := config.StateRoot{}
	if n.key >= 0 {
		// (the file is named after the key itself: universes of different sizes number their keys differently)
		p, err := walletFile(n.w.dir, n.w.keys[n.key].PublicKey().StringCompressed()[:24], n.w.keys[n.key])
		if err != nil {
			return err
		}
		cfg = config.StateRoot{Enabled: true, UnlockWallet: config.Wallet{Path: p, Password: walletPass}}
	}
	n.led.open.Add(1)
	defer n.led.open.Add(-1)
	svc, err := stateroot.New(cfg, n.mod, zap.New(logCore{n}), n.led, n.relay)
	if err != nil {
		return err
	}
	n.svc = svc
	svc.Start()
	select {
	case <-n.led.subbed:
	case <-time.After(60 * time.Second):
		return fmt.Errorf("service of node %d never subscribed", n.id)
	}
	n.seen = bc.BlockHeight()
	return nil
}

// shutdown stops the service and closes the chain (a clean stop: everything reaches the store).
func (n *node) shutdown() {
	if n.svc != nil {
		n.svc.Shutdown()
		// what core's designation callback would call into after the service is gone (cli/server does the same)
		n.mod.SetUpdateValidatorsCallback(nil)
		n.svc = nil
	}
	if n.bc != nil {
		n.bc.Close()
		n.bc = nil
	}
}

// addBlock stores the next block on the node's chain (the chain's designation callback may run).
func (n *node) addBlock(b *block.Block) error {
	n.led.open.Add(1)
	defer n.led.open.Add(-1)
	return n.bc.AddBlock(b)
}

// svcBlock hands block b to the service's loop and waits until the loop iteration is over.
func (n *node) svcBlock(b *block.Block) error {
	n.led.open.Add(1)
	defer n.led.open.Add(-1)
	sent := &block.Block{Header: block.Header{Index: ^uint32(0)}}
	for _, x := range []*block.Block{b, sent} {
		select {
		case n.led.ch <- x:
		case <-time.After(120 * time.Second):
			return fmt.Errorf("service loop of node %d does not take blocks", n.id)
		}
	}
	select {
	case <-n.barrier:
	case <-time.After(120 * time.Second):
		return fmt.Errorf("service loop of node %d: no barrier", n.id)
	}
	if b.Index > n.seen {
		n.seen = b.Index
	}
	return nil
}

// deliver is what network.Server does with an admitted extensible payload of category StateService.
func (n *node) deliver(e *payload.Extensible) (err error) {
	n.led.open.Add(1)
	defer n.led.open.Add(-1)
	return n.svc.OnPayload(e)
}
