package c03statesvc

import "fmt"

// scripted worlds: regressions of the defects this extension found (all repaired in /repo) and corners the random
// histories reach rarely.  Each returns what it OBSERVED beyond the trace (liveness-style remarks: information only).
type scripted struct {
	name    string
	nkeys   int
	nodeKey []int
	sets    [][]int
	ms      uint32
	play    func(r *run) ([]string, error)
}

func advRoot(h int, root string, keys []int, m, nsig int, matched []int) *AdvP {
	p := &AdvP{H: h, Root: root, Nwit: 1}
	p.Wit.Keys, p.Wit.M, p.Wit.Nsig, p.Wit.Matched = keys, m, nsig, matched
	return p
}

func (r *run) ops(ops ...Op) error {
	for _, o := range ops {
		if _, err := r.exec(o); err != nil {
			return fmt.Errorf("%s: %w", o.Op, err)
		}
	}
	return nil
}

// blocksAll: every node stores and (svc) processes blocks until the history's top.
func (r *run) catchUp(svc bool) error {
	for i, n := range r.w.nodes {
		for n.bc.BlockHeight() < r.w.top() {
			if err := r.ops(Op{Op: "addblock", N: i + 1}); err != nil {
				return err
			}
			if svc {
				if err := r.ops(Op{Op: "svcblock", N: i + 1}); err != nil {
					return err
				}
			}
		}
	}
	return nil
}

func (r *run) emittedRoot(from int, h int) bool {
	return r.sentBy[msgKey{from - 1, "root", r.w.base + uint32(h)}] != nil
}

var (
	setA = []int{1, 2, 3, 4}
	setB = []int{2, 3, 4, 5}
	setC = []int{3, 4, 5, 6}
)

func scriptedWorlds(thorough bool) []scripted {
	all := []scripted{
		{name: "reg-heightback", nkeys: 6, nodeKey: []int{0, 1}, sets: [][]int{setA}, play: func(r *run) ([]string, error) {
			// correctly signed roots arrive in the order 5, 4, 2 (found: the validated height followed them down; d3fcc6d)
			for i := 0; i < 6; i++ {
				if err := r.ops(Op{Op: "newblock"}); err != nil {
					return nil, err
				}
			}
			if err := r.catchUp(true); err != nil {
				return nil, err
			}
			var obs []string
			for _, n := range []int{1, 2} {
				for _, h := range []int{5, 4, 2, 6} {
					if err := r.ops(Op{Op: "advroot", N: n, P: advRoot(h, "g", setA, 3, 3, []int{1, 2, 4})}); err != nil {
						return nil, err
					}
				}
				if vh := int(r.w.nodes[n-1].mod.CurrentValidatedHeight()); vh != int(r.w.base)+6 {
					obs = append(obs, fmt.Sprintf("validated height %d after roots 5,4,2,6", vh))
				}
			}
			return obs, r.ops(Op{Op: "restart", N: 1}, Op{Op: "advroot", N: 1, P: advRoot(3, "g", setA, 3, 3, []int{2, 3, 4})})
		}},
		{name: "reg-threesets", nkeys: 6, nodeKey: []int{0, 3}, sets: [][]int{setA, setB, setC}, play: func(r *run) ([]string, error) {
			// A from the genesis block, B designated in block 2 (in force 3..5), C in block 5 (in force from 6); found: the
			// root of height 4 was accepted with the witness of A (5827c1d)
			for h := 1; h <= 8; h++ {
				d := map[int]int{2: 2, 5: 3}[h]
				if err := r.ops(Op{Op: "newblock", D: d}); err != nil {
					return nil, err
				}
			}
			if err := r.catchUp(true); err != nil {
				return nil, err
			}
			for _, n := range []int{1, 2} {
				if err := r.ops(
					Op{Op: "advroot", N: n, P: advRoot(4, "g", setA, 3, 3, []int{1, 2, 3})},
					Op{Op: "advroot", N: n, P: advRoot(4, "g", setC, 3, 3, []int{3, 4, 5})},
					Op{Op: "advroot", N: n, P: advRoot(7, "g", setB, 3, 3, []int{2, 3, 4})},
					Op{Op: "advroot", N: n, P: advRoot(3, "g", setA, 3, 3, []int{1, 2, 3})},
					Op{Op: "advroot", N: n, P: advRoot(2, "g", setB, 3, 3, []int{2, 3, 4})},
					Op{Op: "advroot", N: n, P: advRoot(4, "g", setB, 3, 3, []int{2, 4, 5})},
					Op{Op: "advroot", N: n, P: advRoot(7, "g", setC, 3, 3, []int{3, 5, 6})},
					Op{Op: "advroot", N: n, P: advRoot(2, "g", setA, 3, 3, []int{1, 3, 4})},
				); err != nil {
					return nil, err
				}
			}
			return nil, nil
		}},
		{name: "reg-badroot-then-votes", nkeys: 6, nodeKey: []int{1, 2, 3, 4}, sets: [][]int{setA}, play: func(r *run) ([]string, error) {
			// found: a refused root marked the incomplete root as sent: the node never assembled that height (51bbb30)
			if err := r.ops(Op{Op: "newblock"}, Op{Op: "newblock"}); err != nil {
				return nil, err
			}
			if err := r.catchUp(true); err != nil {
				return nil, err
			}
			var obs []string
			for h := 1; h <= 2; h++ {
				snd := (int(r.w.base)+h)%4 + 1 // the node whose validator index is h mod 4
				if err := r.ops(Op{Op: "advroot", N: snd, P: advRoot(h, "g", setA, 3, 2, []int{1, 2})},
					Op{Op: "advroot", N: snd, P: advRoot(h, "f", setA, 3, 3, []int{1, 2, 3})}); err != nil {
					return nil, err
				}
				for from := 1; from <= 4; from++ {
					if from != snd {
						if err := r.ops(Op{Op: "deliver", N: snd, T: "vote", From: from, H: h}); err != nil {
							return nil, err
						}
					}
				}
				if !r.emittedRoot(snd, h) {
					obs = append(obs, fmt.Sprintf("node %d never assembled height %d after refusing a root for it", snd, h))
				}
			}
			return obs, nil
		}},
		{name: "early-vote", nkeys: 6, nodeKey: []int{2, 3, 4, 5}, sets: [][]int{setA, setB}, play: func(r *run) ([]string, error) {
			// votes for height 3 reach node 1 (key 2) before it stored the designating block 1: its incomplete root keeps
			// the validator list of that moment
			if err := r.ops(Op{Op: "newblock", D: 2}, Op{Op: "newblock"}, Op{Op: "newblock"}); err != nil {
				return nil, err
			}
			for n := 2; n <= 4; n++ {
				for h := 1; h <= 3; h++ {
					if err := r.ops(Op{Op: "addblock", N: n}, Op{Op: "svcblock", N: n}); err != nil {
						return nil, err
					}
				}
			}
			// honest votes (indexes of the new set), then the same signatures under the indexes of the OLD set
			if err := r.ops(Op{Op: "deliver", N: 1, T: "vote", From: 2, H: 3}, Op{Op: "deliver", N: 1, T: "vote", From: 3, H: 3},
				Op{Op: "advvote", N: 1, V: &AdvV{H: 3, Idx: 2, K: 3, Ch: 3, Cr: "g"}},
				Op{Op: "advvote", N: 1, V: &AdvV{H: 3, Idx: 3, K: 4, Ch: 3, Cr: "g"}}); err != nil {
				return nil, err
			}
			for h := 1; h <= 3; h++ {
				if err := r.ops(Op{Op: "addblock", N: 1}, Op{Op: "svcblock", N: 1}); err != nil {
					return nil, err
				}
			}
			err := r.ops(Op{Op: "deliver", N: 1, T: "vote", From: 2, H: 3}, Op{Op: "deliver", N: 1, T: "vote", From: 3, H: 3},
				Op{Op: "deliver", N: 1, T: "vote", From: 4, H: 3})
			var obs []string
			if e := r.sentBy[msgKey{0, "root", r.w.base + 3}]; e != nil {
				d := r.w.describe(e)
				obs = append(obs, fmt.Sprintf("node 1 broadcast a root of height 3 with witness keys %v (in force: k1..k4)", d["wit"].(map[string]any)["keys"]))
			}
			return obs, err
		}},
		{name: "trim-window", nkeys: 6, nodeKey: []int{1, 2, 3, 4}, sets: [][]int{setA}, play: func(r *run) ([]string, error) {
			// 13 heights: the incomplete roots of heights <= top-10 are gone; late votes for them (re)create entries that
			// never complete; a late validated root is still taken
			for i := 0; i < 13; i++ {
				if err := r.ops(Op{Op: "newblock"}); err != nil {
					return nil, err
				}
			}
			if err := r.catchUp(true); err != nil {
				return nil, err
			}
			snd := (int(r.w.base)+1)%4 + 1
			for from := 1; from <= 4; from++ {
				if from != snd {
					if err := r.ops(Op{Op: "deliver", N: snd, T: "vote", From: from, H: 1}); err != nil {
						return nil, err
					}
				}
			}
			var obs []string
			if !r.emittedRoot(snd, 1) {
				obs = append(obs, "votes for a height behind the window no longer complete a root (expected)")
			}
			s2 := (int(r.w.base)+12)%4 + 1
			for from := 1; from <= 4; from++ {
				if from != s2 {
					if err := r.ops(Op{Op: "deliver", N: s2, T: "vote", From: from, H: 12}); err != nil {
						return nil, err
					}
				}
			}
			if !r.emittedRoot(s2, 12) {
				obs = append(obs, "height 12 (inside the window) was not assembled")
			}
			return obs, r.ops(Op{Op: "advroot", N: snd, P: advRoot(1, "g", setA, 3, 3, []int{1, 2, 3})},
				Op{Op: "deliver", N: 1, T: "root", From: s2, H: 12}, Op{Op: "deliver", N: 2, T: "root", From: s2, H: 12})
		}},
		{name: "restart-keeps", nkeys: 6, nodeKey: []int{1, 2, 3, 4}, sets: [][]int{setA, setB}, play: func(r *run) ([]string, error) {
			for h := 1; h <= 5; h++ {
				d := map[int]int{3: 2}[h]
				if err := r.ops(Op{Op: "newblock", D: d}); err != nil {
					return nil, err
				}
			}
			if err := r.catchUp(true); err != nil {
				return nil, err
			}
			for n := 1; n <= 4; n++ {
				if err := r.ops(Op{Op: "advroot", N: n, P: advRoot(2, "g", setA, 3, 3, []int{1, 2, 3})},
					Op{Op: "advroot", N: n, P: advRoot(5, "g", setB, 3, 3, []int{2, 3, 4})},
					Op{Op: "restart", N: n},
					Op{Op: "advroot", N: n, P: advRoot(4, "g", setB, 3, 3, []int{3, 4, 5})},
					Op{Op: "advroot", N: n, P: advRoot(1, "g", setA, 3, 3, []int{1, 2, 3})},
					Op{Op: "restart", N: n}); err != nil {
					return nil, err
				}
			}
			if err := r.ops(Op{Op: "newblock"}); err != nil {
				return nil, err
			}
			return nil, r.catchUp(true)
		}},
		{name: "timers", nkeys: 6, nodeKey: []int{1, 2, 3, 4}, sets: [][]int{setA}, ms: 1, play: func(r *run) ([]string, error) {
			// real re-send timers (3 s): after the first re-send the sender rotates to (h-1) mod 4
			if err := r.ops(Op{Op: "newblock"}); err != nil {
				return nil, err
			}
			if err := r.catchUp(true); err != nil {
				return nil, err
			}
			s0 := (int(r.w.base)+1)%4 + 1
			s1 := (int(r.w.base)+1-1)%4 + 1
			for from := 1; from <= 4; from++ {
				if from != s1 {
					if err := r.ops(Op{Op: "deliver", N: s1, T: "vote", From: from, H: 1}); err != nil {
						return nil, err
					}
				}
			}
			var obs []string
			if r.emittedRoot(s1, 1) {
				obs = append(obs, "a node that is not the sender of the first round assembled")
			}
			if err := r.ops(Op{Op: "tick", Ms: 3600}); err != nil {
				return nil, err
			}
			// any vote again: the rotated sender looks at what it has
			f := s0
			if err := r.ops(Op{Op: "deliver", N: s1, T: "vote", From: f, H: 1}); err != nil {
				return nil, err
			}
			if !r.emittedRoot(s1, 1) {
				obs = append(obs, "timing: the rotated sender did not assemble after the first re-send (loaded machine or no rotation)")
			}
			for n := 1; n <= 4; n++ {
				if n != s1 && r.emittedRoot(s1, 1) {
					if err := r.ops(Op{Op: "deliver", N: n, T: "root", From: s1, H: 1}); err != nil {
						return nil, err
					}
				}
			}
			return obs, nil
		}},
	}
	_ = thorough
	return all
}
