//go:build verif

package c12xscript

import (
	"encoding/hex"
	"fmt"

	"verifharness/internal/vh"

	"github.com/nspcc-dev/neo-go/pkg/core/fee"
	"github.com/nspcc-dev/neo-go/pkg/crypto/hash"
	"github.com/nspcc-dev/neo-go/pkg/smartcontract/callflag"
	"github.com/nspcc-dev/neo-go/pkg/smartcontract/manifest"
	"github.com/nspcc-dev/neo-go/pkg/smartcontract/nef"
	"github.com/nspcc-dev/neo-go/pkg/smartcontract/scparser"
	"github.com/nspcc-dev/neo-go/pkg/util"
	"github.com/nspcc-dev/neo-go/pkg/vm"
	"github.com/nspcc-dev/neo-go/pkg/vm/opcode"
	"github.com/nspcc-dev/neo-go/pkg/vm/stackitem"
)

// How a callee is loaded (the `kind` of VMXRef!LoadCallee).
const (
	kRV1 = iota // exactly one return value: LoadScriptWithHash, or LoadNEFMethod(hasReturn) with unload callbacks
	kRV0        // no return value: LoadNEFMethod(void)
	kCC0        // no return value + DynamicOnUnload (what System.Contract.Call does for a void method)
	kAll        // LoadScriptWithFlags: return count -1
	kDyn        // LoadDynamicScript: return count -1 + DynamicOnUnload
)

var kindNames = []string{"rv1", "rv0", "cc0", "all", "dyn"}

func kindOf(s string) int {
	for i, n := range kindNames {
		if n == s {
			return i
		}
	}
	return -1
}

const sysBase = 0x12C00000

// sysID encodes the harness syscall "load script idx with k arguments" (variant: which API of the VM is used
// where several implement the kind).
func sysID(idx, k, kind, variant int) uint32 {
	return uint32(sysBase | variant<<19 | kind<<16 | k<<8 | idx)
}

type script struct {
	Code    []byte
	Bounds  []bool
	InitOff int // offset of an _initialize-like function called on load (LoadNEFMethod), -1: none
	Hash    util.Uint160
}

// mark is a prediction of the implementation-shaped model at an action boundary of a realised behaviour.
type mark struct {
	Refs, Walked, Step int
	Op                 string
}

type program struct {
	Scripts     []*script // 0 is the entry script
	Marks       map[[2]int]mark
	ExpectFault bool // the model says the last realised action ends in FAULT
	ExpectHalt  bool // the model says the last realised action is the entry frame's RET
}

type runSpec struct {
	Src   string
	Prog  *program
	Limit int64 // gas limit, datoshi (finite)
	Base  int64 // price of one opcode unit in picoGAS (plain VM only)
	Note  string
	// real-chain binding: the VM of an interop context of a real Blockchain (fresh, nothing loaded); the scripts of
	// Prog are deployed contracts (Hash = contract hash) and the transaction script
	ChainVM *vm.VM
}

type runOut struct {
	State    string
	Panicked bool
	Gas      int64
	Steps    int
	Halted   bool
	MarksHit int
	MaxWalk  int
	MaxIDep  int
	MaxSC    int
	Loads    int
	Rets     int
	Unwinds  int // script contexts unloaded by exception unwinding
	Dropped  int // cells left on stacks that unwinding dropped
	Cyc      bool
}

// opName: mnemonic of the instruction executed before an observation ("load" before the first one)
func opName(op opcode.Opcode, off int) string {
	if off < 0 {
		return "load"
	}
	return op.String()
}

func limbs(x int64) []int64 {
	if x < 0 {
		x = 0
	}
	return []int64{x >> 60, (x >> 30) & (1<<30 - 1), x & (1<<30 - 1)}
}

var runCounter int

// observer watches one VM between instructions.
type observer struct {
	v        *vm.VM
	byHash   map[util.Uint160]int
	prev     *walker
	prevTop  *vm.Stack // the stack the last instruction executed on
	dropped  [][]stackitem.Item
	pending  map[*vm.Stack]struct{} // dropped by the last instruction: the number of operands it popped first is established below
	cyc      bool
	lastOp   opcode.Opcode
	lastOff  int
	lastH    int
	unloads  int // onUnload callbacks so far
}

func (ob *observer) scriptOf(c *vm.Context) int {
	if i, ok := ob.byHash[c.ScriptHash()]; ok {
		return i
	}
	return -1
}

type seen struct {
	o      obs
	WA     int    // the walk extended over the cells of the stacks that exception unwinding dropped
	Across string // what happened to the set of loaded script contexts since the previous observation
}

// popsOf: how many operands the instruction takes from its stack before it raises its exception (-1: unknown)
func popsOf(op opcode.Opcode) int {
	switch op {
	case opcode.THROW:
		return 1
	case opcode.ENDFINALLY:
		return 0
	}
	return -1
}

// observe walks the VM and classifies what happened to the loaded script contexts since the previous observation.
// Stack objects that vanished without a RET were dropped by exception unwinding: what they held (as of the previous
// observation, less the operands of the raising instruction) is remembered, and walked as extra roots into WA.
func (ob *observer) observe(refs int, final bool) seen {
	w := walkVM(ob.v, ob.scriptOf)
	var s seen
	if ob.prev != nil {
		live := map[*vm.Slot]struct{}{}
		for _, sc := range w.o.SCs {
			live[sc.id] = struct{}{}
		}
		was := map[*vm.Slot]struct{}{}
		gone := 0
		for _, sc := range ob.prev.o.SCs {
			was[sc.id] = struct{}{}
			if _, ok := live[sc.id]; !ok {
				gone++
			}
		}
		fresh := 0
		for _, sc := range w.o.SCs {
			if _, ok := was[sc.id]; !ok {
				fresh++
			}
		}
		switch {
		case fresh > 0:
			s.Across = "call"
		case gone > 0 && ob.lastOp == opcode.RET:
			s.Across = "ret"
		case gone > 0:
			s.Across = "unwind"
		}
		if gone > 0 && ob.lastOp != opcode.RET && !final {
			for st, cells := range ob.prev.o.cells {
				if _, ok := w.o.cells[st]; ok || len(cells) == 0 {
					continue
				}
				if st != ob.prevTop {
					ob.dropped = append(ob.dropped, cells)
					continue
				}
				// the stack the raising instruction worked on: it popped its operands first
				p := popsOf(ob.lastOp)
				if p < 0 { // established by comparison with the counter: the number of popped operands that explains it
					p = 0
					for t := 0; t <= 3 && t <= len(cells); t++ {
						if refs == ob.walkWith(w, append(append([][]stackitem.Item{}, ob.dropped...), cells[:len(cells)-t])) {
							p = t
							break
						}
					}
				}
				if p > len(cells) {
					p = len(cells)
				}
				ob.dropped = append(ob.dropped, cells[:len(cells)-p])
			}
		}
	}
	s.o = w.o
	s.WA = w.o.Walked
	if len(ob.dropped) > 0 {
		s.WA = ob.walkWith(w, ob.dropped)
	}
	prevC := []stackitem.Item(nil)
	if ob.prev != nil {
		prevC = ob.prev.o.Compact
	}
	if !ob.cyc && (len(w.o.Compact) > 0 || len(prevC) > 0) && hasCycle(prevC, w.o.Compact) {
		ob.cyc = true
	}
	ob.prev = w
	ob.prevTop = ob.v.Estack()
	return s
}

// walkWith continues the walk w over extra root cells (a copy: w itself stays the walk of the live roots).
func (ob *observer) walkWith(w *walker, extra [][]stackitem.Item) int {
	c := &walker{seen: make(map[stackitem.Item]struct{}, len(w.seen))}
	for k := range w.seen {
		c.seen[k] = struct{}{}
	}
	c.o.Walked = w.o.Walked
	for _, cells := range extra {
		for _, it := range cells {
			c.cell(it)
		}
	}
	return c.o.Walked
}

func droppedCells(d [][]stackitem.Item) int {
	n := 0
	for _, c := range d {
		n += len(c)
	}
	return n
}

var emptyManifest = manifest.NewManifest("xscript")

// loader is the SyscallHandler of the harness: "load script idx with k arguments".  It pops the k arguments
// (counted Pops, top first), loads the callee through one of the VM's loading functions and pushes the arguments
// on the callee's stack so that their order is kept - exactly what callExFromNative / runtime.LoadScript do.
func (ob *observer) loader(p *program, out *runOut) func(v *vm.VM, id uint32) error {
	return func(v *vm.VM, id uint32) error {
		if id&0xFFF00000 != sysBase {
			return fmt.Errorf("unknown syscall %x", id)
		}
		idx, k, kind, variant := int(id&0xFF), int(id>>8&0xFF), int(id>>16&7), int(id>>19&1)
		if idx >= len(p.Scripts) || p.Scripts[idx] == nil {
			return fmt.Errorf("no script %d", idx)
		}
		sc := p.Scripts[idx]
		if v.Estack().Len() < k {
			return fmt.Errorf("%d arguments expected", k)
		}
		args := make([]stackitem.Item, k)
		for i := range args {
			args[i] = v.Estack().Pop().Item()
		}
		caller := v.GetCurrentScriptHash()
		rec := func(dyn bool) vm.ContextUnloadCallback {
			return func(v *vm.VM, ctx *vm.Context, commit bool) error {
				ob.unloads++
				if dyn {
					return vm.DynamicOnUnload(v, ctx, commit)
				}
				return nil
			}
		}
		// (no onUnloaded callback: with one, unloadContext turns every exception passing through into a FAULT - the
		// 'called from a native contract' rule -, nothing would ever be caught across the boundary)
		nefOf := func() (*nef.File, error) { return nef.NewFile(sc.Code) }
		switch kind {
		case kRV1:
			if variant == 0 && sc.InitOff < 0 {
				v.LoadScriptWithHash(sc.Code, sc.Hash, callflag.All)
			} else {
				ne, err := nefOf()
				if err != nil {
					return err
				}
				v.LoadNEFMethod(ne, emptyManifest, caller, sc.Hash, callflag.All, true, 0, sc.InitOff, rec(variant == 1), nil, false)
			}
		case kRV0, kCC0:
			ne, err := nefOf()
			if err != nil {
				return err
			}
			v.LoadNEFMethod(ne, emptyManifest, caller, sc.Hash, callflag.All, false, 0, sc.InitOff, rec(kind == kCC0), nil, false)
		case kAll:
			v.LoadScriptWithFlags(sc.Code, callflag.All)
		case kDyn:
			v.LoadDynamicScript(sc.Code, callflag.All)
		default:
			return fmt.Errorf("unknown load kind %d", kind)
		}
		out.Loads++
		for i := k - 1; i >= 0; i-- {
			v.Estack().PushItem(args[i])
		}
		return nil
	}
}

// execute runs one multi-script program under one finite gas limit on a fresh VM and records one trace.
func execute(res *vh.Result, tr *vh.Trace, rs runSpec) runOut {
	runCounter++
	id := runCounter
	var out runOut
	p := rs.Prog
	checked := true
	hexes := make([]string, len(p.Scripts))
	byHash := map[util.Uint160]int{}
	for i, sc := range p.Scripts {
		if sc == nil {
			continue
		}
		if sc.Hash.Equals(util.Uint160{}) {
			sc.Hash = hash.Hash160(sc.Code)
		}
		byHash[sc.Hash] = i
		hexes[i] = hex.EncodeToString(sc.Code)
		func() {
			defer func() {
				if r := recover(); r != nil {
					checked = false
				}
			}()
			if scparser.IsScriptCorrect(sc.Code, nil) != nil {
				checked = false
			}
		}()
	}
	bind := "vm"
	if rs.ChainVM != nil {
		bind = "chain"
	}
	tr.Emit(map[string]any{"e": "i", "id": id, "src": rs.Src, "lim": limbs(rs.Limit), "chk": checked,
		"n": len(p.Scripts), "scripts": hexes, "base": rs.Base, "note": rs.Note, "bind": bind})

	v := rs.ChainVM
	if v == nil {
		v = vm.New()
		base := rs.Base
		v.SetPriceGetter(func(op opcode.Opcode, _ []byte) int64 { return fee.Opcode(base, op) })
	}
	ob := &observer{v: v, byHash: byHash, lastOff: -1, lastH: -1}
	if rs.ChainVM == nil {
		v.SyscallHandler = ob.loader(p, &out)
	}
	drifted := false
	hit := map[[2]int]bool{}
	src3 := rs.Src
	if len(src3) > 3 {
		src3 = src3[:3]
	}
	note := func(s seen) {
		out.MaxWalk = max(out.MaxWalk, s.o.Walked)
		out.MaxIDep = max(out.MaxIDep, s.o.IDepth)
		out.MaxSC = max(out.MaxSC, len(s.o.SCs))
		switch s.Across {
		case "call":
			if rs.ChainVM != nil {
				out.Loads++
			}
		case "ret":
			out.Rets++
		case "unwind":
			out.Unwinds++
		}
		out.Dropped = droppedCells(ob.dropped)
	}
	shape := func(s seen) (ss, fr, sl, sx []int) {
		ss, fr, sl, sx = []int{}, []int{}, []int{}, []int{}
		for _, sc := range s.o.SCs {
			ss, fr, sl, sx = append(ss, sc.Stack), append(fr, sc.Frames), append(sl, sc.Static), append(sx, sc.Script)
		}
		return
	}
	v.SetOnExecHook(func(h util.Uint160, off int, op opcode.Opcode) {
		out.Steps++
		refs := v.VerifRefs()
		s := ob.observe(refs, false)
		note(s)
		hi, known := byHash[h]
		if !known {
			hi = -1
		}
		onb := known && off >= 0 && off < len(p.Scripts[hi].Bounds) && p.Scripts[hi].Bounds[off]
		ss, fr, sl, sx := shape(s)
		tr.Emit(map[string]any{"e": "s", "h": hi, "o": off, "op": int(op), "r": refs, "w": s.o.Walked, "wa": s.WA, "c": ob.cyc,
			"b": s.o.Bits, "z": s.o.Size, "i": s.o.IDepth, "t": s.o.TDepth, "g": limbs(v.GasConsumed()), "k": onb,
			"st": v.State().String(), "x": s.Across, "ss": ss, "fr": fr, "sl": sl, "sx": sx, "lop": int(ob.lastOp),
			"lopn": opName(ob.lastOp, ob.lastOff), "opn": op.String(), "cb": ob.unloads})
		res.Count([]any{src3, int(ob.lastOp), int(op), refs - s.o.Walked, s.WA - s.o.Walked, ob.cyc, s.Across, fr, sl})
		if m, ok := p.Marks[[2]int{hi, off}]; ok && !hit[[2]int{hi, off}] {
			hit[[2]int{hi, off}] = true
			out.MarksHit++
			if !drifted && (m.Refs != refs || m.Walked != s.o.Walked) {
				drifted = true // later predictions of this run inherit the difference: one record per run
				res.Inc("drift", 1)
				res.AddDrift(map[string]any{"part": "xscript", "src": rs.Src, "step": m.Step, "op": m.Op, "predicted_refs": m.Refs,
					"predicted_walked": m.Walked, "refs": refs, "walked": s.o.Walked, "scripts": hexes})
			}
		}
		ob.lastOff, ob.lastOp, ob.lastH = off, op, hi
	})
	if rs.ChainVM == nil {
		v.LoadWithFlags(p.Scripts[0].Code, callflag.All)
	} else {
		v.LoadScriptWithFlags(p.Scripts[0].Code, callflag.All)
	}
	v.SetGasLimit(rs.Limit)
	var runErr error
	var panicked any
	func() {
		defer func() { panicked = recover() }()
		runErr = v.Run()
	}()
	out.Gas = v.GasConsumed()
	out.State = v.State().String()
	out.Halted = v.HasHalted() && !v.HasFailed()
	if panicked != nil {
		out.Panicked = true
		res.Violate(map[string]any{"part": "xscript", "kind": "panic", "op": ob.lastOp.String(), "across": "", "binding": bind},
			fmt.Sprintf("a Go panic escaped VM.Run at script %d offset %d (%s): %v", ob.lastH, ob.lastOff, ob.lastOp, panicked),
			map[string]any{"scripts": hexes, "limit": rs.Limit, "base": rs.Base})
	}
	fin := map[string]any{"e": "f", "st": out.State, "p": out.Panicked, "g": limbs(out.Gas), "err": runErr != nil,
		"h": ob.lastH, "lo": ob.lastOff, "lop": int(ob.lastOp), "lopn": opName(ob.lastOp, ob.lastOff), "cb": ob.unloads, "loads": out.Loads}
	if !out.Panicked && !v.HasFailed() {
		refs := v.VerifRefs()
		s := ob.observe(refs, true)
		note(s)
		fin["r"], fin["w"], fin["wa"], fin["c"], fin["b"], fin["z"], fin["i"], fin["t"], fin["x"] = refs, s.o.Walked, s.WA, ob.cyc, s.o.Bits, s.o.Size, s.o.IDepth, s.o.TDepth, s.Across
	} else {
		// nothing is said about the wreck of a faulted VM: scalars are recorded as zero and not judged
		fin["r"], fin["w"], fin["wa"], fin["c"], fin["b"], fin["z"], fin["i"], fin["t"], fin["x"] = 0, 0, 0, ob.cyc, 0, 0, 0, 0, ""
	}
	out.Cyc = ob.cyc
	if runErr != nil {
		m := runErr.Error()
		if len(m) > 160 {
			m = m[:160]
		}
		fin["msg"] = m
	}
	tr.Emit(fin)
	res.Traces++
	if p.ExpectFault && out.MarksHit == len(p.Marks) && out.State != "FAULT" {
		res.Inc("drift", 1)
		res.AddDrift(map[string]any{"part": "xscript", "src": rs.Src, "what": "the model predicts a FAULT", "state": out.State, "scripts": hexes})
	}
	return out
}
