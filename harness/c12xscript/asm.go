//go:build verif

// Package c12xscript drives the real NeoVM through executions that span several scripts (extension "xscript" of
// C12): programs are generated from behaviours of spec/vmxref/VMXRef.tla and by a seeded random walker, loaded
// into one vm.VM through harness syscalls (and, second binding, deployed as contracts on a real chain), observed
// before every instruction and judged by spec/vmxref/VMXRefTrace.tla.
package c12xscript

import (
	"encoding/binary"

	"github.com/nspcc-dev/neo-go/pkg/vm/opcode"
)

// asm is a tiny assembler with 4-byte relative fix-ups.  It remembers where instructions start: the harness's
// own instruction boundaries of the scripts it builds (independent of scparser, the code under test).
type asm struct {
	b      []byte
	starts []int
}

func (a *asm) pos() int { return len(a.b) }

func (a *asm) mark() { a.starts = append(a.starts, len(a.b)) }

func (a *asm) op(ops ...opcode.Opcode) {
	for _, o := range ops {
		a.mark()
		a.b = append(a.b, byte(o))
	}
}

func (a *asm) op1(o opcode.Opcode, x ...int) {
	a.mark()
	a.b = append(a.b, byte(o))
	for _, v := range x {
		a.b = append(a.b, byte(v))
	}
}

func (a *asm) pushInt(n int64) {
	switch {
	case n >= -1 && n <= 16:
		a.op(opcode.Opcode(int(opcode.PUSH0) + int(n)))
	case n >= -128 && n <= 127:
		a.op1(opcode.PUSHINT8, int(byte(int8(n))))
	case n >= -32768 && n <= 32767:
		a.mark()
		a.b = append(a.b, byte(opcode.PUSHINT16))
		a.b = binary.LittleEndian.AppendUint16(a.b, uint16(int16(n)))
	default:
		a.mark()
		a.b = append(a.b, byte(opcode.PUSHINT32))
		a.b = binary.LittleEndian.AppendUint32(a.b, uint32(int32(n)))
	}
}

func (a *asm) pushData(d []byte) {
	a.mark()
	if len(d) < 256 {
		a.b = append(a.b, byte(opcode.PUSHDATA1), byte(len(d)))
	} else {
		a.b = append(a.b, byte(opcode.PUSHDATA2))
		a.b = binary.LittleEndian.AppendUint16(a.b, uint16(len(d)))
	}
	a.b = append(a.b, d...)
}

// jmpL emits a long jump-like instruction (JMPL, CALLL, ENDTRYL) with a placeholder; fix() sets the target.
func (a *asm) jmpL(o opcode.Opcode) int {
	at := a.pos()
	a.mark()
	a.b = append(a.b, byte(o), 0, 0, 0, 0)
	return at
}

// fix sets the 4-byte operand number k (TRYL has two) of the instruction at `at` to target-at.
func (a *asm) fix(at int, k int, target int) {
	binary.LittleEndian.PutUint32(a.b[at+1+4*k:], uint32(int32(target-at)))
}

// tryL emits TRYL with placeholders (an operand of 0 means "no such block").
func (a *asm) tryL() int {
	at := a.pos()
	a.mark()
	a.b = append(a.b, byte(opcode.TRYL), 0, 0, 0, 0, 0, 0, 0, 0)
	return at
}

func (a *asm) syscall(id uint32) {
	a.mark()
	a.b = append(a.b, byte(opcode.SYSCALL))
	a.b = binary.LittleEndian.AppendUint32(a.b, id)
}

// bounds returns the instruction boundary table of the finished script.
func (a *asm) bounds() []bool {
	t := make([]bool, len(a.b)+1)
	for _, s := range a.starts {
		t[s] = true
	}
	return t
}
