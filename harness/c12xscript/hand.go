//go:build verif

package c12xscript

import (
	"fmt"

	"github.com/nspcc-dev/neo-go/pkg/core/interop/interopnames"
	"github.com/nspcc-dev/neo-go/pkg/core/state"
	"github.com/nspcc-dev/neo-go/pkg/neotest"
	"github.com/nspcc-dev/neo-go/pkg/smartcontract"
	"github.com/nspcc-dev/neo-go/pkg/smartcontract/manifest"
	"github.com/nspcc-dev/neo-go/pkg/smartcontract/nef"
	"github.com/nspcc-dev/neo-go/pkg/vm/opcode"
)

// Hand-assembled programs with what the straight-line realiser cannot express: ONE script loaded several times at
// once (a script that calls itself): equal code, equal script hash, different script contexts, each with a
// static slot of its own that has to be released when ITS last frame goes.

type handProg struct {
	name string
	p    *program
}

// selfRec: script 1 takes n, stores it in its static slot and, while n > 0, loads itself with n-1; at n = 0 it
// returns (throws = FALSE) or throws with one more item left on its stack.  inner: the load is made from an internal
// call frame.  call(a) emits "load script 1 with the one argument on the stack".
func selfRecCode(throws, inner bool, call func(a *asm)) *asm {
	a := &asm{}
	a.op1(opcode.INITSSLOT, 1)
	a.op(opcode.DUP, opcode.STSFLD0, opcode.DUP, opcode.PUSH0, opcode.NUMEQUAL)
	j := a.jmpL(opcode.JMPIFNOTL)
	if throws {
		a.op(opcode.PUSH7, opcode.THROW)
	} else {
		a.op(opcode.RET)
	}
	a.fix(j, 0, a.pos())
	a.op(opcode.DEC)
	if inner {
		c := a.jmpL(opcode.CALLL)
		a.op(opcode.RET)
		a.fix(c, 0, a.pos())
		a.op1(opcode.INITSLOT, 1, 0)
		a.op(opcode.PUSH1, opcode.STLOC0)
	}
	call(a)
	a.op(opcode.RET)
	return a
}

func selfRecEntry(depth int, call func(a *asm)) *asm {
	a := &asm{}
	t := a.tryL()
	a.pushInt(int64(depth))
	call(a)
	a.op(opcode.DROP)
	e1 := a.jmpL(opcode.ENDTRYL)
	a.fix(t, 0, a.pos())
	a.op(opcode.DROP)
	e2 := a.jmpL(opcode.ENDTRYL)
	a.fix(e1, 0, a.pos())
	a.fix(e2, 0, a.pos())
	a.op(opcode.RET)
	return a
}

func handPrograms() []handProg {
	var out []handProg
	call := func(a *asm) { a.syscall(sysID(1, 1, kRV1, 0)) }
	callNEF := func(a *asm) { a.syscall(sysID(1, 1, kRV1, 1)) }
	for _, throws := range []bool{false, true} {
		for _, inner := range []bool{false, true} {
			for v, c := range []func(*asm){call, callNEF} {
				s := selfRecCode(throws, inner, c)
				e := selfRecEntry(3, c)
				out = append(out, handProg{fmt.Sprintf("selfrec-throws=%v-inner=%v-api%d", throws, inner, v), &program{Scripts: []*script{
					{Code: e.b, Bounds: e.bounds(), InitOff: -1}, {Code: s.b, Bounds: s.bounds(), InitOff: -1}}}})
			}
		}
	}
	return out
}

// handChain: the same as one contract calling itself through System.Contract.Call (its own hash from
// System.Runtime.GetExecutingScriptHash).
func handChain(w *chainWorld) []*chainProg {
	var out []*chainProg
	getHash := interopnames.ToID([]byte(interopnames.SystemRuntimeGetExecutingScriptHash))
	for _, throws := range []bool{false, true} {
		for _, inner := range []bool{false, true} {
			w.seq++
			self := func(a *asm) {
				a.op(opcode.PUSH1, opcode.PACK, opcode.PUSH15)
				a.pushData([]byte("m"))
				a.syscall(getHash)
				a.syscall(sysContractCall)
			}
			s := selfRecCode(throws, inner, self)
			ne, err := nef.NewFile(s.b)
			if err != nil {
				w.t.Fatal(err)
			}
			m := manifest.NewManifest(fmt.Sprintf("xsrec%d", w.seq))
			m.ABI.Methods = []manifest.Method{{Name: "m", Offset: 0, ReturnType: smartcontract.AnyType,
				Parameters: []manifest.Parameter{manifest.NewParameter("n", smartcontract.AnyType)}}}
			m.Permissions = []manifest.Permission{*manifest.NewPermission(manifest.PermissionWildcard)}
			h := state.CreateContractHash(w.val.ScriptHash(), ne.Checksum, m.Name)
			e := selfRecEntry(3, func(a *asm) {
				a.op(opcode.PUSH1, opcode.PACK, opcode.PUSH15)
				a.pushData([]byte("m"))
				a.pushData(h.BytesBE())
				a.syscall(sysContractCall)
			})
			be := &chainBackend{w: w, contracts: map[int]*neotest.Contract{1: {Hash: h, NEF: ne, Manifest: m}}}
			out = append(out, &chainProg{src: fmt.Sprintf("chain-selfrec-throws=%v-inner=%v", throws, inner), be: be, p: &program{Scripts: []*script{
				{Code: e.b, Bounds: e.bounds(), InitOff: -1}, {Code: s.b, Bounds: s.bounds(), InitOff: -1}}}})
		}
	}
	return out
}
