//go:build verif

package c12xscript

import (
	"fmt"
	"os"
	"testing"

	"verifharness/internal/vh"
)

func TestDbg(t *testing.T) {
	res := vh.NewResult()
	tr := vh.NewTrace("dbg.ndjson")
	for i, sp := range scripted() {
		if os.Getenv("DBG") != "" && sp.name != os.Getenv("DBG") {
			continue
		}
		p, err := realize(sp.hist, i, vmBackend{}, sp.noInit, false)
		if err != nil {
			t.Fatal(err)
		}
		for j, sc := range p.Scripts {
			fmt.Printf("%s script %d: %x init=%d\n", sp.name, j, sc.Code, sc.InitOff)
		}
		o := execute(res, tr, runSpec{Src: sp.name, Prog: p, Limit: bigLimit, Base: 300000})
		fmt.Printf("%+v\n", o)
	}
	tr.Close()
}
