//go:build verif

package c12xscript

import "math/rand"

// The seeded random walker: behaviours over the alphabet of VMXRef in universes far larger than the model-checked
// ones (3-5 script contexts loaded at once, up to 8 frames, arrays of hundreds of elements, several slot cells).
// It keeps only as much abstract state as is needed to emit well-typed programs (which cell holds an array, how
// long arrays are, which frames have handlers); it predicts no counts - the real VM's counter is judged against the
// harness's walk by the abstract level alone.

type aarr struct{ n int }
type aitem struct{ arr *aarr } // arr == nil: a primitive

type aframe struct {
	loc []aitem
	arg bool
	try bool
}

type asc struct {
	st     []aitem
	static []aitem // nil: INITSSLOT not executed
	own    bool
	kind   int
	frames []aframe
}

type rwalk struct {
	r      *rand.Rand
	scs    []*asc
	steps  []MStep
	big    int // elements of the large arrays created so far
	loads  int
	maxSC  int
	maxFr  int
	ended  bool
	throws int
}

func (w *rwalk) emit(op string, a, b int, kd string) {
	w.steps = append(w.steps, MStep{Op: op, A: a, B: b, Kd: kd, St: "run"})
}

func (w *rwalk) cur() *asc { return w.scs[len(w.scs)-1] }

// owner is the script context whose stack object script context i works on
func (w *rwalk) owner(i int) *asc {
	for !w.scs[i].own {
		i--
	}
	return w.scs[i]
}
func (w *rwalk) stk() *[]aitem { return &w.owner(len(w.scs) - 1).st }

func (w *rwalk) nframes() int {
	n := 0
	for _, s := range w.scs {
		n += len(s.frames)
	}
	return n
}

func (w *rwalk) hasHandler() bool {
	for _, s := range w.scs {
		for _, f := range s.frames {
			if f.try {
				return true
			}
		}
	}
	return false
}

func (w *rwalk) push(it aitem) { st := w.stk(); *st = append(*st, it) }
func (w *rwalk) pop() aitem {
	st := w.stk()
	it := (*st)[len(*st)-1]
	*st = (*st)[:len(*st)-1]
	return it
}

// settle makes the current stack hold between lo and hi items (drops / pushes), emitting the steps
func (w *rwalk) settle(lo, hi int) {
	for len(*w.stk()) > hi {
		w.pop()
		w.emit("drop", 0, 0, "")
	}
	for len(*w.stk()) < lo {
		w.push(aitem{})
		w.emit("prim", 0, 0, "")
	}
}

// ret returns from the current frame; good = FALSE: without caring for the return count (may FAULT)
func (w *rwalk) ret(good bool) {
	c := w.cur()
	if len(c.frames) > 1 {
		c.frames = c.frames[:len(c.frames)-1]
		w.emit("ret", 0, 0, "")
		return
	}
	if len(w.scs) == 1 {
		w.emit("ret", 2, 0, "entry")
		w.ended = true
		return
	}
	if good {
		switch c.kind {
		case kRV1:
			w.settle(1, 1)
		case kRV0, kCC0:
			w.settle(0, 0)
		case kDyn:
			w.settle(0, 1)
		}
	}
	n := len(*w.stk())
	bad := (c.own && c.kind == kRV1 && n != 1) || (c.own && (c.kind == kRV0 || c.kind == kCC0) && n != 0) || (c.kind == kDyn && n > 1)
	if bad {
		w.steps = append(w.steps, MStep{Op: "ret", A: 1, B: -1, Kd: kindNames[c.kind], St: "fault"})
		w.ended = true
		return
	}
	w.emit("ret", 1, n, kindNames[c.kind])
	moved := c.st
	addNull := (c.kind == kCC0 || c.kind == kDyn) && n == 0
	w.scs = w.scs[:len(w.scs)-1]
	if c.own {
		st := w.stk()
		*st = append(*st, moved...)
	}
	if addNull {
		w.push(aitem{})
	}
}

func (w *rwalk) throw() {
	x := w.pop()
	if !w.hasHandler() {
		w.steps = append(w.steps, MStep{Op: "throw", A: 0, B: -1, St: "fault"})
		w.ended = true
		return
	}
	frames, gone := 0, 0
	for {
		c := w.cur()
		f := &c.frames[len(c.frames)-1]
		if f.try {
			f.try = false
			break
		}
		c.frames = c.frames[:len(c.frames)-1]
		frames++
		if len(c.frames) == 0 {
			w.scs = w.scs[:len(w.scs)-1]
			gone++
		}
	}
	w.push(x)
	w.emit("throw", frames, gone, "")
	w.throws++
}

// genRandom produces one behaviour.  maxSC / maxFrames: script contexts / frames at once; heavy: large arrays and
// static slots; fill > 0: the program ends by filling the VM up to the item limit in chunks of `fill` items
func genRandom(r *rand.Rand, length, maxSC, maxFrames int, heavy bool, fill int) []MStep {
	return genRandomKinds(r, length, maxSC, maxFrames, heavy, fill, []int{kRV1, kRV1, kRV0, kCC0, kAll, kDyn, kDyn})
}

func genRandomKinds(r *rand.Rand, length, maxSC, maxFrames int, heavy bool, fill int, kinds []int) []MStep {
	w := &rwalk{r: r}
	w.scs = []*asc{{own: true, kind: -1, frames: []aframe{{}}}}
	w.steps = []MStep{{Op: "init", St: "run"}}
	for n := 0; n < length && !w.ended; n++ {
		c := w.cur()
		f := &c.frames[len(c.frames)-1]
		st := w.stk()
		depth := len(*st)
		switch x := r.Intn(100); {
		case x < 10:
			w.push(aitem{})
			w.emit("prim", 0, 0, "")
		case x < 17:
			k := r.Intn(4)
			if heavy && w.big < 1400 && r.Intn(3) == 0 {
				k = 20 + r.Intn(300)
				w.big += k
			}
			w.push(aitem{arr: &aarr{n: k}})
			w.emit("new", k, 0, "")
		case x < 22 && depth > 0 && depth < 40:
			i := r.Intn(min(depth, 4))
			w.push((*st)[depth-1-i])
			w.emit("dup", i, 0, "")
		case x < 27 && depth > 0:
			i := r.Intn(min(depth, 3))
			*st = append((*st)[:depth-1-i], (*st)[depth-i:]...)
			w.emit("drop", i, 0, "")
		case x < 32:
			if c.static == nil {
				k := 1 + r.Intn(3)
				if heavy && r.Intn(3) == 0 {
					k = 10 + r.Intn(200)
				}
				c.static = make([]aitem, k)
				w.emit("initsslot", k, 0, "")
			} else if depth > 0 && r.Intn(2) == 0 {
				j := r.Intn(min(len(c.static), 7))
				c.static[j] = w.pop()
				w.emit("sts", j+1, 0, "")
			} else {
				j := r.Intn(min(len(c.static), 7))
				w.push(c.static[j])
				w.emit("lds", j+1, 0, "")
			}
		case x < 37 && len(f.loc) > 0:
			j := r.Intn(len(f.loc))
			if depth > 0 && r.Intn(2) == 0 {
				f.loc[j] = w.pop()
				w.emit("stl", j+1, 0, "")
			} else {
				w.push(f.loc[j])
				w.emit("ldl", j+1, 0, "")
			}
		case x < 43 && depth >= 2 && (*st)[depth-2].arr != nil && (*st)[depth-2].arr.n < 1000:
			(*st)[depth-2].arr.n++
			*st = (*st)[:depth-2]
			w.emit("append", 0, 0, "")
		case x < 46 && depth >= 2 && (*st)[depth-2].arr != nil && (*st)[depth-2].arr.n > 0:
			idx := 1 + r.Intn(min((*st)[depth-2].arr.n, 100))
			*st = (*st)[:depth-2]
			w.emit("setitem", idx, 0, "")
		case x < 50 && depth > 0:
			k := r.Intn(min(depth, 4) + 1)
			*st = (*st)[:depth-k]
			w.push(aitem{arr: &aarr{n: k}})
			w.emit("pack", k, 0, "")
		case x < 60 && w.nframes() < maxFrames:
			k := 1 + r.Intn(3)
			if r.Intn(2) == 0 && depth >= k {
				nf := aframe{arg: true}
				for i := 0; i < k; i++ {
					nf.loc = append(nf.loc, w.pop())
				}
				c.frames = append(c.frames, nf)
				w.emit("call", 1, k, "")
			} else {
				c.frames = append(c.frames, aframe{loc: make([]aitem, k)})
				w.emit("call", 0, k, "")
			}
		case x < 72 && len(w.scs) < maxSC && w.nframes() < maxFrames && w.loads < 200:
			k := r.Intn(min(depth, 3) + 1)
			kind := kinds[r.Intn(len(kinds))]
			args := append([]aitem(nil), (*st)[depth-k:]...)
			*st = (*st)[:depth-k]
			shares := (kind == kAll || kind == kDyn) && len(*st) == 0
			nsc := &asc{own: !shares, kind: kind, frames: []aframe{{}}}
			w.emit("load", k, 0, kindNames[kind])
			w.scs = append(w.scs, nsc)
			*w.stk() = append(*w.stk(), args...)
			w.loads++
			w.maxSC = max(w.maxSC, len(w.scs))
		case x < 82 && (len(w.scs) > 1 || len(c.frames) > 1):
			w.ret(r.Intn(25) != 0)
		case x < 88:
			if f.try {
				f.try = false
				w.emit("endtry", 0, 0, "")
			} else {
				f.try = true
				w.emit("try", 0, 0, "")
			}
		case x < 96 && depth > 0 && (w.hasHandler() || r.Intn(30) == 0):
			w.throw()
		}
		w.maxFr = max(w.maxFr, w.nframes())
	}
	if !w.ended {
		if fill > 0 {
			w.emit("fill", fill, 0, "")
		} else if r.Intn(3) != 0 {
			for !w.ended { // wind down properly: every script context returns what its caller expects
				w.ret(true)
			}
		}
	}
	return w.steps
}
