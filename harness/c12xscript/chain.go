//go:build verif

package c12xscript

import "testing"

func runChain(t *testing.T, s *session, bs []behaviour, n int) {}
