//go:build verif

package c12xscript

import (
	"encoding/json"
	"fmt"
	"testing"

	"github.com/nspcc-dev/neo-go/pkg/core"
	"github.com/nspcc-dev/neo-go/pkg/core/interop/interopnames"
	"github.com/nspcc-dev/neo-go/pkg/core/state"
	"github.com/nspcc-dev/neo-go/pkg/core/transaction"
	"github.com/nspcc-dev/neo-go/pkg/crypto/hash"
	"github.com/nspcc-dev/neo-go/pkg/neotest"
	"github.com/nspcc-dev/neo-go/pkg/neotest/chain"
	"github.com/nspcc-dev/neo-go/pkg/smartcontract"
	"github.com/nspcc-dev/neo-go/pkg/smartcontract/manifest"
	"github.com/nspcc-dev/neo-go/pkg/smartcontract/nef"
	"github.com/nspcc-dev/neo-go/pkg/smartcontract/trigger"
	"github.com/nspcc-dev/neo-go/pkg/vm/opcode"
	"github.com/nspcc-dev/neo-go/pkg/vm/vmstate"
	"go.uber.org/zap"

	"verifharness/internal/vh"
)

// The real-chain binding of the same schedules: every loaded script context of a behaviour becomes a CONTRACT
// deployed on a real single-node chain (neotest), loads become System.Contract.Call (the interop's own
// callExFromNative: arguments popped as an array and pushed on the callee's stack, LoadNEFMethod with the return
// count of the manifest, DynamicOnUnload, the _initialize call), the entry script is the transaction's script.  The
// transaction is executed in a test VM of the chain (Blockchain.GetTestVM: the interop context block processing
// uses) under the same per-instruction observer, and then in a block: state and gas must agree.
// Kinds that contract calls can express: "rv1" (a method with a return value) and "cc0" (a void method).

type chainWorld struct {
	t   testing.TB
	bc  *core.Blockchain
	e   *neotest.Executor
	val neotest.Signer
	seq int
}

func newChainWorld(t testing.TB) *chainWorld {
	bc, acc := chain.NewSingleWithOptions(t, &chain.Options{Logger: zap.NewNop()})
	e := neotest.NewExecutor(t, bc, acc, acc)
	e.DisableCoverage()
	return &chainWorld{t: t, bc: bc, e: e, val: acc}
}

type patch struct {
	sb  *sbuild
	off int
}

type callee struct {
	k, kind int
}

type chainBackend struct {
	w         *chainWorld
	name      string
	patches   map[int][]patch
	callees   map[int]callee
	contracts map[int]*neotest.Contract
	err       error
}

var sysContractCall = interopnames.ToID([]byte(interopnames.SystemContractCall))

func (b *chainBackend) load(caller *sbuild, idx, k, kind, variant int) {
	if kind != kRV1 && kind != kCC0 {
		b.err = fmt.Errorf("load kind %s cannot be expressed as a contract call", kindNames[kind])
	}
	a := caller.a
	a.pushInt(int64(k))
	a.op(opcode.PACK) // the arguments as an array: [top, ..]
	a.pushInt(15)     // callflag.All
	a.pushData([]byte("m"))
	b.patches[idx] = append(b.patches[idx], patch{caller, a.pos() + 2})
	a.pushData(make([]byte, 20))
	a.syscall(sysContractCall)
	b.callees[idx] = callee{k, kind}
}

func (b *chainBackend) finished(sb *sbuild) error {
	if b.err != nil {
		return b.err
	}
	if sb.idx == 0 {
		return nil
	}
	c := b.callees[sb.idx]
	ne, err := nef.NewFile(sb.a.b)
	if err != nil {
		return err
	}
	m := manifest.NewManifest(fmt.Sprintf("%s-%d", b.name, sb.idx))
	md := manifest.Method{Name: "m", Offset: 0, ReturnType: smartcontract.AnyType}
	if c.kind == kCC0 {
		md.ReturnType = smartcontract.VoidType
	}
	for i := 0; i < c.k; i++ {
		md.Parameters = append(md.Parameters, manifest.NewParameter(fmt.Sprintf("a%d", i), smartcontract.AnyType))
	}
	m.ABI.Methods = append(m.ABI.Methods, md)
	if sb.init >= 0 {
		m.ABI.Methods = append(m.ABI.Methods, manifest.Method{Name: manifest.MethodInit, Offset: sb.init, ReturnType: smartcontract.VoidType})
	}
	m.Permissions = []manifest.Permission{*manifest.NewPermission(manifest.PermissionWildcard)}
	h := state.CreateContractHash(b.w.val.ScriptHash(), ne.Checksum, m.Name)
	b.contracts[sb.idx] = &neotest.Contract{Hash: h, NEF: ne, Manifest: m}
	for _, p := range b.patches[sb.idx] {
		copy(p.sb.a.b[p.off:], h.BytesBE())
	}
	return nil
}

func (w *chainWorld) deployTx(c *neotest.Contract) *transaction.Transaction {
	rawManifest, err := json.Marshal(c.Manifest)
	if err != nil {
		w.t.Fatal(err)
	}
	neb, err := c.NEF.Bytes()
	if err != nil {
		w.t.Fatal(err)
	}
	script, err := smartcontract.CreateCallScript(w.bc.ManagementContractHash(), "deploy", neb, rawManifest, nil)
	if err != nil {
		w.t.Fatal(err)
	}
	tx := transaction.New(script, 0)
	tx.Nonce = neotest.Nonce()
	tx.ValidUntilBlock = w.bc.BlockHeight() + 1
	w.e.SignTx(w.t, tx, 20_0000_0000, w.val)
	return tx
}

type chainProg struct {
	src  string
	p    *program
	be   *chainBackend
	tx   *transaction.Transaction
	test runOut
}

const chainSysFee = 2_0000_0000

// runChain realises behaviours as contracts, deploys them (blocks of deployments), runs every transaction in a test VM
// of the chain under the observer and then in a block.
func runChain(t *testing.T, s *session, bs []behaviour, n int) {
	w := newChainWorld(t)
	res := s.res
	var progs []*chainProg
	add := func(src string, h []MStep, v int, noInit, pred bool) {
		w.seq++
		be := &chainBackend{w: w, name: fmt.Sprintf("xs%d", w.seq), patches: map[int][]patch{}, callees: map[int]callee{}, contracts: map[int]*neotest.Contract{}}
		p, err := realize(h, v, be, noInit, pred)
		if err != nil {
			res.Inc("chain_not_expressible", 1)
			return
		}
		progs = append(progs, &chainProg{src: src, p: p, be: be})
	}
	for i, sp := range scripted() {
		add("chain-scripted-"+sp.name, sp.hist, i, sp.noInit, false)
	}
	progs = append(progs, handChain(w)...)
	for i, b := range bs {
		if len(progs) >= n {
			break
		}
		if !expressible(b.Hist) {
			continue
		}
		add(fmt.Sprintf("chain-%s-%d", b.Kind, i), b.Hist, i*7+int(vh.Seed()), false, true)
	}
	for i := 0; len(progs) < n+n/3 && i < 4*n; i++ { // seeded random schedules restricted to contract calls
		h := genRandomKinds(s.r, 30+s.r.Intn(80), 3+s.r.Intn(3), 4+s.r.Intn(5), i%4 == 0, []int{0, 4, 0, 0, 0, 0, 0, 0, 16}[i%9], []int{kRV1, kRV1, kCC0})
		add(fmt.Sprintf("chain-random-%d", i), h, i, false, false)
	}
	// deployments
	var txs []*transaction.Transaction
	flush := func() {
		if len(txs) == 0 {
			return
		}
		w.e.AddNewBlock(t, txs...)
		for _, tx := range txs {
			if aer := w.e.GetTxExecResult(t, tx.Hash()); aer.VMState != vmstate.Halt {
				t.Fatalf("deployment failed: %s", aer.FaultException)
			}
		}
		txs = txs[:0]
	}
	for _, cp := range progs {
		for idx := 1; idx < len(cp.p.Scripts); idx++ {
			c := cp.be.contracts[idx]
			if c == nil {
				t.Fatalf("%s: script %d has no contract", cp.src, idx)
			}
			cp.p.Scripts[idx].Hash = c.Hash
			txs = append(txs, w.deployTx(c))
			if len(txs) >= 150 {
				flush()
			}
		}
		cp.p.Scripts[0].Hash = hash.Hash160(cp.p.Scripts[0].Code)
	}
	flush()
	// the transactions: test VM under the observer, then a block
	for k, cp := range progs {
		tx := transaction.New(cp.p.Scripts[0].Code, 0)
		tx.Nonce = neotest.Nonce()
		tx.ValidUntilBlock = w.bc.BlockHeight() + 1
		w.e.SignTx(t, tx, chainSysFee, w.val)
		ic, err := w.bc.GetTestVM(trigger.Application, tx, nil)
		if err != nil {
			t.Fatal(err)
		}
		s.rotate()
		cp.test = execute(res, s.tr, runSpec{Src: cp.src, Prog: cp.p, Limit: chainSysFee, ChainVM: ic.VM})
		ic.Finalize()
		s.note("chain", cp.test)
		res.Inc("chain_runs", 1)
		// in the block: the same limit, or (a sample) a limit on / just below the gas the test run needed
		fee := int64(chainSysFee)
		switch {
		case k%5 == 1:
			fee = cp.test.Gas
		case k%5 == 2 && cp.test.Gas > 0:
			fee = cp.test.Gas - 1
		}
		if fee != chainSysFee {
			tx = transaction.New(cp.p.Scripts[0].Code, 0)
			tx.Nonce = neotest.Nonce()
			tx.ValidUntilBlock = w.bc.BlockHeight() + 1
			w.e.SignTx(t, tx, fee, w.val)
		}
		cp.tx = tx
		txs = append(txs, tx)
		if len(txs) >= 100 || k == len(progs)-1 {
			w.e.AddNewBlock(t, txs...)
			txs = txs[:0]
		}
	}
	for k, cp := range progs {
		aer := w.e.GetTxExecResult(t, cp.tx.Hash())
		st := aer.VMState.String()
		res.Count([]any{"chain-block", st, cp.test.State, cp.tx.SystemFee == chainSysFee})
		sig := map[string]any{"part": "xscript", "binding": "chain", "op": "block", "across": ""}
		switch {
		case aer.VMState != vmstate.Halt && aer.VMState != vmstate.Fault:
			sig["kind"] = "Total"
			res.Violate(sig, fmt.Sprintf("%s: the transaction ended in state %s in its block", cp.src, st), chainReplay(cp))
		case aer.VMState == vmstate.Halt && aer.GasConsumed > cp.tx.SystemFee:
			sig["kind"] = "GasBounded"
			res.Violate(sig, fmt.Sprintf("%s: HALT in the block with %d gas consumed, limit %d", cp.src, aer.GasConsumed, cp.tx.SystemFee), chainReplay(cp))
		case cp.tx.SystemFee == chainSysFee && (st != cp.test.State || aer.GasConsumed != cp.test.Gas):
			// not a clause of C12 (determinism is C13 / C01 territory): recorded, not judged
			res.AddDrift(map[string]any{"part": "xscript", "what": "block execution differs from the observed test execution", "src": cp.src,
				"block": st, "test": cp.test.State, "gas_block": aer.GasConsumed, "gas_test": cp.test.Gas})
		}
		if cp.tx.SystemFee == cp.test.Gas-1 && cp.test.Halted && aer.VMState == vmstate.Halt {
			sig["kind"] = "GasBounded"
			res.Violate(sig, fmt.Sprintf("%s: HALT in the block under a limit one below the gas the run needs (%d)", cp.src, cp.test.Gas), chainReplay(cp))
		}
		if k%41 == 0 {
			res.Sample(map[string]any{"src": cp.src, "contracts": len(cp.p.Scripts) - 1, "steps": cp.test.Steps, "test_state": cp.test.State,
				"block_state": st, "gas": aer.GasConsumed, "system_fee": cp.tx.SystemFee, "unwound_script_contexts": cp.test.Unwinds})
		}
	}
}

// expressible: the behaviour loads at least one callee and all its loads are contract calls
func expressible(h []MStep) bool {
	n := 0
	for _, s := range h {
		if s.Op == "load" {
			if s.Kd != "rv1" && s.Kd != "cc0" {
				return false
			}
			n++
		}
	}
	return n > 0
}

func chainReplay(cp *chainProg) map[string]any {
	sc := []string{}
	for _, x := range cp.p.Scripts {
		sc = append(sc, fmt.Sprintf("%x", x.Code))
	}
	return map[string]any{"scripts": sc, "system_fee": cp.tx.SystemFee}
}
