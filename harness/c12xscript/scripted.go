//go:build verif

package c12xscript

// Scripted programs over the alphabet of VMXRef.  "abandoned-*" reproduce on every run the listed finding of the
// unchanged tree: what a script context left on its own evaluation stack stays counted when an exception unwinds it.

type scriptedProg struct {
	name        string
	hist        []MStep
	noInit      bool
	wantDropped bool
}

func st(op string, a, b int, kd string) MStep { return MStep{Op: op, A: a, B: b, Kd: kd, St: "run"} }

func scripted() []scriptedProg {
	ini := MStep{Op: "init", St: "run"}
	prim := st("prim", 0, 0, "")
	try := st("try", 0, 0, "")
	drop := st("drop", 0, 0, "")
	halt := st("ret", 2, 0, "entry")
	out := []scriptedProg{
		// caller: PUSH; TRY; load callee; catch: ENDTRY; DROP; RET - callee: PUSH PUSH PUSH THROW
		{name: "abandoned-min", wantDropped: true, hist: []MStep{ini, prim, try, st("load", 0, 0, "rv1"), prim, prim, prim,
			st("throw", 1, 1, ""), drop, halt}},
		// the callee leaves arrays (one of them twice) on its stack
		{name: "abandoned-arrays", wantDropped: true, hist: []MStep{ini, try, prim, st("load", 1, 0, "rv1"), st("new", 3, 0, ""),
			st("dup", 0, 0, ""), st("new", 0, 0, ""), prim, st("throw", 1, 1, ""), drop, halt}},
		// two script contexts and an internal frame are unwound at once; both leave items behind
		{name: "abandoned-deep", wantDropped: true, noInit: true, hist: []MStep{ini, try, st("load", 0, 0, "rv1"), prim, prim,
			st("load", 1, 0, "dyn"), st("initsslot", 2, 0, ""), prim, st("call", 0, 1, ""), prim, prim, st("throw", 3, 2, ""),
			drop, halt}},
		// a callee with a shared stack (return count -1, caller's stack empty) is unwound: nothing is dropped
		{name: "shared-unwound", hist: []MStep{ini, try, st("load", 0, 1, "all"), prim, prim, prim, st("throw", 1, 1, ""),
			drop, drop, drop, halt}},
		// static slot + internal frames of the callee unwound to the caller, nothing left on the callee's stack
		{name: "static-unwind", noInit: true, hist: []MStep{ini, try, st("load", 0, 0, "rv0"), st("initsslot", 3, 0, ""), prim,
			st("sts", 1, 0, ""), st("call", 0, 2, ""), st("call", 0, 1, ""), prim, st("throw", 3, 1, ""), drop, halt}},
		// every kind of load returning what is expected of it
		{name: "returns", hist: []MStep{ini, prim, prim, st("load", 1, 0, "rv1"), st("ret", 1, 1, "rv1"),
			st("load", 1, 0, "rv0"), drop, st("ret", 1, 0, "rv0"),
			st("load", 0, 0, "cc0"), st("ret", 1, 0, "cc0"), drop,
			st("load", 1, 0, "all"), prim, st("new", 2, 0, ""), st("ret", 1, 3, "all"), drop, drop, drop,
			st("load", 0, 1, "dyn"), st("ret", 1, 0, "dyn"), drop,
			prim, st("load", 0, 0, "dyn"), prim, st("ret", 1, 1, "dyn"), drop, drop,
			st("load", 0, 1, "all"), prim, prim, st("ret", 1, 2, "all"), drop, drop, halt}},
		// a function called by the loader (LoadNEFMethod with an _initialize offset) initialises the static slot
		{name: "init-on-load", hist: []MStep{ini, prim, st("load", 1, 0, "rv1"), st("call", 0, 1, ""), st("initsslot", 2, 0, ""), prim,
			st("sts", 2, 0, ""), st("ret", 0, 0, ""), st("lds", 2, 0, ""), drop, st("ret", 1, 1, "rv1"), drop, halt}},
		// a large static slot and an internal frame of the callee are unwound to the caller, which then fills the VM item by
		// item up to the limit: if unwinding released too much, more than 2048 items are reachable before the VM stops
		{name: "limit-after-unwind", noInit: true, hist: []MStep{ini, try, st("load", 0, 0, "rv0"), st("initsslot", 200, 0, ""),
			st("call", 0, 1, ""), prim, st("throw", 2, 1, ""), drop, st("fill", 1, 0, "")}},
		{name: "init-on-load-unwound", hist: []MStep{ini, try, st("load", 0, 0, "cc0"), st("call", 0, 1, ""), st("initsslot", 2, 0, ""),
			prim, st("throw", 2, 1, ""), drop, halt}},
	}
	return out
}
