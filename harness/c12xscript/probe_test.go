//go:build verif

package c12xscript

import (
	"fmt"
	"testing"

	"github.com/nspcc-dev/neo-go/pkg/smartcontract/callflag"
	"github.com/nspcc-dev/neo-go/pkg/util"
	"github.com/nspcc-dev/neo-go/pkg/vm"
	"github.com/nspcc-dev/neo-go/pkg/vm/opcode"
)

func TestProbe(t *testing.T) {
	// callee: PUSH1 PUSH2 PUSH3 THROW
	callee := []byte{byte(opcode.PUSH1), byte(opcode.PUSH2), byte(opcode.PUSH3), byte(opcode.THROW)}
	// caller: PUSH5; TRY catch=+? ; SYSCALL 0; ENDTRY ; catch: DROP ; ENDTRY; RET
	caller := []byte{byte(opcode.PUSH5),
		byte(opcode.TRY), 9, 0, // catch at 1+9=10
		byte(opcode.SYSCALL), 0, 0, 0, 0,
		byte(opcode.NOP),
		byte(opcode.ENDTRY), 2, // 10? 
	}
	// layout: 0 PUSH5, 1 TRY(3 bytes: 1,2,3), 4 SYSCALL(5 bytes:4..8), 9 NOP, 10 ... 
	caller = []byte{byte(opcode.PUSH5),
		byte(opcode.TRY), 11, 0, // catch at 1+11=12
		byte(opcode.SYSCALL), 0, 0, 0, 0, // 4..8
		byte(opcode.NOP),       // 9
		byte(opcode.ENDTRY), 4, // 10,11 -> 14
		byte(opcode.DROP),      // 12 catch
		byte(opcode.NOP),       // 13
		byte(opcode.NOP),       // 14
		byte(opcode.RET),
	}
	v := vm.New()
	v.SyscallHandler = func(v *vm.VM, id uint32) error {
		v.LoadScriptWithHash(callee, util.Uint160{1}, callflag.All)
		return nil
	}
	v.SetOnExecHook(func(h util.Uint160, off int, op opcode.Opcode) {
		fmt.Printf("%x off=%d %s refs=%d istack=%d estack=%d\n", h[:1], off, op, v.VerifRefs(), len(v.Istack()), v.Estack().Len())
	})
	v.LoadWithFlags(caller, callflag.All)
	err := v.Run()
	fmt.Println("state", v.State(), err, "refs", v.VerifRefs(), "estack", v.Estack().Len())
}
