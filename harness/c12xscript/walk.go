//go:build verif

package c12xscript

import (
	"math/big"
	"math/bits"
	"reflect"

	"github.com/nspcc-dev/neo-go/pkg/vm"
	"github.com/nspcc-dev/neo-go/pkg/vm/stackitem"
)

// scObs is what is seen of one loaded script context (vm.scriptContext, identified by the address of its static
// slot): how many frames of the invocation stack belong to it, the size of the stack object it works on and of
// its static slot (-1: INITSSLOT not executed).
type scObs struct {
	id     *vm.Slot
	stack  *vm.Stack
	Frames int
	Stack  int
	Static int
	Script int // index into the program's script table, -1 if unknown
}

// obs is what the harness measures of the VM between two instructions, with its own walk.
type obs struct {
	Walked  int  // root cells + elements of every distinct reachable compound (map entry = 2)
	Bits    int  // widest integer, two's complement bits
	Size    int  // longest byte string / buffer
	IDepth  int  // invocation stack
	TDepth  int  // deepest try stack of a frame
	SCs     []scObs
	Compact []stackitem.Item   // compounds reachable now
	cells   map[*vm.Stack][]stackitem.Item // snapshot of every live stack object (copied: stack objects of caller and callee share their backing array)
}

type walker struct {
	seen map[stackitem.Item]struct{}
	o    obs
}

func intBits(x *big.Int) int {
	if x.IsInt64() {
		v := x.Int64()
		if v < 0 {
			v = ^v
		}
		return bits.Len64(uint64(v)) + 1
	}
	if x.Sign() >= 0 {
		return x.BitLen() + 1
	}
	return new(big.Int).Not(x).BitLen() + 1
}

func (w *walker) leaf(it stackitem.Item) {
	switch t := it.(type) {
	case *stackitem.BigInteger:
		if b := intBits(t.Big()); b > w.o.Bits {
			w.o.Bits = b
		}
	case *stackitem.ByteArray:
		if n := len(t.Value().([]byte)); n > w.o.Size {
			w.o.Size = n
		}
	case *stackitem.Buffer:
		if n := t.Len(); n > w.o.Size {
			w.o.Size = n
		}
	}
}

// visit is called for every reference to it that the walk meets (the cell itself was counted by the caller).
func (w *walker) visit(it stackitem.Item) {
	switch t := it.(type) {
	case *stackitem.Array, *stackitem.Struct:
		if _, ok := w.seen[it]; ok {
			return
		}
		w.seen[it] = struct{}{}
		w.o.Compact = append(w.o.Compact, it)
		el := t.Value().([]stackitem.Item)
		w.o.Walked += len(el)
		for _, e := range el {
			w.visit(e)
		}
	case *stackitem.Map:
		if _, ok := w.seen[it]; ok {
			return
		}
		w.seen[it] = struct{}{}
		w.o.Compact = append(w.o.Compact, it)
		el := t.Value().([]stackitem.MapElement)
		w.o.Walked += 2 * len(el)
		for i := range el {
			w.leaf(el[i].Key)
			w.visit(el[i].Value)
		}
	case nil:
	default:
		w.leaf(it)
	}
}

// cell counts one root cell and walks what it holds.
func (w *walker) cell(it stackitem.Item) {
	w.o.Walked++
	w.visit(it)
}

// tryDepth reads the length of the unexported exception-handler stack of a context (read-only).
func tryDepth(c *vm.Context) int {
	return reflect.ValueOf(c).Elem().FieldByName("tryStack").FieldByName("elems").Len()
}

func tryDepthAvailable() bool {
	defer func() { _ = recover() }()
	f := reflect.ValueOf(vm.NewContext([]byte{0x40})).Elem().FieldByName("tryStack")
	return f.IsValid() && f.FieldByName("elems").IsValid()
}

// walkVM walks every evaluation stack and every slot of every loaded context: v.Estack(), and for each frame of
// v.Istack() its script context's stack and static slot (once per object) and its own locals and arguments.
func walkVM(v *vm.VM, scriptOf func(*vm.Context) int) *walker {
	w := &walker{seen: map[stackitem.Item]struct{}{}}
	w.o.cells = map[*vm.Stack][]stackitem.Item{}
	doStack := func(s *vm.Stack) {
		if s == nil {
			return
		}
		if _, ok := w.o.cells[s]; ok {
			return
		}
		snap := make([]stackitem.Item, 0, s.Len())
		s.IterBack(func(e vm.Element) { // bottom first
			snap = append(snap, e.Item())
			w.cell(e.Item())
		})
		w.o.cells[s] = snap
	}
	doSlot := func(s *vm.Slot) {
		if s == nil {
			return
		}
		for _, it := range *s {
			w.cell(it) // an empty cell is a (virtual) Null item
		}
	}
	is := v.Istack()
	w.o.IDepth = len(is)
	byID := map[*vm.Slot]int{}
	for _, c := range is {
		doStack(c.Estack())
		doSlot(c.LocalsSlot())
		doSlot(c.ArgumentsSlot())
		st := c.StaticsSlot()
		k, ok := byID[st]
		if !ok {
			k = len(w.o.SCs)
			byID[st] = k
			n := -1
			if *st != nil {
				n = len(*st)
			}
			w.o.SCs = append(w.o.SCs, scObs{id: st, stack: c.Estack(), Stack: c.Estack().Len(), Static: n, Script: scriptOf(c)})
			doSlot(st)
		}
		w.o.SCs[k].Frames++
		if d := tryDepth(c); d > w.o.TDepth {
			w.o.TDepth = d
		}
	}
	doStack(v.Estack()) // the current stack (the result stack once the invocation stack is empty)
	return w
}

// hasCycle looks for a cycle in the graph of compound items reachable from the given items.
func hasCycle(from ...[]stackitem.Item) bool {
	const (
		grey  = 1
		black = 2
	)
	col := map[stackitem.Item]int{}
	var dfs func(it stackitem.Item) bool
	kids := func(it stackitem.Item, f func(stackitem.Item) bool) bool {
		switch t := it.(type) {
		case *stackitem.Array, *stackitem.Struct:
			for _, e := range t.Value().([]stackitem.Item) {
				if f(e) {
					return true
				}
			}
		case *stackitem.Map:
			el := t.Value().([]stackitem.MapElement)
			for i := range el {
				if f(el[i].Value) {
					return true
				}
			}
		}
		return false
	}
	dfs = func(it stackitem.Item) bool {
		switch it.(type) {
		case *stackitem.Array, *stackitem.Struct, *stackitem.Map:
		default:
			return false
		}
		switch col[it] {
		case grey:
			return true
		case black:
			return false
		}
		col[it] = grey
		if kids(it, dfs) {
			return true
		}
		col[it] = black
		return false
	}
	for _, l := range from {
		for _, it := range l {
			if dfs(it) {
				return true
			}
		}
	}
	return false
}
