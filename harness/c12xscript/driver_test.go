//go:build verif

// Driver of the C12 extension "xscript": executes on the real NeoVM programs made of SEVERAL scripts - (a) behaviours
// of the implementation-shaped model VMXRef (transition cover, TLC simulation) realised as scripts that load each
// other through a harness syscall implemented with the VM's own loading functions, (b) scripted programs (among
// them the reproduction of the listed finding "abandoned-stack"), (c) seeded random multi-script programs over
// larger universes, some of them filling the VM up to the item limit, and (d) the same schedules as contracts
// deployed on a real chain and calling each other through System.Contract.Call (chain.go) - and records one
// observation per executed instruction for validation by spec/vmxref/VMXRefTrace.tla.
package c12xscript

import (
	"fmt"
	"math/rand"
	"sort"
	"testing"

	"verifharness/internal/vh"
)

type behaviour struct {
	Kind string  `json:"kind"`
	Hist []MStep `json:"hist"`
}

const (
	bigLimit = int64(200_000_000_000) // datoshi; the programs terminate by construction
)

type session struct {
	res   *vh.Result
	tr    *vh.Trace
	r     *rand.Rand
	agg   map[string]*[10]int
	files int
}

func (s *session) rotate() {
	if s.tr.N < 600_000 {
		return
	}
	s.tr.Close()
	s.files++
	s.tr = vh.NewTrace(fmt.Sprintf("trace-%03d.ndjson", s.files))
}

func (s *session) note(class string, o runOut) {
	a := s.agg[class]
	if a == nil {
		a = &[10]int{}
		s.agg[class] = a
	}
	a[0]++
	if o.Halted {
		a[1]++
	}
	a[2] += o.Steps
	a[3] = max(a[3], o.MaxWalk)
	a[4] = max(a[4], o.MaxIDep)
	a[5] = max(a[5], o.MaxSC)
	a[6] += o.Loads
	a[7] += o.Rets
	a[8] += o.Unwinds
	a[9] += o.Dropped
}

// both runs the program under a generous limit and (a sample) under a limit placed on / just below / inside the
// gas it really needs.
func (s *session) both(class, src string, p *program, base int64, tight bool) runOut {
	s.rotate()
	o := execute(s.res, s.tr, runSpec{Src: src, Prog: p, Limit: bigLimit, Base: base})
	s.note(class, o)
	if o.Panicked || !tight {
		return o
	}
	var l2 int64
	switch s.r.Intn(5) {
	case 0:
		l2 = o.Gas
	case 1:
		l2 = o.Gas - 1
	case 2:
		l2 = o.Gas - 1 - s.r.Int63n(40)
	case 3:
		l2 = 0
	default:
		l2 = s.r.Int63n(o.Gas + 1)
	}
	l2 = max(l2, 0)
	pp := *p
	pp.Marks = nil
	pp.ExpectFault = false
	o2 := execute(s.res, s.tr, runSpec{Src: src + "/gas", Prog: &pp, Limit: l2, Base: base})
	s.note(class+"/gas", o2)
	if o2.Halted {
		s.res.Inc("halted_under_tight_limit", 1)
	}
	return o
}

func TestDriver(t *testing.T) {
	if !tryDepthAvailable() {
		t.Fatal("cannot observe the try depth: vm.Context has no tryStack.elems field any more")
	}
	res := vh.NewResult()
	s := &session{res: res, tr: vh.NewTrace("trace-000.ndjson"), r: vh.Rand(1212), agg: map[string]*[10]int{}}
	bases := []int64{300000, 299999, 123457}

	// (b) scripted programs: first, so that the listed finding is reproduced on every run
	for i, sp := range scripted() {
		p, err := realize(sp.hist, i, vmBackend{}, sp.noInit, false)
		if err != nil {
			t.Fatalf("scripted program %s: %v", sp.name, err)
		}
		o := s.both("scripted", "scripted-"+sp.name, p, bases[i%len(bases)], true)
		res.Inc("scripted", 1)
		if sp.name == "abandoned-min" {
			res.Sample(map[string]any{"src": "scripted-" + sp.name, "steps": o.Steps, "state": o.State, "dropped_cells": o.Dropped,
				"script_contexts_unwound": o.Unwinds})
		}
		if sp.wantDropped && o.Dropped == 0 {
			t.Fatalf("scripted program %s did not leave anything on an unwound stack", sp.name)
		}
	}

	for i, hp := range handPrograms() {
		o := s.both("scripted", "scripted-"+hp.name, hp.p, bases[i%len(bases)], true)
		res.Inc("scripted", 1)
		if o.MaxSC < 5 {
			t.Fatalf("hand-assembled program %s loaded %d script contexts at once, 5 expected", hp.name, o.MaxSC)
		}
	}

	// (a) behaviours of the model
	var bs []behaviour
	if vh.InDir() != "" {
		if err := vh.ReadJSON("behaviours.json", &bs); err != nil {
			t.Logf("no behaviours: %v", err)
		}
	}
	for i, b := range bs {
		p, err := realize(b.Hist, i*7+int(vh.Seed()), vmBackend{}, false, true)
		if err != nil {
			res.Inc("behaviours_not_realised", 1)
			res.AddDrift(map[string]any{"part": "xscript", "what": "behaviour not realised", "err": err.Error(), "i": i})
			continue
		}
		src := fmt.Sprintf("%s-%d", b.Kind, i)
		o := s.both(b.Kind, src, p, bases[i%len(bases)], s.r.Intn(4) == 0)
		if o.MarksHit == len(p.Marks) && (!p.ExpectFault || o.State == "FAULT") && (!p.ExpectHalt || o.State == "HALT") {
			res.Inc("behaviours_replayed_to_the_end", 1)
		} else if len(res.Drift) < 20 {
			res.AddDrift(map[string]any{"part": "xscript", "what": "realised behaviour did not run to its end", "src": src, "marks": len(p.Marks),
				"hit": o.MarksHit, "state": o.State, "expect_fault": p.ExpectFault, "expect_halt": p.ExpectHalt})
		}
		if i%211 == 0 {
			res.Sample(map[string]any{"src": src, "actions": len(b.Hist) - 1, "scripts": len(p.Scripts), "steps": o.Steps, "state": o.State,
				"last_action": b.Hist[len(b.Hist)-1], "max_walked": o.MaxWalk})
		}
	}
	res.Inc("behaviours", len(bs))

	// (c) seeded random multi-script programs
	nr := vh.EnvInt("VERIF_RANDOM", 200)
	fills := vh.EnvInt("VERIF_FILLS", 6)
	for i := 0; i < nr; i++ {
		heavy := i%3 == 0
		fill := 0
		if heavy && fills > 0 && i%2 == 0 {
			fill = []int{1, 4, 16, 4}[fills%4] // (the first one item by item: the limit itself is reached in every run)
			if i == 0 {
				fill = 1
			}
			fills--
		}
		h := genRandom(s.r, 30+s.r.Intn(120), 3+s.r.Intn(3), 4+s.r.Intn(5), heavy, fill)
		p, err := realize(h, i, vmBackend{}, false, false)
		if err != nil {
			res.Inc("random_not_realised", 1)
			res.AddDrift(map[string]any{"part": "xscript", "what": "random behaviour not realised", "err": err.Error(), "i": i})
			continue
		}
		class := "random"
		if heavy {
			class = "heavy"
		}
		o := s.both(class, fmt.Sprintf("%s-%d", class, i), p, bases[i%len(bases)], i%4 == 0)
		if i%67 == 0 {
			res.Sample(map[string]any{"src": fmt.Sprintf("%s-%d", class, i), "actions": len(h) - 1, "scripts": len(p.Scripts), "steps": o.Steps,
				"state": o.State, "max_walked": o.MaxWalk, "max_idepth": o.MaxIDep, "max_script_contexts": o.MaxSC,
				"unwound_script_contexts": o.Unwinds, "cross_script_returns": o.Rets})
		}
	}
	res.Inc("random_programs", nr)

	// (d) the real chain
	if n := vh.EnvInt("VERIF_CHAIN", 0); n > 0 {
		runChain(t, s, bs, n)
	}

	s.tr.Close()
	res.Inc("trace_files", s.files+1)
	classes := []string{}
	for c := range s.agg {
		classes = append(classes, c)
	}
	sort.Strings(classes)
	per := map[string]any{}
	for _, c := range classes {
		a := s.agg[c]
		per[c] = map[string]int{"runs": a[0], "halted": a[1], "steps": a[2], "max_walked": a[3], "max_idepth": a[4],
			"max_script_contexts": a[5], "loads": a[6], "cross_script_returns": a[7], "unwound_script_contexts": a[8], "dropped_cells": a[9]}
	}
	res.Stats["xscript_per_class"] = per
	sort.Strings(res.Distinct)
	if err := res.Write(); err != nil {
		t.Fatal(err)
	}
}
