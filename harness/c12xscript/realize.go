//go:build verif

package c12xscript

import (
	"fmt"

	"github.com/nspcc-dev/neo-go/pkg/vm/opcode"
)

// MStep is one record of a behaviour of spec/vmxref/VMXRef.tla (transition cover, simulation) or of the seeded
// random walker of this package (rand.go), which produces the same alphabet over larger universes.
type MStep struct {
	Op     string `json:"op"`
	A      int    `json:"a"`
	B      int    `json:"b"`
	Kd     string `json:"kd"`
	Refs   int    `json:"refs"`
	Walked int    `json:"walked"`
	Cyc    bool   `json:"cyc"`
	St     string `json:"st"`
	Fr     int    `json:"fr"`
	NSC    int    `json:"nsc"`
	NS     int    `json:"ns"`
}

type rframe struct {
	arg   bool // the frame's single slot cell is an argument (INITSLOT 0,1) rather than a local
	slots int  // number of local / argument cells (random walker: more than one)
	jmpAt int  // address of the caller's JMPL to the continuation (-1: first frame of a script context)
	tryAt int  // address of a TRYL whose catch offset is not resolved yet (-1: none)
}

// sbuild is one script under construction = one loaded script context of the behaviour.
type sbuild struct {
	idx    int
	a      *asm
	frames []rframe
	loose  []int // JMPL / TRYL(k) fix-ups that must point at the trailing RET: (at*2+k)
	init   int   // offset of the function called on load (-1: none)
	kind   int
}

// backend emits what differs between the two bindings: the plain VM (harness syscall) and the real chain
// (System.Contract.Call / System.Runtime.LoadScript).
type backend interface {
	// load emits the call of script idx with k arguments in the caller's assembler
	load(caller *sbuild, idx, k, kind, variant int)
	// finished is told the final code of a script (callee scripts are finished before their callers)
	finished(sb *sbuild) error
}

type realizer struct {
	be      backend
	v       int
	scs     []*sbuild // live script contexts, bottom first
	done    []*sbuild // by script index
	marks   map[[2]int]mark
	noInit  bool // never use the "_initialize on load" encoding of a call that follows a load
	nextIdx int
}

func (r *realizer) pick(n int) int { r.v++; return r.v % n }

func (r *realizer) cur() *sbuild { return r.scs[len(r.scs)-1] }

func (r *realizer) finish(sb *sbuild) error {
	end := sb.a.pos()
	sb.a.op(opcode.RET)
	sb.a.pushInt(int64(1000 + sb.idx)) // never executed: makes the scripts of one program (and so their hashes) pairwise different
	for _, f := range sb.frames {
		if f.jmpAt >= 0 {
			sb.loose = append(sb.loose, f.jmpAt*2)
		}
		if f.tryAt >= 0 {
			sb.loose = append(sb.loose, f.tryAt*2)
		}
	}
	for _, l := range sb.loose {
		sb.a.fix(l/2, l%2, end)
	}
	for len(r.done) <= sb.idx {
		r.done = append(r.done, nil)
	}
	r.done[sb.idx] = sb
	return r.be.finished(sb)
}

func (r *realizer) pushPrim(a *asm) {
	switch r.pick(6) {
	case 0:
		a.op(opcode.PUSH1)
	case 1:
		a.op(opcode.PUSHT)
	case 2:
		a.op(opcode.PUSHNULL)
	case 3:
		a.pushData([]byte("ab"))
	case 4:
		a.pushInt(1000)
	default:
		a.op(opcode.PUSHM1)
	}
}

func (r *realizer) slot(a *asm, base0 opcode.Opcode, j int) { // j is 0-based
	if r.pick(2) == 0 && j < 7 {
		a.op(opcode.Opcode(int(base0) + j))
	} else {
		a.op1(opcode.Opcode(int(base0)+7), j)
	}
}

// realize turns a behaviour into the scripts of one program.  Every action appends instructions to the script of
// the script context that is current at that moment; a load starts a new script; a return / an unwinding closes
// the scripts of the script contexts it unloads.  marks are the model's predictions at the action boundaries
// (script index, offset of the first instruction after the action); pred = FALSE: the behaviour carries none.
func realize(h []MStep, v int, be backend, noInit, pred bool) (*program, error) {
	if len(h) == 0 || h[0].Op != "init" {
		return nil, fmt.Errorf("behaviour does not start with init")
	}
	r := &realizer{be: be, v: v, marks: map[[2]int]mark{}, noInit: noInit, nextIdx: 1}
	r.scs = []*sbuild{{idx: 0, a: &asm{}, frames: []rframe{{jmpAt: -1, tryAt: -1}}, init: -1, kind: -1}}
	p := &program{}
steps:
	for i, s := range h[1:] {
		sb := r.cur()
		a := sb.a
		f := &sb.frames[len(sb.frames)-1]
		dropMark := [2]int{-1, -1}
		switch s.Op {
		case "prim":
			r.pushPrim(a)
		case "new":
			if s.A == 0 {
				switch r.pick(3) {
				case 0:
					a.op(opcode.NEWARRAY0)
				case 1:
					a.op(opcode.PUSH0, opcode.NEWARRAY)
				default:
					a.op(opcode.PUSH0, opcode.PACK)
				}
			} else {
				a.pushInt(int64(s.A))
				if r.pick(2) == 0 {
					a.op(opcode.NEWARRAY)
				} else {
					a.op1(opcode.NEWARRAYT, 0x21) // Integer
				}
			}
		case "pack":
			a.pushInt(int64(s.A))
			a.op(opcode.PACK)
		case "dup":
			switch {
			case s.A == 0 && r.pick(2) == 0:
				a.op(opcode.DUP)
			case s.A == 1 && r.pick(2) == 0:
				a.op(opcode.OVER)
			default:
				a.pushInt(int64(s.A))
				a.op(opcode.PICK)
			}
		case "drop":
			switch {
			case s.A == 0 && r.pick(2) == 0:
				a.op(opcode.DROP)
			case s.A == 1 && r.pick(2) == 0:
				a.op(opcode.NIP)
			default:
				a.pushInt(int64(s.A))
				a.op(opcode.XDROP)
			}
		case "initsslot":
			a.op1(opcode.INITSSLOT, s.A)
		case "lds":
			r.slot(a, opcode.LDSFLD0, s.A-1)
		case "sts":
			r.slot(a, opcode.STSFLD0, s.A-1)
		case "ldl":
			if f.arg {
				r.slot(a, opcode.LDARG0, s.A-1)
			} else {
				r.slot(a, opcode.LDLOC0, s.A-1)
			}
		case "stl":
			if f.arg {
				r.slot(a, opcode.STARG0, s.A-1)
			} else {
				r.slot(a, opcode.STLOC0, s.A-1)
			}
		case "append":
			a.op(opcode.APPEND)
		case "setitem":
			a.pushInt(int64(s.A - 1))
			a.op(opcode.SWAP, opcode.SETITEM)
		case "call":
			// B > 0 (random walker): B slot cells instead of one
			n := 1
			if s.B > 0 {
				n = s.B
			}
			asInit := !r.noInit && s.A == 0 && i > 0 && h[i].Op == "load" && len(sb.frames) == 1 && a.pos() == 0 &&
				sb.kind != kAll && sb.kind != kDyn && r.pick(2) == 0
			var jmpAt int
			if asInit {
				// the function is called by the loader (LoadNEFMethod with an _initialize offset): the method frame
				// below it starts at offset 0 with the jump to the continuation
				jmpAt = a.jmpL(opcode.JMPL)
				sb.init = a.pos()
				dropMark = [2]int{sb.idx, 0} // offset 0 is executed only after the function returned
			} else {
				callAt := a.jmpL(opcode.CALLL)
				jmpAt = a.jmpL(opcode.JMPL)
				a.fix(callAt, 0, a.pos())
			}
			if s.A == 1 {
				a.op1(opcode.INITSLOT, 0, n)
			} else {
				a.op1(opcode.INITSLOT, n, 0)
			}
			sb.frames = append(sb.frames, rframe{arg: s.A == 1, slots: n, jmpAt: jmpAt, tryAt: -1})
		case "load":
			kind := kindOf(s.Kd)
			if kind < 0 {
				return nil, fmt.Errorf("step %d: unknown load kind %q", i+1, s.Kd)
			}
			idx := r.nextIdx
			r.nextIdx++
			if idx > 250 {
				return nil, fmt.Errorf("too many scripts")
			}
			r.be.load(sb, idx, s.A, kind, r.pick(2))
			r.scs = append(r.scs, &sbuild{idx: idx, a: &asm{}, frames: []rframe{{jmpAt: -1, tryAt: -1}}, init: -1, kind: kind})
		case "ret":
			switch s.A {
			case 0:
				a.op(opcode.RET)
				a.fix(f.jmpAt, 0, a.pos())
				if f.tryAt >= 0 {
					sb.loose = append(sb.loose, f.tryAt*2)
				}
				sb.frames = sb.frames[:len(sb.frames)-1]
			default: // the last frame of a script context (1), of the entry script (2)
				a.op(opcode.RET)
				if f.tryAt >= 0 {
					sb.loose = append(sb.loose, f.tryAt*2)
				}
				sb.frames = sb.frames[:0]
				if err := r.finish(sb); err != nil {
					return nil, err
				}
				r.scs = r.scs[:len(r.scs)-1]
				if s.St == "fault" {
					p.ExpectFault = true
					break steps
				}
				if s.A == 2 || len(r.scs) == 0 {
					p.ExpectHalt = true
					break steps
				}
			}
		case "try":
			if f.tryAt >= 0 {
				sb.loose = append(sb.loose, f.tryAt*2)
			}
			f.tryAt = a.tryL()
		case "endtry":
			if f.tryAt < 0 {
				return nil, fmt.Errorf("step %d: endtry without try", i+1)
			}
			sb.loose = append(sb.loose, f.tryAt*2)
			f.tryAt = -1
			a.op1(opcode.ENDTRY, 2)
		case "throw":
			a.op(opcode.THROW)
			if s.St == "fault" || s.B < 0 {
				p.ExpectFault = true
				break steps
			}
			// A frames are unwound; the script contexts that lose all their frames are closed
			for n := s.A; n > 0; n-- {
				t := r.cur()
				tf := t.frames[len(t.frames)-1]
				if tf.jmpAt >= 0 {
					t.loose = append(t.loose, tf.jmpAt*2)
				}
				if tf.tryAt >= 0 {
					t.loose = append(t.loose, tf.tryAt*2)
				}
				t.frames = t.frames[:len(t.frames)-1]
				if len(t.frames) == 0 {
					if err := r.finish(t); err != nil {
						return nil, err
					}
					r.scs = r.scs[:len(r.scs)-1]
					if len(r.scs) == 0 {
						return nil, fmt.Errorf("step %d: exception unwinds everything", i+1)
					}
				}
			}
			hb := r.cur()
			hf := &hb.frames[len(hb.frames)-1]
			if hf.tryAt < 0 {
				return nil, fmt.Errorf("step %d: exception without a handler", i+1)
			}
			hb.a.fix(hf.tryAt, 0, hb.a.pos()) // the catch block starts here
			hf.tryAt = -1
			hb.a.op1(opcode.ENDTRY, 2)
		case "fill":
			// (random walker) append to a fresh array until the VM stops the script at the item limit
			a.op(opcode.NEWARRAY0)
			loop := a.pos()
			a.op(opcode.DUP)
			if s.A <= 1 {
				a.op(opcode.PUSH0)
			} else { // an array of A-1 elements: A items per round
				a.pushInt(int64(s.A - 1))
				a.op(opcode.NEWARRAY)
			}
			a.op(opcode.APPEND)
			j := a.jmpL(opcode.JMPL)
			a.fix(j, 0, loop)
			p.ExpectFault = true
			break steps
		default:
			return nil, fmt.Errorf("step %d: unknown model action %q", i+1, s.Op)
		}
		if s.St == "fault" { // the item limit of the model
			p.ExpectFault = true
			break steps
		}
		if dropMark[0] >= 0 {
			delete(r.marks, dropMark)
		}
		if pred {
			c := r.cur()
			r.marks[[2]int{c.idx, c.a.pos()}] = mark{Refs: s.Refs, Walked: s.Walked, Step: i + 1, Op: s.Op}
		}
	}
	for len(r.scs) > 0 {
		t := r.cur()
		if err := r.finish(t); err != nil {
			return nil, err
		}
		r.scs = r.scs[:len(r.scs)-1]
	}
	p.Scripts = make([]*script, len(r.done))
	for i, sb := range r.done {
		if sb == nil {
			return nil, fmt.Errorf("script %d was never finished", i)
		}
		p.Scripts[i] = &script{Code: sb.a.b, Bounds: sb.a.bounds(), InitOff: sb.init}
	}
	p.Marks = r.marks
	return p, nil
}

// vmBackend: callees are loaded through the harness syscall.
type vmBackend struct{}

func (vmBackend) load(caller *sbuild, idx, k, kind, variant int) {
	caller.a.syscall(sysID(idx, k, kind, variant))
}
func (vmBackend) finished(*sbuild) error { return nil }
