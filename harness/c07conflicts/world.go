package c07conflicts

import (
	"fmt"
	"math/rand"
	"slices"
	"strings"
)

// Op is one operation of a behaviour of ConflictRecSim (the first one, "init", carries the universe).
type Op struct {
	Op  string `json:"op"`
	Txs []int  `json:"txs,omitempty"`
	ID  int    `json:"id,omitempty"`
	I   int    `json:"i,omitempty"`
	U   []Tx   `json:"u,omitempty"`
	W   int    `json:"w,omitempty"`
	NH  int    `json:"nh,omitempty"`
	NJ  int    `json:"nj,omitempty"`
	NS  int    `json:"ns,omitempty"`
}

// Spec describes one world: a universe and either a fixed schedule (TLC) or a seeded random walk of n operations.
type Spec struct {
	WI     int    // world number (unique in a run)
	Src    string // "tlc" | "random"
	Layer  string // "dao" | "node"
	W      int
	NS     int
	NJ     int
	U      []Tx
	Ops    []Op
	Random int   // number of random operations (Src = "random")
	Seed   int64 // private random stream of the world
	GCLag  int   // dao layer, random walks: blocks the collector stays behind the window
}

// engine is what a layer offers to the schedule players.
type engine interface {
	height() int
	block(src string, ids []int) bool // a block made elsewhere ("ext" / "empty"); false: not accepted, world is over
	offer(id int) bool
	propose() bool // false: world is over (nodes diverged)
	gc(i int)
	canGC(lag int) int // block the collector may remove now (0: none)
	restart()
	after()              // flush, read back, sweep
	ok(id int) bool      // last sweep: admitted by every node of the world
	onChain(id int) bool // per the blocks this world added
	pooled() []int       // ids in the reference node's own pool
	emit(ev map[string]any)
}

func clash(a, b Tx) bool {
	return a.ID == b.ID || slices.Contains(a.Conf, b.ID) || slices.Contains(b.Conf, a.ID)
}

func initEvent(s Spec, track string) map[string]any {
	return map[string]any{"event": "init", "world": s.WI, "layer": s.Layer, "src": s.Src, "w": s.W, "u": s.U, "nh": len(s.U), "nj": s.NJ,
		"ns": s.NS, "track": track}
}

// play runs the schedule of s on e.
func play(s Spec, e engine) {
	e.after()
	if s.Src != "random" {
		for _, op := range s.Ops {
			switch op.Op {
			case "ext":
				// the generator models ONE node (a collecting one); a block goes to nodes that keep everything too, so only
				// what every node of the world admits right now is put into it
				var ids []int
				for _, id := range op.Txs {
					if e.ok(id) && !e.onChain(id) {
						ids = append(ids, id)
					}
				}
				if !e.block("ext", ids) {
					return
				}
				e.after()
			case "empty":
				if !e.block("empty", nil) {
					return
				}
				e.after()
			case "offer":
				if !e.onChain(op.ID) {
					e.offer(op.ID)
				}
			case "propose":
				if len(e.pooled()) == 0 {
					// the model expected a pool: whatever emptied it was reported; keep the chain moving
					if !e.block("empty", nil) {
						return
					}
				} else if !e.propose() {
					return
				}
				e.after()
			case "gc":
				e.gc(op.I)
				e.after()
			case "restart":
				e.restart()
				e.after()
			}
		}
	} else {
		randomWalk(s, e)
	}
	// whatever is left in the pool must still make an acceptable block
	if len(e.pooled()) > 0 {
		if e.propose() {
			e.after()
		}
	}
}

func randomWalk(s Spec, e engine) {
	r := rand.New(rand.NewSource(s.Seed))
	byID := func(id int) Tx { return s.U[id-1] }
	for n := 0; n < s.Random; n++ {
		var fresh []int
		for _, u := range s.U {
			if e.ok(u.ID) && !e.onChain(u.ID) {
				fresh = append(fresh, u.ID)
			}
		}
		switch x := r.Intn(20); {
		case x < 7 && len(fresh) > 0: // a block made elsewhere
			r.Shuffle(len(fresh), func(i, j int) { fresh[i], fresh[j] = fresh[j], fresh[i] })
			var ids []int
			want := 1 + r.Intn(3)
			for _, id := range fresh {
				if len(ids) == want {
					break
				}
				if !slices.ContainsFunc(ids, func(o int) bool { return clash(byID(o), byID(id)) }) {
					ids = append(ids, id)
				}
			}
			if !e.block("ext", ids) {
				return
			}
			e.after()
		case x < 10:
			if !e.block("empty", nil) {
				return
			}
			e.after()
		case x < 13 && len(fresh) > 0:
			id := fresh[r.Intn(len(fresh))]
			pl := e.pooled()
			if slices.Contains(pl, id) || slices.ContainsFunc(pl, func(o int) bool { return clash(byID(o), byID(id)) }) {
				continue
			}
			e.offer(id)
		case x < 15 && len(e.pooled()) > 0:
			if !e.propose() {
				return
			}
			e.after()
		case x < 18:
			if i := e.canGC(s.GCLag); i > 0 {
				e.gc(i)
				e.after()
			}
		case x == 19 && e.height() > 0:
			e.restart()
			e.after()
		}
	}
}

// randomUniverse draws a universe larger than the model's: up to 4 signers per transaction in any order, up to
// transaction.MaxAttributes (16) Conflicts attributes naming lower ids and junk hashes.
func randomUniverse(r *rand.Rand, nh, ns, nj int) []Tx {
	var u []Tx
	for id := 1; id <= nh; id++ {
		perm := r.Perm(ns)
		k := 1 + r.Intn(ns)
		if r.Intn(3) == 0 {
			k = 1
		}
		var sg []int
		for _, p := range perm[:k] {
			sg = append(sg, p+1)
		}
		var av []int
		for i := 1; i < id; i++ {
			av = append(av, i)
		}
		for j := 1; j <= nj; j++ {
			av = append(av, nh+j)
		}
		r.Shuffle(len(av), func(i, j int) { av[i], av[j] = av[j], av[i] })
		n := []int{0, 0, 1, 1, 1, 2, 2, 3, 4, 16}[r.Intn(10)]
		n = min(n, len(av), 16-len(sg)) // transaction.MaxAttributes bounds signers + attributes
		// lower ids first in the draw now and then, so that real transactions get named, not only junk
		if id > 1 && n > 0 && r.Intn(2) == 0 {
			pick := 1 + r.Intn(id-1)
			i := slices.Index(av, pick)
			av[0], av[i] = av[i], av[0]
			pos := r.Intn(n)
			av[0], av[pos] = av[pos], av[0]
		}
		u = append(u, Tx{ID: id, Sg: sg, Conf: append([]int{}, av[:n]...)})
	}
	return u
}

func txSig(t Tx) string { return fmt.Sprintf("%d%v%v", t.ID, t.Sg, t.Conf) }

func chainSig(blocks [][]Tx) string {
	var sb strings.Builder
	for _, b := range blocks {
		sb.WriteByte('|')
		for _, t := range b {
			sb.WriteString(txSig(t))
		}
	}
	return sb.String()
}
