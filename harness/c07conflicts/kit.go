// Package c07conflicts drives the REAL on-chain conflict record store of neo-go for the C07 extension "conflictrec":
//
//	layer "dao"  - a real dao.Simple (StoreAsBlock/StoreAsTransaction/HasTransaction/DeleteBlock) replaying TLC behaviours
//	               operation by operation (every GC order the model generates) and seeded random histories;
//	layer "node" - real core.Blockchain nodes (a plain one and one with RemoveUntraceableBlocks and a tiny MaxTraceableBlocks)
//	               on chains that cross height 2000, where the real collector starts removing blocks; PoolTx on fresh pools
//	               for every transaction of the universe after every block, the node's own pool + RemoveStale, proposals
//	               from the pool sent as wire bytes to every node, restarts, in-block probes on scratch copies.
//
// Everything written to the trace is read back from the real objects; TLC (spec/conflictrec/ConflictRecTrace.tla) judges.
package c07conflicts

import (
	"fmt"
	"maps"
	"testing"

	"verifharness/internal/chainkit"

	"github.com/nspcc-dev/neo-go/pkg/config"
	"github.com/nspcc-dev/neo-go/pkg/core"
	"github.com/nspcc-dev/neo-go/pkg/core/native/nativenames"
	"github.com/nspcc-dev/neo-go/pkg/core/storage"
	"github.com/nspcc-dev/neo-go/pkg/core/transaction"
	"github.com/nspcc-dev/neo-go/pkg/crypto/keys"
	"github.com/nspcc-dev/neo-go/pkg/neotest"
	"github.com/nspcc-dev/neo-go/pkg/util"
	"github.com/nspcc-dev/neo-go/pkg/vm/opcode"
	"github.com/nspcc-dev/neo-go/pkg/wallet"
)

const (
	gas       = int64(1_0000_0000)
	maxSigner = 4
	// the real collector removes blocks for the first time at heights 2000 and 2001 (headerBatchCount = 2000 in
	// removeUntraceableBlocks); the snapshot every world starts from lies a little below
	gcHeight   = 2000
	baseHeight = 1975
	vubSpan    = 300
)

// noClose keeps a MemoryStore alive across Blockchain.Close (MemoryStore.Close wipes it).
type noClose struct{ storage.Store }

func (noClose) Close() error { return nil }

// Tx is a transaction of a universe the way the specification sees it.
type Tx struct {
	ID   int   `json:"id"`
	Sg   []int `json:"sg"`
	Conf []int `json:"conf"`
}

// Kit is what all node-level worlds of one window share: the network, funded signer accounts and the database image of a
// chain of baseHeight blocks.
type Kit struct {
	T       testing.TB
	W       uint32
	Net     *chainkit.Net
	Keys    []*keys.PrivateKey // Keys[s-1] = key of signer s
	Acc     []util.Uint160
	Signers []neotest.Signer
	// database images of the base chain: [0] written by a plain node, [1] by a node that collects untraceable blocks
	// (its state trie carries reference counts, the two formats do not mix)
	mem  [2]map[string][]byte
	stor [2]map[string][]byte
}

func (k *Kit) hook(gc bool) func(*config.Blockchain) {
	return func(c *config.Blockchain) {
		c.MaxTraceableBlocks = k.W
		c.MaxValidUntilBlockIncrement = 100000 // the window is what the worlds vary, not the validity span
		c.Ledger.RemoveUntraceableBlocks = gc
		if gc {
			c.Ledger.GarbageCollectionPeriod = 1
		}
	}
}

func dumpStore(ms *storage.MemoryStore) (map[string][]byte, map[string][]byte) {
	mem, stor := map[string][]byte{}, map[string][]byte{}
	for pf := 0; pf < 256; pf++ {
		ms.Seek(storage.SeekRange{Prefix: []byte{byte(pf)}}, func(k, v []byte) bool {
			c := make([]byte, len(v)) // an empty value is a value (nil would be a tombstone)
			copy(c, v)
			if k[0] == byte(storage.STStorage) || k[0] == byte(storage.STTempStorage) {
				stor[string(k)] = c
			} else {
				mem[string(k)] = c
			}
			return true
		})
	}
	return mem, stor
}

// BuildKit creates the base chain: block 1 funds the signer accounts, the rest is empty.
func BuildKit(t testing.TB, w uint32) *Kit {
	k := &Kit{T: t, W: w, Net: chainkit.NewNet(1, 1)}
	for s := 1; s <= maxSigner; s++ {
		key := chainkit.Key(fmt.Sprintf("c07conf-signer-%d", s))
		k.Keys = append(k.Keys, key)
		acc := wallet.NewAccountFromPrivateKey(key)
		k.Acc = append(k.Acc, acc.ScriptHash())
		k.Signers = append(k.Signers, neotest.NewSingleSigner(acc))
	}
	ms := [2]*storage.MemoryStore{storage.NewMemoryStore(), storage.NewMemoryStore()}
	var bcs [2]*core.Blockchain
	for i := range bcs {
		bc, err := k.Net.NewChain(noClose{ms[i]}, k.hook(i == 1))
		if err != nil {
			t.Fatal(err)
		}
		chainkit.Start(bc)
		bcs[i] = bc
	}
	bc := bcs[0]
	e := k.Net.Executor(t, bc)
	gasH := e.NativeHash(t, nativenames.Gas)
	var txs []*transaction.Transaction
	for _, a := range k.Acc {
		tx := e.NewUnsignedTx(t, gasH, "transfer", e.Validator.ScriptHash(), a, 100000*gas, nil)
		tx.ValidUntilBlock = 10
		tx.NetworkFee = gas
		txs = append(txs, e.SignTx(t, tx, 2*gas, e.Validator))
	}
	k.addTo(bcs, txs...)
	for bc.BlockHeight() < baseHeight {
		k.addTo(bcs)
	}
	if bc.GetMaxTraceableBlocks() != w {
		t.Fatalf("window did not take effect: %d", bc.GetMaxTraceableBlocks())
	}
	for _, a := range k.Acc {
		if bc.GetUtilityTokenBalance(a, util.Uint160{}).Sign() <= 0 {
			t.Fatal("signer account not funded")
		}
	}
	for i := range bcs {
		bcs[i].Close() // flushes everything
		k.mem[i], k.stor[i] = dumpStore(ms[i])
	}
	return k
}

func (k *Kit) addTo(bcs [2]*core.Blockchain, txs ...*transaction.Transaction) {
	b, err := k.Net.NewBlock(bcs[0], 1, txs...)
	if err != nil {
		k.T.Fatal(err)
	}
	raw, err := chainkit.EncodeBlock(b)
	if err != nil {
		k.T.Fatal(err)
	}
	for _, bc := range bcs {
		d, err := chainkit.DecodeBlock(raw, false)
		if err != nil {
			k.T.Fatal(err)
		}
		if err := bc.AddBlock(d); err != nil {
			k.T.Fatalf("base chain block %d: %v", b.Index, err)
		}
	}
}

// image returns a private copy of the base database for a plain (gc = false) or collecting node.
func (k *Kit) image(gc bool) *storage.MemoryStore {
	i := 0
	if gc {
		i = 1
	}
	ms := storage.NewMemoryStore()
	_ = ms.PutChangeSet(maps.Clone(k.mem[i]), maps.Clone(k.stor[i]))
	return ms
}

// realTx builds the real transaction of universe entry u: signed by its signers in the given order, naming the given
// hashes in attribute order, paying exactly what the fee calculator says.
func (k *Kit) realTx(bc *core.Blockchain, u Tx, conf []util.Uint256, vub uint32, nonce uint32) *transaction.Transaction {
	tx := transaction.New([]byte{byte(opcode.PUSH1)}, 0)
	tx.Nonce = nonce
	tx.ValidUntilBlock = vub
	for _, h := range conf {
		tx.Attributes = append(tx.Attributes, transaction.Attribute{Type: transaction.ConflictsT, Value: &transaction.Conflicts{Hash: h}})
	}
	var sgs []neotest.Signer
	for _, s := range u.Sg {
		sgs = append(sgs, k.Signers[s-1])
	}
	e := k.Net.Executor(k.T, bc)
	return e.SignTx(k.T, tx, 100_0000, sgs...)
}

// junkHash is the hash behind a junk id (no transaction has it).
func junkHash(world, id int) util.Uint256 {
	var h util.Uint256
	copy(h[:], fmt.Sprintf("c07conf junk %06d %04d ........", world, id))
	return h
}
