package c07conflicts

import (
	"fmt"
	"testing"
	"time"

	"verifharness/internal/chainkit"

	"github.com/nspcc-dev/neo-go/pkg/config"
	"github.com/nspcc-dev/neo-go/pkg/core/storage"
)

type noClose struct{ storage.Store }

func (noClose) Close() error { return nil }

func TestProbe(t *testing.T) {
	net := chainkit.NewNet(1, 1)
	hook := func(c *config.Blockchain) {
		c.MaxTraceableBlocks = 2
		c.Ledger.RemoveUntraceableBlocks = true
		c.Ledger.GarbageCollectionPeriod = 1
	}
	st := noClose{storage.NewMemoryStore()}
	bc, err := net.NewChain(st, hook)
	if err != nil {
		t.Fatal(err)
	}
	chainkit.Start(bc)
	t0 := time.Now()
	for i := 1; i <= 1996; i++ {
		b, err := net.NewBlock(bc, 1)
		if err != nil {
			t.Fatal(err)
		}
		if err := bc.AddBlock(b); err != nil {
			t.Fatal(err)
		}
	}
	fmt.Println("1996 blocks", time.Since(t0), "mtb", bc.GetMaxTraceableBlocks(), "vubinc", bc.GetMaxValidUntilBlockIncrement())
	t0 = time.Now()
	bc.VerifPersist()
	fmt.Println("persist", time.Since(t0))
	for i := 1997; i <= 2004; i++ {
		b, _ := net.NewBlock(bc, 1)
		if err := bc.AddBlock(b); err != nil {
			t.Fatal(err)
		}
		bc.VerifPersist()
		gone := []int{}
		for j := 1990; j <= i; j++ {
			if _, err := bc.GetBlock(bc.GetHeaderHash(uint32(j))); err != nil {
				gone = append(gone, j)
			}
		}
		_, e0 := bc.GetBlock(bc.GetHeaderHash(5))
		fmt.Println("height", i, "gone", gone, "block5 gone", e0 != nil)
	}
	t0 = time.Now()
	n := 0
	ms := st.Store.(*storage.MemoryStore)
	cp := storage.NewMemoryStore()
	mem, stor := map[string][]byte{}, map[string][]byte{}
	for pf := 0; pf < 256; pf++ {
	ms.Seek(storage.SeekRange{Prefix: []byte{byte(pf)}}, func(k, v []byte) bool {
		n++
		if k[0] == byte(storage.STStorage) || k[0] == byte(storage.STTempStorage) {
			stor[string(k)] = v
		} else {
			mem[string(k)] = v
		}
		return true
	})
	}
	cp.PutChangeSet(mem, stor)
	fmt.Println("copy", n, "keys", time.Since(t0))
	bc.Close()
	t0 = time.Now()
	bc2, err := net.NewChain(noClose{cp}, hook)
	if err != nil {
		t.Fatal(err)
	}
	fmt.Println("reopen", time.Since(t0), bc2.BlockHeight())
	chainkit.Start(bc2)
	t0 = time.Now()
	sc, err := net.NewChain(noClose{storage.NewMemCachedStore(cp)}, hook)
	fmt.Println("layered open", time.Since(t0), err, sc.BlockHeight())
	chainkit.Start(sc)
	b, _ := net.NewBlock(sc, 1)
	fmt.Println("scratch add", sc.AddBlock(b), sc.BlockHeight(), bc2.BlockHeight())
	sc.Close()
	bc2.Close()
}
