package c07conflicts

import (
	"fmt"
	"math/rand"
	"runtime/debug"
	"sync"
	"testing"

	"verifharness/internal/vh"
)

type result struct {
	w      int // window
	events []map[string]any
	fail   string
}

func specFromHist(h []Op, wi int, layer string) (Spec, bool) {
	if len(h) == 0 || h[0].Op != "init" {
		return Spec{}, false
	}
	return Spec{WI: wi, Src: "tlc", Layer: layer, W: h[0].W, NS: h[0].NS, NJ: h[0].NJ, U: h[0].U, Ops: h[1:]}, true
}

// alignment: the model height that will coincide with real height 2000 (first run of the real collector): the height at
// which the behaviour's first gc operation happens, or a seeded one.
func alignment(s Spec, r *rand.Rand) int {
	h := 0
	for _, op := range s.Ops {
		switch op.Op {
		case "ext", "empty", "propose":
			h++
		case "gc":
			if h >= 3 {
				return min(h, gcHeight-baseHeight)
			}
		}
	}
	return 3 + r.Intn(4)
}

func TestDriver(t *testing.T) {
	res := vh.NewResult()
	defer func() {
		if err := res.Write(); err != nil {
			t.Fatal(err)
		}
	}()
	windows := []int{2, 3}
	hists := map[int][][]Op{}
	for _, w := range windows {
		var hs [][]Op
		if err := vh.ReadJSON(fmt.Sprintf("hist_w%d.json", w), &hs); err != nil {
			t.Logf("no behaviours for window %d: %v", w, err)
		}
		hists[w] = hs
	}
	nodeTLC := vh.EnvInt("VERIF_NODE_TLC", 60)
	daoRandom := vh.EnvInt("VERIF_DAO_RANDOM", 150)
	nodeRandom := vh.EnvInt("VERIF_NODE_RANDOM", 20)
	randomOps := vh.EnvInt("VERIF_RANDOM_OPS", 40)
	workers := vh.EnvInt("VERIF_WORKERS", 4)

	kits := map[int]*Kit{}
	for _, w := range windows {
		kits[w] = BuildKit(t, uint32(w))
	}

	// the list of worlds (deterministic in the seed)
	type job struct {
		s    Spec
		gcAt int
		base uint32
	}
	var jobs []job
	wi := 0
	rn := vh.Rand(71)
	bases := []uint32{0, 7, 250, 254, 255, 65530, 16777210}
	for _, w := range windows {
		for i, h := range hists[w] {
			wi++
			if s, ok := specFromHist(h, wi, "dao"); ok {
				jobs = append(jobs, job{s: s, base: bases[rn.Intn(len(bases))]})
			}
			if i < nodeTLC {
				wi++
				if s, ok := specFromHist(h, wi, "node"); ok {
					s.Seed = rn.Int63()
					jobs = append(jobs, job{s: s, gcAt: alignment(s, rn)})
				}
			}
		}
	}
	for i := 0; i < daoRandom+nodeRandom; i++ {
		wi++
		w := windows[rn.Intn(len(windows))]
		ns := 1 + rn.Intn(maxSigner)
		nh := 3 + rn.Intn(8)
		nj := 1 + rn.Intn(16)
		s := Spec{WI: wi, Src: "random", Layer: "dao", W: w, NS: ns, NJ: nj, U: randomUniverse(rn, nh, ns, nj), Random: randomOps,
			Seed: rn.Int63(), GCLag: rn.Intn(2)}
		j := job{s: s, base: bases[rn.Intn(len(bases))]}
		if i >= daoRandom {
			j.s.Layer = "node"
			j.s.Random = randomOps / 2
			j.gcAt = 3 + rn.Intn(6)
		}
		jobs = append(jobs, j)
	}

	out := make([]result, len(jobs))
	var wg sync.WaitGroup
	ch := make(chan int)
	for g := 0; g < workers; g++ {
		wg.Add(1)
		go func() {
			defer wg.Done()
			for ji := range ch {
				j := jobs[ji]
				out[ji].w = j.s.W
				func() {
					defer func() {
						if p := recover(); p != nil {
							out[ji].fail = fmt.Sprintf("world %d (%s/%s): panic: %v\n%s", j.s.WI, j.s.Layer, j.s.Src, p, debug.Stack())
						}
					}()
					if j.s.Layer == "dao" {
						w := newDaoWorld(j.s, res, j.base)
						defer func() { out[ji].events = w.events }()
						play(j.s, w)
						res.Inc("dao_worlds", 1)
					} else {
						w := newNodeWorld(j.s, kits[j.s.W], res, j.gcAt)
						defer func() { out[ji].events = w.events }()
						defer w.close()
						play(j.s, w)
						res.Inc("node_worlds", 1)
					}
				}()
			}
		}()
	}
	for ji := range jobs {
		ch <- ji
	}
	close(ch)
	wg.Wait()

	traces := map[int]*vh.Trace{}
	for _, w := range windows {
		traces[w] = vh.NewTrace(fmt.Sprintf("trace_w%d.ndjson", w))
	}
	failed := 0
	for ji, o := range out {
		if o.fail != "" {
			failed++
			t.Errorf("%s", o.fail)
			continue
		}
		for _, ev := range o.events {
			traces[o.w].Emit(ev)
		}
		res.Traces++
		if ji%97 == 3 {
			res.Sample(map[string]any{"world": jobs[ji].s.WI, "layer": jobs[ji].s.Layer, "src": jobs[ji].s.Src, "window": jobs[ji].s.W,
				"universe": jobs[ji].s.U, "events": len(o.events)})
		}
	}
	for _, tr := range traces {
		tr.Close()
	}
	if failed > 0 {
		t.Fatalf("%d worlds failed", failed)
	}
}
