package c07conflicts

import (
	"errors"
	"fmt"
	"math/rand"

	"verifharness/internal/chainkit"
	"verifharness/internal/vh"

	"github.com/nspcc-dev/neo-go/pkg/core"
	"github.com/nspcc-dev/neo-go/pkg/core/mempool"
	"github.com/nspcc-dev/neo-go/pkg/core/storage"
	"github.com/nspcc-dev/neo-go/pkg/core/transaction"
	"github.com/nspcc-dev/neo-go/pkg/util"
)

// node is one real core.Blockchain on its own database.
type node struct {
	name string
	gc   bool
	st   noClose // MemoryStore that survives Close
	bc   *core.Blockchain
}

// nodeWorld: a plain node ("main", the reference; it owns the pool proposals are made from) and a node that collects
// untraceable blocks ("gc", the one whose database is followed on the Impl level) on the same chain.
type nodeWorld struct {
	s      Spec
	k      *Kit
	res    *vh.Result
	r      *rand.Rand
	base   uint32 // real height of model height 0
	nodes  []*node
	txs    []*transaction.Transaction
	hashes []util.Uint256
	byHash map[util.Uint256]int
	blocks [][]Tx
	chain  map[int]bool
	gone   map[int]bool // model blocks the gc node no longer has
	lastOK map[int]bool
	events []map[string]any
	probes int
	// a mixed network: what the collecting node admits and the plain node refuses (at most one probe per refusal class)
	mainAns map[int]string
	mixed   map[string]int
	mixedID int
}

func (w *nodeWorld) emit(ev map[string]any) {
	ev["world"] = w.s.WI
	w.events = append(w.events, ev)
}

func (w *nodeWorld) open(n *node) {
	bc, err := w.k.Net.NewChain(n.st, w.k.hook(n.gc))
	if err != nil {
		panic(fmt.Sprintf("world %d: cannot open node %s: %v", w.s.WI, n.name, err))
	}
	chainkit.Start(bc)
	n.bc = bc
}

// newNodeWorld opens both nodes on images of the base chain and brings them to the world's base height: the height at
// which the model chain is empty.  gcAt is the model height that coincides with real height 2000, the first height at
// which the real collector removes blocks.
func newNodeWorld(s Spec, k *Kit, res *vh.Result, gcAt int) *nodeWorld {
	w := &nodeWorld{s: s, k: k, res: res, r: rand.New(rand.NewSource(s.Seed ^ 0x5bd1)), base: uint32(gcHeight - gcAt),
		byHash: map[util.Uint256]int{}, chain: map[int]bool{}, gone: map[int]bool{}, lastOK: map[int]bool{},
		mainAns: map[int]string{}, mixed: map[string]int{}}
	if w.base < baseHeight {
		panic(fmt.Sprintf("world %d: alignment %d too large", s.WI, gcAt))
	}
	w.nodes = []*node{{name: "main", st: noClose{k.image(false)}}, {name: "gc", gc: true, st: noClose{k.image(true)}}}
	for _, n := range w.nodes {
		w.open(n)
	}
	for w.nodes[0].bc.BlockHeight() < w.base {
		if r := w.wire(nil, false); !r.all {
			panic(fmt.Sprintf("world %d: padding block refused: %v", s.WI, r.errs))
		}
		w.persist()
	}
	n := len(s.U)
	w.hashes = make([]util.Uint256, n+s.NJ)
	for j := 1; j <= s.NJ; j++ {
		w.hashes[n+j-1] = junkHash(s.WI, n+j)
	}
	for _, u := range s.U {
		var conf []util.Uint256
		for _, c := range u.Conf {
			conf = append(conf, w.hashes[c-1])
		}
		tx := k.realTx(w.nodes[0].bc, u, conf, w.base+vubSpan, uint32(s.WI*1000+u.ID))
		w.txs = append(w.txs, tx)
		w.hashes[u.ID-1] = tx.Hash()
		w.byHash[tx.Hash()] = u.ID
	}
	w.emit(initEvent(s, "gc"))
	w.emit(map[string]any{"event": "info", "base": w.base, "gc_at_model_height": gcAt})
	return w
}

func (w *nodeWorld) close() {
	for _, n := range w.nodes {
		n.bc.Close()
	}
}

func (w *nodeWorld) height() int { return len(w.blocks) }

type wireResult struct {
	acc  []bool
	errs []string
	all  bool
}

// wire builds the next block on the reference node out of txs, encodes it and hands a fresh parse of the wire bytes to every
// node (withFork: also to a scratch copy of the reference node that has an empty pool), the reference node last.
func (w *nodeWorld) wire(txs []*transaction.Transaction, withFork bool) wireResult {
	main := w.nodes[0]
	b, err := w.k.Net.NewBlock(main.bc, 1, txs...)
	if err != nil {
		// the node cannot read its own tip: nothing can be built on it (never on the unchanged tree)
		w.res.Inc("node_worlds_broken", 1)
		w.emit(map[string]any{"event": "abort", "why": "reference node cannot read its tip: " + err.Error()})
		return wireResult{acc: make([]bool, len(w.nodes)), errs: make([]string, len(w.nodes))}
	}
	raw, err := chainkit.EncodeBlock(b)
	if err != nil {
		panic(err)
	}
	add := func(bc *core.Blockchain) (bool, string) {
		d, err := chainkit.DecodeBlock(raw, false)
		if err != nil {
			return false, "decode: " + err.Error()
		}
		if err := bc.AddBlock(d); err != nil {
			return false, err.Error()
		}
		return true, ""
	}
	res := wireResult{acc: make([]bool, len(w.nodes)), errs: make([]string, len(w.nodes)), all: true}
	if withFork {
		f := w.fork(main)
		ok, es := add(f)
		f.Close()
		res.acc = append(res.acc, ok)
		res.errs = append(res.errs, es)
	}
	for i := len(w.nodes) - 1; i >= 0; i-- {
		res.acc[i], res.errs[i] = add(w.nodes[i].bc)
	}
	for _, a := range res.acc {
		res.all = res.all && a
	}
	return res
}

// fork opens a scratch node on a copy-on-write layer over n's flushed database (n itself is not touched).
func (w *nodeWorld) fork(n *node) *core.Blockchain {
	bc, err := w.k.Net.NewChain(noClose{storage.NewMemCachedStore(n.st)}, w.k.hook(n.gc))
	if err != nil {
		panic(fmt.Sprintf("world %d: cannot fork node %s: %v", w.s.WI, n.name, err))
	}
	if bc.BlockHeight() != n.bc.BlockHeight() {
		panic(fmt.Sprintf("world %d: fork of %s is at %d, node at %d (unflushed state)", w.s.WI, n.name, bc.BlockHeight(), n.bc.BlockHeight()))
	}
	chainkit.Start(bc)
	return bc
}

func (w *nodeWorld) names(withFork bool) []string {
	r := []string{}
	for _, n := range w.nodes {
		r = append(r, n.name)
	}
	if withFork {
		r = append(r, "fork")
	}
	return r
}

func (w *nodeWorld) pushed(ids []int) {
	var mt []Tx
	for _, id := range ids {
		mt = append(mt, w.s.U[id-1])
		w.chain[id] = true
	}
	w.blocks = append(w.blocks, mt)
}

func (w *nodeWorld) block(src string, ids []int) bool {
	var txs []*transaction.Transaction
	for _, id := range ids {
		txs = append(txs, w.txs[id-1])
	}
	if ids == nil {
		ids = []int{}
	}
	r := w.wire(txs, false)
	w.emit(map[string]any{"event": "block", "src": src, "txs": ids, "nodes": w.names(false), "acc": r.acc, "errs": r.errs})
	if !r.all {
		w.res.Inc("node_worlds_aborted", 1)
		w.emit(map[string]any{"event": "abort", "why": "block refused", "errs": r.errs})
		return false
	}
	w.pushed(ids)
	return true
}

func (w *nodeWorld) offer(id int) bool {
	err := w.nodes[0].bc.PoolTx(w.txs[id-1])
	w.emit(map[string]any{"event": "offer", "id": id, "ok": err == nil, "msg": fmt.Sprint(err)})
	w.res.Inc("node_offers", 1)
	return err == nil
}

func (w *nodeWorld) pooled() []int {
	var ids []int
	for _, tx := range w.nodes[0].bc.GetMemPool().GetVerifiedTransactions() {
		ids = append(ids, w.byHash[tx.Hash()])
	}
	return ids
}

// propose does what a primary does with its pool: pool order, block policy, block; every node gets the wire bytes.
func (w *nodeWorld) propose() bool {
	main := w.nodes[0].bc
	verified := main.GetMemPool().GetVerifiedTransactions()
	sel := main.ApplyPolicyToTxSet(verified)
	ids := []int{}
	for _, tx := range sel {
		ids = append(ids, w.byHash[tx.Hash()])
	}
	r := w.wire(sel, true)
	w.emit(map[string]any{"event": "block", "src": "propose", "txs": ids, "pool": w.idsOf(verified), "nodes": w.names(true), "acc": r.acc, "errs": r.errs})
	w.res.Inc("node_proposals", 1)
	w.res.Count([]any{"propose", w.s.W, chainSig(w.blocks), ids})
	if !r.acc[0] || !r.acc[1] {
		// the chain cannot go on in step; a refusal by the proposer alone leaves its pool as it is
		w.res.Inc("node_worlds_aborted", 1)
		w.emit(map[string]any{"event": "abort", "why": "proposal refused", "errs": r.errs})
		if r.acc[0] {
			w.pushed(ids)
		}
		return false
	}
	w.pushed(ids)
	return true
}

func (w *nodeWorld) idsOf(txs []*transaction.Transaction) []int {
	ids := []int{}
	for _, tx := range txs {
		ids = append(ids, w.byHash[tx.Hash()])
	}
	return ids
}

func (w *nodeWorld) gc(int)         {} // the real collector decides (see persist)
func (w *nodeWorld) canGC(int) int  { return 0 }
func (w *nodeWorld) ok(id int) bool { return w.lastOK[id] }
func (w *nodeWorld) onChain(id int) bool {
	return w.chain[id]
}

func (w *nodeWorld) restart() {
	for _, n := range w.nodes {
		n.bc.Close()
		w.open(n)
	}
	w.res.Inc("node_restarts", 1)
	w.emit(map[string]any{"event": "restart"})
}

// persist flushes both nodes the way the persist timer does (the gc node runs its collector right after) and reports
// which blocks of the world the gc node lost.
func (w *nodeWorld) persist() {
	for _, n := range w.nodes {
		// the collector runs after the flush and leaves its deletions in the write cache: a second flush (the next tick
		// of the persist timer) brings them to the database, which is what forks and the record read-back look at
		for range 2 {
			if err := n.bc.VerifPersist(); err != nil {
				panic(fmt.Sprintf("world %d: flush of %s: %v", w.s.WI, n.name, err))
			}
		}
	}
	g := w.nodes[1].bc
	removed := []int{}
	for i := 1; i <= len(w.blocks); i++ {
		if w.gone[i] {
			continue
		}
		if _, err := g.GetBlock(g.GetHeaderHash(w.base + uint32(i))); err != nil {
			w.gone[i] = true
			removed = append(removed, i)
		}
	}
	if len(removed) > 0 {
		w.res.Inc("node_gc_removed_blocks", len(removed))
		w.emit(map[string]any{"event": "gc", "node": "gc", "removed": removed, "err": false, "height": len(w.blocks)})
	}
}

func classify(err error) string {
	switch {
	case err == nil:
		return "ok"
	case errors.Is(err, core.ErrAlreadyExists):
		return "exists"
	case errors.Is(err, core.ErrHasConflicts):
		return "conflicts"
	case errors.Is(err, core.ErrInvalidAttribute):
		return "attr"
	}
	return "other:" + err.Error()
}

func (w *nodeWorld) after() {
	w.persist()
	kv, rec := readCells(w.nodes[1].st, w.hashes, w.k.Acc[:w.s.NS], w.base)
	w.emit(map[string]any{"event": "store", "node": "gc", "kv": kv, "rec": rec})
	cs := chainSig(w.blocks)
	probe := 0
	if len(w.s.U) > 0 {
		probe = 1 + w.r.Intn(len(w.s.U))
	}
	for ni, n := range w.nodes {
		for _, u := range w.s.U {
			tx := w.txs[u.ID-1]
			mp := mempool.New(4, false, nil)
			err := n.bc.PoolTx(tx, mp)
			ans := classify(err)
			pooled := err == nil && mp.ContainsKey(tx.Hash())
			if (err == nil) != mp.ContainsKey(tx.Hash()) {
				ans = "inconsistent"
			}
			inblock := -1
			if u.ID == probe && (w.probes+ni)%2 == 0 {
				// the in-block path: a block holding just this transaction, on a scratch copy of the node
				f := w.fork(n)
				if b, err := w.k.Net.NewBlock(f, 1, tx); err != nil {
					w.res.Inc("node_probes_impossible", 1)
				} else {
					raw, err := chainkit.EncodeBlock(b)
					if err != nil {
						panic(err)
					}
					d, err := chainkit.DecodeBlock(raw, false)
					if err != nil {
						panic(err)
					}
					if f.AddBlock(d) == nil {
						inblock = 1
					} else {
						inblock = 0
					}
					w.res.Inc("node_inblock_probes", 1)
				}
				f.Close()
			}
			w.lastOK[u.ID] = pooled && (ni == 0 || w.lastOK[u.ID])
			if ni == 0 {
				w.mainAns[u.ID] = ans
			} else if pooled && w.mainAns[u.ID] != "ok" && w.mixedID == 0 && w.mixed[w.mainAns[u.ID]] < 1 {
				w.mixedID = u.ID
			}
			w.emit(map[string]any{"event": "admit", "node": n.name, "id": u.ID, "pooled": pooled, "ans": ans, "inblock": inblock})
			w.res.Count([]any{"node", n.name, w.s.W, cs, w.gone[1], txSig(u)})
			w.res.Inc("node_answers_"+ans, 1)
		}
	}
	w.probes++
	w.mixedProbe()
	w.emit(map[string]any{"event": "pool", "ids": append([]int{}, w.pooled()...)})
}

// mixedProbe: the collecting node admitted a transaction the plain node refuses.  The collecting node as a primary: its
// pool (just this transaction) becomes a block; the wire bytes go to a scratch copy of each node.
func (w *nodeWorld) mixedProbe() {
	id := w.mixedID
	w.mixedID = 0
	if id == 0 {
		return
	}
	why := w.mainAns[id]
	w.mixed[why]++
	g, m := w.fork(w.nodes[1]), w.fork(w.nodes[0])
	defer g.Close()
	defer m.Close()
	mp := mempool.New(4, false, nil)
	if err := g.PoolTx(w.txs[id-1], mp); err != nil {
		w.res.Inc("node_probes_impossible", 1)
		return
	}
	sel := g.ApplyPolicyToTxSet(mp.GetVerifiedTransactions())
	b, err := w.k.Net.NewBlock(g, 1, sel...)
	if err != nil {
		w.res.Inc("node_probes_impossible", 1)
		return
	}
	raw, err := chainkit.EncodeBlock(b)
	if err != nil {
		panic(err)
	}
	acc, errs := []bool{}, []string{}
	for _, bc := range []*core.Blockchain{g, m} {
		d, err := chainkit.DecodeBlock(raw, false)
		if err != nil {
			panic(err)
		}
		err = bc.AddBlock(d)
		acc = append(acc, err == nil)
		errs = append(errs, fmt.Sprint(err))
	}
	w.res.Inc("node_mixed_probes_"+why, 1)
	w.emit(map[string]any{"event": "probe", "proposer": "gc", "id": id, "txs": []int{id}, "nodes": []string{"gc", "main"}, "acc": acc,
		"why": why, "errs": errs, "height": len(w.blocks), "hash": w.txs[id-1].Hash().StringLE()})
}
