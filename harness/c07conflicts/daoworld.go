package c07conflicts

import (
	"encoding/binary"
	"errors"
	"fmt"
	"sort"

	"verifharness/internal/vh"

	"github.com/nspcc-dev/neo-go/pkg/core/block"
	"github.com/nspcc-dev/neo-go/pkg/core/dao"
	"github.com/nspcc-dev/neo-go/pkg/core/storage"
	"github.com/nspcc-dev/neo-go/pkg/core/transaction"
	"github.com/nspcc-dev/neo-go/pkg/util"
	"github.com/nspcc-dev/neo-go/pkg/vm/opcode"
)

// daoWorld drives a real dao.Simple the way Blockchain.storeBlock / removeUntraceableBlocks / verifyAndPoolTx use it.
type daoWorld struct {
	s      Spec
	res    *vh.Result
	store  *storage.MemoryStore
	d      *dao.Simple
	base   uint32
	acc    []util.Uint160
	txs    []*transaction.Transaction // by id-1
	hashes []util.Uint256             // by id-1, junk ids included
	blocks [][]Tx
	bhash  []util.Uint256
	stored map[int]bool
	chain  map[int]bool
	pool   []int
	lastOK map[int]bool
	events []map[string]any
}

func (w *daoWorld) emit(ev map[string]any) {
	ev["world"] = w.s.WI
	w.events = append(w.events, ev)
}

func signerAccount(s int) util.Uint160 {
	var a util.Uint160
	copy(a[:], fmt.Sprintf("c07conf signer %02d......", s))
	return a
}

func newDaoWorld(s Spec, res *vh.Result, base uint32) *daoWorld {
	w := &daoWorld{s: s, res: res, store: storage.NewMemoryStore(), base: base, stored: map[int]bool{}, chain: map[int]bool{}, lastOK: map[int]bool{}}
	w.d = dao.NewSimple(w.store, false)
	for i := 1; i <= maxSigner; i++ {
		w.acc = append(w.acc, signerAccount(i))
	}
	n := len(s.U)
	w.hashes = make([]util.Uint256, n+s.NJ)
	for j := 1; j <= s.NJ; j++ {
		w.hashes[n+j-1] = junkHash(s.WI, n+j)
	}
	for _, u := range s.U {
		tx := transaction.New([]byte{byte(opcode.PUSH1)}, 1000)
		tx.Nonce = uint32(s.WI*1000 + u.ID)
		tx.ValidUntilBlock = base + 1000
		for _, sg := range u.Sg {
			tx.Signers = append(tx.Signers, transaction.Signer{Account: w.acc[sg-1], Scopes: transaction.CalledByEntry})
			tx.Scripts = append(tx.Scripts, transaction.Witness{InvocationScript: []byte{1}, VerificationScript: []byte{2}})
		}
		for _, c := range u.Conf {
			tx.Attributes = append(tx.Attributes, transaction.Attribute{Type: transaction.ConflictsT, Value: &transaction.Conflicts{Hash: w.hashes[c-1]}})
		}
		w.txs = append(w.txs, tx)
		w.hashes[u.ID-1] = tx.Hash()
	}
	w.emit(initEvent(s, "dao"))
	return w
}

func (w *daoWorld) height() int { return len(w.blocks) }

func (w *daoWorld) block(src string, ids []int) bool {
	idx := w.base + uint32(len(w.blocks)) + 1
	b := &block.Block{Header: block.Header{Index: idx, Timestamp: uint64(idx) * 1000, Nonce: uint64(w.s.WI)}}
	if len(w.bhash) > 0 {
		b.PrevHash = w.bhash[len(w.bhash)-1]
	}
	var mt []Tx
	for _, id := range ids {
		b.Transactions = append(b.Transactions, w.txs[id-1])
		mt = append(mt, w.s.U[id-1])
		w.chain[id] = true
	}
	b.RebuildMerkleRoot()
	// as storeBlock: a private layer, transactions first, then the block, then merged into the node's dao
	priv := w.d.GetPrivate()
	for _, tx := range b.Transactions {
		if err := priv.StoreAsTransaction(tx, idx, nil); err != nil {
			panic(err)
		}
	}
	if err := priv.StoreAsBlock(b, nil, nil); err != nil {
		panic(err)
	}
	if _, err := priv.Persist(); err != nil {
		panic(err)
	}
	w.blocks = append(w.blocks, mt)
	w.bhash = append(w.bhash, b.Hash())
	w.stored[len(w.blocks)] = true
	w.pool = filterPool(w.s.U, w.pool, mt)
	if ids == nil {
		ids = []int{}
	}
	w.emit(map[string]any{"event": "block", "src": "ext", "txs": ids, "nodes": []string{"dao"}, "acc": []bool{true}})
	return true
}

// filterPool is the harness's own pool of the dao layer (ids only): what a block is, names or is named by leaves.
func filterPool(u []Tx, pool []int, blk []Tx) []int {
	var keep []int
	for _, p := range pool {
		drop := false
		for _, t := range blk {
			if clash(u[p-1], t) {
				drop = true
			}
		}
		if !drop {
			keep = append(keep, p)
		}
	}
	return keep
}

func (w *daoWorld) offer(id int) bool {
	if w.lastOK[id] && !w.chain[id] {
		w.pool = append(w.pool, id)
		return true
	}
	return false
}

func (w *daoWorld) propose() bool {
	ids := append([]int{}, w.pool...)
	sort.Ints(ids)
	return w.block("ext", ids)
}

func (w *daoWorld) canGC(lag int) int {
	for i := 1; i <= len(w.blocks); i++ {
		if w.stored[i] {
			if i+w.s.W+lag <= len(w.blocks) {
				return i
			}
			return 0
		}
	}
	return 0
}

func (w *daoWorld) gc(i int) {
	if !w.stored[i] {
		w.emit(map[string]any{"event": "gc", "node": "dao", "removed": []int{}, "err": false})
		return
	}
	// as removeUntraceableBlocks: private layer, DeleteBlock, Persist whatever the result
	kv := w.d.GetPrivate()
	_, err := kv.DeleteBlock(w.bhash[i-1])
	if _, perr := kv.Persist(); perr != nil {
		panic(perr)
	}
	w.stored[i] = false
	w.res.Inc("dao_gc_blocks", 1)
	if err != nil {
		w.res.Inc("dao_gc_errors", 1)
	}
	w.emit(map[string]any{"event": "gc", "node": "dao", "removed": []int{i}, "err": err != nil, "msg": fmt.Sprint(err)})
}

func (w *daoWorld) restart() {
	if _, err := w.d.Persist(); err != nil {
		panic(err)
	}
	w.d = dao.NewSimple(w.store, false)
	w.pool = nil
	w.emit(map[string]any{"event": "restart"})
}

func (w *daoWorld) ok(id int) bool      { return w.lastOK[id] }
func (w *daoWorld) onChain(id int) bool { return w.chain[id] }
func (w *daoWorld) pooled() []int       { return w.pool }

// answer is what verifyAndPoolTx asks the dao about a transaction that is valid otherwise.
func daoAnswer(d *dao.Simple, tx *transaction.Transaction, height, window uint32) string {
	if err := d.HasTransaction(tx.Hash(), tx.Signers, height, window); err != nil {
		switch {
		case errors.Is(err, dao.ErrAlreadyExists):
			return "exists"
		case errors.Is(err, dao.ErrHasConflicts):
			return "conflicts"
		}
		return "other"
	}
	for _, a := range tx.GetAttributes(transaction.ConflictsT) {
		if err := d.HasTransaction(a.Value.(*transaction.Conflicts).Hash, nil, 0, 0); errors.Is(err, dao.ErrAlreadyExists) {
			return "attr"
		}
	}
	return "ok"
}

func (w *daoWorld) after() {
	if _, err := w.d.Persist(); err != nil {
		panic(err)
	}
	kv, rec := readCells(w.store, w.hashes, w.acc[:w.s.NS], w.base)
	w.emit(map[string]any{"event": "store", "node": "dao", "kv": kv, "rec": rec})
	h := w.base + uint32(len(w.blocks))
	cs := chainSig(w.blocks)
	for _, u := range w.s.U {
		ans := daoAnswer(w.d, w.txs[u.ID-1], h, uint32(w.s.W))
		w.lastOK[u.ID] = ans == "ok"
		w.emit(map[string]any{"event": "admit", "node": "dao", "id": u.ID, "pooled": ans == "ok", "ans": ans, "inblock": -1})
		w.res.Count([]any{"dao", w.s.W, cs, txSig(u)})
		w.res.Inc("dao_answers_"+ans, 1)
	}
}

// readCells reads the conflict record cells of the given hashes back from a database: the cell under
// DataExecutable|hash (stub or transaction, with its block index) and the 'hash|signer' records.
func readCells(st storage.Store, hashes []util.Uint256, accs []util.Uint160, base uint32) ([]map[string]any, []map[string]any) {
	kv, rec := []map[string]any{}, []map[string]any{}
	rel := func(v []byte) int { return int(binary.LittleEndian.Uint32(v[1:5])) - int(base) }
	for i, h := range hashes {
		key := append([]byte{byte(storage.DataExecutable)}, h.BytesBE()...)
		if v, err := st.Get(key); err == nil && len(v) >= 5 {
			switch {
			case v[0] != storage.ExecTransaction:
				kv = append(kv, map[string]any{"h": i + 1, "k": "block", "i": 0})
			case len(v) == 5:
				kv = append(kv, map[string]any{"h": i + 1, "k": "stub", "i": rel(v)})
			default:
				kv = append(kv, map[string]any{"h": i + 1, "k": "tx", "i": rel(v)})
			}
		}
		for s, a := range accs {
			if v, err := st.Get(append(append([]byte{}, key...), a.BytesBE()...)); err == nil && len(v) >= 5 {
				rec = append(rec, map[string]any{"h": i + 1, "s": s + 1, "i": rel(v)})
			}
		}
	}
	return kv, rec
}
