// Package c19net binds spec/consnet to the node's REAL P2P server with its REAL consensus service attached: a started
// network.Server (loopback listener on an ephemeral port) on a real core.Blockchain, a consensus.Service wired into it exactly
// as cli/server mkConsensus does (Broadcast = Server.BroadcastExtensible, BlockQueue = Server.GetBlockQueue(), RequestTx /
// StopTxFlow = the server's, AddConsensusService(OnPayload, OnTransaction)), and harness-side FAKE PEERS over real TCP
// connections that hold the OTHER validators' private keys and speak the wire protocol with the public message / payload
// types only.  Nothing of server.go / extpool / consensus.go is transcribed: what is recorded is what the node really put on
// the wire (per connection, in order), what reached the service (observation taps around the callbacks the node's own wiring
// passes), and what the ledger accepted.  Time of the dBFT state machine is virtual (consensus.VerifNewTimer).
package c19net

import (
	"errors"
	"fmt"
	"net"
	"sync"
	"sync/atomic"
	"time"

	"github.com/nspcc-dev/neo-go/pkg/config/netmode"
	"github.com/nspcc-dev/neo-go/pkg/io"
	"github.com/nspcc-dev/neo-go/pkg/network"
	"github.com/nspcc-dev/neo-go/pkg/network/capability"
	"github.com/nspcc-dev/neo-go/pkg/network/payload"
)

// errTimeout marks an infrastructure time-out: it never becomes a verdict (the driver fails -> exit 2).
var errTimeout = errors.New("c19net: time-out waiting for the node (inconclusive)")

const ioTimeout = 90 * time.Second

// evlog is the totally ordered event log of one scenario.  A peer logs what it SENDS before writing it to the socket and
// what it RECEIVES after reading it, so the log order is consistent with causality through the node.
type evlog struct {
	mu  sync.Mutex
	evs []map[string]any
	n   atomic.Int64
}

func (l *evlog) emit(ev map[string]any) {
	l.mu.Lock()
	l.evs = append(l.evs, ev)
	l.mu.Unlock()
	l.n.Add(1)
}

func (l *evlog) snapshot() []map[string]any {
	l.mu.Lock()
	defer l.mu.Unlock()
	return append([]map[string]any(nil), l.evs...)
}

// conn is one TCP connection of a fake peer to a node.
type conn struct {
	c      net.Conn
	r      *io.BinReader
	srih   bool
	wmu    sync.Mutex
	closed atomic.Bool
}

func dial(port uint16, srih bool) (*conn, error) {
	c, err := net.DialTimeout("tcp", fmt.Sprintf("127.0.0.1:%d", port), 10*time.Second)
	if err != nil {
		return nil, err
	}
	if tc, ok := c.(*net.TCPConn); ok {
		_ = tc.SetNoDelay(true)
	}
	return &conn{c: c, r: io.NewBinReaderFromIO(c), srih: srih}, nil
}

// send writes one message (never compressed: the peers announce no compression support so the node doesn't compress either).
func (c *conn) send(m *network.Message) error {
	b, err := m.BytesCompressed(false)
	if err != nil {
		return err
	}
	return c.sendRaw(b)
}

func (c *conn) sendRaw(b []byte) error {
	c.wmu.Lock()
	defer c.wmu.Unlock()
	_ = c.c.SetWriteDeadline(time.Now().Add(ioTimeout))
	_, err := c.c.Write(b)
	return err
}

// recv reads one message; io.EOF / reset = the node closed the connection; a deadline error = errTimeout.
func (c *conn) recv() (*network.Message, error) {
	_ = c.c.SetReadDeadline(time.Now().Add(ioTimeout))
	m := &network.Message{StateRootInHeader: c.srih}
	err := m.Decode(c.r)
	if err != nil {
		var ne net.Error
		if errors.As(err, &ne) && ne.Timeout() {
			return nil, errTimeout
		}
		return nil, err
	}
	return m, nil
}

func (c *conn) close() {
	if c.closed.CompareAndSwap(false, true) {
		_ = c.c.Close()
	}
}

func versionMsg(magic netmode.Magic, nonce uint32, height uint32) *network.Message {
	caps := []capability.Capability{{Type: capability.ArchivalNode, Data: &capability.Archival{}},
		{Type: capability.DisableCompressionNode, Data: &capability.DisableCompression{}},
		{Type: capability.FullNode, Data: &capability.Node{StartHeight: height}}}
	return network.NewMessage(network.CMDVersion, payload.NewVersion(magic, nonce, "/verif-fake-validator/", caps))
}

func verackMsg() *network.Message {
	return network.NewMessage(network.CMDVerack, payload.NewNullPayload())
}

func pingMsg(height, nonce uint32) *network.Message {
	return network.NewMessage(network.CMDPing, payload.NewPing(height, nonce))
}

func pongMsg(height, nonce uint32) *network.Message {
	return network.NewMessage(network.CMDPong, payload.NewPing(height, nonce))
}

func cmdName(c network.CommandType) string {
	switch c {
	case network.CMDVersion:
		return "version"
	case network.CMDVerack:
		return "verack"
	case network.CMDGetAddr:
		return "getaddr"
	case network.CMDAddr:
		return "addr"
	case network.CMDPing:
		return "ping"
	case network.CMDPong:
		return "pong"
	case network.CMDGetHeaders:
		return "getheaders"
	case network.CMDHeaders:
		return "headers"
	case network.CMDGetBlocks:
		return "getblocks"
	case network.CMDMempool:
		return "mempool"
	case network.CMDInv:
		return "inv"
	case network.CMDGetData:
		return "getdata"
	case network.CMDGetBlockByIndex:
		return "getblockbyindex"
	case network.CMDNotFound:
		return "notfound"
	case network.CMDTX:
		return "tx"
	case network.CMDBlock:
		return "block"
	case network.CMDExtensible:
		return "extensible"
	}
	return fmt.Sprintf("cmd%02x", byte(c))
}
