package c19net

import (
	"errors"
	"fmt"
	"sync"
	"time"

	"github.com/nspcc-dev/neo-go/pkg/core/block"
	"github.com/nspcc-dev/neo-go/pkg/core/transaction"
	"github.com/nspcc-dev/neo-go/pkg/network"
	"github.com/nspcc-dev/neo-go/pkg/network/payload"
	"github.com/nspcc-dev/neo-go/pkg/util"
)

// peer is one connection of a fake peer to a node.  Its reader goroutine records every message the node sends on this
// connection, in order, and answers by script: ping -> pong; getdata(tx) -> the transactions this peer holds (unless mute);
// getdata(extensible) -> the payloads this peer announced.
type peer struct {
	id    int
	to    *node
	log   *evlog
	c     *conn
	nonce uint32
	adv   uint32

	mu      sync.Mutex
	txs     map[util.Uint256]*transaction.Transaction // served on getdata
	txBad   map[util.Uint256]bool
	pre     []*block.Block // blocks served on getblockbyindex
	lastGBI [2]int
	since   int64                                // log position at which the handshake completed
	exts    map[util.Uint256]*payload.Extensible // served on getdata
	mute    bool                                 // never answers getdata for transactions
	txOrder string                               // asc | desc
	txDup   bool
	byUs    bool
	pongs   chan uint32
	gone    chan struct{}
	blocks  chan *block.Block
	gotExt  chan *payload.Extensible
	notf    chan *payload.Inventory
	readErr error
	// what the node asked / told on this connection (read by the settle loop)
	invExt  map[util.Uint256]int
	invBlk  map[util.Uint256]int
	askedTx map[util.Uint256]int
}

func (p *peer) emit(ev map[string]any) {
	ev["p"] = p.id
	ev["n"] = p.to.id
	p.log.emit(ev)
}

func connect(id int, to *node, log *evlog, adv uint32, nonce uint32) (*peer, error) {
	c, err := dial(to.port, to.w.srih)
	if err != nil {
		return nil, err
	}
	p := &peer{id: id, to: to, log: log, c: c, nonce: nonce, adv: adv, txs: map[util.Uint256]*transaction.Transaction{}, txBad: map[util.Uint256]bool{},
		exts: map[util.Uint256]*payload.Extensible{}, pongs: make(chan uint32, 4), gone: make(chan struct{}),
		blocks: make(chan *block.Block, 64), gotExt: make(chan *payload.Extensible, 256), notf: make(chan *payload.Inventory, 64),
		invExt: map[util.Uint256]int{}, invBlk: map[util.Uint256]int{}, askedTx: map[util.Uint256]int{}}
	m, err := c.recv()
	if err != nil {
		c.close()
		return nil, fmt.Errorf("handshake: %w", err)
	}
	if m.Command != network.CMDVersion {
		c.close()
		return nil, fmt.Errorf("handshake: first message is %s", cmdName(m.Command))
	}
	if err := c.send(versionMsg(to.w.net.Magic, nonce, adv)); err != nil {
		c.close()
		return nil, err
	}
	m, err = c.recv()
	if err != nil {
		c.close()
		return nil, fmt.Errorf("handshake: %w", err)
	}
	if m.Command != network.CMDVerack {
		c.close()
		return nil, fmt.Errorf("handshake: second message is %s", cmdName(m.Command))
	}
	p.emit(map[string]any{"event": "conn", "adv": int(adv)})
	p.since = log.n.Load()
	if err := c.send(verackMsg()); err != nil {
		c.close()
		return nil, err
	}
	go p.loop()
	return p, nil
}

func (p *peer) loop() {
	defer close(p.gone)
	for {
		m, err := p.c.recv()
		if err != nil {
			p.mu.Lock()
			byUs := p.byUs
			p.readErr = err
			p.mu.Unlock()
			if !byUs {
				p.emit(map[string]any{"event": "close", "by": "node", "timeout": errors.Is(err, errTimeout)})
			}
			return
		}
		switch m.Command {
		case network.CMDPing:
			_ = p.c.send(pongMsg(p.adv, p.nonce))
		case network.CMDPong:
			select {
			case p.pongs <- m.Payload.(*payload.Ping).LastBlockIndex:
			default:
			}
		case network.CMDGetAddr, network.CMDAddr:
		case network.CMDInv:
			inv := m.Payload.(*payload.Inventory)
			p.mu.Lock()
			for _, h := range inv.Hashes {
				switch inv.Type {
				case payload.ExtensibleType:
					p.invExt[h]++
				case payload.BlockType:
					p.invBlk[h]++
				}
			}
			p.mu.Unlock()
			p.emit(map[string]any{"event": "r", "m": "inv", "typ": invName(inv.Type), "hs": sids(inv.Hashes)})
		case network.CMDGetData:
			inv := m.Payload.(*payload.Inventory)
			p.emit(map[string]any{"event": "r", "m": "getdata", "typ": invName(inv.Type), "hs": sids(inv.Hashes)})
			p.serve(inv)
		case network.CMDExtensible:
			e := m.Payload.(*payload.Extensible)
			ev := p.to.w.classify(e)
			ev["event"], ev["m"], ev["x"] = "r", "extensible", p.to.copyID(e)
			p.emit(ev)
			select {
			case p.gotExt <- e:
			default:
			}
		case network.CMDBlock:
			b := m.Payload.(*block.Block)
			p.emit(map[string]any{"event": "r", "m": "block", "i": int(b.Index), "b": sid(b.Hash())})
			select {
			case p.blocks <- b:
			default:
			}
		case network.CMDTX:
			tx := m.Payload.(*transaction.Transaction)
			p.emit(map[string]any{"event": "r", "m": "tx", "t": sid(tx.Hash())})
		case network.CMDNotFound:
			inv := m.Payload.(*payload.Inventory)
			p.emit(map[string]any{"event": "r", "m": "notfound", "typ": invName(inv.Type), "hs": sids(inv.Hashes)})
			select {
			case p.notf <- inv:
			default:
			}
		case network.CMDGetBlockByIndex:
			g := m.Payload.(*payload.GetBlockByIndex)
			// the node repeats its block requests on every protocol tick: identical consecutive ones are recorded once
			if k := [2]int{int(g.IndexStart), int(g.Count)}; k != p.lastGBI {
				p.lastGBI = k
				p.emit(map[string]any{"event": "r", "m": "getblockbyindex", "start": int(g.IndexStart), "count": int(g.Count)})
			}
			p.serveBlocks(int(g.IndexStart), int(g.Count))
		case network.CMDGetHeaders:
			g := m.Payload.(*payload.GetBlockByIndex)
			if k := [2]int{-1 - int(g.IndexStart), int(g.Count)}; k != p.lastGBI {
				p.lastGBI = k
				p.emit(map[string]any{"event": "r", "m": "getheaders", "start": int(g.IndexStart), "count": int(g.Count)})
			}
		default:
			p.emit(map[string]any{"event": "r", "m": cmdName(m.Command)})
		}
	}
}

func invName(t payload.InventoryType) string {
	switch t {
	case payload.TXType:
		return "tx"
	case payload.BlockType:
		return "block"
	case payload.ExtensibleType:
		return "ext"
	}
	return t.String()
}

// serve answers the node's getdata.
func (p *peer) serve(inv *payload.Inventory) {
	p.mu.Lock()
	mute := p.mute
	var txs []*transaction.Transaction
	var exts []*payload.Extensible
	for _, h := range inv.Hashes {
		switch inv.Type {
		case payload.TXType:
			p.askedTx[h]++
			if tx := p.txs[h]; tx != nil {
				txs = append(txs, tx)
			}
		case payload.ExtensibleType:
			if e := p.exts[h]; e != nil {
				exts = append(exts, e)
			}
		}
	}
	order, dup := p.txOrder, p.txDup
	p.mu.Unlock()
	if mute {
		txs = nil // (a mute peer never answers requests for TRANSACTIONS; payloads it announced itself it serves)
	}
	if order == "desc" {
		for i, j := 0, len(txs)-1; i < j; i, j = i+1, j-1 {
			txs[i], txs[j] = txs[j], txs[i]
		}
	}
	if dup && len(txs) > 0 {
		txs = append(txs, txs[0])
	}
	for _, tx := range txs {
		p.mu.Lock()
		bad := p.txBad[tx.Hash()]
		p.mu.Unlock()
		p.sendTx(tx, "getdata", !bad)
	}
	for _, e := range exts {
		p.sendExt(e, "getdata", "")
	}
}

func (p *peer) sendTx(tx *transaction.Transaction, via string, ok bool) {
	p.emit(map[string]any{"event": "s", "m": "tx", "t": sid(tx.Hash()), "via": via, "ok": ok})
	_ = p.c.send(network.NewMessage(network.CMDTX, tx))
}

func (p *peer) sendExt(e *payload.Extensible, via, name string) {
	ev := map[string]any{"event": "s", "m": "extensible", "x": p.to.copyID(e), "hx": sid(e.Hash()), "via": via}
	if name != "" {
		ev["name"] = name
	}
	p.emit(ev)
	_ = p.c.send(network.NewMessage(network.CMDExtensible, e))
}

func (p *peer) sendInv(t payload.InventoryType, hs []util.Uint256) {
	p.emit(map[string]any{"event": "s", "m": "inv", "typ": invName(t), "hs": sids(hs)})
	_ = p.c.send(network.NewMessage(network.CMDInv, payload.NewInventory(t, hs)))
}

func (p *peer) sendGetData(t payload.InventoryType, hs []util.Uint256) {
	p.emit(map[string]any{"event": "s", "m": "getdata", "typ": invName(t), "hs": sids(hs)})
	_ = p.c.send(network.NewMessage(network.CMDGetData, payload.NewInventory(t, hs)))
}

var errGoneConn = errors.New("connection closed")

// barrier sends a ping and waits for the node's pong: the node's reader of this connection has then handled everything this
// peer sent before (messages of one connection are handled in order by one goroutine).  Returns the height the node reports.
func (p *peer) barrier() (uint32, error) {
	for {
		select {
		case <-p.pongs:
			continue
		default:
		}
		break
	}
	if err := p.c.send(pingMsg(p.adv, p.nonce)); err != nil {
		select {
		case <-p.gone:
		case <-time.After(ioTimeout):
			return 0, errTimeout
		}
		return 0, errGoneConn
	}
	t := time.NewTimer(ioTimeout)
	defer t.Stop()
	select {
	case h := <-p.pongs:
		return h, nil
	case <-p.gone:
		return 0, errGoneConn
	case <-t.C:
		return 0, errTimeout
	}
}

func (p *peer) drop() {
	p.mu.Lock()
	p.byUs = true
	p.mu.Unlock()
	p.emit(map[string]any{"event": "close", "by": "peer"})
	p.c.close()
	<-p.gone
}

func (p *peer) alive() bool {
	select {
	case <-p.gone:
		return false
	default:
		return true
	}
}

func (p *peer) quietClose() {
	p.mu.Lock()
	p.byUs = true
	p.mu.Unlock()
	p.c.close()
}

// serveBlocks answers getblockbyindex from the world's prepared blocks (a peer that is ahead of the node).
func (p *peer) serveBlocks(start, count int) {
	p.mu.Lock()
	mute, pre := p.mute, p.pre
	p.mu.Unlock()
	if mute || len(pre) == 0 {
		return
	}
	if count < 0 || count > 500 {
		count = 500
	}
	for i := start; i < start+count && i <= int(p.adv) && i <= len(pre); i++ {
		if i < 1 {
			continue
		}
		b := pre[i-1]
		p.emit(map[string]any{"event": "s", "m": "block", "i": i, "b": sid(b.Hash())})
		_ = p.c.send(network.NewMessage(network.CMDBlock, b))
	}
}
