// Driver of the consensus-in-the-server extension of C19 (spec/consnet): runs scripted scenarios (TLC behaviours of
// ConsNetSim realised with really signed payloads and real transactions, seeded random adversaries, hand-written worlds)
// against REAL started network.Server instances with their REAL consensus.Service attached, and records what the fake peers
// saw on every connection, what reached the service and what the ledgers accepted.  Verdicts are TLC's (ConsNetTrace); a
// time-out here is a test failure (exit 2), never a verdict.
package c19net

import (
	"fmt"
	"os"
	"path/filepath"
	"sort"
	"sync"
	"testing"
	"time"

	"verifharness/internal/vh"
)

type input struct {
	Scenarios []Scenario `json:"scenarios"`
	Slow      bool       `json:"slow"`
}

var (
	progMu sync.Mutex
	progF  *os.File
)

// progressNote appends a line to progress.log (unbuffered): if a node crashes the process, the runner still knows what was
// being played.
func progressNote(s string) {
	progMu.Lock()
	defer progMu.Unlock()
	if progF == nil {
		progF, _ = os.OpenFile(filepath.Join(vh.OutDir(), "progress.log"), os.O_CREATE|os.O_WRONLY|os.O_APPEND, 0o644)
	}
	if progF != nil {
		_, _ = progF.WriteString(s + "\n")
	}
}

func runScenario(t testing.TB, sp Scenario, seed int64, slow bool, dir string) (evs []map[string]any, err error) {
	progressNote("scenario " + sp.Name)
	mode := fastSettle
	if slow {
		mode = slowSettle
	}
	r, err := newRun(t, sp, seed, mode, dir)
	if err != nil {
		return nil, err
	}
	defer r.close()
	// single: one server; mesh: every server dials the ones created before it
	nodes, err := r.meshNodes(dir)
	if err != nil {
		return nil, err
	}
	for _, s := range sp.Steps {
		if err := r.step(s); err != nil {
			return nil, fmt.Errorf("step %s: %w", s.Op, err)
		}
	}
	if err := r.sync(); err != nil {
		return nil, err
	}
	r.emit(map[string]any{"event": "end"})
	out := []map[string]any{{"event": "init", "sc": sp.Name, "kind": sp.Kind, "nodes": nodes, "nv": r.w.n, "slow": slow, "srih": sp.SRIH}}
	return append(out, r.log.snapshot()...), nil
}

func TestDriver(t *testing.T) {
	res := vh.NewResult()
	tr := vh.NewTrace("trace.ndjson")
	var in input
	if err := vh.ReadJSON("input.json", &in); err != nil {
		t.Fatalf("input: %v", err)
	}
	t0 := time.Now()
	par := vh.EnvInt("VERIF_PAR", 6)
	out := make([][]map[string]any, len(in.Scenarios))
	errs := make([]error, len(in.Scenarios))
	master := vh.Rand(19)
	seeds := make([]int64, len(in.Scenarios))
	for i := range seeds {
		seeds[i] = master.Int63()
	}
	jobs := make(chan int, len(in.Scenarios))
	order := make([]int, len(in.Scenarios))
	for i := range order {
		order[i] = i
	}
	sort.SliceStable(order, func(a, b int) bool { return len(in.Scenarios[order[a]].Steps) > len(in.Scenarios[order[b]].Steps) })
	for _, i := range order {
		jobs <- i
	}
	close(jobs)
	base := t.TempDir()
	var wg sync.WaitGroup
	for k := 0; k < par; k++ {
		wg.Add(1)
		go func(k int) {
			defer wg.Done()
			for i := range jobs {
				dir := filepath.Join(base, fmt.Sprintf("s%d", i))
				_ = os.MkdirAll(dir, 0o755)
				out[i], errs[i] = runScenario(t, in.Scenarios[i], seeds[i], in.Slow, dir)
			}
		}(k)
	}
	wg.Wait()
	kinds := map[string]int{}
	for i, evs := range out {
		if errs[i] != nil {
			t.Errorf("scenario %s: %v", in.Scenarios[i].Name, errs[i])
			continue
		}
		for _, ev := range evs {
			k := ev["event"].(string)
			if k == "s" || k == "r" {
				k += ":" + fmt.Sprint(ev["m"])
			}
			kinds[k]++
			tr.Emit(ev)
		}
		res.Count(map[string]any{"sc": in.Scenarios[i]})
		res.Traces++
		if i%41 == 0 {
			res.Sample(map[string]any{"scenario": in.Scenarios[i].Name, "kind": in.Scenarios[i].Kind, "steps": len(in.Scenarios[i].Steps), "events": len(evs),
				"peers": len(in.Scenarios[i].Peers)})
		}
	}
	tr.Close()
	res.Stats["consnet_event_kinds"] = kinds
	res.Inc("consnet_scenarios", len(in.Scenarios))
	res.Stats["consnet_driver_ms"] = int(time.Since(t0) / time.Millisecond)
	sort.Strings(res.Distinct)
	if err := res.Write(); err != nil {
		t.Fatal(err)
	}
}
