package c19net

import (
	"fmt"
	"sort"

	"github.com/nspcc-dev/neo-go/pkg/core/block"
	"github.com/nspcc-dev/neo-go/pkg/core/transaction"
	"github.com/nspcc-dev/neo-go/pkg/io"
	"github.com/nspcc-dev/neo-go/pkg/network"
	"github.com/nspcc-dev/neo-go/pkg/network/payload"
	"github.com/nspcc-dev/neo-go/pkg/smartcontract"
	"github.com/nspcc-dev/neo-go/pkg/util"
	"github.com/nspcc-dev/neo-go/pkg/vm/emit"
)

const maxViews = 3

// decide plays height s.I of the node to the end with every validator outside s.Silent honest: in each view the (fake or
// real) primary proposes, the fake validators answer and commit, the named transactions are served by every answering peer;
// if the node does not get there, timers fire and everybody changes view.  With three honest fake validators the block can be
// made without the node: it is then relayed to it.  What is recorded: whether the node's ledger reached the height, in which
// view, through its own service or through relay, and how many timer firings it took.
func (r *run) decide(s Step) error {
	n := r.nodeOf(s)
	if n == nil {
		return nil
	}
	h := s.I
	silent := map[int]bool{}
	for _, v := range s.Silent {
		silent[v] = true
	}
	var fakes []int
	for v := 0; v < r.w.n; v++ {
		if v != n.id && !silent[v] {
			fakes = append(fakes, v)
		}
	}
	m := r.w.n - (r.w.n-1)/3
	timeouts := 0
	// honest peers serve the named transactions
	var alive []*peer
	ids := make([]int, 0, len(r.peers))
	for id := range r.peers {
		ids = append(ids, id)
	}
	sort.Ints(ids)
	for _, id := range ids {
		if p := r.peers[id]; p != nil && p.alive() && p.to == n {
			alive = append(alive, p)
		}
	}
	if len(alive) == 0 {
		return nil
	}
	for _, p := range alive {
		p.mu.Lock()
		if !p.mute {
			for _, t := range s.T {
				if tx := r.tx(t, false); tx != nil {
					p.txs[tx.Hash()] = tx
					p.txBad[tx.Hash()] = false
				}
			}
		}
		p.mu.Unlock()
	}
	k := 0
	via := func() *peer { k++; return alive[k%len(alive)] }
	// delivery of the fake validators' payloads: pushed or announced (the node asks for them), optionally twice over two connections
	deliver := func(e *payload.Extensible, name string) {
		for i := 0; i < 1+s.Times; i++ {
			p := via()
			if s.Via == "inv" || (s.Via == "mix" && k%2 == 0) {
				p.mu.Lock()
				p.exts[e.Hash()] = e
				p.mu.Unlock()
				p.sendInv(payload.ExtensibleType, []util.Uint256{e.Hash()})
			} else {
				p.sendExt(e, "push", name)
			}
		}
	}
	done := func() bool { return int(n.bc.BlockHeight()) >= h }
	emit := func(view int, how string) {
		r.emit(map[string]any{"event": "decide", "n": n.id, "h": h, "decided": done(), "view": view, "via": how, "timeouts": timeouts, "silent": s.Silent})
	}
	if int(n.bc.BlockHeight())+1 != h && !done() {
		return fmt.Errorf("decide: node at %d, height %d asked", n.bc.BlockHeight(), h)
	}
	for view := 0; view < maxViews; view++ {
		if err := r.sync(); err != nil {
			return err
		}
		if done() {
			emit(r.viewOfOwnCommit(n, h, view), r.how(n, h))
			return nil
		}
		prim := ((h-view)%r.w.n + r.w.n) % r.w.n
		key := [2]int{h, view}
		r.mu.Lock()
		ri := r.reqs[key]
		r.mu.Unlock()
		if ri == nil {
			switch {
			case prim == n.id:
				for i := 0; i < 3 && ri == nil; i++ {
					if n.timer.fire() {
						timeouts++
						r.emit(map[string]any{"event": "timeout", "n": n.id, "h": h, "fired": true})
					}
					if err := r.sync(); err != nil {
						return err
					}
					r.mu.Lock()
					ri = r.reqs[key]
					r.mu.Unlock()
				}
			case !silent[prim]:
				names := s.T
				if view < len(s.Views) && s.Views[view] != nil {
					names = s.Views[view]
				}
				st := Step{Op: "x", X: fmt.Sprintf("decide-req-%d-%d", h, view), From: prim, Type: "PrepareRequest", View: view, Txs: names}
				e := r.craft(n, st)
				deliver(e, st.X)
				r.mu.Lock()
				ri = r.reqs[key]
				r.mu.Unlock()
			}
		}
		if ri != nil {
			if err := r.sync(); err != nil {
				return err
			}
			for _, v := range fakes {
				if v == prim {
					continue
				}
				st := Step{Op: "x", X: fmt.Sprintf("decide-resp-%d-%d-%d", h, view, v), From: v, Type: "PrepareResponse", View: view}
				if r.extOf(st.X) == nil && r.respOf(h, view, v) == nil {
					deliver(r.craft(n, st), st.X)
				}
			}
			if err := r.sync(); err != nil {
				return err
			}
			// an honest validator commits once it has seen M preparations: the primary's request, the fake backups' responses
			// and the node's own response (its request if it is the primary)
			preps := 0
			for _, v := range fakes {
				if v != prim || !silent[prim] {
					preps++
				}
			}
			if prim == n.id || r.ownAt(n, "PrepareResponse", h, view) {
				preps++
			}
			committed := preps >= m
			for _, v := range fakes {
				st := Step{Op: "x", X: fmt.Sprintf("decide-commit-%d-%d-%d", h, view, v), From: v, Type: "Commit", View: view}
				if committed && r.extOf(st.X) == nil && !done() {
					deliver(r.craft(n, st), st.X)
				}
			}
			if err := r.sync(); err != nil {
				return err
			}
			if done() {
				emit(r.viewOfOwnCommit(n, h, view), r.how(n, h))
				return nil
			}
			if committed && len(fakes) >= m {
				// the other validators have the block without the node: it reaches the node as any block does
				if b := r.assemble(h, ri, fakes[:m]); b != nil {
					p := via()
					p.emit(map[string]any{"event": "s", "m": "block", "i": h, "b": sid(b.Hash())})
					_ = p.c.send(network.NewMessage(network.CMDBlock, b))
					if err := r.sync(); err != nil {
						return err
					}
					if done() {
						emit(view, "relay")
						return nil
					}
				}
			}
		}
		// messages are delivered: whatever the honest validators sent for this height reaches the node (again, directly) - what
		// their answers to its recovery requests would carry; and if the node has committed in some view, the others (who accept
		// payloads of that view as long as more than f validators are committed or lost) complete it
		recover := func() (bool, error) {
			r.redeliver(n, h, via)
			r.completeCommitted(n, h, fakes, via)
			if err := r.sync(); err != nil {
				return false, err
			}
			return done(), nil
		}
		if ok, err := recover(); err != nil {
			return err
		} else if ok {
			emit(r.viewOfOwnCommit(n, h, view), r.how(n, h))
			return nil
		}
		// next view: the node's timer fires, everybody asks for the change
		for i := 0; i < 2; i++ {
			if n.timer.fire() {
				timeouts++
				r.emit(map[string]any{"event": "timeout", "n": n.id, "h": h, "fired": true})
			}
			if err := r.sync(); err != nil {
				return err
			}
			if r.ownAt(n, "ChangeView", h, view) {
				break
			}
			if ok, err := recover(); err != nil {
				return err
			} else if ok {
				emit(r.viewOfOwnCommit(n, h, view), r.how(n, h))
				return nil
			}
		}
		for _, v := range fakes {
			st := Step{Op: "x", X: fmt.Sprintf("decide-cv-%d-%d-%d", h, view, v), From: v, Type: "ChangeView", View: view}
			via().sendExt(r.craft(n, st), "push", st.X)
		}
	}
	if err := r.sync(); err != nil {
		return err
	}
	emit(maxViews, r.how(n, h))
	return nil
}

// redeliver pushes every valid payload the fake validators crafted for height h once more.
func (r *run) redeliver(n *node, h int, via func() *peer) {
	r.mu.Lock()
	list := append([]namedExt(nil), r.byHeight[h]...)
	r.mu.Unlock()
	for _, x := range list {
		via().sendExt(x.e, "push", x.name)
	}
}

// completeCommitted: the node sent its Commit in view w - M preparations existed, the honest validators commit there too.
func (r *run) completeCommitted(n *node, h int, fakes []int, via func() *peer) {
	for w := 0; w <= maxViews; w++ {
		if !r.ownAt(n, "Commit", h, w) {
			continue
		}
		r.mu.Lock()
		ri := r.reqs[[2]int{h, w}]
		r.mu.Unlock()
		if ri == nil {
			continue
		}
		for _, v := range fakes {
			st := Step{Op: "x", X: fmt.Sprintf("decide-commit-%d-%d-%d", h, w, v), From: v, Type: "Commit", View: w}
			if r.extOf(st.X) == nil {
				via().sendExt(r.craft(n, st), "push", st.X)
			}
		}
	}
}

// respOf: a PrepareResponse of validator v for (h, view) that the script sent already.
func (r *run) respOf(h, view, v int) any {
	r.mu.Lock()
	defer r.mu.Unlock()
	if r.resps[[3]int{h, view, v}] {
		return true
	}
	return nil
}

func (r *run) extOf(name string) any {
	r.mu.Lock()
	defer r.mu.Unlock()
	if e := r.exts[name]; e != nil {
		return e
	}
	return nil
}

func (r *run) ownAt(n *node, typ string, h, view int) bool {
	r.mu.Lock()
	defer r.mu.Unlock()
	return r.owns[fmt.Sprintf("%d/%s/%d/%d", n.id, typ, h, view)] != nil
}

func (r *run) viewOfOwnCommit(n *node, h, def int) int {
	for v := 0; v <= maxViews; v++ {
		if r.ownAt(n, "Commit", h, v) {
			def = v
		}
	}
	return def
}

func (r *run) how(n *node, h int) string {
	if n.queuedAt(h) {
		return "consensus"
	}
	return "relay"
}

// assemble builds the block of a proposal with the signatures of the given (fake) validators.
func (r *run) assemble(h int, ri *reqInfo, signers []int) *block.Block {
	hdr := r.w.header(uint32(h), ri.primary, ri.prev, ri.ts, ri.nonce, ri.txs, ri.root)
	b := &block.Block{Header: *hdr}
	byHash := map[util.Uint256]*transaction.Transaction{}
	r.mu.Lock()
	for _, tx := range r.txs {
		byHash[tx.Hash()] = tx
	}
	r.mu.Unlock()
	for _, th := range ri.txs {
		tx := byHash[th]
		if tx == nil {
			return nil
		}
		b.Transactions = append(b.Transactions, tx)
	}
	sort.Ints(signers)
	bw := io.NewBufBinWriter()
	for _, v := range signers {
		emit.Bytes(bw.BinWriter, r.w.keys[v].SignHashable(uint32(r.w.net.Magic), hdr))
	}
	pubs := r.w.pubs()
	vs, err := smartcontract.CreateDefaultMultiSigRedeemScript(pubs)
	if err != nil {
		return nil
	}
	b.Script = transaction.Witness{InvocationScript: bw.Bytes(), VerificationScript: vs}
	return b
}
