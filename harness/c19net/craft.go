package c19net

import (
	"encoding/binary"
	"fmt"
	"testing"
	"time"

	"verifharness/internal/chainkit"

	"github.com/nspcc-dev/neo-go/pkg/config"
	"github.com/nspcc-dev/neo-go/pkg/consensus"
	"github.com/nspcc-dev/neo-go/pkg/core"
	"github.com/nspcc-dev/neo-go/pkg/core/block"
	"github.com/nspcc-dev/neo-go/pkg/core/native/nativenames"
	"github.com/nspcc-dev/neo-go/pkg/core/transaction"
	"github.com/nspcc-dev/neo-go/pkg/crypto/hash"
	"github.com/nspcc-dev/neo-go/pkg/crypto/keys"
	"github.com/nspcc-dev/neo-go/pkg/io"
	"github.com/nspcc-dev/neo-go/pkg/neotest"
	"github.com/nspcc-dev/neo-go/pkg/network/payload"
	"github.com/nspcc-dev/neo-go/pkg/smartcontract"
	"github.com/nspcc-dev/neo-go/pkg/util"
	"github.com/nspcc-dev/neo-go/pkg/vm/emit"
)

// dBFT message types on the wire (pkg/consensus/payload.go keeps the constants private; these are protocol constants).
const (
	tChangeView      = 0x00
	tPrepareRequest  = 0x20
	tPrepareResponse = 0x21
	tCommit          = 0x30
	tRecoveryRequest = 0x40
)

func typeName(t byte) string {
	switch t {
	case tChangeView:
		return "ChangeView"
	case tPrepareRequest:
		return "PrepareRequest"
	case tPrepareResponse:
		return "PrepareResponse"
	case tCommit:
		return "Commit"
	case tRecoveryRequest:
		return "RecoveryRequest"
	case 0x41:
		return "RecoveryMessage"
	}
	return fmt.Sprintf("T%02x", t)
}

// timePerBlock is only a configuration value here: the dBFT timer of the nodes is virtual and never fires by itself; the
// server derives its broadcast / write time-outs and the pool's re-advertisement period from it (seconds: out of the way).
const timePerBlock = 20 * time.Second

// world is one private network: 4 validators (= committee) with known keys, a reference ledger to build preloaded blocks and
// transactions on, and the key table in dBFT order (validators sorted by public key).
type world struct {
	t     testing.TB
	net   *chainkit.Net
	n     int
	keys  []*keys.PrivateKey // by validator index
	srih  bool
	hook  func(*config.Blockchain)
	ref   *core.Blockchain
	exec  *neotest.Executor
	pre   []*block.Block // preloaded blocks 1..len(pre)
	other *keys.PrivateKey
	ntx   int
	next  util.Uint160 // consensus address of the validators
}

func newWorld(t testing.TB, srih bool, preload int) (*world, error) {
	w := &world{t: t, net: chainkit.NewNet(4, 4), n: 4, srih: srih, other: chainkit.Key("c19net-stranger")}
	w.hook = func(c *config.Blockchain) {
		c.TimePerBlock = timePerBlock
		c.Genesis.TimePerBlock = timePerBlock
		c.MaxTransactionsPerBlock = 1200
		c.MemPoolSize = 2000
		c.StateRootInHeader = srih
	}
	var err error
	w.ref, err = w.net.NewChain(nil, w.hook)
	if err != nil {
		return nil, err
	}
	chainkit.Start(w.ref)
	vals, err := w.ref.GetNextBlockValidators()
	if err != nil {
		return nil, err
	}
	for _, v := range vals {
		found := false
		for i := 0; i < w.n; i++ {
			k := chainkit.Key(fmt.Sprintf("committee-%d", i))
			if k.PublicKey().Equal(v) {
				w.keys = append(w.keys, k)
				found = true
			}
		}
		if !found {
			return nil, fmt.Errorf("validator key %s unknown", v.StringCompressed())
		}
	}
	script, err := smartcontract.CreateDefaultMultiSigRedeemScript(vals)
	if err != nil {
		return nil, err
	}
	w.next = hash.Hash160(script)
	w.exec = w.net.Executor(t, w.ref)
	for i := 0; i < preload; i++ {
		b, err := w.net.NewBlock(w.ref, 1)
		if err != nil {
			return nil, err
		}
		if err := w.ref.AddBlock(b); err != nil {
			return nil, err
		}
		w.pre = append(w.pre, b)
	}
	return w, nil
}

func (w *world) close() { w.ref.Close() }

func (w *world) pubs() keys.PublicKeys {
	out := make(keys.PublicKeys, len(w.keys))
	for i, k := range w.keys {
		out[i] = k.PublicKey()
	}
	return out
}

// newTx builds a valid GAS transfer from the validators' multisignature account.
func (w *world) newTx(vub uint32) *transaction.Transaction {
	w.ntx++
	e := w.exec
	to := util.Uint160{byte(w.ntx), byte(w.ntx >> 8), 0x19}
	tx := e.NewUnsignedTx(w.t, e.NativeHash(w.t, nativenames.Gas), "transfer", e.Validator.ScriptHash(), to, int64(1000+w.ntx), nil)
	tx.ValidUntilBlock = vub
	tx.Nonce = uint32(0x19000000 + w.ntx)
	return e.SignTx(w.t, tx, 1_0000000, []neotest.Signer{e.Validator}...)
}

// badTx is a transaction whose witness does not verify (one byte of the invocation script flipped): same hash as the good one.
func badTx(tx *transaction.Transaction) *transaction.Transaction {
	raw := tx.Bytes()
	c, err := transaction.NewTransactionFromBytes(raw)
	if err != nil {
		panic(err)
	}
	inv := append([]byte(nil), c.Scripts[0].InvocationScript...)
	inv[len(inv)/2] ^= 0x55
	c.Scripts[0].InvocationScript = inv
	return c
}

// ---------------------------------------------------------------------------------------------- consensus payloads

func msgBytes(typ byte, height uint32, from int, view byte, body []byte) []byte {
	b := make([]byte, 0, 7+len(body))
	b = append(b, typ)
	b = binary.LittleEndian.AppendUint32(b, height)
	b = append(b, byte(from), view)
	return append(b, body...)
}

func (w *world) prepareRequestBody(prev util.Uint256, ts, nonce uint64, hs []util.Uint256, root util.Uint256) []byte {
	bw := io.NewBufBinWriter()
	bw.WriteU32LE(0)
	bw.WriteBytes(prev[:])
	bw.WriteU64LE(ts)
	bw.WriteU64LE(nonce)
	bw.WriteVarUint(uint64(len(hs)))
	for i := range hs {
		bw.WriteBytes(hs[i][:])
	}
	if w.srih {
		bw.WriteBytes(root[:])
	}
	return bw.Bytes()
}

func changeViewBody(ts uint64, reason byte) []byte {
	b := binary.LittleEndian.AppendUint64(nil, ts)
	return append(b, reason)
}

// header of the block the proposal defines (what every validator signs in its Commit).
func (w *world) header(index uint32, primary int, prev util.Uint256, ts, nonce uint64, hs []util.Uint256, root util.Uint256) *block.Header {
	h := &block.Header{Version: 0, PrevHash: prev, MerkleRoot: hash.CalcMerkleRoot(append([]util.Uint256(nil), hs...)), Timestamp: ts,
		Nonce: nonce, Index: index, PrimaryIndex: byte(primary), NextConsensus: w.next}
	if w.srih {
		h.StateRootEnabled = true
		h.PrevStateRoot = root
	}
	return h
}

func (w *world) commitBody(from int, hdr *block.Header) []byte {
	return w.keys[from].SignHashable(uint32(w.net.Magic), hdr)
}

// ext wraps a dBFT message of validator `from` into a signed extensible payload.  kind selects a defect:
//
//	""        valid
//	badsig    one byte of the signature flipped
//	magic     signed for another network
//	stranger  signed (consistently) by a key that is no validator / committee member
//	forged    sender = the validator, witness = another validator's key
//	future    ValidBlockStart above the height (window does not contain the height)
//	past      ValidBlockEnd below the height
//	edge      ValidBlockEnd == the height (the just finished height)
//	cat       category other than dBFT, correctly signed by the validator
func (w *world) ext(from int, data []byte, end uint32, kind string, cur uint32) *payload.Extensible {
	key := w.keys[from]
	e := &payload.Extensible{Category: payload.ConsensusCategory, ValidBlockStart: 0, ValidBlockEnd: end,
		Sender: key.PublicKey().GetScriptHash(), Data: data}
	signer := key
	magic := uint32(w.net.Magic)
	switch kind {
	case "magic":
		magic ^= 0x00010000
	case "stranger":
		signer = w.other
		e.Sender = signer.PublicKey().GetScriptHash()
	case "forged":
		signer = w.keys[(from+1)%w.n]
	case "future":
		e.ValidBlockStart, e.ValidBlockEnd = cur+3, cur+9
	case "past":
		if cur == 0 {
			e.ValidBlockStart, e.ValidBlockEnd = cur+1, cur+1 // empty window
		} else {
			e.ValidBlockEnd = cur - 1
			if e.ValidBlockEnd == 0 {
				e.ValidBlockStart, e.ValidBlockEnd = cur+2, cur+1
			}
		}
	case "edge":
		e.ValidBlockEnd = cur
	case "cat":
		e.Category = "verifX"
	}
	sig := signer.SignHashable(magic, e)
	if kind == "badsig" {
		sig[17] ^= 0x24
	}
	bw := io.NewBufBinWriter()
	emit.Bytes(bw.BinWriter, sig)
	e.Witness = transaction.Witness{InvocationScript: bw.Bytes(), VerificationScript: signer.PublicKey().GetVerificationScript()}
	return e
}

// classify decodes an extensible payload with the node's own consensus types (what is it, from whom).
func (w *world) classify(e *payload.Extensible) map[string]any {
	out := map[string]any{"cat": e.Category, "x": sid(e.Hash()), "hx": sid(e.Hash()), "end": int(e.ValidBlockEnd), "type": "other", "h": 0, "view": 0, "vi": -1, "txs": []string{}}
	for i, k := range w.keys {
		if k.PublicKey().GetScriptHash() == e.Sender {
			out["sender"] = i
		}
	}
	if e.Category != payload.ConsensusCategory {
		return out
	}
	bw := io.NewBufBinWriter()
	e.EncodeBinary(bw.BinWriter)
	cp := consensus.NewPayload(w.net.Magic, w.srih)
	r := io.NewBinReaderFromBuf(bw.Bytes())
	cp.DecodeBinary(r)
	if r.Err != nil {
		out["type"] = "undecodable"
		return out
	}
	out["type"], out["h"], out["view"], out["vi"] = typeName(byte(cp.Type())), int(cp.Height()), int(cp.ViewNumber()), int(cp.ValidatorIndex())
	if byte(cp.Type()) == tPrepareRequest {
		out["txs"] = sids(cp.GetPrepareRequest().TransactionHashes())
	}
	return out
}

func decodeCons(w *world, e *payload.Extensible) *consensus.Payload {
	bw := io.NewBufBinWriter()
	e.EncodeBinary(bw.BinWriter)
	cp := consensus.NewPayload(w.net.Magic, w.srih)
	r := io.NewBinReaderFromBuf(bw.Bytes())
	cp.DecodeBinary(r)
	if r.Err != nil {
		return nil
	}
	return cp
}
