package c19net

import (
	"fmt"
	"path/filepath"
	"sync"
	"sync/atomic"
	"time"

	"verifharness/internal/chainkit"

	"github.com/nspcc-dev/dbft"
	"github.com/nspcc-dev/neo-go/pkg/config"
	"github.com/nspcc-dev/neo-go/pkg/consensus"
	"github.com/nspcc-dev/neo-go/pkg/core"
	"github.com/nspcc-dev/neo-go/pkg/core/block"
	"github.com/nspcc-dev/neo-go/pkg/core/transaction"
	"github.com/nspcc-dev/neo-go/pkg/crypto/keys"
	"github.com/nspcc-dev/neo-go/pkg/network"
	"github.com/nspcc-dev/neo-go/pkg/network/payload"
	"github.com/nspcc-dev/neo-go/pkg/util"
	"github.com/nspcc-dev/neo-go/pkg/wallet"
	"go.uber.org/zap"
)

// ---------------------------------------------------------------- virtual time (as in harness/c19dbft)

type clock struct {
	mu  sync.Mutex
	now time.Time
}

func (c *clock) Now() time.Time {
	c.mu.Lock()
	defer c.mu.Unlock()
	c.now = c.now.Add(time.Millisecond) // strictly increasing reads
	return c.now
}

func (c *clock) advanceTo(t time.Time) {
	c.mu.Lock()
	if t.After(c.now) {
		c.now = t
	}
	c.mu.Unlock()
}

// vtimer is a dbft.Timer that never fires by itself: the harness fires it (timeout step).
type vtimer struct {
	mu       sync.Mutex
	clk      *clock
	h        uint32
	v        byte
	deadline time.Time
	armed    bool
	ch       chan time.Time
	resets   atomic.Int64
}

func newVTimer(c *clock) *vtimer { return &vtimer{clk: c, ch: make(chan time.Time, 1)} }

func (t *vtimer) Now() time.Time { return t.clk.Now() }
func (t *vtimer) Reset(h uint32, v byte, d time.Duration) {
	t.mu.Lock()
	defer t.mu.Unlock()
	select {
	case <-t.ch:
	default:
	}
	t.h, t.v, t.deadline, t.armed = h, v, t.clk.Now().Add(d), true
	t.resets.Add(1)
}
func (t *vtimer) Extend(d time.Duration) {
	t.mu.Lock()
	t.deadline = t.deadline.Add(d)
	t.mu.Unlock()
}
func (t *vtimer) Height() uint32      { t.mu.Lock(); defer t.mu.Unlock(); return t.h }
func (t *vtimer) View() byte          { t.mu.Lock(); defer t.mu.Unlock(); return t.v }
func (t *vtimer) C() <-chan time.Time { return t.ch }

func (t *vtimer) fire() bool {
	t.mu.Lock()
	defer t.mu.Unlock()
	if !t.armed {
		return false
	}
	t.armed = false
	t.clk.advanceTo(t.deadline)
	select {
	case t.ch <- t.deadline:
	default:
	}
	return true
}

func (t *vtimer) deadlineOf() (time.Time, bool) {
	t.mu.Lock()
	defer t.mu.Unlock()
	return t.deadline, t.armed
}

// ---------------------------------------------------------------- the hooks are process-wide: one dispatcher

var (
	hookMu   sync.Mutex
	bySvc    sync.Map // consensus.Service -> *node
	hookOnce sync.Once
)

func installHooks() {
	hookOnce.Do(func() {
		consensus.VerifLoopIdle = func(s consensus.Service) {
			if n, ok := bySvc.Load(s); ok {
				n.(*node).iters.Add(1)
			}
		}
	})
}

// ---------------------------------------------------------------- node = chain + server + consensus service

// node is one system under test.  id is the dBFT validator index whose key the node holds (-1: no wallet = no consensus service).
type node struct {
	w     *world
	id    int
	bc    *core.Blockchain
	srv   *network.Server
	svc   consensus.Service
	timer *vtimer
	port  uint16
	log   *evlog
	accCh chan *block.Block
	done  chan struct{}
	iters atomic.Int64
	// counters read by the settle loop
	taps     atomic.Int64
	started  atomic.Bool
	gate     func(hs []util.Uint256) // called (in the service's goroutine) before the node's RequestTx is executed
	onOwn    func(n *node, e *payload.Extensible)
	copyID   func(e *payload.Extensible) string
	h0       int
	qmu      sync.Mutex
	queuedH  map[int]bool
	relayed  []relayNote // hashes of payloads handed to the service / broadcast by it (the settle loop waits a moment for their inv)
	stopped  atomic.Bool
	gateMu   sync.Mutex
	closed   bool
	accepted atomic.Int64
}

type nodeOpts struct {
	id       int // validator index (key held); -1 none
	h0       int // preloaded blocks
	minPeers int
	bcast    int // BroadcastFactor
	extCap   int
	onOwn    func(n *node, e *payload.Extensible)
	copyID   func(e *payload.Extensible) string
	seeds    []string // addresses of servers this one dials (mesh worlds)
}

// svcTap is the Service the server starts / stops: it records the call and forwards to the real consensus service.
type svcTap struct {
	n *node
}

func (s svcTap) Name() string { return s.n.svc.Name() }
func (s svcTap) Start() {
	s.n.started.Store(true)
	s.n.emit(map[string]any{"event": "svcstart", "h": int(s.n.bc.BlockHeight())})
	s.n.svc.Start()
}
func (s svcTap) Shutdown() { s.n.svc.Shutdown() }

// qTap is the BlockQueuer handed to the service: records what the service accepted and forwards to the server's real queue.
type qTap struct{ n *node }

func (q qTap) Put(b *block.Block) error {
	q.n.qmu.Lock()
	q.n.queuedH[int(b.Index)] = true
	q.n.qmu.Unlock()
	q.n.emit(map[string]any{"event": "queued", "i": int(b.Index), "b": sid(b.Hash()), "ntx": len(b.Transactions)})
	return q.n.srv.GetBlockQueue().Put(b)
}

type relayNote struct {
	h    util.Uint256
	mark int64 // log position when the node took / made the payload
}

func (n *node) noteRelay(h util.Uint256) {
	n.qmu.Lock()
	n.relayed = append(n.relayed, relayNote{h, n.log.n.Load()})
	n.qmu.Unlock()
}

// pendingRelay: some connected peer has not yet been told about a payload the node took / made (checked from `from` on).
func (n *node) pendingRelay(peers []*peer) bool {
	n.qmu.Lock()
	hs := append([]relayNote(nil), n.relayed...)
	n.qmu.Unlock()
	if len(hs) > 64 {
		hs = hs[len(hs)-64:]
	}
	for _, p := range peers {
		if p == nil || p.to != n || !p.alive() {
			continue
		}
		p.mu.Lock()
		for _, h := range hs {
			if p.invExt[h.h] == 0 && p.since > 0 && p.since < h.mark {
				p.mu.Unlock()
				return true
			}
		}
		p.mu.Unlock()
	}
	return false
}

func (n *node) queuedAt(h int) bool {
	n.qmu.Lock()
	defer n.qmu.Unlock()
	return n.queuedH[h]
}

func (n *node) emit(ev map[string]any) {
	ev["n"] = n.id
	n.taps.Add(1)
	n.log.emit(ev)
}

func newNode(w *world, o nodeOpts, log *evlog, clk *clock, dir string) (n *node, err error) {
	defer func() {
		if r := recover(); r != nil {
			err = fmt.Errorf("node construction panicked: %v", r)
		}
	}()
	installHooks()
	n = &node{w: w, id: o.id, log: log, done: make(chan struct{}), onOwn: o.onOwn, h0: o.h0, queuedH: map[int]bool{}, copyID: o.copyID}
	if n.copyID == nil {
		n.copyID = func(e *payload.Extensible) string { return sid(e.Hash()) }
	}
	n.bc, err = w.net.NewChain(nil, w.hook)
	if err != nil {
		return nil, err
	}
	chainkit.Start(n.bc)
	for h := 0; h < o.h0; h++ {
		if err = n.bc.AddBlock(w.pre[h]); err != nil {
			n.bc.Close()
			return nil, fmt.Errorf("preload %d: %w", h+1, err)
		}
	}
	n.accCh = make(chan *block.Block, 256)
	n.bc.SubscribeForBlocks(n.accCh)
	go n.accLoop()
	if o.extCap == 0 {
		o.extCap = 100
	}
	n.srv, err = network.NewServer(network.ServerConfig{
		Addresses: []config.AnnounceableAddress{{Address: "127.0.0.1:0"}}, MinPeers: o.minPeers, MaxPeers: 64, Net: w.net.Magic, Relay: true,
		UserAgent: "/verif-consensus-node/", ProtoTickInterval: 50 * time.Millisecond, PingInterval: time.Hour, PingTimeout: 2 * time.Hour,
		DialTimeout: time.Second, BroadcastFactor: o.bcast, ExtensiblePoolSize: o.extCap, Seeds: o.seeds, AttemptConnPeers: 8,
	}, n.bc, n.bc.GetStateSyncModule(), zap.NewNop())
	if err != nil {
		n.bc.Close()
		return nil, err
	}
	if o.id >= 0 {
		// the wiring of cli/server mkConsensus, with observation taps around the callbacks
		wp := filepath.Join(dir, fmt.Sprintf("w-%d.json", o.id))
		wl, err := wallet.NewWallet(wp)
		if err != nil {
			return nil, err
		}
		wl.Scrypt = keys.ScryptParams{N: 2, R: 1, P: 1}
		acc := wallet.NewAccountFromPrivateKey(w.keys[o.id])
		if err := acc.Encrypt("pw", wl.Scrypt); err != nil {
			return nil, err
		}
		wl.AddAccount(acc)
		if err := wl.Save(); err != nil {
			return nil, err
		}
		wl.Close()
		n.timer = newVTimer(clk)
		hookMu.Lock()
		consensus.VerifNewTimer = func() dbft.Timer { return n.timer }
		n.svc, err = consensus.NewService(consensus.Config{
			Logger: zap.NewNop(),
			Broadcast: func(p *payload.Extensible) {
				ev := w.classify(p)
				ev["event"] = "own"
				if n.onOwn != nil {
					n.onOwn(n, p)
				}
				n.noteRelay(p.Hash())
				n.emit(ev)
				n.srv.BroadcastExtensible(p)
			},
			Chain:                 n.bc,
			BlockQueue:            qTap{n},
			ProtocolConfiguration: n.bc.GetConfig().ProtocolConfiguration,
			RequestTx: func(hs ...util.Uint256) {
				n.emit(map[string]any{"event": "reqtx", "txs": sids(hs)})
				n.gateMu.Lock()
				g := n.gate
				n.gateMu.Unlock()
				if g != nil {
					g(hs)
				}
				n.srv.RequestTx(hs...)
			},
			StopTxFlow: func() {
				n.srv.StopTxFlow()
			},
			Wallet: config.Wallet{Path: wp, Password: "pw"},
		})
		consensus.VerifNewTimer = nil
		hookMu.Unlock()
		if err != nil {
			n.bc.Close()
			return nil, err
		}
		bySvc.Store(n.svc, n)
		n.srv.AddConsensusService(svcTap{n}, func(e *payload.Extensible) error {
			n.emit(map[string]any{"event": "deliver", "x": n.copyID(e), "hx": sid(e.Hash())})
			n.noteRelay(e.Hash())
			return n.svc.OnPayload(e)
		}, func(tx *transaction.Transaction) {
			n.emit(map[string]any{"event": "ontx", "t": sid(tx.Hash())})
			n.svc.OnTransaction(tx)
		})
	}
	n.srv.Start()
	deadline := time.Now().Add(30 * time.Second)
	for {
		n.port, _ = n.srv.Port(nil)
		if n.port != 0 {
			break
		}
		if time.Now().After(deadline) {
			n.close()
			return nil, fmt.Errorf("server did not start listening: %w", errTimeout)
		}
		time.Sleep(2 * time.Millisecond)
	}
	return n, nil
}

func (n *node) accLoop() {
	for {
		select {
		case b := <-n.accCh:
			txs := make([]string, len(b.Transactions))
			for i, t := range b.Transactions {
				txs[i] = sid(t.Hash())
			}
			n.emit(map[string]any{"event": "acc", "i": int(b.Index), "b": sid(b.Hash()), "txs": txs})
			n.accepted.Add(1)
		case <-n.done:
			return
		}
	}
}

func (n *node) close() {
	n.gateMu.Lock()
	if n.closed {
		n.gateMu.Unlock()
		return
	}
	n.closed = true
	n.gate = nil
	n.gateMu.Unlock()
	if n.srv != nil {
		n.srv.Shutdown()
	}
	if n.svc != nil {
		bySvc.Delete(n.svc)
	}
	close(n.done)
	n.bc.UnsubscribeFromBlocks(n.accCh)
	n.bc.Close()
}
