package c19net

import (
	"crypto/sha256"
	"encoding/binary"
	"fmt"
	"math/rand"
	"sort"
	"sync"
	"testing"
	"time"

	"github.com/nspcc-dev/neo-go/pkg/core/block"
	"github.com/nspcc-dev/neo-go/pkg/core/transaction"
	"github.com/nspcc-dev/neo-go/pkg/network"
	"github.com/nspcc-dev/neo-go/pkg/network/payload"
	"github.com/nspcc-dev/neo-go/pkg/util"
)

// NodeSpec describes one real server (+ consensus service) of a scenario.
type NodeSpec struct {
	ID       int `json:"id"`        // dBFT validator index whose key the node's wallet holds
	H0       int `json:"h0"`        // blocks the node has before its server starts
	MinPeers int `json:"min_peers"` // ServerConfig.MinPeers
}

// PeerSpec is one fake-peer connection.
type PeerSpec struct {
	ID     int    `json:"id"`
	N      int    `json:"n"`      // node it connects to
	Adv    int    `json:"adv"`    // height it advertises (version, pong)
	Mute   bool   `json:"mute"`   // never answers getdata
	Order  string `json:"order"`  // asc | desc : order of transactions in an answer
	Dup    bool   `json:"dup"`    // first transaction of an answer sent twice
	Blocks bool   `json:"blocks"` // answers getblockbyindex with the world's prepared blocks
}

// Step is one scripted action.
type Step struct {
	Op string `json:"op"`
	P  int    `json:"p"`
	N  int    `json:"n"`
	// payload steps: x = name; the first step naming it defines it (crafted for the node's next height + dh at that moment)
	X    string   `json:"x"`
	From int      `json:"from"`
	Type string   `json:"type"`
	View int      `json:"view"`
	Txs  []string `json:"txs"`
	Kind string   `json:"kind"`
	DH   int      `json:"dh"`
	Via  string   `json:"via"` // push | inv
	// transaction steps
	T   []string `json:"t"`
	Bad bool     `json:"bad"`
	// block fetch
	I  int    `json:"i"`
	By string `json:"by"` // hash | index
	// fake hashes of a proposal naming transactions nobody has
	Fake int `json:"fake"`
	// rounds of a mesh phase
	Rounds int `json:"rounds"`
	// validators that stay silent while a height is played to the end (decide)
	Silent []int `json:"silent"`
	Times  int   `json:"times"` // decide: extra copies of every payload (over other connections)
	// decide: what the fake primary of view v proposes (index v; absent = T): honest primaries propose what THEY have pending
	Views [][]string `json:"views"`
}

// Scenario is a complete script.
type Scenario struct {
	Name   string     `json:"name"`
	Kind   string     `json:"kind"` // single | mesh
	SRIH   bool       `json:"srih"`
	Pre    int        `json:"pre"` // blocks the world prepares (the reference ledger has them all)
	Nodes  []NodeSpec `json:"nodes"`
	Peers  []PeerSpec `json:"peers"`
	Steps  []Step     `json:"steps"`
	NTx    int        `json:"ntx"`
	Expect string     `json:"expect"` // free text for humans
}

// settle parameters: fast = a few complete ping rounds without any change; slow = the confirmation mode (many rounds and seconds of idleness)
type settleMode struct {
	rounds int
	idle   time.Duration
}

var (
	fastSettle = settleMode{rounds: 3, idle: 0}
	slowSettle = settleMode{rounds: 40, idle: 2500 * time.Millisecond}
	settleMax  = 120 * time.Second
)

type reqInfo struct {
	hash    util.Uint256
	ts      uint64
	nonce   uint64
	txs     []util.Uint256
	primary int
	prev    util.Uint256
	root    util.Uint256
}

type run struct {
	t     testing.TB
	sp    Scenario
	w     *world
	log   *evlog
	clk   *clock
	nodes map[int]*node
	peers map[int]*peer
	rnd   *rand.Rand
	mode  settleMode
	dir   string

	mu       sync.Mutex
	txs      map[string]*transaction.Transaction // good copies by name
	bad      map[string]*transaction.Transaction
	fake     map[string]util.Uint256
	exts     map[string]*payload.Extensible
	reqs     map[[2]int]*reqInfo // (height, view) -> the proposal (crafted or the node's own)
	owns     map[string]*payload.Extensible
	copies   map[util.Uint256][]xcopy
	resps    map[[3]int]bool    // (height, view, validator): a valid PrepareResponse was crafted
	byHeight map[int][]namedExt // valid payloads of the fake validators by dBFT height
	fed      int
}

type namedExt struct {
	e    *payload.Extensible
	name string
}

type xcopy struct {
	inv string
	id  string
}

// copyID names the crafted copy a payload object is (by its witness); payloads the harness did not craft go by their hash.
func (r *run) copyID(e *payload.Extensible) string {
	r.mu.Lock()
	defer r.mu.Unlock()
	for _, c := range r.copies[e.Hash()] {
		if c.inv == string(e.Witness.InvocationScript) {
			return c.id
		}
	}
	return sid(e.Hash())
}

func sid(h util.Uint256) string { return h.StringLE()[:14] }

func sids(hs []util.Uint256) []string {
	out := make([]string, len(hs))
	for i, h := range hs {
		out[i] = sid(h)
	}
	return out
}

func (r *run) emit(ev map[string]any) { r.log.emit(ev) }

func newRun(t testing.TB, sp Scenario, seed int64, mode settleMode, dir string) (*run, error) {
	w, err := newWorld(t, sp.SRIH, sp.Pre)
	if err != nil {
		return nil, err
	}
	r := &run{t: t, sp: sp, w: w, log: &evlog{}, clk: &clock{now: time.Unix(1_700_000_000, 0)}, nodes: map[int]*node{}, peers: map[int]*peer{},
		rnd: rand.New(rand.NewSource(seed)), mode: mode, dir: dir, txs: map[string]*transaction.Transaction{}, bad: map[string]*transaction.Transaction{},
		fake: map[string]util.Uint256{}, exts: map[string]*payload.Extensible{}, reqs: map[[2]int]*reqInfo{}, owns: map[string]*payload.Extensible{}, copies: map[util.Uint256][]xcopy{}, resps: map[[3]int]bool{}, byHeight: map[int][]namedExt{}}
	for i := 1; i <= sp.NTx; i++ {
		name := fmt.Sprintf("t%d", i)
		r.txs[name] = w.newTx(uint32(sp.Pre + 200))
	}
	return r, nil
}

func (r *run) close() {
	for _, p := range r.peers {
		if p != nil && p.alive() {
			p.quietClose()
		}
	}
	for _, n := range r.nodes {
		n.close()
	}
	r.w.close()
}

func (r *run) tx(name string, bad bool) *transaction.Transaction {
	r.mu.Lock()
	defer r.mu.Unlock()
	g := r.txs[name]
	if g == nil {
		return nil
	}
	if !bad {
		return g
	}
	if b := r.bad[name]; b != nil {
		return b
	}
	b := badTx(g)
	r.bad[name] = b
	return b
}

func (r *run) txHash(name string) util.Uint256 {
	r.mu.Lock()
	defer r.mu.Unlock()
	if g := r.txs[name]; g != nil {
		return g.Hash()
	}
	if h, ok := r.fake[name]; ok {
		return h
	}
	s := sha256.Sum256([]byte("c19net-fake:" + r.sp.Name + ":" + name))
	h, _ := util.Uint256DecodeBytesBE(s[:])
	r.fake[name] = h
	return h
}

// learnOwn is called from the Broadcast tap: the node's own proposals define what the fake validators answer to.
func (r *run) learnOwn(n *node, e *payload.Extensible) {
	cp := decodeCons(r.w, e)
	if cp == nil {
		return
	}
	key := fmt.Sprintf("%d/%s/%d/%d", n.id, typeName(byte(cp.Type())), cp.Height(), cp.ViewNumber())
	r.mu.Lock()
	defer r.mu.Unlock()
	r.owns[key] = e
	if byte(cp.Type()) == tPrepareRequest {
		pr := cp.GetPrepareRequest()
		// prevHash / state root are those of the node's tip: the request was built on it
		prev := n.bc.GetHeaderHash(cp.Height() - 1)
		var root util.Uint256
		if r.w.srih {
			if sr, err := n.bc.GetStateRoot(cp.Height() - 1); err == nil {
				root = sr.Root
			}
		}
		k := [2]int{int(cp.Height()), int(cp.ViewNumber())}
		if r.reqs[k] == nil {
			r.reqs[k] = &reqInfo{hash: e.Hash(), ts: pr.Timestamp() / 1000000, nonce: pr.Nonce(), txs: pr.TransactionHashes(), primary: int(cp.ValidatorIndex()), prev: prev, root: root}
		}
	}
}

// craft builds the payload a step defines, for node n's next height (+dh).
func (r *run) craft(n *node, s Step) *payload.Extensible {
	cur := n.bc.BlockHeight()
	h := int(cur) + 1 + s.DH
	if h < 0 {
		h = 0
	}
	var body []byte
	var typ byte
	var txnames []string
	key := [2]int{h, s.View}
	switch s.Type {
	case "PrepareRequest":
		typ = tPrepareRequest
		var hs []util.Uint256
		for _, t := range s.Txs {
			hs = append(hs, r.txHash(t))
			txnames = append(txnames, sid(r.txHash(t)))
		}
		for i := 0; i < s.Fake; i++ {
			nm := fmt.Sprintf("fake%d", i)
			hs = append(hs, r.txHash(nm))
			txnames = append(txnames, sid(r.txHash(nm)))
		}
		var prev, root util.Uint256
		var ts uint64 = 1_700_000_000_000
		if s.DH == 0 {
			prev = n.bc.CurrentBlockHash()
			if b, err := n.bc.GetBlock(prev); err == nil {
				ts = b.Timestamp + 1000 + uint64(s.View)
			}
			if r.w.srih {
				if sr, err := n.bc.GetStateRoot(cur); err == nil {
					root = sr.Root
				}
			}
		}
		nonce := uint64(0x1900 + len(r.exts))
		body = r.w.prepareRequestBody(prev, ts, nonce, hs, root)
		ri := &reqInfo{ts: ts, nonce: nonce, txs: hs, primary: s.From, prev: prev, root: root}
		e := r.w.ext(s.From, msgBytes(typ, uint32(h), s.From, byte(s.View), body), uint32(h), s.Kind, cur)
		ri.hash = e.Hash()
		r.mu.Lock()
		if r.reqs[key] == nil && s.Kind == "" && s.DH == 0 {
			r.reqs[key] = ri
		}
		r.mu.Unlock()
		r.define(s, e, h, txnames, cur)
		return e
	case "PrepareResponse":
		typ = tPrepareResponse
		if s.Kind == "" && s.DH == 0 {
			r.mu.Lock()
			r.resps[[3]int{h, s.View, s.From}] = true
			r.mu.Unlock()
		}
		var ph util.Uint256
		r.mu.Lock()
		if ri := r.reqs[key]; ri != nil {
			ph = ri.hash
		}
		r.mu.Unlock()
		body = ph.BytesBE()
	case "Commit":
		typ = tCommit
		r.mu.Lock()
		ri := r.reqs[key]
		r.mu.Unlock()
		if ri != nil {
			body = r.w.commitBody(s.From, r.w.header(uint32(h), ri.primary, ri.prev, ri.ts, ri.nonce, ri.txs, ri.root))
		} else {
			body = make([]byte, 64)
			binary.LittleEndian.PutUint64(body, uint64(len(r.exts))+1)
		}
	case "ChangeView":
		typ = tChangeView
		body = changeViewBody(1_700_000_000_000+uint64(len(r.exts)), 0)
	case "RecoveryRequest":
		typ = tRecoveryRequest
		body = binary.LittleEndian.AppendUint64(nil, 1_700_000_000_000+uint64(len(r.exts)))
	default: // garbage: a correctly signed extensible whose data is no dBFT message
		typ = 0x77
		body = []byte{1, 2, 3, byte(len(r.exts))}
	}
	e := r.w.ext(s.From, msgBytes(typ, uint32(h), s.From, byte(s.View), body), uint32(h), s.Kind, cur)
	r.define(s, e, h, nil, cur)
	return e
}

func (r *run) define(s Step, e *payload.Extensible, h int, txnames []string, cur uint32) {
	cls := "ok"
	switch s.Kind {
	case "badsig", "magic", "stranger", "forged":
		cls = "bad"
	case "cat":
		cls = "cat"
	}
	if txnames == nil {
		txnames = []string{}
	}
	typ := s.Type
	if typ == "" {
		typ = "garbage"
	}
	id := sid(e.Hash())
	if cls == "bad" {
		id += "!" + s.Kind // same content (same hash) as a good copy may exist: the witness distinguishes the copies
	}
	r.mu.Lock()
	r.copies[e.Hash()] = append(r.copies[e.Hash()], xcopy{inv: string(e.Witness.InvocationScript), id: id})
	r.mu.Unlock()
	r.emit(map[string]any{"event": "xdef", "x": id, "hx": sid(e.Hash()), "name": s.X, "cls": cls, "kind": s.Kind, "start": int(e.ValidBlockStart), "end": int(e.ValidBlockEnd),
		"from": s.From, "type": typ, "h": h, "view": s.View, "txs": txnames, "at": int(cur)})
	r.mu.Lock()
	r.exts[s.X] = e
	if cls == "ok" && s.Kind == "" && s.DH == 0 && typ != "garbage" {
		r.byHeight[h] = append(r.byHeight[h], namedExt{e, s.X})
	}
	r.mu.Unlock()
}

func (r *run) nodeOf(s Step) *node {
	if s.P != 0 {
		if p := r.peers[s.P]; p != nil {
			return p.to
		}
	}
	if n, ok := r.nodes[s.N]; ok {
		return n
	}
	for _, n := range r.nodes {
		return n
	}
	return nil
}

func (r *run) peerSpec(id int) *PeerSpec {
	for i := range r.sp.Peers {
		if r.sp.Peers[i].ID == id {
			return &r.sp.Peers[i]
		}
	}
	return nil
}

func (r *run) connect(id int) error {
	ps := r.peerSpec(id)
	if ps == nil {
		return fmt.Errorf("no peer %d", id)
	}
	n := r.nodes[ps.N]
	if n == nil {
		return fmt.Errorf("peer %d: no node %d", id, ps.N)
	}
	p, err := connect(id, n, r.log, uint32(ps.Adv), 0x51900000+uint32(r.rnd.Intn(1<<16))<<8+uint32(id))
	if err != nil {
		return err
	}
	p.mute, p.txOrder, p.txDup = ps.Mute, ps.Order, ps.Dup
	if ps.Blocks {
		p.pre = r.w.pre
	}
	r.peers[id] = p
	return nil
}

// settle waits until nothing moves: complete ping round trips on every connection (each node's reader has handled everything
// the peer sent before), and the event log, the service's loop counter, the timers and the ledgers unchanged over several
// consecutive rounds (slow mode: many rounds AND seconds of idleness).  Wall-clock only bounds the wait (expiry = inconclusive).
func (r *run) settle() error {
	start := time.Now()
	same, last, lastChange := 0, "", time.Now()
	for {
		ids := make([]int, 0, len(r.peers))
		for id := range r.peers {
			ids = append(ids, id)
		}
		sort.Ints(ids)
		for _, id := range ids {
			p := r.peers[id]
			if p == nil || !p.alive() {
				continue
			}
			if _, err := p.barrier(); err != nil && err != errGoneConn {
				return err
			}
		}
		cur := fmt.Sprint(r.log.n.Load())
		nids := make([]int, 0, len(r.nodes))
		for id := range r.nodes {
			nids = append(nids, id)
		}
		sort.Ints(nids)
		for _, id := range nids {
			n := r.nodes[id]
			if n.stopped.Load() {
				continue
			}
			res := int64(0)
			if n.timer != nil {
				res = n.timer.resets.Load()
			}
			cur += fmt.Sprintf("|%d:%d:%d:%d:%d", n.iters.Load(), n.taps.Load(), n.bc.BlockHeight(), res, n.accepted.Load())
			if int(n.accepted.Load()) != int(n.bc.BlockHeight())-n.h0 {
				cur += "!" // the ledger's notifications are still on their way
				same = -1
			}
			if time.Since(lastChange) < 400*time.Millisecond && r.lagging(n) {
				same = -1 // a payload taken / made by the node has not been announced to every connection yet: give it a moment
			}
			if n.queuedAt(int(n.bc.BlockHeight())+1) && time.Since(lastChange) < 400*time.Millisecond {
				same = -1 // the service has put the next block into the queue: give the ledger a moment to take (or refuse) it
			}
		}
		if cur == last {
			same++
		} else {
			same, last, lastChange = 0, cur, time.Now()
		}
		need, idle := r.mode.rounds, r.mode.idle
		if len(r.nodes) > 1 && idle == 0 {
			need, idle = 10, 3*time.Millisecond // traffic between the servers of a mesh is not covered by the observers' round trips
		}
		if same >= need && time.Since(lastChange) >= idle {
			return nil
		}
		if time.Since(start) > settleMax {
			return fmt.Errorf("scenario %s does not settle: %w", r.sp.Name, errTimeout)
		}
		if r.mode.idle > 0 {
			time.Sleep(10 * time.Millisecond)
		} else {
			time.Sleep(300 * time.Microsecond)
		}
	}
}

func (r *run) lagging(n *node) bool {
	ps := make([]*peer, 0, len(r.peers))
	for _, p := range r.peers {
		ps = append(ps, p)
	}
	return n.pendingRelay(ps)
}

// sync = settle + the projected state of every node read back from the real objects.
func (r *run) sync() error {
	if err := r.settle(); err != nil {
		return err
	}
	nids := make([]int, 0, len(r.nodes))
	for id := range r.nodes {
		nids = append(nids, id)
	}
	sort.Ints(nids)
	for _, id := range nids {
		n := r.nodes[id]
		if n.stopped.Load() {
			continue
		}
		pool := []string{}
		for _, tx := range n.bc.GetMemPool().GetVerifiedTransactions() {
			pool = append(pool, sid(tx.Hash()))
		}
		sort.Strings(pool)
		open := []int{}
		for pid, p := range r.peers {
			if p != nil && p.to == n && p.alive() {
				open = append(open, pid)
			}
		}
		sort.Ints(open)
		r.emit(map[string]any{"event": "sync", "n": n.id, "h": int(n.bc.BlockHeight()), "pool": pool, "open": open, "started": n.started.Load()})
	}
	r.emit(map[string]any{"event": "epoch"})
	return nil
}

func (r *run) step(s Step) error {
	switch s.Op {
	case "connect":
		if p := r.peers[s.P]; p != nil && p.alive() {
			return nil
		}
		return r.connect(s.P)
	case "drop":
		if p := r.peers[s.P]; p != nil && p.alive() {
			_, _ = p.barrier()
			p.drop()
		}
	case "mute":
		if p := r.peers[s.P]; p != nil {
			p.mu.Lock()
			p.mute = s.Bad
			p.mu.Unlock()
		}
	case "x":
		p := r.peers[s.P]
		if p == nil || !p.alive() {
			return nil
		}
		r.mu.Lock()
		e := r.exts[s.X]
		r.mu.Unlock()
		if e == nil {
			e = r.craft(p.to, s)
		}
		if s.Via == "inv" {
			p.mu.Lock()
			p.exts[e.Hash()] = e
			p.mu.Unlock()
			p.sendInv(payload.ExtensibleType, []util.Uint256{e.Hash()})
		} else {
			p.sendExt(e, "push", s.X)
		}
	case "give":
		p := r.peers[s.P]
		if p == nil {
			return nil
		}
		p.mu.Lock()
		for _, t := range s.T {
			if tx := r.tx(t, s.Bad); tx != nil {
				p.txs[tx.Hash()] = tx
				p.txBad[tx.Hash()] = s.Bad
			}
		}
		p.mu.Unlock()
	case "tx":
		p := r.peers[s.P]
		if p == nil || !p.alive() {
			return nil
		}
		for _, t := range s.T {
			tx := r.tx(t, s.Bad)
			if tx == nil {
				continue
			}
			if s.Via == "inv" {
				p.mu.Lock()
				p.txs[tx.Hash()] = tx
				p.txBad[tx.Hash()] = s.Bad
				p.mu.Unlock()
				p.sendInv(payload.TXType, []util.Uint256{tx.Hash()})
			} else {
				p.sendTx(tx, "push", !s.Bad)
			}
		}
	case "raw":
		// wire-level garbage on a connection of its own: the node may (and does) hang up; it must not crash
		p := r.peers[s.P]
		if p == nil || !p.alive() {
			return nil
		}
		var b []byte
		switch s.Kind {
		case "trunc": // an extensible message whose payload ends in the middle
			e := r.w.ext(1, msgBytes(tCommit, 1, 1, 0, make([]byte, 64)), 1, "", 0)
			m, _ := network.NewMessage(network.CMDExtensible, e).BytesCompressed(false)
			b = append([]byte(nil), m[:len(m)/2]...)
			b[2] = byte(len(b) - 3) // (declared length = what is there)
		case "longcat": // category longer than the protocol allows
			e := r.w.ext(1, msgBytes(tCommit, 1, 1, 0, make([]byte, 64)), 1, "", 0)
			e.Category = "dBFT-dBFT-dBFT-dBFT-dBFT-dBFT-dBFT-dBFT-dBFT"
			b, _ = network.NewMessage(network.CMDExtensible, e).BytesCompressed(false)
		case "emptyinv":
			b, _ = network.NewMessage(network.CMDInv, payload.NewInventory(payload.ExtensibleType, nil)).BytesCompressed(false)
		default: // unknown command, random body
			b = []byte{0, 0xee, 5, 1, 2, 3, 4, 5}
		}
		p.emit(map[string]any{"event": "s", "m": "raw", "kind": s.Kind, "len": len(b)})
		_ = p.c.sendRaw(b)
	case "timeout":
		n := r.nodeOf(s)
		if n == nil || n.timer == nil {
			return nil
		}
		h := n.timer.Height()
		fired := n.timer.fire()
		r.emit(map[string]any{"event": "timeout", "n": n.id, "h": int(h), "fired": fired})
	case "sync":
		return r.sync()
	case "fetchx":
		p := r.peers[s.P]
		if p == nil || !p.alive() {
			return nil
		}
		var h util.Uint256
		r.mu.Lock()
		if e := r.exts[s.X]; e != nil {
			h = e.Hash()
		} else if e := r.owns[fmt.Sprintf("%d/%s", p.to.id, s.X)]; e != nil {
			h = e.Hash()
		}
		r.mu.Unlock()
		if h.Equals(util.Uint256{}) {
			return nil
		}
		p.sendGetData(payload.ExtensibleType, []util.Uint256{h})
	case "fetchblk":
		return r.fetchBlock(s)
	case "decide":
		return r.decide(s)
	case "rounds":
		return r.rounds(s)
	case "started":
		return r.awaitStarted()
	case "included":
		r.included(s)
	case "feedall":
		return r.feedAll(s)
	case "stop":
		// a validator goes away for good (process exit): its server shuts down
		if n := r.nodes[s.N]; n != nil && !n.stopped.Load() {
			n.stopped.Store(true)
			r.emit(map[string]any{"event": "stop", "n": n.id})
			for _, p := range r.peers {
				if p != nil && p.to == n && p.alive() {
					p.quietClose()
				}
			}
			n.srv.Shutdown()
		}
	case "await":
		// block synchronisation from peers is driven by the server's protocol ticks (real time): wait for it, bounded generously;
		// expiry is inconclusive, never a verdict here (C20 judges synchronisation)
		n := r.nodeOf(s)
		dl := time.Now().Add(90 * time.Second)
		for int(n.bc.BlockHeight()) < s.I {
			if time.Now().After(dl) {
				return fmt.Errorf("await height %d: node at %d: %w", s.I, n.bc.BlockHeight(), errTimeout)
			}
			time.Sleep(2 * time.Millisecond)
		}
	case "gate":
		// the next time the service asks for transactions, peer P pushes T and the node pools them BEFORE the server's
		// RequestTx runs (an interleaving of the service's goroutine with a peer's reader, forced through the callback the
		// node's wiring hands to the service)
		n := r.nodeOf(s)
		p := r.peers[s.P]
		if n == nil || p == nil {
			return nil
		}
		names := append([]string(nil), s.T...)
		n.gateMu.Lock()
		n.gate = func(hs []util.Uint256) {
			n.gateMu.Lock()
			n.gate = nil
			n.gateMu.Unlock()
			r.emit(map[string]any{"event": "gate", "n": n.id, "p": p.id, "t": names})
			for _, t := range names {
				if tx := r.tx(t, false); tx != nil {
					p.sendTx(tx, "push", true)
				}
			}
			_, _ = p.barrier()
			dl := time.Now().Add(20 * time.Second)
			for _, t := range names {
				if tx := r.tx(t, false); tx != nil {
					for !n.bc.GetMemPool().ContainsKey(tx.Hash()) && time.Now().Before(dl) {
						time.Sleep(200 * time.Microsecond)
					}
				}
			}
		}
		n.gateMu.Unlock()
	}
	return nil
}

// fetchBlock asks node for block I over connection P (getdata by hash, or getblockbyindex), and offers what comes back - in
// its wire form - to the reference ledger (every other node's ledger).
func (r *run) fetchBlock(s Step) error {
	p := r.peers[s.P]
	if p == nil || !p.alive() {
		return nil
	}
	n := p.to
	if int(n.bc.BlockHeight()) < s.I {
		return nil
	}
	for len(p.blocks) > 0 {
		<-p.blocks
	}
	hash := n.bc.GetHeaderHash(uint32(s.I))
	if s.By == "index" {
		p.emit(map[string]any{"event": "s", "m": "getblockbyindex", "start": s.I, "count": 1, "hs": []string{sid(hash)}, "typ": "block"})
		_ = p.c.send(network.NewMessage(network.CMDGetBlockByIndex, payload.NewGetBlockByIndex(uint32(s.I), 1)))
	} else {
		p.sendGetData(payload.BlockType, []util.Uint256{hash})
	}
	if _, err := p.barrier(); err != nil && err != errGoneConn {
		return err
	}
	// the answer travels on the same connection before the pong of a LATER ping only if it was queued before it; wait for it
	var b *block.Block
	select {
	case b = <-p.blocks:
	case <-time.After(r.fetchWait()):
	}
	if b == nil {
		return nil
	}
	r.feed(n, b)
	return nil
}

func (r *run) fetchWait() time.Duration {
	if r.mode.idle > 0 {
		return 5 * time.Second
	}
	return 2 * time.Second
}

func (r *run) feed(n *node, b *block.Block) {
	r.mu.Lock()
	defer r.mu.Unlock()
	rh := r.w.ref.BlockHeight()
	if b.Index != rh+1 {
		if b.Index <= rh { // already there: the same block?
			same := r.w.ref.GetHeaderHash(b.Index) == b.Hash()
			r.emit(map[string]any{"event": "feed", "n": n.id, "i": int(b.Index), "b": sid(b.Hash()), "ok": same, "err": "known height", "dup": true})
		}
		return
	}
	err := r.w.ref.AddBlock(b)
	es := ""
	if err != nil {
		es = err.Error()
	}
	r.emit(map[string]any{"event": "feed", "n": n.id, "i": int(b.Index), "b": sid(b.Hash()), "ok": err == nil, "err": es})
}
