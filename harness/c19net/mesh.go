package c19net

import (
	"fmt"
	"sort"
	"time"
)

// Mesh worlds: several REAL servers, each with its real consensus service and its own ledger, connected to each other over
// real loopback TCP (every server dials the ones created before it: ServerConfig.Seeds), one fake OBSERVER connection per
// server (barriers, transactions, what the server announces, block fetches).  Time is virtual: a round fires the armed dBFT
// timer with the earliest deadline and lets everything settle.

func (r *run) meshNodes(dir string) ([]map[string]any, error) {
	var seeds []string
	nodes := []map[string]any{}
	for _, ns := range r.sp.Nodes {
		n, err := newNode(r.w, nodeOpts{id: ns.ID, h0: ns.H0, minPeers: ns.MinPeers, bcast: 100, onOwn: r.learnOwn, copyID: r.copyID,
			seeds: append([]string(nil), seeds...)}, r.log, r.clk, dir)
		if err != nil {
			return nil, err
		}
		r.nodes[ns.ID] = n
		seeds = append(seeds, fmt.Sprintf("127.0.0.1:%d", n.port))
		nodes = append(nodes, map[string]any{"n": ns.ID, "id": ns.ID, "minp": ns.MinPeers, "h0": ns.H0, "obs": len(r.sp.Nodes) == 1})
	}
	return nodes, nil
}

func (r *run) running() []*node {
	ids := make([]int, 0, len(r.nodes))
	for id := range r.nodes {
		ids = append(ids, id)
	}
	sort.Ints(ids)
	var out []*node
	for _, id := range ids {
		if n := r.nodes[id]; !n.stopped.Load() {
			out = append(out, n)
		}
	}
	return out
}

func (r *run) minHeight() int {
	m := -1
	for _, n := range r.running() {
		if h := int(n.bc.BlockHeight()); m < 0 || h < m {
			m = h
		}
	}
	return m
}

// awaitStarted waits (real time: the servers dial each other on their protocol ticks) until every running server has started
// its consensus service; expiry is inconclusive.
func (r *run) awaitStarted() error {
	dl := time.Now().Add(90 * time.Second)
	for {
		all := true
		for _, n := range r.running() {
			if !n.started.Load() {
				all = false
			}
		}
		if all {
			return nil
		}
		if time.Now().After(dl) {
			return fmt.Errorf("mesh %s: servers did not connect to each other: %w", r.sp.Name, errTimeout)
		}
		time.Sleep(2 * time.Millisecond)
	}
}

// rounds plays a synchronous phase: nothing is lost, the earliest timer fires when nothing else can happen.
func (r *run) rounds(s Step) error {
	if err := r.sync(); err != nil {
		return err
	}
	r.emit(map[string]any{"event": "round", "first": true, "minh": r.minHeight(), "bound": s.I, "fired": -1})
	for k := 0; k < s.Rounds; k++ {
		var best *node
		var bd time.Time
		for _, n := range r.running() {
			if n.timer == nil {
				continue
			}
			if d, armed := n.timer.deadlineOf(); armed && (best == nil || d.Before(bd)) {
				best, bd = n, d
			}
		}
		if best == nil {
			break
		}
		h := best.timer.Height()
		fired := best.timer.fire()
		r.emit(map[string]any{"event": "timeout", "n": best.id, "h": int(h), "fired": fired})
		if err := r.sync(); err != nil {
			return err
		}
		r.emit(map[string]any{"event": "round", "first": false, "minh": r.minHeight(), "bound": s.I, "fired": best.id})
		if s.DH > 0 && r.minHeight() >= s.DH {
			break
		}
	}
	return nil
}

// included: which of the named transactions are in no block of node N's ledger.
func (r *run) included(s Step) {
	n := r.nodeOf(s)
	pending := []string{}
	for _, t := range s.T {
		tx := r.tx(t, false)
		if tx == nil {
			continue
		}
		if _, h, err := n.bc.GetTransaction(tx.Hash()); err != nil || h == ^uint32(0) {
			pending = append(pending, sid(tx.Hash()))
		}
	}
	r.emit(map[string]any{"event": "included", "n": n.id, "pending": pending, "h": int(n.bc.BlockHeight())})
}

// feedAll fetches every block the reference ledger lacks from node N over connection P and offers it to the reference ledger.
func (r *run) feedAll(s Step) error {
	p := r.peers[s.P]
	if p == nil || !p.alive() {
		return nil
	}
	for i := int(r.w.ref.BlockHeight()) + 1; i <= int(p.to.bc.BlockHeight()); i++ {
		st := s
		st.I, st.By = i, []string{"hash", "index"}[i%2]
		if err := r.fetchBlock(st); err != nil {
			return err
		}
	}
	return nil
}
