package c19net

func (r *run) mesh() error { return nil }
