// Package c04exec binds spec/exec (Exec.tla) to the real execution engine: call trees produced by TLC (and
// by a seeded generator) are compiled into real NEF contracts with exact TRY/CATCH/FINALLY layouts, deployed
// on a neotest chain, executed inside blocks, and the observed ledger effects are recorded for the TLA+ judge.
package c04exec

import (
	"encoding/binary"

	"github.com/nspcc-dev/neo-go/pkg/io"
	"github.com/nspcc-dev/neo-go/pkg/vm/emit"
	"github.com/nspcc-dev/neo-go/pkg/vm/opcode"
)

// asm is a tiny assembler with labels; all jumps use the long (int32) forms so that code size is irrelevant.
type asm struct {
	buf    []byte
	labels []int // label -> offset (-1 unbound)
	fixups []fixup
}

type fixup struct {
	at    int // position of the int32 operand
	instr int // position of the instruction (offsets are relative to it)
	label int
}

func (a *asm) pos() int { return len(a.buf) }

func (a *asm) op(ops ...opcode.Opcode) {
	for _, o := range ops {
		a.buf = append(a.buf, byte(o))
	}
}

func (a *asm) raw(b ...byte) { a.buf = append(a.buf, b...) }

func (a *asm) emit(f func(w *io.BinWriter)) {
	w := io.NewBufBinWriter()
	f(w.BinWriter)
	if w.Err != nil {
		panic(w.Err)
	}
	a.buf = append(a.buf, w.Bytes()...)
}

func (a *asm) pushInt(i int64)    { a.emit(func(w *io.BinWriter) { emit.Int(w, i) }) }
func (a *asm) pushBytes(b []byte) { a.emit(func(w *io.BinWriter) { emit.Bytes(w, b) }) }
func (a *asm) pushString(s string) {
	a.emit(func(w *io.BinWriter) { emit.String(w, s) })
}
func (a *asm) syscall(name string) { a.emit(func(w *io.BinWriter) { emit.Syscall(w, name) }) }

func (a *asm) newLabel() int {
	a.labels = append(a.labels, -1)
	return len(a.labels) - 1
}

func (a *asm) bind(l int) { a.labels[l] = a.pos() }

func (a *asm) ref(instr, label int) {
	a.fixups = append(a.fixups, fixup{at: a.pos(), instr: instr, label: label})
	a.raw(0, 0, 0, 0)
}

// jump emits a long-form jump-like instruction (JMP*_L, CALL_L, ENDTRY_L) to the label.
func (a *asm) jump(o opcode.Opcode, label int) {
	p := a.pos()
	a.op(o)
	a.ref(p, label)
}

// try emits TRY_L; a negative label means "no such block".
func (a *asm) try(catch, fin int) {
	p := a.pos()
	a.op(opcode.TRYL)
	for _, l := range []int{catch, fin} {
		if l < 0 {
			a.raw(0, 0, 0, 0)
		} else {
			a.ref(p, l)
		}
	}
}

func (a *asm) bytes() []byte {
	for _, f := range a.fixups {
		t := a.labels[f.label]
		if t < 0 {
			panic("unbound label")
		}
		binary.LittleEndian.PutUint32(a.buf[f.at:], uint32(int32(t-f.instr)))
	}
	return a.buf
}
