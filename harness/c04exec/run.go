package c04exec

import (
	"encoding/json"
	"fmt"
	"math/big"
	"sort"
	"testing"

	"github.com/nspcc-dev/neo-go/pkg/core"
	"github.com/nspcc-dev/neo-go/pkg/core/block"
	"github.com/nspcc-dev/neo-go/pkg/core/native/nativehashes"
	"github.com/nspcc-dev/neo-go/pkg/core/native/nativenames"
	"github.com/nspcc-dev/neo-go/pkg/core/state"
	"github.com/nspcc-dev/neo-go/pkg/core/transaction"
	"github.com/nspcc-dev/neo-go/pkg/io"
	"github.com/nspcc-dev/neo-go/pkg/neotest"
	"github.com/nspcc-dev/neo-go/pkg/neotest/chain"
	"github.com/nspcc-dev/neo-go/pkg/smartcontract"
	"github.com/nspcc-dev/neo-go/pkg/smartcontract/callflag"
	"github.com/nspcc-dev/neo-go/pkg/util"
	"github.com/nspcc-dev/neo-go/pkg/vm/emit"
	"github.com/nspcc-dev/neo-go/pkg/vm/opcode"
	"github.com/nspcc-dev/neo-go/pkg/vm/stackitem"
	"github.com/nspcc-dev/neo-go/pkg/vm/vmstate"
	"github.com/nspcc-dev/neo-go/pkg/wallet"
	"github.com/stretchr/testify/require"
	"go.uber.org/zap"
)

const (
	scenSysFee = 3_0000_0000  // system fee of every scenario transaction (fully charged whatever is consumed)
	policyFPB  = 10           // Policy storage key of FeePerByte
	deployFee  = 12_0000_0000 // extra system fee per deploy statement (minimum deployment fee is 10 GAS)
)

// World is one real chain (single validator = committee) with a separate fee payer.
type World struct {
	t      testing.TB
	BC     *core.Blockchain
	E      *neotest.Executor
	Val    neotest.Signer // validator and committee
	Payer  neotest.Signer
	Sink   util.Uint160
	seq    int
	policy int32
	gasID  int32
	mgmt   int32
	ntfCh  chan *state.ContainedNotificationEvent
	blkCh  chan *block.Block
	feed   map[util.Uint256][]state.NotificationEvent // notifications delivered to subscribers, per container
}

func NewWorld(t testing.TB) *World {
	bc, acc := chain.NewSingleWithOptions(t, &chain.Options{Logger: zap.NewNop()})
	e := neotest.NewExecutor(t, bc, acc, acc)
	e.DisableCoverage()
	w := &World{t: t, BC: bc, E: e, Val: acc, feed: map[util.Uint256][]state.NotificationEvent{}}
	// Subscriptions: the dispatcher sends the notifications of a block before the block itself, synchronously,
	// so once block N is received every delivered notification of block N sits in ntfCh (no sleeping involved).
	w.ntfCh = make(chan *state.ContainedNotificationEvent, 1<<17)
	w.blkCh = make(chan *block.Block, 1<<10)
	bc.SubscribeForNotifications(w.ntfCh)
	bc.SubscribeForBlocks(w.blkCh)
	pa, err := wallet.NewAccount()
	require.NoError(t, err)
	w.Payer = neotest.NewSingleSigner(pa)
	sa, err := wallet.NewAccount()
	require.NoError(t, err)
	w.Sink = sa.ScriptHash()
	tx := e.NewUnsignedTx(t, e.NativeHash(t, nativenames.Gas), "transfer",
		acc.ScriptHash(), w.Payer.ScriptHash(), int64(2_000_000_0000_0000), nil)
	e.SignTx(t, tx, 1_0000_0000, acc)
	e.AddNewBlock(t, tx)
	e.CheckHalt(t, tx.Hash())
	w.Sync()
	w.policy = e.NativeID(t, nativenames.Policy)
	w.gasID = e.NativeID(t, nativenames.Gas)
	w.mgmt = e.NativeID(t, nativenames.Management)
	return w
}

// Scenario is one call tree to be run as one transaction.
type Scenario struct {
	Name string
	Root []Stmt
	Src  string
	Pred *Pred

	comp   *Compiled
	hashes [NC]util.Uint160
	ids    [NC]int32
	script []byte
	tx     *transaction.Transaction
}

// Pred is the outcome predicted by the implementation-shaped model for a TLC-generated tree.
type Pred struct {
	Halt  bool    `json:"halt"`
	Notes [][]any `json:"notes"`
}

// Note is one observed notification: the emitting contract (index, or "gas" for the GAS token) and a number
// (the notify argument, or the transferred amount), plus from/to for transfers.
type Note struct {
	C    string `json:"c"`
	N    int64  `json:"n"`
	From string `json:"from"`
	To   string `json:"to"`
}

// Outcome is the observed effect of one scenario transaction, read back from the real chain after the block.
type Outcome struct {
	Halt      bool             `json:"halt"`
	Fault     string           `json:"fault"`
	Notes     []Note           `json:"notes"`
	Store     []map[string]int `json:"store"` // per contract: key -> value (present keys only)
	Bal       []int64          `json:"bal"`   // GAS of each scenario contract
	Fee       int64            `json:"fee"`
	Dep       []int            `json:"dep"`       // children (deploy statements) that exist after the block
	XferLog   int              `json:"xferlog"`   // NEP-17 transfer log entries of the scenario contracts caused by this transaction
	Delivered []Note           `json:"delivered"` // notifications of this transaction delivered to subscribers
}

func (w *World) who(s *Scenario, h util.Uint160) string {
	for i := range s.hashes {
		if s.comp.Contracts[i] != nil && s.hashes[i].Equals(h) {
			return fmt.Sprintf("c%d", i)
		}
	}
	switch {
	case h.Equals(nativehashes.GasToken):
		return "gas"
	case h.Equals(nativehashes.ContractManagement):
		return "mgmt"
	case h.Equals(w.Sink):
		return "sink"
	case h.Equals(w.Payer.ScriptHash()):
		return "payer"
	case h.Equals(w.Val.ScriptHash()):
		return "val"
	}
	return "other:" + h.StringLE()
}

func itemHash(it stackitem.Item) (util.Uint160, bool) {
	b, err := it.TryBytes()
	if err != nil {
		return util.Uint160{}, false
	}
	h, err := util.Uint160DecodeBytesBE(b)
	return h, err == nil
}

func (w *World) notes(s *Scenario, evs []state.NotificationEvent) []Note {
	out := []Note{}
	for _, ev := range evs {
		n := Note{C: w.who(s, ev.ScriptHash)}
		items := ev.Item.Value().([]stackitem.Item)
		if n.C == "gas" && ev.Name == "Transfer" && len(items) == 3 {
			if h, ok := itemHash(items[0]); ok {
				n.From = w.who(s, h)
			} else {
				n.From = "null"
			}
			if h, ok := itemHash(items[1]); ok {
				n.To = w.who(s, h)
			} else {
				n.To = "null"
			}
			if v, err := items[2].TryInteger(); err == nil {
				n.N = v.Int64()
			}
		} else if n.C == "mgmt" && ev.Name == "Deploy" && len(items) == 1 {
			n.N = -1
			if h, ok := itemHash(items[0]); ok {
				for d, ch := range s.comp.Children {
					if ch.Equals(h) {
						n.N = int64(d)
					}
				}
			}
		} else {
			if ev.Name != evName {
				n.C += ":" + ev.Name
			}
			if len(items) == 1 {
				if v, err := items[0].TryInteger(); err == nil {
					n.N = v.Int64()
				} else if in, ok := items[0].Value().([]stackitem.Item); ok && len(in) == 1 { // the scenario contracts' payload [n]
					if v, err := in[0].TryInteger(); err == nil {
						n.N = v.Int64()
					}
				}
			}
		}
		out = append(out, n)
	}
	return out
}

// Prepare compiles the scenarios, deploys their contracts and funds them (one block).
func (w *World) Prepare(scs []*Scenario) error {
	t := w.t
	var txs []*transaction.Transaction
	fundW := io.NewBufBinWriter()
	nfund := 0
	for _, s := range scs {
		w.seq++
		if s.Name == "" {
			s.Name = fmt.Sprintf("s%d", w.seq)
		}
		c, err := Compile(s.Root, fmt.Sprintf("w%d-%s", w.seq, s.Name), w.Val.ScriptHash(), w.Payer.ScriptHash())
		if err != nil {
			return err
		}
		s.comp = c
		for i, ct := range c.Contracts {
			if ct == nil {
				continue
			}
			s.hashes[i] = ct.Hash
			txs = append(txs, w.deployTx(ct))
			emit.AppCall(fundW.BinWriter, nativehashes.GasToken, "transfer", callflag.All,
				w.Val.ScriptHash(), ct.Hash, int64(fund), nil)
			emit.Opcodes(fundW.BinWriter, opcode.ASSERT)
			nfund++
		}
		s.script = c.Entry(s.hashes, w.Sink)
	}
	if nfund > 0 {
		ftx := transaction.New(fundW.Bytes(), 0)
		ftx.Nonce = neotest.Nonce()
		ftx.ValidUntilBlock = w.BC.BlockHeight() + 1
		w.E.SignTx(t, ftx, int64(nfund)*2000_0000, w.Val)
		txs = append(txs, ftx)
	}
	if err := w.addBlock(txs); err != nil {
		return fmt.Errorf("setup block refused: %w", err)
	}
	for _, tx := range txs {
		aer := w.E.GetTxExecResult(t, tx.Hash())
		if aer.VMState != vmstate.Halt {
			return fmt.Errorf("setup transaction failed: %s", aer.FaultException)
		}
	}
	for _, s := range scs {
		for i, ct := range s.comp.Contracts {
			if ct == nil {
				continue
			}
			cs := w.BC.GetContractState(ct.Hash)
			if cs == nil {
				// every setup transaction HALTed (checked above), yet the deployed contract is not there
				return &HaltedEffectMissing{What: fmt.Sprintf("deployment transaction of %s halted but the contract does not exist", ct.Manifest.Name)}
			}
			s.ids[i] = cs.ID
		}
	}
	return nil
}

// HaltedEffectMissing reports a transaction of the harness itself that HALTed without its effect being applied.
type HaltedEffectMissing struct{ What string }

func (e *HaltedEffectMissing) Error() string { return e.What }

// deployTx is neotest's NewDeployTx with an explicit system fee (no test invocation: the harness must not depend on
// test executions leaving no trace - that is what is being checked).
func (w *World) deployTx(c *neotest.Contract) *transaction.Transaction {
	rawManifest, err := json.Marshal(c.Manifest)
	require.NoError(w.t, err)
	neb, err := c.NEF.Bytes()
	require.NoError(w.t, err)
	script, err := smartcontract.CreateCallScript(w.BC.ManagementContractHash(), "deploy", neb, rawManifest, nil)
	require.NoError(w.t, err)
	tx := transaction.New(script, 0)
	tx.Nonce = neotest.Nonce()
	tx.ValidUntilBlock = w.BC.BlockHeight() + 1
	w.E.SignTx(w.t, tx, 30_0000_0000, w.Val)
	return tx
}

// MakeTx builds and signs the scenario transaction (payer pays; the committee signs with a global scope so that
// Policy setters pass their witness check).
func (w *World) MakeTx(s *Scenario) *transaction.Transaction {
	tx := transaction.New(s.script, 0)
	tx.Nonce = neotest.Nonce()
	tx.ValidUntilBlock = w.BC.BlockHeight() + 1
	w.E.SignTx(w.t, tx, scenSysFee+int64(countKind(s.Root, "deploy"))*deployFee, w.Payer, w.Val)
	s.tx = tx
	return tx
}

// Sync waits until the subscription feed has delivered everything up to the current height.
func (w *World) Sync() {
	for {
		b := <-w.blkCh
		if b.Index >= w.BC.BlockHeight() {
			break
		}
	}
	for {
		select {
		case n := <-w.ntfCh:
			w.feed[n.Container] = append(w.feed[n.Container], n.NotificationEvent)
		default:
			return
		}
	}
}

func (w *World) gas(h util.Uint160) int64 {
	return w.BC.GetUtilityTokenBalance(h, util.Uint160{}).Int64()
}

// Snapshot is the part of the ledger state shared by all scenarios of a world.
type Snapshot struct {
	Payer    int64 `json:"payer"`
	Sink     int64 `json:"sink"`
	Nset     int64 `json:"nset"`      // Policy.FeePerByte as the native cache answers
	NsetDisk int64 `json:"nset_disk"` // ... as stored in the Policy contract storage
	NextID   int64 `json:"nextid"`    // ContractManagement's next available contract id (storage)
}

func (w *World) Snapshot() Snapshot {
	sn := Snapshot{Payer: w.gas(w.Payer.ScriptHash()), Sink: w.gas(w.Sink), Nset: w.BC.FeePerByte()}
	si := w.BC.GetStorageItem(w.policy, []byte{policyFPB})
	sn.NsetDisk = new(big.Int).SetBytes(reverse(si)).Int64()
	if si := w.BC.GetStorageItem(w.mgmt, []byte{15}); si != nil {
		sn.NextID = new(big.Int).SetBytes(reverse(si)).Int64()
	}
	return sn
}

func reverse(b []byte) []byte {
	r := make([]byte, len(b))
	for i := range b {
		r[len(b)-1-i] = b[i]
	}
	return r
}

// Observe reads the effects of the scenario's transaction back from the chain.
func (w *World) Observe(s *Scenario) Outcome {
	aer := w.E.GetTxExecResult(w.t, s.tx.Hash())
	o := Outcome{Halt: aer.VMState == vmstate.Halt, Fault: aer.FaultException, Notes: w.notes(s, aer.Events),
		Fee: s.tx.SystemFee + s.tx.NetworkFee}
	for i := range s.comp.Contracts {
		st := map[string]int{}
		bal := int64(0)
		if s.comp.Contracts[i] != nil {
			w.BC.SeekStorage(s.ids[i], nil, func(k, v []byte) bool {
				val := -1
				if len(v) == 1 {
					val = int(v[0])
				} else if len(v) > 1 {
					val = int(new(big.Int).SetBytes(reverse(v)).Int64())
				}
				st[fmt.Sprintf("%x", k)] = val
				return true
			})
			bal = w.gas(s.hashes[i])
		}
		if s.comp.Contracts[i] != nil {
			_ = w.BC.ForEachNEP17Transfer(s.hashes[i], ^uint64(0), func(tr *state.NEP17Transfer) (bool, error) {
				if tr.Tx.Equals(s.tx.Hash()) && tr.Amount.Sign() < 0 { // every transfer of the tree has a scenario contract as sender
					o.XferLog++
				}
				return true, nil
			})
		}
		o.Store = append(o.Store, st)
		o.Bal = append(o.Bal, bal)
	}
	o.Dep = []int{}
	for d := 1; d <= 4; d++ {
		if h, ok := s.comp.Children[d]; ok && w.BC.GetContractState(h) != nil {
			o.Dep = append(o.Dep, d)
		}
	}
	o.Delivered = w.notes(s, w.feed[s.tx.Hash()])
	delete(w.feed, s.tx.Hash())
	return o
}

// RunBlock puts the transactions of the scenarios (in the given order) into one block. A block of transactions
// that were valid when they were made can only be refused if earlier executions corrupted the ledger: the error
// is returned (the driver stops and reports what it has) instead of failing the test.
func (w *World) RunBlock(scs []*Scenario) error {
	var txs []*transaction.Transaction
	for _, s := range scs {
		txs = append(txs, w.MakeTx(s))
	}
	return w.addBlock(txs)
}

func (w *World) addBlock(txs []*transaction.Transaction) error {
	b := w.E.NewUnsignedBlock(w.t, txs...)
	w.E.SignBlock(b)
	if err := w.BC.AddBlock(b); err != nil {
		return err
	}
	w.Sync()
	return nil
}

func countKind(b []Stmt, k string) int {
	n := 0
	for i := range b {
		if b[i].K == k {
			n++
		}
		n += countKind(b[i].Body, k) + countKind(b[i].Catch, k) + countKind(b[i].Fin, k)
	}
	return n
}

func sortedKeys(m map[string]int) []string {
	ks := make([]string, 0, len(m))
	for k := range m {
		ks = append(ks, k)
	}
	sort.Strings(ks)
	return ks
}
