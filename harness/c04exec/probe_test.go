package c04exec

import (
	"encoding/json"
	"testing"
)

func put(k, v int) Stmt { return Stmt{K: "put", Key: k, Val: v} }
func notify(n int) Stmt { return Stmt{K: "notify", N: n} }
func throw() Stmt       { return Stmt{K: "throw"} }
func call(c int, fl int, body ...Stmt) Stmt {
	return Stmt{K: "call", C: c, Fl: fl, Body: body}
}
func try(body, catch, fin []Stmt, hc, hf bool) Stmt {
	return Stmt{K: "try", Body: body, Catch: catch, Fin: fin, Hc: hc, Hf: hf}
}
func B(s ...Stmt) []Stmt { return s }

func TestProbe(t *testing.T) {
	w := NewWorld(t)
	swallow := try(B(throw()), B(), nil, true, false)
	cases := map[string][]Stmt{
		"plain-halt":                    B(call(0, 15, put(1, 1), notify(1), call(1, 15, put(1, 2), notify(2)))),
		"caught":                        B(call(0, 15, put(1, 1), try(B(call(1, 15, put(1, 2), notify(2), throw())), B(notify(3)), nil, true, false), put(2, 1))),
		"uncaught":                      B(call(0, 15, put(1, 1), call(1, 15, put(1, 2), notify(2), throw()))),
		"leak-swallow":                  B(call(0, 15, put(1, 1), try(B(throw()), B(call(1, 15, put(1, 2), notify(2), throw())), B(swallow), true, true), put(2, 1))),
		"fin-pending-wrapped":           B(call(0, 15, try(B(try(B(call(1, 15, put(1, 1), throw())), nil, B(call(2, 15, put(1, 3), notify(3))), false, true)), B(), nil, true, false))),
		"fin-pending-unwrapped-swallow": B(call(0, 15, try(B(call(1, 15, put(1, 1), throw())), nil, B(call(2, 15, put(1, 3), notify(3)), swallow), false, true), put(2, 2))),
		"nset-caught":                   B(call(0, 15, try(B(call(1, 15, Stmt{K: "nset", Val: 1234}, throw())), B(), nil, true, false), Stmt{K: "nget", Key: 2})),
		"nset-ok":                       B(call(0, 15, call(1, 15, Stmt{K: "nset", Val: 1300}), Stmt{K: "nget", Key: 2})),
		"xfer-caught":                   B(call(0, 15, try(B(call(1, 15, Stmt{K: "xfer", Amt: 7}, throw())), B(), nil, true, false), Stmt{K: "xfer", Amt: 5})),
		"pay-ok":                        B(call(0, 15, Stmt{K: "pay", C: 1, Body: B(put(1, 9), notify(9))})),
		"pay-throw":                     B(call(0, 15, try(B(Stmt{K: "pay", C: 1, Body: B(put(1, 9), throw())}), B(), nil, true, false))),
		"sub-try":                       B(call(0, 15, try(B(Stmt{K: "sub", Body: B(call(1, 15, put(1, 1), throw()))}), B(), nil, true, false), put(2, 2))),
		"ro-notify":                     B(call(0, 15, try(B(call(1, 13, notify(4), throw())), B(), nil, true, false))),
		"vmthrow":                       B(call(0, 15, try(B(call(1, 15, put(1, 1), Stmt{K: "vmthrow"})), B(), nil, true, false))),
	}
	var scs []*Scenario
	for n, r := range cases {
		scs = append(scs, &Scenario{Name: n, Root: r})
	}
	if err := w.Prepare(scs); err != nil {
		t.Fatal(err)
	}
	for _, s := range scs {
		before := w.Snapshot()
		w.RunBlock([]*Scenario{s}, nil)
		o := w.Observe(s)
		after := w.Snapshot()
		b, _ := json.Marshal(o)
		t.Logf("%s: %s  before=%+v after=%+v", s.Name, b, before, after)
	}
}
