package c04exec

import (
	"math/big"

	"github.com/nspcc-dev/neo-go/pkg/core/dao"
	"github.com/nspcc-dev/neo-go/pkg/core/interop"
	"github.com/nspcc-dev/neo-go/pkg/core/native/nativehashes"
	"github.com/nspcc-dev/neo-go/pkg/core/state"
	"github.com/nspcc-dev/neo-go/pkg/smartcontract/callflag"
	"github.com/nspcc-dev/neo-go/pkg/smartcontract/trigger"
	"github.com/nspcc-dev/neo-go/pkg/util"
	"github.com/nspcc-dev/neo-go/pkg/vm/opcode"
	"github.com/nspcc-dev/neo-go/pkg/vm/vmstate"

	"verifharness/internal/vh"
)

// code -> spec: the scenario transaction is run once more in a test VM (Blockchain.GetTestVM, the same interop
// context, call.go and vm.go code as in block processing) with an instruction hook.  Whenever the VM reaches the
// first instruction of a statement of the tree (or the instruction closing a block) the hook records the label and
// what the REAL objects show at that moment: invocation stack depth, number of private DAO layers (identity of
// ic.DAO), number of notifications, the storage visible through ic.DAO, the native cache answer.
// ExecTrace.tla replays the labels through the machine of ExecImpl.tla and compares.

type feeGetter interface {
	GetFeePerByteInternal(d *dao.Simple) int64
}

const (
	slotSink = 110
	slotNset = 120
)

func gasOf(d *dao.Simple, gasID int32, h util.Uint160) int64 {
	si := d.GetStorageItem(gasID, append([]byte{20}, h.BytesBE()...))
	if si == nil {
		return 0
	}
	b, err := state.NEP17BalanceFromBytes(si)
	if err != nil {
		return -1
	}
	return b.Balance.Int64()
}

func (w *World) observeIC(ic *interop.Context, s *Scenario, layers *[]*dao.Simple) map[string]any {
	d := ic.DAO
	// private layers are a stack: a DAO never seen before is a new layer, a known one means the layers above are gone
	found := -1
	for i, p := range *layers {
		if p == d {
			found = i
		}
	}
	if found < 0 {
		*layers = append(*layers, d)
	} else {
		*layers = (*layers)[:found+1]
	}
	vis := [][]int64{}
	for c := range s.comp.Contracts {
		if s.comp.Contracts[c] == nil {
			continue
		}
		for k := 1; k <= 3; k++ {
			v := int64(0)
			if si := d.GetStorageItem(s.ids[c], []byte{byte(k)}); si != nil {
				if len(si) == 1 {
					v = int64(si[0])
				} else {
					v = new(big.Int).SetBytes(reverse(si)).Int64()
				}
			}
			vis = append(vis, []int64{int64(c*10 + k), v})
		}
		vis = append(vis, []int64{int64(100 + c), gasOf(d, w.gasID, s.hashes[c])})
	}
	vis = append(vis, []int64{slotSink, gasOf(d, w.gasID, w.Sink)})
	disk := int64(-1)
	if si := d.GetStorageItem(w.policy, []byte{policyFPB}); si != nil {
		disk = new(big.Int).SetBytes(reverse(si)).Int64()
	}
	vis = append(vis, []int64{slotNset, disk})
	cache := int64(-1)
	for _, n := range ic.Natives {
		if p, ok := n.(feeGetter); ok {
			cache = p.GetFeePerByteInternal(d)
		}
	}
	return map[string]any{"depth": len(ic.VM.Istack()), "layers": len(*layers), "nnotes": len(ic.Notifications),
		"vis": vis, "cache": cache}
}

func label(m Mark) map[string]any {
	if m.S == nil {
		return map[string]any{"k": m.Ev}
	}
	l := m.S.JSON()
	delete(l, "body")
	delete(l, "catch")
	delete(l, "fin")
	return l
}

// TraceRun executes the scenario transaction in a test VM on top of the current chain state and emits
// begin / step / finish events.
func (w *World) TraceRun(s *Scenario, tr *vh.Trace) error {
	tx := s.tx
	ic, err := w.BC.GetTestVM(trigger.Application, tx, nil)
	if err != nil {
		return err
	}
	defer ic.Finalize()
	marks := map[util.Uint160]map[int]Mark{EntryHash(s.script): s.comp.EntryMark}
	for c, ct := range s.comp.Contracts {
		if ct != nil {
			marks[ct.Hash] = s.comp.Marks[c]
		}
	}
	_ = nativehashes.GasToken
	var layers []*dao.Simple
	used := []bool{}
	for _, c := range s.comp.Contracts {
		used = append(used, c != nil)
	}
	ic.VM.LoadScriptWithFlags(tx.Script, callflag.All)
	ic.VM.SetGasLimit(tx.SystemFee)
	tr.Emit(map[string]any{"event": "begin", "id": s.Name, "tree": blockJSON(s.Root), "used": used, "fund": fund, "obs": w.observeIC(ic, s, &layers)})
	ic.VM.SetOnExecHook(func(h util.Uint160, off int, _ opcode.Opcode) {
		mk, ok := marks[h][off]
		if !ok {
			return
		}
		ev := "step"
		if mk.Ev == "at" {
			ev = "at"
		}
		tr.Emit(map[string]any{"event": ev, "lb": label(mk), "path": mk.Path, "idx": mk.Idx, "obs": w.observeIC(ic, s, &layers)})
	})
	_ = ic.VM.Run()
	tr.Emit(map[string]any{"event": "finish", "id": s.Name, "halt": ic.VM.State() == vmstate.Halt, "nnotes": len(ic.Notifications)})
	return nil
}
