// Driver for C04: executes call trees (TLC-generated and seeded random ones) as real transactions on a real chain
// and records what the chain shows afterwards; spec/exec/ExecTrace.tla (abstract level: nested transactions) judges.
package c04exec

import (
	"errors"
	"fmt"
	"math/rand"
	"testing"

	"verifharness/internal/vh"
)

// Case is one tree as produced by TLC (ExecSim / ExecGen) or by the random generator.
type Case struct {
	Tree []Stmt `json:"tree"`
	Src  string `json:"src"`
	Pred *Pred  `json:"pred"`
}

func noteArr(ns []Note) []any {
	out := make([]any, 0, len(ns))
	for _, n := range ns {
		out = append(out, []any{n.C, n.N, n.From, n.To})
	}
	return out
}

func storeArr(o *Outcome) []any {
	out := []any{}
	for _, m := range o.Store {
		prs := []any{}
		for _, k := range sortedKeys(m) {
			var ki int
			fmt.Sscanf(k, "%x", &ki)
			prs = append(prs, []any{ki, m[k]})
		}
		out = append(out, prs)
	}
	return out
}

func obsJSON(o *Outcome) map[string]any {
	return map[string]any{"halt": o.Halt, "notes": noteArr(o.Notes), "store": storeArr(o), "bal": o.Bal,
		"xferlog": o.XferLog, "delivered": noteArr(o.Delivered), "fault": o.Fault, "dep": o.Dep}
}

// runBatch deploys the contracts of all scenarios (one block), then runs their transactions in blocks of the given
// sizes (in the given order) and records tx / block events.
func runBatch(t *testing.T, w *World, res *vh.Result, tr, steps *vh.Trace, scs []*Scenario, r *rand.Rand, traceEvery int) error {
	if err := w.Prepare(scs); err != nil {
		var hm *HaltedEffectMissing
		if errors.As(err, &hm) {
			res.Violate(map[string]any{"kind": "HaltedEffectMissing", "where": "setup-deploy"}, hm.What, nil)
		}
		return fmt.Errorf("prepare: %w", err)
	}
	for i := 0; i < len(scs); {
		n := 1 + r.Intn(4)
		if i+n > len(scs) {
			n = len(scs) - i
		}
		blk := scs[i : i+n]
		i += n
		before := w.Snapshot()
		var (
			paniced any
			berr    error
		)
		func() {
			defer func() { paniced = recover() }()
			berr = w.RunBlock(blk)
		}()
		if paniced != nil {
			res.Violate(map[string]any{"kind": "panic", "where": "AddBlock"},
				fmt.Sprintf("Go panic escaped block processing: %v", paniced), map[string]any{"trees": blk})
			return fmt.Errorf("panic in block processing: %v", paniced)
		}
		if berr != nil {
			return fmt.Errorf("block of scenario transactions refused: %w", berr)
		}
		var fees int64
		for pos, s := range blk {
			o := w.Observe(s)
			fees += o.Fee
			used := []bool{}
			for _, c := range s.comp.Contracts {
				used = append(used, c != nil)
			}
			tree := blockJSON(s.Root)
			tr.Emit(map[string]any{"event": "tx", "id": s.Name, "src": s.Src, "pos": pos, "tree": tree, "used": used,
				"fund": fund, "obs": obsJSON(&o)})
			res.Count([]any{tree, pos, o.Halt, storeArr(&o)})
			res.Traces++
			if res.Traces%97 == 1 {
				res.Sample(map[string]any{"id": s.Name, "src": s.Src, "tree": tree, "observed": obsJSON(&o)})
			}
			if s.Pred != nil { // Impl-level prediction of the TLC walk: disagreement is drift, not a verdict
				same := s.Pred.Halt == o.Halt
				if same && o.Halt {
					same = fmt.Sprint(s.Pred.Notes) == fmt.Sprint(noteArr(o.Notes))
				}
				if !same {
					res.AddDrift(map[string]any{"id": s.Name, "src": s.Src, "tree": tree, "predicted": s.Pred, "observed": obsJSON(&o)})
					res.Inc("drift", 1)
				}
			}
			if o.Halt {
				res.Inc("halted", 1)
			} else {
				res.Inc("faulted", 1)
			}
		}
		after := w.Snapshot()
		tr.Emit(map[string]any{"event": "block", "nset": after.Nset, "nset_disk": after.NsetDisk, "sink": after.Sink,
			"payer_delta": after.Payer - before.Payer, "fees": fees, "ntx": len(blk), "nextid_delta": after.NextID - before.NextID})
		// code -> spec: statement-level trace of the same transactions in a test VM (after the block has been judged,
		// on the post-block state: the step validator starts from whatever the test VM shows at the beginning)
		for _, s := range blk {
			if traceEvery > 0 && r.Intn(traceEvery) == 0 {
				if err := w.TraceRun(s, steps); err != nil {
					return fmt.Errorf("trace run: %w", err)
				}
				res.Inc("step_traces", 1)
			}
		}
	}
	return nil
}

func TestDriver(t *testing.T) {
	res := vh.NewResult()
	tr := vh.NewTrace("trace.ndjson")
	steps := vh.NewTrace("steps.ndjson")
	traceEvery := vh.EnvInt("VERIF_TRACE_EVERY", 3)
	var cases []Case
	if vh.InDir() != "" {
		if err := vh.ReadJSON("cases.json", &cases); err != nil {
			t.Logf("no cases: %v", err)
		}
	}
	r := vh.Rand(4)
	nr := vh.EnvInt("VERIF_RANDOM", 100)
	for i := 0; i < nr; i++ {
		cases = append(cases, Case{Tree: randomTree(r), Src: fmt.Sprintf("rnd-%d", i)})
	}
	batch := vh.EnvInt("VERIF_BATCH", 60)
	perWorld := vh.EnvInt("VERIF_PER_WORLD", 600)
	var w *World
	inWorld := 0
	for i := 0; i < len(cases); i += batch {
		if w == nil || inWorld >= perWorld {
			w = NewWorld(t)
			inWorld = 0
			sn := w.Snapshot()
			tr.Emit(map[string]any{"event": "world", "nset": sn.Nset, "sink": sn.Sink})
		}
		j := i + batch
		if j > len(cases) {
			j = len(cases)
		}
		var scs []*Scenario
		for k := i; k < j; k++ {
			scs = append(scs, &Scenario{Name: fmt.Sprintf("t%d", k), Root: cases[k].Tree, Src: cases[k].Src, Pred: cases[k].Pred})
		}
		if err := runBatch(t, w, res, tr, steps, scs, r, traceEvery); err != nil {
			// stop here, keep what was recorded: the runner judges the traces and reports "inconclusive" only if
			// nothing recorded so far is a violation
			t.Logf("driver stopped: %v", err)
			res.Stats["aborted"] = err.Error()
			break
		}
		inWorld += j - i
	}
	res.Inc("trees", len(cases))
	tr.Close()
	steps.Close()
	res.Inc("step_events", steps.N)
	if err := res.Write(); err != nil {
		t.Fatal(err)
	}
}
