package c04exec

import "math/rand"

// Seeded random trees over a larger universe than the exhaustive TLC configurations: depth of contract calls up
// to 4, three keys, all flag sets that matter for the wrap decision, native callbacks, nested TRY shapes.
type gen struct {
	r      *rand.Rand
	budget int
}

var flagChoices = []int{15, 15, 15, 15, 15, 15, 15, 15, 13, 13, 7, 5, 15, 11}

func (g *gen) leaf(inContract bool) Stmt {
	r := g.r
	if !inContract {
		switch r.Intn(12) {
		case 0:
			return Stmt{K: "throw"}
		case 1:
			return Stmt{K: "abort"}
		}
		return Stmt{K: "throw"}
	}
	switch k := r.Intn(40); {
	case k < 12:
		return Stmt{K: "put", Key: 1 + r.Intn(3), Val: 1 + r.Intn(3)}
	case k < 15:
		return Stmt{K: "del", Key: 1 + r.Intn(3)}
	case k < 22:
		return Stmt{K: "notify", N: 1 + r.Intn(3)}
	case k < 25:
		return Stmt{K: "nset", Val: 1000 + 10*r.Intn(4)}
	case k < 28:
		return Stmt{K: "nget", Key: 1 + r.Intn(3)}
	case k < 30:
		return Stmt{K: "xfer", Amt: 1 + r.Intn(3)}
	case k < 31:
		return Stmt{K: "deploy", D: 1 + r.Intn(2)}
	case k < 36:
		return Stmt{K: "throw"}
	case k < 38:
		return Stmt{K: "vmthrow"}
	case k < 39:
		return Stmt{K: "abort"}
	}
	return Stmt{K: "put", Key: 1, Val: 1 + r.Intn(3)}
}

// block generates a block executed by contract self (-1: entry script) at contract depth d.
func (g *gen) block(self, d, nest int, fin bool) []Stmt {
	r := g.r
	n := r.Intn(4)
	if self < 0 {
		n = 1 + r.Intn(2)
	}
	out := []Stmt{}
	for i := 0; i < n && g.budget > 0; i++ {
		g.budget--
		k := r.Intn(10)
		if fin && k >= 4 && r.Intn(4) != 0 {
			k = 0 // calls from FINALLY blocks are rare (they are only judged when the block is entered normally)
		}
		switch {
		case k >= 7 && d < 4:
			c := r.Intn(NC)
			out = append(out, Stmt{K: "call", C: c, Fl: flagChoices[r.Intn(len(flagChoices))], Body: g.blockFor(c, d+1)})
		case k >= 5 && nest < 3:
			s := Stmt{K: "try"}
			switch r.Intn(6) {
			case 0:
				s.Hf = true
			case 1, 2:
				s.Hc, s.Hf = true, true
			default:
				s.Hc = true
			}
			s.Body = g.block(self, d, nest+1, false)
			if s.Hc {
				s.Catch = g.block(self, d, nest+1, false)
			}
			if s.Hf {
				s.Fin = g.block(self, d, nest+1, true)
			}
			out = append(out, s)
		case k == 4 && nest < 3:
			out = append(out, Stmt{K: "sub", Body: g.block(self, d, nest+1, fin)})
		case k == 3 && self >= 0 && d < 4 && r.Intn(2) == 0:
			c := r.Intn(NC)
			out = append(out, Stmt{K: "pay", C: c, Amt: 1 + r.Intn(3), Body: g.blockFor(c, d+1)})
		default:
			s := g.leaf(self >= 0)
			if self < 0 && i == 0 { // an entry script that only throws is not interesting
				c := r.Intn(NC)
				s = Stmt{K: "call", C: c, Fl: 15, Body: g.blockFor(c, d+1)}
			}
			out = append(out, s)
			if s.K == "throw" || s.K == "vmthrow" || s.K == "abort" {
				return out
			}
		}
	}
	return out
}

func (g *gen) blockFor(c, d int) []Stmt { return g.block(c, d, 0, false) }

func randomTree(r *rand.Rand) []Stmt {
	g := &gen{r: r, budget: 10 + r.Intn(25)}
	return g.block(-1, 0, 0, false)
}
