package c04exec

import (
	"encoding/json"
	"fmt"

	"github.com/nspcc-dev/neo-go/pkg/core/interop/interopnames"
	"github.com/nspcc-dev/neo-go/pkg/core/native/nativehashes"
	"github.com/nspcc-dev/neo-go/pkg/core/state"
	"github.com/nspcc-dev/neo-go/pkg/crypto/hash"
	"github.com/nspcc-dev/neo-go/pkg/neotest"
	"github.com/nspcc-dev/neo-go/pkg/smartcontract"
	"github.com/nspcc-dev/neo-go/pkg/smartcontract/manifest"
	"github.com/nspcc-dev/neo-go/pkg/smartcontract/nef"
	"github.com/nspcc-dev/neo-go/pkg/util"
	"github.com/nspcc-dev/neo-go/pkg/vm/opcode"
)

// NC is the number of scenario contracts of one scenario (contract indices 0..NC-1).
const NC = 3

// Stmt is one statement of the call-tree language of spec/exec/Exec.tla (same field names as the TLA+ records).
//
//	put key val | del key | notify n | throw | vmthrow | abort | nset val | nget key | xfer amt | deploy d
//	call c fl body | try body catch fin hc hf | sub body | pay c body
type Stmt struct {
	K     string `json:"k"`
	Key   int    `json:"key"`
	Val   int    `json:"val"`
	N     int    `json:"n"`
	C     int    `json:"c"`
	Fl    int    `json:"fl"`
	Amt   int    `json:"amt"`
	D     int    `json:"d"`
	Hc    bool   `json:"hc"`
	Hf    bool   `json:"hf"`
	Body  []Stmt `json:"body"`
	Catch []Stmt `json:"catch"`
	Fin   []Stmt `json:"fin"`
}

func blockJSON(b []Stmt) []any {
	r := make([]any, 0, len(b))
	for i := range b {
		r = append(r, b[i].JSON())
	}
	return r
}

// JSON returns the record exactly as the TLA+ modules expect it (only the fields of the kind).
func (s *Stmt) JSON() map[string]any {
	m := map[string]any{"k": s.K}
	switch s.K {
	case "put":
		m["key"], m["val"] = s.Key, s.Val
	case "del", "nget":
		m["key"] = s.Key
	case "notify":
		m["n"] = s.N
	case "nset":
		m["val"] = s.Val
	case "xfer":
		m["amt"] = s.Amt
	case "deploy":
		m["d"] = s.D
	case "call":
		m["c"], m["fl"], m["body"] = s.C, s.Fl, blockJSON(s.Body)
	case "pay":
		m["c"], m["amt"], m["body"] = s.C, s.Amt, blockJSON(s.Body)
	case "sub":
		m["body"] = blockJSON(s.Body)
	case "try":
		m["hc"], m["hf"] = s.Hc, s.Hf
		m["body"], m["catch"], m["fin"] = blockJSON(s.Body), blockJSON(s.Catch), blockJSON(s.Fin)
	}
	return m
}

// Mark identifies the first instruction of a statement (or a block end) in a compiled script: the VM hook
// turns the instruction stream into the statement-level trace that ExecTrace.tla replays.
type Mark struct {
	Ev   string // statement kind, or "end" (ENDTRY / ENDFINALLY / RET closing the block Path), or "at" (first instruction of a CATCH / FINALLY block)
	Path []any  // the block the statement belongs to, as ExecImpl.tla names it: a sequence of <<index, branch>> pairs
	Idx  int    // 1-based index of the statement in its block (0 for "end" / "at")
	S    *Stmt
}

func sub(path []any, idx int, branch string) []any {
	p := make([]any, 0, len(path)+1)
	p = append(p, path...)
	return append(p, []any{idx, branch})
}

type method struct {
	name string
	off  int
}

type cbuild struct {
	a       asm
	methods []method
	pays    []payEntry
	marks   map[int]Mark
	queue   []func()
	used    bool
}

type payEntry struct {
	code  int
	label int
}

// Compiled is a scenario ready for deployment.
type Compiled struct {
	Contracts [NC]*neotest.Contract // nil when the tree never enters the contract
	Entry     func(h [NC]util.Uint160, sink util.Uint160) []byte
	Marks     [NC]map[int]Mark
	EntryMark map[int]Mark
	Children  map[int]util.Uint160 // child id -> hash of the contract a deploy statement creates
	entry     *cbuild
}

type compiler struct {
	cb       [NC]*cbuild
	entry    *cbuild
	nmeth    int
	npay     int
	name     string
	payer    util.Uint160
	children map[int]*childC
}

// childC is a tiny contract deployed by a deploy statement: one method m() returning 1.
type childC struct {
	nef, manifest []byte
	hash          util.Uint160
}

func (c *compiler) child(d int) *childC {
	if ch, ok := c.children[d]; ok {
		return ch
	}
	ne, err := nef.NewFile([]byte{byte(opcode.PUSH1), byte(opcode.RET)})
	if err != nil {
		panic(err)
	}
	m := manifest.NewManifest(fmt.Sprintf("%s-child%d", c.name, d))
	m.ABI.Methods = []manifest.Method{{Name: "m", Offset: 0, ReturnType: smartcontract.IntegerType, Parameters: []manifest.Parameter{}}}
	nb, err := ne.Bytes()
	if err != nil {
		panic(err)
	}
	mb, err := json.Marshal(m)
	if err != nil {
		panic(err)
	}
	ch := &childC{nef: nb, manifest: mb, hash: state.CreateContractHash(c.payer, ne.Checksum, m.Name)}
	c.children[d] = ch
	return ch
}

const (
	hSink  = NC     // index of the sink account in the hash table H
	evName = "ev"   // the only event name
	fund   = 100000 // GAS fractions given to every scenario contract
)

// loadH pushes the hash table (static field 0 of every script context).
func loadH(a *asm) { a.op(opcode.LDSFLD0) }

func pushHash(a *asm, idx int) {
	loadH(a)
	a.pushInt(int64(idx))
	a.op(opcode.PICKITEM)
}

func (c *compiler) block(cb *cbuild, self int, b []Stmt, path []any) {
	for i := range b {
		c.stmt(cb, self, &b[i], path, i+1)
	}
}

func (c *compiler) stmt(cb *cbuild, self int, s *Stmt, path []any, idx int) {
	a := &cb.a
	cb.marks[a.pos()] = Mark{Ev: s.K, Path: path, Idx: idx, S: s}
	switch s.K {
	case "put":
		a.pushBytes([]byte{byte(s.Val)})
		a.pushBytes([]byte{byte(s.Key)})
		a.syscall(interopnames.SystemStorageGetContext)
		a.syscall(interopnames.SystemStoragePut)
	case "del":
		a.pushBytes([]byte{byte(s.Key)})
		a.syscall(interopnames.SystemStorageGetContext)
		a.syscall(interopnames.SystemStorageDelete)
	case "notify":
		// the event carries a COMPOUND argument, [n], to which the contract keeps a reference and which it overwrites
		// right after emitting the event: an event says what it said when it was emitted
		a.pushInt(int64(s.N))
		a.op(opcode.PUSH1, opcode.PACK, opcode.DUP)
		a.op(opcode.PUSH1, opcode.PACK)
		a.pushString(evName)
		a.syscall(interopnames.SystemRuntimeNotify)
		a.op(opcode.PUSH0)
		a.pushInt(99)
		a.op(opcode.SETITEM)
	case "throw":
		a.pushString("x")
		a.op(opcode.THROW)
	case "vmthrow": // a VM-raised catchable exception: PICKITEM out of range
		a.op(opcode.NEWARRAY0, opcode.PUSH1, opcode.PICKITEM, opcode.DROP)
	case "abort":
		a.op(opcode.ABORT)
	case "nset":
		a.pushInt(int64(s.Val))
		a.op(opcode.PUSH1, opcode.PACK)
		a.pushInt(15)
		a.pushString("setFeePerByte")
		a.pushBytes(nativehashes.PolicyContract.BytesBE())
		a.syscall(interopnames.SystemContractCall)
		a.op(opcode.DROP)
	case "nget":
		a.op(opcode.NEWARRAY0)
		a.pushInt(15)
		a.pushString("getFeePerByte")
		a.pushBytes(nativehashes.PolicyContract.BytesBE())
		a.syscall(interopnames.SystemContractCall)
		a.pushBytes([]byte{byte(s.Key)})
		a.syscall(interopnames.SystemStorageGetContext)
		a.syscall(interopnames.SystemStoragePut)
	case "xfer":
		a.op(opcode.PUSHNULL)
		a.pushInt(int64(s.Amt))
		pushHash(a, hSink)
		pushHash(a, self)
		a.op(opcode.PUSH4, opcode.PACK)
		a.pushInt(15)
		a.pushString("transfer")
		a.pushBytes(nativehashes.GasToken.BytesBE())
		a.syscall(interopnames.SystemContractCall)
		a.op(opcode.DROP)
	case "deploy": // ContractManagement.deploy(nef, manifest) of a tiny child contract
		ch := c.child(s.D)
		a.pushBytes(ch.manifest)
		a.pushBytes(ch.nef)
		a.op(opcode.PUSH2, opcode.PACK)
		a.pushInt(15)
		a.pushString("deploy")
		a.pushBytes(nativehashes.ContractManagement.BytesBE())
		a.syscall(interopnames.SystemContractCall)
		a.op(opcode.DROP)
	case "pay":
		c.npay++
		code := c.npay // data = [H, code]: the callback dispatches on code
		a.pushInt(int64(code))
		loadH(a)
		a.op(opcode.PUSH2, opcode.PACK)
		a.pushInt(int64(s.Amt))
		pushHash(a, s.C)
		pushHash(a, self)
		a.op(opcode.PUSH4, opcode.PACK)
		a.pushInt(15)
		a.pushString("transfer")
		a.pushBytes(nativehashes.GasToken.BytesBE())
		a.syscall(interopnames.SystemContractCall)
		a.op(opcode.DROP)
		t := c.cb[s.C]
		t.used = true
		l := t.a.newLabel()
		t.pays = append(t.pays, payEntry{code: code, label: l})
		body, tc, p := s.Body, s.C, sub(path, idx, "body")
		t.queue = append(t.queue, func() {
			t.a.bind(l)
			c.block(t, tc, body, p)
			t.marks[t.a.pos()] = Mark{Ev: "end", Path: p}
			t.a.op(opcode.RET)
		})
	case "call":
		c.nmeth++
		name := fmt.Sprintf("f%d", c.nmeth)
		loadH(a)
		a.op(opcode.PUSH1, opcode.PACK)
		a.pushInt(int64(s.Fl))
		a.pushString(name)
		pushHash(a, s.C)
		a.syscall(interopnames.SystemContractCall)
		a.op(opcode.DROP)
		t := c.cb[s.C]
		t.used = true
		body, tc, p := s.Body, s.C, sub(path, idx, "body")
		t.queue = append(t.queue, func() {
			t.methods = append(t.methods, method{name: name, off: t.a.pos()})
			t.a.op(opcode.INITSLOT)
			t.a.raw(0, 1)
			t.a.op(opcode.INITSSLOT)
			t.a.raw(1)
			t.a.op(opcode.LDARG0, opcode.STSFLD0)
			c.block(t, tc, body, p)
			t.marks[t.a.pos()] = Mark{Ev: "end", Path: p}
			t.a.op(opcode.PUSH1, opcode.RET)
		})
	case "sub":
		l := a.newLabel()
		a.jump(opcode.CALLL, l)
		body, p := s.Body, sub(path, idx, "body")
		cb.queue = append(cb.queue, func() {
			cb.a.bind(l)
			c.block(cb, self, body, p)
			cb.marks[cb.a.pos()] = Mark{Ev: "end", Path: p}
			cb.a.op(opcode.RET)
		})
	case "try":
		lc, lf, le := -1, -1, a.newLabel()
		if s.Hc {
			lc = a.newLabel()
		}
		if s.Hf {
			lf = a.newLabel()
		}
		if !s.Hc && !s.Hf {
			panic("try without catch and finally")
		}
		a.try(lc, lf)
		c.block(cb, self, s.Body, sub(path, idx, "body"))
		cb.marks[a.pos()] = Mark{Ev: "end", Path: sub(path, idx, "body")}
		a.jump(opcode.ENDTRYL, le)
		if s.Hc {
			a.bind(lc)
			cb.marks[a.pos()] = Mark{Ev: "at", Path: sub(path, idx, "catch")}
			a.op(opcode.DROP)
			c.block(cb, self, s.Catch, sub(path, idx, "catch"))
			cb.marks[a.pos()] = Mark{Ev: "end", Path: sub(path, idx, "catch")}
			a.jump(opcode.ENDTRYL, le)
		}
		if s.Hf {
			a.bind(lf)
			cb.marks[a.pos()] = Mark{Ev: "at", Path: sub(path, idx, "fin")}
			a.op(opcode.NOP)
			c.block(cb, self, s.Fin, sub(path, idx, "fin"))
			cb.marks[a.pos()] = Mark{Ev: "end", Path: sub(path, idx, "fin")}
			a.op(opcode.ENDFINALLY)
		}
		a.bind(le)
	default:
		panic("unknown statement kind " + s.K)
	}
}

func drain(cb *cbuild) bool {
	did := false
	for len(cb.queue) > 0 {
		f := cb.queue[0]
		cb.queue = cb.queue[1:]
		f()
		did = true
	}
	return did
}

// Compile turns a tree into up to NC contracts and an entry script. name must be unique per scenario
// (it becomes part of the contract names and therefore of their hashes); sender deploys.
func Compile(root []Stmt, name string, sender, payer util.Uint160) (*Compiled, error) {
	c := &compiler{name: name, payer: payer, children: map[int]*childC{}}
	for i := range c.cb {
		c.cb[i] = &cbuild{marks: map[int]Mark{}}
	}
	c.entry = &cbuild{marks: map[int]Mark{}}
	// the entry script: the prologue (hash table) is prepended by Entry(), so offsets of marks are shifted there
	c.block(c.entry, -1, root, []any{})
	c.entry.marks[c.entry.a.pos()] = Mark{Ev: "end", Path: []any{}}
	c.entry.a.op(opcode.RET)
	for again := true; again; {
		again = drain(c.entry)
		for i := range c.cb {
			if drain(c.cb[i]) {
				again = true
			}
		}
	}
	out := &Compiled{entry: c.entry, Children: map[int]util.Uint160{}}
	for d, ch := range c.children {
		out.Children[d] = ch.hash
	}
	for i, cb := range c.cb {
		if !cb.used {
			continue
		}
		// onNEP17Payment(from, amount, data): data = [hash table, code]; dispatch on code
		a := &cb.a
		hoff := a.pos()
		a.op(opcode.INITSLOT)
		a.raw(0, 3)
		a.op(opcode.INITSSLOT)
		a.raw(1)
		cont := a.newLabel()
		a.op(opcode.LDARG2, opcode.ISNULL)
		a.jump(opcode.JMPIFNOTL, cont)
		a.op(opcode.RET) // a plain funding transfer
		a.bind(cont)
		a.op(opcode.LDARG2, opcode.PUSH0, opcode.PICKITEM, opcode.STSFLD0)
		for _, p := range cb.pays {
			a.op(opcode.LDARG2, opcode.PUSH1, opcode.PICKITEM)
			a.pushInt(int64(p.code))
			a.op(opcode.NUMEQUAL)
			a.jump(opcode.JMPIFL, p.label)
		}
		a.op(opcode.RET)
		script := a.bytes()
		ne, err := nef.NewFile(script)
		if err != nil {
			return nil, err
		}
		m := manifest.NewManifest(fmt.Sprintf("%s-c%d", name, i))
		for _, me := range cb.methods {
			m.ABI.Methods = append(m.ABI.Methods, manifest.Method{
				Name: me.name, Offset: me.off, ReturnType: smartcontract.IntegerType,
				Parameters: []manifest.Parameter{manifest.NewParameter("h", smartcontract.ArrayType)},
			})
		}
		m.ABI.Methods = append(m.ABI.Methods, manifest.Method{
			Name: manifest.MethodOnNEP17Payment, Offset: hoff, ReturnType: smartcontract.VoidType,
			Parameters: []manifest.Parameter{
				manifest.NewParameter("from", smartcontract.Hash160Type),
				manifest.NewParameter("amount", smartcontract.IntegerType),
				manifest.NewParameter("data", smartcontract.AnyType),
			},
		})
		m.ABI.Events = []manifest.Event{{Name: evName, Parameters: []manifest.Parameter{manifest.NewParameter("n", smartcontract.ArrayType)}}}
		m.Permissions = []manifest.Permission{*manifest.NewPermission(manifest.PermissionWildcard)}
		out.Contracts[i] = &neotest.Contract{
			Hash:     state.CreateContractHash(sender, ne.Checksum, m.Name),
			NEF:      ne,
			Manifest: m,
		}
		out.Marks[i] = cb.marks
	}
	body := c.entry.a.bytes()
	out.Entry = func(h [NC]util.Uint160, sink util.Uint160) []byte {
		var p asm
		p.op(opcode.INITSSLOT)
		p.raw(1)
		p.pushBytes(sink.BytesBE())
		for i := NC - 1; i >= 0; i-- {
			p.pushBytes(h[i].BytesBE())
		}
		p.pushInt(NC + 1)
		p.op(opcode.PACK, opcode.STSFLD0)
		pre := p.bytes()
		out.EntryMark = map[int]Mark{}
		for off, mk := range c.entry.marks {
			out.EntryMark[off+len(pre)] = mk
		}
		return append(pre, body...)
	}
	return out, nil
}

// EntryHash is the script hash of an entry script.
func EntryHash(script []byte) util.Uint160 { return hash.Hash160(script) }
