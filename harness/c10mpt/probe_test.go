package c10mpt

import (
	"fmt"
	"testing"

	"github.com/nspcc-dev/neo-go/pkg/core/mpt"
	"github.com/nspcc-dev/neo-go/pkg/core/storage"
)

func seekAll(tr *mpt.Trie, st *storage.MemCachedStore, prefix, start string, back bool) []string {
	ts := mpt.NewTrieStore(tr.StateRoot(), mpt.ModeAll, st)
	var res []string
	ts.Seek(storage.SeekRange{Prefix: append([]byte{byte(storage.STStorage)}, prefix...), Start: []byte(start), Backwards: back}, func(k, v []byte) bool {
		res = append(res, fmt.Sprintf("%x", k[1:]))
		return true
	})
	return res
}

func TestProbe3(t *testing.T) {
	// A: residual path of the start node vs Start compared with an inverted condition (trie_store.go:90)
	st := storage.NewMemCachedStore(storage.NewMemoryStore())
	tr := mpt.NewTrie(nil, mpt.ModeAll, st)
	_ = tr.Put([]byte{0xAA, 0x00, 0x00}, []byte("v"))
	_ = tr.Put([]byte{0xBB}, []byte("w"))
	tr.Flush(0)
	fmt.Println("A fwd  prefix=AA start=01 (expect [])        ->", seekAll(tr, st, "\xAA", "\x01", false))
	fmt.Println("A back prefix=AA start=01 (expect [aa0000])  ->", seekAll(tr, st, "\xAA", "\x01", true))
	fmt.Println("A fwd  prefix=AA start=0000 (expect [aa0000])->", seekAll(tr, st, "\xAA", "\x00\x00", false))
	// B: the key equal to the prefix is a leaf and Start is not empty, backwards
	st = storage.NewMemCachedStore(storage.NewMemoryStore())
	tr = mpt.NewTrie(nil, mpt.ModeAll, st)
	_ = tr.Put([]byte{0xAA}, []byte("v"))
	_ = tr.Put([]byte{0xBB}, []byte("w"))
	tr.Flush(0)
	fmt.Println("B back prefix=AA start=01 (expect [aa])      ->", seekAll(tr, st, "\xAA", "\x01", true))
	// C: a read after PutBatch corrupts the in-memory trie (append on a key slice sharing its backing array)
	st = storage.NewMemCachedStore(storage.NewMemoryStore())
	tr = mpt.NewTrie(nil, mpt.ModeAll, st)
	k1, k2, k3 := []byte{0x55, 0x11}, []byte{0x55, 0xf0}, []byte{0x55, 0x00, 0x12}
	_ = tr.Put(k1, []byte("a"))
	_, err := tr.PutBatch(mpt.MapToMPTBatch(map[string][]byte{"\x00" + string(k2): []byte("b"), "\x00" + string(k3): []byte("c")}))
	_, e0 := tr.Get(k2)
	_, e1 := tr.Get(k1)
	_, e2 := tr.Get(k2)
	fmt.Println("C batch err", err, "Get(k2) before reading k1:", e0, " after reading k1:", e2, e1)
	fr := mpt.NewTrie(nil, mpt.ModeAll, storage.NewMemCachedStore(storage.NewMemoryStore()))
	_ = fr.Put(k1, []byte("a"))
	_ = fr.Put(k2, []byte("b"))
	_ = fr.Put(k3, []byte("c"))
	fmt.Println("C root equal before further mutation:", tr.StateRoot() == fr.StateRoot())
	_ = tr.Put([]byte{0x55, 0xf0, 0x01}, []byte("d"))
	_ = fr.Put([]byte{0x55, 0xf0, 0x01}, []byte("d"))
	fmt.Println("C root equal after Put(55f001):", tr.StateRoot() == fr.StateRoot())
}
