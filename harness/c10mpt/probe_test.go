package c10mpt

import (
	"fmt"
	"testing"

	"github.com/nspcc-dev/neo-go/pkg/core/mpt"
	"github.com/nspcc-dev/neo-go/pkg/core/storage"
)

func TestProbe(t *testing.T) {
	st := storage.NewMemCachedStore(storage.NewMemoryStore())
	tr := mpt.NewTrie(nil, mpt.ModeAll, st)
	put := func(k string, v string) {
		if err := tr.Put([]byte(k), []byte(v)); err != nil {
			t.Fatal(err)
		}
	}
	put("X", "vx")
	put("X\x05\x01", "v0501")
	put("X\x70", "v70")
	put("Y\x12\x34", "a")
	put("Y\x12\x35", "b")
	put("Y\x20", "c")
	tr.Flush(0)
	seek := func(prefix, start string, back bool) {
		ts := mpt.NewTrieStore(tr.StateRoot(), mpt.ModeAll, st)
		var res []string
		ts.Seek(storage.SeekRange{Prefix: append([]byte{byte(storage.STStorage)}, prefix...), Start: []byte(start), Backwards: back}, func(k, v []byte) bool {
			res = append(res, fmt.Sprintf("%x=%s", k[1:], v))
			return true
		})
		fmt.Printf("seek prefix=%x start=%x back=%v -> %v\n", prefix, start, back, res)
	}
	seek("X", "\x05\x01", true)
	seek("X", "\x15\x01", true)
	seek("X", "\x05\x01", false)
	seek("Y", "\x13\x00", true)
	seek("Y", "\x13\x00", false)
	seek("Y", "\x11\x00", true)
	seek("Y", "\x11\x00", false)
}
