// Driver for C10: replays TLC behaviours of MPTSim and seeded random histories (larger universes: long shared
// prefixes, prefix chains, maximum-length keys, empty and long values) on the real mpt.Trie in all three trie
// modes and records, for every step, what the real objects answer (root, decoded node structure, Get, Find,
// TrieStore.Seek, GetProof/VerifyProof under tampering) for validation by MPTTrace.tla.
package c10mpt

import (
	"bytes"
	"crypto/sha256"
	"encoding/hex"
	"encoding/json"
	"errors"
	"fmt"
	"math/rand"
	"sort"
	"testing"

	"verifharness/internal/vh"

	"github.com/nspcc-dev/neo-go/pkg/core/mpt"
	"github.com/nspcc-dev/neo-go/pkg/core/storage"
	"github.com/nspcc-dev/neo-go/pkg/util"
)

// ---------------------------------------------------------------- TLC history format

type CanonNode struct {
	T string       `json:"t"`
	V string       `json:"v"`
	K []int        `json:"k"`
	N *CanonNode   `json:"n"`
	C []*CanonNode `json:"c"`
}

type KVStep struct {
	K []int  `json:"k"`
	V string `json:"v"`
}

type Step struct {
	Op      string     `json:"op"`
	K       []int      `json:"k"`
	V       string     `json:"v"`
	B       []KVStep   `json:"b"`
	N       int        `json:"n"`
	Canon   *CanonNode `json:"canon"`
	Prefix  []int      `json:"prefix"`
	From    []int      `json:"from"`
	Hasfrom bool       `json:"hasfrom"`
	Max     int        `json:"max"`
	Start   []int      `json:"start"`
	Back    bool       `json:"back"`
	Other   []int      `json:"other"`
	Keys    [][]int    `json:"keys"`
}

const nilMark = "<nil>"

// ---------------------------------------------------------------- operations (shared by both sources)

type kv struct {
	k   []byte
	v   []byte
	del bool
}

type op struct {
	kind    string // put del batch flush persist collapse reload dump tamper find seek
	k, v    []byte
	b       []kv
	n       int
	canon   *CanonNode
	prefix  []byte
	from    []byte // nil = no from
	max     int
	start   []byte
	back    bool
	other   []byte
	hasSpec bool
}

func nibbles(b []byte) []int {
	r := make([]int, 0, 2*len(b))
	for _, x := range b {
		r = append(r, int(x>>4), int(x&0x0f))
	}
	return r
}

func fromNibbles(n []int) []byte {
	r := make([]byte, len(n)/2)
	for i := range r {
		r[i] = byte(n[2*i]<<4 | n[2*i+1])
	}
	return r
}

func hx(b []byte) string { return hex.EncodeToString(b) }

func dsha(b []byte) [32]byte {
	a := sha256.Sum256(b)
	return sha256.Sum256(a[:])
}

// ---------------------------------------------------------------- independent decoding of serialized nodes

type rawNode struct {
	typ      byte
	children [17][]byte // nil = empty
	key      []byte
	next     []byte
	value    []byte
}

func readVar(b []byte, p int) (int, int, bool) {
	if p >= len(b) {
		return 0, p, false
	}
	switch b[p] {
	case 0xfd:
		if p+3 > len(b) {
			return 0, p, false
		}
		return int(b[p+1]) | int(b[p+2])<<8, p + 3, true
	case 0xfe:
		if p+5 > len(b) {
			return 0, p, false
		}
		return int(b[p+1]) | int(b[p+2])<<8 | int(b[p+3])<<16 | int(b[p+4])<<24, p + 5, true
	case 0xff:
		return 0, p, false
	default:
		return int(b[p]), p + 1, true
	}
}

func readChild(b []byte, p int) ([]byte, int, bool) {
	if p >= len(b) {
		return nil, p, false
	}
	switch b[p] {
	case 0x04:
		return nil, p + 1, true
	case 0x03:
		if p+33 > len(b) {
			return nil, p, false
		}
		return b[p+1 : p+33], p + 33, true
	}
	return nil, p, false
}

func decodeNode(b []byte) (*rawNode, bool) {
	if len(b) == 0 {
		return nil, false
	}
	n := &rawNode{typ: b[0]}
	p := 1
	ok := true
	switch b[0] {
	case 0x00:
		for i := 0; i < 17; i++ {
			n.children[i], p, ok = readChild(b, p)
			if !ok {
				return nil, false
			}
		}
	case 0x01:
		var l int
		l, p, ok = readVar(b, p)
		if !ok || p+l > len(b) {
			return nil, false
		}
		n.key = b[p : p+l]
		p += l
		n.next, p, ok = readChild(b, p)
		if !ok || n.next == nil {
			return nil, false
		}
	case 0x02:
		var l int
		l, p, ok = readVar(b, p)
		if !ok || p+l > len(b) {
			return nil, false
		}
		n.value = b[p : p+l]
		p += l
	default:
		return nil, false
	}
	if p != len(b) {
		return nil, false
	}
	return n, true
}

var emptyJSON = map[string]any{"t": "E"}

// expand rebuilds the structure reachable from hash h through the supplied serialized nodes (keyed by the
// double SHA-256 of their bytes, computed here with the standard library).
func expand(h []byte, nodes map[[32]byte][]byte, depth int) map[string]any {
	var key [32]byte
	copy(key[:], h)
	b, ok := nodes[key]
	if !ok || depth > 300 {
		return map[string]any{"t": "H", "h": hx(h)}
	}
	n, ok := decodeNode(b)
	if !ok {
		return map[string]any{"t": "?", "h": hx(h)}
	}
	switch n.typ {
	case 0x00:
		c := make([]any, 17)
		for i := range c {
			if n.children[i] == nil {
				c[i] = emptyJSON
			} else {
				c[i] = expand(n.children[i], nodes, depth+1)
			}
		}
		return map[string]any{"t": "B", "c": c}
	case 0x01:
		k := make([]int, len(n.key))
		for i, x := range n.key {
			k[i] = int(x)
		}
		return map[string]any{"t": "X", "k": k, "n": expand(n.next, nodes, depth+1)}
	default:
		return map[string]any{"t": "L", "v": hx(n.value)}
	}
}

// ---------------------------------------------------------------- spec -> code: real nodes from the printed canon

func realNode(c *CanonNode) mpt.Node {
	switch c.T {
	case "L":
		return mpt.NewLeafNode([]byte(c.V))
	case "X":
		k := make([]byte, len(c.K))
		for i, x := range c.K {
			k[i] = byte(x)
		}
		return mpt.NewExtensionNode(k, realNode(c.N))
	case "B":
		b := mpt.NewBranchNode()
		for i := range b.Children {
			if c.C[i].T != "E" {
				b.Children[i] = realNode(c.C[i])
			}
		}
		return b
	}
	return mpt.EmptyNode{}
}

func specRoot(c *CanonNode) string {
	if c == nil || c.T == "E" {
		return hx(util.Uint256{}.BytesBE())
	}
	return hx(realNode(c).Hash().BytesBE())
}

// ---------------------------------------------------------------- session on the real trie

type session struct {
	mode        mpt.TrieMode
	store       *storage.MemCachedStore
	tr          *mpt.Trie
	content     map[string][]byte
	flushed     map[string][]byte
	flushedRoot util.Uint256
	dirty       bool
	idx         uint32
	universe    [][]byte
	rnd         *rand.Rand
	res         *vh.Result
	tr8         *vh.Trace
	src         string
	done        []any
	dead        bool
}

func copyMap(m map[string][]byte) map[string][]byte {
	r := make(map[string][]byte, len(m))
	for k, v := range m {
		r[k] = v
	}
	return r
}

func sortedKeys(m map[string][]byte) []string {
	ks := make([]string, 0, len(m))
	for k := range m {
		ks = append(ks, k)
	}
	sort.Strings(ks)
	return ks
}

func rootHex(t *mpt.Trie) string { return hx(t.StateRoot().BytesBE()) }

// freshRoot builds a new trie (ModeAll, new store) from the expected content; the construction order varies.
func (s *session) freshRoot() string {
	t := mpt.NewTrie(nil, mpt.ModeAll, storage.NewMemCachedStore(storage.NewMemoryStore()))
	ks := sortedKeys(s.content)
	switch s.rnd.Intn(3) {
	case 0:
		s.rnd.Shuffle(len(ks), func(i, j int) { ks[i], ks[j] = ks[j], ks[i] })
		fallthrough
	case 1:
		for _, k := range ks {
			if err := t.Put([]byte(k), s.content[k]); err != nil {
				panic(fmt.Sprintf("fresh trie Put: %v", err))
			}
		}
	default:
		m := map[string][]byte{}
		for _, k := range ks {
			m["\x00"+k] = s.content[k]
		}
		if _, err := t.PutBatch(mpt.MapToMPTBatch(m)); err != nil {
			panic(fmt.Sprintf("fresh trie PutBatch: %v", err))
		}
	}
	return rootHex(t)
}

func (s *session) readMode() mpt.TrieMode { return s.mode &^ mpt.ModeGCFlag }

// copyTrie is what stateroot.Module does for reads: a new Trie over the same store rooted at the current hash.
func (s *session) copyTrie() *mpt.Trie {
	r := s.tr.StateRoot()
	if r.Equals(util.Uint256{}) {
		return mpt.NewTrie(nil, s.readMode(), s.store)
	}
	return mpt.NewTrie(mpt.NewHashNode(r), s.readMode(), s.store)
}

func (s *session) violate(kind, opname, what string) {
	s.res.Violate(map[string]any{"kind": kind, "op": opname, "mode": modeName(s.mode)}, what,
		map[string]any{"src": s.src, "mode": modeName(s.mode), "ops": s.done})
}

func modeName(m mpt.TrieMode) string {
	switch m {
	case mpt.ModeAll:
		return "all"
	case mpt.ModeLatest:
		return "latest"
	case mpt.ModeGC:
		return "gc"
	}
	return "?"
}

func (s *session) flush() {
	s.tr.Flush(s.idx)
	s.idx++
	s.flushed = copyMap(s.content)
	s.flushedRoot = s.tr.StateRoot()
	s.dirty = false
}

func (s *session) emitFlush() {
	s.flush()
	s.tr8.Emit(map[string]any{"event": "flush", "root": rootHex(s.tr), "fresh": s.freshRoot(), "specroot": "", "implicit": true})
}

// dumpOf observes a trie completely: Get of every universe key, proof of every expected key (verified by the
// real VerifyProof), and the structure decoded from the proof nodes by hash from the root.
func (s *session) dumpOf(t *mpt.Trie, on string) map[string]any {
	root := t.StateRoot()
	gets := []any{}
	for _, k := range s.universe {
		v, err := t.Get(k)
		gets = append(gets, map[string]any{"k": nibbles(k), "found": err == nil, "v": hx(v)})
	}
	if on == "copy" { // the same reads through the storage.Store facade used by historic invocations
		ts := mpt.NewTrieStore(root, s.readMode(), s.store)
		for _, k := range s.universe {
			v, err := ts.Get(append([]byte{byte(storage.STStorage)}, k...))
			gets = append(gets, map[string]any{"k": nibbles(k), "found": err == nil, "v": hx(v)})
		}
	}
	nodes := map[[32]byte][]byte{}
	proofs := []any{}
	for _, ks := range sortedKeys(s.content) {
		k := []byte(ks)
		p, err := t.GetProof(k)
		for _, nb := range p {
			nodes[dsha(nb)] = nb
		}
		ok := false
		var v []byte
		if err == nil {
			v, ok = mpt.VerifyProof(root, k, p)
		}
		proofs = append(proofs, map[string]any{"k": nibbles(k), "ok": ok, "v": hx(v)})
	}
	var tree map[string]any
	if root.Equals(util.Uint256{}) {
		tree = emptyJSON
	} else {
		tree = expand(root.BytesBE(), nodes, 0)
	}
	// the root must not move because of reads
	ev := map[string]any{"event": "dump", "on": on, "tree": tree, "gets": gets, "proofs": proofs,
		"root": hx(t.StateRoot().BytesBE()), "fresh": s.freshRoot(), "specroot": ""}
	if d := jsonDepth(tree); d > 100 {
		// the JSON reader of the judge nests at most 255 levels: very deep structures are judged through root, reads and
		// proofs only (the root of a fresh trie with the same content is the same statement about the structure)
		delete(ev, "tree")
		ev["treedepth"] = d
	}
	return ev
}

func jsonDepth(v any) int {
	switch x := v.(type) {
	case map[string]any:
		m := 0
		for _, e := range x {
			m = max(m, jsonDepth(e))
		}
		return m + 1
	case []any:
		m := 0
		for _, e := range x {
			m = max(m, jsonDepth(e))
		}
		return m + 1
	}
	return 0
}

type tamperRes struct {
	Fam string `json:"fam"`
	Ok  bool   `json:"ok"`
	V   string `json:"v"`
}

func cloneProof(p [][]byte) [][]byte {
	r := make([][]byte, len(p))
	for i := range p {
		r[i] = bytes.Clone(p[i])
	}
	return r
}

func (s *session) tamper(k, other []byte) map[string]any {
	root := s.tr.StateRoot()
	honest, herr := s.tr.GetProof(k)
	var out []tamperRes
	try := func(fam string, p [][]byte) {
		v, ok := mpt.VerifyProof(root, k, p)
		out = append(out, tamperRes{fam, ok, hx(v)})
		s.res.Count([]any{"tamper", fam, ok})
	}
	hv, hok := []byte(nil), false
	if herr == nil {
		hv, hok = mpt.VerifyProof(root, k, honest)
	}
	// a second, consistent trie in which k holds another value (another version of the state)
	alt := mpt.NewTrie(nil, mpt.ModeAll, storage.NewMemCachedStore(storage.NewMemoryStore()))
	for _, ks := range sortedKeys(s.content) {
		_ = alt.Put([]byte(ks), s.content[ks])
	}
	evil := append([]byte("evil"), byte(s.rnd.Intn(256)))
	if len(k) > 0 {
		_ = alt.Put(k, evil)
	}
	altProof, _ := alt.GetProof(k)
	otherProof, _ := s.tr.GetProof(other)
	otherAlt, _ := alt.GetProof(other)

	try("empty", nil)
	for i := range honest { // drop each node
		p := append(cloneProof(honest[:i]), cloneProof(honest[i+1:])...)
		try("drop", p)
	}
	for i := 1; i < len(honest); i++ { // truncated list
		try("truncate-list", cloneProof(honest[:i]))
	}
	if len(honest) > 0 {
		i := s.rnd.Intn(len(honest))
		p := cloneProof(honest)
		p = append(p, bytes.Clone(honest[i]))
		try("duplicate", p)
		p = cloneProof(honest)
		for a, b := 0, len(p)-1; a < b; a, b = a+1, b-1 {
			p[a], p[b] = p[b], p[a]
		}
		try("reorder", p)
		p = cloneProof(honest)
		s.rnd.Shuffle(len(p), func(a, b int) { p[a], p[b] = p[b], p[a] })
		try("reorder", p)
	}
	// nodes of the other version of the trie: alone, mixed, and with single nodes substituted
	try("other-trie", cloneProof(altProof))
	try("other-trie-union", append(cloneProof(honest), cloneProof(altProof)...))
	try("other-trie-union", append(cloneProof(altProof), cloneProof(honest)...))
	for i := range honest {
		if i < len(altProof) {
			p := cloneProof(honest)
			p[i] = bytes.Clone(altProof[len(altProof)-1-(len(honest)-1-i)%len(altProof)])
			try("substitute-foreign", p)
		}
	}
	if len(honest) > 0 && len(altProof) > 0 { // honest path, foreign leaf
		p := cloneProof(honest)
		p[len(p)-1] = bytes.Clone(altProof[len(altProof)-1])
		try("foreign-leaf", p)
		p = append(cloneProof(honest), bytes.Clone(altProof[len(altProof)-1]))
		try("foreign-leaf", p)
	}
	// proof of another key / a sibling's nodes
	try("other-key", cloneProof(otherProof))
	try("other-key", cloneProof(otherAlt))
	for i := range honest {
		if len(otherProof) > 0 {
			p := cloneProof(honest)
			p[i] = bytes.Clone(otherProof[len(otherProof)-1])
			try("substitute-sibling", p)
			if i < len(otherProof) {
				p = cloneProof(honest)
				p[i] = bytes.Clone(otherProof[i])
				try("substitute-sibling", p)
			}
		}
	}
	// forged leaf for this key with another value
	forged := mpt.NewLeafNode(evil).Bytes()
	try("forged-leaf", append(cloneProof(honest), forged))
	if len(honest) > 0 {
		p := cloneProof(honest)
		p[len(p)-1] = forged
		try("forged-leaf", p)
	}
	// byte flips and truncation of single nodes
	base := honest
	if len(base) == 0 {
		base = otherProof
	}
	for n := 0; n < 12 && len(base) > 0; n++ {
		p := cloneProof(base)
		i := s.rnd.Intn(len(p))
		if len(p[i]) == 0 {
			continue
		}
		j := s.rnd.Intn(len(p[i]))
		p[i][j] ^= byte(1 << uint(s.rnd.Intn(8)))
		try("byteflip", p)
		q := cloneProof(base)
		q[i] = q[i][:s.rnd.Intn(len(q[i]))]
		try("truncate-node", q)
		// flipped copy next to the honest nodes
		try("byteflip-extra", append(cloneProof(base), p[i]))
	}
	if out == nil {
		out = []tamperRes{}
	}
	return map[string]any{"event": "tamper", "k": nibbles(k), "res": out,
		"honest": map[string]any{"ok": hok, "v": hx(hv)}}
}

func kvList(kvs []storage.KeyValue, strip int) []any {
	r := []any{}
	for _, e := range kvs {
		r = append(r, map[string]any{"k": nibbles(e.Key[strip:]), "v": hx(e.Value)})
	}
	return r
}

// apply executes one operation; false = the history must be abandoned.
func (s *session) apply(o op) (okRun bool) {
	rec := map[string]any{"op": o.kind, "k": hx(o.k), "v": hx(o.v), "n": o.n, "prefix": hx(o.prefix), "from": hx(o.from),
		"hasfrom": o.from != nil, "start": hx(o.start), "back": o.back, "max": o.max}
	if o.kind == "batch" {
		var b []any
		for _, e := range o.b {
			b = append(b, map[string]any{"k": hx(e.k), "v": hx(e.v), "del": e.del})
		}
		rec["b"] = b
	}
	s.done = append(s.done, rec)
	defer func() {
		if p := recover(); p != nil {
			s.violate("panic", o.kind, fmt.Sprintf("Go panic escaped the mpt API during %s: %v", o.kind, p))
			s.dead = true
			okRun = false
		}
	}()
	spec := ""
	if o.hasSpec {
		spec = specRoot(o.canon)
	}
	mut := func(ev map[string]any) {
		ev["root"], ev["fresh"], ev["specroot"] = rootHex(s.tr), s.freshRoot(), spec
		s.tr8.Emit(ev)
		s.res.Count([]any{s.src[:3], modeName(s.mode), o.kind, ev["root"]})
	}
	switch o.kind {
	case "put":
		if err := s.tr.Put(o.k, o.v); err != nil {
			s.violate("op-error", "put", fmt.Sprintf("Put of a legal pair failed: %v", err))
			return false
		}
		s.content[string(o.k)] = o.v
		s.dirty = true
		mut(map[string]any{"event": "put", "k": nibbles(o.k), "v": hx(o.v)})
	case "del":
		if err := s.tr.Delete(o.k); err != nil {
			s.violate("op-error", "del", fmt.Sprintf("Delete failed: %v", err))
			return false
		}
		delete(s.content, string(o.k))
		s.dirty = true
		mut(map[string]any{"event": "del", "k": nibbles(o.k)})
	case "batch":
		m := map[string][]byte{}
		b := []any{}
		for _, e := range o.b {
			if e.del {
				m["\x00"+string(e.k)] = nil
			} else {
				m["\x00"+string(e.k)] = e.v
			}
			b = append(b, map[string]any{"k": nibbles(e.k), "v": hx(e.v), "del": e.del})
		}
		if _, err := s.tr.PutBatch(mpt.MapToMPTBatch(m)); err != nil {
			s.violate("op-error", "batch", fmt.Sprintf("PutBatch of a legal change set failed: %v", err))
			return false
		}
		for _, e := range o.b {
			if e.del {
				delete(s.content, string(e.k))
			} else {
				s.content[string(e.k)] = e.v
			}
		}
		s.dirty = true
		mut(map[string]any{"event": "batch", "b": b})
	case "flush":
		s.flush()
		mut(map[string]any{"event": "flush"})
	case "persist":
		if _, err := s.store.Persist(); err != nil {
			panic(err)
		}
		mut(map[string]any{"event": "persist"})
	case "collapse":
		if s.dirty {
			return true // precondition of Collapse (flushed trie) not met: skipped
		}
		s.tr.Collapse(o.n)
		mut(map[string]any{"event": "collapse", "n": o.n})
	case "reload":
		if s.flushedRoot.Equals(util.Uint256{}) {
			s.tr = mpt.NewTrie(nil, s.mode, s.store)
		} else {
			s.tr = mpt.NewTrie(mpt.NewHashNode(s.flushedRoot), s.mode, s.store)
		}
		s.content = copyMap(s.flushed)
		s.dirty = false
		mut(map[string]any{"event": "reload"})
	case "dump":
		ev := s.dumpOf(s.tr, "live")
		s.tr8.Emit(ev)
		s.res.Count([]any{s.src[:3], modeName(s.mode), "dump", ev["root"]})
		if !s.dirty {
			ev = s.dumpOf(s.copyTrie(), "copy")
			s.tr8.Emit(ev)
		}
	case "tamper":
		s.tr8.Emit(s.tamper(o.k, o.other))
	case "find":
		// every other range search on a trie with unflushed changes goes to the LIVE trie (what follows in the history -
		// reads, dumps, further changes, the flush - shows whether the search left it intact); the others, as
		// stateroot.Module does, to a fresh Trie over the flushed store
		live := s.dirty && len(s.done)%2 == 0
		if s.dirty && !live {
			s.emitFlush()
		}
		if len(o.prefix) > mpt.MaxKeyLength || len(o.from) > mpt.MaxKeyLength-len(o.prefix) {
			return true
		}
		ft := s.tr
		if !live {
			ft = s.copyTrie()
		}
		r, err := ft.Find(o.prefix, o.from, o.max)
		if err != nil {
			r = nil
		}
		fr := o.from
		if fr == nil {
			fr = []byte{}
		}
		s.tr8.Emit(map[string]any{"event": "find", "prefix": nibbles(o.prefix), "from": nibbles(fr), "hasfrom": o.from != nil,
			"max": o.max, "res": kvList(r, 0), "err": err != nil})
		s.res.Count([]any{"find", hx(o.prefix), hx(o.from), o.from != nil, o.max, len(r)})
		if live {
			// the model's range search leaves the trie flushed (as the other half of the searches does before searching):
			// here the flush comes AFTER the search on the live trie and stores whatever the search left of it
			s.emitFlush()
			s.res.Inc("finds_on_live_unflushed_trie", 1)
		}
	case "seek":
		if s.dirty {
			s.emitFlush()
		}
		ts := mpt.NewTrieStore(s.tr.StateRoot(), s.readMode(), s.store)
		var r []storage.KeyValue
		ts.Seek(storage.SeekRange{Prefix: append([]byte{byte(storage.STStorage)}, o.prefix...), Start: o.start, Backwards: o.back},
			func(k, v []byte) bool {
				r = append(r, storage.KeyValue{Key: bytes.Clone(k), Value: bytes.Clone(v)})
				return true
			})
		s.tr8.Emit(map[string]any{"event": "seek", "prefix": nibbles(o.prefix), "start": nibbles(o.start), "back": o.back,
			"res": kvList(r, 1)})
		s.res.Count([]any{"seek", hx(o.prefix), hx(o.start), o.back, len(r)})
		// early stop must deliver a prefix of the same sequence (cheap, judged here as part of the same answer)
		if len(r) > 1 {
			var first []byte
			ts2 := mpt.NewTrieStore(s.tr.StateRoot(), s.readMode(), s.store)
			ts2.Seek(storage.SeekRange{Prefix: append([]byte{byte(storage.STStorage)}, o.prefix...), Start: o.start, Backwards: o.back},
				func(k, v []byte) bool { first = bytes.Clone(k); return false })
			if !bytes.Equal(first, r[0].Key) {
				s.res.AddDrift(map[string]any{"what": "Seek stopped after one element delivered another first key", "src": s.src})
			}
		}
	}
	return true
}

func runHistory(res *vh.Result, tr *vh.Trace, src string, mode mpt.TrieMode, universe [][]byte, ops []op, stream int64) {
	s := &session{mode: mode, store: storage.NewMemCachedStore(storage.NewMemoryStore()), content: map[string][]byte{},
		flushed: map[string][]byte{}, universe: universe, rnd: vh.Rand(stream), res: res, tr8: tr, src: src}
	s.tr = mpt.NewTrie(nil, mode, s.store)
	tr.Emit(map[string]any{"event": "init", "mode": modeName(mode), "src": src})
	for _, o := range ops {
		if !s.apply(o) {
			break
		}
	}
	if !s.dead {
		// final observation: live trie, then flushed and re-read through a fresh Trie over the store
		s.apply(op{kind: "dump"})
		if !s.dead && s.dirty {
			s.apply(op{kind: "flush"})
			s.apply(op{kind: "dump"})
		}
	}
	res.Traces++
	if res.Traces%97 == 1 {
		res.Sample(map[string]any{"src": src, "mode": modeName(mode), "ops": s.done, "final_root": rootHex(s.tr), "keys": len(s.content)})
	}
}

// ---------------------------------------------------------------- TLC behaviours

func tlcValue(v string) []byte { return []byte(v) }

func convert(h []Step) ([][]byte, []op, error) {
	if len(h) == 0 || h[0].Op != "init" {
		return nil, nil, errors.New("history does not start with init")
	}
	var uni [][]byte
	for _, k := range h[0].Keys {
		uni = append(uni, fromNibbles(k))
	}
	var ops []op
	for _, st := range h[1:] {
		o := op{kind: st.Op, n: st.N, canon: st.Canon, hasSpec: st.Canon != nil, max: st.Max, back: st.Back}
		switch st.Op {
		case "put":
			o.k, o.v = fromNibbles(st.K), tlcValue(st.V)
		case "del":
			o.k = fromNibbles(st.K)
		case "batch":
			for _, e := range st.B {
				if e.V == nilMark {
					o.b = append(o.b, kv{k: fromNibbles(e.K), del: true})
				} else {
					o.b = append(o.b, kv{k: fromNibbles(e.K), v: tlcValue(e.V)})
				}
			}
		case "tamper":
			o.k, o.other = fromNibbles(st.K), fromNibbles(st.Other)
		case "find":
			o.prefix = fromNibbles(st.Prefix)
			if st.Hasfrom {
				o.from = append([]byte{}, fromNibbles(st.From)...)
			}
		case "seek":
			o.prefix, o.start = fromNibbles(st.Prefix), fromNibbles(st.Start)
		}
		ops = append(ops, o)
	}
	return uni, ops, nil
}

// ---------------------------------------------------------------- random universes and histories

func randomUniverse(r *rand.Rand) [][]byte {
	alpha := []byte{0x00, 0x01, 0x10, 0x11, 0x0f, 0xf0, 0xff, 0x12}
	rb := func(n int) []byte {
		b := make([]byte, n)
		for i := range b {
			b[i] = alpha[r.Intn(len(alpha))]
		}
		return b
	}
	set := map[string]bool{}
	add := func(k []byte) {
		if len(k) > 0 && len(k) <= mpt.MaxKeyLength {
			set[string(k)] = true
		}
	}
	n := 5 + r.Intn(12)
	switch r.Intn(6) {
	case 0: // short keys over a small alphabet
		for i := 0; i < n; i++ {
			add(rb(1 + r.Intn(4)))
		}
	case 1: // long shared prefix
		p := rb(10 + r.Intn(40))
		add(p)
		for i := 0; i < n; i++ {
			add(append(bytes.Clone(p), rb(r.Intn(4))...))
		}
	case 2: // maximum-length keys sharing all but the last nibbles
		p := rb(mpt.MaxKeyLength - 1 - r.Intn(2))
		for i := 0; i < n; i++ {
			add(append(bytes.Clone(p), rb(mpt.MaxKeyLength-len(p))...))
		}
		add(p)
		add(p[:len(p)-1])
		add(rb(mpt.MaxKeyLength))
	case 3: // chains of prefixes
		k := rb(1)
		for i := 0; i < n; i++ {
			add(k)
			if r.Intn(4) == 0 {
				add(append(bytes.Clone(k), rb(1)...))
			}
			k = append(bytes.Clone(k), rb(1)...)
		}
	case 4: // two "contracts" (4-byte ids) with item keys
		ids := [][]byte{{0x05, 0x00, 0x00, 0x00}, {0x05, 0x00, 0x00, 0x01}, {0xfb, 0xff, 0xff, 0xff}}
		for i := 0; i < n; i++ {
			add(append(bytes.Clone(ids[r.Intn(len(ids))]), rb(r.Intn(4))...))
		}
	default: // arbitrary bytes
		for i := 0; i < n; i++ {
			b := make([]byte, 1+r.Intn(5))
			r.Read(b)
			add(b)
		}
	}
	// closure: some prefixes and one-byte extensions
	for _, ks := range sortedKeys(toMap(set)) {
		k := []byte(ks)
		if r.Intn(3) == 0 && len(k) > 1 {
			add(k[:1+r.Intn(len(k)-1)])
		}
		if r.Intn(4) == 0 {
			add(append(bytes.Clone(k), rb(1)...))
		}
	}
	var u [][]byte
	for _, ks := range sortedKeys(toMap(set)) {
		u = append(u, []byte(ks))
	}
	return u
}

func toMap(s map[string]bool) map[string][]byte {
	m := map[string][]byte{}
	for k := range s {
		m[k] = nil
	}
	return m
}

func randomOps(r *rand.Rand, u [][]byte) []op {
	vals := [][]byte{{}, []byte("a"), []byte("b"), []byte("a"), {0x00}, []byte("value-3")}
	if r.Intn(3) == 0 {
		long := make([]byte, 253+r.Intn(60)) // var-int 0xfd length form
		r.Read(long)
		vals = append(vals, long)
	}
	val := func() []byte { return vals[r.Intn(len(vals))] }
	key := func() []byte { return u[r.Intn(len(u))] }
	around := func() []byte { // a byte string related to the universe: key, prefix of a key, key with a changed/extra byte
		k := bytes.Clone(key())
		switch r.Intn(5) {
		case 0:
			return k
		case 1:
			return k[:r.Intn(len(k)+1)]
		case 2:
			k[len(k)-1] ^= byte(1 << uint(r.Intn(8)))
			return k
		case 3:
			if len(k) < mpt.MaxKeyLength {
				return append(k, byte(r.Intn(256)))
			}
			return k
		}
		return k[:r.Intn(len(k)+1)]
	}
	var ops []op
	n := 15 + r.Intn(40)
	for i := 0; i < n; i++ {
		switch x := r.Intn(100); {
		case x < 22:
			ops = append(ops, op{kind: "put", k: key(), v: val()})
		case x < 34:
			ops = append(ops, op{kind: "del", k: key()})
		case x < 54:
			o := op{kind: "batch"}
			seen := map[string]bool{}
			m := 1 + r.Intn(8)
			if r.Intn(5) == 0 {
				m = len(u)
			}
			for j := 0; j < m; j++ {
				k := key()
				if seen[string(k)] {
					continue
				}
				seen[string(k)] = true
				if r.Intn(100) < 38 {
					o.b = append(o.b, kv{k: k, del: true})
				} else {
					o.b = append(o.b, kv{k: k, v: val()})
				}
			}
			ops = append(ops, o)
		case x < 64:
			ops = append(ops, op{kind: "flush"})
		case x < 67:
			ops = append(ops, op{kind: "persist"})
		case x < 74:
			ops = append(ops, op{kind: "flush"}, op{kind: "collapse", n: r.Intn(5)})
		case x < 79:
			if r.Intn(3) > 0 {
				ops = append(ops, op{kind: "flush"})
			}
			ops = append(ops, op{kind: "reload"})
		case x < 83:
			ops = append(ops, op{kind: "dump"})
		case x < 88:
			ops = append(ops, op{kind: "tamper", k: around(), other: key()})
		case x < 93:
			p := around()
			o := op{kind: "find", prefix: p, max: []int{1, 2, 3, 100}[r.Intn(4)]}
			switch r.Intn(4) {
			case 0:
			case 1:
				o.from = []byte{}
			default:
				f := around()
				if bytes.HasPrefix(f, p) {
					f = f[len(p):]
				} else if len(f) > 2 {
					f = f[:2]
				}
				o.from = append([]byte{}, f...)
			}
			ops = append(ops, o)
		default:
			p := around()
			o := op{kind: "seek", prefix: p, back: r.Intn(2) == 0}
			if r.Intn(3) > 0 {
				f := around()
				if bytes.HasPrefix(f, p) {
					f = f[len(p):]
				} else if len(f) > 2 {
					f = f[:2]
				}
				o.start = f
			}
			ops = append(ops, o)
		}
	}
	return ops
}

// deepHistory builds a universe around one long spine key and a history that fills it, proves deep keys, collapses,
// reloads and edits it.
func deepHistory(r *rand.Rand) ([][]byte, []op) {
	l := 36 + r.Intn(mpt.MaxKeyLength-36+1)
	spine := make([]byte, l)
	r.Read(spine)
	set := map[string]bool{string(spine): true}
	for i := 0; i < l; i++ {
		for _, mask := range []byte{0x10, 0x01} {
			if r.Intn(12) == 0 {
				continue
			}
			k := bytes.Clone(spine[:i+1])
			k[i] ^= mask
			if r.Intn(3) == 0 && len(k) < mpt.MaxKeyLength {
				k = append(k, byte(r.Intn(256)))
			}
			set[string(k)] = true
		}
	}
	var u [][]byte
	for _, ks := range sortedKeys(toMap(set)) {
		u = append(u, []byte(ks))
	}
	vals := [][]byte{[]byte("a"), []byte("b"), {}, {0x00}, []byte("value-3")}
	val := func() []byte { return vals[r.Intn(len(vals))] }
	key := func() []byte { return u[r.Intn(len(u))] }
	var ops []op
	perm := r.Perm(len(u))
	for lo := 0; lo < len(perm); {
		hi := min(len(perm), lo+1+r.Intn(len(perm)))
		o := op{kind: "batch"}
		for _, j := range perm[lo:hi] {
			o.b = append(o.b, kv{k: u[j], v: val()})
		}
		ops = append(ops, o)
		lo = hi
	}
	ops = append(ops, op{kind: "flush"}, op{kind: "tamper", k: spine, other: key()})
	for n := 0; n < 10; n++ {
		switch r.Intn(8) {
		case 0:
			ops = append(ops, op{kind: "flush"}, op{kind: "collapse", n: r.Intn(40)})
		case 1:
			ops = append(ops, op{kind: "flush"}, op{kind: "reload"})
		case 2:
			ops = append(ops, op{kind: "del", k: key()})
		case 3:
			ops = append(ops, op{kind: "put", k: key(), v: val()})
		case 4:
			o := op{kind: "batch"}
			seen := map[string]bool{}
			for j := 0; j < 1+r.Intn(6); j++ {
				k := key()
				if !seen[string(k)] {
					seen[string(k)] = true
					o.b = append(o.b, kv{k: k, v: val(), del: r.Intn(3) == 0})
				}
			}
			ops = append(ops, o)
		case 5:
			ops = append(ops, op{kind: "find", prefix: spine[:r.Intn(l)], max: 3})
		default:
			k := key()
			if r.Intn(2) == 0 {
				k = spine
			}
			ops = append(ops, op{kind: "tamper", k: k, other: key()})
		}
	}
	return u, ops
}

// probeFindLive is the minimal form of a defect found here and repaired (8f9234f): Trie.Find called on a live trie with
// unflushed changes answered correctly, but the Billet traversal it is built on replaced the visited in-memory nodes by
// "collapsed" hash nodes that were never written to the store. Kept as a regression; the histories search live tries too.
func probeFindLive(res *vh.Result) {
	defer func() { _ = recover() }()
	tr := mpt.NewTrie(nil, mpt.ModeAll, storage.NewMemCachedStore(storage.NewMemoryStore()))
	_ = tr.Put([]byte{0xAA, 0x01}, []byte("v"))
	_ = tr.Put([]byte{0xAA, 0x02}, []byte("w"))
	r, err := tr.Find([]byte{0xAA}, nil, 10)
	_, gerr := tr.Get([]byte{0xAA, 0x01})
	if err == nil && len(r) == 2 && gerr != nil {
		// repaired by 8f9234f ("fix: mpt: Find doesn't collapse nodes of the trie it's called on"); judged since
		res.Violate(map[string]any{"kind": "ReadsEqualContent", "op": "find-then-get", "mode": "all"},
			"Trie.Find on a live trie with unflushed changes leaves collapsed hash nodes that are not in the store: the next Get on the "+
				"same Trie fails ("+gerr.Error()+")", map[string]any{"repro": "Put(aa01,v) Put(aa02,w) Find(aa,nil,10) Get(aa01)"})
	}
}

// probeFindSplitKey is the minimal form of a defect found by the thorough tier's deep histories and repaired (0125c83): the
// start path Find / Seek get for a start node under an extension IS that node's key, and the traversal appended to it; when
// the key's array still had room shared with the key of a neighbour (both cut from one key when the extension was split)
// the appended nibbles overwrote the neighbour: Find returned a key that is not in the trie. Kept as a regression.
func probeFindSplitKey(res *vh.Result) {
	defer func() { _ = recover() }()
	k1, _ := hex.DecodeString("0f00f011ff10100f1100ff01f00ff000010010f0ff111012ffff")
	k2, _ := hex.DecodeString("0f00f011ff10100f1100ff01f00ff000010010f0ff111012ff000012")
	for _, mode := range []mpt.TrieMode{mpt.ModeAll, mpt.ModeGC} {
		tr := mpt.NewTrie(nil, mode, storage.NewMemCachedStore(storage.NewMemoryStore()))
		k3 := k1[:len(k1)-1]
		for _, b := range []map[string][]byte{{"p" + string(k1): {0x61}}, {"p" + string(k2): {0x61}}, {"p" + string(k3): nil, "p" + string(k2): nil}, {"p" + string(k2): {}}} {
			_, _ = tr.PutBatch(mpt.MapToMPTBatch(b)) // (the first byte of a map key is the storage prefix, not part of the trie key)
		}
		r, err := tr.Find(nil, nil, 10)
		ok := err == nil && len(r) == 2 && bytes.Equal(r[0].Key, k2) && bytes.Equal(r[1].Key, k1)
		v, gerr := tr.Get(k1)
		if !ok || gerr != nil || !bytes.Equal(v, []byte{0x61}) {
			got := []string{}
			for _, e := range r {
				got = append(got, hex.EncodeToString(e.Key))
			}
			res.Violate(map[string]any{"kind": "FindAgrees", "op": "find", "hasfrom": false, "class": "split-extension-key-array"},
				fmt.Sprintf("Find(nil, nil) on a trie holding %x and %x returned %v (err %v); Get of the first afterwards: %x %v", k1, k2, got, err, v, gerr),
				map[string]any{"mode": modeName(mode), "repro": "PutBatch{k1} PutBatch{k2} PutBatch{del k1[:25], del k2} PutBatch{k2: empty} Find(nil, nil, 10)"})
			return
		}
	}
	res.Inc("probe_find_split_key", 1)
}

// ---------------------------------------------------------------- entry point

var modes = []mpt.TrieMode{mpt.ModeAll, mpt.ModeLatest, mpt.ModeGC}

func TestDriver(t *testing.T) {
	res := vh.NewResult()
	tr := vh.NewTrace("trace.ndjson")
	var behaviours [][]Step
	if vh.InDir() != "" {
		if err := vh.ReadJSON("behaviours.json", &behaviours); err != nil {
			t.Logf("no behaviours: %v", err)
		}
	}
	stream := int64(100)
	for i, h := range behaviours {
		uni, ops, err := convert(h)
		if err != nil {
			t.Fatalf("behaviour %d: %v", i, err)
		}
		for _, m := range modes {
			stream++
			runHistory(res, tr, fmt.Sprintf("tlc-%d-%s", i, modeName(m)), m, uni, ops, stream)
		}
	}
	res.Inc("replayed_behaviours", len(behaviours))
	nr := vh.EnvInt("VERIF_RANDOM", 100)
	r := vh.Rand(10)
	for i := 0; i < nr; i++ {
		u := randomUniverse(r)
		ops := randomOps(r, u)
		m := modes[i%3]
		stream++
		runHistory(res, tr, fmt.Sprintf("rnd-%d-%s", i, modeName(m)), m, u, ops, stream)
	}
	res.Inc("random_histories", nr)
	// deep tries: one long spine with a key leaving it at (almost) every half-byte, so that paths - and proofs - have
	// one node per nibble (the longest proof the key-length limit allows has 2*MaxKeyLength+1 nodes)
	nd := vh.EnvInt("VERIF_DEEP", 4)
	for i := 0; i < nd; i++ {
		u, ops := deepHistory(r)
		m := modes[i%3]
		stream++
		runHistory(res, tr, fmt.Sprintf("deep-%d-%s", i, modeName(m)), m, u, ops, stream)
	}
	res.Inc("deep_histories", nd)
	probeFindLive(res)
	probeFindSplitKey(res)
	tr.Close()
	res.Inc("trace_events", tr.N)
	sort.Strings(res.Distinct)
	b, _ := json.Marshal(map[string]int{"events": tr.N})
	t.Logf("%s", b)
	if err := res.Write(); err != nil {
		t.Fatal(err)
	}
}
