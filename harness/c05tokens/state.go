// Projection of the native token ledgers read FROM STORAGE (Blockchain.SeekStorage over the NEO / GAS / Notary
// contract ids) and of the Transfer notifications of a block's executions. Big values travel as sign-magnitude
// records {neg, mag} with little-endian base-2^15 limbs (spec/tokens/BigNat.tla).
package c05tokens

import (
	"encoding/hex"
	"fmt"
	"math/big"

	"github.com/nspcc-dev/neo-go/pkg/core"
	"github.com/nspcc-dev/neo-go/pkg/core/block"
	"github.com/nspcc-dev/neo-go/pkg/core/native/nativehashes"
	"github.com/nspcc-dev/neo-go/pkg/core/native/nativeids"
	"github.com/nspcc-dev/neo-go/pkg/core/state"
	"github.com/nspcc-dev/neo-go/pkg/encoding/bigint"
	"github.com/nspcc-dev/neo-go/pkg/smartcontract/trigger"
	"github.com/nspcc-dev/neo-go/pkg/util"
	"github.com/nspcc-dev/neo-go/pkg/vm/stackitem"
	"github.com/nspcc-dev/neo-go/pkg/vm/vmstate"
)

// Storage layout of the native contracts (pkg/core/native: native_nep17.go, native_neo.go, notary.go).
const (
	prefixAccount     = 20 // NEO and GAS: 20 ++ account (BE) -> NEOBalance / NEP17Balance
	keyTotalSupply    = 11 // NEO and GAS: total supply
	prefixCandidate   = 33 // NEO: 33 ++ public key -> struct(registered, votes)
	prefixVotersCount = 1  // NEO: NEO held by voting accounts
	prefixDeposit     = 1  // Notary: 1 ++ account (BE) -> Deposit
)

// Num is an integer of arbitrary size in the trace format.
type Num struct {
	Neg bool  `json:"neg"`
	Mag []int `json:"mag"`
}

var limbBase = big.NewInt(1 << 15)

// N converts a big integer (nil = 0).
func N(x *big.Int) Num {
	n := Num{Mag: []int{}}
	if x == nil || x.Sign() == 0 {
		return n
	}
	n.Neg = x.Sign() < 0
	a := new(big.Int).Abs(x)
	r := new(big.Int)
	for a.Sign() != 0 {
		a.QuoRem(a, limbBase, r)
		n.Mag = append(n.Mag, int(r.Int64()))
	}
	return n
}

// Big converts back.
func (n Num) Big() *big.Int {
	x := new(big.Int)
	for i := len(n.Mag) - 1; i >= 0; i-- {
		x.Mul(x, limbBase)
		x.Add(x, big.NewInt(int64(n.Mag[i])))
	}
	if n.Neg {
		x.Neg(x)
	}
	return x
}

// Cand is a candidate record of the NEO contract.
type Cand struct {
	Registered bool `json:"registered"`
	Votes      Num  `json:"votes"`
}

// Transfer is a NEP-17 Transfer notification of the NEO or GAS contract ("" = null party: mint / burn).
type Transfer struct {
	Tok  string `json:"tok"` // "neo" | "gas"
	From string `json:"from"`
	To   string `json:"to"`
	Amt  Num    `json:"amt"`
	Exec int    `json:"exec"` // index of the execution in the block: 0 OnPersist, 1..n transactions, n+1 PostPersist
}

// State is the abstract state of spec/tokens/TokenLaws.tla as found in storage.
type State struct {
	NeoSupply Num               `json:"neoSupply"`
	GasSupply Num               `json:"gasSupply"`
	Voters    Num               `json:"voters"`
	Neo       map[string]Num    `json:"neo"`
	Gas       map[string]Num    `json:"gas"`
	VoteOf    map[string]string `json:"voteOf"` // voting accounts only
	Cand      map[string]Cand   `json:"cand"`
	Deposit   map[string]Num    `json:"deposit"`
	Notary    string            `json:"notary"` // the Notary contract's account
}

func acct(b []byte) (string, error) {
	u, err := util.Uint160DecodeBytesBE(b)
	if err != nil {
		return "", err
	}
	return u.StringLE(), nil
}

// Project scans the storage of the three native contracts.
func Project(bc *core.Blockchain) (*State, error) {
	s := &State{Neo: map[string]Num{}, Gas: map[string]Num{}, VoteOf: map[string]string{}, Cand: map[string]Cand{},
		Deposit: map[string]Num{}, Notary: nativehashes.Notary.StringLE()}
	var err error
	fail := func(f string, a ...any) bool {
		if err == nil {
			err = fmt.Errorf(f, a...)
		}
		return false
	}
	supply := func(id int32) Num {
		si := bc.GetStorageItem(id, []byte{keyTotalSupply})
		if si == nil {
			return N(nil)
		}
		return N(bigint.FromBytes(si))
	}
	s.NeoSupply = supply(nativeids.NeoToken)
	s.GasSupply = supply(nativeids.GasToken)
	if si := bc.GetStorageItem(nativeids.NeoToken, []byte{prefixVotersCount}); si != nil {
		s.Voters = N(bigint.FromBytes(si))
	} else {
		s.Voters = N(nil)
	}
	bc.SeekStorage(nativeids.NeoToken, []byte{prefixAccount}, func(k, v []byte) bool {
		a, e := acct(k)
		if e != nil {
			return fail("NEO account key %x: %v", k, e)
		}
		b, e := state.NEOBalanceFromBytes(v)
		if e != nil {
			return fail("NEO account %s: %v", a, e)
		}
		s.Neo[a] = N(&b.Balance)
		if b.VoteTo != nil {
			s.VoteOf[a] = hex.EncodeToString(b.VoteTo.Bytes())
		}
		return true
	})
	bc.SeekStorage(nativeids.GasToken, []byte{prefixAccount}, func(k, v []byte) bool {
		a, e := acct(k)
		if e != nil {
			return fail("GAS account key %x: %v", k, e)
		}
		b, e := state.NEP17BalanceFromBytes(v)
		if e != nil {
			return fail("GAS account %s: %v", a, e)
		}
		s.Gas[a] = N(&b.Balance)
		return true
	})
	bc.SeekStorage(nativeids.NeoToken, []byte{prefixCandidate}, func(k, v []byte) bool {
		it, e := stackitem.Deserialize(v)
		if e != nil {
			return fail("candidate %x: %v", k, e)
		}
		arr, ok := it.Value().([]stackitem.Item)
		if !ok || len(arr) != 2 {
			return fail("candidate %x: not a 2-element struct", k)
		}
		reg, e1 := arr[0].TryBool()
		votes, e2 := arr[1].TryInteger()
		if e1 != nil || e2 != nil {
			return fail("candidate %x: %v %v", k, e1, e2)
		}
		s.Cand[hex.EncodeToString(k)] = Cand{Registered: reg, Votes: N(votes)}
		return true
	})
	bc.SeekStorage(nativeids.Notary, []byte{prefixDeposit}, func(k, v []byte) bool {
		a, e := acct(k)
		if e != nil {
			return fail("deposit key %x: %v", k, e)
		}
		d := new(state.Deposit)
		if e := stackitem.DeserializeConvertible(v, d); e != nil {
			return fail("deposit %s: %v", a, e)
		}
		s.Deposit[a] = N(d.Amount)
		return true
	})
	return s, err
}

func party(it stackitem.Item) (string, error) {
	if _, ok := it.(stackitem.Null); ok {
		return "", nil
	}
	b, err := it.TryBytes()
	if err != nil {
		return "", err
	}
	return acct(b)
}

// Transfers collects the Transfer notifications of the NEO and GAS contracts emitted by the successful (HALT)
// executions of block b: the OnPersist and PostPersist system executions and every transaction.
// It also returns the number of executions and of faulted ones.
func Transfers(bc *core.Blockchain, b *block.Block) (out []Transfer, nexec, faults int, err error) {
	out = []Transfer{}
	sys, err := bc.GetAppExecResults(b.Hash(), trigger.All)
	if err != nil {
		return nil, 0, 0, fmt.Errorf("block %d executions: %w", b.Index, err)
	}
	var on, post []state.AppExecResult
	for _, a := range sys {
		switch a.Trigger {
		case trigger.OnPersist:
			on = append(on, a)
		case trigger.PostPersist:
			post = append(post, a)
		default:
			return nil, 0, 0, fmt.Errorf("block %d: unexpected trigger %v", b.Index, a.Trigger)
		}
	}
	all := on
	for _, tx := range b.Transactions {
		as, err := bc.GetAppExecResults(tx.Hash(), trigger.All)
		if err != nil {
			return nil, 0, 0, fmt.Errorf("tx %s executions: %w", tx.Hash().StringLE(), err)
		}
		all = append(all, as...)
	}
	all = append(all, post...)
	for i, a := range all {
		nexec++
		if a.VMState != vmstate.Halt {
			faults++
			continue
		}
		for _, ev := range a.Events {
			if ev.Name != "Transfer" {
				continue
			}
			var tok string
			switch ev.ScriptHash {
			case nativehashes.NeoToken:
				tok = "neo"
			case nativehashes.GasToken:
				tok = "gas"
			default:
				continue
			}
			f := ev.Item.Value().([]stackitem.Item)
			if len(f) != 3 {
				return nil, 0, 0, fmt.Errorf("malformed Transfer event in execution %d of block %d", i, b.Index)
			}
			from, e1 := party(f[0])
			to, e2 := party(f[1])
			amt, e3 := f[2].TryInteger()
			if e1 != nil || e2 != nil || e3 != nil {
				return nil, 0, 0, fmt.Errorf("malformed Transfer event in execution %d of block %d: %v %v %v", i, b.Index, e1, e2, e3)
			}
			out = append(out, Transfer{Tok: tok, From: from, To: to, Amt: N(amt), Exec: i})
		}
	}
	return out, nexec, faults, nil
}
