package c05tokens

import (
	"fmt"
	"strings"
	"testing"

	"github.com/nspcc-dev/neo-go/pkg/compiler"
	"github.com/nspcc-dev/neo-go/pkg/neotest"
	"github.com/nspcc-dev/neo-go/pkg/smartcontract/manifest"
	"github.com/nspcc-dev/neo-go/pkg/util"
)

// hubSrc is a contract that holds NEO and GAS and reacts to payments: its onNEP17Payment callback can throw,
// forward / return what it received, pull more tokens from the payer (using the payer's Global witness) or vote
// with the NEO it holds; its methods let it spend, vote, deposit to / withdraw from the Notary contract, and wrap
// a transfer whose recipient throws into a try block (an exception in a payment callback cannot be caught: the
// transaction FAULTs) or a call of a contract that pays and then throws (caught: the payment and its Transfer
// event are undone, the transaction still HALTs).
// GAS claimed for the contract's NEO reaches it through the same callback (from = null, data = null).
const hubSrc = `package hub

import (
	"github.com/nspcc-dev/neo-go/pkg/interop"
	"github.com/nspcc-dev/neo-go/pkg/interop/contract"
	"github.com/nspcc-dev/neo-go/pkg/interop/runtime"
	"github.com/nspcc-dev/neo-go/pkg/interop/storage"
)

const variant = %d

func OnNEP17Payment(from interop.Hash160, amount int, data any) {
	if data == nil {
		return
	}
	args := data.([]any)
	op := args[0].(string)
	tok := runtime.GetCallingScriptHash()
	self := runtime.GetExecutingScriptHash()
	if op == "throw" {
		panic("payment refused")
	}
	if op == "fwd" {
		contract.Call(tok, "transfer", contract.All, self, args[1], amount, nil)
	}
	if op == "back" {
		contract.Call(tok, "transfer", contract.All, self, from, amount, nil)
	}
	if op == "pull" {
		contract.Call(tok, "transfer", contract.All, from, self, args[1], nil)
	}
	if op == "vote" {
		contract.Call(args[2].(interop.Hash160), "vote", contract.All, self, args[1])
	}
	if op == "fwdthrow" {
		contract.Call(tok, "transfer", contract.All, self, args[1], amount, []any{"throw"})
	}
}

func Send(tok, to interop.Hash160, amount int, data any) bool {
	return contract.Call(tok, "transfer", contract.All, runtime.GetExecutingScriptHash(), to, amount, data).(bool)
}

func Vote(neo interop.Hash160, key any) bool {
	return contract.Call(neo, "vote", contract.All, runtime.GetExecutingScriptHash(), key).(bool)
}

func Withdraw(notary interop.Hash160, to any) bool {
	return contract.Call(notary, "withdraw", contract.All, runtime.GetExecutingScriptHash(), to).(bool)
}

func TryPay(tok, from, to interop.Hash160, amount int, data any) {
	tryPay(tok, from, to, amount, data)
	storage.Put(storage.GetContext(), []byte("tries"), amount)
}

func tryPay(tok, from, to interop.Hash160, amount int, data any) {
	defer func() { _ = recover() }()
	contract.Call(tok, "transfer", contract.All, from, to, amount, data)
}

// PayThenThrow performs a transfer (which succeeds and emits its event) and then throws.
func PayThenThrow(tok, from, to interop.Hash160, amount int) {
	contract.Call(tok, "transfer", contract.All, from, to, amount, nil)
	panic("after payment")
}

// TryThrow calls PayThenThrow of contract h inside a try block: the transfer made by the callee and its Transfer
// event must be undone, the transaction goes on and HALTs.
func TryThrow(h, tok, from, to interop.Hash160, amount int) {
	tryThrow(h, tok, from, to, amount)
	storage.Put(storage.GetContext(), []byte("tries"), amount)
}

func tryThrow(h, tok, from, to interop.Hash160, amount int) {
	defer func() { _ = recover() }()
	contract.Call(h, "payThenThrow", contract.All, tok, from, to, amount)
}

func Version() int { return variant }
`

var wildPerm = func() manifest.Permission {
	p := manifest.NewPermission(manifest.PermissionWildcard)
	p.Methods = manifest.WildStrings{}
	return *p
}()

// Hub compiles the hub contract (variant makes different hashes).
func Hub(t testing.TB, sender util.Uint160, variant int) *neotest.Contract {
	return neotest.CompileSource(t, sender, strings.NewReader(fmt.Sprintf(hubSrc, variant)), &compiler.Options{
		Name: fmt.Sprintf("hub%d", variant), NoEventsCheck: true, NoPermissionsCheck: true,
		Permissions: []manifest.Permission{wildPerm},
	})
}
