package c05tokens

import (
	"fmt"
	"math/big"
	"math/rand"
	"testing"

	"verifharness/internal/chainkit"
	"verifharness/internal/histgen"
	"verifharness/internal/vh"

	"github.com/nspcc-dev/neo-go/pkg/core"
	"github.com/nspcc-dev/neo-go/pkg/core/block"
	"github.com/nspcc-dev/neo-go/pkg/core/native/nativehashes"
	"github.com/nspcc-dev/neo-go/pkg/core/native/nativeids"
	"github.com/nspcc-dev/neo-go/pkg/core/native/noderoles"
	"github.com/nspcc-dev/neo-go/pkg/core/transaction"
	"github.com/nspcc-dev/neo-go/pkg/crypto/keys"
	"github.com/nspcc-dev/neo-go/pkg/encoding/bigint"
	"github.com/nspcc-dev/neo-go/pkg/io"
	"github.com/nspcc-dev/neo-go/pkg/neotest"
	"github.com/nspcc-dev/neo-go/pkg/smartcontract/callflag"
	"github.com/nspcc-dev/neo-go/pkg/util"
	"github.com/nspcc-dev/neo-go/pkg/vm/emit"
	"github.com/nspcc-dev/neo-go/pkg/vm/opcode"
	"github.com/nspcc-dev/neo-go/pkg/wallet"
)

// world is one real chain with its history generator and the trace it is observed into.
type world struct {
	t    *testing.T
	id   string
	src  string // "tlc" | "random"
	net  *chainkit.Net
	bc   *core.Blockchain
	gen  *histgen.Gen
	r    *rand.Rand
	tr   *vh.Trace
	res  *vh.Result
	hubs []util.Uint160
	nhub int
	// private keys this world knows (generated accounts and committee members) by public key
	keys    map[string]*keys.PrivateKey
	cm0     neotest.SingleSigner // single-signature account of standby committee member 0
	kinds   map[string]int       // transaction kinds of the block being built
	last    *State
	lastErr string
}

func newWorld(t *testing.T, res *vh.Result, tr *vh.Trace, id, src string, seed int64) (*world, error) {
	w := &world{t: t, id: id, src: src, net: chainkit.NewNet(5, 3), tr: tr, res: res, r: rand.New(rand.NewSource(seed ^ 0x5eed)),
		keys: map[string]*keys.PrivateKey{}, kinds: map[string]int{}}
	bc, err := w.net.NewChain(nil, nil)
	if err != nil {
		return nil, err
	}
	chainkit.Start(bc)
	w.bc = bc
	w.gen = histgen.New(t, w.net, bc, seed, 8)
	for _, a := range w.gen.Accts {
		k := a.Account().PrivateKey()
		w.keys[string(k.PublicKey().Bytes())] = k
	}
	for i := 0; i < 5; i++ {
		k := chainkit.Key(fmt.Sprintf("committee-%d", i))
		w.keys[string(k.PublicKey().Bytes())] = k
	}
	w.cm0 = neotest.NewSingleSigner(wallet.NewAccountFromPrivateKey(chainkit.Key("committee-0")))
	return w, nil
}

func (w *world) close() { w.bc.Close() }

// tx builds and signs an invocation with Global-scope signers (nil if it cannot be built).
func (w *world) tx(signers []neotest.Signer, h util.Uint160, method string, args ...any) (tx *transaction.Transaction) {
	defer func() {
		if r := recover(); r != nil {
			tx = nil
		}
	}()
	u := w.gen.E.NewUnsignedTx(w.t, h, method, args...)
	return w.finish(u, signers)
}

// script builds and signs a transaction running a raw script.
func (w *world) script(signers []neotest.Signer, script []byte) (tx *transaction.Transaction) {
	defer func() {
		if r := recover(); r != nil {
			tx = nil
		}
	}()
	u := transaction.New(script, 0)
	u.Nonce = neotest.Nonce()
	return w.finish(u, signers)
}

func (w *world) finish(u *transaction.Transaction, signers []neotest.Signer) *transaction.Transaction {
	u.ValidUntilBlock = w.bc.BlockHeight() + 5
	for _, s := range signers {
		u.Signers = append(u.Signers, transaction.Signer{Account: s.ScriptHash(), Scopes: transaction.Global})
	}
	v, _ := w.gen.E.TestInvoke(u)
	sys := int64(3_0000000)
	if v != nil {
		sys += v.GasConsumed()
	}
	u.Signers = nil
	return w.gen.E.SignTx(w.t, u, sys, signers...)
}

// faulting builds a transaction that performs a real token transfer and then aborts: all its effects, the Transfer
// event included, must vanish; only the fee burn remains.
func (w *world) faulting(a neotest.SingleSigner, tok util.Uint160, to util.Uint160, amt int64) *transaction.Transaction {
	bw := io.NewBufBinWriter()
	emit.AppCall(bw.BinWriter, tok, "transfer", callflag.All, a.ScriptHash(), to, amt, nil)
	emit.Opcodes(bw.BinWriter, opcode.DROP, opcode.ABORT)
	if bw.Err != nil {
		return nil
	}
	return w.script([]neotest.Signer{a}, bw.Bytes())
}

// notaryAssisted builds a transaction sent by the Notary contract and paid from payer's deposit, signed by a
// designated notary node whose key this world knows (nil if there is none or the deposit does not cover the fees).
func (w *world) notaryAssisted(payer neotest.SingleSigner, nkeys uint8, script []byte) *transaction.Transaction {
	nodes, _, err := w.bc.GetDesignatedByRole(noderoles.P2PNotary)
	if err != nil || len(nodes) == 0 {
		return nil
	}
	var node *keys.PrivateKey
	for _, n := range nodes {
		if k := w.keys[string(n.Bytes())]; k != nil {
			node = k
			break
		}
	}
	if node == nil {
		return nil
	}
	fpk := w.bc.GetNotaryServiceFeePerKey()
	tx := transaction.New(script, 1_0000000)
	tx.Nonce = neotest.Nonce()
	tx.ValidUntilBlock = w.bc.BlockHeight() + 5
	tx.Attributes = []transaction.Attribute{{Type: transaction.NotaryAssistedT, Value: &transaction.NotaryAssisted{NKeys: nkeys}}}
	tx.NetworkFee = (int64(nkeys)+1)*fpk + 3000_0000
	tx.Signers = []transaction.Signer{
		{Account: nativehashes.Notary, Scopes: transaction.None},
		{Account: payer.ScriptHash(), Scopes: transaction.Global},
	}
	dep := w.bc.GetUtilityTokenBalance(nativehashes.Notary, payer.ScriptHash())
	if dep.Cmp(big.NewInt(tx.SystemFee+tx.NetworkFee)) < 0 {
		return nil
	}
	magic := uint32(w.net.Magic)
	tx.Scripts = []transaction.Witness{
		{InvocationScript: append([]byte{byte(opcode.PUSHDATA1), keys.SignatureLen}, node.SignHashable(magic, tx)...)},
		{InvocationScript: payer.SignHashable(magic, tx), VerificationScript: payer.Script()},
	}
	return tx
}

// pool filters transactions through the chain's own memory pool (the way the generator does).
func (w *world) pool(kind string, tx *transaction.Transaction) *transaction.Transaction {
	if tx == nil {
		return nil
	}
	if err := w.bc.PoolTx(tx); err != nil {
		w.res.Inc("rejected_"+kind, 1)
		w.lastErr = fmt.Sprintf("%s: %v", kind, err)
		return nil
	}
	w.kinds[kind]++
	w.res.Inc("tx_"+kind, 1)
	return tx
}

// addBlock seals txs into the next block (random primary), adds it and logs the observation.
func (w *world) addBlock(txs []*transaction.Transaction, extra map[string]any) (*block.Block, error) {
	b, err := w.net.NewBlock(w.bc, uint64(1+w.r.Intn(3)), txs...)
	if err != nil {
		return nil, err
	}
	b.PrimaryIndex = byte(w.r.Intn(w.net.NV))
	b = w.net.Reseal(b)
	if err := w.bc.AddBlock(b); err != nil {
		return nil, fmt.Errorf("block %d rejected: %w", b.Index, err)
	}
	if err := w.observe("block", b, extra); err != nil {
		return nil, err
	}
	return b, nil
}

// observe projects the ledger from storage, collects the block's Transfer events and emits one trace line.
func (w *world) observe(event string, b *block.Block, extra map[string]any) error {
	s, err := Project(w.bc)
	if err != nil {
		return err
	}
	trs, nexec, faults, err := Transfers(w.bc, b)
	if err != nil {
		return err
	}
	w.last = s
	ev := map[string]any{"event": event, "hist": w.id, "src": w.src, "h": b.Index,
		"neoSupply": s.NeoSupply, "gasSupply": s.GasSupply, "voters": s.Voters, "neo": s.Neo, "gas": s.Gas,
		"voteOf": s.VoteOf, "cand": s.Cand, "deposit": s.Deposit, "notary": s.Notary,
		"transfers": trs, "ntx": len(b.Transactions), "nexec": nexec, "faults": faults, "kinds": w.kinds}
	for k, v := range extra {
		ev[k] = v
	}
	w.tr.Emit(ev)
	w.res.Count([]any{w.id, b.Index})
	w.res.Inc("blocks", 1)
	w.res.Inc("transfer_events", len(trs))
	w.res.Inc("executions", nexec)
	w.res.Inc("faulted_executions", faults)
	w.apiDrift(s, b.Index)
	w.kinds = map[string]int{}
	return nil
}

// apiDrift cross-checks the public accessors named by the property's observation points against the storage scan
// (information only: recorded as drift).
func (w *world) apiDrift(s *State, h uint32) {
	for a, v := range s.Gas {
		u, _ := util.Uint160DecodeStringLE(a)
		if w.bc.GetUtilityTokenBalance(u, util.Uint160{}).Cmp(v.Big()) != 0 {
			w.res.AddDrift(map[string]any{"kind": "api-gas-balance", "hist": w.id, "h": h, "account": a})
		}
	}
	for a, v := range s.Neo {
		u, _ := util.Uint160DecodeStringLE(a)
		if nb, _ := w.bc.GetGoverningTokenBalance(u); nb.Cmp(v.Big()) != 0 {
			w.res.AddDrift(map[string]any{"kind": "api-neo-balance", "hist": w.id, "h": h, "account": a})
		}
	}
	for a, v := range s.Deposit {
		u, _ := util.Uint160DecodeStringLE(a)
		if w.bc.GetUtilityTokenBalance(nativehashes.Notary, u).Cmp(v.Big()) != 0 {
			w.res.AddDrift(map[string]any{"kind": "api-deposit", "hist": w.id, "h": h, "account": a})
		}
	}
	enr, err := w.bc.GetEnrollments()
	if err != nil {
		return
	}
	for _, e := range enr {
		k := fmt.Sprintf("%x", e.Key.Bytes())
		c, ok := s.Cand[k]
		if !ok || !c.Registered || c.Votes.Big().Cmp(e.Votes) != 0 {
			w.res.AddDrift(map[string]any{"kind": "api-enrollment", "hist": w.id, "h": h, "candidate": k})
		}
	}
}

// registerPrice reads the candidate registration price (NEO contract, key 13).
func (w *world) registerPrice() int64 {
	si := w.bc.GetStorageItem(nativeids.NeoToken, []byte{13})
	if si == nil {
		return 0
	}
	return bigint.FromBytes(si).Int64()
}
