// Package c07poollife binds spec/poollife to the real node: a proposer core.Blockchain whose memory pool lives across
// blocks (storeBlock -> mempool.RemoveStale with Blockchain.IsTxStillRelevant) and an independent replica
// (VerifyTransactions on, empty pool) fed the same serialized blocks. After every block the block made of
// ApplyPolicyToTxSet(GetMemPool().GetVerifiedTransactions()) is sealed, encoded, decoded and offered to a throw-away
// judge node opened on the replica's database: the refresh must have kept nothing that is no longer admissible.
package c07poollife

import (
	"bytes"
	"encoding/binary"
	"encoding/json"
	"fmt"
	"math"
	"slices"
	"sort"
	"strings"
	"sync"
	"testing"

	"verifharness/internal/chainkit"

	"github.com/nspcc-dev/neo-go/pkg/compiler"
	"github.com/nspcc-dev/neo-go/pkg/config"
	"github.com/nspcc-dev/neo-go/pkg/core"
	"github.com/nspcc-dev/neo-go/pkg/core/fee"
	"github.com/nspcc-dev/neo-go/pkg/core/native"
	"github.com/nspcc-dev/neo-go/pkg/core/native/nativehashes"
	"github.com/nspcc-dev/neo-go/pkg/core/native/nativeids"
	"github.com/nspcc-dev/neo-go/pkg/core/native/nativenames"
	"github.com/nspcc-dev/neo-go/pkg/core/native/noderoles"
	"github.com/nspcc-dev/neo-go/pkg/core/storage"
	"github.com/nspcc-dev/neo-go/pkg/core/transaction"
	"github.com/nspcc-dev/neo-go/pkg/crypto/hash"
	"github.com/nspcc-dev/neo-go/pkg/crypto/keys"
	"github.com/nspcc-dev/neo-go/pkg/neotest"
	"github.com/nspcc-dev/neo-go/pkg/smartcontract"
	"github.com/nspcc-dev/neo-go/pkg/smartcontract/manifest"
	"github.com/nspcc-dev/neo-go/pkg/smartcontract/trigger"
	"github.com/nspcc-dev/neo-go/pkg/util"
	"github.com/nspcc-dev/neo-go/pkg/vm/opcode"
	"github.com/nspcc-dev/neo-go/pkg/vm/stackitem"
	"github.com/nspcc-dev/neo-go/pkg/wallet"
)

const (
	gas        = int64(1_0000_0000)
	execUnit   = int64(10000)         // Policy keeps the execution fee factor in 1/10000 datoshi
	balCap     = int64(2_000_000_000) // balances are reported to TLC (32-bit integers) capped at 20 GAS
	gasForResp = int64(5000_0000)     // what every prepared oracle request prepays
	epoch      = 4                    // committee size = length of a committee epoch
)

// ATx is the abstract transaction record shared with spec/poollife (T[i].id = i).
type ATx struct {
	ID      int            `json:"id"`
	Signers []string       `json:"signers"` // account names, the first one pays ("ORC" = native Oracle, "K" = contract account)
	Vub     int            `json:"vub"`     // relative to the base height
	Nvb     int            `json:"nvb"`     // NotValidBefore (relative), 0 = no attribute
	Size    int            `json:"size"`
	Netfee  int64          `json:"netfee"`
	Sysfee  int64          `json:"sysfee"`
	Wk      int64          `json:"wk"`    // witness verification cost per unit of the execution fee factor
	Std     bool           `json:"std"`   // all witnesses are standard (signature / multi-signature) contracts
	High    bool           `json:"high"`  // HighPriority
	Cmt     int            `json:"cmt"`   // id of the committee that signs (0: none)
	Conf    []int          `json:"conf"`  // ids named by Conflicts attributes
	Orc     int            `json:"orc"`   // oracle request answered (0: none)
	On      int            `json:"on"`    // id of the oracle node set that signs (0: none)
	Nn      int            `json:"nn"`    // id of the notary node set that signs a NotaryAssisted transaction (0: none)
	Wc      string         `json:"wc"`    // verification contract among the signers ("": none)
	Wv      []int          `json:"wv"`    // contract versions under which its verify() accepts
	Amult   map[string]int `json:"amult"` // attribute kind -> number of attribute fee units owed
	// harness-only (ignored by the specification)
	FeeAt *FeeAt `json:"feeat,omitempty"` // random lives: how the network fee is chosen (Netfee == 0)
}

// ASt is the abstract chain state: exactly the facts admissibility depends on.
type ASt struct {
	H       int              `json:"h"`
	Blocked []string         `json:"blocked"`
	Fpb     int64            `json:"fpb"`
	Exec    int64            `json:"exec"`
	Afee    map[string]int64 `json:"afee"`
	Chain   []int            `json:"chain"`
	Named   []NamedRec       `json:"named"` // conflict records: an on-chain transaction signed by By names transaction ID
	Cmt     int              `json:"cmt"`
	Votes   int              `json:"votes"`
	Pending []int            `json:"pending"`
	On      int              `json:"on"`
	Nn      int              `json:"nn"`
	Bal     map[string]int64 `json:"bal"`
	Cver    map[string]int   `json:"cver"`
}

// NamedRec is one conflict record.
type NamedRec struct {
	ID int    `json:"id"`
	By string `json:"by"`
}

// FeeAt says how the network fee of a random-life transaction is chosen: exactly what admission requires at the given
// policy values, plus Slack.
type FeeAt struct {
	Fpb   int64            `json:"fpb"`
	Exec  int64            `json:"exec"`
	Afee  map[string]int64 `json:"afee"`
	Slack int64            `json:"slack"`
}

// Universe is what an init step carries.
type Universe struct {
	Txs   []ATx          `json:"txs"`
	St    ASt            `json:"st"`
	MaxTx int            `json:"maxtx"`
	Till  map[string]int `json:"till,omitempty"` // "DEPx" -> relative height the notary deposit of x is locked until (default 1)
}

var attrKinds = map[string]transaction.AttrType{"high": transaction.HighPriority, "oracle": transaction.OracleResponseT,
	"nvb": transaction.NotValidBeforeT, "conflicts": transaction.ConflictsT, "notary": transaction.NotaryAssistedT}
var attrNames = []string{"conflicts", "high", "notary", "nvb", "oracle"}

type acct struct {
	name string
	kind string // sig | ms | contract | oracle | notary
	h    util.Uint160
	ver  []byte
	keys []*keys.PrivateKey
	m    int
	dep  string // kind notary: the depositor that pays when the Notary contract is the sender ("": Notary only co-signs)
}

func sigAcct(name string) *acct {
	k := chainkit.Key("c07pl-" + name)
	ver := k.PublicKey().GetVerificationScript()
	return &acct{name: name, kind: "sig", h: hash.Hash160(ver), ver: ver, keys: []*keys.PrivateKey{k}, m: 1}
}

func msAcct(name string, m int, ks ...*keys.PrivateKey) *acct {
	ks = slices.Clone(ks)
	slices.SortFunc(ks, func(a, b *keys.PrivateKey) int { return a.PublicKey().Cmp(b.PublicKey()) })
	pubs := make(keys.PublicKeys, len(ks))
	for i := range ks {
		pubs[i] = ks[i].PublicKey()
	}
	ver, err := smartcontract.CreateMultiSigRedeemScript(m, pubs)
	if err != nil {
		panic(err)
	}
	return &acct{name: name, kind: "ms", h: hash.Hash160(ver), ver: ver, keys: ks, m: m}
}

func (a *acct) signer() neotest.Signer {
	if a.kind == "sig" {
		return neotest.NewSingleSigner(wallet.NewAccountFromPrivateKey(a.keys[0]))
	}
	pubs := make(keys.PublicKeys, len(a.keys))
	for i := range a.keys {
		pubs[i] = a.keys[i].PublicKey()
	}
	var accs []*wallet.Account
	for _, k := range a.keys {
		w := wallet.NewAccountFromPrivateKey(k)
		if err := w.ConvertMultisig(a.m, slices.Clone(pubs)); err != nil {
			panic(err)
		}
		accs = append(accs, w)
	}
	return neotest.NewMultiSigner(accs...)
}

const srcK = `package kver
import (
	"github.com/nspcc-dev/neo-go/pkg/interop"
	"github.com/nspcc-dev/neo-go/pkg/interop/native/management"
	"github.com/nspcc-dev/neo-go/pkg/interop/storage"
)
const variant = %d
func _deploy(data any, isUpdate bool) {
	if !isUpdate {
		storage.Put(storage.GetContext(), []byte("f"), 1)
	}
}
func Verify() bool {
	if variant != 1 {
		return false
	}
	v := storage.Get(storage.GetReadOnlyContext(), []byte("f"))
	return v != nil && v.(int) == 1
}
func Set(v int)                   { storage.Put(storage.GetContext(), []byte("f"), v) }
func Update(nef, manifest []byte) { management.Update(nef, manifest) }
func Destroy()                    { management.Destroy() }
func OnNEP17Payment(from interop.Hash160, amount int, data any) {}
`
const srcReq = `package oreq
import (
	"github.com/nspcc-dev/neo-go/pkg/interop/native/oracle"
	"github.com/nspcc-dev/neo-go/pkg/interop/storage"
)
func Request(n int) { oracle.Request("https://verif.example/pl", nil, "cb", n, 50000000) }
func Cb(url string, data any, code int, res []byte) { storage.Put(storage.GetContext(), []byte("r"), res) }
`

var (
	compileOnce sync.Once
	compiled    map[string]*neotest.Contract
)

func compileAll(t testing.TB, sender util.Uint160) map[string]*neotest.Contract {
	compileOnce.Do(func() {
		wild := manifest.NewPermission(manifest.PermissionWildcard)
		wild.Methods = manifest.WildStrings{}
		mk := func(name, src string) *neotest.Contract {
			return neotest.CompileSource(t, sender, strings.NewReader(src), &compiler.Options{
				Name: name, NoEventsCheck: true, NoPermissionsCheck: true, Permissions: []manifest.Permission{*wild}})
		}
		compiled = map[string]*neotest.Contract{
			"K":    mk("c07plK", fmt.Sprintf(srcK, 1)),
			"K3":   mk("c07plK", fmt.Sprintf(srcK, 3)), // the update: same name, verify() refuses
			"oreq": mk("c07plreq", srcReq),
		}
	})
	return compiled
}

// Payers (poor, exact balances), cosigners and a stranger; all plain signature accounts.
var plainNames = []string{"A", "B", "C", "D", "X", "Y", "S"}

type World struct {
	t        testing.TB
	net      *chainkit.Net
	bc       *core.Blockchain // the proposer: its memory pool is the object under test
	rep      *core.Blockchain // independent replica, fed wire blocks only
	repStore storage.Store
	hook     func(*config.Blockchain)
	e        *neotest.Executor
	raws     [][]byte
	acc      map[string]*acct
	ops      *acct // pays for scenario transactions (policy changes etc.)
	cands    []*acct
	cmt      map[int]*acct // committee id -> its multi-signature account
	onodes   map[int]*acct
	nnodes   map[int]*keys.PrivateKey
	reqC     util.Uint160
	kHash    util.Uint160
	base     uint32
	nreq     int
	u        Universe
	txs      []*transaction.Transaction // realised universe, index id-1
	idOf     map[util.Uint256]int
	named    map[int][]string
	scanned  uint32
	nonce    uint32
	sink     util.Uint160
	costs    map[string]int64 // measured verification cost of non-standard witnesses per execution fee unit
	wk       []int64          // per universe transaction: verification cost per execution fee unit
	std      []bool           // per universe transaction: all witnesses are standard contracts
}

// NewWorld prepares proposer and replica up to the base height and realises the universe.
func NewWorld(t testing.TB, u Universe) (w *World, err error) {
	defer func() {
		if r := recover(); r != nil {
			err = fmt.Errorf("world construction panicked: %v", r)
		}
	}()
	w = &World{t: t, net: chainkit.NewNet(epoch, 1), acc: map[string]*acct{}, cmt: map[int]*acct{}, onodes: map[int]*acct{},
		nnodes: map[int]*keys.PrivateKey{}, idOf: map[util.Uint256]int{}, named: map[int][]string{}, u: u, costs: map[string]int64{}}
	w.hook = func(c *config.Blockchain) {
		c.MaxTransactionsPerBlock = uint16(max(u.MaxTx, 1))
		c.MemPoolSize = 64
	}
	if w.bc, err = w.net.NewChain(nil, w.hook); err != nil {
		return nil, err
	}
	w.repStore = storage.NewMemoryStore()
	if w.rep, err = w.net.NewChain(w.repStore, w.hook); err != nil {
		w.bc.Close()
		return nil, err
	}
	chainkit.Start(w.bc)
	chainkit.Start(w.rep)
	w.e = w.net.Executor(t, w.bc)
	e := w.e
	for _, n := range plainNames {
		w.acc[n] = sigAcct(n)
	}
	w.ops = sigAcct("OPS")
	w.sink = sigAcct("SINK").h
	for i := 0; i < epoch; i++ {
		w.cands = append(w.cands, sigAcct(fmt.Sprintf("CAND%d", i)))
	}
	var sb, cd []*keys.PrivateKey
	for i := 0; i < epoch; i++ {
		sb = append(sb, chainkit.Key(fmt.Sprintf("committee-%d", i)))
		cd = append(cd, w.cands[i].keys[0])
	}
	w.cmt[1] = msAcct("CMT1", smartcontract.GetMajorityHonestNodeCount(epoch), sb...)
	w.cmt[2] = msAcct("CMT2", smartcontract.GetMajorityHonestNodeCount(epoch), cd...)
	w.onodes[1] = msAcct("ON1", 1, chainkit.Key("c07pl-oracle-1"))
	w.onodes[2] = msAcct("ON2", 1, chainkit.Key("c07pl-oracle-2"))
	w.nnodes[1] = chainkit.Key("c07pl-notary-1")
	w.nnodes[2] = chainkit.Key("c07pl-notary-2")
	cs := compileAll(t, e.Validator.ScriptHash())
	w.kHash, w.reqC = cs["K"].Hash, cs["oreq"].Hash
	w.acc["K"] = &acct{name: "K", kind: "contract", h: w.kHash}
	w.acc["ORC"] = &acct{name: "ORC", kind: "oracle", h: nativehashes.OracleContract}
	w.acc["NOTARY"] = &acct{name: "NOTARY", kind: "notary", h: nativehashes.Notary}
	for _, d := range []string{"A", "B", "C", "D"} {
		w.acc["DEP"+d] = &acct{name: "DEP" + d, kind: "notary", h: nativehashes.Notary, dep: d}
	}
	gasH, neoH, polH := e.NativeHash(t, nativenames.Gas), e.NativeHash(t, nativenames.Neo), e.NativeHash(t, nativenames.Policy)
	desH, mgmH := e.NativeHash(t, nativenames.Designation), e.NativeHash(t, nativenames.Management)
	val := []neotest.Signer{e.Validator}
	cmt := []neotest.Signer{e.Committee}
	vh := e.Validator.ScriptHash()
	nOracle := 0
	for _, a := range u.Txs {
		nOracle = max(nOracle, a.Orc)
	}
	for _, p := range u.St.Pending {
		nOracle = max(nOracle, p)
	}
	// block 1: funding of the rich accounts, deployments
	var txs []*transaction.Transaction
	txs = append(txs, w.prep(val, 0, gasH, "transfer", vh, w.ops.h, 20000*gas, nil))
	txs = append(txs, w.prep(val, 0, gasH, "transfer", vh, e.Committee.ScriptHash(), 2000*gas, nil))
	for _, n := range []string{"X", "Y", "S"} {
		txs = append(txs, w.prep(val, 0, gasH, "transfer", vh, w.acc[n].h, 1000*gas, nil))
	}
	for _, c := range w.cands {
		txs = append(txs, w.prep(val, 0, gasH, "transfer", vh, c.h, 1100*gas, nil))
	}
	txs = append(txs, w.prep(val, 0, neoH, "transfer", vh, w.cands[0].h, int64(30_000_000), nil))
	for _, n := range []string{"K", "oreq"} {
		nb, _ := cs[n].NEF.Bytes()
		mb, _ := json.Marshal(cs[n].Manifest)
		txs = append(txs, w.prep(val, 30*gas, mgmH, "deploy", nb, mb))
	}
	if err = w.addBlock(true, txs...); err != nil {
		return w, err
	}
	// block 2: candidates, roles, policy values of the initial state
	txs = nil
	for _, c := range w.cands {
		txs = append(txs, w.prep([]neotest.Signer{c.signer()}, 1001*gas, neoH, "registerCandidate", c.keys[0].PublicKey().Bytes()))
	}
	txs = append(txs, w.prep(cmt, 0, desH, "designateAsRole", int64(noderoles.Oracle), []any{w.onodes[max(u.St.On, 1)].keys[0].PublicKey().Bytes()}))
	txs = append(txs, w.prep(cmt, 0, desH, "designateAsRole", int64(noderoles.P2PNotary), []any{w.nnodes[max(u.St.Nn, 1)].PublicKey().Bytes()}))
	txs = append(txs, w.prep(cmt, 0, polH, "setFeePerByte", u.St.Fpb))
	txs = append(txs, w.prep(cmt, 0, polH, "setExecFeeFactor", u.St.Exec*execUnit))
	for _, k := range attrNames {
		if v, ok := u.St.Afee[k]; ok {
			txs = append(txs, w.prep(cmt, 0, polH, "setAttributeFee", int64(attrKinds[k]), v))
		}
	}
	for _, b := range u.St.Blocked {
		txs = append(txs, w.prep(cmt, 0, polH, "blockAccount", w.acc[b].h))
	}
	if err = w.addBlock(true, txs...); err != nil {
		return w, err
	}
	// block 3: oracle requests 0..nOracle (request 0 is answered right away: model ids start at 1)
	txs = nil
	for i := 0; i <= nOracle; i++ {
		txs = append(txs, w.prep(val, 2*gas, w.reqC, "request", int64(i)))
	}
	w.nreq = nOracle + 1
	if err = w.addBlock(true, txs...); err != nil {
		return w, err
	}
	// block 4: requests that are not pending in the initial state are answered
	txs = nil
	for i := 0; i <= nOracle; i++ {
		if !slices.Contains(u.St.Pending, i) {
			txs = append(txs, w.oracleResponse(i, max(u.St.On, 1), 0, 0, uint32(0x6000_0000+i), w.bc.BlockHeight()+5, nil))
		}
	}
	if err = w.addBlock(false, txs...); err != nil {
		return w, err
	}
	// blocks 5..: notary deposits (made by the depositors themselves: only the owner sets the lock height), then exact
	// balances of the poor payers (the last preparation block), aligned so that base % epoch == 1
	names := make([]string, 0, len(u.St.Bal))
	for n := range u.St.Bal {
		names = append(names, n)
	}
	sort.Strings(names)
	var deps []string
	for _, n := range names {
		if strings.HasPrefix(n, "DEP") && u.St.Bal[n] > 0 {
			deps = append(deps, n)
		}
	}
	nb := 1
	if len(deps) > 0 {
		nb = 3
	}
	for (w.bc.BlockHeight()+uint32(nb))%epoch != 1 {
		if err = w.addBlock(true); err != nil {
			return w, err
		}
	}
	if len(deps) > 0 {
		base := w.bc.BlockHeight() + 3
		var fund, dep []*transaction.Transaction
		for _, n := range deps {
			a, ok := w.acc[n]
			if !ok || a.dep == "" {
				return w, fmt.Errorf("unknown deposit %q", n)
			}
			d := w.acc[a.dep]
			till := 1
			if t, ok := u.Till[n]; ok {
				till = t
			}
			tx := w.prep([]neotest.Signer{d.signer()}, 0, gasH, "transfer", d.h, nativehashes.Notary, u.St.Bal[n], []any{nil, int64(base) + int64(till)})
			dep = append(dep, tx)
			fund = append(fund, w.prep(val, 0, gasH, "transfer", vh, d.h, u.St.Bal[n]+tx.NetworkFee+tx.SystemFee, nil)) // spent to the last datoshi
		}
		if err = w.addBlock(true, fund...); err != nil {
			return w, err
		}
		if err = w.addBlock(true, dep...); err != nil {
			return w, err
		}
	}
	txs = nil
	for _, n := range names {
		if n == "ORC" || u.St.Bal[n] == 0 || strings.HasPrefix(n, "DEP") {
			continue
		}
		a, ok := w.acc[n]
		if !ok {
			return w, fmt.Errorf("unknown payer %q", n)
		}
		amt := u.St.Bal[n]
		if amt >= balCap {
			amt = 500 * gas
		}
		txs = append(txs, w.prep(val, 0, gasH, "transfer", vh, a.h, amt, nil))
	}
	if err = w.addBlock(true, txs...); err != nil {
		return w, err
	}
	w.base = w.bc.BlockHeight()
	w.scanned = w.base
	if w.base%epoch != 1 {
		return w, fmt.Errorf("base height %d not aligned", w.base)
	}
	for i := range u.Txs {
		tx, wk, std, err := w.Realise(u.Txs[i])
		if err != nil {
			return w, fmt.Errorf("tx %d: %w", u.Txs[i].ID, err)
		}
		w.txs = append(w.txs, tx)
		w.wk = append(w.wk, wk)
		w.std = append(w.std, std)
		w.idOf[tx.Hash()] = u.Txs[i].ID
	}
	return w, nil
}

func (w *World) Close() {
	if w.bc != nil {
		w.bc.Close()
	}
	if w.rep != nil {
		w.rep.Close()
	}
}

func (w *World) rel() int { return int(w.bc.BlockHeight()) - int(w.base) }

// prep builds a preparation / scenario transaction: explicit generous fees, so that it never depends on the policy values
// it changes (the fee per byte may be raised to its maximum by the scenario).
func (w *World) prep(signers []neotest.Signer, sysfee int64, h util.Uint160, method string, args ...any) *transaction.Transaction {
	tx := w.e.NewUnsignedTx(w.t, h, method, args...)
	w.nonce++
	tx.Nonce = 0x7000_0000 + w.nonce
	tx.ValidUntilBlock = w.bc.BlockHeight() + 20
	tx.NetworkFee = 3 * gas
	if sysfee == 0 {
		sysfee = 4 * gas
	}
	return w.e.SignTx(w.t, tx, sysfee, signers...)
}

// committeeNow returns the signers of a committee-only scenario transaction: OPS pays, the CURRENT committee co-signs.
func (w *World) committeeNow() []neotest.Signer {
	id := w.committeeID()
	if (w.bc.BlockHeight()+1)%epoch == 0 {
		// the next block opens an epoch: the committee the votes elected sits before its transactions run
		id = w.State().Votes
	}
	return []neotest.Signer{w.ops.signer(), w.cmt[id].signer()}
}

func (w *World) committeeID() int {
	pubs, err := w.bc.GetCommittee()
	if err != nil {
		return 0
	}
	for id, a := range w.cmt {
		n := 0
		for _, k := range a.keys {
			if pubs.Contains(k.PublicKey()) {
				n++
			}
		}
		if n == len(pubs) && n == len(a.keys) {
			return id
		}
	}
	return 0
}

// addBlock makes the next block of txs, sends its wire form to proposer and replica.
func (w *World) addBlock(mustHalt bool, txs ...*transaction.Transaction) error {
	b, err := w.net.NewBlock(w.bc, 1, txs...)
	if err != nil {
		return err
	}
	raw, err := chainkit.EncodeBlock(b)
	if err != nil {
		return err
	}
	return w.feed(raw, mustHalt, txs)
}

func (w *World) feed(raw []byte, mustHalt bool, txs []*transaction.Transaction) error {
	d, err := chainkit.DecodeBlock(raw, false)
	if err != nil {
		return err
	}
	// the replica first: a block it refuses must not reach the proposer either
	if err := w.rep.AddBlock(d); err != nil {
		return fmt.Errorf("replica: block %d rejected: %w", d.Index, err)
	}
	d2, _ := chainkit.DecodeBlock(raw, false)
	if err := w.bc.AddBlock(d2); err != nil {
		return fmt.Errorf("proposer: block %d rejected although the replica took it: %w", d2.Index, err)
	}
	w.raws = append(w.raws, raw)
	for _, tx := range txs {
		if !mustHalt {
			break
		}
		aer, err := w.bc.GetAppExecResults(tx.Hash(), trigger.Application)
		if err != nil || len(aer) == 0 || aer[0].VMState.String() != "HALT" {
			f := ""
			if len(aer) > 0 {
				f = aer[0].FaultException
			}
			return fmt.Errorf("tx %s in block %d did not HALT: %v %s", tx.Hash().StringLE(), d.Index, err, f)
		}
	}
	return nil
}

// judge offers wire bytes of a would-be next block to a throw-away node opened on a private layer over the replica's
// database (the replica itself is not touched). Returns the node's verdict.
func (w *World) judge(raw []byte) error {
	w.rep.VerifPersist()
	j, err := w.net.NewChain(storage.NewMemCachedStore(keepOpen{w.repStore}), w.hook)
	if err != nil {
		return fmt.Errorf("judge node: %w", err)
	}
	chainkit.Start(j)
	defer j.Close()
	if j.BlockHeight() != w.rep.BlockHeight() {
		return fmt.Errorf("judge node opened at height %d, replica is at %d", j.BlockHeight(), w.rep.BlockHeight())
	}
	d, err := chainkit.DecodeBlock(raw, false)
	if err != nil {
		return fmt.Errorf("decode: %w", err)
	}
	return j.AddBlock(d)
}

// keepOpen shields the replica's database from the Close of a judge node.
type keepOpen struct{ storage.Store }

func (keepOpen) Close() error { return nil }

func sigPush(sig []byte) []byte { return append([]byte{byte(opcode.PUSHDATA1), 64}, sig...) }

func (w *World) witness(a *acct, tx *transaction.Transaction, nn int) transaction.Witness {
	magic := uint32(w.net.Magic)
	switch a.kind {
	case "sig", "ms":
		var inv []byte
		for i := 0; i < a.m; i++ {
			sig := make([]byte, 64)
			if tx != nil {
				sig = a.keys[i].SignHashable(magic, tx)
			}
			inv = append(inv, sigPush(sig)...)
		}
		return transaction.Witness{InvocationScript: inv, VerificationScript: a.ver}
	case "notary":
		sig := make([]byte, 64)
		if tx != nil {
			sig = w.nnodes[nn].SignHashable(magic, tx)
		}
		return transaction.Witness{InvocationScript: sigPush(sig), VerificationScript: []byte{}}
	}
	return transaction.Witness{InvocationScript: []byte{}, VerificationScript: []byte{}}
}

func padScript(pad int) []byte {
	s := []byte{byte(opcode.PUSHDATA2), 0, 0}
	binary.LittleEndian.PutUint16(s[1:], uint16(pad))
	s = append(s, make([]byte, pad)...)
	return append(s, byte(opcode.DROP), byte(opcode.RET))
}

// accounts resolves the signer names of an abstract transaction.
func (w *World) accounts(a ATx) ([]*acct, error) {
	var r []*acct
	for _, n := range a.Signers {
		switch {
		case n == "CMT":
			c, ok := w.cmt[a.Cmt]
			if !ok {
				return nil, fmt.Errorf("committee %d unknown", a.Cmt)
			}
			r = append(r, c)
		case n == "ON":
			c, ok := w.onodes[a.On]
			if !ok {
				return nil, fmt.Errorf("oracle node set %d unknown", a.On)
			}
			r = append(r, c)
		default:
			c, ok := w.acc[n]
			if !ok {
				return nil, fmt.Errorf("account %q unknown", n)
			}
			r = append(r, c)
		}
	}
	return r, nil
}

// shape assembles the transaction of an abstract record with the given padding (tx != nil: real signatures).
func (w *World) shape(a ATx, accts []*acct, pad int, conf []util.Uint256) *transaction.Transaction {
	var tx *transaction.Transaction
	if a.Orc != 0 {
		tx = transaction.New(native.CreateOracleResponseScript(nativehashes.OracleContract), a.Sysfee)
		tx.Attributes = append(tx.Attributes, transaction.Attribute{Type: transaction.OracleResponseT,
			Value: &transaction.OracleResponse{ID: uint64(a.Orc), Code: transaction.Success, Result: make([]byte, pad)}})
	} else {
		tx = transaction.New(padScript(pad), a.Sysfee)
	}
	tx.Nonce = uint32(a.ID)
	tx.NetworkFee = a.Netfee
	tx.ValidUntilBlock = w.base + uint32(a.Vub)
	if a.High {
		tx.Attributes = append(tx.Attributes, transaction.Attribute{Type: transaction.HighPriority})
	}
	if a.Nvb != 0 {
		tx.Attributes = append(tx.Attributes, transaction.Attribute{Type: transaction.NotValidBeforeT, Value: &transaction.NotValidBefore{Height: w.base + uint32(a.Nvb)}})
	}
	for _, h := range conf {
		tx.Attributes = append(tx.Attributes, transaction.Attribute{Type: transaction.ConflictsT, Value: &transaction.Conflicts{Hash: h}})
	}
	if a.Nn != 0 {
		tx.Attributes = append(tx.Attributes, transaction.Attribute{Type: transaction.NotaryAssistedT, Value: &transaction.NotaryAssisted{NKeys: 1}})
	}
	for _, c := range accts {
		sc := transaction.CalledByEntry
		if a.Orc != 0 || c.kind == "notary" {
			sc = transaction.None
		}
		tx.Signers = append(tx.Signers, transaction.Signer{Account: c.h, Scopes: sc})
		tx.Scripts = append(tx.Scripts, w.witness(c, nil, a.Nn))
	}
	return tx
}

// Realise builds the concrete transaction of an abstract record: exactly a.Size bytes (0: as it comes), fees as given
// (or computed from a.FeeAt), witnesses valid. Transactions named by Conflicts attributes must have been realised
// before (lower ids). Also returns the verification cost of its witnesses per unit of the execution fee factor and
// whether all of them are standard contracts.
func (w *World) Realise(a ATx) (*transaction.Transaction, int64, bool, error) {
	accts, err := w.accounts(a)
	if err != nil {
		return nil, 0, false, err
	}
	var conf []util.Uint256
	for _, c := range a.Conf {
		if c < 1 || c > len(w.txs) {
			return nil, 0, false, fmt.Errorf("Conflicts attribute names tx %d which is not realised yet", c)
		}
		conf = append(conf, w.txs[c-1].Hash())
	}
	wk, std := stdCost(accts)
	ns, err := w.nonStdCost(a, accts)
	if err != nil {
		return nil, 0, false, err
	}
	wk += ns
	pad := 100
	var tx *transaction.Transaction
	if a.FeeAt != nil && a.Size != 0 && w.shape(a, accts, 0, conf).Size() > a.Size {
		a.Size = 0 // random lives: a wanted size below what the shape needs means "as it comes"
	}
	for try := 0; ; try++ {
		tx = w.shape(a, accts, pad, conf)
		l := tx.Size()
		if a.Size == 0 || l == a.Size {
			break
		}
		pad += a.Size - l
		if (pad < 0 || pad > 60000 || try > 6) && a.FeeAt != nil {
			a.Size, pad = 0, 100 // a size no padding reaches (var-int boundary): as it comes
			continue
		}
		if pad < 0 || pad > 60000 || try > 6 {
			return nil, 0, false, fmt.Errorf("cannot pad to %d bytes (pad %d, got %d)", a.Size, pad, l)
		}
	}
	if f := a.FeeAt; a.Netfee == 0 && f != nil {
		units := map[string]int64{"conflicts": int64(len(conf) * len(accts))}
		if a.High {
			units["high"] = 1
		}
		if a.Nvb != 0 {
			units["nvb"] = 1
		}
		if a.Orc != 0 {
			units["oracle"] = 1
		}
		if a.Nn != 0 {
			units["notary"] = 2
		}
		tx.NetworkFee = int64(tx.Size())*f.Fpb + wk*f.Exec + f.Slack
		for k, n := range units {
			tx.NetworkFee += n * f.Afee[k]
		}
		if a.Orc != 0 {
			tx.SystemFee = gasForResp - tx.NetworkFee
			if tx.SystemFee < 0 {
				return nil, 0, false, fmt.Errorf("oracle response needs a network fee of %d, more than the request prepaid", tx.NetworkFee)
			}
		}
	}
	for i, c := range accts {
		tx.Scripts[i] = w.witness(c, tx, a.Nn)
	}
	// through the wire form, like every transaction a node receives
	r, err := transaction.NewTransactionFromBytes(tx.Bytes())
	return r, wk, std, err
}

// stdCostPerExecUnit is the verification cost of the standard witnesses of accts per unit of the execution fee factor.
func stdCost(accts []*acct) (int64, bool) {
	var k int64
	std := true
	for _, a := range accts {
		if a.kind == "sig" || a.kind == "ms" {
			f, _ := fee.Calculate(execUnit, a.ver)
			k += f
		} else {
			std = false
		}
	}
	return k, std
}

// oracleResponse builds a response transaction outside the universe (scenario steps).
func (w *World) oracleResponse(id, on int, size int, netfee int64, nonce uint32, vub uint32, result []byte) *transaction.Transaction {
	nodes := w.onodes[on]
	tx := transaction.New(native.CreateOracleResponseScript(nativehashes.OracleContract), 0)
	tx.Nonce = nonce
	tx.ValidUntilBlock = vub
	tx.Attributes = []transaction.Attribute{{Type: transaction.OracleResponseT,
		Value: &transaction.OracleResponse{ID: uint64(id), Code: transaction.Success, Result: result}}}
	tx.Signers = []transaction.Signer{{Account: nativehashes.OracleContract, Scopes: transaction.None}, {Account: nodes.h, Scopes: transaction.None}}
	tx.NetworkFee = gasForResp * 4 / 5
	if netfee != 0 {
		tx.NetworkFee = netfee
	}
	tx.SystemFee = gasForResp - tx.NetworkFee
	tx.Scripts = []transaction.Witness{{InvocationScript: []byte{}, VerificationScript: []byte{}}, w.witness(nodes, nil, 0)}
	tx.Scripts[1] = w.witness(nodes, tx, 0)
	return tx
}

// --------------------------------------------------------------------------------------------------------------------
// reading the abstract state back from the real chain

func (w *World) invokeItem(h util.Uint160, method string, args ...any) (any, error) {
	tx := w.e.NewUnsignedTx(w.t, h, method, args...)
	tx.Signers = []transaction.Signer{{Account: w.e.Validator.ScriptHash(), Scopes: transaction.None}}
	v, err := w.e.TestInvoke(tx)
	if err != nil {
		return nil, err
	}
	return v.Estack().Pop().Item().Value(), nil
}

func (w *World) scanNamed() {
	for h := w.scanned + 1; h <= w.bc.BlockHeight(); h++ {
		b, err := w.bc.GetBlock(w.bc.GetHeaderHash(h))
		if err != nil {
			panic(err)
		}
		for _, tx := range b.Transactions {
			for _, at := range tx.GetAttributes(transaction.ConflictsT) {
				id, ok := w.idOf[at.Value.(*transaction.Conflicts).Hash]
				if !ok {
					continue
				}
				for _, s := range tx.Signers {
					n := w.nameOf(s.Account)
					if n == "OPS" { // pays for scenario transactions, never signs a transaction of the universe
						continue
					}
					if !slices.Contains(w.named[id], n) {
						w.named[id] = append(w.named[id], n)
					}
				}
			}
		}
		w.scanned = h
	}
}

func (w *World) nameOf(h util.Uint160) string {
	for n, a := range w.acc {
		if a.h.Equals(h) {
			return n
		}
	}
	for id, a := range w.cmt {
		if a.h.Equals(h) {
			return fmt.Sprintf("CMT%d", id)
		}
	}
	for id, a := range w.onodes {
		if a.h.Equals(h) {
			return fmt.Sprintf("ON%d", id)
		}
	}
	if w.ops.h.Equals(h) {
		return "OPS"
	}
	return "?" + h.StringLE()[:6]
}

func capBal(v int64) int64 {
	if v > balCap {
		return balCap
	}
	return v
}

// State reads the abstract state from the proposer's chain.
func (w *World) State() ASt {
	bc := w.bc
	polH := w.e.NativeHash(w.t, nativenames.Policy)
	st := ASt{H: w.rel(), Fpb: bc.FeePerByte(), Exec: bc.GetBaseExecFee() / execUnit, Afee: map[string]int64{}, Named: []NamedRec{},
		Bal: map[string]int64{}, Cver: map[string]int{}, Blocked: []string{}, Chain: []int{}, Pending: []int{}}
	if bc.GetBaseExecFee()%execUnit != 0 {
		st.Exec = -1 // not representable: the driver keeps execution fee factors integral
	}
	names := make([]string, 0, len(w.acc))
	for n := range w.acc {
		names = append(names, n)
	}
	sort.Strings(names)
	for _, n := range names {
		a := w.acc[n]
		if a.kind == "sig" || a.kind == "contract" {
			if v, err := w.invokeItem(polH, "isBlocked", a.h); err == nil && v.(bool) {
				st.Blocked = append(st.Blocked, n)
			}
		}
		if a.kind != "notary" {
			st.Bal[n] = capBal(bc.GetUtilityTokenBalance(a.h, util.Uint160{}).Int64())
		} else if a.dep != "" {
			st.Bal[n] = capBal(bc.GetUtilityTokenBalance(a.h, w.acc[a.dep].h).Int64())
		}
	}
	// attribute fees as the node charges them: a probe transaction with one attribute
	for _, k := range attrNames {
		p := transaction.New([]byte{byte(opcode.RET)}, 0)
		p.Signers = []transaction.Signer{{}}
		p.Attributes = []transaction.Attribute{{Type: attrKinds[k]}}
		if k == "notary" {
			p.Attributes[0].Value = &transaction.NotaryAssisted{NKeys: 0}
		}
		st.Afee[k] = bc.CalculateAttributesFee(p)
	}
	for i, tx := range w.txs {
		if _, ht, err := bc.GetTransaction(tx.Hash()); err == nil && ht != math.MaxUint32 { // MaxUint32: only pooled
			st.Chain = append(st.Chain, i+1)
		}
	}
	w.scanNamed()
	for id := 1; id <= len(w.txs); id++ {
		l := slices.Clone(w.named[id])
		sort.Strings(l)
		for _, n := range l {
			st.Named = append(st.Named, NamedRec{ID: id, By: n})
		}
	}
	st.Cmt = w.committeeID()
	st.Votes = 1
	if v, err := w.invokeItem(w.e.NativeHash(w.t, nativenames.Neo), "getAccountState", w.cands[0].h); err == nil {
		if arr, ok := v.([]stackitem.Item); ok && len(arr) > 2 {
			if _, null := arr[2].(stackitem.Null); !null {
				st.Votes = 2
			}
		}
	}
	for i := 1; i < w.nreq; i++ {
		key := append([]byte{7}, make([]byte, 8)...)
		binary.BigEndian.PutUint64(key[1:], uint64(i))
		if bc.GetStorageItem(nativeids.OracleContract, key) != nil {
			st.Pending = append(st.Pending, i)
		}
	}
	if pubs, _, err := bc.GetDesignatedByRole(noderoles.Oracle); err == nil {
		for id, a := range w.onodes {
			if len(pubs) == 1 && pubs[0].Equal(a.keys[0].PublicKey()) {
				st.On = id
			}
		}
	}
	if pubs, _, err := bc.GetDesignatedByRole(noderoles.P2PNotary); err == nil {
		for id, k := range w.nnodes {
			if len(pubs) == 1 && pubs[0].Equal(k.PublicKey()) {
				st.Nn = id
			}
		}
	}
	st.Cver["K"] = w.kVersion()
	return st
}

// kVersion: 0 destroyed, 3 updated (verify refuses), 2 flag cleared, 1 verify accepts.
func (w *World) kVersion() int {
	cs := w.bc.GetContractState(w.kHash)
	if cs == nil {
		return 0
	}
	if cs.UpdateCounter > 0 {
		return 3
	}
	si := w.bc.GetStorageItem(cs.ID, []byte("f"))
	if si != nil && bytes.Equal(si, []byte{1}) {
		return 1
	}
	return 2
}
