package c07poollife

import (
	"encoding/json"
	"fmt"
	"slices"

	"verifharness/internal/chainkit"

	"github.com/nspcc-dev/neo-go/pkg/core/native/nativehashes"
	"github.com/nspcc-dev/neo-go/pkg/core/native/nativenames"
	"github.com/nspcc-dev/neo-go/pkg/core/native/noderoles"
	"github.com/nspcc-dev/neo-go/pkg/core/transaction"
	"github.com/nspcc-dev/neo-go/pkg/neotest"
	"github.com/nspcc-dev/neo-go/pkg/vm/opcode"
)

// Blk is a block made by somebody else: at most one scenario operation and universe transactions it includes.
type Blk struct {
	Op  string `json:"op"`
	A   string `json:"a"`
	V   int64  `json:"v"`
	Inc []int  `json:"inc"`
}

// nonStdCost measures what the verification of the non-standard witnesses of the accounts costs per unit of the
// execution fee factor, on the replica, with a probe transaction signed for the node sets designated right now.
func (w *World) nonStdCost(a ATx, accts []*acct) (int64, error) {
	var sum int64
	exec := w.rep.GetBaseExecFee() / execUnit
	for _, c := range accts {
		if c.kind == "sig" || c.kind == "ms" {
			continue
		}
		key := fmt.Sprintf("%s@%d", c.kind, exec)
		if v, ok := w.costs[key]; ok {
			sum += v
			continue
		}
		// a canonical probe per kind: it must verify whatever the universe's own transaction looks like
		p := ATx{ID: 9999, Signers: []string{"X", c.name}, Vub: 3}
		switch c.kind {
		case "notary":
			p.Signers[1], p.Nn = "NOTARY", w.State().Nn
		case "oracle":
			p = ATx{ID: 9999, Signers: []string{"ORC", "ON"}, Vub: 3, Orc: max(a.Orc, 1), On: max(a.On, 1)}
		}
		pa, err := w.accounts(p)
		if err != nil {
			return 0, err
		}
		tx := w.shape(p, pa, 50, nil)
		var g int64 = -1
		for i, x := range pa {
			tx.Scripts[i] = w.witness(x, tx, p.Nn)
			if x.kind == c.kind {
				if g, err = w.rep.VerifyWitness(x.h, tx, &tx.Scripts[i], 10*gas); err != nil {
					return 0, fmt.Errorf("cannot measure the %s witness: %w", c.kind, err)
				}
			}
		}
		if g < 0 || g%exec != 0 {
			return 0, fmt.Errorf("%s witness cost %d is not a multiple of the execution fee factor %d", c.kind, g, exec)
		}
		w.costs[key] = g / exec
		sum += g / exec
	}
	return sum, nil
}

// Record is the abstract record of transaction id as realised (read back from the real transaction).
func (w *World) Record(id int) ATx {
	a := w.u.Txs[id-1]
	tx := w.txs[id-1]
	a.Size, a.Netfee, a.Sysfee = tx.Size(), tx.NetworkFee, tx.SystemFee
	a.Vub = int(tx.ValidUntilBlock) - int(w.base)
	a.Wk = w.wk[id-1]
	a.Std = w.std[id-1]
	a.High = tx.HasAttribute(transaction.HighPriority)
	a.Amult = map[string]int{"conflicts": len(tx.GetAttributes(transaction.ConflictsT)) * len(tx.Signers), "high": len(tx.GetAttributes(transaction.HighPriority)),
		"notary": 0, "nvb": len(tx.GetAttributes(transaction.NotValidBeforeT)), "oracle": len(tx.GetAttributes(transaction.OracleResponseT))}
	for _, at := range tx.GetAttributes(transaction.NotaryAssistedT) {
		a.Amult["notary"] += int(at.Value.(*transaction.NotaryAssisted).NKeys) + 1
	}
	a.Conf = []int{}
	for _, at := range tx.GetAttributes(transaction.ConflictsT) {
		a.Conf = append(a.Conf, w.idOf[at.Value.(*transaction.Conflicts).Hash])
	}
	if a.Wv == nil {
		a.Wv = []int{}
	}
	a.FeeAt = nil
	return a
}

// opTx builds the scenario transaction of a block operation (nil: none needed).
func (w *World) opTx(b Blk) (tx *transaction.Transaction, err error) {
	defer func() {
		if r := recover(); r != nil {
			err = fmt.Errorf("scenario transaction %s: %v", b.Op, r)
		}
	}()
	e := w.e
	polH, desH := e.NativeHash(w.t, nativenames.Policy), e.NativeHash(w.t, nativenames.Designation)
	ops := []neotest.Signer{w.ops.signer()}
	switch b.Op {
	case "none", "":
		return nil, nil
	case "block":
		return w.prep(w.committeeNow(), 0, polH, "blockAccount", w.acc[b.A].h), nil
	case "unblock":
		return w.prep(w.committeeNow(), 0, polH, "unblockAccount", w.acc[b.A].h), nil
	case "fpb":
		return w.prep(w.committeeNow(), 0, polH, "setFeePerByte", b.V), nil
	case "exec":
		return w.prep(w.committeeNow(), 0, polH, "setExecFeeFactor", b.V*execUnit), nil
	case "afee":
		return w.prep(w.committeeNow(), 0, polH, "setAttributeFee", int64(attrKinds[b.A]), b.V), nil
	case "vote":
		c := w.cands[0]
		var to any
		if b.V == 2 {
			to = c.keys[0].PublicKey().Bytes()
		}
		return w.prep([]neotest.Signer{c.signer()}, 0, e.NativeHash(w.t, nativenames.Neo), "vote", c.h, to), nil
	case "answer":
		st := w.State()
		if !slices.Contains(st.Pending, int(b.V)) || st.On == 0 {
			return nil, fmt.Errorf("request %d is not pending", b.V)
		}
		w.nonce++
		return w.oracleResponse(int(b.V), st.On, 0, 0, 0x6100_0000+w.nonce, w.bc.BlockHeight()+5, []byte("other")), nil
	case "onodes":
		return w.prep(w.committeeNow(), 0, desH, "designateAsRole", int64(noderoles.Oracle), []any{w.onodes[int(b.V)].keys[0].PublicKey().Bytes()}), nil
	case "nnodes":
		return w.prep(w.committeeNow(), 0, desH, "designateAsRole", int64(noderoles.P2PNotary), []any{w.nnodes[int(b.V)].PublicKey().Bytes()}), nil
	case "cver":
		switch b.V {
		case 1:
			return w.prep(ops, 0, w.kHash, "set", int64(1)), nil
		case 2:
			return w.prep(ops, 0, w.kHash, "set", int64(0)), nil
		case 3:
			c := compiled["K3"]
			nb, _ := c.NEF.Bytes()
			mb, _ := json.Marshal(c.Manifest)
			return w.prep(ops, 20*gas, w.kHash, "update", nb, mb), nil
		case 0:
			return w.prep(ops, 0, w.kHash, "destroy"), nil
		}
	case "drain":
		p := w.acc[b.A]
		return w.prep([]neotest.Signer{w.ops.signer(), p.signer()}, 0, e.NativeHash(w.t, nativenames.Gas), "transfer", p.h, w.sink, b.V, nil), nil
	case "withdraw":
		d := w.acc[w.acc[b.A].dep]
		return w.prep([]neotest.Signer{w.ops.signer(), d.signer()}, 0, nativehashes.Notary, "withdraw", d.h, w.sink), nil
	case "conflict":
		by, ok := w.acc[b.A]
		if !ok || by.kind != "sig" {
			return nil, fmt.Errorf("conflict by %q", b.A)
		}
		tx := transaction.New([]byte{byte(opcode.RET)}, 100000)
		w.nonce++
		tx.Nonce = 0x6200_0000 + w.nonce
		tx.ValidUntilBlock = w.bc.BlockHeight() + 20
		tx.NetworkFee = 3 * gas
		tx.Attributes = []transaction.Attribute{{Type: transaction.ConflictsT, Value: &transaction.Conflicts{Hash: w.txs[b.V-1].Hash()}}}
		return e.SignTx(w.t, tx, 100000, w.ops.signer(), by.signer()), nil
	}
	return nil, fmt.Errorf("unknown block operation %q/%d", b.Op, b.V)
}

// fresh returns the transaction as a node receives it (parsed from wire bytes, no shared caches).
func fresh(tx *transaction.Transaction) *transaction.Transaction {
	c, err := transaction.NewTransactionFromBytes(tx.Bytes())
	if err != nil {
		panic(err)
	}
	return c
}

// MakeBlock builds the block of b on the proposer's tip and returns its wire form.
func (w *World) MakeBlock(b Blk) (raw []byte, txs []*transaction.Transaction, err error) {
	defer func() {
		if r := recover(); r != nil {
			err = fmt.Errorf("block %s: %v", b.Op, r)
		}
	}()
	op, err := w.opTx(b)
	if err != nil {
		return nil, nil, err
	}
	if op != nil {
		txs = append(txs, op)
	}
	for _, id := range b.Inc {
		txs = append(txs, fresh(w.txs[id-1]))
	}
	blk, err := w.net.NewBlock(w.bc, 1, txs...)
	if err != nil {
		return nil, nil, err
	}
	raw, err = chainkit.EncodeBlock(blk)
	return raw, txs, err
}

var _ = nativehashes.Notary
