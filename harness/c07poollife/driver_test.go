//go:build verif

// Driver of the pool-life extension of C07: replays TLC behaviours of PoolLifeImpl and seeded random lives on a real
// proposer node + independent replica and records, for every step, what the real pool holds, the abstract chain state
// read back from the real chain, and the verdict of an independent node on the block proposed from the pool - for
// validation by PoolLifeTrace.tla.
package c07poollife

import (
	"encoding/json"
	"fmt"
	"math/rand"
	"slices"
	"sort"
	"strings"
	"sync"
	"testing"

	"verifharness/internal/chainkit"
	"verifharness/internal/vh"

	"github.com/nspcc-dev/neo-go/pkg/core/transaction"
	"github.com/nspcc-dev/neo-go/pkg/smartcontract/trigger"
	"github.com/nspcc-dev/neo-go/pkg/util"
)

const part = "poollife"

// Step is one entry of a behaviour (TLC history).
type Step struct {
	Op    string `json:"op"`
	Tx    int    `json:"tx"`
	Ok    bool   `json:"ok"`
	Err   string `json:"err"`
	Pool  []int  `json:"pool"`
	B     *Blk   `json:"b"`
	St    *ASt   `json:"st"`
	Sel   []int  `json:"sel"`
	Txs   []ATx  `json:"txs"`
	MaxTx int    `json:"maxtx"`
}

type runner struct {
	w            *World
	res          *vh.Result
	src          string
	events       []map[string]any
	ops          []any
	inval        map[int]string // transaction id -> ground: the scenario step after which the replica first refused it
	wasOK        map[int]bool   // the replica verified the transaction at some earlier state
	dead         bool
	before       ASt
	pooledBefore []int
	maxFpb       int64 // the highest fee per byte the proposer's pool has seen (mempool.loadPolicy only ever raises its copy)
}

func (r *runner) poolIDs() []int {
	ids := []int{}
	for _, tx := range r.w.bc.GetMemPool().GetVerifiedTransactions() {
		ids = append(ids, r.w.idOf[tx.Hash()]) // 0: a transaction nobody offered
	}
	return ids
}

func (r *runner) guard(op string, f func()) {
	defer func() {
		if p := recover(); p != nil {
			r.dead = true
			r.res.Violate(map[string]any{"kind": "panic", "part": part, "op": op},
				fmt.Sprintf("Go panic escaped %s: %v", op, p), map[string]any{"universe": r.w.u, "ops": r.ops, "src": r.src})
		}
	}()
	f()
}

func (r *runner) start() {
	w := r.w
	recs := []any{}
	for i := range w.txs {
		recs = append(recs, w.Record(i+1))
	}
	r.before = w.State()
	r.inval, r.wasOK = map[int]string{}, map[int]bool{}
	r.maxFpb = 1000 // the genesis value; the initial state's value is added by the first track call
	r.events = append(r.events, map[string]any{"event": "init", "txs": recs, "st": r.before, "maxtx": w.u.MaxTx, "src": r.src,
		"epoch": epoch, "off": int(w.base % epoch), "gasfor": gasForResp})
	r.track(Blk{Op: "init"}, r.before)
}

// pool offers transaction id to the proposer's pool the way the network server does.
func (r *runner) pool(id int) (map[string]any, error) {
	var err error
	r.ops = append(r.ops, map[string]any{"op": "pool", "tx": id})
	r.guard("PoolTx", func() { err = r.w.bc.PoolTx(fresh(r.w.txs[id-1])) })
	if r.dead {
		return nil, nil
	}
	ev := map[string]any{"event": "pool", "tx": id, "ok": err == nil, "err": errClass(err), "pool": r.poolIDs()}
	if err != nil {
		ev["msg"] = clipS(err.Error())
	}
	r.events = append(r.events, ev)
	r.res.Count([]any{r.src[:3], "pool", id, err == nil, ev["pool"], r.before.H})
	return ev, err
}

// track asks the replica, after a state change, which transactions of the universe it would still take; the scenario
// step after which it first refuses a transaction it took before is the ground of a later refused proposal.
func (r *runner) track(b Blk, now ASt) {
	w := r.w
	inc := map[int]bool{}
	for _, id := range b.Inc {
		inc[id] = true
	}
	for i, tx := range w.txs {
		id := i + 1
		err := w.rep.VerifyTx(fresh(tx))
		if err == nil {
			r.wasOK[id] = true
			delete(r.inval, id)
			continue
		}
		if _, known := r.inval[id]; known || !r.wasOK[id] {
			continue
		}
		a := w.u.Txs[i]
		g := "other:" + b.Op
		switch {
		case inc[id]:
			g = "on-chain"
		case int(tx.ValidUntilBlock) <= int(w.base)+now.H:
			g = "expired"
		case a.High && now.Cmt != r.before.Cmt:
			g = "committee-changed"
		default:
			switch b.Op {
			case "block", "unblock":
				g = "blocked-signer"
			case "fpb":
				// three scenario classes: the raise stays at or below a value the pool has seen before (the pool's filter
				// does not run at all); it exceeds it and the transaction pays less than size x fee-per-byte (exactly what
				// the filter is for); it exceeds it and only what is left for attributes and witnesses is too little
				switch {
				case now.Fpb <= r.maxFpb:
					g = "fee-per-byte-ratchet"
				case tx.FeePerByte() < now.Fpb:
					g = "fee-per-byte-filter"
				default:
					g = "fee-per-byte"
				}
			case "exec":
				g = "exec-fee"
			case "afee":
				g = "attribute-fee"
			case "answer":
				g = "oracle-answered"
			case "onodes":
				g = "oracle-nodes-changed"
			case "nnodes":
				g = "notary-nodes-changed"
			case "cver":
				g = "witness-contract"
			case "drain":
				g = "balance"
			case "withdraw":
				g = "notary-deposit"
			case "conflict":
				g = "conflict-on-chain"
			default:
				for _, o := range b.Inc {
					oa := w.u.Txs[o-1]
					switch {
					case slices.Contains(oa.Conf, id) || slices.Contains(a.Conf, o):
						g = "conflict-on-chain"
					case a.Orc != 0 && oa.Orc == a.Orc:
						g = "oracle-answered"
					case oa.Signers[0] == a.Signers[0] && !strings.HasPrefix(g, "conflict") && !strings.HasPrefix(g, "oracle"):
						g = "balance"
					}
				}
			}
		}
		r.inval[id] = g
	}
	r.maxFpb = max(r.maxFpb, now.Fpb)
}

// block lets a block made by somebody else be accepted by replica and proposer; error: the chain refused it.
func (r *runner) block(b Blk) (map[string]any, error) {
	w := r.w
	if b.Inc == nil {
		b.Inc = []int{}
	}
	r.ops = append(r.ops, map[string]any{"op": "block", "b": b})
	r.pooledBefore = r.poolIDs()
	raw, txs, err := w.MakeBlock(b)
	if err != nil {
		return nil, err
	}
	// a throw-away node first: a block the replica refuses would leave its header behind there
	r.guard("AddBlock", func() {
		if err = w.judge(raw); err == nil {
			err = w.feed(raw, false, txs)
		}
	})
	if r.dead || err != nil {
		return nil, err
	}
	if b.Op != "none" && len(txs) > 0 {
		// the scenario transaction is the first one; a FAULTed one changed nothing (the state read back tells)
		if aer, err := w.bc.GetAppExecResults(txs[0].Hash(), trigger.Application); err != nil || len(aer) == 0 || aer[0].VMState.String() != "HALT" {
			r.res.Inc("poollife_scenario_tx_faulted", 1)
			r.res.Inc("poollife_scenario_tx_faulted_"+b.Op, 1)
		}
	}
	return r.after("block", b, map[string]any{"b": b}), nil
}

func (r *runner) after(kind string, b Blk, ev map[string]any) map[string]any {
	now := r.w.State()
	r.track(b, now)
	ev["event"], ev["pool"], ev["st"] = kind, r.poolIDs(), now
	// which scenario classes the refresh has really met: pooled before the block, gone after it, and refused by an
	// independent node since this step
	for _, id := range r.pooledBefore {
		if g, bad := r.inval[id]; bad && id != 0 && !slices.Contains(ev["pool"].([]int), id) && !slices.Contains(b.Inc, id) {
			r.res.Inc("poollife_refresh_dropped:"+g, 1)
		}
	}
	r.events = append(r.events, ev)
	r.res.Count([]any{r.src[:3], kind, b, ev["pool"], now.H})
	r.before = now
	return ev
}

// propose does what a primary does with its pool and what an independent node does with the result. commit = false:
// the judge is a throw-away node, nothing changes; commit = true: an accepted block is stored by replica and proposer.
func (r *runner) propose(commit bool) map[string]any {
	w := r.w
	for round := 0; round < 6 && !r.dead; round++ {
		var sel []*transaction.Transaction
		var raw []byte
		var verdict error
		r.guard("proposal", func() {
			sel, raw = w.proposal()
			if len(sel) > 0 {
				verdict = w.judge(raw)
			}
		})
		if r.dead || len(sel) == 0 {
			return nil
		}
		ids := []int{}
		for _, tx := range sel {
			ids = append(ids, w.idOf[tx.Hash()])
		}
		ev := map[string]any{"sel": ids, "accepted": verdict == nil, "err": "", "commit": commit, "culprits": []int{}, "grounds": []string{}}
		r.ops = append(r.ops, map[string]any{"op": "propose", "commit": commit, "sel": ids})
		if verdict == nil {
			if !commit {
				ev["event"], ev["pool"], ev["st"] = "propose", r.poolIDs(), r.before
				r.events = append(r.events, ev)
				r.res.Count([]any{r.src[:3], "probe", ids, r.before.H})
				return ev
			}
			var err error
			r.pooledBefore = r.poolIDs()
			r.guard("AddBlock(own)", func() { err = w.feed(raw, false, nil) })
			if r.dead {
				return nil
			}
			if err != nil {
				panic(fmt.Sprintf("judge node accepted the proposal, the chain did not: %v", err))
			}
			return r.after("propose", Blk{Op: "none", Inc: ids}, ev)
		}
		// refused: which members does an independent node refuse on their own, and since which scenario step
		ev["err"] = clipS(verdict.Error())
		culprits, grounds := []int{}, []string{}
		for _, tx := range sel {
			if w.rep.VerifyTx(fresh(tx)) != nil {
				culprits = append(culprits, w.idOf[tx.Hash()])
			}
		}
		if len(culprits) == 0 {
			// every member is fine alone: do the members of one payer cost more than it has (read from the chain)?
			sums := map[string]int64{}
			for _, tx := range sel {
				sums[tx.Sender().StringLE()] += tx.SystemFee + tx.NetworkFee
			}
			for _, tx := range sel {
				if b := w.rep.GetUtilityTokenBalance(tx.Sender(), util.Uint160{}); b.IsInt64() && b.Int64() < sums[tx.Sender().StringLE()] {
					culprits = append(culprits, w.idOf[tx.Hash()])
				}
			}
			if len(culprits) > 0 {
				grounds = append(grounds, "balance")
			} else {
				culprits = ids
			}
		}
		for _, id := range culprits {
			if len(grounds) > 0 && grounds[0] == "balance" && r.inval[id] == "" {
				continue
			}
			g, ok := r.inval[id]
			if !ok {
				g = "unexplained"
			}
			if !slices.Contains(grounds, g) {
				grounds = append(grounds, g)
			}
		}
		sort.Strings(grounds)
		ev["culprits"], ev["grounds"] = culprits, grounds
		// the proposer drops what cannot be verified and goes on (the next round judges what is left)
		for _, tx := range sel {
			if slices.Contains(culprits, w.idOf[tx.Hash()]) {
				w.bc.GetMemPool().Remove(tx.Hash())
			}
		}
		ev["event"], ev["pool"], ev["st"], ev["commit"] = "propose", r.poolIDs(), r.before, false
		if h, err := json.Marshal(r.ops); err == nil {
			ev["history"] = string(h)
		}
		r.events = append(r.events, ev)
		r.res.Count([]any{r.src[:3], "refused", ids, grounds, r.before.H})
		r.res.Inc("poollife_proposals_refused", 1)
	}
	return nil
}

func clipS(s string) string {
	if len(s) > 300 {
		return s[:300]
	}
	return s
}

func errClass(err error) string {
	if err == nil {
		return ""
	}
	s := err.Error()
	for _, c := range [][2]string{{"OracleResponse attribute", "oracle"}, {"already exists in mempool", "dup"}, {"ValidUntilBlock", "expired"}, {"not allowed by policy", "policy"}, {"too small network fee", "smallfee"},
		{"already exists", "exists"}, {"conflicts with the memory pool", "poolconflict"}, {"insufficient funds", "funds"}, {"oracle", "oracle"},
		{"invalid attribute", "attr"}, {"Conflicts attribute", "conflictsattr"}, {"has conflicts", "conflicts"},
		{"witness", "witness"}, {"signature", "witness"}, {"out of memory", "oom"}} {
		if strings.Contains(s, c[0]) {
			return c[1]
		}
	}
	return "other"
}

func sameInts(a, b []int) bool { return slices.Equal(a, b) }

func sameState(a *ASt, b ASt) bool {
	if a == nil {
		return true
	}
	x, y := *a, b
	sort.Strings(x.Blocked)
	sort.Ints(x.Chain)
	sort.Ints(x.Pending)
	ok := x.H == y.H && slices.Equal(x.Blocked, y.Blocked) && x.Fpb == y.Fpb && x.Exec == y.Exec && slices.Equal(x.Chain, y.Chain) &&
		x.Cmt == y.Cmt && x.Votes == y.Votes && slices.Equal(x.Pending, y.Pending) && x.On == y.On && x.Nn == y.Nn && len(x.Named) == len(y.Named)
	for k, v := range x.Afee {
		ok = ok && y.Afee[k] == v
	}
	for k, v := range x.Bal {
		ok = ok && y.Bal[k] == v
	}
	for k, v := range x.Cver {
		ok = ok && y.Cver[k] == v
	}
	for _, n := range x.Named {
		ok = ok && slices.Contains(y.Named, n)
	}
	return ok
}

// runTLC replays one behaviour of PoolLifeImpl; the model's predictions are compared for drift only.
func runTLC(t testing.TB, res *vh.Result, src string, hist []Step) []map[string]any {
	if len(hist) == 0 || hist[0].Op != "init" || hist[0].St == nil {
		return nil
	}
	u := Universe{Txs: hist[0].Txs, St: *hist[0].St, MaxTx: hist[0].MaxTx}
	w, err := NewWorld(t, u)
	if w != nil {
		defer w.Close()
	}
	if err != nil {
		res.Inc("poollife_worlds_failed", 1)
		res.Inc("poollife_worldfail: "+clipS(err.Error())[:min(len(err.Error()), 90)], 1)
		res.AddDrift(map[string]any{"part": part, "src": src, "what": "world construction failed", "err": err.Error()})
		return nil
	}
	r := &runner{w: w, res: res, src: src}
	r.start()
	if !sameState(hist[0].St, r.before) {
		res.Inc("poollife_worlds_failed", 1)
		res.AddDrift(map[string]any{"part": part, "src": src, "what": "initial state not realised", "wanted": hist[0].St, "got": r.before})
		return nil
	}
	drift := func(si int, st Step, what string, ev map[string]any, err error) {
		d := map[string]any{"part": part, "src": src, "step": si + 1, "op": st.Op, "tx": st.Tx, "b": st.B, "what": what, "predicted_pool": st.Pool,
			"predicted_ok": st.Ok, "predicted_err": st.Err, "predicted_st": st.St, "observed": ev}
		if err != nil {
			d["observed_err"] = clipS(err.Error())
		}
		res.AddDrift(d)
		res.Inc("poollife_drift", 1)
	}
	for si, st := range hist[1:] {
		switch st.Op {
		case "pool":
			ev, err := r.pool(st.Tx)
			if r.dead {
				return r.events
			}
			if st.Ok != (err == nil) || !sameInts(st.Pool, ev["pool"].([]int)) {
				drift(si, st, "pool outcome", ev, err)
			}
		case "block":
			ev, err := r.block(*st.B)
			if r.dead {
				return r.events
			}
			if err != nil {
				// the model thought this block acceptable, the chain did not: the rest of the behaviour is not comparable
				drift(si, st, "block refused by the chain", nil, err)
				res.Traces++
				return r.events
			}
			r.propose(false)
			if !r.dead && (!sameInts(st.Pool, r.poolIDs()) || !sameState(st.St, ev["st"].(ASt))) {
				ev["pool_after_probe"] = r.poolIDs()
				drift(si, st, "block outcome", ev, nil)
			}
		case "propose":
			ev := r.propose(true)
			if r.dead {
				return r.events
			}
			if ev == nil {
				drift(si, st, "proposal: nothing accepted", nil, nil)
			} else {
				r.propose(false)
				if !r.dead && (!sameInts(st.Sel, ev["sel"].([]int)) || !sameInts(st.Pool, r.poolIDs()) || !sameState(st.St, ev["st"].(ASt))) {
					ev["pool_after_probe"] = r.poolIDs()
					drift(si, st, "proposal outcome", ev, nil)
				}
			}
		}
		if r.dead {
			return r.events
		}
	}
	res.Traces++
	return r.events
}

// ------------------------------------------------------------------------------------------------ random lives

var (
	fpbLevels  = []int64{500, 1000, 1100, 2000, 6000}
	execLevels = []int64{20, 30, 31, 40}
	afeeLevels = []int64{0, 20000, 100000}
)

func pick[T any](r *rand.Rand, l []T) T { return l[r.Intn(len(l))] }

// randomUniverse draws a universe larger than the model-checked ones: four poor payers, cosigners, every transaction
// shape, fees tight or with slack at the initial or at other policy values.
func randomUniverse(r *rand.Rand) Universe {
	st := ASt{Fpb: pick(r, []int64{500, 1000, 1000, 2000}), Exec: pick(r, []int64{20, 30, 30, 40}),
		Afee: map[string]int64{"conflicts": pick(r, afeeLevels), "high": 0, "nvb": pick(r, afeeLevels), "oracle": 0, "notary": 1000_0000},
		Bal:  map[string]int64{"K": 100 * gas}, On: 1 + r.Intn(2), Nn: 1 + r.Intn(2), Cmt: 1, Votes: 1, Pending: []int{1, 2, 3}, Cver: map[string]int{"K": 1}}
	payers := []string{"A", "B", "C", "D"}
	for _, p := range payers {
		st.Bal[p] = int64(3_000_000 + r.Intn(12_000_000))
		if r.Intn(5) == 0 {
			st.Bal[p] = 100 * gas
		}
	}
	if r.Intn(6) == 0 {
		st.Blocked = []string{pick(r, []string{"X", "Y", "D"})}
	}
	u := Universe{St: st, MaxTx: 1 + r.Intn(5), Till: map[string]int{}}
	var deps []string
	for _, p := range payers[:2] {
		if r.Intn(3) == 0 {
			u.St.Bal["DEP"+p] = int64(40_000_000 + r.Intn(60_000_000))
			u.Till["DEP"+p] = 1 + r.Intn(6)
			deps = append(deps, "DEP"+p)
		}
	}
	n := 7 + r.Intn(8)
	for i := 1; i <= n; i++ {
		a := ATx{ID: i, Signers: []string{pick(r, payers)}, Vub: 1 + r.Intn(9), Sysfee: int64(1+r.Intn(30)) * 100000}
		if r.Intn(3) == 0 {
			a.Vub = 10 + r.Intn(10)
		}
		if r.Intn(4) == 0 {
			a.Size = 300 + r.Intn(600)
		}
		f := &FeeAt{Fpb: st.Fpb, Exec: st.Exec, Afee: map[string]int64{}}
		for k, v := range st.Afee {
			f.Afee[k] = v
		}
		switch r.Intn(10) {
		case 0, 1, 2, 3: // exactly what is needed now
		case 4:
			f.Slack = int64(1 + r.Intn(30000))
		case 5:
			f.Slack = int64(100000 + r.Intn(400000))
		case 6:
			f.Slack = 3_000_000
		case 7: // tight at other values (possibly not admissible at first)
			f.Fpb, f.Exec = pick(r, fpbLevels), pick(r, execLevels)
		case 8:
			f.Fpb = pick(r, fpbLevels)
		case 9:
			f.Exec = pick(r, execLevels)
		}
		a.FeeAt = f
		switch k := r.Intn(20); {
		case k < 3:
			a.Signers = append(a.Signers, pick(r, []string{"X", "Y"}))
		case k < 5 && i > 1:
			a.Conf = []int{1 + r.Intn(i-1)}
			if r.Intn(2) == 0 { // signed by a signer of the named one as well (so that it may replace it in the pool)
				o := u.Txs[a.Conf[0]-1].Signers[0]
				if o != a.Signers[0] && o != "ORC" && o != "K" && !strings.HasPrefix(o, "DEP") {
					a.Signers = append(a.Signers, o)
				}
			}
		case k < 7:
			a.High, a.Cmt = true, 1+r.Intn(2)
			a.Signers = append(a.Signers, "CMT")
		case k < 9:
			a.Orc, a.On = 1+r.Intn(3), 1+r.Intn(2)
			a.Signers = []string{"ORC", "ON"}
			a.Sysfee = 0
			if f.Slack > 1_000_000 {
				f.Slack = 1_000_000
			}
		case k < 11:
			a.Nn = 1 + r.Intn(2)
			a.Signers = append(a.Signers, "NOTARY")
		case k < 13:
			a.Wc, a.Wv = "K", []int{1}
			a.Signers = append(a.Signers, "K")
		case k < 14:
			a.Wc, a.Wv = "K", []int{1}
			a.Signers = []string{"K"}
		case k < 16:
			a.Nvb = 1 + r.Intn(4)
			if a.Vub <= a.Nvb {
				a.Vub = a.Nvb + 1 + r.Intn(4)
			}
		case k < 18 && len(deps) > 0:
			// the Notary contract sends, the depositor pays from its deposit
			d := pick(r, deps)
			a.Nn = 1 + r.Intn(2)
			a.Signers = []string{d, d[3:]}
		}
		u.Txs = append(u.Txs, a)
	}
	return u
}

// randomBlock draws a block operation that makes sense at the current state.
func (r *runner) randomBlock(rd *rand.Rand) Blk {
	w, st := r.w, r.before
	pooled := r.poolIDs()
	var signers, payers []string
	for _, id := range pooled {
		if id == 0 {
			continue
		}
		a := w.u.Txs[id-1]
		payers = append(payers, a.Signers[0])
		for _, s := range a.Signers {
			if ac, ok := w.acc[s]; ok && ac.kind == "sig" {
				signers = append(signers, s)
			}
		}
	}
	for try := 0; try < 20; try++ {
		switch k := rd.Intn(100); {
		case k < 12:
			return Blk{Op: "none"}
		case k < 22:
			if len(signers) > 0 && rd.Intn(4) != 0 {
				s := pick(rd, signers)
				if !slices.Contains(st.Blocked, s) {
					return Blk{Op: "block", A: s}
				}
			}
			s := pick(rd, plainNames[:6])
			if !slices.Contains(st.Blocked, s) {
				return Blk{Op: "block", A: s}
			}
		case k < 27:
			if len(st.Blocked) > 0 {
				return Blk{Op: "unblock", A: pick(rd, st.Blocked)}
			}
		case k < 37:
			if v := pick(rd, fpbLevels); v != st.Fpb {
				return Blk{Op: "fpb", V: v}
			}
		case k < 45:
			if v := pick(rd, execLevels); v != st.Exec {
				return Blk{Op: "exec", V: v}
			}
		case k < 51:
			kind := pick(rd, []string{"conflicts", "nvb", "high", "notary"})
			v := pick(rd, afeeLevels)
			if kind == "notary" {
				v = pick(rd, []int64{500_0000, 1000_0000, 1100_0000})
			}
			if v != st.Afee[kind] {
				return Blk{Op: "afee", A: kind, V: v}
			}
		case k < 57:
			return Blk{Op: "vote", V: int64(3 - st.Votes)}
		case k < 62:
			if len(st.Pending) > 0 && st.On != 0 {
				return Blk{Op: "answer", V: int64(pick(rd, st.Pending))}
			}
		case k < 66:
			return Blk{Op: "onodes", V: int64(3 - st.On)}
		case k < 70:
			return Blk{Op: "nnodes", V: int64(3 - st.Nn)}
		case k < 77:
			cur := st.Cver["K"]
			var opts []int64
			switch cur {
			case 1:
				opts = []int64{2, 2, 2, 3, 0}
			case 2:
				opts = []int64{1, 1, 1, 3, 0}
			case 3:
				opts = []int64{0}
			}
			if len(opts) > 0 {
				return Blk{Op: "cver", A: "K", V: pick(rd, opts)}
			}
		case k < 80:
			for _, d := range []string{"DEPA", "DEPB"} {
				if st.Bal[d] > 0 && st.H >= w.u.Till[d] && !slices.Contains(st.Blocked, d[3:]) {
					return Blk{Op: "withdraw", A: d}
				}
			}
		case k < 85:
			if len(payers) > 0 {
				p := pick(rd, payers)
				if b := st.Bal[p]; p != "ORC" && p != "K" && !strings.HasPrefix(p, "DEP") && b > 200000 && b < balCap && !slices.Contains(st.Blocked, p) {
					return Blk{Op: "drain", A: p, V: b / int64(2+rd.Intn(3))}
				}
			}
		case k < 92:
			if len(pooled) > 0 {
				id := pick(rd, pooled)
				by := pick(rd, []string{"S", "X", "Y"})
				if rd.Intn(2) == 0 {
					if s := w.u.Txs[id-1].Signers[0]; s != "ORC" && s != "K" && !strings.HasPrefix(s, "DEP") {
						by = s
					}
				}
				if id != 0 && !slices.Contains(st.Chain, id) && !slices.Contains(st.Blocked, by) {
					return Blk{Op: "conflict", A: by, V: int64(id)}
				}
			}
		default:
			// somebody else includes a transaction of the universe (pooled here or not) that the replica takes now
			for _, i := range rd.Perm(len(w.txs)) {
				if w.rep.VerifyTx(fresh(w.txs[i])) == nil {
					return Blk{Op: "none", Inc: []int{i + 1}}
				}
			}
		}
	}
	return Blk{Op: "none"}
}

// runRandom drives one random life.
func runRandom(t testing.TB, res *vh.Result, src string, seed int64) []map[string]any {
	rd := rand.New(rand.NewSource(seed))
	u := randomUniverse(rd)
	w, err := NewWorld(t, u)
	if w != nil {
		defer w.Close()
	}
	if err != nil {
		res.Inc("poollife_worlds_failed", 1)
		res.Inc("poollife_worldfail: "+clipS(err.Error())[:min(len(err.Error()), 90)], 1)
		res.AddDrift(map[string]any{"part": part, "src": src, "what": "world construction failed", "err": err.Error(), "universe": u})
		return nil
	}
	r := &runner{w: w, res: res, src: src}
	r.start()
	n := len(u.Txs)
	nops := 18 + rd.Intn(22)
	for i := 0; i < nops && !r.dead && r.before.H < 20; i++ {
		switch k := rd.Intn(100); {
		case k < 55:
			// mostly transactions the replica would take now and that are not pooled yet
			id := 1 + rd.Intn(n)
			if rd.Intn(6) != 0 {
				for _, j := range rd.Perm(n) {
					if !w.bc.GetMemPool().ContainsKey(w.txs[j].Hash()) && w.rep.VerifyTx(fresh(w.txs[j])) == nil {
						id = j + 1
						break
					}
				}
			}
			r.pool(id)
		case k < 88:
			b := r.randomBlock(rd)
			if _, err := r.block(b); err != nil {
				res.Inc("poollife_random_blocks_refused", 1)
				if !r.dead {
					res.Inc("poollife_refused_"+b.Op, 1)
				}
			} else {
				r.propose(false)
			}
		default:
			if r.propose(true) != nil {
				r.propose(false)
			}
		}
	}
	res.Traces++
	return r.events
}

func TestDriver(t *testing.T) {
	res := vh.NewResult()
	tr := vh.NewTrace("trace.ndjson")
	var behaviours [][]Step
	if vh.InDir() != "" {
		if err := vh.ReadJSON("behaviours.json", &behaviours); err != nil {
			t.Logf("no behaviours: %v", err)
		}
	}
	nr := vh.EnvInt("VERIF_RANDOM", 60)
	master := vh.Rand(27)
	seeds := make([]int64, nr)
	for i := range seeds {
		seeds[i] = master.Int63()
	}
	total := len(behaviours) + nr
	out := make([][]map[string]any, total)
	jobs := make(chan int, total)
	for i := 0; i < total; i++ {
		jobs <- i
	}
	close(jobs)
	compileAll(t, chainkit.NewNet(epoch, 1).ValidatorSigner().ScriptHash())
	var wg sync.WaitGroup
	for k := 0; k < vh.EnvInt("VERIF_PAR", 8); k++ {
		wg.Add(1)
		go func() {
			defer wg.Done()
			for i := range jobs {
				func() {
					defer func() {
						if p := recover(); p != nil {
							res.Inc("poollife_lives_crashed", 1)
							res.AddDrift(map[string]any{"part": part, "job": i, "what": "driver panic", "panic": fmt.Sprint(p)})
						}
					}()
					if i < len(behaviours) {
						out[i] = runTLC(t, res, fmt.Sprintf("tlc-%d", i), behaviours[i])
					} else {
						out[i] = runRandom(t, res, fmt.Sprintf("rnd-%d", i-len(behaviours)), seeds[i-len(behaviours)])
					}
				}()
			}
		}()
	}
	wg.Wait()
	kinds := map[string]int{}
	for i, evs := range out {
		for _, ev := range evs {
			k := ev["event"].(string)
			switch k {
			case "block":
				k += ":" + ev["b"].(Blk).Op
				if len(ev["b"].(Blk).Inc) > 0 {
					k += "+inc"
				}
			case "pool":
				if ev["ok"].(bool) {
					k += ":ok"
				} else {
					k += ":fail:" + ev["err"].(string)
				}
			case "propose":
				if ev["accepted"].(bool) {
					k += ":accepted"
				} else {
					k += ":refused:" + strings.Join(ev["grounds"].([]string), "+")
				}
			}
			kinds[k]++
			tr.Emit(ev)
		}
		if len(evs) > 0 && (i%53 == 0) {
			res.Sample(map[string]any{"src": evs[0]["src"], "txs": len(evs[0]["txs"].([]any)), "steps": len(evs) - 1, "last": evs[len(evs)-1]})
		}
	}
	tr.Close()
	res.Stats["poollife_event_kinds"] = kinds
	res.Inc("poollife_replayed_behaviours", len(behaviours))
	res.Inc("poollife_random_lives", nr)
	sort.Strings(res.Distinct)
	if err := res.Write(); err != nil {
		t.Fatal(err)
	}
}
