//go:build verif

package c07poollife

// Minimal scenarios of the grounds on which the pool refresh after a block (storeBlock -> mempool.RemoveStale with
// Blockchain.IsTxStillRelevant) USED TO keep a transaction that is no longer admissible, so that the block a proposer
// made of its pool was refused by an independent replica: blocked-signer (repaired by a772241), fee-per-byte,
// fee-per-byte-ratchet, exec-fee, attribute-fee (found by this extension, repaired by c8f704d). Regression tests: each
// one requires the repaired behaviour (the refresh drops the transaction, the proposal is accepted) and FAILS on a tree
// where the ground is open:
//
//	cd /verif/harness && GOFLAGS=-mod=mod GOPROXY=off go test -tags verif -count=1 -run 'TestRepro' ./c07poollife -v

import (
	"testing"

	"verifharness/internal/chainkit"

	"github.com/nspcc-dev/neo-go/pkg/core/native/nativenames"
	"github.com/nspcc-dev/neo-go/pkg/core/transaction"
)

const sigK = 32784 // verification cost of a signature witness per unit of the execution fee factor (datoshi)

func baseSt() ASt {
	return ASt{Fpb: 1000, Exec: 30, Afee: map[string]int64{"conflicts": 0, "high": 0, "nvb": 0, "oracle": 0, "notary": 1000_0000},
		Bal: map[string]int64{"A": 10 * gas, "B": 10 * gas, "C": 10 * gas, "K": 10 * gas}, On: 1, Nn: 1, Cmt: 1, Votes: 1, Pending: []int{1, 2},
		Cver: map[string]int{"K": 1}}
}

// proposal does what a primary does with its pool: pool order, ApplyPolicyToTxSet, sealed block, wire bytes.
func (w *World) proposal() ([]*transaction.Transaction, []byte) {
	sel := w.bc.ApplyPolicyToTxSet(w.bc.GetMemPool().GetVerifiedTransactions())
	b, err := w.net.NewBlock(w.bc, 1, sel...)
	if err != nil {
		panic(err)
	}
	raw, err := chainkit.EncodeBlock(b)
	if err != nil {
		panic(err)
	}
	return sel, raw
}

type policyStep struct {
	method string
	args   []any
}

// reproduce pools the universe's transactions (all must be admitted), lets the blocks of steps be accepted (each holds
// one committee transaction) and requires that the block proposed from the pool is then accepted by the replica.
func reproduce(t *testing.T, u Universe, steps ...policyStep) {
	w, err := NewWorld(t, u)
	if err != nil {
		t.Fatal(err)
	}
	defer w.Close()
	for i, tx := range w.txs {
		if err := w.bc.PoolTx(tx); err != nil {
			t.Fatalf("tx %d not admitted: %v", i+1, err)
		}
	}
	_, raw := w.proposal()
	if err := w.judge(raw); err != nil {
		t.Fatalf("proposal before any block refused: %v", err)
	}
	for _, s := range steps {
		tx := w.prep(w.committeeNow(), 0, w.e.NativeHash(t, nativenames.Policy), s.method, s.args...)
		if err := w.addBlock(true, tx); err != nil {
			t.Fatal(err)
		}
		sel, raw := w.proposal()
		if err := w.judge(raw); err != nil {
			t.Errorf("after %s%v: pool keeps %d transaction(s), the block of %d proposed from it is refused by the replica: %v",
				s.method, s.args, w.bc.GetMemPool().Count(), len(sel), err)
		}
	}
	w.requireDropped(t)
}

// requireDropped: every pooled transaction an independent node refuses now must have been dropped by the refresh.
func (w *World) requireDropped(t *testing.T) {
	for _, tx := range w.bc.GetMemPool().GetVerifiedTransactions() {
		if err := w.rep.VerifyTx(fresh(tx)); err != nil {
			t.Errorf("the refresh kept transaction %s which an independent node refuses: %v", tx.Hash().StringLE(), err)
		}
	}
}

func tightFee(size int, fpb, exec int64) int64 { return int64(size)*fpb + sigK*exec }

// exec-fee: Policy.setExecFeeFactor raised; a pooled transaction with standard witnesses whose network fee covered
// verification exactly is kept (witnesses of standard contracts are never looked at again).
func TestReproExecFee(t *testing.T) {
	u := Universe{MaxTx: 8, St: baseSt()}
	u.Txs = []ATx{{ID: 1, Signers: []string{"A"}, Vub: 10, Size: 300, Netfee: tightFee(300, 1000, 30), Sysfee: 100000, Std: true}}
	reproduce(t, u, policyStep{"setExecFeeFactor", []any{int64(31 * execUnit)}})
}

// fee-per-byte: Policy.setFeePerByte raised; RemoveStale compares NetworkFee/Size with the new value only, which says
// nothing about what is left for attributes and witness verification.
func TestReproFeePerByte(t *testing.T) {
	u := Universe{MaxTx: 8, St: baseSt()}
	u.Txs = []ATx{{ID: 1, Signers: []string{"A"}, Vub: 10, Size: 300, Netfee: tightFee(300, 1000, 30), Sysfee: 100000, Std: true}}
	reproduce(t, u, policyStep{"setFeePerByte", []any{int64(1100)}})
}

// fee-per-byte, ratchet: the pool remembers the highest fee per byte it has seen (mempool.loadPolicy only ever raises
// mp.feePerByte); after the value went down and up again below that maximum nothing is filtered at all - not even a
// transaction paying less than Size x FeePerByte.
func TestReproFeePerByteRatchet(t *testing.T) {
	u := Universe{MaxTx: 8, St: baseSt()}
	u.St.Fpb = 500
	u.Txs = []ATx{{ID: 1, Signers: []string{"A"}, Vub: 10, Size: 300, Netfee: tightFee(300, 500, 30), Sysfee: 100000, Std: true}}
	w, err := NewWorld(t, u)
	if err != nil {
		t.Fatal(err)
	}
	defer w.Close()
	pol := w.e.NativeHash(t, nativenames.Policy)
	// the pool sees 5000 once (nothing pooled yet), then 500 again
	for _, v := range []int64{5000, 500} {
		if err := w.addBlock(true, w.prep(w.committeeNow(), 0, pol, "setFeePerByte", v)); err != nil {
			t.Fatal(err)
		}
	}
	tx, _, _, err := w.Realise(ATx{ID: 1, Signers: []string{"A"}, Vub: 10, Size: 300, Netfee: tightFee(300, 500, 30), Sysfee: 100000})
	if err != nil {
		t.Fatal(err)
	}
	if err := w.bc.PoolTx(tx); err != nil {
		t.Fatalf("not admitted: %v", err)
	}
	if err := w.addBlock(true, w.prep(w.committeeNow(), 0, pol, "setFeePerByte", int64(4000))); err != nil {
		t.Fatal(err)
	}
	sel, raw := w.proposal()
	if err := w.judge(raw); err != nil {
		t.Errorf("fee per byte 500 -> 4000 (pool had seen 5000 before): pool keeps a transaction paying %d per byte, the block of %d proposed from it is refused: %v",
			tx.FeePerByte(), len(sel), err)
	}
	w.requireDropped(t)
	if w.bc.GetMemPool().Count() != 0 {
		t.Errorf("the underpaying transaction is still pooled")
	}
}

// attribute-fee: Policy.setAttributeFee raised for an attribute a pooled transaction carries.
func TestReproAttributeFee(t *testing.T) {
	u := Universe{MaxTx: 8, St: baseSt()}
	u.Txs = []ATx{
		{ID: 1, Signers: []string{"A"}, Vub: 10, Size: 300, Netfee: tightFee(300, 1000, 30) + 100000, Sysfee: 100000, Std: true},
		{ID: 2, Signers: []string{"B"}, Vub: 10, Size: 300, Netfee: tightFee(300, 1000, 30), Sysfee: 100000, Std: true, Conf: []int{1}},
	}
	w, err := NewWorld(t, u)
	if err != nil {
		t.Fatal(err)
	}
	defer w.Close()
	if err := w.bc.PoolTx(w.txs[1]); err != nil { // only the transaction with the Conflicts attribute
		t.Fatalf("not admitted: %v", err)
	}
	tx := w.prep(w.committeeNow(), 0, w.e.NativeHash(t, nativenames.Policy), "setAttributeFee", int64(transaction.ConflictsT), int64(50000))
	if err := w.addBlock(true, tx); err != nil {
		t.Fatal(err)
	}
	sel, raw := w.proposal()
	if err := w.judge(raw); err != nil {
		t.Errorf("Conflicts attribute fee 0 -> 50000: pool keeps the transaction, the block of %d proposed from it is refused: %v", len(sel), err)
	}
	w.requireDropped(t)
	if w.bc.GetMemPool().Count() != 0 {
		t.Errorf("the underpaying transaction is still pooled")
	}
}

// blocked-signer (repaired by a772241; passes on a tree that has the repair).
func TestReproBlockedSigner(t *testing.T) {
	u := Universe{MaxTx: 8, St: baseSt()}
	u.Txs = []ATx{{ID: 1, Signers: []string{"A", "X"}, Vub: 10, Size: 400, Netfee: tightFee(400, 1000, 30) + sigK*30, Sysfee: 100000, Std: true}}
	w, err := NewWorld(t, u)
	if err != nil {
		t.Fatal(err)
	}
	xh := w.acc["X"].h
	w.Close()
	reproduce(t, u, policyStep{"blockAccount", []any{xh}})
}
