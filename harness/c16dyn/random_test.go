// Seeded random histories over a larger universe than TLC's: 4 contracts with 3 random manifests each (permissions of
// every kind with random targets and method lists - also an empty list -, random safe marks, q with 2 or 3 parameters
// or missing, random groups out of 2), 6 random method tokens, all 16 call flag sets, call depth <= 4, <= 3 management
// operations per transaction, 2..4 transactions in 1..4 blocks, with and without hardfork Domovoi.
//
// gmodel is the generator's own idea of the engine (a port of FlagsDynImpl).  It only makes the generated programs
// long (an operation it expects to be refused ends the transaction); it is re-synchronised with the chain after every
// block and has no part in any verdict - what it predicts wrongly is reported as drift.
package c16dyn

import (
	"fmt"
	"math/rand"
	"strings"
)

var rndNames = []string{"A", "B", "C", "D"}

type gEntry struct {
	st  string
	mv  int
	nef string
}

type gFrame struct {
	name   string
	fl     int
	mv     int
	nef    string
	entry  bool
	native bool
	meth   string
}

type gmodel struct {
	rule  string
	cat   map[string][]AMan
	toks  []AToken
	tbl   map[string]gEntry
	blk   map[string]bool
	stack []gFrame
}

func (g *gmodel) top() *gFrame { return &g.stack[len(g.stack)-1] }

func (g *gmodel) man(c string, mv int) *AMan {
	if c == "M" {
		return &AMan{Meths: []AMeth{{"deploy", 3, false}, {"update", 3, false}, {"destroy", 0, false}}}
	}
	if mv < 1 || mv > len(g.cat[c]) {
		return &AMan{}
	}
	return &g.cat[c][mv-1]
}

func (g *gmodel) live(c string) bool { return c == "M" || g.tbl[c].st == "live" }

func meth(m *AMan, n string, a int) *AMeth {
	for i := range m.Meths {
		if m.Meths[i].N == n && m.Meths[i].A == a {
			return &m.Meths[i]
		}
	}
	return nil
}

func canCall(perms []APerm, c string, groups []string, m string) bool {
	for _, p := range perms {
		match := false
		switch p.Kind {
		case "wild":
			match = true
		case "hash":
			match = p.Target == c
		case "group":
			for _, x := range groups {
				match = match || x == p.Target
			}
		}
		if !match {
			continue
		}
		if p.Wild {
			return true
		}
		for _, x := range p.Methods {
			if x == m {
				return true
			}
		}
	}
	return false
}

// callOK: would System.Contract.Call / CALLT go through, and with which flags?
func (g *gmodel) callOK(c, m string, a, req int) (bool, int) {
	t := g.top()
	if t.fl&5 != 5 || !g.live(c) || strings.HasPrefix(m, "_") {
		return false, 0
	}
	cm := g.man(c, g.tbl[c].mv)
	md := meth(cm, m, a)
	if md == nil || g.blk[c] {
		return false, 0
	}
	f := req
	if md.S {
		f &^= 10
	} else if !t.entry && !t.native {
		var perms []APerm
		check := true
		if g.rule == "loaded" {
			perms = g.man(t.name, t.mv).Perms
		} else if g.live(t.name) {
			perms = g.man(t.name, g.tbl[t.name].mv).Perms
		} else {
			check = false
		}
		if check && !canCall(perms, c, cm.Groups, m) {
			return false, 0
		}
	}
	return true, t.fl & f
}

func randFlags(rnd *rand.Rand) int {
	switch k := rnd.Intn(10); {
	case k < 5:
		return 15
	case k < 6:
		return 13
	case k < 7:
		return 7
	case k < 8:
		return 5
	default:
		return rnd.Intn(16)
	}
}

func randManifest(rnd *rand.Rand, names []string) AMan {
	am := AMan{Perms: []APerm{}, Meths: []AMeth{}, Groups: []string{}}
	seen := map[string]bool{}
	addPerm := func(kind, target string) {
		if seen[kind+target] {
			return
		}
		seen[kind+target] = true
		p := APerm{Kind: kind, Target: target, Wild: rnd.Intn(2) == 0, Methods: []string{}}
		if !p.Wild {
			for _, m := range []string{"p", "q", "update", "deploy", "destroy"} {
				if rnd.Intn(3) == 0 {
					p.Methods = append(p.Methods, m)
				}
			}
		}
		am.Perms = append(am.Perms, p)
	}
	switch rnd.Intn(5) {
	case 0:
		am.Perms = append(am.Perms, APerm{Kind: "wild", Wild: true, Methods: []string{}})
		seen["wild"] = true
	case 1, 2:
		am.Perms = append(am.Perms, APerm{Kind: "hash", Target: "M", Wild: true, Methods: []string{}})
		seen["hashM"] = true
	}
	for n := rnd.Intn(3); n > 0; n-- {
		switch rnd.Intn(4) {
		case 0:
			addPerm("wild", "")
		case 1:
			addPerm("hash", append([]string{"M"}, names...)[rnd.Intn(len(names)+1)])
		default:
			addPerm("group", groupNames[rnd.Intn(len(groupNames))])
		}
	}
	am.Meths = append(am.Meths, AMeth{"p", 2, rnd.Intn(7) == 0})
	if rnd.Intn(7) != 0 {
		a := 2
		if rnd.Intn(3) == 0 {
			a = 3
		}
		am.Meths = append(am.Meths, AMeth{"q", a, rnd.Intn(5) < 2})
		if rnd.Intn(8) == 0 { // both overloads, with different safe marks
			am.Meths = append(am.Meths, AMeth{"q", 5 - a, !am.Meths[1].S})
		}
	}
	if rnd.Intn(6) != 0 { // (a contract without _deploy is not called back by ContractManagement)
		am.Meths = append(am.Meths, AMeth{"_deploy", 2, false})
	}
	for _, gn := range groupNames {
		if rnd.Intn(3) == 0 {
			am.Groups = append(am.Groups, gn)
		}
	}
	return am
}

func (r *runner) randomHistory(hi int, rnd *rand.Rand) {
	r.hid = fmt.Sprintf("rnd-%d", hi)
	rule := "loaded"
	if rnd.Intn(10) < 3 {
		rule = "stored"
	}
	w := r.world(rule == "loaded")
	names := rndNames
	cat := map[string][]AMan{}
	for _, n := range names {
		seen := map[string]bool{}
		for len(cat[n]) < 3 {
			am := randManifest(rnd, names)
			if !seen[canon(am)] {
				seen[canon(am)] = true
				cat[n] = append(cat[n], am)
			}
		}
	}
	var toks []AToken
	for i := 0; i < 6; i++ {
		a := 2
		if rnd.Intn(4) == 0 {
			a = 3
		}
		fl := 15
		if rnd.Intn(3) == 0 {
			fl = randFlags(rnd)
		}
		toks = append(toks, AToken{C: names[rnd.Intn(len(names))], M: []string{"p", "q", "q"}[rnd.Intn(3)], A: a, Fl: fl})
	}
	w.newGeneration(names, cat, toks)
	init := map[string]TEntry{}
	g := &gmodel{rule: rule, cat: cat, toks: toks, tbl: map[string]gEntry{}, blk: map[string]bool{}}
	for _, n := range names {
		if rnd.Intn(10) < 7 {
			init[n] = TEntry{St: "live", Mv: 1 + rnd.Intn(3), Nef: "n1", UC: 1}
			g.tbl[n] = gEntry{"live", init[n].Mv, "n1"}
		} else {
			g.tbl[n] = gEntry{st: "absent", nef: "n0"}
		}
	}
	r.setup(w, rule, init)

	const maxDepth, maxMgmt = 4, 3
	ntx := 2 + rnd.Intn(3)
	var plans []*txPlan
	flush := func() {
		r.runPlans(w, plans)
		plans = nil
		// the generator's model follows what really happened
		real, blocked := w.tableCache(), map[string]bool{}
		for _, n := range w.blockedNow() {
			blocked[n] = true
		}
		for _, n := range names {
			e := real[n]
			switch {
			case e.St == "live":
				g.tbl[n] = gEntry{"live", e.Mv, e.Nef}
			case blocked[n]:
				g.tbl[n] = gEntry{st: "dead", nef: "n0"}
			default:
				g.tbl[n] = gEntry{st: "absent", nef: "n0"}
			}
		}
		g.blk = blocked
	}
	for t := 0; t < ntx; t++ {
		nb := t == 0 || rnd.Intn(2) == 0
		if nb && len(plans) > 0 {
			flush()
		}
		b := newBuilder(nb)
		doomed := rnd.Intn(3) == 0
		saveT, saveB := map[string]gEntry{}, map[string]bool{}
		for k, v := range g.tbl {
			saveT[k] = v
		}
		for k, v := range g.blk {
			saveB[k] = v
		}
		g.stack = []gFrame{{name: "E", fl: 15, entry: true, nef: "n0"}}
		nmg := 0
		faulted := false
		last := ""
		refuse := func(what string) bool {
			// an operation the model expects to be refused: taken (and final) only in a doomed transaction
			if doomed && rnd.Intn(3) == 0 {
				faulted, last = true, what
				return true
			}
			return false
		}
		contractDepth := func() int {
			n := 0
			for _, f := range g.stack[1:] {
				if !f.native {
					n++
				}
			}
			return n
		}
		budget := 6 + rnd.Intn(14)
		for s := 0; s < budget*3 && !faulted && budget > 0; s++ {
			tp := g.top()
			switch k := rnd.Intn(17); {
			case k < 5 && contractDepth() < maxDepth: // System.Contract.Call
				c := names[rnd.Intn(len(names))]
				m := []string{"p", "q", "q"}[rnd.Intn(3)]
				a := 2
				if md := meth(g.man(c, g.tbl[c].mv), m, 3); md != nil && rnd.Intn(4) != 0 || rnd.Intn(12) == 0 {
					a = 3
				}
				req := randFlags(rnd)
				ok, fl := g.callOK(c, m, a, req)
				kind := opCall
				if rnd.Intn(3) == 0 {
					kind = opCallTry
				}
				if !ok && !refuse(fmt.Sprintf("call %s.%s/%d req %d", c, m, a, req)) {
					continue
				}
				o := b.add(&Op{Kind: kind, C: c, M: m, A: a, Flags: req})
				if ok {
					b.push(o)
					g.stack = append(g.stack, gFrame{name: c, fl: fl, mv: g.tbl[c].mv, nef: g.tbl[c].nef})
				}
				budget--
			case k < 7 && contractDepth() < maxDepth && !tp.entry: // CALLT
				i := rnd.Intn(len(toks))
				tk := toks[i]
				ok, fl := false, 0
				if tp.nef == "n1" {
					ok, fl = g.callOK(tk.C, tk.M, tk.A, tk.Fl)
				}
				if !ok && !refuse(fmt.Sprintf("callt %d", i)) {
					continue
				}
				o := b.add(&Op{Kind: opCallT, Tok: i})
				if ok {
					b.push(o)
					g.stack = append(g.stack, gFrame{name: tk.C, fl: fl, mv: g.tbl[tk.C].mv, nef: g.tbl[tk.C].nef})
				}
				budget--
			case k < 9 && !tp.entry: // storage write
				ok := tp.fl&3 == 3 && g.live(tp.name)
				if !ok && !refuse("put") {
					continue
				}
				b.add(&Op{Kind: opPut})
				budget--
			case k < 11 && !tp.entry: // notification
				ok := tp.fl&8 != 0
				if !ok && !refuse("notify") {
					continue
				}
				b.add(&Op{Kind: opNotify})
				budget--
			case k < 14 && nmg < maxMgmt: // ContractManagement
				mop := []string{"deploy", "update", "update", "destroy"}[rnd.Intn(4)]
				if mop != "deploy" && tp.entry {
					continue
				}
				req := 15
				if rnd.Intn(5) == 0 {
					req = randFlags(rnd)
				}
				o := &Op{Flags: req, Nv: "n0", Mv: 1 + rnd.Intn(3)}
				need := 15
				switch mop {
				case "deploy":
					o.Kind = opDeploy
					var cands []string
					for _, n := range names {
						if g.tbl[n].st != "live" {
							cands = append(cands, n)
						}
					}
					if len(cands) == 0 {
						continue
					}
					o.C = cands[rnd.Intn(len(cands))]
				case "update":
					o.Kind, o.C = opUpdate, tp.name
					o.Nv = []string{"", "n0", "n1", "n1"}[rnd.Intn(4)]
				case "destroy":
					o.Kind, o.C, need = opDestroy, tp.name, 11
				}
				ar := 3
				if mop == "destroy" {
					ar = 0
				}
				okCall, mfl := g.callOK("M", mop, ar, req)
				okOp := okCall && mfl&need == need
				switch mop {
				case "deploy":
					okOp = okOp && !g.blk[o.C] && g.tbl[o.C].st != "live"
				default:
					okOp = okOp && g.tbl[o.C].st == "live"
				}
				hasCb := mop != "destroy" && meth(g.man(o.C, o.Mv), "_deploy", 2) != nil
				if okOp && hasCb && g.blk[o.C] {
					okOp = false // the callback of a blocked contract is refused
				}
				if !okOp && !refuse(fmt.Sprintf("%s %s mv %d req %d", mop, o.C, o.Mv, req)) {
					continue
				}
				b.add(o)
				budget--
				if !okOp {
					break
				}
				nmg++
				switch mop {
				case "deploy":
					g.tbl[o.C] = gEntry{"live", o.Mv, "n0"}
				case "update":
					e := g.tbl[o.C]
					e.mv = o.Mv
					if o.Nv != "" {
						e.nef = o.Nv
					}
					g.tbl[o.C] = e
				case "destroy":
					g.tbl[o.C] = gEntry{st: "dead", nef: "n0"}
					g.blk[o.C] = true
				}
				if hasCb {
					// _deploy of the new contract state runs now: native frame + callback frame
					b.push(o)
					g.stack = append(g.stack, gFrame{name: "M", fl: mfl, native: true, meth: mop},
						gFrame{name: o.C, fl: mfl, mv: g.tbl[o.C].mv, nef: g.tbl[o.C].nef})
				}
			case k < 17 && len(g.stack) > 1: // return
				b.pop()
				g.stack = g.stack[:len(g.stack)-1]
				if g.top().native {
					g.stack = g.stack[:len(g.stack)-1]
				}
			}
		}
		if faulted {
			b.tx.expect, b.tx.last = "FAULT", last
			g.tbl, g.blk = saveT, saveB
		} else if doomed && rnd.Intn(4) == 0 {
			b.add(&Op{Kind: opAbort})
			b.tx.expect, b.tx.last = "FAULT", "abort"
			g.tbl, g.blk = saveT, saveB
		} else {
			b.tx.expect, b.tx.last = "HALT", "end"
		}
		plans = append(plans, b.tx)
	}
	flush()
	r.res.Traces++
}
