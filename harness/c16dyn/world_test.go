package c16dyn

import (
	"encoding/json"
	"fmt"
	"math/big"
	"sort"
	"testing"

	"github.com/nspcc-dev/neo-go/pkg/config"
	"github.com/nspcc-dev/neo-go/pkg/core"
	"github.com/nspcc-dev/neo-go/pkg/core/native"
	"github.com/nspcc-dev/neo-go/pkg/core/native/nativenames"
	"github.com/nspcc-dev/neo-go/pkg/core/state"
	"github.com/nspcc-dev/neo-go/pkg/core/transaction"
	"github.com/nspcc-dev/neo-go/pkg/crypto/hash"
	"github.com/nspcc-dev/neo-go/pkg/crypto/keys"
	"github.com/nspcc-dev/neo-go/pkg/io"
	"github.com/nspcc-dev/neo-go/pkg/neotest"
	"github.com/nspcc-dev/neo-go/pkg/neotest/chain"
	"github.com/nspcc-dev/neo-go/pkg/smartcontract"
	"github.com/nspcc-dev/neo-go/pkg/smartcontract/callflag"
	"github.com/nspcc-dev/neo-go/pkg/smartcontract/manifest"
	"github.com/nspcc-dev/neo-go/pkg/smartcontract/nef"
	"github.com/nspcc-dev/neo-go/pkg/util"
	"github.com/nspcc-dev/neo-go/pkg/vm/emit"
	"github.com/nspcc-dev/neo-go/pkg/vm/opcode"
	"github.com/nspcc-dev/neo-go/pkg/vm/stackitem"
	"go.uber.org/zap"
)

// ---- the abstract universe (shared with spec/flagsdyn: FlagsDyn.tla Perm / Meth / Man) ----

type APerm struct {
	Kind    string   `json:"kind"` // wild | hash | group
	Target  string   `json:"target"`
	Wild    bool     `json:"wild"`
	Methods []string `json:"methods"`
}

type AMeth struct {
	N string `json:"n"`
	A int    `json:"a"`
	S bool   `json:"s"`
}

type AMan struct {
	Perms  []APerm  `json:"perms"`
	Meths  []AMeth  `json:"meths"`
	Groups []string `json:"groups"`
}

type AToken struct {
	C  string `json:"c"`
	M  string `json:"m"`
	A  int    `json:"a"`
	Fl int    `json:"fl"`
}

// TEntry is the abstract state of one contract as READ BACK from a real contract state.
type TEntry struct {
	St  string `json:"st"`  // absent | live  ("dead" is what the specification tracks; a read-back shows absent)
	Mv  int    `json:"mv"`  // 1-based index into the catalogue, 0: none of them
	Nef string `json:"nef"` // n0 | n1 | "?"
	UC  int    `json:"uc"`
}

var absent = TEntry{St: "absent", Mv: 0, Nef: "n0", UC: 0}

func canon(m AMan) string {
	ps := make([]string, len(m.Perms))
	for i, p := range m.Perms {
		ms := append([]string{}, p.Methods...)
		sort.Strings(ms)
		ps[i] = fmt.Sprint(p.Kind, "/", p.Target, "/", p.Wild, "/", ms)
	}
	sort.Strings(ps)
	mt := make([]string, len(m.Meths))
	for i, x := range m.Meths {
		mt[i] = fmt.Sprint(x.N, "/", x.A, "/", x.S)
	}
	sort.Strings(mt)
	gs := append([]string{}, m.Groups...)
	sort.Strings(gs)
	return fmt.Sprint(ps, mt, gs)
}

func detKey(seed string) *keys.PrivateKey {
	h := hash.Sha256([]byte("verif-c16dyn-" + seed))
	k, err := keys.NewPrivateKeyFromBytes(h.BytesBE())
	if err != nil {
		panic(err)
	}
	return k
}

// world is one real chain.  Histories are replayed on it one after another, each one on its own generation of probe
// contracts (fresh names, hence fresh hashes).
type world struct {
	t       testing.TB
	bc      *core.Blockchain
	e       *neotest.Executor
	domovoi bool
	mgmt    util.Uint160
	mgmtID  int32
	policy  util.Uint160
	gkeys   map[string]*keys.PrivateKey
	gnames  map[string]string // compressed public key -> group name
	nonce   uint32
	gen     int
	// current generation
	names   []string
	cat     map[string][]AMan
	toks    []AToken
	tokAr   []int
	script  []byte // the interpreter alone: body of the entry scripts
	cbOff   int
	q3Off   int
	nef0    *nef.File
	nef1    *nef.File
	nefB    map[string][]byte
	hashes  map[string]util.Uint160
	hnames  map[util.Uint160]string
	mfB     map[string][]byte // "c/i" -> manifest JSON
	mfCanon map[string]map[string]int
}

var groupNames = []string{"G1", "G2"}

// newWorld creates a chain; domovoi = false: the hardforks from Domovoi on are not active (the permission check of the
// engine then reads the caller's STORED manifest).
func newWorld(t testing.TB, domovoi bool) *world {
	config.Version = "0.0.0-verif"
	bc, acc := chain.NewSingleWithOptions(t, &chain.Options{Logger: zap.NewNop(), BlockchainConfigHook: func(c *config.Blockchain) {
		if !domovoi {
			c.Hardforks = map[string]uint32{config.HFCockatrice.String(): 0}
		}
	}})
	e := neotest.NewExecutor(t, bc, acc, acc)
	e.DisableCoverage()
	w := &world{t: t, bc: bc, e: e, domovoi: domovoi, gkeys: map[string]*keys.PrivateKey{}, gnames: map[string]string{}}
	w.mgmt = e.NativeHash(t, nativenames.Management)
	w.mgmtID = e.NativeID(t, nativenames.Management)
	w.policy = e.NativeHash(t, nativenames.Policy)
	for _, g := range groupNames {
		w.gkeys[g] = detKey("group-" + g)
		w.gnames[w.gkeys[g].PublicKey().StringCompressed()] = g
	}
	return w
}

func (w *world) manifestName(n string) string { return fmt.Sprintf("verif-c16dyn-%d-%s", w.gen, n) }

// newGeneration switches to a fresh set of (not yet deployed) probe contracts with the given catalogue and tokens.
func (w *world) newGeneration(names []string, cat map[string][]AMan, toks []AToken) {
	w.gen++
	w.names = append([]string{}, names...)
	sort.Strings(w.names)
	w.cat, w.toks = cat, toks
	w.tokAr = make([]int, len(toks))
	for i, tk := range toks {
		w.tokAr[i] = tk.A
	}
	w.script = blob(w.mgmt, w.tokAr)
	var cs []byte
	cs, w.cbOff, w.q3Off = contractScript(w.mgmt, w.tokAr)
	ne, err := nef.NewFile(cs)
	if err != nil {
		w.t.Fatal(err)
	}
	w.nef0 = ne
	w.hashes = map[string]util.Uint160{"M": w.mgmt}
	w.hnames = map[util.Uint160]string{w.mgmt: "M"}
	for _, n := range w.names {
		h := state.CreateContractHash(w.e.Validator.ScriptHash(), w.nef0.Checksum, w.manifestName(n))
		w.hashes[n] = h
		w.hnames[h] = n
	}
	n1 := *ne
	n1.Tokens = nil
	for _, tk := range toks {
		n1.Tokens = append(n1.Tokens, nef.MethodToken{Hash: w.hashes[tk.C], Method: tk.M, ParamCount: uint16(tk.A),
			HasReturn: false, CallFlag: callflag.CallFlag(tk.Fl)})
	}
	n1.Checksum = n1.CalculateChecksum()
	w.nef1 = &n1
	w.nefB = map[string][]byte{}
	for k, f := range map[string]*nef.File{"n0": w.nef0, "n1": w.nef1} {
		b, err := f.Bytes()
		if err != nil {
			w.t.Fatal(err)
		}
		w.nefB[k] = b
	}
	w.mfB = map[string][]byte{}
	w.mfCanon = map[string]map[string]int{}
	for _, n := range w.names {
		w.mfCanon[n] = map[string]int{}
		for i, am := range cat[n] {
			b, err := json.Marshal(w.manifestOf(n, am))
			if err != nil {
				w.t.Fatal(err)
			}
			w.mfB[fmt.Sprintf("%s/%d", n, i+1)] = b
			if _, dup := w.mfCanon[n][canon(am)]; !dup {
				w.mfCanon[n][canon(am)] = i + 1
			}
		}
	}
}

// manifestOf builds the real manifest of probe contract n from its abstract description.
func (w *world) manifestOf(n string, am AMan) *manifest.Manifest {
	m := manifest.NewManifest(w.manifestName(n))
	m.ABI.Events = []manifest.Event{{Name: "ev", Parameters: []manifest.Parameter{}}}
	for _, x := range am.Meths {
		md := manifest.Method{Name: x.N, ReturnType: smartcontract.VoidType, Safe: x.S}
		switch {
		case x.N == manifest.MethodDeploy:
			md.Offset = w.cbOff
			md.Parameters = []manifest.Parameter{{Name: "data", Type: smartcontract.AnyType}, {Name: "update", Type: smartcontract.BoolType}}
		case x.A == 3:
			md.Offset = w.q3Off
		default:
			md.Offset = 0
		}
		if md.Parameters == nil {
			for i := 0; i < x.A; i++ {
				md.Parameters = append(md.Parameters, manifest.Parameter{Name: fmt.Sprintf("a%d", i), Type: smartcontract.AnyType})
			}
		}
		m.ABI.Methods = append(m.ABI.Methods, md)
	}
	m.Permissions = []manifest.Permission{}
	for _, p := range am.Perms {
		var rp *manifest.Permission
		switch p.Kind {
		case "wild":
			rp = manifest.NewPermission(manifest.PermissionWildcard)
		case "hash":
			rp = manifest.NewPermission(manifest.PermissionHash, w.hashes[p.Target])
		case "group":
			rp = manifest.NewPermission(manifest.PermissionGroup, w.gkeys[p.Target].PublicKey())
		default:
			w.t.Fatalf("permission kind %q", p.Kind)
		}
		if !p.Wild {
			rp.Methods.Restrict()
			for _, x := range p.Methods {
				rp.Methods.Add(x)
			}
		}
		m.Permissions = append(m.Permissions, *rp)
	}
	h := w.hashes[n]
	gs := append([]string{}, am.Groups...)
	sort.Strings(gs)
	m.Groups = []manifest.Group{}
	for _, g := range gs {
		k := w.gkeys[g]
		m.Groups = append(m.Groups, manifest.Group{PublicKey: k.PublicKey(), Signature: k.Sign(h.BytesBE())})
	}
	return m
}

// abstractOf projects a REAL manifest back to its abstract description.
func (w *world) abstractOf(m *manifest.Manifest) AMan {
	am := AMan{Perms: []APerm{}, Meths: []AMeth{}, Groups: []string{}}
	for _, md := range m.ABI.Methods {
		am.Meths = append(am.Meths, AMeth{N: md.Name, A: len(md.Parameters), S: md.Safe})
	}
	for _, p := range m.Permissions {
		ap := APerm{Methods: []string{}}
		switch p.Contract.Type {
		case manifest.PermissionWildcard:
			ap.Kind = "wild"
		case manifest.PermissionHash:
			ap.Kind = "hash"
			ap.Target = w.hnames[p.Contract.Hash()]
			if ap.Target == "" {
				ap.Target = "?" + p.Contract.Hash().StringLE()
			}
		case manifest.PermissionGroup:
			ap.Kind = "group"
			ap.Target = w.gnames[p.Contract.Group().StringCompressed()]
			if ap.Target == "" {
				ap.Target = "?" + p.Contract.Group().StringCompressed()
			}
		}
		ap.Wild = p.Methods.IsWildcard()
		if !ap.Wild {
			ap.Methods = append(ap.Methods, p.Methods.Value...)
		}
		am.Perms = append(am.Perms, ap)
	}
	for _, g := range m.Groups {
		n, ok := w.gnames[g.PublicKey.StringCompressed()]
		if !ok {
			n = "?" + g.PublicKey.StringCompressed()
		}
		am.Groups = append(am.Groups, n)
	}
	return am
}

func (w *world) variantOf(n string, m *manifest.Manifest) int {
	if m == nil || w.mfCanon[n] == nil {
		return 0
	}
	return w.mfCanon[n][canon(w.abstractOf(m))]
}

func (w *world) nefName(f *nef.File) string {
	switch {
	case f == nil:
		return "?"
	case f.Checksum == w.nef0.Checksum:
		return "n0"
	case f.Checksum == w.nef1.Checksum:
		return "n1"
	}
	return "?"
}

func (w *world) project(n string, cs *state.Contract) TEntry {
	if cs == nil {
		return absent
	}
	return TEntry{St: "live", Mv: w.variantOf(n, &cs.Manifest), Nef: w.nefName(&cs.NEF), UC: int(cs.UpdateCounter)}
}

// tableCache is the contract table as the chain's ContractManagement answers it (its contract cache).
func (w *world) tableCache() map[string]TEntry {
	out := map[string]TEntry{}
	for _, n := range w.names {
		out[n] = w.project(n, w.bc.GetContractState(w.hashes[n]))
	}
	return out
}

// tableStored is the contract table decoded from ContractManagement's storage records.
func (w *world) tableStored() map[string]TEntry {
	out := map[string]TEntry{}
	for _, n := range w.names {
		si := w.bc.GetStorageItem(w.mgmtID, native.MakeContractKey(w.hashes[n]))
		if si == nil {
			out[n] = absent
			continue
		}
		it, err := stackitem.Deserialize(si)
		if err != nil {
			w.t.Fatalf("stored contract %s: %v", n, err)
		}
		cs := new(state.Contract)
		if err = cs.FromStackItem(it); err != nil {
			w.t.Fatalf("stored contract %s: %v", n, err)
		}
		out[n] = w.project(n, cs)
	}
	return out
}

// blocked lists the contracts of the universe whose hashes Policy reports blocked.
func (w *world) blockedNow() []string {
	out := []string{}
	inv := w.e.CommitteeInvoker(w.policy)
	for _, n := range w.names {
		st, err := inv.TestInvoke(w.t, "isBlocked", w.hashes[n])
		if err != nil || st.Len() != 1 {
			w.t.Fatalf("isBlocked(%s): %v", n, err)
		}
		if b, err := st.Pop().Item().TryBool(); err == nil && b {
			out = append(out, n)
		}
	}
	return out
}

// ---- programs ----

// Op is one operation of a program (tree).
type Op struct {
	Kind  int
	ID    int
	C     string // callee (opCall*), target contract (opDeploy / opUpdate: whose manifests)
	M     string
	A     int
	Flags int
	Tok   int
	Mv    int    // manifest variant (1-based)
	Nv    string // "n0" | "n1" | "" (update: keep the NEF)
	Sub   []*Op  // callee's / _deploy's program
}

func bi(i int64) stackitem.Item { return stackitem.NewBigInteger(big.NewInt(i)) }

func (w *world) item(o *Op) stackitem.Item {
	hd := []stackitem.Item{bi(int64(o.Kind)), bi(int64(o.ID))}
	switch o.Kind {
	case opCall, opCallTry:
		hd = append(hd, stackitem.NewByteArray(w.hashes[o.C].BytesBE()), stackitem.NewByteArray([]byte(o.M)), bi(int64(o.Flags)),
			w.progItem(o.Sub), bi(int64(o.A)))
	case opCallT:
		hd = append(hd, bi(int64(o.Tok)), w.progItem(o.Sub))
	case opPut:
		hd = append(hd, stackitem.NewByteArray([]byte(fmt.Sprintf("k%d", o.ID))))
	case opUpdate:
		var nf stackitem.Item = stackitem.Null{}
		if o.Nv != "" {
			nf = stackitem.NewByteArray(w.nefB[o.Nv])
		}
		hd = append(hd, nf, stackitem.NewByteArray(w.mfB[fmt.Sprintf("%s/%d", o.C, o.Mv)]), w.progItem(o.Sub), bi(int64(o.Flags)))
	case opDestroy:
		hd = append(hd, bi(int64(o.Flags)))
	case opDeploy:
		hd = append(hd, stackitem.NewByteArray(w.nefB["n0"]), stackitem.NewByteArray(w.mfB[fmt.Sprintf("%s/%d", o.C, o.Mv)]),
			w.progItem(o.Sub), bi(int64(o.Flags)))
	}
	return stackitem.NewArray(hd)
}

func (w *world) progItem(ops []*Op) stackitem.Item {
	its := make([]stackitem.Item, len(ops))
	for i, o := range ops {
		its[i] = w.item(o)
	}
	return stackitem.NewArray(its)
}

// entryScript = NEWARRAY0 (R); prog; OVER; interpreter.
func (w *world) entryScript(ops []*Op) []byte {
	bw := io.NewBufBinWriter()
	emit.Opcodes(bw.BinWriter, opcode.NEWARRAY0)
	emit.StackItem(bw.BinWriter, w.progItem(ops))
	emit.Opcodes(bw.BinWriter, opcode.OVER)
	if bw.Err != nil {
		w.t.Fatal(bw.Err)
	}
	return append(bw.Bytes(), w.script...)
}

// makeTx builds and signs a real transaction sent by the validator (Global scope: no witness check is involved).
func (w *world) makeTx(ops []*Op, sysFee int64) *transaction.Transaction {
	tx := transaction.New(w.entryScript(ops), sysFee)
	w.nonce++
	tx.Nonce = w.nonce
	tx.ValidUntilBlock = w.bc.BlockHeight() + 10
	tx.Signers = []transaction.Signer{{Account: w.e.Validator.ScriptHash(), Scopes: transaction.Global}}
	neotest.AddNetworkFee(w.t, w.bc, tx, w.e.Validator)
	if err := w.e.Validator.SignTx(w.bc.GetConfig().Magic, tx); err != nil {
		w.t.Fatal(err)
	}
	return tx
}

func countOps(ops []*Op, kind int) int {
	n := 0
	for _, o := range ops {
		if o.Kind == kind {
			n++
		}
		n += countOps(o.Sub, kind)
	}
	return n
}

func feeFor(ops []*Op) int64 {
	return 30_0000_0000 + 15_0000_0000*int64(countOps(ops, opDeploy)) + 5_0000_0000*int64(countOps(ops, opUpdate))
}
