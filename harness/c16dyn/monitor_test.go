// Instruction-level observation of one REAL execution (an interop.Context of the real chain with an OnExecHook): every
// real vm.Context that appears on the invocation stack (its call flags, manifest, NEF, what created it), every change of
// the invocation's DAO layer and of the notification list attributed to the context that made it, every management
// operation that completed.  Nothing here is told by the probe contracts.
package c16dyn

import (
	"bytes"
	"encoding/binary"
	"encoding/json"
	"fmt"

	"github.com/nspcc-dev/neo-go/pkg/core/dao"
	"github.com/nspcc-dev/neo-go/pkg/core/interop"
	"github.com/nspcc-dev/neo-go/pkg/core/interop/interopnames"
	"github.com/nspcc-dev/neo-go/pkg/core/state"
	"github.com/nspcc-dev/neo-go/pkg/smartcontract/manifest"
	"github.com/nspcc-dev/neo-go/pkg/smartcontract/nef"
	"github.com/nspcc-dev/neo-go/pkg/util"
	"github.com/nspcc-dev/neo-go/pkg/vm"
	"github.com/nspcc-dev/neo-go/pkg/vm/opcode"
	"github.com/nspcc-dev/neo-go/pkg/vm/stackitem"
)

type ev = map[string]any

// pending describes what the instruction about to execute may create.
type pending struct {
	kind string // c | t | n
	c    string
	hash util.Uint160
	m    string
	a    int
	req  int
	cs   TEntry // the callee as ic.GetContract answers right now
	// management: the native frame is about to run its method
	mgmt   string // deploy | update | destroy
	target string
	mv     int
	nv     string
	what   string
}

type mframe struct {
	ctx  *vm.Context
	id   int
	hash util.Uint160
	name string
	meth string // ContractManagement frame: the method it was called for
}

type monitor struct {
	w       *world
	ic      *interop.Context
	base    *dao.Simple // the state the transaction started from
	events  []ev
	stack   []mframe
	prev    []mframe // the stack before the instruction that has just been executed
	nextID  int
	pend    *pending
	lastDAO *dao.Simple
	lastB   map[string]string
	dirty   map[string]bool
	lastNtf int
	err     string
}

const delMark = "\x00<deleted>"

func batchMap(d *dao.Simple) map[string]string {
	b := d.GetBatch()
	m := make(map[string]string, len(b.Put)+len(b.Deleted))
	for _, kv := range b.Put {
		m[string(kv.Key)] = "P" + string(kv.Value)
	}
	for _, kv := range b.Deleted {
		m[string(kv.Key)] = delMark
	}
	return m
}

func (m *monitor) realChange(k, val string) bool {
	old, err := m.base.Store.Get([]byte(k))
	if val == delMark {
		return err == nil
	}
	return err != nil || !bytes.Equal(old, []byte(val[1:]))
}

func (m *monitor) emit(e ev) { m.events = append(m.events, e) }

func (m *monitor) topID(st []mframe) int {
	if len(st) == 0 {
		return -1
	}
	return st[len(st)-1].id
}

// effects attributes what the instruction executed last did to the context that executed it.
func (m *monitor) effects() {
	acting := m.topID(m.prev)
	n := len(m.ic.Notifications)
	for i := m.lastNtf; i < n && acting >= 0; i++ {
		f := acting
		// a native contract may emit its notification while the callback it waited for is being unloaded
		for j := len(m.prev) - 1; j >= 0; j-- {
			if m.prev[j].hash == m.ic.Notifications[i].ScriptHash {
				f = m.prev[j].id
				break
			}
		}
		m.emit(ev{"event": "eff", "f": f, "e": "n", "name": m.ic.Notifications[i].Name})
	}
	m.lastNtf = n
	d := m.ic.DAO
	cur := batchMap(d)
	if d == m.lastDAO && acting >= 0 {
		wrote := false
		for k, val := range cur {
			if old, ok := m.lastB[k]; !ok || old != val {
				if m.dirty[k] || m.realChange(k, val) {
					wrote = true
				}
				m.dirty[k] = true
			}
		}
		if wrote {
			m.emit(ev{"event": "eff", "f": acting, "e": "w"})
		}
	} else {
		for k := range cur {
			m.dirty[k] = true
		}
	}
	m.lastDAO, m.lastB = d, cur
}

func (m *monitor) nameOf(h util.Uint160) string {
	if n, ok := m.w.hnames[h]; ok {
		return n
	}
	return "?" + h.StringLE()[:8]
}

func (m *monitor) lookup(h util.Uint160) TEntry {
	n, ok := m.w.hnames[h]
	if !ok || n == "M" {
		return TEntry{St: "live", Nef: "n0"}
	}
	cs, err := m.ic.GetContract(h)
	if err != nil {
		return absent
	}
	return m.w.project(n, cs)
}

func (m *monitor) step(h util.Uint160, ip int, op opcode.Opcode) {
	defer func() {
		if r := recover(); r != nil && m.err == "" {
			m.err = fmt.Sprint(r)
		}
	}()
	m.effects()
	// the management operation announced at the previous step has completed
	if p := m.pend; p != nil && p.mgmt != "" {
		m.emit(ev{"event": "mgmt", "op": p.mgmt, "c": p.target, "mv": p.mv, "nef": p.nv, "f": m.topID(m.prev)})
	}
	ist := m.ic.VM.Istack()
	k := 0
	for k < len(ist) && k < len(m.stack) && ist[k] == m.stack[k].ctx {
		k++
	}
	for j := len(m.stack) - 1; j >= k; j-- {
		m.emit(ev{"event": "ret", "id": m.stack[j].id})
	}
	m.stack = m.stack[:k]
	for i := k; i < len(ist); i++ {
		f := mframe{ctx: ist[i], id: m.nextID, hash: ist[i].ScriptHash()}
		f.name = m.nameOf(f.hash)
		m.nextID++
		fl := int(ist[i].GetCallFlags())
		if i == 0 {
			f.name = "E"
			m.emit(ev{"event": "begintx", "fl": fl})
		} else {
			e := ev{"event": "enter", "id": f.id, "par": m.stack[i-1].id, "fl": fl, "c": f.name,
				"lmv": m.w.variantOf(f.name, ist[i].GetManifest()), "lnef": m.w.nefName(ist[i].GetNEF())}
			p := m.pend
			if i == k && p != nil && p.kind != "" && (p.kind == "n" || p.hash == f.hash) {
				e["kind"], e["m"], e["a"], e["req"], e["cs"] = p.kind, p.m, p.a, p.req, p.cs
				if p.kind == "n" {
					// loaded by native code: the method is the one the context starts in
					e["m"], e["a"] = methodAt(ist[i].GetManifest(), ist[i].IP())
					e["cs"] = m.lookup(f.hash)
					e["nm"] = p.what // the native method that loads the context
				}
				if f.name == "M" {
					f.meth = p.m
				}
			} else {
				e["kind"], e["m"], e["a"], e["req"], e["cs"] = "i", "", 0, -1, m.lookup(f.hash)
			}
			m.emit(e)
		}
		m.stack = append(m.stack, f)
	}
	m.prev = append(m.prev[:0], m.stack...)
	m.pend = m.pending(ist[len(ist)-1], ip, op)
}

func methodAt(mf *manifest.Manifest, ip int) (string, int) {
	if mf != nil {
		for _, md := range mf.ABI.Methods {
			if md.Offset == ip && md.Name == manifest.MethodDeploy {
				return md.Name, len(md.Parameters)
			}
		}
		for _, md := range mf.ABI.Methods {
			if md.Offset == ip {
				return md.Name, len(md.Parameters)
			}
		}
	}
	return "?", 0
}

func itemLen(e vm.Element) (n int) {
	defer func() {
		if recover() != nil {
			n = -1
		}
	}()
	return len(e.Array())
}

// pending describes the cross call / management operation the instruction about to execute may make.
func (m *monitor) pending(ctx *vm.Context, ip int, op opcode.Opcode) *pending {
	prog := ctx.Program()
	switch op {
	case opcode.SYSCALL:
		if ip+5 > len(prog) {
			return nil
		}
		fn := m.ic.GetFunction(binary.LittleEndian.Uint32(prog[ip+1 : ip+5]))
		if fn == nil {
			return nil
		}
		es := ctx.Estack()
		switch fn.Name {
		case interopnames.SystemContractCall:
			if es.Len() < 4 {
				return &pending{what: "System.Contract.Call"}
			}
			p := &pending{kind: "c", req: -1, what: "System.Contract.Call"}
			hb, e1 := es.Peek(0).Item().TryBytes()
			mb, e2 := es.Peek(1).Item().TryBytes()
			if fl, e3 := es.Peek(2).Item().TryInteger(); e3 == nil && fl.IsInt64() {
				p.req = int(fl.Int64())
			}
			p.a = itemLen(es.Peek(3))
			if e1 == nil && e2 == nil {
				if u, err := util.Uint160DecodeBytesBE(hb); err == nil {
					p.hash, p.c, p.m = u, m.nameOf(u), string(mb)
					p.cs = m.lookup(u)
					p.what = fmt.Sprintf("System.Contract.Call %s.%s/%d flags %d", p.c, p.m, p.a, p.req)
				}
			}
			return p
		case interopnames.SystemContractCallNative:
			top := m.stack[len(m.stack)-1]
			p := &pending{kind: "n", req: 15, what: "native " + top.name + "." + top.meth}
			if top.name == "M" && (top.meth == "deploy" || top.meth == "update" || top.meth == "destroy") {
				p.mgmt = top.meth
				p.what = "ContractManagement." + top.meth
				m.describeMgmt(p, ctx)
			}
			return p
		default:
			return &pending{what: fn.Name}
		}
	case opcode.CALLT:
		p := &pending{what: "CALLT"}
		if ip+3 > len(prog) || ctx.GetNEF() == nil {
			return p
		}
		idx := int(binary.LittleEndian.Uint16(prog[ip+1 : ip+3]))
		if idx >= len(ctx.GetNEF().Tokens) {
			p.what = fmt.Sprintf("CALLT %d (no such token in the loaded NEF)", idx)
			return p
		}
		tok := ctx.GetNEF().Tokens[idx]
		p.kind, p.hash, p.c, p.m, p.a, p.req = "t", tok.Hash, m.nameOf(tok.Hash), tok.Method, int(tok.ParamCount), int(tok.CallFlag)
		p.cs = m.lookup(tok.Hash)
		p.what = fmt.Sprintf("CALLT %d %s.%s/%d flags %d", idx, p.c, p.m, p.a, p.req)
		return p
	case opcode.ABORT:
		return &pending{what: "ABORT"}
	}
	return nil
}

// describeMgmt reads from the native frame's own evaluation stack (the arguments of deploy / update) what the
// operation is asked to do: the contract concerned, which manifest of the catalogue, which NEF.
func (m *monitor) describeMgmt(p *pending, ctx *vm.Context) {
	es := ctx.Estack()
	caller := ""
	if len(m.stack) >= 2 {
		caller = m.stack[len(m.stack)-2].name
	}
	p.target, p.nv = caller, "n0"
	if p.mgmt == "destroy" {
		return
	}
	// native/interop.go Call pops the version number, then argument i is Peek(i) of the native context's stack
	if es.Len() < 4 {
		return
	}
	var mf manifest.Manifest
	var mfOK bool
	if b, err := es.Peek(2).Item().TryBytes(); err == nil {
		mfOK = json.Unmarshal(b, &mf) == nil
	}
	nefName := ""
	if _, isNull := es.Peek(1).Item().(stackitem.Null); !isNull {
		if b, err := es.Peek(1).Item().TryBytes(); err == nil {
			if nf, err := nef.FileFromBytes(b); err == nil {
				nefName = m.w.nefName(&nf)
				if p.mgmt == "deploy" && mfOK {
					h := state.CreateContractHash(m.ic.Tx.Sender(), nf.Checksum, mf.Name)
					p.target = m.nameOf(h)
				}
			}
		}
	}
	if p.mgmt == "update" {
		cur := m.lookup(m.w.hashes[caller])
		p.nv, p.mv = cur.Nef, cur.Mv
		if nefName != "" {
			p.nv = nefName
		}
	} else {
		p.nv = nefName
	}
	if mfOK {
		p.mv = m.w.variantOf(p.target, &mf)
	}
}

// finish is called after the VM stopped.
func (m *monitor) finish(halted bool, fault string) {
	defer func() {
		if r := recover(); r != nil && m.err == "" {
			m.err = fmt.Sprint(r)
		}
	}()
	if halted {
		m.effects()
		for j := len(m.stack) - 1; j >= 1; j-- {
			m.emit(ev{"event": "ret", "id": m.stack[j].id})
		}
		m.emit(ev{"event": "endtx", "how": "HALT"})
		return
	}
	what := "?"
	if m.pend != nil {
		what = m.pend.what
	}
	m.emit(ev{"event": "refused", "f": m.topID(m.stack), "what": what, "fault": fault})
	m.emit(ev{"event": "endtx", "how": "FAULT"})
}
