// Scripted histories: for every clause of the extension's scope the situations are enumerated systematically over the
// universe TLC uses (the catalogue of manifests and the method tokens are taken from the behaviours TLC printed), so
// that each of them is reached in every run whatever the random generators do.  A scripted history carries NO expected
// answer: like every other history it is observed on the real engine and judged by FlagsDynTrace.
//
//	selfupd    a contract updates itself (every other manifest / the same one, with or without a new NEF) and calls
//	           every method of every contract right afterwards, from inside the _deploy callback of that update, and
//	           through every method token
//	callee     the callee was updated (safe marks, parameter counts, groups, removed permissions) or destroyed earlier
//	           in the transaction / in the previous transaction of the block: called by the entry script, by every
//	           contract, through System.Contract.Call and CALLT, and made to write / notify
//	redeploy   destroy, then deploy the same hash again: same transaction, next transaction, next block
//	fresh      a contract deployed a moment ago (this transaction / previous transaction of the block) is called by
//	           contracts whose permission names its group
//	mgmtflags  ContractManagement.deploy / update / destroy called with every restricted flag set, and from frames that
//	           were themselves given restricted flags
//	callback   _deploy of a deployed / updated contract writes, notifies, calls, updates or destroys itself
package c16dyn

import (
	"fmt"
	"sort"
)

type scripted struct {
	name  string
	rule  string
	init  map[string]TEntry
	plans []*txPlan
}

func opsPlan(nb bool, ops ...*Op) *txPlan {
	b := newBuilder(nb)
	var number func(os []*Op)
	number = func(os []*Op) {
		for _, o := range os {
			b.tx.nextID++
			o.ID = b.tx.nextID
			number(o.Sub)
		}
	}
	number(ops)
	b.tx.root = ops
	return b.tx
}

func oCall(c, m string, a, fl int, sub ...*Op) *Op {
	return &Op{Kind: opCall, C: c, M: m, A: a, Flags: fl, Sub: sub}
}
func oCallTry(c, m string, a, fl int, sub ...*Op) *Op {
	return &Op{Kind: opCallTry, C: c, M: m, A: a, Flags: fl, Sub: sub}
}
func oTok(i int, sub ...*Op) *Op { return &Op{Kind: opCallT, Tok: i, Sub: sub} }
func oUpd(c string, mv int, nv string, fl int, cb ...*Op) *Op {
	return &Op{Kind: opUpdate, C: c, Mv: mv, Nv: nv, Flags: fl, Sub: cb}
}
func oDeploy(c string, mv int, fl int, cb ...*Op) *Op {
	return &Op{Kind: opDeploy, C: c, Mv: mv, Nv: "n0", Flags: fl, Sub: cb}
}
func oDestroy(fl int) *Op { return &Op{Kind: opDestroy, Flags: fl} }
func oPut() *Op           { return &Op{Kind: opPut} }
func oNotify() *Op        { return &Op{Kind: opNotify} }

func clone(o *Op) *Op {
	c := *o
	c.Sub = nil
	for _, s := range o.Sub {
		c.Sub = append(c.Sub, clone(s))
	}
	return &c
}

type methodSig struct {
	m string
	a int
}

// scriptedHistories enumerates the families over the given universe.
func scriptedHistories(names []string, cat map[string][]AMan, toks []AToken) []scripted {
	var out []scripted
	sigs := []methodSig{{"p", 2}, {"q", 2}, {"q", 3}}
	live := func(mv int) TEntry { return TEntry{St: "live", Mv: mv, Nef: "n1", UC: 1} }
	tables := []map[string]TEntry{
		{"A": live(1), "B": live(1)},
		{"A": live(1), "B": live(2), "C": live(1)},
		{"A": live(2), "B": live(1), "C": live(2)},
		{"A": live(1), "C": live(2)},
	}
	for _, rule := range []string{"loaded", "stored"} {
		for ti, tb := range tables {
			var lv, dead []string
			for _, n := range names {
				if tb[n].St == "live" {
					lv = append(lv, n)
				} else {
					dead = append(dead, n)
				}
			}
			sort.Strings(lv)
			add := func(fam string, plans ...*txPlan) {
				out = append(out, scripted{name: fmt.Sprintf("%s/%s/T%d/%d", fam, rule, ti, len(out)), rule: rule, init: tb, plans: plans})
			}
			// ---- selfupd
			for _, x := range lv {
				for j := range cat[x] {
					for _, nv := range []string{"", "n0"} {
						if nv == "n0" && j+1 != tb[x].Mv {
							continue // a NEF without tokens is tried with the unchanged manifest only
						}
						for _, y := range lv {
							for _, sg := range sigs {
								probe := oCall(y, sg.m, sg.a, 15)
								add("selfupd-after", opsPlan(true, oCall(x, "p", 2, 15, oUpd(x, j+1, nv, 15), probe)))
								add("selfupd-cb", opsPlan(true, oCall(x, "p", 2, 15, oUpd(x, j+1, nv, 15, clone(probe)))))
							}
						}
						for i := range toks {
							add("selfupd-callt", opsPlan(true, oCall(x, "p", 2, 15, oUpd(x, j+1, nv, 15), oTok(i))))
						}
						// the contract called AGAIN after its self-update (a new frame with the new manifest), calling on
						for _, y := range lv {
							add("selfupd-reenter", opsPlan(true, oCall(x, "p", 2, 15, oUpd(x, j+1, nv, 15), oCall(x, "p", 2, 15, oCall(y, "p", 2, 15)))))
						}
					}
				}
			}
			// ---- callee changed earlier
			for _, y := range lv {
				var changes [][]*Op
				for j := range cat[y] {
					if j+1 != tb[y].Mv {
						changes = append(changes, []*Op{oUpd(y, j+1, "", 15)})
					}
				}
				changes = append(changes, []*Op{oDestroy(15)})
				for ci, ch := range changes {
					for _, sg := range sigs {
						for vi, body := range [][]*Op{{oPut()}, {oNotify()}} {
							for _, x := range append([]string{"E"}, lv...) {
								if x == y {
									continue
								}
								mk := func() (*Op, *Op) {
									var cs []*Op
									for _, o := range ch {
										cs = append(cs, clone(o))
									}
									var bd []*Op
									for _, o := range body {
										bd = append(bd, clone(o))
									}
									change := oCall(y, "p", 2, 15, cs...)
									probe := oCall(y, sg.m, sg.a, 15, bd...)
									if x != "E" {
										probe = oCall(x, "p", 2, 15, probe)
									}
									return change, probe
								}
								c1, p1 := mk()
								add("callee-sametx", opsPlan(true, c1, p1))
								if vi == 0 && ci == 0 {
									c2, p2 := mk()
									add("callee-nexttx", opsPlan(true, c2), opsPlan(false, p2))
								}
							}
						}
					}
					for i, tk := range toks {
						if tk.C != y {
							continue
						}
						for _, x := range lv {
							var cs []*Op
							for _, o := range ch {
								cs = append(cs, clone(o))
							}
							add("callee-callt", opsPlan(true, oCall(y, "p", 2, 15, cs...), oCall(x, "p", 2, 15, oTok(i, oPut()))))
						}
					}
				}
			}
			// ---- destroy, then deploy the same hash again
			for _, y := range lv {
				for j := range cat[y] {
					add("redeploy-sametx", opsPlan(true, oCall(y, "p", 2, 15, oDestroy(15)), oDeploy(y, j+1, 15)))
					add("redeploy-nexttx", opsPlan(true, oCall(y, "p", 2, 15, oDestroy(15))), opsPlan(false, oDeploy(y, j+1, 15)))
					add("redeploy-nextblock", opsPlan(true, oCall(y, "p", 2, 15, oDestroy(15))), opsPlan(true, oDeploy(y, j+1, 15)))
					// from inside the destroyed contract's own frame
					add("redeploy-self", opsPlan(true, oCall(y, "p", 2, 15, oDestroy(15), oDeploy(y, j+1, 15))))
				}
			}
			// ---- freshly deployed callee
			for _, c := range dead {
				for j := range cat[c] {
					for _, x := range lv {
						for _, sg := range sigs {
							add("fresh-sametx", opsPlan(true, oDeploy(c, j+1, 15), oCall(x, "p", 2, 15, oCall(c, sg.m, sg.a, 15, oPut()))))
							add("fresh-nexttx", opsPlan(true, oDeploy(c, j+1, 15)), opsPlan(false, oCall(x, "p", 2, 15, oCall(c, sg.m, sg.a, 15, oNotify()))))
						}
						// deployed BY a contract
						add("fresh-bycontract", opsPlan(true, oCall(x, "p", 2, 15, oDeploy(c, j+1, 15), oCall(c, "p", 2, 15))))
					}
				}
			}
			// ---- ContractManagement with restricted flags
			for _, req := range []int{0, 1, 3, 5, 7, 9, 11, 13, 14} {
				for _, x := range lv {
					j := 1 + tb[x].Mv%len(cat[x])
					add("mgmtflags-update", opsPlan(true, oCall(x, "p", 2, 15, oUpd(x, j, "", req))))
					add("mgmtflags-update-frame", opsPlan(true, oCall(x, "p", 2, req, oUpd(x, j, "", 15))))
					add("mgmtflags-destroy", opsPlan(true, oCall(x, "p", 2, 15, oDestroy(req))))
					add("mgmtflags-destroy-frame", opsPlan(true, oCall(x, "p", 2, req, oDestroy(15))))
				}
				for _, c := range dead {
					add("mgmtflags-deploy", opsPlan(true, oDeploy(c, 1, req)))
					for _, x := range lv {
						add("mgmtflags-deploy-frame", opsPlan(true, oCall(x, "p", 2, req, oDeploy(c, 1, 15))))
					}
				}
			}
			// ---- the _deploy callback
			for _, x := range lv {
				j := 1 + tb[x].Mv%len(cat[x])
				var others []string
				for _, y := range lv {
					if y != x {
						others = append(others, y)
					}
				}
				cbs := [][]*Op{{oPut()}, {oNotify()}, {oUpd(x, tb[x].Mv, "", 15)}, {oDestroy(15)}, {oPut(), oNotify(), oDestroy(11)}}
				for _, y := range others {
					cbs = append(cbs, []*Op{oCall(y, "p", 2, 15, oPut())}, []*Op{oCall(y, "q", 2, 15, oNotify())}, []*Op{oCallTry(y, "p", 2, 7, oCall(x, "p", 2, 15, oPut()))})
				}
				for _, cb := range cbs {
					var c1 []*Op
					for _, o := range cb {
						c1 = append(c1, clone(o))
					}
					add("callback-update", opsPlan(true, oCall(x, "p", 2, 15, oUpd(x, j, "", 15, c1...), oPut())))
				}
			}
			for _, c := range dead {
				for j := range cat[c] {
					cbs := [][]*Op{{oPut()}, {oNotify()}, {oUpd(c, 1+(j+1)%len(cat[c]), "n1", 15)}, {oDestroy(15)}}
					for _, y := range lv {
						cbs = append(cbs, []*Op{oCall(y, "p", 2, 15, oCall(c, "p", 2, 15, oPut()))}, []*Op{oCall(y, "q", 2, 15)})
					}
					for _, cb := range cbs {
						var c1 []*Op
						for _, o := range cb {
							c1 = append(c1, clone(o))
						}
						add("callback-deploy", opsPlan(true, oDeploy(c, j+1, 15, c1...)))
					}
				}
			}
		}
	}
	return out
}

func (r *runner) runScripted(s scripted, names []string, cat map[string][]AMan, toks []AToken) {
	r.hid = "scr-" + s.name
	w := r.world(s.rule == "loaded")
	w.newGeneration(names, cat, toks)
	r.setup(w, s.rule, s.init)
	r.runPlans(w, s.plans)
	r.res.Traces++
}
