// Probe program of the C16 "dynamic contract table" extension.  One position-independent NeoVM program is
// (a) methods p(R, prog), q(R, prog), q(R, prog, x) and _deploy(data, isUpdate) of every probe contract (same code,
// different manifests => different hashes, permissions, safe marks, groups) and (b) the body of every entry script.
// It interprets a program: an array of operations
//
//	[opCall,    id, hash, method, flags, prog, nargs]   System.Contract.Call(hash, method, flags, [R, prog(, null)])
//	[opCallTry, id, ...]                                the same from inside a TRY block (the engine then gives the
//	                                                    callee a DAO layer of its own)
//	[opCallT,   id, token, prog]                        CALLT token  (arguments R, prog(, null) per the token)
//	[opPut,     id, key]                                System.Storage.GetContext + Put(key, "v")
//	[opNotify,  id]                                     System.Runtime.Notify("ev", [])
//	[opUpdate,  id, nef|null, manifest, cbprog, flags]  System.Contract.Call(ContractManagement, "update", flags, [nef, manifest, [R, cbprog]])
//	[opDestroy, id, flags]                              ... "destroy", flags, []
//	[opDeploy,  id, nef, manifest, cbprog, flags]       ... "deploy", flags, [nef, manifest, [R, cbprog]]
//	[opAbort,   id]                                     ABORT
//	[opMark,    id]                                     R += [id, 0]
//
// every completed operation leaves R += [id, 1]; every frame starts with R += [-1, System.Contract.GetCallFlags()].
// R is one Array shared by reference by all frames and kept at the bottom of each frame's evaluation stack: it is part
// of the application log's stack also when the transaction FAULTs.  The markers are NOT what the verdict is computed
// from (that is the instruction-level observation of the real contexts, monitor_test.go): they are what makes the
// application log of the real block comparable with the observed run.
//
// (assembler: harness/c15dyn/probe_test.go)
package c16dyn

import (
	"encoding/binary"
	"fmt"

	"github.com/nspcc-dev/neo-go/pkg/core/interop/interopnames"
	"github.com/nspcc-dev/neo-go/pkg/io"
	"github.com/nspcc-dev/neo-go/pkg/util"
	"github.com/nspcc-dev/neo-go/pkg/vm/emit"
	"github.com/nspcc-dev/neo-go/pkg/vm/opcode"
)

const (
	opCall = iota + 1
	opCallTry
	opCallT
	opPut
	opNotify
	opUpdate
	opDestroy
	opDeploy
	opAbort
	opMark
)

type asm struct {
	w      *io.BufBinWriter
	labels map[string]int
	fix    []fixup
}

type fixup struct {
	at    int
	opnd  int
	label string
}

func newAsm() *asm { return &asm{w: io.NewBufBinWriter(), labels: map[string]int{}} }

func (a *asm) op(ops ...opcode.Opcode) { emit.Opcodes(a.w.BinWriter, ops...) }
func (a *asm) pos() int                { return a.w.Len() }
func (a *asm) label(l string) {
	if _, ok := a.labels[l]; ok {
		panic("duplicate label " + l)
	}
	a.labels[l] = a.pos()
}
func (a *asm) jmp(op opcode.Opcode, l string) {
	a.fix = append(a.fix, fixup{a.pos(), 1, l})
	emit.Instruction(a.w.BinWriter, op, []byte{0, 0, 0, 0})
}
func (a *asm) try(catch string) {
	a.fix = append(a.fix, fixup{a.pos(), 1, catch})
	emit.Instruction(a.w.BinWriter, opcode.TRYL, []byte{0, 0, 0, 0, 0, 0, 0, 0})
}
func (a *asm) int(i int64)        { emit.Int(a.w.BinWriter, i) }
func (a *asm) bytes(b []byte)     { emit.Bytes(a.w.BinWriter, b) }
func (a *asm) str(s string)       { emit.String(a.w.BinWriter, s) }
func (a *asm) syscall(n string)   { emit.Syscall(a.w.BinWriter, n) }
func (a *asm) initslot(l, n byte) { emit.InitSlot(a.w.BinWriter, l, n) }
func (a *asm) ins(op opcode.Opcode, p ...byte) {
	emit.Instruction(a.w.BinWriter, op, p)
}
func (a *asm) done() []byte {
	if a.w.Err != nil {
		panic(a.w.Err)
	}
	b := a.w.Bytes()
	for _, f := range a.fix {
		t, ok := a.labels[f.label]
		if !ok {
			panic("undefined label " + f.label)
		}
		binary.LittleEndian.PutUint32(b[f.at+f.opnd:], uint32(int32(t-f.at)))
	}
	return b
}

// blob builds the interpreter.  Arguments (top first): R, prog.  Locals: 0 i, 1 op.
// tokAr[i] is the number of parameters of method token i (2 or 3).
func blob(mgmt util.Uint160, tokAr []int) []byte {
	a := newAsm()
	a.initslot(2, 2)
	a.op(opcode.LDARG0) // R stays at the bottom of this frame's evaluation stack
	// R += [-1, GetCallFlags()]
	a.syscall(interopnames.SystemContractGetCallFlags)
	a.op(opcode.PUSHM1, opcode.PUSH2, opcode.PACK, opcode.LDARG0, opcode.SWAP, opcode.APPEND)
	a.op(opcode.PUSH0, opcode.STLOC0)
	fld := func(i opcode.Opcode) { a.op(opcode.LDLOC1, i, opcode.PICKITEM) } // op[i]
	store := func() {                                                         // value -> R += [id, value]
		fld(opcode.PUSH1)
		a.op(opcode.PUSH2, opcode.PACK, opcode.LDARG0, opcode.SWAP, opcode.APPEND)
	}
	done := func() {
		a.op(opcode.PUSH1)
		store()
		a.jmp(opcode.JMPL, "next")
	}
	native := func(method string, flagsFld opcode.Opcode) { // args array on the stack
		fld(flagsFld)
		a.str(method)
		a.bytes(mgmt.BytesBE())
		a.syscall(interopnames.SystemContractCall)
	}
	// args (prog, R(, null)) as an array for System.Contract.Call
	ncall := 0
	call := func() {
		ncall++
		two, end := fmt.Sprintf("c_two%d", ncall), fmt.Sprintf("c_end%d", ncall)
		fld(opcode.PUSH6) // nargs
		a.op(opcode.PUSH3, opcode.NUMEQUAL)
		a.jmp(opcode.JMPIFNOTL, two)
		a.op(opcode.PUSHNULL)
		fld(opcode.PUSH5)
		a.op(opcode.LDARG0, opcode.PUSH3, opcode.PACK)
		a.jmp(opcode.JMPL, end)
		a.label(two)
		fld(opcode.PUSH5)
		a.op(opcode.LDARG0, opcode.PUSH2, opcode.PACK)
		a.label(end)
		fld(opcode.PUSH4) // flags
		fld(opcode.PUSH3) // method
		fld(opcode.PUSH2) // hash
		a.syscall(interopnames.SystemContractCall)
		a.op(opcode.DROP) // Null pushed for a void dynamic call
	}
	a.label("loop")
	a.op(opcode.LDLOC0, opcode.LDARG1, opcode.SIZE, opcode.LT)
	a.jmp(opcode.JMPIFNOTL, "end")
	a.op(opcode.LDARG1, opcode.LDLOC0, opcode.PICKITEM, opcode.STLOC1)
	fld(opcode.PUSH0) // kind
	kinds := []string{"", "k_call", "k_calltry", "k_callt", "k_put", "k_notify", "k_update", "k_destroy", "k_deploy", "k_abort", "k_mark"}
	for k, l := range kinds {
		if l == "" {
			continue
		}
		a.op(opcode.DUP)
		a.int(int64(k))
		a.op(opcode.NUMEQUAL)
		a.jmp(opcode.JMPIFL, l)
	}
	a.op(opcode.ABORT)

	a.label("k_call")
	a.op(opcode.DROP)
	call()
	done()

	a.label("k_calltry")
	a.op(opcode.DROP)
	a.try("t_catch")
	call()
	a.jmp(opcode.ENDTRYL, "t_ok")
	a.label("t_catch")
	a.op(opcode.DROP) // the exception
	a.op(opcode.PUSH2)
	store()
	a.jmp(opcode.ENDTRYL, "next")
	a.label("t_ok")
	done()

	a.label("k_callt")
	a.op(opcode.DROP)
	fld(opcode.PUSH2) // token index
	for i, n := range tokAr {
		a.op(opcode.DUP)
		a.int(int64(i))
		a.op(opcode.NUMEQUAL)
		a.jmp(opcode.JMPIFL, fmt.Sprintf("tok%d", i))
		_ = n
	}
	a.op(opcode.ABORT)
	for i, n := range tokAr {
		a.label(fmt.Sprintf("tok%d", i))
		a.op(opcode.DROP)
		if n == 3 {
			a.op(opcode.PUSHNULL)
		}
		fld(opcode.PUSH3) // prog
		a.op(opcode.LDARG0)
		a.ins(opcode.CALLT, byte(i), 0)
		a.jmp(opcode.JMPL, "tok_done")
	}
	a.label("tok_done")
	done()

	a.label("k_put")
	a.op(opcode.DROP)
	a.bytes([]byte("v"))
	fld(opcode.PUSH2)
	a.syscall(interopnames.SystemStorageGetContext)
	a.syscall(interopnames.SystemStoragePut)
	done()

	a.label("k_notify")
	a.op(opcode.DROP)
	a.op(opcode.NEWARRAY0)
	a.str("ev")
	a.syscall(interopnames.SystemRuntimeNotify)
	done()

	// data argument of update / deploy: [R, cbprog]
	data := func(i opcode.Opcode) {
		fld(i)
		a.op(opcode.LDARG0, opcode.PUSH2, opcode.PACK)
	}
	a.label("k_update")
	a.op(opcode.DROP)
	data(opcode.PUSH4)
	fld(opcode.PUSH3) // manifest
	fld(opcode.PUSH2) // nef or null
	a.op(opcode.PUSH3, opcode.PACK)
	native("update", opcode.PUSH5)
	a.op(opcode.DROP)
	done()

	a.label("k_destroy")
	a.op(opcode.DROP)
	a.op(opcode.NEWARRAY0)
	native("destroy", opcode.PUSH2)
	a.op(opcode.DROP)
	done()

	a.label("k_deploy")
	a.op(opcode.DROP)
	data(opcode.PUSH4)
	fld(opcode.PUSH3) // manifest
	fld(opcode.PUSH2) // nef
	a.op(opcode.PUSH3, opcode.PACK)
	native("deploy", opcode.PUSH5)
	a.op(opcode.DROP)
	done()

	a.label("k_abort")
	a.op(opcode.DROP)
	a.op(opcode.ABORT)

	a.label("k_mark")
	a.op(opcode.DROP)
	a.op(opcode.PUSH0)
	store()

	a.label("next")
	a.op(opcode.LDLOC0, opcode.INC, opcode.STLOC0)
	a.jmp(opcode.JMPL, "loop")
	a.label("end")
	a.op(opcode.DROP, opcode.RET)
	return a.done()
}

// contractScript = interpreter + the _deploy(data, isUpdate) stub + the q(R, prog, x) stub.
func contractScript(mgmt util.Uint160, tokAr []int) (script []byte, cbOff, q3Off int) {
	b := blob(mgmt, tokAr)
	jmp0 := func(from int) []byte {
		j := make([]byte, 5)
		j[0] = byte(opcode.JMPL)
		binary.LittleEndian.PutUint32(j[1:], uint32(int32(-from)))
		return j
	}
	cbOff = len(b)
	a := newAsm()
	// stack (top first): data, isUpdate
	a.op(opcode.SWAP, opcode.DROP, opcode.DUP, opcode.ISNULL)
	a.jmp(opcode.JMPIFNOTL, "go")
	a.op(opcode.DROP, opcode.RET)
	a.label("go")
	a.op(opcode.UNPACK, opcode.DROP) // R (top), prog
	st := a.done()
	script = append(append([]byte{}, b...), st...)
	script = append(script, jmp0(len(script))...)
	q3Off = len(script)
	// stack (top first): R, prog, x  ->  R, prog
	script = append(script, byte(opcode.REVERSE3), byte(opcode.DROP), byte(opcode.SWAP))
	script = append(script, jmp0(len(script))...)
	return
}
