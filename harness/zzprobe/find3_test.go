//go:build verif

package zzprobe

import (
	"testing"

	"github.com/nspcc-dev/neo-go/pkg/core/mpt"
	"github.com/nspcc-dev/neo-go/pkg/core/storage"
)

func TestFindRootExtension(t *testing.T) {
	for _, del := range []bool{false, true} {
		st := storage.NewMemCachedStore(storage.NewMemoryStore())
		tr := mpt.NewTrie(nil, mpt.ModeAll, st)
		_ = tr.Put(hx("0f00aa"), []byte{1})
		_ = tr.Put(hx("0f00bb"), []byte{2})
		if del {
			err := tr.Delete(hx("0f"))
			t.Logf("delete of the missing key 0f: %v", err)
		}
		tr.Flush(0)
		res, err := tr.Find(nil, nil, 10)
		t.Logf("del=%v find(nil,nil): %v", del, err)
		for _, r := range res {
			t.Logf("   %x = %x", r.Key, r.Value)
		}
		v, err := tr.Get(hx("0f00aa"))
		t.Logf("get 0f00aa: %x %v", v, err)
	}
}
