//go:build verif

package zzprobe

import (
	"testing"

	"github.com/nspcc-dev/neo-go/pkg/core/mpt"
	"github.com/nspcc-dev/neo-go/pkg/core/storage"
)

func TestFindOddSplit(t *testing.T) {
	st := storage.NewMemCachedStore(storage.NewMemoryStore())
	tr := mpt.NewTrie(nil, mpt.ModeAll, st)
	k1 := hx("00f011ff12ffff")
	k2 := hx("00f011ff12ff000012")
	_ = tr.Put(k1, []byte{0x61})
	_ = tr.Put(k2, []byte{0x62})
	tr.Flush(0)
	for _, k := range [][]byte{k1, k2} {
		v, err := tr.Get(k)
		t.Logf("get %x: %x %v", k, v, err)
	}
	res, err := tr.Find(nil, nil, 10)
	t.Logf("find(nil,nil): %v", err)
	for _, r := range res {
		t.Logf("   %x = %x", r.Key, r.Value)
	}
	res, err = tr.Find(hx("00f011"), nil, 10)
	t.Logf("find(00f011,nil): %v", err)
	for _, r := range res {
		t.Logf("   %x = %x", r.Key, r.Value)
	}
	res, err = tr.Find(nil, hx("00f011"), 10)
	t.Logf("find(nil,00f011): %v", err)
	for _, r := range res {
		t.Logf("   %x = %x", r.Key, r.Value)
	}
}
