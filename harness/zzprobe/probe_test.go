//go:build verif

package zzprobe

import (
	"testing"

	"verifharness/internal/chainkit"
	"verifharness/internal/histgen"

	"github.com/nspcc-dev/neo-go/pkg/core/native/nativenames"
	"github.com/nspcc-dev/neo-go/pkg/core/storage"
	"github.com/nspcc-dev/neo-go/pkg/core/transaction"
	"github.com/nspcc-dev/neo-go/pkg/neotest"
)

func TestPoolAfterPolicyChange(t *testing.T) {
	for _, mode := range []string{"block", "feeperbyte", "execfee"} {
		net := chainkit.NewNet(4, 4)
		ref, _ := net.NewChain(storage.NewMemoryStore(), nil)
		chainkit.Start(ref)
		peer, _ := net.NewChain(storage.NewMemoryStore(), nil)
		chainkit.Start(peer)
		g := histgen.New(t, net, ref, 1, 4)
		add := func(txs ...*transaction.Transaction) error {
			b, err := net.NewBlock(ref, 1, txs...)
			if err != nil {
				t.Fatal(err)
			}
			if err := ref.AddBlock(b); err != nil {
				return err
			}
			raw, _ := chainkit.EncodeBlock(b)
			b2, _ := chainkit.DecodeBlock(raw, false)
			return peer.AddBlock(b2)
		}
		if err := add(g.Bootstrap()...); err != nil {
			t.Fatal(err)
		}
		a, b := g.Accts[0], g.Accts[1]
		gas := g.E.NativeHash(t, nativenames.Gas)
		pol := g.E.NativeHash(t, nativenames.Policy)
		tx := g.Tx([]neotest.Signer{a}, gas, "transfer", a.ScriptHash(), b.ScriptHash(), int64(1), nil)
		if err := ref.PoolTx(tx); err != nil {
			t.Fatal(err)
		}
		var ch *transaction.Transaction
		switch mode {
		case "block":
			ch = g.Tx([]neotest.Signer{g.E.Committee}, pol, "blockAccount", a.ScriptHash())
		case "feeperbyte":
			ch = g.Tx([]neotest.Signer{g.E.Committee}, pol, "setFeePerByte", int64(50000))
		case "execfee":
			ch = g.Tx([]neotest.Signer{g.E.Committee}, pol, "setExecFeeFactor", int64(100))
		}
		if err := add(ch); err != nil {
			t.Fatal(err)
		}
		pooled := ref.GetMemPool().ContainsKey(tx.Hash())
		t.Logf("%s: tx still pooled on the proposer after the policy change: %v; VerifyTx on a peer: %v", mode, pooled, peer.VerifyTx(tx))
		if pooled {
			var txs []*transaction.Transaction
			for _, it := range ref.GetMemPool().GetVerifiedTransactions() {
				txs = append(txs, it)
			}
			txs = ref.ApplyPolicyToTxSet(txs)
			err := add(txs...)
			t.Logf("%s: block made of the proposer's pool (%d txs): %v", mode, len(txs), err)
		}
	}
}
