//go:build verif

package c14compile

import (
	"strings"

	"github.com/nspcc-dev/neo-go/pkg/smartcontract/scparser"
	"github.com/nspcc-dev/neo-go/pkg/vm/opcode"
)

// Facts for the second clause of C14 ("the emitted manifest and debug information name the same methods, offsets and
// parameter counts that the bytecode implements"): one record per compiled program, judged by spec/gosem/AbiMatches.tla.
// Three INDEPENDENT descriptions are recorded side by side: the manifest, the debug information, a summary of the decoded
// instruction stream; plus (for generated programs) what the SOURCE declares (go/types) and what CALLING through the
// manifest entries did.

func smType(td *TD) string {
	if td == nil {
		return "Any"
	}
	switch td.K {
	case "int":
		return "Integer"
	case "bool":
		return "Boolean"
	case "string":
		return "String"
	case "bytes":
		return "ByteArray"
	case "slice", "struct", "ptr":
		return "Array"
	case "map":
		return "Map"
	}
	return "Any"
}

func lowerFirst(s string) string {
	if s == "" {
		return s
	}
	return strings.ToLower(s[:1]) + s[1:]
}

// abiFacts returns nil when the script cannot be decoded (reported by the caller).
func abiFacts(id, kind string, c *Compiled, chk *Checked, calls []map[string]any) (map[string]any, error) {
	script := c.NEF.Script
	ctx := scparser.NewContext(script, 0)
	bounds := []int{}
	initslots := [][]int{}
	initsslots := [][]int{}
	rets := []int{}
	maxsfld := -1
	for ctx.NextIP() < len(script) {
		off := ctx.NextIP()
		op, param, err := ctx.Next()
		if err != nil {
			return nil, err
		}
		bounds = append(bounds, off)
		switch {
		case op == opcode.INITSLOT:
			initslots = append(initslots, []int{off, int(param[0]), int(param[1])})
		case op == opcode.INITSSLOT:
			initsslots = append(initsslots, []int{off, int(param[0])})
		case op == opcode.RET:
			rets = append(rets, off)
		case op >= opcode.LDSFLD0 && op <= opcode.LDSFLD6:
			maxsfld = max(maxsfld, int(op-opcode.LDSFLD0))
		case op >= opcode.STSFLD0 && op <= opcode.STSFLD6:
			maxsfld = max(maxsfld, int(op-opcode.STSFLD0))
		case op == opcode.LDSFLD || op == opcode.STSFLD:
			maxsfld = max(maxsfld, int(param[0]))
		}
	}
	man := []map[string]any{}
	if c.Man != nil {
		for _, m := range c.Man.ABI.Methods {
			pt := []string{}
			for _, p := range m.Parameters {
				pt = append(pt, p.Type.String())
			}
			man = append(man, map[string]any{"name": m.Name, "offset": m.Offset, "np": len(m.Parameters), "ptypes": pt,
				"rtype": m.ReturnType.String(), "safe": m.Safe})
		}
	}
	dbg := []map[string]any{}
	for _, d := range c.DI.Methods {
		seqp := []int{}
		for _, s := range d.SeqPoints {
			seqp = append(seqp, s.Opcode)
		}
		dbg = append(dbg, map[string]any{"id": d.ID, "name": d.Name.Name, "start": int(d.Range.Start), "end": int(d.Range.End),
			"np": len(d.Parameters), "exported": d.IsExported, "seq": seqp, "nvars": len(d.Variables), "isfunc": d.IsFunction})
	}
	src := map[string]any{"known": false, "exported": []any{}, "hasdeploy": false}
	if chk != nil {
		ex := []map[string]any{}
		for _, s := range chk.Sigs {
			if !s.Exported {
				continue
			}
			pt := []string{}
			for _, p := range s.Params {
				pt = append(pt, smType(p))
			}
			rt := "Void"
			if len(s.Results) == 1 {
				rt = smType(s.Results[0])
			} else if len(s.Results) > 1 {
				rt = "Any"
			}
			ex = append(ex, map[string]any{"name": lowerFirst(s.Name), "np": len(s.Params), "ptypes": pt, "rtype": rt})
		}
		src = map[string]any{"known": true, "exported": ex, "hasdeploy": chk.HasDepl}
	}
	if calls == nil {
		calls = []map[string]any{}
	}
	return map[string]any{"event": "abi", "prog": id, "kind": kind, "codelen": len(script), "bounds": bounds, "initslots": initslots,
		"initsslots": initsslots, "rets": rets, "maxsfld": maxsfld, "manifest": man, "debug": dbg, "src": src, "calls": calls,
		"manerr": c.ManErr != nil}, nil
}
