//go:build verif

package c14compile

import (
	"encoding/json"
	"fmt"
	"sort"
)

// Delta debugging on the abstract syntax tree: a failing (program, function, arguments) is shrunk while the two sides keep
// disagreeing in the same way (result-differs / fails-differently). Every round generates all one-step reductions of the
// current tree, runs them as ONE batch through both compilers and keeps the smallest that still fails.

func clone(v any) any {
	b, _ := json.Marshal(v)
	var out any
	json.Unmarshal(b, &out)
	return out
}

func size(v any) int {
	switch x := v.(type) {
	case map[string]any:
		n := 1
		for _, c := range x {
			n += size(c)
		}
		return n
	case []any:
		n := 0
		for _, c := range x {
			n += size(c)
		}
		return n
	}
	return 0
}

// stmtLists calls f for every statement list of the tree (with a setter)
func stmtLists(v any, f func(get func() []any, set func([]any))) {
	switch x := v.(type) {
	case map[string]any:
		for _, key := range []string{"body", "th", "el"} {
			if l, ok := x[key].([]any); ok {
				k := key
				m := x
				_ = l
				f(func() []any { return seq(m[k]) }, func(n []any) { m[k] = n })
			}
		}
		for _, key := range sortedAnyKeys(x) {
			stmtLists(x[key], f)
		}
	case []any:
		for _, c := range x {
			stmtLists(c, f)
		}
	}
}

func sortedAnyKeys(m map[string]any) []string {
	ks := make([]string, 0, len(m))
	for k := range m {
		ks = append(ks, k)
	}
	sort.Strings(ks)
	return ks
}

func zeroLit(t string) any {
	switch t {
	case "int":
		return map[string]any{"k": "lit", "t": "int", "v": float64(1)}
	case "bool":
		return map[string]any{"k": "lit", "t": "bool", "v": true}
	case "str":
		return map[string]any{"k": "lit", "t": "str", "v": []any{}}
	}
	return nil
}

// exprSlots calls f for every expression position holding an operator node, with a setter
func exprSlots(v any, f func(e map[string]any, set func(any))) {
	switch x := v.(type) {
	case map[string]any:
		for _, key := range sortedAnyKeys(x) {
			c := x[key]
			if key == "l" || key == "ls" {
				continue // lvalues stay what they are
			}
			if e, ok := c.(map[string]any); ok {
				k := str(e["k"])
				if k == "bin" || k == "un" || k == "call" || k == "ix" || k == "len" || k == "fld" || k == "sub" {
					kk := key
					m := x
					f(e, func(n any) { m[kk] = n })
				}
			}
			exprSlots(c, f)
		}
	case []any:
		for i, c := range x {
			if e, ok := c.(map[string]any); ok {
				k := str(e["k"])
				if k == "bin" || k == "un" || k == "call" || k == "ix" || k == "len" {
					ii := i
					l := x
					f(e, func(n any) { l[ii] = n })
				}
			}
			exprSlots(c, f)
		}
	}
}

func calledFuncs(v any, out map[string]bool) {
	switch x := v.(type) {
	case map[string]any:
		switch str(x["k"]) {
		case "call", "calls", "mret", "deferc":
			out[str(x["f"])] = true
		}
		for _, c := range x {
			calledFuncs(c, out)
		}
	case []any:
		for _, c := range x {
			calledFuncs(c, out)
		}
	}
}

// pruneFuncs drops the functions the entry cannot reach.
func pruneFuncs(prog N, entry string) N {
	p := clone(prog).(map[string]any)
	fs := map[string]N{}
	for _, f := range seq(p["funcs"]) {
		fs[str(node(f)["n"])] = node(f)
	}
	reach := map[string]bool{entry: true}
	for changed := true; changed; {
		changed = false
		for n := range reach {
			c := map[string]bool{}
			if fs[n] != nil {
				calledFuncs(fs[n]["body"], c)
			}
			for m := range c {
				if !reach[m] {
					reach[m] = true
					changed = true
				}
			}
		}
	}
	var keep []any
	for _, f := range seq(p["funcs"]) {
		if reach[str(node(f)["n"])] {
			keep = append(keep, f)
		}
	}
	p["funcs"] = keep
	return p
}

func candidates(prog N) []N {
	var out []N
	// count the statement lists / expression slots, then produce one clone per single edit
	type edit func(p N) bool
	var edits []edit
	nLists := 0
	stmtLists(prog, func(get func() []any, set func([]any)) { nLists++ })
	for li := 0; li < nLists; li++ {
		var length int
		idx := 0
		stmtLists(prog, func(get func() []any, set func([]any)) {
			if idx == li {
				length = len(get())
			}
			idx++
		})
		for si := 0; si < length; si++ {
			l, s := li, si
			// remove statement s of list l
			edits = append(edits, func(p N) bool {
				i, done := 0, false
				stmtLists(p, func(get func() []any, set func([]any)) {
					if i == l && !done {
						cur := get()
						if s < len(cur) {
							n := append(append([]any{}, cur[:s]...), cur[s+1:]...)
							set(n)
							done = true
						}
					}
					i++
				})
				return done
			})
			// replace a compound statement by its body
			edits = append(edits, func(p N) bool {
				i, done := 0, false
				stmtLists(p, func(get func() []any, set func([]any)) {
					if i == l && !done {
						cur := get()
						if s < len(cur) {
							st := node(cur[s])
							var inner []any
							switch str(st["k"]) {
							case "if":
								inner = append(append([]any{}, seq(st["th"])...), seq(st["el"])...)
							case "for", "range", "blk", "defer":
								inner = seq(st["body"])
							case "sw":
								for _, c := range seq(st["cls"]) {
									inner = append(inner, seq(node(c)["body"])...)
								}
							default:
								return
							}
							n := append(append(append([]any{}, cur[:s]...), inner...), cur[s+1:]...)
							set(n)
							done = true
						}
					}
					i++
				})
				return done
			})
		}
	}
	nSlots := 0
	exprSlots(prog, func(e map[string]any, set func(any)) { nSlots++ })
	for ei := 0; ei < nSlots; ei++ {
		for variant := 0; variant < 3; variant++ {
			e0, vv := ei, variant
			edits = append(edits, func(p N) bool {
				i, done := 0, false
				exprSlots(p, func(e map[string]any, set func(any)) {
					if i == e0 && !done {
						switch vv {
						case 0: // left / only operand (same type for arithmetic and logic)
							if str(e["k"]) == "bin" && e["l"] != nil && (str(e["t"]) != "int" || !isCmp(str(e["op"]))) {
								set(e["l"])
								done = true
							} else if str(e["k"]) == "un" {
								set(e["e"])
								done = true
							}
						case 1:
							if str(e["k"]) == "bin" && e["r"] != nil && (str(e["t"]) != "int" || !isCmp(str(e["op"]))) {
								set(e["r"])
								done = true
							}
						case 2: // a literal of the node's result type
							t := ""
							switch str(e["k"]) {
							case "bin":
								t = str(e["t"])
								if isCmp(str(e["op"])) {
									t = "bool"
								}
							case "un":
								t = "int"
								if str(e["op"]) == "!" {
									t = "bool"
								}
							case "ix", "len", "fld":
								t = "int"
							}
							if z := zeroLit(t); z != nil {
								set(z)
								done = true
							}
						}
					}
					i++
				})
				return done
			})
		}
	}
	for _, ed := range edits {
		c := clone(prog).(map[string]any)
		if ed(c) {
			out = append(out, c)
		}
	}
	return out
}

func isCmp(op string) bool {
	switch op {
	case "==", "!=", "<", "<=", ">", ">=":
		return true
	}
	return false
}

// minimise returns the reduced program and its construct signature, or nil when nothing smaller still fails.
func minimise(prog N, fn string, args []any, kind string) (N, []string) {
	cur := pruneFuncs(prog, fn)
	stillFails := func(cands []N, round int) N {
		var units []*Unit
		var keep []N
		for i, c := range cands {
			id := fmt.Sprintf("r%d_%d", round, i)
			src, chk, err := safeRender(c, id)
			if err != nil {
				continue
			}
			u := &Unit{ID: id, Src: src, Chk: chk, Stateful: true}
			for _, s := range chk.Sigs {
				if s.Name == fn && s.OK && len(s.Params) == len(args) {
					u.Funcs = append(u.Funcs, UnitFunc{Sig: s, Args: [][]any{args}})
				}
			}
			if len(u.Funcs) == 1 {
				units = append(units, u)
				keep = append(keep, c)
			}
		}
		if len(units) == 0 {
			return nil
		}
		dr, err := differential(scratch("reduce"), units)
		if err != nil {
			return nil
		}
		var best N
		for _, co := range dr.Cases {
			if co.Differs() && co.Go != "crash" && co.Go != "timeout" && co.Go != "" && classify(co.Go, co.VM.Res) == kind {
				for i, u := range units {
					if u.ID == co.Key.Prog && (best == nil || size(keep[i]) < size(best)) {
						best = keep[i]
					}
				}
			}
		}
		return best
	}
	// the pruned program itself must still fail (it does unless unreachable code mattered)
	if stillFails([]N{cur}, 0) == nil {
		return nil, nil
	}
	for round := 1; round <= 6; round++ {
		cands := candidates(cur)
		if len(cands) > 48 {
			cands = cands[:48]
		}
		next := stillFails(cands, round)
		if next == nil || size(next) >= size(cur) {
			break
		}
		cur = next
	}
	var f N
	for _, x := range seq(cur["funcs"]) {
		if str(node(x)["n"]) == fn {
			f = node(x)
		}
	}
	// the signature names the constructs of the whole reduced program (callees included)
	return cur, kindList(map[string]any{"entry": f, "all": cur["funcs"]})
}

// safeRender: a reduction step may produce a tree the printer has no spelling for; such a candidate is dropped.
func safeRender(p N, id string) (src string, chk *Checked, err error) {
	defer func() {
		if r := recover(); r != nil {
			err = fmt.Errorf("unprintable: %v", r)
		}
	}()
	return renderChecked(p, id)
}
