//go:build verif

package c14compile

import (
	"fmt"
	"go/ast"
	"go/parser"
	"go/token"
	"go/types"
	"regexp"
	"sort"
	"strings"
)

// GenCase is one case printed by TLC (GoEnum / GoGen): a program as abstract syntax plus the specification's verdicts.
type GenCase struct {
	Alter bool  `json:"alter"` // binding self-test: the compiler under test gets the program with `s := 1` turned into `s := 2`
	ID   string `json:"id"`
	Fam  string `json:"fam"`
	Prog N      `json:"prog"`
	Runs []struct {
		F    string `json:"f"`
		Args []any  `json:"args"`
		Res  []any  `json:"res"`
	} `json:"runs"`
}

var reUnused = regexp.MustCompile(`^declared and not used: (\w+)$|^(\w+) declared and not used$`)

// unusedVars type checks src and returns the (line, name) of every "declared and not used" error, or the first other error.
func unusedVars(src string) ([][2]any, error) {
	fset := token.NewFileSet()
	f, err := parser.ParseFile(fset, "prog.go", src, parser.AllErrors)
	if err != nil {
		return nil, err
	}
	var unused [][2]any
	var other error
	conf := types.Config{Error: func(e error) {
		te, ok := e.(types.Error)
		if ok {
			if m := reUnused.FindStringSubmatch(te.Msg); m != nil {
				name := m[1]
				if name == "" {
					name = m[2]
				}
				unused = append(unused, [2]any{te.Fset.Position(te.Pos).Line, name})
				return
			}
		}
		if other == nil {
			other = e
		}
	}}
	conf.Check(f.Name.Name, fset, []*ast.File{f}, nil)
	return unused, other
}

// renderChecked prints the program and makes it acceptable to the Go type checker: a local that the generated
// program never reads gets a `_ = x` right after its declaration (Go rejects unused variables; the dialect too).
func renderChecked(prog N, pkg string) (string, *Checked, error) {
	src := renderProg(prog, pkg)
	for round := 0; round < 4; round++ {
		un, err := unusedVars(src)
		if err != nil {
			return src, nil, err
		}
		if len(un) == 0 {
			break
		}
		lines := strings.Split(src, "\n")
		sort.Slice(un, func(i, j int) bool { return un[i][0].(int) > un[j][0].(int) })
		for _, u := range un {
			ln := u[0].(int) // 1-based line of the declaration
			if ln < 1 || ln > len(lines) {
				continue
			}
			decl := lines[ln-1]
			indent := decl[:len(decl)-len(strings.TrimLeft(decl, "\t"))]
			if strings.HasSuffix(strings.TrimSpace(decl), "{") {
				indent += "\t"
			}
			ins := indent + "_ = " + u[1].(string)
			lines = append(lines[:ln], append([]string{ins}, lines[ln:]...)...)
		}
		src = strings.Join(lines, "\n")
	}
	chk, err := typeCheck(src)
	return src, chk, err
}

// encSpec renders a value of GoSem's result (JSON) in the canonical encoding, directed by the Go type.
func encSpec(td *TD, v any) (string, error) {
	if s, ok := v.(string); ok && s == "nil" {
		return "nil", nil
	}
	switch td.K {
	case "int":
		return fmt.Sprintf("%d", toInt(v)), nil
	case "bool":
		if v.(bool) {
			return "true", nil
		}
		return "false", nil
	case "string":
		return fmt.Sprintf("s%x", bytesOf(v)), nil
	case "bytes":
		return fmt.Sprintf("b%x", bytesOf(v)), nil
	case "slice":
		var p []string
		for _, e := range seq(v) {
			s, err := encSpec(td.Elem, e)
			if err != nil {
				return "", err
			}
			p = append(p, s)
		}
		return "[" + strings.Join(p, ",") + "]", nil
	case "map":
		kv := seq(v)
		if len(kv) != 2 {
			return "", fmt.Errorf("map result is not [keys, values]")
		}
		var p []string
		ks, vs := seq(kv[0]), seq(kv[1])
		for i := range ks {
			k, err := encSpec(td.Key, ks[i])
			if err != nil {
				return "", err
			}
			e, err := encSpec(td.Elem, vs[i])
			if err != nil {
				return "", err
			}
			p = append(p, k+":"+e)
		}
		sort.Strings(p)
		return "{" + strings.Join(p, ",") + "}", nil
	case "struct":
		var p []string
		for i, e := range seq(v) {
			s, err := encSpec(td.Fields[i], e)
			if err != nil {
				return "", err
			}
			p = append(p, s)
		}
		return "(" + strings.Join(p, ",") + ")", nil
	case "ptr":
		l := seq(v)
		if len(l) < 1 || str(l[0]) != "&" {
			return "", fmt.Errorf("pointer result is not [&, ...]")
		}
		s, err := encSpec(td.Elem, l[1:])
		return "&" + s, err
	}
	return "", fmt.Errorf("cannot encode %v as %s", v, td.K)
}

// specVerdict: GoSem's answer for one run as the canonical string ("panic", "oos", "void" or the encoded value).
func specVerdict(sig *Sig, res []any) (string, error) {
	if len(res) == 0 {
		return "", fmt.Errorf("empty result")
	}
	switch str(res[0]) {
	case "panic":
		return "panic", nil
	case "oos":
		return "oos", nil
	case "ok":
		if len(sig.Results) == 0 {
			return "void", nil
		}
		return encSpec(sig.Results[0], res[1])
	}
	return "", fmt.Errorf("unknown verdict %v", res[0])
}
