//go:build verif

package c14compile

import (
	"fmt"
	"os"
	"path/filepath"
	"runtime"
	"sync"
)

// CaseOut is what both sides said about one (program, function, argument vector).
type CaseOut struct {
	Key  CaseKey
	Go   string // toolchain: canonical result | panic | crash | timeout
	VM   VMOut
	Args []any
}

// DiffRun is the outcome of running a set of units through both sides.
type DiffRun struct {
	Cases      []CaseOut
	Refused    map[string]error // neo-go compiler refusals by unit
	GoRefused  map[string]string
	Compiled   map[string]*Compiled
	TypeErrors map[string]error
}

func makeUnit(id, src string, only map[string][][]any) (*Unit, error) {
	chk, err := typeCheck(src)
	if err != nil {
		return nil, err
	}
	u := &Unit{ID: id, Src: src, Chk: chk, Stateful: chk.NGlobals > 0 || chk.HasInit}
	for _, s := range chk.Sigs {
		if !s.OK || len(s.Results) > 1 {
			continue
		}
		if only != nil {
			rows, ok := only[s.Name]
			if !ok {
				continue
			}
			u.Funcs = append(u.Funcs, UnitFunc{Sig: s, Args: rows})
			continue
		}
		if !s.Exported {
			continue
		}
		u.Funcs = append(u.Funcs, UnitFunc{Sig: s, Args: boundaryArgs(s.Params)})
	}
	return u, nil
}

// differential compiles every unit with both compilers and runs every case on both sides.
func differential(dir string, units []*Unit) (*DiffRun, error) {
	r := &DiffRun{Refused: map[string]error{}, Compiled: map[string]*Compiled{}, TypeErrors: map[string]error{}}
	workers := runtime.NumCPU()
	if workers > 12 {
		workers = 12
	}
	// --- neo-go side: compile
	var mu sync.Mutex
	var wg sync.WaitGroup
	ch := make(chan *Unit, len(units))
	for _, u := range units {
		ch <- u
	}
	close(ch)
	for w := 0; w < workers; w++ {
		wg.Add(1)
		go func() {
			defer wg.Done()
			for u := range ch {
				c := compileNeo(u)
				mu.Lock()
				if c.Err != nil {
					r.Refused[u.ID] = c.Err
				} else {
					r.Compiled[u.ID] = c
				}
				mu.Unlock()
			}
		}()
	}
	wg.Wait()
	// --- toolchain side: only what neo-go accepted needs a reference
	var acc []*Unit
	for _, u := range units {
		if _, ok := r.Compiled[u.ID]; ok && len(u.Funcs) > 0 {
			acc = append(acc, u)
		}
	}
	if len(acc) == 0 {
		return r, nil
	}
	os.RemoveAll(dir)
	bin, gref, err := buildGo(dir, acc)
	r.GoRefused = gref
	if err != nil {
		return r, err
	}
	var chunks [][]CaseKey
	var cur []CaseKey
	type ref struct {
		u  *Unit
		f  *UnitFunc
		ai int
	}
	var order []ref
	for _, u := range acc {
		if _, bad := gref[u.ID]; bad {
			continue
		}
		for fi := range u.Funcs {
			f := &u.Funcs[fi]
			for ai := range f.Args {
				k := CaseKey{u.ID, f.Sig.Name, ai}
				order = append(order, ref{u, f, ai})
				if u.Stateful {
					chunks = append(chunks, []CaseKey{k})
				} else {
					cur = append(cur, k)
					if len(cur) >= 150 {
						chunks = append(chunks, cur)
						cur = nil
					}
				}
			}
		}
	}
	if len(cur) > 0 {
		chunks = append(chunks, cur)
	}
	gores := runGo(bin, chunks, workers)
	// --- VM side
	r.Cases = make([]CaseOut, len(order))
	idx := make(chan int, len(order))
	for i := range order {
		idx <- i
	}
	close(idx)
	for w := 0; w < workers; w++ {
		wg.Add(1)
		go func() {
			defer wg.Done()
			for i := range idx {
				o := order[i]
				k := CaseKey{o.u.ID, o.f.Sig.Name, o.ai}
				r.Cases[i] = CaseOut{Key: k, Go: gores[k.String()], VM: runVM(r.Compiled[o.u.ID], &o.f.Sig, o.f.Args[o.ai]), Args: o.f.Args[o.ai]}
			}
		}()
	}
	wg.Wait()
	return r, nil
}

func scratch(name string) string {
	d := os.Getenv("VERIF_WORK")
	if d == "" {
		d = "/verif/.work/c14-manual"
	}
	return filepath.Join(d, name)
}

func (c CaseOut) Differs() bool { return c.Go != c.VM.Res }

func (c CaseOut) String() string {
	return fmt.Sprintf("%s args=%v go=%s vm=%s %s", c.Key, c.Args, c.Go, c.VM.Res, c.VM.Fault)
}
