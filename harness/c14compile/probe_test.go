//go:build verif

package c14compile

import (
	"fmt"
	"strings"
	"testing"
	"time"

	"github.com/nspcc-dev/neo-go/pkg/compiler"
	"github.com/nspcc-dev/neo-go/pkg/smartcontract/callflag"
	"github.com/nspcc-dev/neo-go/pkg/vm"
)

func TestProbe(t *testing.T) {
	src := `package foo
type S struct { A int; B int }
var g = 5
func F(a int, b int) int {
	s := S{a, b}
	u := s
	u.A = 7
	g += 1
	x, _ := g2(a); return s.A*10 + u.A + g + a / b + x
}
func g2(a int) (int, bool) {
	m := map[int]int{1: 2}
	v, ok := m[a]
	return v, ok
}
`
	for i := 0; i < 3; i++ {
		t0 := time.Now()
		nf, di, err := compiler.CompileWithOptions("foo.go", strings.NewReader(src), nil)
		fmt.Println("compile", time.Since(t0), err)
		if err != nil {
			t.Fatal(err)
		}
		for _, m := range di.Methods {
			fmt.Printf("%+v\n", m)
		}
		v := vm.New()
		v.SetGasLimit(-1)
		v.LoadScriptWithFlags(nf.Script, callflag.All)
		var off, ini = -1, -1
		for _, m := range di.Methods {
			if m.Name.Name == "F" || m.ID == "F" {
				off = int(m.Range.Start)
			}
			if m.ID == "_initialize" {
				ini = int(m.Range.Start)
			}
		}
		v.Context().Jump(off)
		v.Estack().PushVal(0)
		v.Estack().PushVal(3)
		if ini >= 0 {
			v.Call(ini)
		}
		err = v.Run()
		fmt.Println("run", err, v.Estack().Len())
		if err == nil {
			fmt.Println(v.Estack().Pop().Item())
		}
	}
}
