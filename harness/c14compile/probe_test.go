//go:build verif

package c14compile

import (
	"fmt"
	"os"
	"path/filepath"
	"sort"
	"strings"
	"testing"
)

// TestProbe: manual exploration tool. C14_PROBE_DIR holds *.go files (one program each); every exported function with
// transportable types is run on boundary arguments on both sides and the differences are printed.
func TestProbe(t *testing.T) {
	dir := os.Getenv("C14_PROBE_DIR")
	if dir == "" {
		t.Skip("no C14_PROBE_DIR")
	}
	files, _ := filepath.Glob(filepath.Join(dir, "*.go"))
	sort.Strings(files)
	var units []*Unit
	for _, f := range files {
		b, _ := os.ReadFile(f)
		id := strings.TrimSuffix(filepath.Base(f), ".go")
		u, err := makeUnit(id, string(b), nil)
		if err != nil {
			fmt.Printf("TYPE-ERROR %s: %v\n", id, err)
			continue
		}
		units = append(units, u)
	}
	r, err := differential(scratch("probe-go"), units)
	if err != nil {
		t.Fatal(err)
	}
	for id, e := range r.Refused {
		fmt.Printf("REFUSED %s: %v\n", id, e)
	}
	for id, e := range r.GoRefused {
		fmt.Printf("GO-REFUSED %s: %v\n", id, e)
	}
	same, diff := 0, 0
	byFn := map[string][]string{}
	for _, c := range r.Cases {
		k := c.Key.Prog + ":" + c.Key.Fn
		if c.Differs() {
			diff++
			byFn[k] = append(byFn[k], c.String())
		} else {
			same++
			if os.Getenv("C14_PROBE_V") != "" {
				fmt.Println("  same", c.String())
			}
		}
	}
	ks := make([]string, 0, len(byFn))
	for k := range byFn {
		ks = append(ks, k)
	}
	sort.Strings(ks)
	for _, k := range ks {
		fmt.Printf("DIFF %s (%d cases)\n", k, len(byFn[k]))
		for i, s := range byFn[k] {
			if i < 3 {
				fmt.Println("   ", s)
			}
		}
	}
	fmt.Printf("cases same=%d differ=%d\n", same, diff)
}
