//go:build verif

package c14compile

import (
	"fmt"
	"go/ast"
	"go/importer"
	"go/parser"
	"go/token"
	"go/types"
	"sort"
	"strings"
)

// TD is a type descriptor of the value universe the differential can transport: what an argument is built from
// and what a result is decoded into on both sides (Go toolchain: reflection; VM: stack items).
type TD struct {
	K      string // int bool string bytes slice map struct ptr
	Elem   *TD    // slice, ptr
	Key    *TD    // map
	Fields []*TD  // struct
	Go     string // Go spelling of the type (inside the program's package)
}

// Sig is the signature of one function of a program as go/types sees it.
type Sig struct {
	Name     string
	Exported bool
	Params   []*TD
	PNames   []string
	Results  []*TD
	Named    bool // named results
	OK       bool // every parameter / result type is transportable
}

// Checked is a program that the standard type checker accepted.
type Checked struct {
	Pkg      string
	Sigs     []Sig
	Globals  []string
	HasInit  bool
	HasDepl  bool
	NGlobals int
}

func tdOf(t types.Type, depth int) *TD {
	if depth > 4 {
		return nil
	}
	gs := types.TypeString(t, func(*types.Package) string { return "" })
	switch u := t.Underlying().(type) {
	case *types.Basic:
		switch {
		case u.Info()&types.IsInteger != 0:
			return &TD{K: "int", Go: gs}
		case u.Info()&types.IsBoolean != 0:
			return &TD{K: "bool", Go: gs}
		case u.Info()&types.IsString != 0:
			return &TD{K: "string", Go: gs}
		}
	case *types.Slice:
		if b, ok := u.Elem().Underlying().(*types.Basic); ok && b.Kind() == types.Byte {
			return &TD{K: "bytes", Go: gs}
		}
		e := tdOf(u.Elem(), depth+1)
		if e == nil {
			return nil
		}
		return &TD{K: "slice", Elem: e, Go: gs}
	case *types.Map:
		k, e := tdOf(u.Key(), depth+1), tdOf(u.Elem(), depth+1)
		if k == nil || e == nil {
			return nil
		}
		return &TD{K: "map", Key: k, Elem: e, Go: gs}
	case *types.Struct:
		d := &TD{K: "struct", Go: gs}
		for i := 0; i < u.NumFields(); i++ {
			f := tdOf(u.Field(i).Type(), depth+1)
			if f == nil {
				return nil
			}
			d.Fields = append(d.Fields, f)
		}
		return d
	case *types.Pointer:
		e := tdOf(u.Elem(), depth+1)
		if e == nil || e.K != "struct" {
			return nil
		}
		return &TD{K: "ptr", Elem: e, Go: gs}
	}
	return nil
}

// typeCheck runs the standard type checker (go/types) on a single-file program. Programs of the generated space
// import nothing; corpus programs are not type checked here.
func typeCheck(src string) (*Checked, error) {
	fset := token.NewFileSet()
	f, err := parser.ParseFile(fset, "prog.go", src, parser.AllErrors)
	if err != nil {
		return nil, err
	}
	conf := types.Config{Importer: importer.Default()}
	info := &types.Info{Defs: map[*ast.Ident]types.Object{}}
	pkg, err := conf.Check(f.Name.Name, fset, []*ast.File{f}, info)
	if err != nil {
		return nil, err
	}
	c := &Checked{Pkg: f.Name.Name}
	for _, d := range f.Decls {
		switch d := d.(type) {
		case *ast.FuncDecl:
			if d.Recv != nil {
				continue
			}
			if d.Name.Name == "init" {
				c.HasInit = true
				continue
			}
			if d.Name.Name == "_deploy" {
				c.HasDepl = true
				continue
			}
			obj := pkg.Scope().Lookup(d.Name.Name)
			fn, ok := obj.(*types.Func)
			if !ok {
				continue
			}
			sg := fn.Type().(*types.Signature)
			s := Sig{Name: d.Name.Name, Exported: d.Name.IsExported(), OK: !sg.Variadic()}
			for i := 0; i < sg.Params().Len(); i++ {
				td := tdOf(sg.Params().At(i).Type(), 0)
				if td == nil || td.K == "map" || td.K == "ptr" {
					s.OK = false
				}
				s.Params = append(s.Params, td)
				s.PNames = append(s.PNames, sg.Params().At(i).Name())
			}
			for i := 0; i < sg.Results().Len(); i++ {
				td := tdOf(sg.Results().At(i).Type(), 0)
				if td == nil {
					s.OK = false
				}
				s.Results = append(s.Results, td)
				if sg.Results().At(i).Name() != "" {
					s.Named = true
				}
			}
			c.Sigs = append(c.Sigs, s)
		case *ast.GenDecl:
			if d.Tok == token.VAR {
				for _, sp := range d.Specs {
					for _, n := range sp.(*ast.ValueSpec).Names {
						if n.Name != "_" {
							c.Globals = append(c.Globals, n.Name)
						}
					}
				}
			}
		}
	}
	c.NGlobals = len(c.Globals)
	return c, nil
}

// ---- argument values (JSON: numbers, booleans, strings, arrays) rendered for both sides

func goLit(td *TD, v any) string {
	switch td.K {
	case "int":
		return fmt.Sprintf("%d", toInt(v))
	case "bool":
		if v.(bool) {
			return "true"
		}
		return "false"
	case "string":
		return fmt.Sprintf("%q", v.(string))
	case "bytes":
		if v == nil {
			return td.Go + "(nil)"
		}
		var p []string
		for _, b := range v.([]any) {
			p = append(p, fmt.Sprintf("%d", toInt(b)))
		}
		return td.Go + "{" + strings.Join(p, ", ") + "}"
	case "slice":
		if v == nil {
			return td.Go + "(nil)"
		}
		var p []string
		for _, e := range v.([]any) {
			p = append(p, goLit(td.Elem, e))
		}
		return td.Go + "{" + strings.Join(p, ", ") + "}"
	case "struct":
		var p []string
		for i, e := range v.([]any) {
			p = append(p, goLit(td.Fields[i], e))
		}
		return td.Go + "{" + strings.Join(p, ", ") + "}"
	}
	panic("goLit: untransportable argument type " + td.K)
}

func toInt(v any) int64 {
	switch x := v.(type) {
	case float64:
		return int64(x)
	case int:
		return int64(x)
	case int64:
		return x
	}
	panic(fmt.Sprintf("not an integer: %v", v))
}

// boundaryArgs supplies argument vectors for programs that come without (corpus, probes): the boundary values
// of every parameter type, combined diagonally plus a few mixed rows.
func boundaryArgs(ps []*TD) [][]any {
	if len(ps) == 0 {
		return [][]any{{}}
	}
	cols := make([][]any, len(ps))
	mx := 0
	for i, p := range ps {
		switch p.K {
		case "int":
			cols[i] = []any{0, 1, -1, 2, 3, 5, 7, -7, 10}
		case "bool":
			cols[i] = []any{false, true}
		case "string":
			cols[i] = []any{"", "a", "ab", "abc", "ba"}
		case "bytes":
			cols[i] = []any{[]any{}, []any{1}, []any{1, 2}, []any{0, 255, 128}}
		case "slice":
			cols[i] = []any{[]any{}, []any{1}, []any{1, 2}, []any{3, 2, 1}, []any{5, -1, 0, 7}}
			if p.Elem.K != "int" {
				cols[i] = []any{[]any{}}
			}
		default:
			cols[i] = []any{nil}
		}
		if len(cols[i]) > mx {
			mx = len(cols[i])
		}
	}
	var out [][]any
	seen := map[string]bool{}
	add := func(row []any) {
		k := fmt.Sprint(row)
		if !seen[k] {
			seen[k] = true
			out = append(out, row)
		}
	}
	for r := 0; r < mx; r++ {
		row := make([]any, len(ps))
		for i := range ps {
			row[i] = cols[i][r%len(cols[i])]
		}
		add(row)
	}
	for r := 0; r < mx; r++ { // shifted rows: unequal operands
		row := make([]any, len(ps))
		for i := range ps {
			row[i] = cols[i][(r+i*2+1)%len(cols[i])]
		}
		add(row)
	}
	return out
}

func sortedKeys(m map[string]string) []string {
	ks := make([]string, 0, len(m))
	for k := range m {
		ks = append(ks, k)
	}
	sort.Strings(ks)
	return ks
}
