//go:build verif

package c14compile

import (
	"errors"
	"fmt"
	"math/big"
	"sort"
	"strings"

	"github.com/nspcc-dev/neo-go/pkg/compiler"
	"github.com/nspcc-dev/neo-go/pkg/smartcontract/callflag"
	"github.com/nspcc-dev/neo-go/pkg/smartcontract/manifest"
	"github.com/nspcc-dev/neo-go/pkg/smartcontract/nef"
	"github.com/nspcc-dev/neo-go/pkg/vm"
	"github.com/nspcc-dev/neo-go/pkg/vm/opcode"
	"github.com/nspcc-dev/neo-go/pkg/vm/stackitem"
	"github.com/nspcc-dev/neo-go/pkg/vm/vmstate"
)

// The side under test: the neo-go compiler (pkg/compiler) and the real VM (pkg/vm).

type Compiled struct {
	NEF *nef.File
	DI  *compiler.DebugInfo
	Man *manifest.Manifest
	Err error // compiler refusal
	// ManErr is an error of manifest creation (the code itself compiled)
	ManErr error
}

func compileNeo(u *Unit) (c *Compiled) {
	c = &Compiled{}
	defer func() {
		if r := recover(); r != nil {
			c.Err = fmt.Errorf("compiler panic: %v", r)
		}
	}()
	src := u.Src
	if u.VMSrc != "" {
		src = u.VMSrc
	}
	nf, di, err := compiler.CompileWithOptions(u.ID+".go", strings.NewReader(src), nil)
	if err != nil {
		c.Err = err
		return
	}
	c.NEF, c.DI = nf, di
	c.Man, c.ManErr = compiler.CreateManifest(di, &compiler.Options{Name: u.ID, NoEventsCheck: true, NoStandardCheck: true, NoPermissionsCheck: true})
	return
}

// refusalClass maps a compiler error to a stable reason (counted per reason in the evidence).
func refusalClass(err error) string {
	s := err.Error()
	for _, k := range []string{"closures are not supported", "is not supported", "not supported", "unsupported", "exported method is not allowed",
		"compiler panic", "too many", "can't", "cannot", "invalid", "undefined", "declared and not used", "unused"} {
		if strings.Contains(s, k) {
			return k
		}
	}
	if len(s) > 60 {
		s = s[:60]
	}
	return s
}

func vmArg(td *TD, v any) stackitem.Item {
	switch td.K {
	case "int":
		return stackitem.NewBigInteger(big.NewInt(toInt(v)))
	case "bool":
		return stackitem.NewBool(v.(bool))
	case "string":
		return stackitem.NewByteArray([]byte(v.(string)))
	case "bytes":
		if v == nil {
			return stackitem.Null{}
		}
		var b []byte
		for _, e := range v.([]any) {
			b = append(b, byte(toInt(e)))
		}
		return stackitem.NewBuffer(b)
	case "slice":
		if v == nil {
			return stackitem.Null{}
		}
		items := []stackitem.Item{}
		for _, e := range v.([]any) {
			items = append(items, vmArg(td.Elem, e))
		}
		return stackitem.NewArray(items)
	case "struct":
		items := []stackitem.Item{}
		for i, e := range v.([]any) {
			items = append(items, vmArg(td.Fields[i], e))
		}
		return stackitem.NewStruct(items)
	}
	panic("vmArg: untransportable argument type " + td.K)
}

var errShape = errors.New("result item does not have the shape of the Go type")

// encItem renders a result stack item in the canonical encoding of rt.Enc, directed by the Go result type.
func encItem(td *TD, it stackitem.Item, depth int) (string, error) {
	if depth > 8 {
		return "", errShape
	}
	_, isNull := it.(stackitem.Null)
	switch td.K {
	case "int":
		if isNull {
			return "", errShape
		}
		switch it.Type() {
		case stackitem.IntegerT, stackitem.BooleanT, stackitem.ByteArrayT, stackitem.BufferT:
		default:
			return "", errShape
		}
		n, err := it.TryInteger()
		if err != nil {
			return "", errShape
		}
		return n.String(), nil
	case "bool":
		switch it.Type() {
		case stackitem.BooleanT:
			if it.Value().(bool) {
				return "true", nil
			}
			return "false", nil
		case stackitem.IntegerT:
			n, _ := it.TryInteger()
			if n.Sign() == 0 {
				return "false", nil
			}
			if n.Cmp(big.NewInt(1)) == 0 {
				return "true", nil
			}
		}
		return "", errShape
	case "string", "bytes":
		if isNull {
			if td.K == "bytes" {
				return "nil", nil
			}
			return "", errShape
		}
		switch it.Type() {
		case stackitem.ByteArrayT, stackitem.BufferT:
		default:
			return "", errShape
		}
		b, err := it.TryBytes()
		if err != nil {
			return "", errShape
		}
		if td.K == "string" {
			return fmt.Sprintf("s%x", b), nil
		}
		return fmt.Sprintf("b%x", b), nil
	case "slice":
		if isNull {
			return "nil", nil
		}
		arr, ok := it.Value().([]stackitem.Item)
		if !ok || it.Type() == stackitem.MapT {
			return "", errShape
		}
		p := make([]string, len(arr))
		for i := range arr {
			s, err := encItem(td.Elem, arr[i], depth+1)
			if err != nil {
				return "", err
			}
			p[i] = s
		}
		return "[" + strings.Join(p, ",") + "]", nil
	case "map":
		if isNull {
			return "nil", nil
		}
		m, ok := it.(*stackitem.Map)
		if !ok {
			return "", errShape
		}
		var p []string
		for _, e := range m.Value().([]stackitem.MapElement) {
			k, err := encItem(td.Key, e.Key, depth+1)
			if err != nil {
				return "", err
			}
			v, err := encItem(td.Elem, e.Value, depth+1)
			if err != nil {
				return "", err
			}
			p = append(p, k+":"+v)
		}
		sort.Strings(p)
		return "{" + strings.Join(p, ",") + "}", nil
	case "struct":
		arr, ok := it.Value().([]stackitem.Item)
		if !ok || isNull || len(arr) != len(td.Fields) {
			return "", errShape
		}
		p := make([]string, len(arr))
		for i := range arr {
			s, err := encItem(td.Fields[i], arr[i], depth+1)
			if err != nil {
				return "", err
			}
			p[i] = s
		}
		return "(" + strings.Join(p, ",") + ")", nil
	case "ptr":
		if isNull {
			return "nil", nil
		}
		s, err := encItem(td.Elem, it, depth+1)
		return "&" + s, err
	}
	return "", errShape
}

// VMOut is the observation of one invocation.
type VMOut struct {
	Res    string // canonical result | "panic" (FAULT) | "?..." (anomalies: stack depth, shape)
	Fault  string
	Depth  int
	Steps  int
	Anom   string
}

var stepLimit int64 = 400000

// offsetOf: exported functions are entered through the MANIFEST entry (name with lower-cased first letter and
// parameter count), everything else through the debug information's range start.
func (c *Compiled) offsetOf(sig *Sig) (int, string) {
	if sig.Exported && c.Man != nil {
		n := strings.ToLower(sig.Name[:1]) + sig.Name[1:]
		if m := c.Man.ABI.GetMethod(n, len(sig.Params)); m != nil {
			return m.Offset, "manifest"
		}
		return -1, "manifest"
	}
	for i := range c.DI.Methods {
		if c.DI.Methods[i].ID == sig.Name {
			return int(c.DI.Methods[i].Range.Start), "debug"
		}
	}
	return -1, "debug"
}

func (c *Compiled) initOffset() int {
	if c.Man != nil {
		if m := c.Man.ABI.GetMethod(manifest.MethodInit, 0); m != nil {
			return m.Offset
		}
		return -1
	}
	for i := range c.DI.Methods {
		if c.DI.Methods[i].ID == manifest.MethodInit {
			return int(c.DI.Methods[i].Range.Start)
		}
	}
	return -1
}

func runVM(c *Compiled, sig *Sig, args []any) (o VMOut) {
	defer func() {
		if r := recover(); r != nil {
			o = VMOut{Res: "?vm-go-panic", Anom: fmt.Sprint(r)}
		}
	}()
	off, _ := c.offsetOf(sig)
	if off < 0 {
		return VMOut{Res: "?no-entry", Anom: "method not found in manifest / debug info"}
	}
	v := vm.New()
	v.SetPriceGetter(func(opcode.Opcode, []byte) int64 { return vm.ExecFeeFactorMultiplier }) // one datoshi per instruction: the gas limit is a step limit
	v.SetGasLimit(stepLimit)
	v.LoadScriptWithFlags(c.NEF.Script, callflag.All)
	v.Context().Jump(off)
	for i := len(args) - 1; i >= 0; i-- {
		v.Estack().PushItem(vmArg(sig.Params[i], args[i]))
	}
	if ini := c.initOffset(); ini >= 0 {
		v.Call(ini)
	}
	err := v.Run()
	o.Steps = int(v.GasConsumed())
	if err != nil || v.State() != vmstate.Halt {
		o.Res = "panic"
		if err != nil {
			o.Fault = err.Error()
			if strings.Contains(o.Fault, "GAS limit") {
				o.Res = "?step-limit"
			}
		}
		return
	}
	o.Depth = v.Estack().Len()
	want := len(sig.Results)
	if o.Depth != want {
		o.Res = fmt.Sprintf("?stack-depth-%d", o.Depth)
		o.Anom = "result stack depth differs from the number of results"
		return
	}
	if want == 0 {
		o.Res = "void"
		return
	}
	// several results: the first result is on top
	var parts []string
	for i := 0; i < want; i++ {
		s, e := encItem(sig.Results[i], v.Estack().Pop().Item(), 0)
		if e != nil {
			o.Res = "?shape"
			o.Anom = e.Error()
			return
		}
		parts = append(parts, s)
	}
	o.Res = strings.Join(parts, ";")
	return
}

func compileDir(dir string) (*nef.File, *compiler.DebugInfo, error) {
	return compiler.CompileWithOptions(dir, nil, nil)
}

// manifestOf: corpus contracts declare events / permissions in their .yml; only the ABI methods matter here.
func manifestOf(di *compiler.DebugInfo, name string) (*manifest.Manifest, error) {
	return compiler.CreateManifest(di, &compiler.Options{Name: name, NoEventsCheck: true, NoStandardCheck: true, NoPermissionsCheck: true})
}
