//go:build verif

package c14compile

import (
	"fmt"
	"sort"
	"strconv"
	"strings"
)

// Pretty printer: abstract syntax (spec/gosem/GoSubset.tla, decoded from TLC's JSON) -> Go source text.
// One statement per line; block bodies on their own lines (the unused-variable repair of render.go relies on that).

type N = map[string]any

func goType(t string) string {
	switch t {
	case "int", "bool":
		return t
	case "str":
		return "string"
	case "bytes":
		return "[]byte"
	case "ints":
		return "[]int"
	case "mii":
		return "map[int]int"
	case "msi":
		return "map[string]int"
	case "S":
		return "S"
	case "pS":
		return "*S"
	}
	panic("unknown type " + t)
}

func str(v any) string {
	s, _ := v.(string)
	return s
}

func seq(v any) []any {
	s, _ := v.([]any)
	return s
}

func node(v any) N {
	n, _ := v.(map[string]any)
	return n
}

func isNone(v any) bool {
	n := node(v)
	return n == nil || str(n["k"]) == "none"
}

func bytesOf(v any) []byte {
	var b []byte
	for _, x := range seq(v) {
		b = append(b, byte(toInt(x)))
	}
	return b
}

var fieldName = map[int64]string{1: "A", 2: "B"}

type printer struct {
	b      strings.Builder
	ind    int
	usesS  bool
}

func (p *printer) line(s string) {
	p.b.WriteString(strings.Repeat("\t", p.ind))
	p.b.WriteString(s)
	p.b.WriteByte('\n')
}

func (p *printer) expr(v any) string {
	e := node(v)
	switch str(e["k"]) {
	case "lit":
		switch str(e["t"]) {
		case "int":
			return strconv.FormatInt(toInt(e["v"]), 10)
		case "bool":
			if e["v"].(bool) {
				return "true"
			}
			return "false"
		case "str":
			return strconv.Quote(string(bytesOf(e["v"])))
		}
	case "var":
		return str(e["n"])
	case "bin":
		return p.operand(e["l"]) + " " + str(e["op"]) + " " + p.operand(e["r"])
	case "un":
		return str(e["op"]) + p.operand(e["e"])
	case "ix":
		s := p.operand(e["b"]) + "[" + p.expr(e["i"]) + "]"
		if t := str(e["t"]); t == "str" || t == "bytes" {
			return "int(" + s + ")"
		}
		return s
	case "len":
		return "len(" + p.expr(e["e"]) + ")"
	case "call":
		return p.call(str(e["f"]), seq(e["as"]))
	case "fld":
		p.usesS = true
		return p.operand(e["e"]) + "." + fieldName[toInt(e["f"])]
	case "mk":
		t := str(e["t"])
		switch t {
		case "mii", "msi":
			var ps []string
			for _, kv := range seq(e["es"]) {
				ps = append(ps, p.expr(seq(kv)[0])+": "+p.expr(seq(kv)[1]))
			}
			return goType(t) + "{" + strings.Join(ps, ", ") + "}"
		case "S":
			p.usesS = true
			return "S{" + p.exprs(seq(e["es"])) + "}"
		case "pS":
			p.usesS = true
			return "&S{" + p.exprs(seq(e["es"])) + "}"
		case "bytes":
			var ps []string
			for _, x := range seq(e["es"]) {
				ps = append(ps, p.byteExpr(x))
			}
			return "[]byte{" + strings.Join(ps, ", ") + "}"
		}
		return goType(t) + "{" + p.exprs(seq(e["es"])) + "}"
	case "make":
		t := str(e["t"])
		if t == "mii" || t == "msi" {
			return "make(" + goType(t) + ")"
		}
		return "make(" + goType(t) + ", " + p.expr(e["e"]) + ")"
	case "conv":
		if str(e["to"]) == "bytes" {
			return "[]byte(" + p.expr(e["e"]) + ")"
		}
		return "string(" + p.expr(e["e"]) + ")"
	case "sub":
		lo, hi := "", ""
		if !isNone(e["lo"]) {
			lo = p.expr(e["lo"])
		}
		if !isNone(e["hi"]) {
			hi = p.expr(e["hi"])
		}
		return p.operand(e["e"]) + "[" + lo + ":" + hi + "]"
	case "isnil":
		return p.operand(e["e"]) + " == nil"
	}
	panic(fmt.Sprintf("unknown expression node %v", e))
}

// operand: nested operators are always parenthesised (precedence is the parser's business, not the compiler's)
func (p *printer) operand(v any) string {
	e := node(v)
	s := p.expr(v)
	switch str(e["k"]) {
	case "bin", "isnil":
		return "(" + s + ")"
	case "un":
		return "(" + s + ")"
	case "lit":
		if strings.HasPrefix(s, "-") {
			return "(" + s + ")"
		}
	}
	return s
}

func (p *printer) byteExpr(v any) string {
	e := node(v)
	if str(e["k"]) == "lit" && toInt(e["v"]) >= 0 {
		return p.expr(v)
	}
	return "byte(" + p.expr(v) + ")"
}

// call: a function named "S.m" is the method m of *S, its first argument the receiver
func (p *printer) call(f string, as []any) string {
	if i := strings.IndexByte(f, '.'); i >= 0 && len(as) > 0 {
		return p.operand(as[0]) + "." + f[i+1:] + "(" + p.exprs(as[1:]) + ")"
	}
	return f + "(" + p.exprs(as) + ")"
}

func (p *printer) exprs(es []any) string {
	ps := make([]string, len(es))
	for i, e := range es {
		ps[i] = p.expr(e)
	}
	return strings.Join(ps, ", ")
}

func (p *printer) lvalue(v any) string {
	l := node(v)
	switch str(l["k"]) {
	case "var":
		return str(l["n"])
	case "ix":
		return p.operand(l["b"]) + "[" + p.expr(l["i"]) + "]"
	case "fld":
		p.usesS = true
		return p.operand(l["e"]) + "." + fieldName[toInt(l["f"])]
	}
	panic(fmt.Sprintf("unknown lvalue %v", l))
}

func isBytesElem(v any) bool {
	l := node(v)
	return str(l["k"]) == "ix" && str(l["t"]) == "bytes"
}

// simple statement (no trailing newline): used in if / for / switch headers as well
func (p *printer) simple(v any) string {
	s := node(v)
	switch str(s["k"]) {
	case "decl":
		if str(s["form"]) == "var" {
			return "var " + str(s["n"]) + " " + goType(str(s["t"])) + " = " + p.expr(s["e"])
		}
		return str(s["n"]) + " := " + p.expr(s["e"])
	case "declz":
		return "var " + str(s["n"]) + " " + goType(str(s["t"]))
	case "asg":
		if isBytesElem(s["l"]) {
			return p.lvalue(s["l"]) + " = " + p.byteExpr(s["e"])
		}
		return p.lvalue(s["l"]) + " = " + p.expr(s["e"])
	case "opasg":
		if isBytesElem(s["l"]) {
			return p.lvalue(s["l"]) + " " + str(s["op"]) + "= " + p.byteExpr(s["e"])
		}
		return p.lvalue(s["l"]) + " " + str(s["op"]) + "= " + p.expr(s["e"])
	case "inc":
		if toInt(s["d"]) > 0 {
			return p.lvalue(s["l"]) + "++"
		}
		return p.lvalue(s["l"]) + "--"
	case "tasg":
		var ls []string
		for _, l := range seq(s["ls"]) {
			ls = append(ls, p.lvalue(l))
		}
		return strings.Join(ls, ", ") + " = " + p.exprs(seq(s["es"]))
	case "calls":
		return p.call(str(s["f"]), seq(s["as"]))
	case "mret":
		var ns []string
		allBlank := true
		for _, n := range seq(s["ns"]) {
			ns = append(ns, str(n))
			if str(n) != "_" {
				allBlank = false
			}
		}
		op := " = "
		if s["def"].(bool) && !allBlank {
			op = " := "
		}
		return strings.Join(ns, ", ") + op + str(s["f"]) + "(" + p.exprs(seq(s["as"])) + ")"
	case "mok":
		op := " = "
		if s["def"].(bool) && !(str(s["vn"]) == "_" && str(s["okn"]) == "_") {
			op = " := "
		}
		return str(s["vn"]) + ", " + str(s["okn"]) + op + p.operand(s["m"]) + "[" + p.expr(s["key"]) + "]"
	case "use":
		return "_ = " + str(s["n"])
	}
	panic(fmt.Sprintf("not a simple statement %v", s))
}

func usesLabel(v any, lbl string) bool {
	switch x := v.(type) {
	case map[string]any:
		if k := str(x["k"]); (k == "brk" || k == "cont") && str(x["lbl"]) == lbl {
			return true
		}
		for _, c := range x {
			if usesLabel(c, lbl) {
				return true
			}
		}
	case []any:
		for _, c := range x {
			if usesLabel(c, lbl) {
				return true
			}
		}
	}
	return false
}

func (p *printer) block(ss []any) {
	p.ind++
	for _, s := range ss {
		p.stmt(s)
	}
	p.ind--
}

func (p *printer) stmt(v any) {
	s := node(v)
	switch str(s["k"]) {
	case "if":
		p.ifStmt(s, "")
	case "for":
		if l := str(s["lbl"]); l != "" && usesLabel(s["body"], l) {
			p.ind--
			p.line(l + ":")
			p.ind++
		}
		init, cond, post := "", "", ""
		if !isNone(s["init"]) {
			init = p.simple(s["init"])
		}
		if !isNone(s["c"]) {
			cond = p.expr(s["c"])
		}
		if !isNone(s["post"]) {
			post = p.simple(s["post"])
		}
		switch {
		case init == "" && post == "" && cond == "":
			p.line("for {")
		case init == "" && post == "":
			p.line("for " + cond + " {")
		default:
			p.line("for " + init + "; " + cond + "; " + post + " {")
		}
		p.block(seq(s["body"]))
		p.line("}")
	case "range":
		if l := str(s["lbl"]); l != "" && usesLabel(s["body"], l) {
			p.ind--
			p.line(l + ":")
			p.ind++
		}
		kn, vn := str(s["kn"]), str(s["vn"])
		h := "for "
		switch {
		case kn == "" && vn == "":
		case vn == "":
			h += kn + " := "
		default:
			if kn == "" {
				kn = "_"
			}
			h += kn + ", " + vn + " := "
		}
		p.line(h + "range " + p.expr(s["e"]) + " {")
		p.block(seq(s["body"]))
		p.line("}")
	case "brk":
		p.line(strings.TrimSpace("break " + str(s["lbl"])))
	case "cont":
		p.line(strings.TrimSpace("continue " + str(s["lbl"])))
	case "sw":
		h := "switch "
		if !isNone(s["init"]) {
			h += p.simple(s["init"]) + "; "
		}
		if !isNone(s["tag"]) {
			h += p.expr(s["tag"]) + " "
		}
		p.line(h + "{")
		for _, c := range seq(s["cls"]) {
			cl := node(c)
			if cl["def"].(bool) {
				p.line("default:")
			} else {
				p.line("case " + p.exprs(seq(cl["es"])) + ":")
			}
			p.block(seq(cl["body"]))
			if cl["ft"].(bool) {
				p.ind++
				p.line("fallthrough")
				p.ind--
			}
		}
		p.line("}")
	case "ret":
		p.line(strings.TrimSpace("return " + p.exprs(seq(s["es"]))))
	case "defer":
		p.line("defer func() {")
		p.block(seq(s["body"]))
		p.line("}()")
	case "deferc":
		p.line("defer " + str(s["f"]) + "()")
	case "panic":
		p.line("panic(" + p.expr(s["e"]) + ")")
	case "del":
		p.line("delete(" + p.expr(s["m"]) + ", " + p.expr(s["key"]) + ")")
	case "app":
		p.line(str(s["n"]) + " = append(" + str(s["n"]) + ", " + p.exprs(seq(s["es"])) + ")")
	case "blk":
		p.line("{")
		p.block(seq(s["body"]))
		p.line("}")
	case "rec":
		p.line("recover()")
	case "ifrec":
		p.line("if r := recover(); r != nil {")
		p.block(seq(s["th"]))
		if len(seq(s["el"])) > 0 {
			p.line("} else {")
			p.block(seq(s["el"]))
		}
		p.line("}")
	default:
		p.line(p.simple(v))
	}
}

func (p *printer) ifStmt(s N, prefix string) {
	h := prefix + "if "
	if !isNone(s["init"]) {
		h += p.simple(s["init"]) + "; "
	}
	p.line(h + p.expr(s["c"]) + " {")
	p.block(seq(s["th"]))
	el := seq(s["el"])
	switch {
	case len(el) == 0:
		p.line("}")
	case len(el) == 1 && str(node(el[0])["k"]) == "if":
		// else-if chain
		var sub printer
		sub.ind = p.ind
		sub.ifStmt(node(el[0]), "} else ")
		p.usesS = p.usesS || sub.usesS
		p.b.WriteString(sub.b.String())
	default:
		p.line("} else {")
		p.block(el)
		p.line("}")
	}
}

// renderProg prints a whole program as package pkg.
func renderProg(prog N, pkg string) string {
	var p printer
	for _, g := range seq(prog["globals"]) {
		gl := node(g)
		p.line("var " + str(gl["n"]) + " " + goType(str(gl["t"])) + " = " + p.expr(gl["e"]))
	}
	if len(seq(prog["globals"])) > 0 {
		p.line("")
	}
	for _, f := range seq(prog["funcs"]) {
		fn := node(f)
		var ps []string
		for _, q := range seq(fn["ps"]) {
			t := str(node(q)["t"])
			if t == "S" || t == "pS" {
				p.usesS = true
			}
			ps = append(ps, str(node(q)["n"])+" "+goType(t))
		}
		var rs []string
		for _, q := range seq(fn["rs"]) {
			t := str(node(q)["t"])
			if t == "S" || t == "pS" {
				p.usesS = true
			}
			if fn["named"].(bool) {
				rs = append(rs, str(node(q)["n"])+" "+goType(t))
			} else {
				rs = append(rs, goType(t))
			}
		}
		// Go's grouped form (a, b int) for neighbours of one type, in every other function: two spellings of the same list
		if nm := str(fn["n"]); len(nm)%2 == 1 {
			ps = groupFields(ps)
			if fn["named"].(bool) {
				rs = groupFields(rs)
			}
		}
		res := ""
		switch {
		case len(rs) == 1 && !fn["named"].(bool):
			res = " " + rs[0]
		case len(rs) > 0:
			res = " (" + strings.Join(rs, ", ") + ")"
		}
		if name := str(fn["n"]); strings.Contains(name, ".") && len(ps) > 0 {
			p.usesS = true
			p.line("func (" + ps[0] + ") " + name[strings.IndexByte(name, '.')+1:] + "(" + strings.Join(ps[1:], ", ") + ")" + res + " {")
		} else {
			p.line("func " + name + "(" + strings.Join(ps, ", ") + ")" + res + " {")
		}
		p.block(seq(fn["body"]))
		p.line("}")
		p.line("")
	}
	head := "package " + pkg + "\n\n"
	if p.usesS || strings.Contains(p.b.String(), "S{") {
		head += "type S struct {\n\tA int\n\tB int\n}\n\n"
	}
	return head + p.b.String()
}

// groupFields merges neighbouring "name type" fields of equal type into "name, name type".
func groupFields(fs []string) []string {
	var out []string
	for i := 0; i < len(fs); {
		sp := strings.IndexByte(fs[i], ' ')
		names, typ := fs[i][:sp], fs[i][sp:]
		j := i + 1
		for ; j < len(fs); j++ {
			sq := strings.IndexByte(fs[j], ' ')
			if fs[j][sq:] != typ {
				break
			}
			names += ", " + fs[j][:sq]
		}
		out = append(out, names+typ)
		i = j
	}
	return out
}

// nodeKinds: the construct signature of a (minimised) program: statement / expression kinds it is made of.
func nodeKinds(v any, out map[string]bool) {
	switch x := v.(type) {
	case map[string]any:
		if k := str(x["k"]); k != "" && k != "none" && k != "lit" && k != "var" {
			switch k {
			case "bin", "un", "opasg":
				out[k+str(x["op"])] = true
			case "sw":
				out[k] = true
				for _, c := range seq(x["cls"]) {
					if node(c)["ft"] == true {
						out["fallthrough"] = true
					}
					if node(c)["def"] == true {
						out["default"] = true
					}
				}
			case "brk", "cont":
				if str(x["lbl"]) != "" {
					out[k+"-label"] = true
				} else {
					out[k] = true
				}
			case "ix", "len", "mk", "range", "fld":
				out[k+":"+str(x["t"])] = true
			default:
				out[k] = true
			}
		}
		if x["named"] == true {
			out["named-results"] = true
		}
		for _, c := range x {
			nodeKinds(c, out)
		}
	case []any:
		for _, c := range x {
			nodeKinds(c, out)
		}
	}
}

func kindList(v any) []string {
	m := map[string]bool{}
	nodeKinds(v, m)
	var l []string
	for k := range m {
		l = append(l, k)
	}
	sort.Strings(l)
	return l
}
