//go:build verif

package c14compile

import (
	"bufio"
	"bytes"
	"context"
	"fmt"
	"os"
	"os/exec"
	"path/filepath"
	"regexp"
	"strings"
	"sync"
	"time"
)

// The reference side of the differential: the SAME source text is compiled by the standard Go toolchain
// (one package per program inside one scratch module, one `go build` per batch) and every (function, argument vector)
// is run under recover; results are printed in the canonical encoding of rtSrc.Enc.

// Unit is one program on its way through both sides.
type Unit struct {
	ID    string
	Src   string
	Chk   *Checked
	Funcs []UnitFunc
	// Stateful programs (package-level variables or init functions) get a fresh process per case: that is what
	// "compiled and run by the standard Go toolchain" means for a function that reads the initial globals.
	Stateful bool
	// VMSrc, when set, is what the compiler under test gets instead of Src (binding self-test only).
	VMSrc string
}

type UnitFunc struct {
	Sig  Sig
	Args [][]any
}

type CaseKey struct {
	Prog string
	Fn   string
	Arg  int
}

func (k CaseKey) String() string { return fmt.Sprintf("%s:%s:%d", k.Prog, k.Fn, k.Arg) }

const rtSrc = `package rt

import (
	"bufio"
	"fmt"
	"os"
	"reflect"
	"sort"
	"strings"
)

var Reg = map[string]func(fn string, i int) string{}

// Enc is the canonical result encoding shared with the VM side (vmrun.go encItem).
func Enc(v any) string { return enc(reflect.ValueOf(v)) }

func enc(v reflect.Value) string {
	switch v.Kind() {
	case reflect.Int, reflect.Int8, reflect.Int16, reflect.Int32, reflect.Int64:
		return fmt.Sprintf("%d", v.Int())
	case reflect.Uint, reflect.Uint8, reflect.Uint16, reflect.Uint32, reflect.Uint64:
		return fmt.Sprintf("%d", v.Uint())
	case reflect.Bool:
		if v.Bool() {
			return "true"
		}
		return "false"
	case reflect.String:
		return fmt.Sprintf("s%x", v.String())
	case reflect.Slice:
		if v.IsNil() {
			return "nil"
		}
		if v.Type().Elem().Kind() == reflect.Uint8 {
			return fmt.Sprintf("b%x", v.Bytes())
		}
		p := make([]string, v.Len())
		for i := range p {
			p[i] = enc(v.Index(i))
		}
		return "[" + strings.Join(p, ",") + "]"
	case reflect.Map:
		if v.IsNil() {
			return "nil"
		}
		var p []string
		for _, k := range v.MapKeys() {
			p = append(p, enc(k)+":"+enc(v.MapIndex(k)))
		}
		sort.Strings(p)
		return "{" + strings.Join(p, ",") + "}"
	case reflect.Struct:
		p := make([]string, v.NumField())
		for i := range p {
			p[i] = enc(v.Field(i))
		}
		return "(" + strings.Join(p, ",") + ")"
	case reflect.Ptr:
		if v.IsNil() {
			return "nil"
		}
		return "&" + enc(v.Elem())
	}
	return "?" + v.Kind().String()
}

func Call(f func() string) (r string) {
	defer func() {
		if recover() != nil {
			r = "panic"
		}
	}()
	return f()
}

func Main() {
	in := bufio.NewScanner(os.Stdin)
	out := bufio.NewWriter(os.Stdout)
	for in.Scan() {
		key := in.Text()
		p := strings.Split(key, ":")
		var i int
		fmt.Sscan(p[2], &i)
		f := Reg[p[0]]
		r := "?noprog"
		if f != nil {
			r = f(p[1], i)
		}
		fmt.Fprintf(out, "%s\t%s\n", key, r)
		out.Flush()
	}
}
`

func glue(u *Unit) string {
	var b strings.Builder
	fmt.Fprintf(&b, "package %s\n\nimport \"c14go/rt\"\n\nfunc init() {\n\trt.Reg[%q] = func(fn string, i int) string {\n\t\tswitch fn {\n", u.Chk.Pkg, u.ID)
	for _, f := range u.Funcs {
		fmt.Fprintf(&b, "\t\tcase %q:\n\t\t\tswitch i {\n", f.Sig.Name)
		for i, row := range f.Args {
			as := make([]string, len(row))
			for j := range row {
				as[j] = goLit(f.Sig.Params[j], row[j])
			}
			call := fmt.Sprintf("%s(%s)", f.Sig.Name, strings.Join(as, ", "))
			if len(f.Sig.Results) == 0 {
				fmt.Fprintf(&b, "\t\t\tcase %d:\n\t\t\t\treturn rt.Call(func() string { %s; return \"void\" })\n", i, call)
			} else {
				fmt.Fprintf(&b, "\t\t\tcase %d:\n\t\t\t\treturn rt.Call(func() string { return rt.Enc(%s) })\n", i, call)
			}
		}
		b.WriteString("\t\t\t}\n")
	}
	b.WriteString("\t\t}\n\t\treturn \"?nocase\"\n\t}\n}\n")
	return b.String()
}

// buildGo writes the scratch module and builds it with the standard toolchain. Programs the toolchain refuses are
// returned in `refused` (they were accepted by go/types before, so this is unexpected and counted).
func buildGo(dir string, units []*Unit) (bin string, refused map[string]string, err error) {
	refused = map[string]string{}
	if err = os.MkdirAll(filepath.Join(dir, "rt"), 0o755); err != nil {
		return
	}
	os.WriteFile(filepath.Join(dir, "go.mod"), []byte("module c14go\n\ngo 1.22\n"), 0o644)
	os.WriteFile(filepath.Join(dir, "rt", "rt.go"), []byte(rtSrc), 0o644)
	for _, u := range units {
		d := filepath.Join(dir, u.ID)
		os.MkdirAll(d, 0o755)
		os.WriteFile(filepath.Join(d, "prog.go"), []byte(u.Src), 0o644)
		os.WriteFile(filepath.Join(d, "zz_run.go"), []byte(glue(u)), 0o644)
	}
	bin = filepath.Join(dir, "c14go.bin")
	re := regexp.MustCompile(`(?m)^([A-Za-z0-9_]+)/(?:prog|zz_run)\.go:\d+:\d+: (.*)$`)
	for attempt := 0; attempt < 4; attempt++ {
		var mb strings.Builder
		mb.WriteString("package main\n\nimport (\n\t\"c14go/rt\"\n")
		for _, u := range units {
			if _, bad := refused[u.ID]; !bad {
				fmt.Fprintf(&mb, "\t_ \"c14go/%s\"\n", u.ID)
			}
		}
		mb.WriteString(")\n\nfunc main() { rt.Main() }\n")
		os.WriteFile(filepath.Join(dir, "main.go"), []byte(mb.String()), 0o644)
		cmd := exec.Command("go", "build", "-o", bin, ".")
		cmd.Dir = dir
		cmd.Env = append(os.Environ(), "GOFLAGS=-mod=mod", "GOPROXY=off", "GOWORK=off")
		out, e := cmd.CombinedOutput()
		if e == nil {
			return bin, refused, nil
		}
		ms := re.FindAllStringSubmatch(string(out), -1)
		if len(ms) == 0 {
			return "", refused, fmt.Errorf("go build failed: %v\n%s", e, tailStr(string(out), 30))
		}
		for _, m := range ms {
			if _, ok := refused[m[1]]; !ok {
				refused[m[1]] = m[2]
			}
		}
	}
	return "", refused, fmt.Errorf("go build keeps failing")
}

func tailStr(s string, n int) string {
	l := strings.Split(strings.TrimRight(s, "\n"), "\n")
	if len(l) > n {
		l = l[len(l)-n:]
	}
	return strings.Join(l, "\n")
}

// runGo executes the cases: stateless programs share processes (chunks), stateful ones get one process per case.
// A process that dies or exceeds the watchdog marks the first unanswered case "crash" / "timeout" and the rest is re-run.
func runGo(bin string, chunks [][]CaseKey, workers int) map[string]string {
	res := map[string]string{}
	var mu sync.Mutex
	ch := make(chan []CaseKey, len(chunks))
	for _, c := range chunks {
		ch <- c
	}
	close(ch)
	var wg sync.WaitGroup
	for w := 0; w < workers; w++ {
		wg.Add(1)
		go func() {
			defer wg.Done()
			for c := range ch {
				for len(c) > 0 {
					got, verdict := runGoProc(bin, c)
					mu.Lock()
					for i := 0; i < len(got); i++ {
						res[c[i].String()] = got[i]
					}
					if len(got) < len(c) {
						res[c[len(got)].String()] = verdict
						c = c[len(got)+1:]
					} else {
						c = nil
					}
					mu.Unlock()
				}
			}
		}()
	}
	wg.Wait()
	return res
}

func runGoProc(bin string, c []CaseKey) ([]string, string) {
	ctx, cancel := context.WithTimeout(context.Background(), time.Duration(10+len(c)/20)*time.Second)
	defer cancel()
	var in bytes.Buffer
	for _, k := range c {
		in.WriteString(k.String() + "\n")
	}
	cmd := exec.CommandContext(ctx, bin)
	cmd.Stdin = &in
	var out bytes.Buffer
	cmd.Stdout = &out
	err := cmd.Run()
	var got []string
	sc := bufio.NewScanner(&out)
	sc.Buffer(make([]byte, 1<<20), 1<<24)
	for sc.Scan() {
		p := strings.SplitN(sc.Text(), "\t", 2)
		if len(p) != 2 || len(got) >= len(c) || p[0] != c[len(got)].String() {
			break
		}
		got = append(got, p[1])
	}
	verdict := "crash"
	if ctx.Err() != nil {
		verdict = "timeout"
	}
	_ = err
	return got, verdict
}
