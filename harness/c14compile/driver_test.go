//go:build verif

package c14compile

import (
	"bufio"
	"encoding/json"
	"fmt"
	"os"
	"path/filepath"
	"sort"
	"strings"
	"testing"

	"verifharness/internal/vh"
)

// TestDriver: property C14, both clauses.
//   VERIF_IN/cases.ndjson   programs printed by TLC (abstract syntax + GoSem's verdict per argument vector)
//   VERIF_IN/probes.ndjson  fixed source-text programs (dialect probes: expected to differ / regressions), optional
//   VERIF_IN/corpus.json    directories / files of the repository's own contracts (compile only + ABI facts), optional
// Output: result.json (violations, drift, statistics), abi.ndjson (facts for spec/gosem/AbiMatches.tla).

type progIn struct {
	c    *GenCase
	u    *Unit
	spec map[string]string // case key -> GoSem verdict
}

func normArgs(sig *Sig, args []any) []any {
	out := make([]any, len(args))
	for i, a := range args {
		out[i] = a
		if i < len(sig.Params) && sig.Params[i] != nil && sig.Params[i].K == "string" {
			if l, ok := a.([]any); ok {
				out[i] = string(bytesOf(l))
			}
		}
	}
	return out
}

func loadCases(t *testing.T, res *vh.Result) []*progIn {
	f, err := os.Open(filepath.Join(vh.InDir(), "cases.ndjson"))
	if err != nil {
		t.Fatal(err)
	}
	defer f.Close()
	sc := bufio.NewScanner(f)
	sc.Buffer(make([]byte, 1<<20), 1<<26)
	var out []*progIn
	for sc.Scan() {
		var c GenCase
		if err := json.Unmarshal(sc.Bytes(), &c); err != nil {
			t.Fatalf("bad case line: %v", err)
		}
		pi, why := prepare(&c)
		if pi == nil {
			res.Inc("gen_type_errors", 1)
			res.AddDrift(map[string]any{"kind": "generated-program-rejected-by-go-types", "id": c.ID, "error": why})
			continue
		}
		out = append(out, pi)
	}
	return out
}

// prepare renders a TLC case and collects the runs the specification claims (everything but "oos").
func prepare(c *GenCase) (*progIn, string) {
	id := "p_" + strings.ToLower(c.ID)
	src, chk, err := renderChecked(c.Prog, id)
	if err != nil {
		return nil, err.Error() + "\n" + src
	}
	pi := &progIn{c: c, spec: map[string]string{}}
	u := &Unit{ID: id, Src: src, Chk: chk, Stateful: chk.NGlobals > 0 || chk.HasInit}
	if c.Alter {
		alt := clone(c.Prog).(map[string]any)
		alterInit(alt)
		u.VMSrc, _, err = renderChecked(alt, id)
		if err != nil {
			return nil, "altered program does not type check: " + err.Error()
		}
	}
	sigs := map[string]*Sig{}
	for i := range chk.Sigs {
		sigs[chk.Sigs[i].Name] = &chk.Sigs[i]
	}
	byFn := map[string]*UnitFunc{}
	var order []string
	for _, r := range c.Runs {
		sg := sigs[r.F]
		if sg == nil || !sg.OK {
			return nil, "run of an unknown / untransportable function " + r.F
		}
		v, err := specVerdict(sg, r.Res)
		if err != nil {
			return nil, "cannot read the specification's verdict: " + err.Error()
		}
		if v == "oos" {
			continue
		}
		uf := byFn[r.F]
		if uf == nil {
			uf = &UnitFunc{Sig: *sg}
			byFn[r.F] = uf
			order = append(order, r.F)
		}
		pi.spec[CaseKey{id, r.F, len(uf.Args)}.String()] = v
		uf.Args = append(uf.Args, normArgs(sg, r.Args))
	}
	for _, n := range order {
		u.Funcs = append(u.Funcs, *byFn[n])
	}
	pi.u = u
	return pi, ""
}

func classify(g, v string) string {
	if (g == "panic") != (v == "panic") {
		return "fails-differently"
	}
	return "result-differs"
}

func TestDriver(t *testing.T) {
	res := vh.NewResult()
	defer func() {
		if err := res.Write(); err != nil {
			t.Fatal(err)
		}
	}()
	progs := loadCases(t, res)
	var units []*Unit
	byID := map[string]*progIn{}
	for _, p := range progs {
		units = append(units, p.u)
		byID[p.u.ID] = p
	}
	dr, err := differential(scratch("gobatch"), units)
	if err != nil {
		t.Fatalf("differential run failed: %v", err)
	}
	// refusals of the compiler under test: counted per reason, never a verdict
	refusals := map[string]int{}
	for id, e := range dr.Refused {
		refusals[refusalClass(e)]++
		res.Inc("refused_programs", 1)
		if strings.Contains(e.Error(), "compiler panic") {
			// a Go panic escaping the compiler's API on a program of the claimed subset
			res.Inc("compiler_panics", 1)
			res.Violate(map[string]any{"kind": "compiler-panic", "construct": "generated-program"}, e.Error(),
				map[string]any{"id": byID[id].c.ID, "source": byID[id].u.Src})
		}
	}
	res.Stats["refusals_by_reason"] = refusals
	for id, e := range dr.GoRefused {
		res.Inc("go_toolchain_refused", 1)
		res.AddDrift(map[string]any{"kind": "go-build-refused-a-type-checked-program", "id": id, "error": e})
	}
	res.Inc("programs", len(units))
	res.Inc("programs_compiled", len(dr.Compiled))

	type failure struct {
		c    CaseOut
		kind string
	}
	failing := map[string][]failure{} // by program
	fams := map[string]int{}
	outcomes := map[string]int{}
	for _, c := range dr.Cases {
		p := byID[c.Key.Prog]
		spec := p.spec[c.Key.String()]
		fams[p.c.Fam]++
		if c.Go == "panic" {
			outcomes["panic"]++
		} else {
			outcomes["value"]++
		}
		res.Count([]any{p.c.Fam, p.u.Src, c.Key.Fn, c.Args})
		if c.Go == "crash" || c.Go == "timeout" || c.Go == "" || strings.HasPrefix(c.Go, "?") {
			// the reference itself did not answer (stack exhaustion, endless loop): the specification should have said "oos"
			res.Inc("reference_no_answer", 1)
			res.AddDrift(map[string]any{"kind": "spec_vs_go", "what": "toolchain run gave no answer: " + c.Go, "case": c.Key.String(), "spec": spec})
			continue
		}
		if spec != c.Go {
			res.Inc("spec_vs_go", 1)
			res.AddDrift(map[string]any{"kind": "spec_vs_go", "case": c.Key.String(), "args": c.Args, "spec": spec, "go": c.Go, "src": p.u.Src})
		}
		if c.Differs() {
			failing[c.Key.Prog] = append(failing[c.Key.Prog], failure{c, classify(c.Go, c.VM.Res)})
		} else if len(res.Samples) < 4 && len(p.u.Src) < 600 && c.Key.Arg == 3 {
			res.Sample(map[string]any{"fam": p.c.Fam, "source": p.u.Src, "func": c.Key.Fn, "args": c.Args, "go": c.Go, "vm": c.VM.Res, "spec": spec})
		}
	}
	res.Stats["cases_by_family"] = fams
	res.Stats["outcomes"] = outcomes

	if os.Getenv("C14_SELFTEST") == "1" {
		// binding self-test: report which cases the comparison flags, raise nothing
		var flagged []string
		for id, fs := range failing {
			for _, f := range fs {
				flagged = append(flagged, byID[id].c.ID+":"+fmt.Sprint(f.c.Key.Arg))
			}
		}
		sort.Strings(flagged)
		res.Stats["flagged"] = flagged
		var nonpanic []string
		for _, c := range dr.Cases {
			if c.Go != "panic" {
				nonpanic = append(nonpanic, byID[c.Key.Prog].c.ID+":"+fmt.Sprint(c.Key.Arg))
			}
		}
		res.Stats["nonpanic"] = nonpanic
		res.Sample(map[string]any{"selftest": len(flagged)})
		return
	}
	// ---- violations: minimise (delta debugging on the syntax tree), then report with the construct signature
	ids := make([]string, 0, len(failing))
	for id := range failing {
		ids = append(ids, id)
	}
	sort.Slice(ids, func(i, j int) bool {
		a, b := len(byID[ids[i]].u.Src), len(byID[ids[j]].u.Src)
		if a != b {
			return a < b
		}
		return ids[i] < ids[j]
	})
	res.Inc("failing_programs", len(ids))
	budget := vh.EnvInt("C14_MINIMISE", 6)
	seenSig := map[string]bool{}
	for _, id := range ids {
		p := byID[id]
		f := failing[id][0]
		var fn N
		for _, x := range seq(p.c.Prog["funcs"]) {
			if str(node(x)["n"]) == f.c.Key.Fn {
				fn = node(x)
			}
		}
		_ = fn
		construct := strings.Join(kindList(pruneFuncs(p.c.Prog, f.c.Key.Fn)["funcs"]), "+")
		minSrc := ""
		if budget > 0 && p.c.Fam != "expr" {
			budget--
			if mp, mk := minimise(p.c.Prog, f.c.Key.Fn, f.c.Args, f.kind); mp != nil {
				construct = strings.Join(mk, "+")
				minSrc = renderProg(mp, "min")
			}
		}
		if minSrc == "" && p.c.Fam != "expr" {
			// beyond the minimisation budget: one aggregate signature, the programs are counted
			construct = "not-minimised"
			res.Inc("failing_programs_not_minimised", 1)
		}
		sig := map[string]any{"kind": f.kind, "construct": construct}
		k := fmt.Sprint(sig)
		if seenSig[k] {
			continue
		}
		seenSig[k] = true
		res.Violate(sig, fmt.Sprintf("%s(%v): go toolchain %s, compiled code in the VM %s %s", f.c.Key.Fn, f.c.Args, f.c.Go, f.c.VM.Res, f.c.VM.Fault),
			map[string]any{"id": p.c.ID, "source": p.u.Src, "func": f.c.Key.Fn, "args": f.c.Args, "go": f.c.Go, "vm": f.c.VM.Res, "fault": f.c.VM.Fault,
				"minimised": minSrc, "failing_cases_in_program": len(failing[id])})
	}
	// ---- second clause: facts about every compiled program for spec/gosem/AbiMatches.tla
	tr := vh.NewTrace("abi.ndjson")
	calls := map[string][]map[string]any{}
	perFn := map[string]int{}
	for _, c := range dr.Cases {
		p := byID[c.Key.Prog]
		var sg *Sig
		for i := range p.u.Funcs {
			if p.u.Funcs[i].Sig.Name == c.Key.Fn {
				sg = &p.u.Funcs[i].Sig
			}
		}
		k := c.Key.Prog + ":" + c.Key.Fn
		if sg == nil || !sg.Exported || perFn[k] >= 3 {
			continue
		}
		perFn[k]++
		calls[c.Key.Prog] = append(calls[c.Key.Prog], map[string]any{"name": lowerFirst(sg.Name), "np": len(sg.Params), "nres": len(sg.Results),
			"halt": c.VM.Fault == "" && !strings.HasPrefix(c.VM.Res, "?") || strings.HasPrefix(c.VM.Res, "?stack-depth") || c.VM.Res == "?shape",
			"underflow": strings.Contains(c.VM.Fault, "(INITSLOT)") || c.VM.Res == "?no-entry" || c.VM.Res == "?vm-go-panic",
			"depth": c.VM.Depth})
	}
	for _, u := range units {
		c := dr.Compiled[u.ID]
		if c == nil {
			continue
		}
		f, err := abiFacts(u.ID, "gen", c, u.Chk, calls[u.ID])
		if err != nil {
			res.Violate(map[string]any{"kind": "undecodable-bytecode"}, err.Error(), map[string]any{"source": u.Src})
			continue
		}
		tr.Emit(f)
		res.Traces++
	}
	probes(t, res, tr)
	corpus(t, res, tr)
	tr.Close()
	if len(res.Samples) == 0 && len(dr.Cases) > 0 {
		c := dr.Cases[0]
		res.Sample(map[string]any{"source": byID[c.Key.Prog].u.Src, "func": c.Key.Fn, "args": c.Args, "go": c.Go, "vm": c.VM.Res})
	}
}

// corpus: the repository's own contracts (copied to the scratch directory by the runner): compile only, ABI / debug facts.
func corpus(t *testing.T, res *vh.Result, tr *vh.Trace) {
	var dirs []string
	if err := vh.ReadJSON("corpus.json", &dirs); err != nil {
		return
	}
	for _, d := range dirs {
		c := &Compiled{}
		func() {
			defer func() {
				if r := recover(); r != nil {
					c.Err = fmt.Errorf("compiler panic: %v", r)
				}
			}()
			nf, di, err := compileDir(d)
			c.NEF, c.DI, c.Err = nf, di, err
		}()
		name := filepath.Base(d)
		if c.Err != nil {
			res.Inc("corpus_not_compiled", 1)
			res.AddDrift(map[string]any{"kind": "corpus-not-compiled", "dir": name, "error": c.Err.Error()})
			continue
		}
		c.Man, c.ManErr = manifestOf(c.DI, name)
		f, err := abiFacts("corpus_"+name, "corpus", c, nil, nil)
		if err != nil {
			res.Violate(map[string]any{"kind": "undecodable-bytecode", "corpus": name}, err.Error(), nil)
			continue
		}
		tr.Emit(f)
		res.Traces++
		res.Inc("corpus_compiled", 1)
		res.Count([]any{"corpus", name})
	}
}

// Probe is a fixed source-text program of the check's register of dialect differences (tools/checks/c14.py DIALECT_PROBES):
// a construct that the documentation does not exclude and that the unchanged compiler translates differently from Go.
// A probe that still differs is a violation with the stable signature {part: dialect-probe, construct, kind}; one that
// agrees (repaired compiler) is silent and stays as a regression test.
type Probe struct {
	Name string           `json:"name"`
	Src  string           `json:"src"`
	Fn   string           `json:"func"`
	Args [][]any          `json:"args"`
	Abi  bool             `json:"abi"` // judged by AbiMatches only
}

func probes(t *testing.T, res *vh.Result, tr *vh.Trace) {
	var ps []Probe
	if err := vh.ReadJSON("probes.json", &ps); err != nil {
		return
	}
	var units []*Unit
	byID := map[string]*Probe{}
	for i := range ps {
		p := &ps[i]
		id := "probe_" + strings.ReplaceAll(p.Name, "-", "_")
		u, err := makeUnit(id, strings.Replace(p.Src, "package p", "package "+id, 1), map[string][][]any{p.Fn: p.Args})
		if err != nil || len(u.Funcs) != 1 {
			t.Fatalf("dialect probe %s is not a valid Go program: %v", p.Name, err)
		}
		units = append(units, u)
		byID[id] = p
	}
	dr, err := differential(scratch("goprobes"), units)
	if err != nil {
		t.Fatalf("probe run failed: %v", err)
	}
	state := map[string]string{}
	for _, u := range units {
		p := byID[u.ID]
		if e, bad := dr.Refused[u.ID]; bad {
			if strings.Contains(e.Error(), "compiler panic") {
				state[p.Name] = "compiler-panic"
				res.Violate(map[string]any{"part": "dialect-probe", "construct": p.Name, "kind": "compiler-panic"},
					"the compiler panics on a valid program: "+e.Error(), map[string]any{"source": u.Src})
			} else {
				state[p.Name] = "refused: " + e.Error()
			}
			continue
		}
		if c := dr.Compiled[u.ID]; c != nil {
			if f, err := abiFacts(u.ID, "probe", c, u.Chk, nil); err == nil {
				tr.Emit(f)
				res.Traces++
			}
		}
	}
	for _, c := range dr.Cases {
		p := byID[c.Key.Prog]
		res.Count([]any{"probe", p.Name, c.Args})
		if p.Abi {
			state[p.Name] = "abi"
			continue
		}
		if c.Differs() {
			if state[p.Name] == "" || state[p.Name] == "agrees" {
				state[p.Name] = "differs"
				res.Violate(map[string]any{"part": "dialect-probe", "construct": p.Name, "kind": classify(c.Go, c.VM.Res)},
					fmt.Sprintf("%s(%v): go toolchain %s, compiled code in the VM %s %s", p.Fn, c.Args, c.Go, c.VM.Res, c.VM.Fault),
					map[string]any{"source": p.Src, "func": p.Fn, "args": c.Args, "go": c.Go, "vm": c.VM.Res, "fault": c.VM.Fault})
			}
		} else if state[p.Name] == "" {
			state[p.Name] = "agrees"
		}
	}
	res.Stats["dialect_probes"] = state
}

// alterInit turns the first `s := 1` into `s := 2` (every result of a skeleton program that is not a panic depends on it).
func alterInit(v any) bool {
	switch x := v.(type) {
	case map[string]any:
		if (str(x["k"]) == "decl" && str(x["n"]) == "s") || (str(x["k"]) == "asg" && str(node(x["l"])["n"]) == "s") {
			if e := node(x["e"]); str(e["k"]) == "lit" {
				e["v"] = float64(toInt(e["v"]) + 1)
				return true
			}
		}
		for _, k := range sortedAnyKeys(x) {
			if alterInit(x[k]) {
				return true
			}
		}
	case []any:
		for _, c := range x {
			if alterInit(c) {
				return true
			}
		}
	}
	return false
}
