package c11ref

import (
	"fmt"
	"math/rand"
	"sort"
	"testing"

	"verifharness/internal/vh"
)

// key universes of the random driver: keys that are prefixes of each other, that share long nibble prefixes
// and whose sub-tries are equal when they hold equal values (shared branch / extension / leaf nodes).
var universes = [][]string{
	{"11", "12", "21", "22"},
	{"11", "12", "21", "22", "1111", "1112", "2111", "2112"},
	{"a0", "a1", "b0", "b1", "c0", "c1", "a0a0", "a0a1", "b0a0", "b0a1"},
	{"01", "0101", "010101", "02", "0201", "020101", "0102", "0202"},
	{"10aa01", "10aa02", "20aa01", "20aa02", "30aa01", "30aa02", "10", "20"},
	{"5511", "5512", "5521", "5522", "6611", "6612", "6621", "6622", "55", "66", "7711", "7712"},
}

func randomHistory(r *rand.Rand, mode string, discards bool) *History {
	u := universes[r.Intn(len(universes))]
	nv := 2 + r.Intn(2)
	vals := []string{"aa", "bb", "cc01"}[:nv]
	h := &History{Mode: mode, Keys: u, Vals: vals}
	nblocks := 4 + r.Intn(9)
	live := map[int]bool{}
	recent := []int{} // keys deleted recently: candidates for re-creation
	for b := 0; b < nblocks; b++ {
		st := Step{Op: "block", Commit: true, Collapse: -1}
		n := 1 + r.Intn(4)
		if b == 0 {
			n = 2 + r.Intn(len(u)-1)
		}
		used := map[int]bool{}
		for i := 0; i < n; i++ {
			var k int
			switch x := r.Intn(10); {
			case x < 3 && len(recent) > 0:
				k = recent[r.Intn(len(recent))]
			default:
				k = 1 + r.Intn(len(u))
			}
			if used[k] {
				continue
			}
			used[k] = true
			v := 0
			if !live[k] || r.Intn(3) != 0 {
				v = 1 + r.Intn(nv)
				if r.Intn(2) == 0 {
					v = 1 // many keys share one value
				}
			}
			st.Ch = append(st.Ch, Change{K: k, V: v})
		}
		if discards && r.Intn(4) == 0 {
			st.Commit = false
		}
		if st.Commit {
			for _, c := range st.Ch {
				if c.V == 0 {
					if live[c.K] {
						recent = append(recent, c.K)
					}
					delete(live, c.K)
				} else {
					live[c.K] = true
				}
			}
		}
		switch r.Intn(6) {
		case 0:
			st.Collapse = 0
		case 1:
			st.Collapse = 1 + r.Intn(3)
		case 2:
			st.Collapse = 10
		}
		st.Persist = r.Intn(2) == 0
		h.Steps = append(h.Steps, st)
		committed := 0
		for _, s := range h.Steps {
			if s.Op == "block" && s.Commit {
				committed++
			}
		}
		if mode != "latest" && committed > 1 && r.Intn(3) == 0 {
			if r.Intn(2) == 0 {
				h.Steps = append(h.Steps, Step{Op: "persist"})
			}
			h.Steps = append(h.Steps, Step{Op: "gc", G: r.Intn(committed + 1)})
		}
		if r.Intn(12) == 0 {
			h.Steps = append(h.Steps, Step{Op: "reinit"})
		}
	}
	return h
}

func TestDriver(t *testing.T) {
	res := vh.NewResult()
	tr := vh.NewTrace("trace.ndjson")
	var behaviours []*History
	if vh.InDir() != "" {
		if err := vh.ReadJSON("behaviours.json", &behaviours); err != nil {
			t.Logf("no behaviours: %v", err)
		}
	}
	for i, h := range behaviours {
		runModule(res, tr, fmt.Sprintf("tlc-%d", i), h)
	}
	res.Inc("replayed_behaviours", len(behaviours))
	nr := vh.EnvInt("VERIF_RANDOM", 100)
	r := vh.Rand(11)
	modes := []string{"latest", "gc", "gclatest"}
	for i := 0; i < nr; i++ {
		mode := modes[i%3]
		if i%3 == 2 && i%2 == 0 {
			mode = "gc"
		}
		// the second half of the random histories contains computed-but-never-committed blocks
		runModule(res, tr, fmt.Sprintf("rnd-%d", i), randomHistory(r, mode, i >= nr/2))
	}
	// archival mode (no reference counters): the same histories with computed-but-never-committed blocks; judged on
	// what the stored roots give back only
	na := vh.EnvInt("VERIF_ARCHIVAL", nr/4)
	for i := 0; i < na; i++ {
		h := randomHistory(r, "gc", true)
		h.Mode = "all"
		runModule(res, tr, fmt.Sprintf("all-%d", i), h)
	}
	res.Inc("archival_histories", na)
	// the same kind of histories through single Put / Delete calls on mpt.Trie (no dropped blocks there)
	nt := vh.EnvInt("VERIF_TRIE", nr/3)
	for i := 0; i < nt; i++ {
		h := randomHistory(r, modes[i%2], false)
		h.API = "trie"
		for j := range h.Steps { // single operations: the order inside a block matters, shuffle it
			ch := h.Steps[j].Ch
			r.Shuffle(len(ch), func(a, b int) { ch[a], ch[b] = ch[b], ch[a] })
		}
		runModule(res, tr, fmt.Sprintf("trie-%d", i), h)
	}
	res.Inc("trie_histories", nt)
	res.Inc("random_histories", nr)
	nc := vh.EnvInt("VERIF_CHAINS", 0)
	for i := 0; i < nc; i++ {
		// a subtest per chain: neotest helpers stop the (sub)test on unexpected errors
		if !t.Run(fmt.Sprintf("chain-%d", i), func(st *testing.T) { runChain(st, res, tr, i) }) {
			res.Inc("chains_failed", 1)
		}
	}
	res.Inc("chain_histories", nc)
	tr.Close()
	sort.Strings(res.Distinct)
	if err := res.Write(); err != nil {
		t.Fatal(err)
	}
}
