package c11ref

import (
	"crypto/sha256"
	"encoding/hex"
	"fmt"
	"math/rand"
	"strings"
	"testing"
	"time"

	"verifharness/internal/vh"

	"github.com/nspcc-dev/neo-go/pkg/config"
	"github.com/nspcc-dev/neo-go/pkg/core"
	"github.com/nspcc-dev/neo-go/pkg/core/block"
	"github.com/nspcc-dev/neo-go/pkg/core/interop/interopnames"
	"github.com/nspcc-dev/neo-go/pkg/core/state"
	"github.com/nspcc-dev/neo-go/pkg/core/stateroot"
	"github.com/nspcc-dev/neo-go/pkg/core/transaction"
	"github.com/nspcc-dev/neo-go/pkg/io"
	"github.com/nspcc-dev/neo-go/pkg/neotest"
	"github.com/nspcc-dev/neo-go/pkg/neotest/chain"
	"github.com/nspcc-dev/neo-go/pkg/smartcontract"
	"github.com/nspcc-dev/neo-go/pkg/smartcontract/callflag"
	"github.com/nspcc-dev/neo-go/pkg/smartcontract/manifest"
	"github.com/nspcc-dev/neo-go/pkg/smartcontract/nef"
	"github.com/nspcc-dev/neo-go/pkg/util"
	"github.com/nspcc-dev/neo-go/pkg/vm/emit"
	"github.com/nspcc-dev/neo-go/pkg/vm/opcode"
	"go.uber.org/zap"
	"go.uber.org/zap/zaptest/observer"
)

func init() {
	// no background flushes: the driver places every flush (and with it every GC attempt) itself
	core.VerifSetPersistInterval(100 * time.Hour)
}

// kvContract is a two-method contract: put(key, value) and del(key) on its own storage.
func kvContract(sender util.Uint160) (*neotest.Contract, error) {
	w := io.NewBufBinWriter()
	emit.Syscall(w.BinWriter, interopnames.SystemStorageGetContext)
	emit.Syscall(w.BinWriter, interopnames.SystemStoragePut)
	emit.Opcodes(w.BinWriter, opcode.RET)
	delOff := w.Len()
	emit.Syscall(w.BinWriter, interopnames.SystemStorageGetContext)
	emit.Syscall(w.BinWriter, interopnames.SystemStorageDelete)
	emit.Opcodes(w.BinWriter, opcode.RET)
	if w.Err != nil {
		return nil, w.Err
	}
	config.Version = "0.0.0-verif"
	ne, err := nef.NewFile(w.Bytes())
	if err != nil {
		return nil, err
	}
	m := manifest.DefaultManifest("verifkv")
	m.ABI.Methods = []manifest.Method{
		{Name: "put", Offset: 0, ReturnType: smartcontract.VoidType, Parameters: []manifest.Parameter{
			manifest.NewParameter("key", smartcontract.ByteArrayType), manifest.NewParameter("value", smartcontract.ByteArrayType)}},
		{Name: "del", Offset: delOff, ReturnType: smartcontract.VoidType, Parameters: []manifest.Parameter{
			manifest.NewParameter("key", smartcontract.ByteArrayType)}},
	}
	return &neotest.Contract{Hash: state.CreateContractHash(sender, ne.Checksum, m.Name), NEF: ne, Manifest: m}, nil
}

type chainCfg struct {
	Mode   string `json:"mode"` // latest | gc | gclatest
	MTB    uint32 `json:"mtb"`
	GCP    uint32 `json:"gcp"`
	Blocks int    `json:"blocks"`
	// Drop: the chain runs with StateRootInHeader and ends with a block that is computed but never committed
	// (the header of its successor, received earlier, names another state root).
	Drop bool `json:"drop"`
}

type chainWorld struct {
	cfg    chainCfg
	bc     *core.Blockchain
	mod    *stateroot.Module
	e      *neotest.Executor
	logs   *observer.ObservedLogs
	prev   map[string]entry
	roots  map[uint32]util.Uint256
	window uint32
}

func digestKV(kvs [][2]string) string {
	h := sha256.New()
	for _, kv := range kvs {
		fmt.Fprintf(h, "%s=%s;", kv[0], kv[1])
	}
	return hex.EncodeToString(h.Sum(nil)[:12])
}

// reads probes a window of recent heights with Find over the whole content of the root.
func (w *chainWorld) reads(height uint32) []any {
	out := []any{}
	lo := uint32(0)
	if height > w.window {
		lo = height - w.window
	}
	for h := lo; h <= height; h++ {
		root, ok := w.roots[h]
		if !ok {
			continue
		}
		kvs, err := w.mod.FindStates(root, []byte{}, nil, 1<<20)
		pairs := [][2]string{}
		for _, kv := range kvs {
			pairs = append(pairs, [2]string{hex.EncodeToString(kv.Key), hex.EncodeToString(kv.Value)})
		}
		// a point read through the same root of the first and the last key found
		good := err == nil
		if good && len(kvs) > 0 {
			for _, kv := range []int{0, len(kvs) - 1} {
				v, gerr := w.mod.GetState(root, kvs[kv].Key)
				if gerr != nil || hex.EncodeToString(v) != pairs[kv][1] {
					good = false
				}
			}
		}
		out = append(out, map[string]any{"h": h, "root": rootID(root), "ok": good, "digest": digestKV(pairs), "n": len(pairs)})
	}
	return out
}

func (w *chainWorld) observe(ev map[string]any) map[string]any {
	cur := dumpTable(w.mod.Store)
	put, del := diffTable(w.prev, cur)
	w.prev = cur
	height := w.bc.BlockHeight()
	ev["put"], ev["del"] = put, del
	ev["height"] = height
	ev["latest"] = rootID(w.mod.CurrentLocalStateRoot())
	ev["size"] = len(cur)
	ev["reads"] = w.reads(height)
	ev["class"] = "committed-only"
	return ev
}

// gcRuns returns the indexes of the MPT garbage collections logged since the last call.
func (w *chainWorld) gcRuns() []int64 {
	var out []int64
	for _, le := range w.logs.TakeAll() {
		if le.Message != "starting MPT garbage collection" {
			continue
		}
		for _, f := range le.Context {
			if f.Key == "index" {
				out = append(out, f.Integer)
			}
		}
	}
	return out
}

func runChain(t *testing.T, res *vh.Result, tr *vh.Trace, i int) {
	r := vh.Rand(1100 + int64(i))
	cc := chainCfg{Mode: []string{"gc", "latest", "gclatest"}[i%3], MTB: uint32(3 + r.Intn(4)), GCP: uint32(1 + r.Intn(3)),
		Blocks: 24 + r.Intn(16)}
	if vh.Thorough() {
		cc.Blocks += 30
	}
	cc.Drop = i%2 == 1
	src := fmt.Sprintf("chain-%d", i)
	core0, logs := observer.New(zap.InfoLevel)
	bc, validator := chain.NewSingleWithOptions(t, &chain.Options{
		Logger:  zap.New(core0),
		SkipRun: true,
		BlockchainConfigHook: func(c *config.Blockchain) {
			switch cc.Mode {
			case "latest":
				c.Ledger.KeepOnlyLatestState = true
			case "gc":
				c.Ledger.RemoveUntraceableBlocks = true
			case "gclatest":
				c.Ledger.RemoveUntraceableBlocks = true
				c.Ledger.KeepOnlyLatestState = true
			}
			c.StateRootInHeader = cc.Drop
			if cc.Mode != "latest" {
				c.MaxTraceableBlocks = cc.MTB
				c.Genesis.MaxTraceableBlocks = cc.MTB
				c.MaxValidUntilBlockIncrement = 2
				c.Ledger.GarbageCollectionPeriod = cc.GCP
			}
		},
	})
	go bc.Run()
	defer bc.Close()
	mod, ok := bc.GetStateModule().(*stateroot.Module)
	if !ok {
		t.Fatalf("GetStateModule is not a *stateroot.Module")
	}
	w := &chainWorld{cfg: cc, bc: bc, mod: mod, logs: logs, prev: map[string]entry{}, roots: map[uint32]util.Uint256{},
		window: cc.MTB + 3*cc.GCP + 3}
	w.e = neotest.NewExecutor(t, bc, validator, validator)
	tr.Emit(map[string]any{"event": "init", "layer": "chain", "mode": cc.Mode, "src": src, "cfg": cc})
	emitBlock := func(h uint32, what any) {
		sr, err := bc.GetStateRoot(h)
		if err != nil {
			t.Fatalf("no state root for %d: %v", h, err)
		}
		w.roots[h] = sr.Root
		ev := w.observe(map[string]any{"event": "block", "h": h, "committed": true, "failed": false, "root": rootID(sr.Root), "txs": what})
		tr.Emit(ev)
		res.Count([]any{"chain", cc.Mode, ev["latest"], ev["size"], len(ev["put"].([]entry)), len(ev["del"].([]string))})
	}
	emitBlock(0, "genesis")
	persist := func() bool {
		var paniced any
		func() {
			defer func() { paniced = recover() }()
			if err := bc.VerifPersist(); err != nil {
				t.Fatalf("persist: %v", err)
			}
		}()
		if paniced != nil {
			res.Violate(map[string]any{"kind": "panic", "op": "persist", "mode": cc.Mode, "layer": "chain", "history": "committed-only"},
				fmt.Sprintf("Go panic escaped Blockchain persist/GC: %v", paniced), map[string]any{"cfg": cc, "src": src})
			res.Inc("panics", 1)
			return false
		}
		gcs := w.gcRuns()
		if len(gcs) == 0 {
			tr.Emit(w.observe(map[string]any{"event": "persist"}))
			return true
		}
		for _, g := range gcs {
			tr.Emit(w.observe(map[string]any{"event": "gc", "g": g}))
			res.Inc("chain_gc_runs", 1)
		}
		return true
	}
	kv, err := kvContract(validator.ScriptHash())
	if err != nil {
		t.Fatal(err)
	}
	w.e.DeployContract(t, kv, nil)
	emitBlock(bc.BlockHeight(), "deploy")
	u := universes[r.Intn(len(universes))]
	vals := []string{"aa", "bb", "cc01"}
	live := map[int]bool{}
	receivers := []util.Uint160{{1, 1}, {2, 2}, {3, 3}, {4, 4}}
	gas := w.e.NativeHash(t, "GasToken")
	for b := 0; b < cc.Blocks; b++ {
		sw := io.NewBufBinWriter()
		what := []any{}
		n := r.Intn(5)
		used := map[int]bool{}
		for j := 0; j < n; j++ {
			k := r.Intn(len(u))
			if used[k] {
				continue
			}
			used[k] = true
			kb, _ := hex.DecodeString(u[k])
			if live[k] && r.Intn(3) == 0 {
				emit.AppCall(sw.BinWriter, kv.Hash, "del", callflag.All, kb)
				delete(live, k)
				what = append(what, []string{u[k], ""})
			} else {
				v := vals[0]
				if r.Intn(2) == 0 {
					v = vals[r.Intn(len(vals))]
				}
				vb, _ := hex.DecodeString(v)
				emit.AppCall(sw.BinWriter, kv.Hash, "put", callflag.All, kb, vb)
				live[k] = true
				what = append(what, []string{u[k], v})
			}
		}
		if r.Intn(4) == 0 {
			// equal balances of several accounts: shared leaves inside the native token's storage
			to := receivers[r.Intn(len(receivers))]
			emit.AppCall(sw.BinWriter, gas, "transfer", callflag.All, validator.ScriptHash(), to, int64(1000), nil)
			emit.Opcodes(sw.BinWriter, opcode.ASSERT)
			what = append(what, []string{"gas", to.StringLE()})
		}
		var txs []*transaction.Transaction
		if sw.Len() > 0 {
			txs = append(txs, w.e.PrepareInvocation(t, sw.Bytes(), []neotest.Signer{validator}))
		}
		var paniced any
		var addErr error
		func() {
			defer func() { paniced = recover() }()
			blk := w.e.NewUnsignedBlock(t, txs...)
			w.e.SignBlock(blk)
			addErr = bc.AddBlock(blk)
		}()
		if paniced != nil {
			res.Violate(map[string]any{"kind": "panic", "op": "block", "mode": cc.Mode, "layer": "chain", "history": "committed-only"},
				fmt.Sprintf("Go panic escaped Blockchain.AddBlock: %v", paniced), map[string]any{"cfg": cc, "src": src, "block": b})
			res.Inc("panics", 1)
			return
		}
		if addErr != nil {
			if strings.Contains(addErr.Error(), "MPT") {
				// "error while trying to apply MPT changes": a node the latest state needs cannot be read
				res.Violate(map[string]any{"kind": "ApplyFailed", "op": "block", "mode": cc.Mode, "layer": "chain", "history": "committed-only"},
					fmt.Sprintf("Blockchain.AddBlock failed on the trie: %v", addErr), map[string]any{"cfg": cc, "src": src, "block": b})
				return
			}
			t.Fatalf("AddBlock: %v", addErr)
		}
		for _, tx := range txs {
			w.e.CheckHalt(t, tx.Hash())
		}
		emitBlock(bc.BlockHeight(), what)
		if r.Intn(5) < 2 && !persist() {
			return
		}
	}
	if cc.Drop {
		if r.Intn(2) == 0 && !persist() {
			return
		}
		if !w.dropBlock(t, res, tr, kv.Hash, u, live) {
			return
		}
	} else if !persist() {
		return
	}
	res.Traces++
	res.Inc("chain_blocks", int(bc.BlockHeight()))
	res.Sample(map[string]any{"src": src, "cfg": cc, "height": bc.BlockHeight(), "final_table_size": len(w.prev)})
}

var _ = rand.Int

// dropBlock makes the chain compute a block that it then refuses to commit: the headers of the block and of its
// successor are added first, and the successor's PrevStateRoot is not the root the block produces
// (storeBlock returns after AddMPTBatch). The table must be what it was.
func (w *chainWorld) dropBlock(t *testing.T, res *vh.Result, tr *vh.Trace, kv util.Uint160, u []string, live map[int]bool) bool {
	sw := io.NewBufBinWriter()
	what := []any{}
	for k := range u { // touch many nodes: rewrite every live key with the most shared value, add the others
		kb, _ := hex.DecodeString(u[k])
		emit.AppCall(sw.BinWriter, kv, "put", callflag.All, kb, []byte{0xaa})
		what = append(what, []string{u[k], "aa"})
	}
	tx := w.e.PrepareInvocation(t, sw.Bytes(), []neotest.Signer{w.e.Validator})
	blk := w.e.NewUnsignedBlock(t, tx)
	w.e.SignBlock(blk)
	next := &block.Header{
		Index: blk.Index + 1, PrevHash: blk.Hash(), Timestamp: blk.Timestamp + 1, NextConsensus: blk.NextConsensus,
		Script:           transaction.Witness{VerificationScript: w.e.Validator.Script()},
		StateRootEnabled: true, PrevStateRoot: util.Uint256{0xde, 0xad},
	}
	next.Script.InvocationScript = w.e.Validator.SignHashable(uint32(w.bc.GetConfig().Magic), next)
	if err := w.bc.AddHeaders(&blk.Header, next); err != nil {
		t.Fatalf("AddHeaders: %v", err)
	}
	var paniced any
	var err error
	func() {
		defer func() { paniced = recover() }()
		err = w.bc.AddBlock(blk)
	}()
	if paniced != nil {
		res.Violate(map[string]any{"kind": "panic", "op": "block", "mode": w.cfg.Mode, "layer": "chain", "history": "after-discarded-block"},
			fmt.Sprintf("Go panic escaped Blockchain.AddBlock: %v", paniced), map[string]any{"cfg": w.cfg})
		res.Inc("panics", 1)
		return false
	}
	if err == nil || !strings.Contains(err.Error(), "PrevStateRoot mismatch") {
		t.Fatalf("the block was expected to be dropped for a state root mismatch, got: %v", err)
	}
	ev := w.observe(map[string]any{"event": "block", "h": blk.Index, "committed": false, "failed": false, "root": "", "txs": what,
		"dropped": err.Error()})
	ev["class"] = "after-discarded-block"
	tr.Emit(ev)
	res.Inc("chain_dropped_blocks", 1)
	res.Count([]any{"chain-drop", w.cfg.Mode, ev["latest"], ev["size"], len(ev["put"].([]entry)), len(ev["del"].([]string))})
	return true
}
