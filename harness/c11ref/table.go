// Package c11ref is the driver of property C11 (trie node storage stays exact under reference counting
// and garbage collection).  It replays block-batch histories (TLC-generated and seeded random) on a real
// stateroot.Module in both reference-counting trie modes and on a full core.Blockchain, dumps the raw
// storage.DataMPT table after every step and records it (decoded independently of pkg/core/mpt) for
// validation by spec/mptref/MPTRefTrace.tla.
package c11ref

import (
	"bytes"
	"encoding/binary"
	"encoding/hex"
	"sort"

	"github.com/nspcc-dev/neo-go/pkg/core/mpt"
	"github.com/nspcc-dev/neo-go/pkg/core/storage"
	"github.com/nspcc-dev/neo-go/pkg/crypto/hash"
	"github.com/nspcc-dev/neo-go/pkg/io"
	"github.com/nspcc-dev/neo-go/pkg/util"
)

// idLen is the number of hash bytes kept in a logged node identifier.
const idLen = 8

func nodeID(h []byte) string { return hex.EncodeToString(h[:idLen]) }

func rootID(h util.Uint256) string {
	if h.Equals(util.Uint256{}) {
		return ""
	}
	return nodeID(h[:])
}

// entry is one stored key of the DataMPT table, decoded by this file (not by pkg/core/mpt).
type entry struct {
	ID     string   `json:"id"`
	Kind   string   `json:"kind"`   // B, E, L or ? (undecodable)
	Kids   []string `json:"kids"`   // child identifiers, one per non-empty child slot (repetitions kept)
	Val    string   `json:"val"`    // hex of a leaf's value
	Count  int64    `json:"count"`  // stored reference count (active entries)
	Active bool     `json:"active"` // the active flag byte
	Since  int64    `json:"since"`  // stored height (inactive entries)
	OK     bool     `json:"ok"`     // decodable: own decoder, the real decoder and the key (= hash of the bytes) agree
	raw    string
}

func readVarUint(b []byte) (uint64, int) {
	if len(b) == 0 {
		return 0, -1
	}
	switch b[0] {
	case 0xfd:
		if len(b) < 3 {
			return 0, -1
		}
		return uint64(binary.LittleEndian.Uint16(b[1:])), 3
	case 0xfe:
		if len(b) < 5 {
			return 0, -1
		}
		return uint64(binary.LittleEndian.Uint32(b[1:])), 5
	case 0xff:
		if len(b) < 9 {
			return 0, -1
		}
		return binary.LittleEndian.Uint64(b[1:]), 9
	}
	return uint64(b[0]), 1
}

// child parses one child reference (0x04 = empty, 0x03 + 32 bytes = hash); returns id ("" = empty), length, ok.
func child(b []byte) (string, int, bool) {
	if len(b) == 0 {
		return "", 0, false
	}
	switch b[0] {
	case 0x04:
		return "", 1, true
	case 0x03:
		if len(b) < 33 {
			return "", 0, false
		}
		return nodeID(b[1:33]), 33, true
	}
	return "", 0, false
}

// decodeNode is an independent decoder of the node wire format described in pkg/core/mpt/doc.go.
func decodeNode(b []byte) (kind string, kids []string, val string, ok bool) {
	kids = []string{}
	if len(b) == 0 {
		return "?", kids, "", false
	}
	body := b[1:]
	switch b[0] {
	case 0x00:
		off := 0
		for i := 0; i < 17; i++ {
			id, n, good := child(body[off:])
			if !good {
				return "?", []string{}, "", false
			}
			off += n
			if id != "" {
				kids = append(kids, id)
			}
		}
		return "B", kids, "", off == len(body)
	case 0x01:
		l, n := readVarUint(body)
		if n < 0 || uint64(len(body)-n) < l {
			return "?", kids, "", false
		}
		off := n + int(l)
		id, m, good := child(body[off:])
		if !good || id == "" {
			return "?", kids, "", false
		}
		return "E", []string{id}, "", off+m == len(body)
	case 0x02:
		l, n := readVarUint(body)
		if n < 0 || uint64(len(body)-n) != l {
			return "?", kids, "", false
		}
		return "L", kids, hex.EncodeToString(body[n:]), true
	}
	return "?", kids, "", false
}

// decodeEntry turns one raw (key, value) pair of the table of a reference-counting mode into an entry.
func decodeEntry(k, v []byte) entry {
	e := entry{ID: nodeID(k[1:]), Kind: "?", Kids: []string{}, raw: string(v)}
	if len(k) != 33 || len(v) < 6 {
		return e
	}
	body, suffix := v[:len(v)-5], v[len(v)-5:]
	e.Active = suffix[0] == 1
	n := int64(binary.LittleEndian.Uint32(suffix[1:]))
	if e.Active {
		e.Count = n
	} else {
		e.Since = n
	}
	e.Kind, e.Kids, e.Val, e.OK = decodeNode(body)
	if suffix[0] > 1 {
		e.OK = false
	}
	// the key must be the hash of the node bytes
	h := hash.DoubleSha256(body)
	if !bytes.Equal(h[:], k[1:]) {
		e.OK = false
	}
	// the real decoder must accept the bytes and reproduce them
	func() {
		defer func() {
			if recover() != nil {
				e.OK = false
			}
		}()
		r := io.NewBinReaderFromBuf(body)
		n := mpt.DecodeNodeWithType(r, 0)
		if r.Err != nil || n == nil || r.Len() != 0 {
			e.OK = false
			return
		}
		if !bytes.Equal(n.Bytes(), body) || !bytes.Equal(n.Hash().BytesBE(), k[1:]) {
			e.OK = false
		}
	}()
	return e
}

type seeker interface {
	Seek(rng storage.SeekRange, f func(k, v []byte) bool)
}

// dumpTable reads the whole DataMPT table through st.
func dumpTable(st seeker) map[string]entry {
	t := map[string]entry{}
	st.Seek(storage.SeekRange{Prefix: []byte{byte(storage.DataMPT)}}, func(k, v []byte) bool {
		e := decodeEntry(bytes.Clone(k), bytes.Clone(v))
		t[e.ID] = e
		return true
	})
	return t
}

// diffTable returns the entries that are new or changed and the identifiers that disappeared.
func diffTable(old, cur map[string]entry) (put []entry, del []string) {
	put, del = []entry{}, []string{}
	for id, e := range cur {
		if o, ok := old[id]; !ok || o.raw != e.raw {
			put = append(put, e)
		}
	}
	for id := range old {
		if _, ok := cur[id]; !ok {
			del = append(del, id)
		}
	}
	sort.Slice(put, func(i, j int) bool { return put[i].ID < put[j].ID })
	sort.Strings(del)
	return put, del
}
