package c11ref

import (
	"encoding/hex"
	"fmt"
	"sort"

	"verifharness/internal/vh"

	"github.com/nspcc-dev/neo-go/pkg/config"
	"github.com/nspcc-dev/neo-go/pkg/core/mpt"
	"github.com/nspcc-dev/neo-go/pkg/core/state"
	"github.com/nspcc-dev/neo-go/pkg/core/stateroot"
	"github.com/nspcc-dev/neo-go/pkg/core/storage"
	"github.com/nspcc-dev/neo-go/pkg/util"
	"go.uber.org/zap"
)

// Change is one entry of a block's change batch: key index K (1-based) gets value index V (0 = delete).
type Change struct {
	K int `json:"k"`
	V int `json:"v"`
}

// Step is one step of a history.
type Step struct {
	Op       string   `json:"op"` // block | gc | persist | reinit
	Ch       []Change `json:"ch"`
	Commit   bool     `json:"commit"`
	Collapse int      `json:"collapse"` // -1 = no Collapse, otherwise the depth
	Persist  bool     `json:"persist"`  // flush the write cache to the backend after the commit
	G        int      `json:"g"`
	Pred     *Pred    `json:"pred,omitempty"` // prediction of the implementation-shaped model (TLC behaviours)
}

// Pred is the model's summary of the table after a step.
type Pred struct {
	Size   int `json:"size"`
	Active int `json:"active"`
	Refs   int `json:"refs"`
}

// History is a block-batch history over a universe of keys and values (hex strings).
type History struct {
	// API selects what is driven: "module" (default) = stateroot.Module (AddMPTBatch: PutBatch + Flush),
	// "trie" = mpt.Trie directly with single Put / Delete calls and Flush (the non-batch restructuring paths).
	API   string   `json:"api,omitempty"`
	Mode  string   `json:"mode"` // latest | gc
	Keys  []string `json:"keys"`
	Vals  []string `json:"vals"`
	Steps []Step   `json:"steps"`
}

const storagePrefix = byte(storage.STStorage)

type modWorld struct {
	hist      *History
	cfg       config.Blockchain
	ps        *storage.MemoryStore
	top       *storage.MemCachedStore
	mod       *stateroot.Module
	trie      *mpt.Trie // API "trie"
	tmode     mpt.TrieMode
	height    uint32
	roots     []util.Uint256 // by height
	prev      map[string]entry
	discarded bool // a computed-but-never-committed block happened earlier in this history
	keys      [][]byte
	vals      [][]byte
}

func newModWorld(h *History) (*modWorld, error) {
	w := &modWorld{hist: h, prev: map[string]entry{}}
	switch h.Mode {
	case "latest":
		w.cfg.Ledger.KeepOnlyLatestState = true
	case "gc":
		w.cfg.Ledger.RemoveUntraceableBlocks = true
	case "gclatest": // both options: the same trie mode as gc
		w.cfg.Ledger.RemoveUntraceableBlocks = true
		w.cfg.Ledger.KeepOnlyLatestState = true
	case "all": // archival node: every state kept, no reference counters (what the stored roots commit to is still judged)
	default:
		return nil, fmt.Errorf("unknown mode %q", h.Mode)
	}
	for _, k := range h.Keys {
		b, err := hex.DecodeString(k)
		if err != nil || len(b) == 0 {
			return nil, fmt.Errorf("bad key %q", k)
		}
		w.keys = append(w.keys, b)
	}
	for _, v := range h.Vals {
		b, err := hex.DecodeString(v)
		if err != nil {
			return nil, fmt.Errorf("bad value %q", v)
		}
		w.vals = append(w.vals, b)
	}
	w.ps = storage.NewMemoryStore()
	w.top = storage.NewMemCachedStore(w.ps)
	w.mod = stateroot.NewModule(w.cfg, nil, zap.NewNop(), w.top)
	if err := w.mod.Init(0); err != nil {
		return nil, err
	}
	w.roots = []util.Uint256{{}}
	w.tmode = mpt.ModeLatest
	if h.Mode != "latest" {
		w.tmode = mpt.ModeGC
	}
	if h.Mode == "all" {
		w.tmode = mpt.ModeAll
	}
	if h.API == "trie" {
		w.trie = mpt.NewTrie(nil, w.tmode, w.top)
	}
	return w, nil
}

func (w *modWorld) layer() string {
	if w.hist.API == "trie" {
		return "trie"
	}
	return "module"
}

func (w *modWorld) latestRoot() util.Uint256 {
	if w.trie != nil {
		return w.trie.StateRoot()
	}
	return w.mod.CurrentLocalStateRoot()
}

// getState / findStates read through a root the way stateroot.Module.GetState / FindStates do.
func (w *modWorld) getState(root util.Uint256, k []byte) ([]byte, error) {
	if w.trie == nil {
		return w.mod.GetState(root, k)
	}
	return mpt.NewTrie(mpt.NewHashNode(root), w.tmode&^mpt.ModeGCFlag, storage.NewMemCachedStore(w.top)).Get(k)
}

func (w *modWorld) findStates(root util.Uint256) ([]storage.KeyValue, error) {
	if w.trie == nil {
		return w.mod.FindStates(root, []byte{}, nil, 1000)
	}
	return mpt.NewTrie(mpt.NewHashNode(root), w.tmode&^mpt.ModeGCFlag, storage.NewMemCachedStore(w.top)).Find([]byte{}, nil, 1000)
}

func (w *modWorld) class() string {
	if w.discarded {
		return "after-discarded-block"
	}
	return "committed-only"
}

// reads probes every height known so far through the public read API of the module.
func (w *modWorld) reads() []any {
	out := []any{}
	for h, root := range w.roots {
		get := [][2]string{}
		for _, k := range w.keys {
			v, err := w.getState(root, k)
			r := "!"
			if err == nil {
				r = hex.EncodeToString(v)
			}
			get = append(get, [2]string{hex.EncodeToString(k), r})
		}
		find := [][2]string{}
		kvs, err := w.findStates(root)
		for _, kv := range kvs {
			find = append(find, [2]string{hex.EncodeToString(kv.Key), hex.EncodeToString(kv.Value)})
		}
		out = append(out, map[string]any{"h": h, "root": rootID(root), "get": get, "findok": err == nil, "find": find})
	}
	return out
}

// observe completes an event with the table delta, the current pointers and the read probes.
func (w *modWorld) observe(ev map[string]any) map[string]any {
	cur := map[string]entry{}
	if w.hist.Mode != "all" { // the archival table has no counters: only the read API is observed there
		cur = dumpTable(w.top)
	}
	put, del := diffTable(w.prev, cur)
	w.prev = cur
	ev["put"], ev["del"] = put, del
	ev["height"] = w.height
	ev["latest"] = rootID(w.latestRoot())
	ev["size"] = len(cur)
	ev["reads"] = w.reads()
	return ev
}

// runModule executes one history on a fresh stateroot.Module. It returns false if the history was abandoned.
func runModule(res *vh.Result, tr *vh.Trace, src string, h *History) bool {
	w, err := newModWorld(h)
	if err != nil {
		res.Inc("histories_skipped", 1)
		return false
	}
	tr.Emit(map[string]any{"event": "init", "layer": w.layer(), "mode": h.Mode, "src": src, "keys": h.Keys, "vals": h.Vals})
	done := []any{}
	for si := range h.Steps {
		st := h.Steps[si]
		done = append(done, st)
		var ev map[string]any
		var paniced any
		func() {
			defer func() {
				if r := recover(); r != nil {
					paniced = r
				}
			}()
			switch st.Op {
			case "block":
				ev = w.block(st)
			case "gc":
				if h.Mode != "all" {
					w.mod.GC(uint32(st.G), w.ps)
				}
				ev = map[string]any{"event": "gc", "g": st.G}
			case "persist":
				if _, err := w.top.Persist(); err != nil {
					panic(err)
				}
				ev = map[string]any{"event": "persist"}
			case "reinit":
				if w.latestRoot().Equals(util.Uint256{}) {
					// Module.Init wraps the stored root into a hash node even when it is the root of the empty
					// trie (which has no node); a real ledger is never empty, so this corner is left out.
					res.Inc("reinit_skipped_empty_root", 1)
					ev = map[string]any{"event": "reinit", "skipped": true}
					break
				}
				if w.trie != nil {
					w.trie = mpt.NewTrie(mpt.NewHashNode(w.latestRoot()), w.tmode, w.top)
					ev = map[string]any{"event": "reinit"}
					break
				}
				m := stateroot.NewModule(w.cfg, nil, zap.NewNop(), w.top)
				if err := m.Init(w.height); err != nil {
					panic(fmt.Sprintf("Init(%d): %v", w.height, err))
				}
				w.mod = m
				ev = map[string]any{"event": "reinit"}
			default:
				panic("unknown op " + st.Op)
			}
			ev = w.observe(ev)
		}()
		if paniced != nil {
			res.Violate(map[string]any{"kind": "panic", "op": st.Op, "mode": h.Mode, "layer": w.layer(), "history": w.class()},
				fmt.Sprintf("Go panic escaped %s during %s: %v", w.layer(), st.Op, paniced),
				map[string]any{"history": h, "steps_done": done, "src": src})
			res.Inc("panics", 1)
			return false
		}
		ev["class"] = w.class()
		tr.Emit(ev)
		if st.Pred != nil {
			obs := Pred{}
			for _, e := range w.prev {
				obs.Size++
				if e.Active {
					obs.Active++
					obs.Refs += int(e.Count)
				}
			}
			if obs != *st.Pred {
				res.AddDrift(map[string]any{"src": src, "step": si + 1, "op": st.Op, "class": w.class(), "predicted": st.Pred, "observed": obs})
				res.Inc("drift", 1)
				if !w.discarded {
					res.Inc("drift_committed_only", 1)
				}
			}
			res.Inc("predictions_compared", 1)
		}
		res.Count([]any{h.Mode, st.Op, st.Commit, ev["latest"], ev["size"], len(ev["put"].([]entry)), len(ev["del"].([]string))})
	}
	res.Traces++
	if res.Traces%100 == 1 {
		res.Sample(map[string]any{"src": src, "mode": h.Mode, "keys": h.Keys, "vals": h.Vals, "steps": h.Steps,
			"final_table_size": len(w.prev), "final_root": rootID(w.mod.CurrentLocalStateRoot())})
	}
	return true
}

// block computes one block the way Blockchain.storeBlock does and commits or drops it.
func (w *modWorld) block(st Step) map[string]any {
	index := w.height + 1
	m := map[string][]byte{}
	ch := [][2]string{}
	for _, c := range st.Ch {
		k := w.keys[c.K-1]
		var v []byte
		vs := ""
		if c.V > 0 {
			v = w.vals[c.V-1]
			vs = hex.EncodeToString(v)
		}
		m[string(append([]byte{storagePrefix}, k...))] = v
		ch = append(ch, [2]string{hex.EncodeToString(k), vs})
	}
	sort.Slice(ch, func(i, j int) bool { return ch[i][0] < ch[j][0] })
	if w.trie != nil {
		return w.trieBlock(st, index, ch)
	}
	cache := storage.NewPrivateMemCachedStore(w.top)
	var (
		t   *mpt.Trie
		sr  *state.MPTRoot
		err error
	)
	t, sr, err = w.mod.AddMPTBatch(index, mpt.MapToMPTBatch(m), cache)
	if err != nil {
		// a storage error while applying changes of a block: the node cannot be read. This is the
		// "node hard-fails on a later block" symptom; reported through the event.
		return map[string]any{"event": "block", "h": index, "committed": false, "failed": true, "err": err.Error(),
			"ch": ch, "collapse": st.Collapse, "root": ""}
	}
	if st.Collapse >= 0 {
		t.Collapse(st.Collapse)
	}
	ev := map[string]any{"event": "block", "h": index, "committed": st.Commit, "failed": false, "ch": ch,
		"collapse": st.Collapse, "root": rootID(sr.Root), "persist": st.Commit && st.Persist}
	if !st.Commit {
		w.discarded = true
		return ev
	}
	w.top.PersistPrivate(cache)
	t.Store = w.top
	w.mod.UpdateCurrentLocal(t, sr)
	w.height = index
	w.roots = append(w.roots, sr.Root)
	if st.Persist {
		if _, err := w.top.Persist(); err != nil {
			panic(err)
		}
	}
	return ev
}

// trieBlock applies the changes of one block with single Put / Delete calls on the trie (in the order of
// the batch) and flushes it, the way a user of mpt.Trie without batches does.
func (w *modWorld) trieBlock(st Step, index uint32, ch [][2]string) map[string]any {
	for _, c := range st.Ch {
		var err error
		if c.V > 0 {
			err = w.trie.Put(w.keys[c.K-1], w.vals[c.V-1])
		} else {
			err = w.trie.Delete(w.keys[c.K-1])
		}
		if err != nil {
			return map[string]any{"event": "block", "h": index, "committed": false, "failed": true, "err": err.Error(),
				"ch": ch, "collapse": st.Collapse, "root": ""}
		}
	}
	w.trie.Flush(index)
	if st.Collapse >= 0 {
		w.trie.Collapse(st.Collapse)
	}
	root := w.trie.StateRoot()
	w.height = index
	w.roots = append(w.roots, root)
	if st.Persist {
		if _, err := w.top.Persist(); err != nil {
			panic(err)
		}
	}
	return map[string]any{"event": "block", "h": index, "committed": true, "failed": false, "ch": ch,
		"collapse": st.Collapse, "root": rootID(root), "persist": st.Persist}
}
