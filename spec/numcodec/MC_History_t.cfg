\* every sequence of up to 3 calls over precisions 8, 15, 16, 17, 18, 21: the memo is never observable; Refines = the machine is a behaviour of CodecHistory with memo = <<>>
SPECIFICATION Spec
CONSTANTS
  Last = 16
  Dev = {}
  Calls <- MCCalls
  MaxCalls = 3
INVARIANTS AnswerIsPure TablePristine
PROPERTY Refines
CHECK_DEADLOCK FALSE
