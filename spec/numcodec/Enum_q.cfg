\* quick: every precision 0..20 and 22, 25, 30 for values; strings at 10 precisions; both sizes
SPECIFICATION Spec
CONSTANTS
  Precs = {0,1,2,3,4,5,6,7,8,9,10,11,12,13,14,15,16,17,18,19,20,22,25,30}
  SPrecs = {0,1,2,8,15,16,17,18,20,30}
  Sizes = {20, 32}
  Kinds = {"val", "str", "f8v", "f8s", "uint", "ord", "udec", "b58"}
  Last = 16
  Dev = {}
  UDev = "none"
INVARIANTS ValOK StrOK UintOK OrdOK B58OK Emit
CHECK_DEADLOCK FALSE
