-------------------------------- MODULE Base58 --------------------------------
(***************************************************************************)
(* C18, number codecs: addresses and Base58Check strings (pkg/encoding/    *)
(* address, pkg/encoding/base58) "decode back to exactly what was          *)
(* encoded".                                                               *)
(*                                                                         *)
(* Base58 is a positional numeral system: a byte string with z leading     *)
(* zero bytes that denotes the number n (big-endian) is spelled z times    *)
(* the digit 0 ('1') followed by the base-58 digits of n, most significant *)
(* first, nothing for n = 0.  Strings are sequences of DIGIT VALUES 0..57  *)
(* (the driver maps them through the Bitcoin alphabet); 58 stands for a    *)
(* character outside the alphabet.                                         *)
(* Base58Check appends a 4-byte checksum (first bytes of SHA-256(SHA-256)) *)
(* before spelling.  SHA-256 is not expressible in TLC in useful time: the *)
(* checksum is an uninterpreted function whose value for the payload at    *)
(* hand is supplied in the recorded event (computed by the driver with     *)
(* crypto/sha256 directly, not through the code under test); everything    *)
(* else - layout version byte | 20 hash bytes | checksum, the positional   *)
(* spelling, what a decoder may answer - is defined here.                  *)
(***************************************************************************)
EXTENDS Integers, Sequences
BI == INSTANCE BigInt

RECURSIVE LeadZeros(_)
LeadZeros(b) == IF b # <<>> /\ b[1] = 0 THEN 1 + LeadZeros(Tail(b)) ELSE 0

RECURSIVE MagOfRec(_, _, _, _)
MagOfRec(b, base, i, acc) == IF i > Len(b) THEN acc
                             ELSE MagOfRec(b, base, i + 1, BI!MAdd(BI!MMulLimb(acc, base), BI!MFromNat(b[i])))
MagOf(b, base) == MagOfRec(b, base, 1, <<>>)            \* big-endian digits in the given base -> magnitude

RECURSIVE DigitsOfRec(_, _, _)
DigitsOfRec(m, base, acc) == IF m = <<>> THEN acc
                             ELSE LET qr == BI!MDivLimb(m, base) IN DigitsOfRec(qr[1], base, <<qr[2]>> \o acc)
DigitsOf(m, base) == DigitsOfRec(m, base, <<>>)         \* magnitude -> big-endian digits, zero is <<>>

ZeroSeq(n) == [i \in 1..n |-> 0]

B58Enc(b) == ZeroSeq(LeadZeros(b)) \o DigitsOf(MagOf(b, 256), 58)
B58Ok(s)  == \A i \in 1..Len(s) : s[i] \in 0..57
B58Dec(s) == ZeroSeq(LeadZeros(s)) \o DigitsOf(MagOf(s, 58), 256)          \* for B58Ok(s)

\* abstract: s spells b
Spells(s, b) == /\ B58Ok(s) /\ LeadZeros(s) = LeadZeros(b)
                /\ MagOf(s, 58) = MagOf(b, 256)

CheckString(data, chk) == B58Enc(data \o chk)
AddressData(prefix, u) == <<prefix>> \o u
=============================================================================
