------------------------------- MODULE Decimal -------------------------------
(***************************************************************************)
(* C18, number codecs: "fixed-point decimals ... decode back to exactly    *)
(* what was encoded" (pkg/encoding/fixedn: decimal.go ToString /           *)
(* FromString for any precision, fixed8.go at precision 8).                *)
(*                                                                         *)
(* A fixed-point decimal is an integer v (BigInt.tla, unbounded) read at a *)
(* precision p >= 0: it denotes v / 10^p.  Strings are SEQUENCES OF        *)
(* CHARACTER CODES (TLC cannot index TLA+ strings): 0..9 the digits, and   *)
(* MINUS, PLUS, DOT, LETTER ('A'), SPACE, USCORE ('_'), EXPO ('e').  The   *)
(* Go driver maps codes to characters and back.                            *)
(*                                                                         *)
(* ABSTRACT (the judge)                                                    *)
(*   Parse(s, p)     the grammar  [+-]? digit+ ( '.' digit{1..p} )?  and   *)
(*                   the integer an accepted string denotes:               *)
(*                   sign * (int * 10^p + frac * 10^(p - |frac|)).         *)
(*   IsCanonicalForm the unique shortest string of a value: no '+', no     *)
(*                   leading zero (but a single 0), no trailing zero in    *)
(*                   the fraction, no '.' without fraction, no "-0".       *)
(*   IsEncOf(s,v,p)  s is THE string of v: canonical form that denotes v.  *)
(* CONSTRUCTIVE                                                            *)
(*   Canon(v, p)     builds the string by division by 10^p and decimal     *)
(*                   expansion; SynCanon(s, p) normalises an accepted      *)
(*                   string purely syntactically.  TLC checks on every     *)
(*                   enumerated case IsEncOf(Canon(v,p), v, p) and         *)
(*                   Canon(Parse(s,p).v, p) = SynCanon(s, p): two          *)
(*                   independent routes to the same string.                *)
(* What the statement does not fix (which non-canonical strings a decoder  *)
(* tolerates or refuses) is not judged: HardReject names the malformations *)
(* the repository's own tests pin down (empty, non-digit, more fraction    *)
(* digits than the precision); everything else is reported as drift.       *)
(***************************************************************************)
EXTENDS Integers, Sequences
BI == INSTANCE BigInt

MINUS  == 10
PLUS   == 11
DOT    == 12
LETTER == 13
SPACE  == 14
USCORE == 15
EXPO   == 16
Codes  == 0..16

IsDigit(c) == c \in 0..9
AllDigits(s) == \A i \in 1..Len(s) : IsDigit(s[i])
AllZero(s) == \A i \in 1..Len(s) : s[i] = 0

Ten == BI!FromInt(10)
Pow10(n) == BI!Pow(Ten, n)              \* THE power of ten: a pure function of n

(* ------------------------------------------------------------- digits <-> magnitudes *)
\* decimal digits of a magnitude (BigInt limbs), most significant first; zero is <<0>>
RECURSIVE MagDigitsRec(_, _)
MagDigitsRec(m, acc) == IF m = <<>> THEN acc
                        ELSE LET qr == BI!MDivLimb(m, 10) IN MagDigitsRec(qr[1], <<qr[2]>> \o acc)
MagDigits(m) == IF m = <<>> THEN <<0>> ELSE MagDigitsRec(m, <<>>)

\* the magnitude a digit string denotes (Horner); the empty string denotes 0
RECURSIVE DigitsMagRec(_, _, _)
DigitsMagRec(ds, i, acc) == IF i > Len(ds) THEN acc
                            ELSE DigitsMagRec(ds, i + 1, BI!MAdd(BI!MMulLimb(acc, 10), BI!MFromNat(ds[i])))
DigitsMag(ds) == DigitsMagRec(ds, 1, <<>>)

RECURSIVE TrimLeft(_)
TrimLeft(s) == IF Len(s) > 1 /\ s[1] = 0 THEN TrimLeft(Tail(s)) ELSE s          \* keeps one digit
RECURSIVE TrimRight(_)
TrimRight(s) == IF s # <<>> /\ s[Len(s)] = 0 THEN TrimRight(SubSeq(s, 1, Len(s) - 1)) ELSE s
Zeros(n) == [i \in 1..n |-> 0]

(* ------------------------------------------------------------- abstract: the grammar and what a string denotes *)
NSign(s) == IF s # <<>> /\ s[1] \in {MINUS, PLUS} THEN 1 ELSE 0
HasDot(s) == \E i \in 1..Len(s) : s[i] = DOT
DotPos(s) == IF HasDot(s) THEN CHOOSE i \in 1..Len(s) : s[i] = DOT /\ \A j \in 1..(i - 1) : s[j] # DOT ELSE 0

Shape(s) == LET k    == NSign(s)
                body == SubSeq(s, k + 1, Len(s))
                d    == DotPos(body)
            IN [neg  |-> k = 1 /\ s[1] = MINUS,
                plus |-> k = 1 /\ s[1] = PLUS,
                dot  |-> d # 0,
                ip   |-> IF d = 0 THEN body ELSE SubSeq(body, 1, d - 1),
                fp   |-> IF d = 0 THEN <<>> ELSE SubSeq(body, d + 1, Len(body))]

InGrammar(s, p) == LET h == Shape(s)
                   IN /\ h.ip # <<>> /\ AllDigits(h.ip)
                      /\ h.dot => (h.fp # <<>> /\ AllDigits(h.fp) /\ Len(h.fp) <= p)

Parse(s, p) ==
    IF ~InGrammar(s, p) THEN [ok |-> FALSE, v |-> BI!Zero]
    ELSE LET h   == Shape(s)
             mag == BI!MAdd(BI!MMul(DigitsMag(h.ip), Pow10(p).mag),
                            BI!MMul(DigitsMag(h.fp), Pow10(p - Len(h.fp)).mag))
         IN [ok |-> TRUE, v |-> BI!Mk(h.neg, mag)]

IsCanonicalForm(s, p) ==
    /\ InGrammar(s, p)
    /\ LET h == Shape(s)
       IN /\ ~h.plus
          /\ Len(h.ip) = 1 \/ h.ip[1] # 0
          /\ h.dot => h.fp[Len(h.fp)] # 0
          /\ h.neg => ~(AllZero(h.ip) /\ AllZero(h.fp))

IsEncOf(s, v, p) == IsCanonicalForm(s, p) /\ Parse(s, p).v = v

(* ------------------------------------------------------------- constructive *)
Canon(v, p) ==
    LET qr == BI!MDivMod(v.mag, Pow10(p).mag)
        fd == MagDigits(qr[2])
        fr == TrimRight(Zeros(p - Len(fd)) \o fd)        \* the fraction on exactly p digits, trailing zeros dropped
    IN (IF v.neg THEN <<MINUS>> ELSE <<>>) \o MagDigits(qr[1])
       \o (IF qr[2] = <<>> THEN <<>> ELSE <<DOT>> \o fr)

\* syntactic normal form of a string of the grammar
SynCanon(s, p) ==
    LET h  == Shape(s)
        ip == TrimLeft(h.ip)
        fp == TrimRight(h.fp)
    IN (IF h.neg /\ ~(AllZero(h.ip) /\ AllZero(h.fp)) THEN <<MINUS>> ELSE <<>>) \o ip
       \o (IF fp = <<>> THEN <<>> ELSE <<DOT>> \o fp)

(* ------------------------------------------------------------- input classes (names used in signatures) *)
\* sign characters other than a leading one occur only directly after the first dot
StrayOnlySignAfterDot(s) ==
    LET k == NSign(s) body == SubSeq(s, k + 1, Len(s)) d == DotPos(body)
    IN /\ d # 0 /\ d < Len(body) /\ body[d + 1] \in {MINUS, PLUS}
       /\ \A i \in 1..Len(body) : i # d /\ i # d + 1 => IsDigit(body[i])
       /\ d > 1 /\ d + 1 < Len(body)

NDots(s) == Len(SelectSeq(s, LAMBDA c : c = DOT))

SClass(s, p) ==
    LET h == Shape(s) IN
    IF s = <<>> THEN "empty"
    ELSE IF Len(s) = 1 /\ NSign(s) = 1 THEN "sign-only"
    ELSE IF StrayOnlySignAfterDot(s) THEN "sign-in-fraction"
    ELSE IF \E i \in (NSign(s) + 1)..Len(s) : ~IsDigit(s[i]) /\ s[i] # DOT THEN "non-digit"
    ELSE IF NDots(s) > 1 THEN "two-dots"
    ELSE IF h.ip = <<>> THEN "no-int-digits"
    ELSE IF h.dot /\ h.fp = <<>> THEN "no-frac-digits"
    ELSE IF Len(h.fp) > p THEN "too-many-frac-digits"
    ELSE IF h.plus THEN "plus-sign"
    ELSE IF h.neg /\ AllZero(h.ip) /\ AllZero(h.fp) THEN "neg-zero"
    ELSE IF h.neg /\ AllZero(h.ip) THEN "neg-zero-int-fraction"
    ELSE IF Len(h.ip) > 1 /\ h.ip[1] = 0 THEN "leading-zeros"
    ELSE IF h.fp # <<>> /\ h.fp[Len(h.fp)] = 0 THEN "trailing-zeros"
    ELSE IF h.dot THEN "canonical-fraction" ELSE "canonical-whole"

\* malformations whose refusal is part of the judged behaviour (pinned by pkg/encoding/fixedn/decimal_test.go)
HardReject == {"empty", "non-digit", "too-many-frac-digits"}
\* refused by the grammar, but a decoder that tolerates them does not break "decodes back to what was encoded"
SoftReject == {"sign-only", "sign-in-fraction", "two-dots", "no-int-digits", "no-frac-digits"}

TwoTo64 == BI!Pow2(64).mag
VClass(v, p) ==
    LET qr == BI!MDivMod(v.mag, Pow10(p).mag) IN
    IF v.mag = <<>> THEN "zero"
    ELSE IF qr[2] # <<>> /\ BI!MDivMod(qr[2], TwoTo64)[2] = <<>> THEN "fraction-multiple-of-2^64"
    ELSE IF BI!MCmp(qr[2], TwoTo64) >= 0 THEN "fraction-beyond-uint64"
    ELSE IF v.neg /\ qr[1] = <<>> THEN "neg-below-one"
    ELSE IF qr[2] = <<>> THEN "whole"
    ELSE IF qr[1] = <<>> THEN "pos-below-one"
    ELSE IF v.neg THEN "neg-fraction" ELSE "pos-fraction"

\* Fixed8 (precision 8, int64): the two ends of the range are classes of their own
F8Class(v) == IF v = BI!Neg(BI!Pow2(63)) THEN "min-int64"
              ELSE IF v = BI!Sub(BI!Pow2(63), BI!FromInt(1)) THEN "max-int64"
              ELSE VClass(v, 8)
=============================================================================
