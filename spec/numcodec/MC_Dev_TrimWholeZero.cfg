\* non-vacuity: the laws of NumCodecEnum must refute the named deviation TrimWholeZero of DecimalImpl
SPECIFICATION Spec
CONSTANTS
  Precs = {1, 8, 20}
  SPrecs = {1, 8}
  Sizes = {20}
  Kinds = {"val", "str"}
  Last = 16
  Dev = {"TrimWholeZero"}
  UDev = "none"
INVARIANTS ValOK StrOK
CHECK_DEADLOCK FALSE
