---------------------------- MODULE CodecHistorySim ----------------------------
(* Generator of call sequences.  The history variable holds the calls only (cheap successors); when a history is
   complete it is printed with the PURE answer of every call (Decimal.tla) - the answer the real package must give
   at that position whatever came before - and with the answer of the implementation-shaped model run on the table
   the earlier calls of the history left behind (drift detector).
   Used in two ways: tlc -simulate over SimCalls (long mixed histories), and exhaustive search over OrderCalls with
   Depth = 2 / 3 (EVERY order of precisions below / at / above the table boundary). *)
EXTENDS CodecHistoryMC, TLC, Json

CONSTANTS Universe, Depth
VARIABLES hist,    \* the calls made so far
          pp,      \* the precision picked for the next call, -1: none yet (two small choices instead of one large one)
          fin      \* the history is complete (a step of its own, so that a simulation prints ONE history per run)

UPrecs == IF Universe = "order" THEN OrderPrecs ELSE SimPrecs
UCalls == [p \in UPrecs |-> IF Universe = "order" THEN OrderCallsAt(p) ELSE CallsAt({p})]

\* the variables of the machine itself stay at their initial values: the answers are computed when a history is printed
SimInit == Init /\ hist = <<>> /\ pp = -1 /\ fin = FALSE
SimNext == /\ UNCHANGED vars
           /\ \/ Len(hist) < Depth /\ pp = -1 /\ pp' \in UPrecs /\ UNCHANGED <<hist, fin>>
              \/ Len(hist) < Depth /\ pp # -1 /\ pp' = -1 /\ fin' = FALSE /\ \E c \in UCalls[pp] : hist' = Append(hist, c)
              \/ Len(hist) = Depth /\ ~fin /\ fin' = TRUE /\ UNCHANGED <<hist, pp>>
SimSpec == SimInit /\ [][SimNext]_<<vars, hist, pp, fin>>

RECURSIVE Answers(_, _, _)
Answers(h, i, t) == IF i > Len(h) THEN <<>>
                    ELSE LET c == h[i]  r == Run(c, t)  e == Abs!Pure(c)
                         IN << [op |-> c.op, p |-> c.p,
                                neg |-> IF c.op = "tostring" THEN c.v.neg ELSE FALSE,
                                mag |-> IF c.op = "tostring" THEN c.v.mag ELSE <<>>,
                                s |-> IF c.op = "fromstring" THEN c.s ELSE <<>>,
                                ok |-> e.ok, str |-> e.str, rneg |-> e.v.neg, rmag |-> e.v.mag,
                                cls |-> IF c.op = "tostring" THEN VClass(c.v, c.p) ELSE SClass(c.s, c.p),
                                impl |-> r.res = e] >> \o Answers(h, i + 1, r.tab)

Emit == ~fin \/ PrintT(<<"@@HIST@@", ToJson(Answers(hist, 1, Pristine))>>)
=============================================================================
