\* non-vacuity: the laws of NumCodecEnum must refute the named deviation FracUint64 of DecimalImpl
SPECIFICATION Spec
CONSTANTS
  Precs = {1, 8, 20}
  SPrecs = {1, 8}
  Sizes = {20}
  Kinds = {"val", "str"}
  Last = 16
  Dev = {"FracUint64"}
  UDev = "none"
INVARIANTS ValOK StrOK
CHECK_DEADLOCK FALSE
