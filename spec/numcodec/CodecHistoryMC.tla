---------------------------- MODULE CodecHistoryMC ----------------------------
(* Call universes for the exhaustive runs of CodecHistoryImpl and for the generators (CodecHistorySim).
   Inputs are chosen where the pure function itself is plain (|v| >= 1 or v >= 0, fractions below 2^64), so that a
   failing history isolates HISTORY DEPENDENCE; the single-call corner cases are the business of NumCodecEnum. *)
EXTENDS CodecHistoryImpl

I(k) == BI!FromInt(k)
Times(k, x) == BI!Mul(I(k), x)

\* values at precision p: 1.0..01, 7, -12.0..01, 1.5 and -1.5 (1 <= p <= 19), 1.0..05 and -1.0..05 (p >= 20),
\* 0.0..012345 (p >= 5)
ValsAt(p) == {BI!Add(Pow10(p), I(1)), Times(7, Pow10(p)), BI!Neg(BI!Add(Times(12, Pow10(p)), I(1)))}
             \cup (IF p >= 1 /\ p <= 19 THEN {Times(15, Pow10(p - 1)), BI!Neg(Times(15, Pow10(p - 1)))} ELSE {})
             \cup (IF p >= 20 THEN {BI!Add(Pow10(p), I(5)), BI!Neg(BI!Add(Pow10(p), I(5)))} ELSE {})
             \cup (IF p >= 5 THEN {I(12345)} ELSE {})
ToStr(p) == {[op |-> "tostring", v |-> v, p |-> p] : v \in ValsAt(p)}
\* the canonical strings of the same values, and short fractions (the second power asked for is 10^(p-1), 10^(p-2))
FromStr(p) == {[op |-> "fromstring", s |-> Canon(v, p), p |-> p] : v \in ValsAt(p)}
              \cup (IF p >= 2 THEN {[op |-> "fromstring", s |-> <<3, DOT, 2, 5>>, p |-> p]} ELSE {})
CallsAt(P) == UNION {ToStr(p) \cup FromStr(p) : p \in P}

MCCalls == CallsAt({8, 15, 16, 17, 18, 21})
SimPrecs == {0, 1, 8, 12, 15, 16, 17, 18, 19, 20, 22, 25, 30}
\* one ToString and two FromString per precision class: below / at / just above / far above the table boundary
OrderPrecs == {8, 16, 17, 19}
OrderCallsAt(p) == {[op |-> "tostring", v |-> BI!Add(Pow10(p), I(1)), p |-> p],
                    [op |-> "fromstring", s |-> <<3, DOT, 2, 5>>, p |-> p],
                    [op |-> "fromstring", s |-> Canon(BI!Neg(BI!Add(Times(12, Pow10(p)), I(1))), p), p |-> p]}
=============================================================================
