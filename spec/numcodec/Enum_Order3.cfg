\* exhaustive: every ordered triple of the 12 calls over precisions 8 / 16 / 17 / 19
SPECIFICATION SimSpec
CONSTANTS
  Last = 16
  Dev = {}
  Calls <- MCCalls
  MaxCalls = 3
  Universe = "order"
  Depth = 3
INVARIANT Emit
CHECK_DEADLOCK FALSE
