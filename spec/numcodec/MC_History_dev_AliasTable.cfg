\* non-vacuity: the in-place computation of on-demand powers must be refuted
SPECIFICATION Spec
CONSTANTS
  Last = 16
  Dev = {"AliasTable"}
  Calls <- MCCalls
  MaxCalls = 3
INVARIANTS AnswerIsPure TablePristine
PROPERTY Refines
CHECK_DEADLOCK FALSE
