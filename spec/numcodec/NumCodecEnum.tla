---------------------------- MODULE NumCodecEnum ----------------------------
(***************************************************************************)
(* Enumeration of the number-codec cases (DESIGN 3.4(c): the specification *)
(* is the oracle).  One state per case; every state is checked against the *)
(* laws that tie the constructive definitions to the abstract ones and the *)
(* implementation-shaped model to both, and printed as an (input,          *)
(* specified output) record for harness/c18codec.                          *)
(*                                                                         *)
(* Groups (a root state per group, its successors are the cases, so that   *)
(* TLC workers share the groups):                                          *)
(*  val p   value x precision: zero, +-1, powers of ten 10^14..10^21 +-1   *)
(*          (the code's table of powers ends at 10^16), 2^63, 2^64, 2^127, *)
(*          2^255, 2^256 +-1, multiples of 2^64, multiples of 10^p, and    *)
(*          for every fraction length L = 1..p the fractions 0..01, 9..9,   *)
(*          10..01 under integer parts 0 and 12, all with both signs       *)
(*  str p   sign x integer digits x fraction shape, and every malformation *)
(*          (foreign character / second dot / sign at every position)      *)
(*  f8      Fixed8 range edges (values and strings around +-2^63)          *)
(*  uint n / ord n / udec n   Uint160 (n=20) and Uint256 (n=32): byte      *)
(*          patterns, ordered pairs that an LE comparison would order the  *)
(*          other way, malformed inputs of the four decoders               *)
(*  b58     Base58 spelling laws on byte strings with leading zeros        *)
(***************************************************************************)
EXTENDS DecimalImpl, TLC, Json, FiniteSets
U == INSTANCE UintN
B58 == INSTANCE Base58

CONSTANTS Precs,      \* precisions of the val groups
          SPrecs,     \* precisions of the str groups
          Sizes,      \* {20, 32} or a subset
          Kinds,      \* subset of {"val", "str", "f8v", "f8s", "uint", "ord", "udec", "b58"}
          UDev        \* "none" | "LENoReverse" | "LexFromLast"

I(n) == BI!FromInt(n)
Around(x) == {BI!Add(x, I(d)) : d \in {-1, 0, 1}}
WithNeg(S) == S \cup {BI!Neg(v) : v \in S}
Times(k, x) == BI!Mul(I(k), x)

(* ------------------------------------------------------------------ decimal values *)
BaseVals == WithNeg({I(0), I(1), I(9), I(10), I(12345)}
                    \cup UNION {Around(Pow10(k)) : k \in 14..21}
                    \cup UNION {Around(BI!Pow2(k)) : k \in {63, 64, 127, 255, 256}}
                    \cup {Times(3, BI!Pow2(64)), Times(5, BI!Pow2(64))})

FPat(L, pat) == CASE pat = "one"   -> I(1)
                  [] pat = "nines" -> BI!Sub(Pow10(L), I(1))
                  [] pat = "ends"  -> IF L >= 2 THEN BI!Add(Pow10(L - 1), I(1)) ELSE I(5)
FracVal(ip, L, pat, p) == BI!Add(Times(ip, Pow10(p)), BI!Mul(FPat(L, pat), Pow10(p - L)))

PVals(p) == WithNeg(Around(Pow10(p))
                    \cup {Times(7, Pow10(p)), Pow10(p + 1), Times(123, Pow10(p)), Times(120, Pow10(p)),
                          BI!Add(Times(7, Pow10(p)), BI!Pow2(64)), BI!Add(Times(7, Pow10(p)), Times(5, BI!Pow2(64)))}
                    \cup {FracVal(ip, L, pat, p) : ip \in {0, 12}, L \in 1..p, pat \in {"one", "nines", "ends"}})

ValCases(p) == {[v |-> v, p |-> p] : v \in BaseVals \cup PVals(p)}

(* ------------------------------------------------------------------ decimal strings *)
Big20 == <<1, 8, 4, 4, 6, 7, 4, 4, 0, 7, 3, 7, 0, 9, 5, 5, 1, 6, 1, 6>>           \* 2^64
Signs == {<<>>, <<MINUS>>, <<PLUS>>}
Ints == {<<0>>, <<7>>, <<0, 0, 7>>, <<1, 2, 0>>, <<0, 0>>, <<>>, Big20}
FracLens(p) == {L \in {1, 2, p - 1, p, p + 1, p + 2} : L >= 1}
FracPats(L) == {Zeros(L - 1) \o <<1>>, <<5>> \o Zeros(L - 1), [i \in 1..L |-> 9], Zeros(L)}
Fracs(p) == {<<>>, <<DOT>>} \cup {<<DOT>> \o f : f \in UNION {FracPats(L) : L \in FracLens(p)}}
Shaped(p) == {sg \o ip \o fr : sg \in Signs, ip \in Ints, fr \in Fracs(p)}

Ins(s, i, c) == SubSeq(s, 1, i) \o <<c>> \o SubSeq(s, i + 1, Len(s))
BaseStr(p) == IF p = 0 THEN <<1, 2>> ELSE IF p = 1 THEN <<1, 2, DOT, 3>> ELSE <<1, 2, DOT, 3, 4>>
Foreign == {LETTER, SPACE, USCORE, EXPO, MINUS, PLUS, DOT}
Malformed(p) == LET b == BaseStr(p) IN
    {Ins(b, i, c) : i \in 0..Len(b), c \in Foreign}
    \cup {Ins(<<MINUS>> \o b, i, c) : i \in 0..(Len(b) + 1), c \in Foreign}
    \cup {<<MINUS, DOT>>, <<PLUS, DOT>>, <<DOT, DOT>>, <<MINUS, MINUS, 1>>, <<PLUS, MINUS, 1>>, <<0, LETTER, 1, 0>>}

StrCases(p) == {[s |-> s, p |-> p] : s \in Shaped(p) \cup Malformed(p)}

(* ------------------------------------------------------------------ Fixed8 range edges *)
Max64 == BI!Sub(BI!Pow2(63), I(1))
Min64 == BI!Neg(BI!Pow2(63))
F8Whole == BI!Mul(BI!Quo(Max64, Pow10(8)), Pow10(8))                               \* largest whole number
F8Cases == {[v |-> v, p |-> 8] : v \in {Max64, BI!Sub(Max64, I(1)), Min64, BI!Add(Min64, I(1)), F8Whole, BI!Neg(F8Whole),
                                       BI!Add(F8Whole, I(1)), BI!Neg(BI!Add(F8Whole, I(1)))}}
\* strings just inside and outside the int64 range (Canon of the neighbours), and far outside
F8Strs == {[s |-> Canon(v, 8), p |-> 8] : v \in {Max64, Min64, BI!Add(Max64, I(1)), BI!Sub(Min64, I(1)), BI!Pow2(64),
                                                 BI!Neg(BI!Pow2(64)), BI!Add(BI!Pow2(64), I(5)), Pow10(30)}}

(* ------------------------------------------------------------------ UintN *)
Const(n, x) == [i \in 1..n |-> x]
OneAt(n, k, x, bg) == [i \in 1..n |-> IF i = k THEN x ELSE bg]
UPatterns(n) == {Const(n, 0), Const(n, 255), [i \in 1..n |-> i - 1], [i \in 1..n |-> 255 - i],
                 [i \in 1..n |-> IF i <= n + 1 - i THEN i ELSE n + 1 - i],
                 [i \in 1..n |-> IF i % 2 = 1 THEN 171 ELSE 205], [i \in 1..n |-> (i * 37) % 256]}
                \cup {OneAt(n, k, x, 0) : k \in 1..n, x \in {1, 128, 255}}
                \cup {OneAt(n, k, 0, 255) : k \in {1, 2, n - 1, n}}
UintCases(n) == {[n |-> n, u |-> u] : u \in UPatterns(n)}

\* a < b numerically whatever follows position k, but the bytes after k say the opposite
OrdPairs(n) == {<<[i \in 1..n |-> IF i < k THEN 7 ELSE IF i = k THEN 1 ELSE 255],
                  [i \in 1..n |-> IF i < k THEN 7 ELSE IF i = k THEN 2 ELSE 0]>> : k \in 1..n}
               \cup {<<Const(n, 0), Const(n, 0)>>, <<Const(n, 255), Const(n, 255)>>, <<Const(n, 0), OneAt(n, n, 1, 0)>>,
                     <<OneAt(n, 1, 128, 0), OneAt(n, 1, 127, 255)>>}
OrdCases(n) == {[n |-> n, a |-> pr[1], b |-> pr[2]] : pr \in OrdPairs(n)}
               \cup {[n |-> n, a |-> pr[2], b |-> pr[1]] : pr \in OrdPairs(n)}

GoodHex(n) == U!Hex([i \in 1..n |-> (i * 37) % 256])
UpperHex(n) == [i \in 1..(2 * n) |-> IF GoodHex(n)[i] >= 10 THEN GoodHex(n)[i] + 6 ELSE GoodHex(n)[i]]
BadStrings(n) == {<<>>, SubSeq(GoodHex(n), 1, 2 * n - 1), SubSeq(GoodHex(n), 1, 2 * n - 2), GoodHex(n) \o <<1>>,
                  GoodHex(n) \o <<1, 2>>, U!ZeroX \o GoodHex(n), U!ZeroX \o SubSeq(GoodHex(n), 1, 2 * n - 2),
                  [GoodHex(n) EXCEPT ![1] = 22], [GoodHex(n) EXCEPT ![2 * n] = 22], [GoodHex(n) EXCEPT ![n] = 23],
                  UpperHex(n), GoodHex(n)}
BadBytes(n) == {<<>>, [i \in 1..(n - 1) |-> i], [i \in 1..(n + 1) |-> i], [i \in 1..(2 * n) |-> i], [i \in 1..n |-> i]}
UdecCases(n) == {[n |-> n, form |-> f, inp |-> h] : f \in {"sbe", "sle", "text"}, h \in BadStrings(n)}
                \cup {[n |-> n, form |-> f, inp |-> b] : f \in {"bbe", "ble"}, b \in BadBytes(n)}

B58Cases == {[b |-> b] : b \in {<<>>, <<0>>, <<0, 0>>, <<1>>, <<57>>, <<58>>, <<255>>, <<0, 255>>, <<0, 0, 1, 0>>, <<255, 255>>,
                                 <<53>> \o Const(20, 0) \o <<1, 2, 3, 4>>, <<53>> \o Const(20, 255) \o <<0, 0, 0, 0>>,
                                 <<0>> \o Const(20, 0) \o <<9, 9, 9, 9>>, <<23>> \o [i \in 1..24 |-> i * 9]}}

(* ------------------------------------------------------------------ the state space *)
VARIABLES kind, arg
vars == <<kind, arg>>

Groups == {[g |-> "val", p |-> p] : p \in (IF "val" \in Kinds THEN Precs ELSE {})}
          \cup {[g |-> "str", p |-> p] : p \in (IF "str" \in Kinds THEN SPrecs ELSE {})}
          \cup {[g |-> k, p |-> 8] : k \in Kinds \cap {"f8v", "f8s", "b58"}}
          \cup {[g |-> k, p |-> n] : k \in Kinds \cap {"uint", "ord", "udec"}, n \in Sizes}

Init == kind = "root" /\ arg \in Groups
Next == /\ kind = "root"
        /\ kind' = arg.g
        /\ arg' \in CASE arg.g = "val"  -> ValCases(arg.p)
                      [] arg.g = "str"  -> StrCases(arg.p)
                      [] arg.g = "f8v"  -> F8Cases
                      [] arg.g = "f8s"  -> F8Strs
                      [] arg.g = "uint" -> UintCases(arg.p)
                      [] arg.g = "ord"  -> OrdCases(arg.p)
                      [] arg.g = "udec" -> UdecCases(arg.p)
                      [] arg.g = "b58"  -> B58Cases
Spec == Init /\ [][Next]_vars

IsVal == kind \in {"val", "f8v"}
IsStr == kind \in {"str", "f8s"}

(* ------------------------------------------------------------------ laws *)
ValOK == IsVal => /\ IsEncOf(Canon(arg.v, arg.p), arg.v, arg.p)
                  /\ ImplToString(arg.v, arg.p) = Canon(arg.v, arg.p)

Accepting == {"plus-sign", "neg-zero", "neg-zero-int-fraction", "leading-zeros", "trailing-zeros",
              "canonical-fraction", "canonical-whole"}
StrOK == IsStr =>
    LET s == arg.s  p == arg.p  r == Parse(s, p)  c == SClass(s, p)  im == ImplFromString(s, p) IN
    /\ r.ok <=> c \in Accepting
    /\ ~r.ok <=> c \in HardReject \cup SoftReject
    /\ c \in {"canonical-fraction", "canonical-whole"} => IsCanonicalForm(s, p)
    /\ IsCanonicalForm(s, p) => c \in {"canonical-fraction", "canonical-whole", "neg-zero-int-fraction"}
    /\ r.ok => /\ Canon(r.v, p) = SynCanon(s, p)
               /\ IsEncOf(SynCanon(s, p), r.v, p)
               /\ im = r
    /\ c \in HardReject => ~im.ok
    /\ IsCanonicalForm(s, p) => Canon(r.v, p) = s

DecLE(b, n) == IF UDev = "LENoReverse" /\ Len(b) = n THEN [ok |-> TRUE, u |-> b] ELSE U!DecodeBytesLE(b, n)
CmpD(a, b) == IF UDev = "LexFromLast" THEN U!LexCmp(U!Rev(a), U!Rev(b)) ELSE U!LexCmp(a, b)

UintOK == kind = "uint" =>
    LET u == arg.u  n == arg.n IN
    /\ U!IsBE(U!BytesBE(u), u) /\ U!IsLE(U!BytesLE(u), u)
    /\ U!DecodeBytesBE(U!BytesBE(u), n) = [ok |-> TRUE, u |-> u]
    /\ DecLE(U!BytesLE(u), n) = [ok |-> TRUE, u |-> u]
    /\ U!DecodeStringBE(U!StringBE(u), n) = [ok |-> TRUE, u |-> u]
    /\ U!DecodeStringLE(U!StringLE(u), n) = [ok |-> TRUE, u |-> u]
    /\ U!DecodeText(U!TextForm(u), n) = [ok |-> TRUE, u |-> u]
    /\ U!DecodeText(U!StringLE(u), n) = [ok |-> TRUE, u |-> u]
    /\ U!Rev(U!Rev(u)) = u
    /\ U!UnHex(U!Hex(u)) = [ok |-> TRUE, u |-> u]
OrdOK == kind = "ord" => /\ CmpD(arg.a, arg.b) = U!NumCmp(arg.a, arg.b)
                         /\ U!NumLess(arg.a, arg.b) <=> CmpD(arg.a, arg.b) < 0
UdecOK == kind = "udec" => TRUE
B58OK == kind = "b58" => /\ B58!Spells(B58!B58Enc(arg.b), arg.b)
                         /\ B58!B58Dec(B58!B58Enc(arg.b)) = arg.b

Udec(f, inp, n) == CASE f = "sbe"  -> U!DecodeStringBE(inp, n)
                     [] f = "sle"  -> U!DecodeStringLE(inp, n)
                     [] f = "text" -> U!DecodeText(inp, n)
                     [] f = "bbe"  -> U!DecodeBytesBE(inp, n)
                     [] f = "ble"  -> U!DecodeBytesLE(inp, n)

(* ------------------------------------------------------------------ printing *)
Out(r) == PrintT(<<"@@CASE@@", ToJson(r)>>)
Emit ==
    CASE IsVal -> Out([k |-> "val", f8 |-> kind = "f8v", p |-> arg.p, neg |-> arg.v.neg, mag |-> arg.v.mag,
                       cls |-> VClass(arg.v, arg.p), scls |-> SClass(Canon(arg.v, arg.p), arg.p), f8cls |-> F8Class(arg.v),
                       i64 |-> BI!FitsBits(arg.v, 64), out |-> Canon(arg.v, arg.p)])
      [] IsStr -> LET r == Parse(arg.s, arg.p)  im == ImplFromString(arg.s, arg.p) IN
                  Out([k |-> "str", f8 |-> kind = "f8s", p |-> arg.p, s |-> arg.s, cls |-> SClass(arg.s, arg.p),
                       ok |-> r.ok, neg |-> r.v.neg, mag |-> r.v.mag, i64 |-> BI!FitsBits(r.v, 64),
                       vcls |-> IF r.ok THEN VClass(r.v, arg.p) ELSE "", f8cls |-> IF r.ok THEN F8Class(r.v) ELSE "",
                       canon |-> IF r.ok THEN SynCanon(arg.s, arg.p) ELSE <<>>,
                       iok |-> im.ok, ineg |-> im.v.neg, imag |-> im.v.mag])
      [] kind = "uint" -> Out([k |-> "uint", n |-> arg.n, u |-> arg.u, le |-> U!BytesLE(arg.u), sbe |-> U!StringBE(arg.u),
                               sle |-> U!StringLE(arg.u), text |-> U!TextForm(arg.u)])
      [] kind = "ord"  -> Out([k |-> "ord", n |-> arg.n, a |-> arg.a, b |-> arg.b, cmp |-> U!NumCmp(arg.a, arg.b)])
      [] kind = "udec" -> LET r == Udec(arg.form, arg.inp, arg.n) IN
                          Out([k |-> "udec", n |-> arg.n, form |-> arg.form, inp |-> arg.inp, ok |-> r.ok, u |-> r.u])
      [] OTHER -> TRUE
=============================================================================
