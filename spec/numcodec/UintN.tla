-------------------------------- MODULE UintN --------------------------------
(***************************************************************************)
(* C18, number codecs: "160/256-bit integers ... decode back to exactly    *)
(* what was encoded" (pkg/util Uint160 / Uint256).                         *)
(*                                                                         *)
(* A UintN value is an unsigned integer below 2^(8N) (N = 20, 32).  The    *)
(* code stores it as its BIG-ENDIAN byte string, and so does this module:  *)
(* u[1] is the most significant byte, Num(u) the integer (BigInt).         *)
(* ABSTRACT: the two byte views are defined by what they DENOTE            *)
(*   IsBE(b, u)  b read with the most significant byte first is Num(u)     *)
(*   IsLE(b, u)  b read with the least significant byte first is Num(u)    *)
(* the string views are the lower-case hex spellings of those byte views,  *)
(* and "less" is the order of the integers.                                *)
(* CONSTRUCTIVE: BytesBE = the sequence itself, BytesLE = Rev, Hex, the    *)
(* decoders, lexicographic comparison; the enumeration checks that they    *)
(* satisfy the abstract definitions on every printed case.                 *)
(* Hex character codes: 0..15 = '0'..'9','a'..'f'; 16..21 = 'A'..'F';      *)
(* 22 = 'g' (not a hex digit); 23 = 'x'.                                   *)
(***************************************************************************)
EXTENDS Integers, Sequences
BI == INSTANCE BigInt

Byte == 0..255
IsBytes(b) == \A i \in 1..Len(b) : b[i] \in Byte
Rev(b) == [i \in 1..Len(b) |-> b[Len(b) + 1 - i]]

\* the natural number a byte string denotes, most / least significant byte first (magnitudes of BigInt)
RECURSIVE NumBERec(_, _, _)
NumBERec(b, i, acc) == IF i > Len(b) THEN acc
                       ELSE NumBERec(b, i + 1, BI!MAdd(BI!MMulLimb(acc, 256), BI!MFromNat(b[i])))
NumBE(b) == BI!Mk(FALSE, NumBERec(b, 1, <<>>))
RECURSIVE NumLERec(_, _, _)
NumLERec(b, i, acc) == IF i = 0 THEN acc
                       ELSE NumLERec(b, i - 1, BI!MAdd(BI!MMulLimb(acc, 256), BI!MFromNat(b[i])))
NumLE(b) == BI!Mk(FALSE, NumLERec(b, Len(b), <<>>))

(* ---------------------------------------------------------------- abstract *)
Num(u) == NumBE(u)
IsBE(b, u) == Len(b) = Len(u) /\ NumBE(b) = Num(u)
IsLE(b, u) == Len(b) = Len(u) /\ NumLE(b) = Num(u)
NumLess(a, b) == BI!Lt(Num(a), Num(b))
NumCmp(a, b) == BI!Cmp(Num(a), Num(b))

(* ---------------------------------------------------------------- constructive *)
BytesBE(u) == u
BytesLE(u) == Rev(u)

Hex(b) == [i \in 1..(2 * Len(b)) |-> IF i % 2 = 1 THEN b[(i + 1) \div 2] \div 16 ELSE b[i \div 2] % 16]
StringBE(u) == Hex(BytesBE(u))
StringLE(u) == Hex(BytesLE(u))

NibVal(c) == IF c \in 0..15 THEN c ELSE IF c \in 16..21 THEN c - 6 ELSE -1
NoBytes == [ok |-> FALSE, u |-> <<>>]
UnHex(h) == IF Len(h) % 2 = 0 /\ \A i \in 1..Len(h) : NibVal(h[i]) >= 0
            THEN [ok |-> TRUE, u |-> [i \in 1..(Len(h) \div 2) |-> NibVal(h[2 * i - 1]) * 16 + NibVal(h[2 * i])]]
            ELSE NoBytes

DecodeBytesBE(b, n) == IF Len(b) = n THEN [ok |-> TRUE, u |-> b] ELSE NoBytes
DecodeBytesLE(b, n) == IF Len(b) = n THEN [ok |-> TRUE, u |-> Rev(b)] ELSE NoBytes
DecodeStringBE(h, n) == IF Len(h) # 2 * n THEN NoBytes
                        ELSE LET x == UnHex(h) IN IF x.ok THEN DecodeBytesBE(x.u, n) ELSE NoBytes
DecodeStringLE(h, n) == IF Len(h) # 2 * n THEN NoBytes
                        ELSE LET x == UnHex(h) IN IF x.ok THEN DecodeBytesLE(x.u, n) ELSE NoBytes

\* JSON / YAML text form: "0x" followed by the little-endian hex string; the prefix is optional when reading
ZeroX == <<0, 23>>
TextForm(u) == ZeroX \o StringLE(u)
DecodeText(h, n) == IF Len(h) >= 2 /\ SubSeq(h, 1, 2) = ZeroX THEN DecodeStringLE(SubSeq(h, 3, Len(h)), n)
                    ELSE DecodeStringLE(h, n)

RECURSIVE LexCmpFrom(_, _, _)
LexCmpFrom(a, b, i) == IF i > Len(a) THEN 0
                       ELSE IF a[i] < b[i] THEN -1 ELSE IF a[i] > b[i] THEN 1 ELSE LexCmpFrom(a, b, i + 1)
LexCmp(a, b) == LexCmpFrom(a, b, 1)           \* equal lengths
=============================================================================
