--------------------------- MODULE CodecHistoryImpl ---------------------------
(***************************************************************************)
(* The code's memo: `table' is fixedn._pow10 (powers 10^0..10^Last filled  *)
(* in by init(), larger powers computed on demand by pow10()).  One action *)
(* per call of the package API, executed by the implementation-shaped      *)
(* functions of DecimalImpl on the CURRENT table.  TLC checks               *)
(*   Refines        every behaviour is a behaviour of CodecHistory with    *)
(*                  memo = <<>> (the table is not observable)              *)
(*   AnswerIsPure   the answer of the last call is the pure function       *)
(*   TablePristine  the table never changes (the inductive reason)         *)
(* for every sequence of calls up to MaxCalls over precisions below, at    *)
(* and above the table boundary.  With Dev = {"AliasTable"} (on-demand     *)
(* power computed in place in the last entry) all three are refuted: after *)
(* ToString(x, 17) the entry for 10^16 holds 10^17 and ToString(y, 16) is  *)
(* off by a factor of ten.                                                 *)
(***************************************************************************)
EXTENDS DecimalImpl

CONSTANTS Calls, MaxCalls
VARIABLES table, last, n
vars == <<table, last, n>>

Abs == INSTANCE CodecHistory WITH memo <- <<>>

Run(c, t) == IF c.op = "tostring"
             THEN LET r == ImplToStringT(c.v, c.p, t) IN [res |-> [ok |-> TRUE, str |-> r.res, v |-> BI!Zero], tab |-> r.tab]
             ELSE LET r == ImplFromStringT(c.s, c.p, t) IN [res |-> [ok |-> r.res.ok, str |-> <<>>, v |-> r.res.v], tab |-> r.tab]

Init == table = Pristine /\ last = [call |-> Abs!NoCall, res |-> Abs!NoCall] /\ n = 0
Do(c) == /\ n < MaxCalls
         /\ LET r == Run(c, table) IN table' = r.tab /\ last' = [call |-> c, res |-> r.res]
         /\ n' = n + 1
Next == \E c \in Calls : Do(c)
Spec == Init /\ [][Next]_vars

Refines == Abs!Spec
AnswerIsPure == Abs!AnswerIsPure
TablePristine == table = Pristine
=============================================================================
