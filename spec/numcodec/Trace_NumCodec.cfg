SPECIFICATION TraceSpec
CONSTANTS
  Last = 16
  Dev = {}
POSTCONDITION TraceAccepted
CHECK_DEADLOCK FALSE
