\* quick: every sequence of up to 3 calls over precisions 8, 15, 16, 17, 18, 21 (invariants only; the thorough tier also checks the refinement property)
SPECIFICATION Spec
CONSTANTS
  Last = 16
  Dev = {}
  Calls <- MCCalls
  MaxCalls = 3
INVARIANTS AnswerIsPure TablePristine
CHECK_DEADLOCK FALSE
