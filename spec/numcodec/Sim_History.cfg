\* tlc -simulate: long mixed histories over 13 precisions
SPECIFICATION SimSpec
CONSTANTS
  Last = 16
  Dev = {}
  Calls <- MCCalls
  MaxCalls = 3
  Universe = "sim"
  Depth = 8
INVARIANT Emit
CHECK_DEADLOCK FALSE
