\* non-vacuity: the laws of NumCodecEnum must refute the named deviation LexFromLast (UintN)
SPECIFICATION Spec
CONSTANTS
  Precs = {}
  SPrecs = {}
  Sizes = {20, 32}
  Kinds = {"uint", "ord"}
  Last = 16
  Dev = {}
  UDev = "LexFromLast"
INVARIANTS UintOK OrdOK
CHECK_DEADLOCK FALSE
