----------------------------- MODULE CodecHistory -----------------------------
(***************************************************************************)
(* C18, number codecs: THE CODECS ARE PURE FUNCTIONS.  "decode back to     *)
(* exactly what was encoded" is a statement about every call, whatever was *)
(* converted before it.  This tiny state machine says so explicitly: the   *)
(* state of the abstract codec is its memo - and it has none (memo is the  *)
(* empty tuple for ever); the actions are the calls; the answer of every   *)
(* call is the pure function of Decimal.tla applied to its arguments.      *)
(* CodecHistoryImpl refines this machine with the code's table of powers   *)
(* of ten as the concrete memo.                                            *)
(* A call is [op |-> "tostring", v, p] or [op |-> "fromstring", s, p].     *)
(***************************************************************************)
EXTENDS Decimal

CONSTANT Calls
VARIABLES memo, last

NoCall == [op |-> "none"]
Pure(c) == IF c.op = "tostring" THEN [ok |-> TRUE, str |-> Canon(c.v, c.p), v |-> BI!Zero]
           ELSE LET r == Parse(c.s, c.p) IN [ok |-> r.ok, str |-> <<>>, v |-> r.v]

Init == memo = <<>> /\ last = [call |-> NoCall, res |-> NoCall]
Do(c) == memo' = memo /\ last' = [call |-> c, res |-> Pure(c)]
Next == \E c \in Calls : Do(c)
Spec == Init /\ [][Next]_<<memo, last>>

AnswerIsPure == last.call # NoCall => last.res = Pure(last.call)
NoMemo == memo = <<>>
=============================================================================
