---------------------------- MODULE NumCodecTrace ----------------------------
(***************************************************************************)
(* Judges what the REAL codecs did (code -> spec) on inputs TLC did not     *)
(* enumerate (seeded random values / strings / hashes of harness/c18codec) *)
(* with the abstract definitions of Decimal, UintN and Base58.  One NDJSON *)
(* line per call; big integers travel as BigInt limb arrays read back from *)
(* the real big.Int, strings as code sequences.                            *)
(*   tostr   p, neg, mag, hung, out          fixedn.ToString               *)
(*   parse   p, s, ok, neg, mag              fixedn.FromString             *)
(*   f8      neg, mag, str, bok, bneg, bmag  Fixed8.String and             *)
(*                                            Fixed8FromString of it       *)
(*   f8parse s, ok, neg, mag                 Fixed8FromString              *)
(*   uint    n, u, be, le, sbe, sle, text, rev, and the five decoders      *)
(*           applied to those outputs: rbe, rle, rsbe, rsle, rtext         *)
(*   ord     n, a, b, cmp, hasless, less     Compare / Less                *)
(*   udec    n, form, inp, ok, u             a decoder on an arbitrary     *)
(*                                            (mostly malformed) input     *)
(*   addr    prefix, u, chk, s, bok, back, tried, same                     *)
(*           address.Uint160ToString, StringToUint160 of it, and the       *)
(*           number of single-character changes of s that still decode to  *)
(*           u; chk = checksum computed by the driver with crypto/sha256   *)
(*   b58c    data, chk, s, bok, back         base58.CheckEncode / Decode   *)
(* Names starting with "drift:" are disagreements with what the statement  *)
(* leaves open (tolerated spellings, refusals of malformed inputs, exact    *)
(* alphabet); all other names are violations.                               *)
(***************************************************************************)
EXTENDS DecimalImpl, TraceIO
U == INSTANCE UintN
B58 == INSTANCE Base58

VARIABLE l
Init == l = 1

IntOf(e) == [neg |-> e.neg, mag |-> e.mag]
WellFormed(e) == LET m == e.mag IN (m = <<>> \/ m[Len(m)] # 0) /\ (e.neg => m # <<>>) /\ \A i \in 1..Len(m) : m[i] \in 0..32767

ToStrChecks(e) ==
    NameIf(WellFormed(e), "harness:NotNormalised")
    \cup NameIf(~e.hung, "ToStringReturns")
    \cup (IF e.hung THEN {} ELSE NameIf(e.out = Canon(IntOf(e), e.p), "ToStringCanonical"))

ParseChecks(s, p, e) ==
    LET r == Parse(s, p)  c == SClass(s, p)  im == ImplFromString(s, p)  v == IntOf(e) IN
    NameIf(e.ok => WellFormed(e), "harness:NotNormalised")
    \cup NameIf(c \in HardReject => ~e.ok, "AcceptsMalformed")
    \cup NameIf(r.ok /\ e.ok => v = r.v, "ParseValue")
    \cup NameIf(IsCanonicalForm(s, p) => e.ok, "RefusesCanonical")
    \cup NameIf(c \in SoftReject => ~e.ok, "drift:AcceptsOutsideGrammar")
    \cup NameIf(r.ok /\ ~IsCanonicalForm(s, p) => e.ok, "drift:RefusesNonCanonical")
    \cup NameIf(im.ok = e.ok /\ (e.ok => im.v = v), "drift:Impl")

F8Checks(e) ==
    LET v == IntOf(e) IN
    NameIf(WellFormed(e) /\ BI!FitsBits(v, 64), "harness:NotNormalised")
    \cup NameIf(e.str = Canon(v, 8), "Fixed8String")
    \cup NameIf(e.bok /\ [neg |-> e.bneg, mag |-> e.bmag] = v, "Fixed8RoundTrip")

F8ParseChecks(e) ==
    LET r == Parse(e.s, 8) IN
    IF r.ok /\ ~BI!FitsBits(r.v, 64) THEN NameIf(~e.ok, "drift:Fixed8AcceptsOutOfRange")
    ELSE ParseChecks(e.s, 8, e)

Good(u) == [ok |-> TRUE, u |-> u]
UintChecks(e) ==
    LET u == e.u  n == e.n IN
    NameIf(Len(u) = n /\ U!IsBytes(u), "harness:BadUint")
    \cup NameIf(U!IsBE(e.be, u), "BytesBE") \cup NameIf(U!IsLE(e.le, u), "BytesLE")
    \cup NameIf(e.sbe = U!StringBE(u), "StringBE") \cup NameIf(e.sle = U!StringLE(u), "StringLE")
    \cup NameIf(e.text = U!TextForm(u), "TextForm")
    \cup NameIf(e.rev = U!Rev(u), "Reverse")
    \cup NameIf(e.rbe = Good(u), "RoundTripBytesBE") \cup NameIf(e.rle = Good(u), "RoundTripBytesLE")
    \cup NameIf(e.rsbe = Good(u), "RoundTripStringBE") \cup NameIf(e.rsle = Good(u), "RoundTripStringLE")
    \cup NameIf(e.rtext = Good(u), "RoundTripText")

Sgn(x) == IF x < 0 THEN -1 ELSE IF x > 0 THEN 1 ELSE 0
OrdChecks(e) ==
    NameIf(Sgn(e.cmp) = U!NumCmp(e.a, e.b), "drift:CompareIsNumericOrder")
    \cup (IF e.hasless THEN NameIf(e.less <=> U!NumLess(e.a, e.b), "drift:LessIsNumericOrder")
                            \cup NameIf(e.less <=> e.cmp < 0, "LessAgreesWithCompare")
          ELSE {})
    \cup NameIf(e.cmp = 0 <=> e.a = e.b, "CompareZeroIffEqual")
    \cup NameIf(Sgn(e.cmp) = -Sgn(e.rcmp), "CompareAntisymmetric")

Udec(f, inp, n) == CASE f = "sbe"  -> U!DecodeStringBE(inp, n)
                     [] f = "sle"  -> U!DecodeStringLE(inp, n)
                     [] f = "text" -> U!DecodeText(inp, n)
                     [] f = "bbe"  -> U!DecodeBytesBE(inp, n)
                     [] f = "ble"  -> U!DecodeBytesLE(inp, n)
UdecChecks(e) ==
    LET r == Udec(e.form, e.inp, e.n) IN
    NameIf(r.ok /\ e.ok => e.u = r.u, "DecodeValue")
    \cup NameIf(r.ok = e.ok, "drift:DecoderAcceptance")

AddrChecks(e) ==
    NameIf(e.bok /\ e.back = e.u, "AddressRoundTrip")
    \cup NameIf(e.same = 0, "AlteredAddressSameHash")
    \cup NameIf(e.s = B58!CheckString(B58!AddressData(e.prefix, e.u), e.chk), "drift:AddressSpelling")

B58Checks(e) ==
    NameIf(e.bok /\ e.back = e.data, "Base58CheckRoundTrip")
    \cup NameIf(e.s = B58!CheckString(e.data, e.chk), "drift:Base58Spelling")

Step ==
    /\ l <= Len(TLog)
    /\ l' = l + 1
    /\ LET e == TLog[l] IN
         CASE e.event = "tostr"   -> Report(l, ToStrChecks(e), [cls |-> VClass(IntOf(e), e.p), want |-> Canon(IntOf(e), e.p)])
           [] e.event = "parse"   -> Report(l, ParseChecks(e.s, e.p, e), [cls |-> SClass(e.s, e.p), want |-> Parse(e.s, e.p)])
           [] e.event = "f8"      -> Report(l, F8Checks(e), [cls |-> F8Class(IntOf(e)), scls |-> SClass(Canon(IntOf(e), 8), 8),
                                                                want |-> Canon(IntOf(e), 8)])
           [] e.event = "f8parse" -> Report(l, F8ParseChecks(e), [cls |-> SClass(e.s, 8), want |-> Parse(e.s, 8)])
           [] e.event = "uint"    -> Report(l, UintChecks(e), [n |-> e.n])
           [] e.event = "ord"     -> Report(l, OrdChecks(e), [n |-> e.n, want |-> U!NumCmp(e.a, e.b)])
           [] e.event = "udec"    -> Report(l, UdecChecks(e), [n |-> e.n, form |-> e.form])
           [] e.event = "addr"    -> Report(l, AddrChecks(e), [want |-> B58!CheckString(B58!AddressData(e.prefix, e.u), e.chk)])
           [] e.event = "b58c"    -> Report(l, B58Checks(e), [want |-> B58!CheckString(e.data, e.chk)])

TraceSpec == Init /\ [][Step]_l
=============================================================================
