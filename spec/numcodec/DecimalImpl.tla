----------------------------- MODULE DecimalImpl -----------------------------
(***************************************************************************)
(* Implementation-shaped model of pkg/encoding/fixedn/decimal.go: the same *)
(* steps as the code (strings.SplitN at the first '.', big.Int.SetString   *)
(* on both parts, QuoRem, trimming loop, zero padding) over BigInt values, *)
(* and the code's MEMO of powers of ten: a table `_pow10' holding          *)
(* 10^0 .. 10^Last (Last = 16 in the code), larger powers computed on      *)
(* demand.  Every function takes the table and returns the table it leaves *)
(* behind, so that CodecHistoryImpl can run calls one after the other.     *)
(*                                                                         *)
(* The default model is the design as intended; Dev names deviations that  *)
(* TLC must refute against Decimal.tla (non-vacuity of the laws).  Those   *)
(* marked [!] were FOUND IN THE PINNED TREE by this extension:             *)
(*   AliasTable        on-demand powers are computed IN PLACE in the last  *)
(*                     table entry (p := _pow10[last]; p.Mul(p, ten)): the *)
(*                     table is poisoned for every later call              *)
(*   SignFromIntValue  [!] FromString decides add / subtract from the SIGN *)
(*                     OF THE PARSED integer part: "-0.5" is +0.5          *)
(*   SignFromQuotient  [!] ToString takes the sign from the quotient: the  *)
(*                     string of -0.5 is "0.5"                             *)
(*   FracUint64        [!] ToString reads the fraction through Uint64():   *)
(*                     reduced modulo 2^64 (precision >= 20), and the      *)
(*                     trimming loop never ends when that is 0             *)
(*   TruncateFraction  FromString cuts a fraction longer than p            *)
(*   TrimWholeZero     ToString of an exact multiple of 10^p drops one     *)
(*                     zero of the integer part                            *)
(* Quirks of the code that are modelled as they are (reported as drift     *)
(* when the code stops having them): SetString accepts a sign, so a sign   *)
(* directly after the dot is accepted and counts as a fraction character.  *)
(***************************************************************************)
EXTENDS Decimal

CONSTANTS Last,     \* index of the last precomputed power (16)
          Dev       \* set of deviation names in force
Has(d) == d \in Dev

HANG == 99          \* "the call does not return"

Pristine == [k \in 0..Last |-> Pow10(k)]

(* pow10(n) *)
Pow10T(t, n) ==
    IF n <= Last THEN [val |-> t[n], tab |-> t]
    ELSE LET x == BI!Mul(t[Last], BI!Pow(t[1], n - Last))          \* p = _pow10[last] * 10 * 10 ...
         IN [val |-> x, tab |-> IF Has("AliasTable") THEN [t EXCEPT ![Last] = x] ELSE t]

(* big.Int.SetString(s, 10): [+-]? digit+ *)
SetStr(s) == LET k  == NSign(s)
                 ds == SubSeq(s, k + 1, Len(s))
                 ng == k = 1 /\ s[1] = MINUS
             IN IF ds # <<>> /\ AllDigits(ds) THEN [ok |-> TRUE, v |-> BI!Mk(ng, DigitsMag(ds)), minus |-> ng]
                ELSE [ok |-> FALSE, v |-> BI!Zero, minus |-> FALSE]

FailRes == [ok |-> FALSE, v |-> BI!Zero]

ImplFromStringT(s, p, t) ==
    LET d  == DotPos(s)
        a  == IF d = 0 THEN s ELSE SubSeq(s, 1, d - 1)
        b  == IF d = 0 THEN <<>> ELSE SubSeq(s, d + 1, Len(s))
        bi == SetStr(a)
    IN IF ~bi.ok THEN [res |-> FailRes, tab |-> t]
       ELSE LET r1    == Pow10T(t, p)
                whole == BI!Mul(bi.v, r1.val)
            IN IF d = 0 THEN [res |-> [ok |-> TRUE, v |-> whole], tab |-> r1.tab]
               ELSE IF Len(b) > p /\ ~Has("TruncateFraction") THEN [res |-> FailRes, tab |-> r1.tab]
               ELSE LET b2 == IF Len(b) > p THEN SubSeq(b, 1, p) ELSE b
                        fp == SetStr(b2)
                    IN IF ~fp.ok THEN [res |-> FailRes, tab |-> r1.tab]
                       ELSE LET r2  == Pow10T(r1.tab, p - Len(b2))
                                f   == BI!Mul(fp.v, r2.val)
                                neg == IF Has("SignFromIntValue") THEN bi.v.neg ELSE bi.minus
                            IN [res |-> [ok |-> TRUE, v |-> IF neg THEN BI!Sub(whole, f) ELSE BI!Add(whole, f)],
                                tab |-> r2.tab]

ImplToStringT(v, p, t) ==
    LET r1  == Pow10T(t, p)
        qr  == BI!DivModTrunc(v, r1.val)
        neg == IF Has("SignFromQuotient") THEN qr.q.neg ELSE v.neg
        ip  == (IF neg THEN <<MINUS>> ELSE <<>>) \o MagDigits(qr.q.mag)
        fr  == IF Has("FracUint64") THEN BI!MDivMod(qr.r.mag, TwoTo64)[2] ELSE qr.r.mag
        str == IF qr.r.mag = <<>>
                 THEN (IF Has("TrimWholeZero") /\ Len(ip) > 1 /\ ip[Len(ip)] = 0 THEN SubSeq(ip, 1, Len(ip) - 1) ELSE ip)
               ELSE IF fr = <<>> THEN <<HANG>>                      \* for ; frac%10 == 0; frac /= 10 {}  with frac = 0
               ELSE LET fd    == MagDigits(fr)
                        fdt   == TrimRight(fd)
                        width == p - (Len(fd) - Len(fdt))           \* "%0<width>d"
                    IN ip \o <<DOT>> \o (IF width > Len(fdt) THEN Zeros(width - Len(fdt)) ELSE <<>>) \o fdt
    IN [res |-> str, tab |-> r1.tab]

ImplFromString(s, p) == ImplFromStringT(s, p, Pristine).res
ImplToString(v, p) == ImplToStringT(v, p, Pristine).res
=============================================================================
