---------------------------- MODULE BlockQueueAbs ----------------------------
(***************************************************************************)
(* Abstract (property level) specification of the block-queue half of C20: *)
(*                                                                         *)
(*   "Blocks arriving from the network and from consensus in any order,    *)
(*    duplicated or far ahead of the tip, are applied to the ledger        *)
(*    strictly in index order and each at most once, and the node reaches  *)
(*    the highest contiguous block it was given."                          *)
(*                                                                         *)
(* It says this and nothing more.  State: the ledger height h, the set eff *)
(* of block indexes the node was GIVEN, and the flag quiet ("nothing is in *)
(* flight: without a new block arriving nothing will ever happen").        *)
(*                                                                         *)
(* GIVEN.  The queue is a bounded window of Cap blocks above the tip; an   *)
(* offer that is not above the tip is a duplicate of an applied block and  *)
(* an offer more than Cap above the tip does not fit (it is dropped in the *)
(* non-blocking mode and waits in the blocking mode).  Both are legal.     *)
(* So block i offered by a call that observed the ledger at height hr is   *)
(* "given" iff hr < i <= hr + Cap (Effective).  Everything else - which    *)
(* duplicate is kept, what LastQueued reports, how often the ledger is     *)
(* asked - is not part of the statement and is not judged here.            *)
(*                                                                         *)
(* APPLIED IN ORDER, AT MOST ONCE: the only way h changes is h' = h + 1 by *)
(* applying block h + 1, which must have been given (or, where the ledger  *)
(* has other writers, by an external advance).                             *)
(*                                                                         *)
(* REACHES THE HIGHEST CONTIGUOUS BLOCK GIVEN: whenever the system is      *)
(* quiet, h >= MaxContig(h, eff).                                          *)
(*                                                                         *)
(* The same operators judge the program-counter model BlockQueue (TLC      *)
(* checks BlockQueue => BlockQueueAbs as a refinement) and the traces      *)
(* recorded from the real bqueue.Queue (BlockQueueTrace).                  *)
(***************************************************************************)
EXTENDS Integers, FiniteSets

CONSTANTS Cap,            \* size of the window above the tip
          AllowExternal   \* TRUE iff the ledger has writers other than this queue

VARIABLES h, eff, quiet
avars == <<h, eff, quiet>>

EffectiveC(i, hr, c) == hr < i /\ i <= hr + c
Effective(i, hr)     == EffectiveC(i, hr, Cap)

\* the highest n >= hh such that every block hh+1 .. n was given (blocks <= hh are on the ledger)
MaxContig(hh, E) ==
    CHOOSE n \in hh..(hh + Cardinality(E)) :
        /\ \A j \in (hh + 1)..n : j \in E
        /\ (n + 1) \notin E

Converged(hh, E) == hh >= MaxContig(hh, E)

\* result the ledger gives to an attempt to apply block i at height hh (assumption on the ledger, property C06)
LedgerAccepts(i, hh) == i = hh + 1

AInit == h \in Nat /\ eff = {} /\ quiet = FALSE

\* one more block is given (observed height hr <= h), or a non-effective offer / a duplicate: nothing changes
AOffer == /\ h' = h
          /\ eff \subseteq eff'
          /\ Cardinality(eff' \ eff) <= 1
          /\ \A i \in eff' \ eff : \E hr \in 0..h : Effective(i, hr)
\* block h+1 is applied; it was given
AApply == /\ h' = h + 1
          /\ (h + 1) \in eff
          /\ eff' = eff
AExt   == /\ AllowExternal
          /\ h' = h + 1
          /\ eff' = eff

ANext == /\ AOffer \/ AApply \/ AExt
         /\ quiet' \in BOOLEAN
         /\ quiet' => Converged(h', eff')

ASpec == AInit /\ [][ANext]_avars

\* ------------------------------------------------------------------ what TLC checks on this module alone
QuietConverged == quiet => Converged(h, eff)
\* the contiguity definition is equivalent to "the next block was not given" (used by the trace judge)
ConvergedIsNextMissing == Converged(h, eff) <=> (h + 1) \notin eff
=============================================================================
