SPECIFICATION Spec
CONSTANTS
  Cap = 2
  H0 = 3
  MaxIdx = 7
  Procs = {"p1", "p2"}
  MaxPuts = 5
  Blocking = FALSE
  WithExternal = FALSE
  WithDiscard = FALSE
  WithRequester = FALSE
  PeerH = 0
  BugClearAlways = FALSE
  BugKeepOld = FALSE
  QuirkLenDrift = FALSE
  QuirkNoDiscardRecheck = FALSE
VIEW view
INVARIANTS TypeOK RingOK QuiescentConverged CallOK NoStuck WindowOnly NoPanic
PROPERTIES AbsRefines
CHECK_DEADLOCK FALSE
