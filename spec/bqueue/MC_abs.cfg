SPECIFICATION GenSpec
CONSTANTS
  Cap = 3
  AllowExternal = TRUE
  MaxIdx = 7
INVARIANTS QuietConverged ConvergedIsNextMissing
PROPERTIES GenRefines
CHECK_DEADLOCK FALSE
