------------------------------ MODULE BlockQueue ------------------------------
(***************************************************************************)
(* Program-counter model of pkg/network/bqueue/queue.go (C20, block-queue  *)
(* half).  One action per step between two observable points of the code:  *)
(* the points where the code reads or writes the ledger (Queuer.Height,    *)
(* Queuer.AddItem - these are the gates of the bound harness) and the      *)
(* locked sections in between.                                             *)
(*                                                                         *)
(*  Put(element)                      queue.go:144-197                     *)
(*    PutRead    h := chain.Height()             (outside the lock)        *)
(*    PutLocked  lock; discarded? idx<=h? h+Cap<idx? insert; signal; unlock*)
(*    BWaitRead  (Blocking mode) ticker: discarded? h := chain.Height()    *)
(*    BWaitLocked h+Cap>=idx ? lock; insert; signal; unlock : wait again   *)
(*  Run()                             queue.go:90-141                      *)
(*    RunInit    lastHeight := chain.Height()                              *)
(*    RunWake    <-checkBlocks   (1-buffered; closed by Discard)           *)
(*    RunReadH   h := chain.Height()                                       *)
(*    RunLock1   lock; b := queue[pos(h+1)]; cleanup loop; unlock          *)
(*    RunAdd     chain.AddItem(b)                                          *)
(*    RunLock2   lock; len--; if queue[pos]==b {queue[pos]=nil}; unlock    *)
(*  Discard()                         queue.go:208-218                     *)
(*  External     the ledger advanced by another writer (optional)          *)
(*  ReqDecide    Server.requestBlocks, server.go:1504-1518 (optional): a   *)
(*               peer is asked for blocks only while LastQueued reports    *)
(*               capacity; IndexStart is moved to lastQ+1 when lastQ is    *)
(*               ahead.  (MaxHashesCount is 1 block in the model.)         *)
(*                                                                         *)
(* Quirks of the code that are modelled as they are (named):               *)
(*   - the cleanup loop of Run tests GetIndex() = i in the slot of i+1     *)
(*     (never true for Cap > 1): CleanFrom below is transcribed literally; *)
(*   - Put reads the height before taking the lock (stale height), so a    *)
(*     block that is already on the ledger can be inserted; `len` is       *)
(*     incremented again when a newer block replaces such a stale one;     *)
(*   - lastQ advances along the array without wrapping;                    *)
(*   - the Blocking wait loop re-takes the lock without re-checking        *)
(*     `discarded`.                                                        *)
(* QuirkLenDrift / QuirkNoDiscardRecheck = TRUE model the code as it is;   *)
(* FALSE models the repair proposed for the two findings (len counts       *)
(* occupied slots only; `discarded` re-checked after the wait loop).       *)
(* Named deviations (model non-vacuity, must be caught by TLC):            *)
(*   BugClearAlways - RunLock2 clears the slot without comparing with b    *)
(*   BugKeepOld     - Put keeps whatever the slot holds (drops "|| older") *)
(***************************************************************************)
EXTENDS Integers, Sequences, FiniteSets, TLC

CONSTANTS Cap,            \* cacheSize
          H0,             \* ledger height when the queue is created
          MaxIdx,         \* highest block index that exists
          Procs,          \* producers (set of strings)
          MaxPuts,        \* bound on the number of Put calls (keeps `len` drift finite)
          Blocking,       \* OperationMode
          WithExternal, WithDiscard, WithRequester,
          PeerH,          \* Requester: height of the peers
          BugClearAlways, BugKeepOld,
          QuirkLenDrift,          \* TRUE = the code as it is: len++ on every insertion, len-- on every RunLock2
          QuirkNoDiscardRecheck   \* TRUE = the code as it is: the Blocking wait loop does not look at `discarded` after re-locking

VARIABLES chainH,                   \* the ledger
          ring, lastQ, len,         \* bq.queue (0 = nil), bq.lastQ, bq.len
          sig, closed, discarded,   \* bq.checkBlocks (0/1 buffered, closed), bq.discarded
          ppc, ph, pidx,            \* producers: pc, height read, index offered
          rpc, rh, rb, rlast,       \* runner: pc, h, b, lastHeight
          eff,                      \* abstract: blocks GIVEN (effective offers, BlockQueueAbs)
          nputs, panicked,
          last                      \* label of the step just taken (generation / traces only)

vars == <<chainH, ring, lastQ, len, sig, closed, discarded, ppc, ph, pidx, rpc, rh, rb, rlast, eff, nputs, panicked, last>>
\* everything except the label: VIEW of the exhaustive runs
view == <<chainH, ring, lastQ, len, sig, closed, discarded, ppc, ph, pidx, rpc, rh, rb, rlast, eff, nputs, panicked>>

Slots    == 0..(Cap - 1)
Pos(i)   == i % Cap
Occupied == Cardinality({k \in Slots : ring[k] # 0})
CapLeft  == Cap - len
Min2(a, b) == IF a < b THEN a ELSE b

L(a, p, i) == [a |-> a, p |-> p, i |-> i]

RECURSIVE AdvLastQ(_, _, _)
AdvLastQ(r, lq, pos) ==
    IF pos < Cap /\ r[pos] # 0 /\ lq + 1 = r[pos] THEN AdvLastQ(r, r[pos], pos + 1) ELSE lq

\* queue.go:103-109, literally: for i := lastHeight; i < h; i++ { old := pos(i+1); if queue[old] != nil && queue[old].GetIndex() == i {len--; queue[old] = nil} }
RECURSIVE CleanFrom(_, _, _, _)
CleanFrom(r, l, i, to) ==
    IF i >= to THEN <<r, l>>
    ELSE LET old == Pos(i + 1) IN
         IF r[old] # 0 /\ r[old] = i THEN CleanFrom([r EXCEPT ![old] = 0], l - 1, i + 1, to)
         ELSE CleanFrom(r, l, i + 1, to)

Effective(i, hr) == hr < i /\ i <= hr + Cap

----------------------------------------------------------------------------
Init ==
    /\ chainH = H0
    /\ ring = [k \in Slots |-> 0] /\ lastQ = 0 /\ len = 0
    /\ sig = 0 /\ closed = FALSE /\ discarded = FALSE
    /\ ppc = [p \in Procs |-> "idle"] /\ ph = [p \in Procs |-> 0] /\ pidx = [p \in Procs |-> 0]
    /\ rpc = "init" /\ rh = 0 /\ rb = 0 /\ rlast = 0
    /\ eff = {} /\ nputs = 0 /\ panicked = FALSE
    /\ last = L("init", "", 0)

\* ---------------------------------------------------------------- producers
StartPut(p, i) ==
    /\ nputs < MaxPuts
    /\ nputs' = nputs + 1
    /\ ppc' = [ppc EXCEPT ![p] = "lock"]
    /\ ph' = [ph EXCEPT ![p] = chainH]
    /\ pidx' = [pidx EXCEPT ![p] = i]
    /\ last' = L("putread", p, i)
    /\ UNCHANGED <<chainH, ring, lastQ, len, sig, closed, discarded, rpc, rh, rb, rlast, eff, panicked>>

\* any block, any time (one index beyond the window is enough to exercise the window rule)
PutRead(p, i) ==
    /\ ~WithRequester
    /\ ppc[p] = "idle"
    /\ i \in (H0 + 1)..Min2(MaxIdx, chainH + Cap + 1)
    /\ StartPut(p, i)

\* the locked insertion and the signal (queue.go:176-196)
Insert(p) ==
    LET i    == pidx[p]
        pos  == Pos(i)
        take == ring[pos] = 0 \/ (~BugKeepOld /\ ring[pos] < i)
        r2   == IF take THEN [ring EXCEPT ![pos] = i] ELSE ring
    IN  /\ ring' = r2
        /\ len' = IF take /\ (QuirkLenDrift \/ ring[pos] = 0) THEN len + 1 ELSE len
        /\ lastQ' = IF take THEN AdvLastQ(r2, lastQ, pos) ELSE lastQ
        /\ eff' = IF Effective(i, ph[p]) THEN eff \cup {i} ELSE eff
        /\ IF closed THEN panicked' = TRUE /\ sig' = sig       \* send on a closed channel
                     ELSE panicked' = panicked /\ sig' = 1

PutLocked(p) ==
    /\ ppc[p] = "lock"
    /\ last' = L("putlock", p, pidx[p])
    /\ UNCHANGED <<chainH, closed, discarded, ph, pidx, rpc, rh, rb, rlast, nputs>>
    /\ LET i == pidx[p]  hh == ph[p] IN
       IF discarded \/ i <= hh \/ (hh + Cap < i /\ ~Blocking)
       THEN /\ ppc' = [ppc EXCEPT ![p] = "idle"]                 \* returns nil, no signal
            /\ UNCHANGED <<ring, lastQ, len, sig, eff, panicked>>
       ELSE IF hh + Cap < i
       THEN /\ ppc' = [ppc EXCEPT ![p] = "bwait"]                \* unlock, start the ticker
            /\ UNCHANGED <<ring, lastQ, len, sig, eff, panicked>>
       ELSE /\ ppc' = [ppc EXCEPT ![p] = "idle"]
            /\ Insert(p)

\* one tick of the Blocking wait loop (queue.go:163-173)
BWaitRead(p) ==
    /\ ppc[p] = "bwait"
    /\ last' = L("bread", p, pidx[p])
    /\ UNCHANGED <<chainH, ring, lastQ, len, sig, closed, discarded, pidx, rpc, rh, rb, rlast, eff, nputs, panicked>>
    /\ IF discarded THEN ppc' = [ppc EXCEPT ![p] = "idle"] /\ ph' = ph
                    ELSE ppc' = [ppc EXCEPT ![p] = "bchk"] /\ ph' = [ph EXCEPT ![p] = chainH]

BWaitLocked(p) ==
    /\ ppc[p] = "bchk"
    /\ last' = L("block", p, pidx[p])
    /\ UNCHANGED <<chainH, closed, discarded, ph, pidx, rpc, rh, rb, rlast, nputs>>
    /\ IF ph[p] + Cap >= pidx[p] /\ ~QuirkNoDiscardRecheck /\ discarded
       THEN /\ ppc' = [ppc EXCEPT ![p] = "idle"]                 \* (repaired code only) discarded meanwhile
            /\ UNCHANGED <<ring, lastQ, len, sig, eff, panicked>>
       ELSE IF ph[p] + Cap >= pidx[p]
       THEN /\ ppc' = [ppc EXCEPT ![p] = "idle"]
            /\ Insert(p)                                         \* `discarded` is not looked at again
       ELSE /\ ppc' = [ppc EXCEPT ![p] = "bwait"]
            /\ UNCHANGED <<ring, lastQ, len, sig, eff, panicked>>

\* Server.requestBlocks: ask a peer (any chunk start s inside the window) unless LastQueued reports no room
ReqDecide(p) ==
    /\ WithRequester
    /\ ppc[p] = "idle"
    /\ nputs < MaxPuts
    /\ CapLeft # 0
    /\ \E s \in (chainH + 1)..Min2(chainH + Cap, PeerH) :
          LET start == IF lastQ >= s THEN lastQ + 1 ELSE s IN
          /\ start <= PeerH
          /\ ppc' = [ppc EXCEPT ![p] = "req"]
          /\ pidx' = [pidx EXCEPT ![p] = start]
          /\ last' = L("req", p, start)
    /\ UNCHANGED <<chainH, ring, lastQ, len, sig, closed, discarded, ph, rpc, rh, rb, rlast, eff, nputs, panicked>>

\* the peer's answer arrives
ReqDeliver(p) ==
    /\ ppc[p] = "req"
    /\ StartPut(p, pidx[p])

\* ---------------------------------------------------------------- runner
RunInit ==
    /\ rpc = "init"
    /\ rlast' = chainH /\ rpc' = "wait"
    /\ last' = L("rinit", "", 0)
    /\ UNCHANGED <<chainH, ring, lastQ, len, sig, closed, discarded, ppc, ph, pidx, rh, rb, eff, nputs, panicked>>

WakeEnabled == rpc = "wait" /\ (sig = 1 \/ closed)
RunWake ==
    /\ WakeEnabled
    /\ IF sig = 1 THEN sig' = 0 /\ rpc' = "readH" ELSE sig' = sig /\ rpc' = "done"
    /\ last' = L("wake", "", 0)
    /\ UNCHANGED <<chainH, ring, lastQ, len, closed, discarded, ppc, ph, pidx, rh, rb, rlast, eff, nputs, panicked>>

RunReadH ==
    /\ rpc = "readH"
    /\ rh' = chainH /\ rpc' = "lock1"
    /\ last' = L("readh", "", 0)
    /\ UNCHANGED <<chainH, ring, lastQ, len, sig, closed, discarded, ppc, ph, pidx, rb, rlast, eff, nputs, panicked>>

RunLock1 ==
    /\ rpc = "lock1"
    /\ LET b == ring[Pos(rh + 1)]
           c == CleanFrom(ring, len, rlast, rh)
       IN  /\ rb' = b
           /\ ring' = c[1] /\ len' = c[2]
           /\ rpc' = IF b = 0 THEN "wait" ELSE "add"
    /\ rlast' = rh
    /\ last' = L("lock1", "", 0)
    /\ UNCHANGED <<chainH, lastQ, sig, closed, discarded, ppc, ph, pidx, rh, eff, nputs, panicked>>

RunAdd ==
    /\ rpc = "add"
    /\ chainH' = IF rb = chainH + 1 THEN chainH + 1 ELSE chainH     \* the ledger accepts exactly the next block
    /\ rpc' = "lock2"
    /\ last' = L("add", "", rb)
    /\ UNCHANGED <<ring, lastQ, len, sig, closed, discarded, ppc, ph, pidx, rh, rb, rlast, eff, nputs, panicked>>

RunLock2 ==
    /\ rpc = "lock2"
    /\ len' = IF QuirkLenDrift \/ ring[Pos(rh + 1)] = rb THEN len - 1 ELSE len
    /\ ring' = IF BugClearAlways \/ ring[Pos(rh + 1)] = rb THEN [ring EXCEPT ![Pos(rh + 1)] = 0] ELSE ring
    /\ rpc' = "readH"
    /\ last' = L("lock2", "", 0)
    /\ UNCHANGED <<chainH, lastQ, sig, closed, discarded, ppc, ph, pidx, rh, rb, rlast, eff, nputs, panicked>>

RunnerStep == RunInit \/ RunWake \/ RunReadH \/ RunLock1 \/ RunAdd \/ RunLock2

\* ---------------------------------------------------------------- environment
External ==
    /\ WithExternal
    /\ chainH < MaxIdx
    /\ chainH' = chainH + 1
    /\ last' = L("ext", "", chainH + 1)
    /\ UNCHANGED <<ring, lastQ, len, sig, closed, discarded, ppc, ph, pidx, rpc, rh, rb, rlast, eff, nputs, panicked>>

Discard ==
    /\ WithDiscard
    /\ ~discarded
    /\ discarded' = TRUE /\ closed' = TRUE
    /\ ring' = [k \in Slots |-> 0] /\ len' = 0
    /\ last' = L("discard", "", 0)
    /\ UNCHANGED <<chainH, lastQ, sig, ppc, ph, pidx, rpc, rh, rb, rlast, eff, nputs, panicked>>

InFlight(p) == PutLocked(p) \/ BWaitRead(p) \/ BWaitLocked(p) \/ ReqDeliver(p)

Next ==
    \/ \E p \in Procs : \E i \in (H0 + 1)..MaxIdx : PutRead(p, i)
    \/ \E p \in Procs : InFlight(p) \/ ReqDecide(p)
    \/ RunnerStep
    \/ External
    \/ Discard

Spec == Init /\ [][Next]_vars
\* weak fairness of the runner and of calls already in flight (nobody is obliged to offer more blocks)
FairSpec == Spec /\ WF_vars(RunnerStep) /\ \A p \in Procs : WF_vars(InFlight(p))

----------------------------------------------------------------------------
\* nothing can happen any more unless a new block is offered
Quiescent ==
    /\ ~discarded /\ ~panicked
    /\ rpc = "wait" /\ sig = 0
    /\ \A p \in Procs : ppc[p] = "idle" \/ (ppc[p] = "bwait" /\ pidx[p] > chainH + Cap)

Abs == INSTANCE BlockQueueAbs WITH h <- chainH, eff <- eff, quiet <- Quiescent, AllowExternal <- WithExternal

TypeOK ==
    /\ chainH \in H0..MaxIdx
    /\ ring \in [Slots -> 0..MaxIdx] /\ lastQ \in 0..MaxIdx /\ len \in (0 - 2)..(Cap + MaxPuts)
    /\ sig \in {0, 1} /\ closed \in BOOLEAN /\ discarded \in BOOLEAN
    /\ ppc \in [Procs -> {"idle", "lock", "bwait", "bchk", "req"}]
    /\ rpc \in {"init", "wait", "readH", "lock1", "add", "lock2", "done"}
    /\ eff \subseteq 1..MaxIdx
RingOK == \A k \in Slots : ring[k] # 0 => Pos(ring[k]) = k

\* Impl => Abstract (refinement, checked as an action property) -----------------------------------
AbsRefines == [][Abs!ANext]_<<chainH, eff, Quiescent>>
\* ... of which the invariant part is
QuiescentConverged == Quiescent => Abs!Converged(chainH, eff)

\* AddItem is never called with nil, nor with a block the ledger cannot take yet
CallOK == rpc = "add" => (rb # 0 /\ rb <= chainH + 1)
\* the runner is parked, nothing in flight, no signal pending => the next block is not sitting in its slot
NoStuck == Quiescent => ring[Pos(chainH + 1)] # chainH + 1
\* WindowOnly: a block that was GIVEN stays in the queue until it is on the ledger
WindowOnly == ~discarded => \A i \in eff : i <= chainH \/ ring[Pos(i)] = i
NoPanic == ~panicked
\* liveness under FairSpec
Converges == <>[](discarded \/ panicked \/ (chainH + 1) \notin eff)

\* secondary (feeds LastQueued): `len` is the number of occupied slots (plus the block the runner is
\* applying, when a newer block already took its slot)
InHand == IF QuirkLenDrift /\ rpc \in {"add", "lock2"} /\ ring[Pos(rh + 1)] # rb THEN 1 ELSE 0
LenExact == ~discarded => len = Occupied + InHand
\* Requester: the node never asks again although its peers are ahead
Starved == WithRequester /\ Quiescent /\ chainH < PeerH /\ CapLeft = 0
ReqNotStarved == ~Starved
\* Requester: when quiet and behind, asking for the chunk that starts at h+1 really asks for h+1
ReqGapAskable == (WithRequester /\ Quiescent /\ chainH < PeerH) => lastQ <= chainH
=============================================================================
