SPECIFICATION Spec
CONSTANTS
  Cap = 2
  H0 = 0
  MaxIdx = 4
  Procs = {"p1", "p2"}
  MaxPuts = 4
  Blocking = FALSE
  WithExternal = FALSE
  WithDiscard = TRUE
  WithRequester = FALSE
  PeerH = 0
  BugClearAlways = FALSE
  BugKeepOld = FALSE
  QuirkLenDrift = FALSE
  QuirkNoDiscardRecheck = FALSE
VIEW view
INVARIANTS TypeOK RingOK QuiescentConverged CallOK NoStuck WindowOnly NoPanic
PROPERTIES AbsRefines
CHECK_DEADLOCK FALSE
