--------------------------- MODULE LedgerOnceTrace ---------------------------
(* Judges rounds in which several goroutines offered the SAME next block (decoded copies) to a real core.Blockchain at
   the same moment (harness/c20sync TestOnce): the block is stored exactly once (one call succeeds, the others are refused),
   the ledger's height moves by exactly one and its digest equals the reference node's at that height.  Also rounds with
   a stale block (already on chain) and a future block next to the right one: only the right one is stored. *)
EXTENDS TraceIO

VARIABLES l, h
vars == <<l, h>>

Init == l = 1 /\ h = 0

Step ==
    /\ l <= Len(TLog)
    /\ l' = l + 1
    /\ LET e == TLog[l] IN
       CASE e.event = "init" -> h' = e.h
         [] e.event = "round" ->
              /\ h' = e.after
              /\ Report(l, NameIf(e.stored = 1, "StoredExactlyOnce")
                           \cup NameIf(e.after = h + 1 /\ e.before = h, "HeightByOne")
                           \cup NameIf(e.wrong_index_stored = 0, "InOrder")
                           \cup NameIf(e.same, "StateAsReference")
                           \cup NameIf(e.panics = 0, "NoPanic"),
                        [ev |-> e])
         [] OTHER -> UNCHANGED h

TraceSpec == Init /\ [][Step]_vars
=============================================================================
