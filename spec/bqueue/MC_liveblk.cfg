SPECIFICATION FairSpec
CONSTANTS
  Cap = 2
  H0 = 0
  MaxIdx = 4
  Procs = {"p1", "p2"}
  MaxPuts = 4
  Blocking = TRUE
  WithExternal = FALSE
  WithDiscard = FALSE
  WithRequester = FALSE
  PeerH = 0
  BugClearAlways = FALSE
  BugKeepOld = FALSE
  QuirkLenDrift = FALSE
  QuirkNoDiscardRecheck = FALSE
VIEW view
PROPERTIES Converges
CHECK_DEADLOCK FALSE
