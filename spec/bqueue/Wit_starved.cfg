SPECIFICATION SimSpec
CONSTANTS
  Cap = 2
  H0 = 0
  MaxIdx = 5
  Procs = {"p1", "p2"}
  MaxPuts = 4
  Blocking = FALSE
  WithExternal = FALSE
  WithDiscard = FALSE
  WithRequester = TRUE
  PeerH = 5
  BugClearAlways = FALSE
  BugKeepOld = FALSE
  QuirkLenDrift = FALSE
  QuirkNoDiscardRecheck = FALSE
  Depth = 1000
  WitnessKind = "starved"
VIEW view
INVARIANT Emit
CHECK_DEADLOCK FALSE
