SPECIFICATION SimSpec
CONSTANTS
  Cap = 2
  H0 = 0
  MaxIdx = 4
  Procs = {"p1", "p2"}
  MaxPuts = 5
  Blocking = FALSE
  WithExternal = FALSE
  WithDiscard = TRUE
  WithRequester = FALSE
  PeerH = 0
  BugClearAlways = FALSE
  BugKeepOld = FALSE
  QuirkLenDrift = FALSE
  QuirkNoDiscardRecheck = FALSE
  Depth = 36
  WitnessKind = "none"
INVARIANT Emit
CHECK_DEADLOCK FALSE
