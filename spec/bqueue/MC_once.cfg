SPECIFICATION Spec
CONSTANTS
  Producer = {"queue", "consensus", "rpc"}
  MaxH = 3
  CheckOutsideLock = FALSE
INVARIANTS TypeOK InOrderOnce
CONSTRAINT Bounded
