SPECIFICATION Spec
CONSTANTS
  Cap = 2
  H0 = 0
  MaxIdx = 5
  Procs = {"p1", "p2"}
  MaxPuts = 6
  Blocking = FALSE
  WithExternal = FALSE
  WithDiscard = FALSE
  WithRequester = TRUE
  PeerH = 5
  BugClearAlways = FALSE
  BugKeepOld = FALSE
  QuirkLenDrift = FALSE
  QuirkNoDiscardRecheck = FALSE
VIEW view
INVARIANTS TypeOK RingOK QuiescentConverged CallOK NoStuck WindowOnly ReqGapAskable
CHECK_DEADLOCK FALSE
