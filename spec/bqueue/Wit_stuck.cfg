SPECIFICATION SimSpec
CONSTANTS
  Cap = 2
  H0 = 0
  MaxIdx = 3
  Procs = {"p1", "p2"}
  MaxPuts = 2
  Blocking = FALSE
  WithExternal = TRUE
  WithDiscard = FALSE
  WithRequester = FALSE
  PeerH = 0
  BugClearAlways = FALSE
  BugKeepOld = FALSE
  QuirkLenDrift = FALSE
  QuirkNoDiscardRecheck = FALSE
  Depth = 1000
  WitnessKind = "stuck"
VIEW view
INVARIANT Emit
CHECK_DEADLOCK FALSE
