---------------------------- MODULE BlockQueueSim ----------------------------
(* Behaviour generator for the bound harness: BlockQueue plus a history variable.
   - RunWake is taken as soon as it is enabled ("eager wake"): the receive on checkBlocks is the one step
     of the real code that has no gate, the Go runtime performs it as soon as it can; generated
     behaviours are therefore exactly the ones the harness can reproduce step by step.
   - Sim_*.cfg (tlc -simulate): the history is printed at the depth bound or when nothing is enabled.
   - Wit_*.cfg (breadth first, VIEW without the history): the history is printed for every state that
     satisfies the predicate selected by WitnessKind, and such a state is not explored further, so the
     printed history is a shortest path to it. *)
EXTENDS BlockQueue, Json

CONSTANTS Depth, WitnessKind
VARIABLES hist, wt

RingSeq == [k \in 1..Cap |-> ring[k - 1]]
Snap == [a |-> last.a, p |-> last.p, i |-> last.i, h |-> chainH, len |-> len, lq |-> lastQ, ring |-> RingSeq]
Header == [a |-> "init", cap |-> Cap, h0 |-> H0, blocking |-> Blocking, ext |-> WithExternal,
           req |-> WithRequester, peerh |-> PeerH, procs |-> Procs, maxidx |-> MaxIdx]

Stale == \E k \in Slots : ring[k] # 0 /\ ring[k] <= chainH /\ ~(rpc = "lock2" /\ rb = ring[k])
Witness ==
    CASE WitnessKind = "none"        -> FALSE
      [] WitnessKind = "stale"       -> Stale
      [] WitnessKind = "drift"       -> ~discarded /\ len # Occupied
      [] WitnessKind = "starved"     -> Starved
      [] WitnessKind = "stuck"       -> Quiescent /\ ring[Pos(chainH + 1)] = chainH + 1
      [] WitnessKind = "unconverged" -> Quiescent /\ (chainH + 1) \in eff
      [] WitnessKind = "panic"       -> panicked
      [] WitnessKind = "replaced"    -> rpc = "lock2" /\ ring[Pos(rh + 1)] # rb
      [] WitnessKind = "failadd"     -> rpc = "add" /\ rb # chainH + 1

SimInit == Init /\ hist = << Header >> /\ wt = 0
\* tlc -simulate picks uniformly among successor STATES: the dummy variable wt multiplies the successors
\* reached by the runner (x4) and by calls in flight (x3), so that behaviours are not dominated by the
\* many ways of starting a Put
Weighted == \/ wt' = 0 /\ Next
            \/ wt' \in 1..3 /\ RunnerStep
            \/ wt' \in 1..2 /\ \E p \in Procs : InFlight(p)
SimNext == /\ ~Witness
           /\ IF WakeEnabled THEN RunWake /\ wt' = 0 ELSE Weighted
           /\ hist' = Append(hist, Snap')
SimSpec == SimInit /\ [][SimNext]_<<vars, hist, wt>>

Terminal == ~WakeEnabled /\ ~ENABLED Next
Emit == \/ ~(Len(hist) = Depth \/ (Len(hist) < Depth /\ (Witness \/ (WitnessKind = "none" /\ Terminal))))
        \/ PrintT(<<"@@HIST@@", ToJson(hist)>>)
=============================================================================
