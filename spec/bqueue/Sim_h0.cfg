SPECIFICATION SimSpec
CONSTANTS
  Cap = 2
  H0 = 3
  MaxIdx = 8
  Procs = {"p1", "p2"}
  MaxPuts = 7
  Blocking = FALSE
  WithExternal = FALSE
  WithDiscard = FALSE
  WithRequester = FALSE
  PeerH = 0
  BugClearAlways = FALSE
  BugKeepOld = FALSE
  QuirkLenDrift = FALSE
  QuirkNoDiscardRecheck = FALSE
  Depth = 48
  WitnessKind = "none"
INVARIANT Emit
CHECK_DEADLOCK FALSE
