----------------------------- MODULE LedgerOnce -----------------------------
(* The ledger side of the first half of C20: "blocks arriving from the network and from consensus ... are applied to the
   ledger strictly in index order and each at most once".  Several producers (the block queue's goroutine, the
   consensus service, the RPC submitblock handler) call Blockchain.AddBlock concurrently, possibly with the SAME block.
   AddBlock is one critical section (pkg/core/blockchain.go AddBlock: addLock; expected-index check; storeBlock):

       Call(p, i)   producer p starts AddBlock with the block of index i
       Acquire(p)   p takes addLock
       Store(p)     under the lock: the block is stored iff i = height + 1, otherwise refused
   Named deviation CheckOutsideLock: the expected-index check is made BEFORE the lock is taken (check-then-act), the
   critical section stores unconditionally.

   applied is the sequence of indexes in the order they were stored; InOrderOnce says it is 1, 2, 3, ... *)
EXTENDS Integers, Sequences, FiniteSets

CONSTANTS Producer, MaxH, CheckOutsideLock

VARIABLES height, applied, pc, lock, arg, res
vars == <<height, applied, pc, lock, arg, res>>

Init == /\ height = 0 /\ applied = <<>> /\ lock = "free"
        /\ pc = [p \in Producer |-> "idle"] /\ arg = [p \in Producer |-> 0] /\ res = [p \in Producer |-> "none"]

Call(p, i) ==
    /\ pc[p] = "idle"
    /\ arg' = [arg EXCEPT ![p] = i]
    /\ pc' = [pc EXCEPT ![p] = IF CheckOutsideLock THEN "check" ELSE "lock"]
    /\ UNCHANGED <<height, applied, lock, res>>

CheckEarly(p) ==
    /\ pc[p] = "check"
    /\ IF arg[p] = height + 1
         THEN pc' = [pc EXCEPT ![p] = "lock"] /\ UNCHANGED res
         ELSE pc' = [pc EXCEPT ![p] = "idle"] /\ res' = [res EXCEPT ![p] = "refused"]
    /\ UNCHANGED <<height, applied, lock, arg>>

Acquire(p) ==
    /\ pc[p] = "lock" /\ lock = "free"
    /\ lock' = p /\ pc' = [pc EXCEPT ![p] = "in"]
    /\ UNCHANGED <<height, applied, arg, res>>

Store(p) ==
    /\ pc[p] = "in" /\ lock = p
    /\ IF CheckOutsideLock \/ arg[p] = height + 1
         THEN /\ applied' = Append(applied, arg[p]) /\ height' = arg[p]
              /\ res' = [res EXCEPT ![p] = "stored"]
         ELSE /\ UNCHANGED <<applied, height>>
              /\ res' = [res EXCEPT ![p] = "refused"]
    /\ lock' = "free" /\ pc' = [pc EXCEPT ![p] = "idle"]
    /\ UNCHANGED arg

Next == \E p \in Producer : (\E i \in 1..MaxH : Call(p, i)) \/ CheckEarly(p) \/ Acquire(p) \/ Store(p)

Spec == Init /\ [][Next]_vars

TypeOK == height \in 0..MaxH /\ lock \in Producer \cup {"free"}

\* the judged predicate
InOrderOnce == \A k \in 1..Len(applied) : applied[k] = k

Bounded == Len(applied) <= MaxH + 1
=============================================================================
