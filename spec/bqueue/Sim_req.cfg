SPECIFICATION SimSpec
CONSTANTS
  Cap = 2
  H0 = 0
  MaxIdx = 6
  Procs = {"p1", "p2"}
  MaxPuts = 8
  Blocking = FALSE
  WithExternal = FALSE
  WithDiscard = FALSE
  WithRequester = TRUE
  PeerH = 6
  BugClearAlways = FALSE
  BugKeepOld = FALSE
  QuirkLenDrift = FALSE
  QuirkNoDiscardRecheck = FALSE
  Depth = 56
  WitnessKind = "none"
INVARIANT Emit
CHECK_DEADLOCK FALSE
