-------------------------- MODULE MCBlockQueueAbs --------------------------
(* Exhaustive sanity check of the abstract judge on its own: a bounded generator of abstract behaviours
   only takes steps of BlockQueueAbs!ANext, `quiet => Converged` is an invariant of them, and the
   contiguity definition coincides with "the next block was not given" (the form the reader may find
   easier to audit). *)
EXTENDS BlockQueueAbs
CONSTANT MaxIdx

GenInit == h = 0 /\ eff = {} /\ quiet = FALSE
GenNext == /\ \/ \E i \in 1..MaxIdx, hr \in 0..h : Effective(i, hr) /\ eff' = eff \cup {i} /\ h' = h
              \/ (h + 1) \in eff /\ h' = h + 1 /\ eff' = eff
              \/ AllowExternal /\ h < MaxIdx /\ h' = h + 1 /\ eff' = eff
              \/ UNCHANGED <<h, eff>>
           /\ quiet' \in BOOLEAN
           /\ quiet' => Converged(h', eff')
GenSpec == GenInit /\ [][GenNext]_avars
GenRefines == [][ANext]_avars
=============================================================================
