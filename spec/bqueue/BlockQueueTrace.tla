--------------------------- MODULE BlockQueueTrace ---------------------------
(* Judges traces recorded from the real bqueue.Queue (harness/c20queue) against the ABSTRACT
   specification BlockQueueAbs.  One trace file holds many scenarios; each starts with an `init` event.
     init    cap, h0, mode, ext, req, peerh        a fresh queue over a ledger at height h0
     offer   p, item, i, h, n                      the n-th ledger read of a Put of block i returned h
     ret     p, item                               that Put returned                       (not judged)
     apply   item, i, ok, h                        Queuer.AddItem(block i) was called; ledger's answer
     ext     h                                     the ledger advanced by another writer
     req     ...                                   a decision of the request rule          (not judged)
     discard                                       Queue.Discard was called
     quiesce h, parked, capleft, req, peerh, ...   nothing can move without a new block (runner parked
                                                   on checkBlocks, no call in flight, no signal pending)
   Names starting with "H:" are consistency conditions of the harness itself (the ledger contract it
   implements, its bookkeeping): a failure there is an infrastructure error, not a verdict. *)
EXTENDS TraceIO, FiniteSets

VARIABLES l, h, eff, cap, cfg, offered
vars == <<l, h, eff, cap, cfg, offered>>

A == INSTANCE BlockQueueAbs WITH Cap <- 0, AllowExternal <- FALSE, h <- h, eff <- eff, quiet <- FALSE

Init == l = 1 /\ h = 0 /\ eff = {} /\ cap = 0 /\ offered = {}
        /\ cfg = [ext |-> FALSE, req |-> FALSE, peerh |-> 0, disc |-> FALSE]

Step ==
    /\ l <= Len(TLog)
    /\ l' = l + 1
    /\ LET e == TLog[l] IN
       CASE e.event = "init" ->
              /\ h' = e.h0 /\ eff' = {} /\ cap' = e.cap /\ offered' = {}
              /\ cfg' = [ext |-> e.ext, req |-> e.req, peerh |-> e.peerh, disc |-> FALSE]
         [] e.event = "offer" ->
              /\ eff' = IF A!EffectiveC(e.i, e.h, cap) THEN eff \cup {e.i} ELSE eff
              /\ offered' = offered \cup {e.item}
              /\ UNCHANGED <<h, cap, cfg>>
              /\ Report(l, NameIf(e.h = h, "H:OfferHeight"), [ev |-> e, h |-> h])
         [] e.event = "apply" ->
              /\ h' = IF e.ok THEN e.i ELSE h
              /\ UNCHANGED <<eff, cap, cfg, offered>>
              /\ Report(l, NameIf(e.ok <=> A!LedgerAccepts(e.i, h), "H:LedgerContract")
                           \cup NameIf(e.h = (IF e.ok THEN h + 1 ELSE h), "H:ApplyHeight")
                           \* applied strictly in index order, each at most once: the ledger moves by exactly one block
                           \cup NameIf(e.ok => e.i = h + 1, "InOrderOnce")
                           \* AApply: the block that is applied was given
                           \cup NameIf((e.ok /\ ~cfg.ext /\ ~cfg.disc) => e.i \in eff, "AppliedWasGiven")
                           \cup NameIf(e.item \in offered, "AppliedWasOffered"),
                        [ev |-> e, h |-> h, eff |-> eff])
         [] e.event = "ext" ->
              /\ h' = h + 1
              /\ UNCHANGED <<eff, cap, cfg, offered>>
              /\ Report(l, NameIf(e.h = h + 1 /\ cfg.ext, "H:Ext"), [ev |-> e, h |-> h])
         [] e.event = "discard" ->
              /\ cfg' = [cfg EXCEPT !.disc = TRUE]
              /\ UNCHANGED <<h, eff, cap, offered>>
         [] e.event = "quiesce" ->
              /\ UNCHANGED <<h, eff, cap, cfg, offered>>
              \* not judged after Discard, nor when a panic killed the runner (reported by the driver itself)
              /\ Report(l, IF cfg.disc \/ e.runner = "panic" THEN {} ELSE
                           NameIf(e.h = h, "H:QuiesceHeight")
                           \cup NameIf(e.parked, "H:RunnerNotParked")
                           \* the node reaches the highest contiguous block it was given
                           \cup NameIf(A!Converged(h, eff), IF cfg.ext THEN "ConvergedExt" ELSE "Converged")
                           \* request rule: peers are ahead, nothing is in flight, and the node will never ask again
                           \cup NameIf(~(cfg.req /\ h < cfg.peerh /\ e.capleft = 0), "ReqNotStarved"),
                        [ev |-> e, h |-> h, eff |-> eff, maxcontig |-> A!MaxContig(h, eff)])
         [] OTHER -> UNCHANGED <<h, eff, cap, cfg, offered>>

TraceSpec == Init /\ [][Step]_vars
=============================================================================
