---- MODULE LedgerOnce_TTrace_1790322108 ----
EXTENDS LedgerOnce, Sequences, TLCExt, Toolbox, Naturals, TLC

_expression ==
    LET LedgerOnce_TEExpression == INSTANCE LedgerOnce_TEExpression
    IN LedgerOnce_TEExpression!expression
----

_trace ==
    LET LedgerOnce_TETrace == INSTANCE LedgerOnce_TETrace
    IN LedgerOnce_TETrace!trace
----

_inv ==
    ~(
        TLCGet("level") = Len(_TETrace)
        /\
        res = ([queue |-> "stored", consensus |-> "stored"])
        /\
        pc = ([queue |-> "idle", consensus |-> "idle"])
        /\
        applied = (<<1, 1>>)
        /\
        arg = ([queue |-> 1, consensus |-> 1])
        /\
        lock = ("free")
        /\
        height = (1)
    )
----

_init ==
    /\ arg = _TETrace[1].arg
    /\ lock = _TETrace[1].lock
    /\ applied = _TETrace[1].applied
    /\ res = _TETrace[1].res
    /\ pc = _TETrace[1].pc
    /\ height = _TETrace[1].height
----

_next ==
    /\ \E i,j \in DOMAIN _TETrace:
        /\ \/ /\ j = i + 1
              /\ i = TLCGet("level")
        /\ arg  = _TETrace[i].arg
        /\ arg' = _TETrace[j].arg
        /\ lock  = _TETrace[i].lock
        /\ lock' = _TETrace[j].lock
        /\ applied  = _TETrace[i].applied
        /\ applied' = _TETrace[j].applied
        /\ res  = _TETrace[i].res
        /\ res' = _TETrace[j].res
        /\ pc  = _TETrace[i].pc
        /\ pc' = _TETrace[j].pc
        /\ height  = _TETrace[i].height
        /\ height' = _TETrace[j].height

\* Uncomment the ASSUME below to write the states of the error trace
\* to the given file in Json format. Note that you can pass any tuple
\* to `JsonSerialize`. For example, a sub-sequence of _TETrace.
    \* ASSUME
    \*     LET J == INSTANCE Json
    \*         IN J!JsonSerialize("LedgerOnce_TTrace_1790322108.json", _TETrace)

=============================================================================

 Note that you can extract this module `LedgerOnce_TEExpression`
  to a dedicated file to reuse `expression` (the module in the 
  dedicated `LedgerOnce_TEExpression.tla` file takes precedence 
  over the module `LedgerOnce_TEExpression` below).

---- MODULE LedgerOnce_TEExpression ----
EXTENDS LedgerOnce, Sequences, TLCExt, Toolbox, Naturals, TLC

expression == 
    [
        \* To hide variables of the `LedgerOnce` spec from the error trace,
        \* remove the variables below.  The trace will be written in the order
        \* of the fields of this record.
        arg |-> arg
        ,lock |-> lock
        ,applied |-> applied
        ,res |-> res
        ,pc |-> pc
        ,height |-> height
        
        \* Put additional constant-, state-, and action-level expressions here:
        \* ,_stateNumber |-> _TEPosition
        \* ,_argUnchanged |-> arg = arg'
        
        \* Format the `arg` variable as Json value.
        \* ,_argJson |->
        \*     LET J == INSTANCE Json
        \*     IN J!ToJson(arg)
        
        \* Lastly, you may build expressions over arbitrary sets of states by
        \* leveraging the _TETrace operator.  For example, this is how to
        \* count the number of times a spec variable changed up to the current
        \* state in the trace.
        \* ,_argModCount |->
        \*     LET F[s \in DOMAIN _TETrace] ==
        \*         IF s = 1 THEN 0
        \*         ELSE IF _TETrace[s].arg # _TETrace[s-1].arg
        \*             THEN 1 + F[s-1] ELSE F[s-1]
        \*     IN F[_TEPosition - 1]
    ]

=============================================================================



Parsing and semantic processing can take forever if the trace below is long.
 In this case, it is advised to uncomment the module below to deserialize the
 trace from a generated binary file.

\*
\*---- MODULE LedgerOnce_TETrace ----
\*EXTENDS LedgerOnce, IOUtils, TLC
\*
\*trace == IODeserialize("LedgerOnce_TTrace_1790322108.bin", TRUE)
\*
\*=============================================================================
\*

---- MODULE LedgerOnce_TETrace ----
EXTENDS LedgerOnce, TLC

trace == 
    <<
    ([res |-> [queue |-> "none", consensus |-> "none"],pc |-> [queue |-> "idle", consensus |-> "idle"],applied |-> <<>>,arg |-> [queue |-> 0, consensus |-> 0],lock |-> "free",height |-> 0]),
    ([res |-> [queue |-> "none", consensus |-> "none"],pc |-> [queue |-> "check", consensus |-> "idle"],applied |-> <<>>,arg |-> [queue |-> 1, consensus |-> 0],lock |-> "free",height |-> 0]),
    ([res |-> [queue |-> "none", consensus |-> "none"],pc |-> [queue |-> "lock", consensus |-> "idle"],applied |-> <<>>,arg |-> [queue |-> 1, consensus |-> 0],lock |-> "free",height |-> 0]),
    ([res |-> [queue |-> "none", consensus |-> "none"],pc |-> [queue |-> "lock", consensus |-> "check"],applied |-> <<>>,arg |-> [queue |-> 1, consensus |-> 1],lock |-> "free",height |-> 0]),
    ([res |-> [queue |-> "none", consensus |-> "none"],pc |-> [queue |-> "lock", consensus |-> "lock"],applied |-> <<>>,arg |-> [queue |-> 1, consensus |-> 1],lock |-> "free",height |-> 0]),
    ([res |-> [queue |-> "none", consensus |-> "none"],pc |-> [queue |-> "lock", consensus |-> "in"],applied |-> <<>>,arg |-> [queue |-> 1, consensus |-> 1],lock |-> "consensus",height |-> 0]),
    ([res |-> [queue |-> "none", consensus |-> "stored"],pc |-> [queue |-> "lock", consensus |-> "idle"],applied |-> <<1>>,arg |-> [queue |-> 1, consensus |-> 1],lock |-> "free",height |-> 1]),
    ([res |-> [queue |-> "none", consensus |-> "stored"],pc |-> [queue |-> "in", consensus |-> "idle"],applied |-> <<1>>,arg |-> [queue |-> 1, consensus |-> 1],lock |-> "queue",height |-> 1]),
    ([res |-> [queue |-> "stored", consensus |-> "stored"],pc |-> [queue |-> "idle", consensus |-> "idle"],applied |-> <<1, 1>>,arg |-> [queue |-> 1, consensus |-> 1],lock |-> "free",height |-> 1])
    >>
----


=============================================================================

---- CONFIG LedgerOnce_TTrace_1790322108 ----
CONSTANTS
    Producer = { "queue" , "consensus" }
    MaxH = 2
    CheckOutsideLock = TRUE

INVARIANT
    _inv

CHECK_DEADLOCK
    \* CHECK_DEADLOCK off because of PROPERTY or INVARIANT above.
    FALSE

INIT
    _init

NEXT
    _next

CONSTANT
    _TETrace <- _trace

ALIAS
    _expression
=============================================================================
\* Generated on Fri Sep 25 07:41:48 UTC 2026