SPECIFICATION SimSpec
CONSTANTS
  Cap = 2
  H0 = 0
  MaxIdx = 5
  Procs = {"p1", "p2"}
  MaxPuts = 5
  Blocking = FALSE
  WithExternal = TRUE
  WithDiscard = FALSE
  WithRequester = FALSE
  PeerH = 0
  BugClearAlways = FALSE
  BugKeepOld = FALSE
  QuirkLenDrift = FALSE
  QuirkNoDiscardRecheck = FALSE
  Depth = 40
  WitnessKind = "none"
INVARIANT Emit
CHECK_DEADLOCK FALSE
