SPECIFICATION Spec
CONSTANTS
  Cap = 2
  H0 = 0
  MaxIdx = 5
  Procs = {"p1", "p2"}
  MaxPuts = 6
  Blocking = FALSE
  WithExternal = TRUE
  WithDiscard = FALSE
  WithRequester = FALSE
  PeerH = 0
  BugClearAlways = FALSE
  BugKeepOld = FALSE
VIEW view
INVARIANTS TypeOK RingOK CallOK NoPanic NoStuck
CHECK_DEADLOCK FALSE
