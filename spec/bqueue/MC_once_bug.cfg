SPECIFICATION Spec
CONSTANTS
  Producer = {"queue", "consensus"}
  MaxH = 2
  CheckOutsideLock = TRUE
INVARIANTS InOrderOnce
CONSTRAINT Bounded
