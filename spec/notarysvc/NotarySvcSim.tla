---------------------------- MODULE NotarySvcSim ----------------------------
(* Behaviour generator: NotarySvcImpl plus a history variable, printed as JSON when the depth bound is reached or
   nothing can happen any more (tlc -simulate).  The driver's steps are taken only when the service is at rest (the
   harness waits for exactly that state of the real service); what the model's service sends in between is recorded as
   "sent" entries (predictions, compared for drift only).  The history starts with the universe so that the harness can
   realise it on a real chain. *)
EXTENDS MCNotarySvc, Json, TLCExt

CONSTANT Depth
VARIABLE hist

\* (5) simulation only: two main transactions with multisignature slots, eight requests, all kinds of copies
M5 == << M(<<Sig("A"), Multi(2, {"B", "C", "D"}), Notary>>, 7, 0), M(<<Multi(1, {"D", "E"}), Notary, Sig("A")>>, 6, 0),
         M(<<Sig("E"), Notary>>, 6, 1) >>
U5 == << R(1, "A", 3, 4, 1, "A", "good", "ok"),
         R(1, "B", 3, 5, 2, "B", "good", "ok"),
         R(1, "C", 4, 6, 2, "C", "good", "ok"),
         R(1, "D", 4, 7, 2, "D", "bad", "ok"),
         R(1, "E", 2, 8, 2, "B", "none", "badverif"),
         R(2, "D", 2, 9, 1, "D", "good", "ok"),
         R(2, "A", 3, 10, 3, "A", "good", "ok"),
         R(2, "E", 3, 11, 1, "E", "good", "twosigs"),
         R(3, "E", 2, 12, 1, "E", "good", "ok"),
         R(1, "B", 2, 13, 2, "B", "good", "dummy"),
         R(1, "A", 4, 14, 2, "A", "good", "ok") >>

SimInit == Init /\ hist = << [op |-> "init", mains |-> Mains, reqs |-> Reqs, cap |-> Cap, delta |-> 10, desig |-> Desig0] >>

Live == AtRest /\ h < MaxH
CanSubmit == \E r \in RIds : ENABLED Submit(r)
Refused(r) ==   \* a submission the pool refuses: nothing changes
    /\ Live /\ ~ENABLED Submit(r) /\ UNCHANGED vars
    /\ hist' = Append(hist, [op |-> "submit", req |-> r, ok |-> FALSE, pool |-> pool])

\* generation mix (TLC picks uniformly among the successor STATES)
SimNext ==
    \/ Live /\ \E r \in RIds : Submit(r) /\ hist' = Append(hist, [op |-> "submit", req |-> r, ok |-> TRUE, pool |-> pool'])
    \/ \E r \in RIds : r = 1 + ((h + Cardinality(pool)) % Len(Reqs)) /\ Len(hist) % 3 = 0 /\ Refused(r)
    \/ Live /\ (pool # {} \/ mpM # {} \/ mpF # {}) /\ (Len(hist) % 3 = 0 \/ ~CanSubmit) /\ \E k \in {"empty", "pooled"} : Block(k, desig)
             /\ hist' = Append(hist, [op |-> "block", kind |-> k, arg |-> desig, pool |-> pool', h |-> h', acc |-> acc'])
    \/ Live /\ pool # {} /\ Len(hist) % 6 = 2 /\ \E D \in DesigChoices : Block("desig", D)
             /\ hist' = Append(hist, [op |-> "block", kind |-> "desig", arg |-> D, pool |-> pool', h |-> h', acc |-> acc'])
    \/ Live /\ Len(hist) % 7 = 3 /\ Restart /\ hist' = Append(hist, [op |-> "restart"])
    \/ Live /\ pool # {} /\ (relay => Len(hist) % 8 = 5) /\ \E b \in BOOLEAN : Relay(b) /\ hist' = Append(hist, [op |-> "relay", ok |-> b])
    \/ MainLoop /\ UNCHANGED hist
    \/ MainLoopRace /\ UNCHANGED hist
    \/ TxDone /\ UNCHANGED hist
    \/ TxTake /\ hist' = IF log' # log \/ fly' # fly
                         THEN Append(hist, [op |-> "sent", kind |-> fly'.k, main |-> fly'.m, req |-> fly'.r, ret |-> fly'.res])
                         ELSE hist
SimSpec == SimInit /\ [][SimNext]_<<vars, hist>>

Emit == (TLCGet("level") < Depth /\ ENABLED SimNext) \/ PrintT(<<"@@HIST@@", ToJson(hist)>>)
=============================================================================
