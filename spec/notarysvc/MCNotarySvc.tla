---------------------------- MODULE MCNotarySvc ----------------------------
(* Universes for the exhaustive runs of NotarySvcImpl.  Heights are relative to the block that makes the deposits;
   fees in model units (0.1 GAS); keys A..E are co-signers = depositors, K1, K2 the wallet of the notary node, K3 a
   notary key of somebody else. *)
EXTENDS NotarySvcImpl

Sig(k) == [t |-> "sig", m |-> 1, keys |-> {k}]
Multi(n, ks) == [t |-> "multi", m |-> n, keys |-> ks]
Notary == [t |-> "notary", m |-> 0, keys |-> {}]
M(w, vub, nk) == [wits |-> w, vub |-> vub, nk |-> nk]
R(main, dep, nvb, fee, w, key, sig, form) ==
    [main |-> main, dep |-> dep, nvb |-> nvb, fee |-> fee, w |-> w, key |-> key, sig |-> sig, form |-> form]

\* (1) signature + 2-of-3 multisignature; a second request of the same multisignature signer; a signature that does not
\*     verify; capacity 3: evictions
M1 == << M(<<Sig("A"), Multi(2, {"B", "C", "D"}), Notary>>, 4, 0) >>
U1 == << R(1, "A", 2, 4, 1, "A", "good", "ok"),
         R(1, "B", 2, 5, 2, "B", "good", "ok"),
         R(1, "C", 3, 6, 2, "C", "good", "ok"),
         R(1, "B", 3, 7, 2, "B", "good", "ok"),
         R(1, "D", 2, 8, 2, "D", "bad", "ok") >>

\* (2) two main transactions (the second one declares a wrong NKeys), a copy with a foreign verification script in a
\*     signature slot, a request that only brings a fallback, a signature put into the wrong slot
M2 == << M(<<Sig("A"), Notary, Sig("B")>>, 3, 0), M(<<Multi(1, {"C", "D"}), Notary>>, 4, 1) >>
U2 == << R(1, "A", 2, 4, 1, "A", "good", "ok"),
         R(1, "B", 1, 5, 3, "B", "good", "ok"),
         R(1, "E", 2, 6, 1, "A", "none", "badverif"),
         R(2, "C", 2, 7, 1, "C", "good", "ok"),
         R(1, "C", 2, 8, 0, "C", "none", "ok"),
         R(1, "B", 2, 9, 1, "B", "good", "ok") >>

\* (3) a refused copy arriving first (foreign verification script in the multisignature slot, 67-byte invocation)
M3 == << M(<<Sig("A"), Multi(2, {"B", "C"}), Notary>>, 4, 0) >>
U3 == << R(1, "E", 3, 4, 2, "B", "none", "badverif"),
         R(1, "A", 2, 5, 1, "A", "good", "ok"),
         R(1, "B", 2, 6, 2, "B", "good", "ok"),
         R(1, "C", 3, 7, 2, "C", "good", "ok"),
         R(1, "D", 3, 8, 1, "A", "good", "badinv") >>

\* (4) designations and restarts
M4 == << M(<<Sig("A"), Sig("B"), Notary>>, 4, 0) >>
U4 == << R(1, "A", 2, 4, 1, "A", "good", "ok"),
         R(1, "B", 3, 5, 2, "B", "good", "ok"),
         R(1, "C", 2, 6, 0, "C", "none", "ok") >>
D4 == {{"K1"}, {"K2"}, {"K3"}, {"K1", "K2"}}
D4live == {{"K1"}, {"K2"}, {"K1", "K2"}}
W12 == <<"K1", "K2">>
U1q == SubSeq(U1, 1, 4)
U2q == SubSeq(U2, 1, 5)
U3q == SubSeq(U3, 1, 4)
DK1 == {"K1"}
DNone == {}
=============================================================================
