--------------------------- MODULE NotarySvcTrace ---------------------------
(* Validates traces recorded from the REAL notary service (attached to a real chain, the real request pool of a real
   network.Server and the node's real memory pool) against the ABSTRACT specification NotarySvc.  Events:
     init     the universe as read back from the real transactions: main transactions (slots from their verification
              scripts, NKeys consistency), requests (signatures their copies carry - slot, whose, good -, form, fallback
              heights and cost), the service's wallet keys
     sent     one onTransaction call of the service: the send record (NotarySvc.tla), every witness judged by the real
              ledger (VerifyWitness), admit/ref = VerifyTx of the sent transaction / of the reference completion,
              pooled = the node's memory pool took it (PoolTx)
     submit   Server.RelayP2PNotaryRequest of request `req`: ok/err
     block    one block (kind: empty / pooled = what the memory pool offers in pool order / desig = + designation of the
              notary keys in arg) built, serialised, parsed and given to the ledger: accepted or not
     restart  a new service instance on the same pool;   relay  the node's relay of completed transactions works / fails
     twin     outcome of the same requests in another arrival order (a = this history, b = its twin)
   Every step event carries the observed request pool, memory pool (mpm / mpf: main transactions / fallbacks), chain
   (chm / chf), height, designated keys, deposits (amt) and `quiet` (the service's goroutines were seen parked after the
   step).  Predicates named "beyond:..." are observations beyond the statements of C07 / C08, never violations. *)
EXTENDS TraceIO, FiniteSets, SequencesExt

VARIABLES l, TMv, TRv, wallet, arrived, heard, triedM, triedF, doneM, doneF, ppool
vars == <<l, TMv, TRv, wallet, arrived, heard, triedM, triedF, doneM, doneF, ppool>>

A == INSTANCE NotarySvc

NormWit(w) == [t |-> w.t, m |-> w.m, keys |-> ToSet(w.keys)]
NormMain(m) == [wits |-> [i \in DOMAIN m.wits |-> NormWit(m.wits[i])], vub |-> m.vub, nkeysok |-> m.nkeysok]
NormReq(r) == [main |-> r.main, dep |-> r.dep, nvb |-> r.nvb, vub |-> r.vub, fee |-> r.fee, cost |-> r.cost, wf |-> r.wf,
               sigs |-> ToSet(r.sigs)]
NormSend(e) == [kind |-> e.kind, main |-> e.main, req |-> e.req, h |-> e.h, nvb |-> e.nvb, vub |-> e.vub, wok |-> e.wok,
                nkey |-> e.nkey, desig |-> ToSet(e.desig), admit |-> e.admit, ref |-> e.ref, pooled |-> e.pooled,
                onchain |-> e.onchain, chm |-> ToSet(e.chm), chf |-> ToSet(e.chf), pool |-> ToSet(e.pool),
                used |-> ToSet(e.used)]

Init == l = 1 /\ TMv = <<>> /\ TRv = <<>> /\ wallet = {} /\ arrived = {} /\ heard = {} /\ triedM = {} /\ triedF = {} /\ doneM = {} /\ doneF = {} /\ ppool = {}

StateFails(e) == A!JudgedStateFails(TRv, ToSet(e.mpm), ToSet(e.mpf), ToSet(e.chm), ToSet(e.chf), e.amt)

Authorised(e) == ToSet(e.desig) \cap wallet # {}

\* The progress predicates speak about the requests the running service instance HEARD of (admitted to the pool while this
\* instance was running and authorised): Held.  That the pool holds nothing else is a predicate of its own (NothingLost:
\* the pool does not announce its content to a new / newly authorised instance).
Held(e, H) == ToSet(e.pool) \cap H
\* the requests heard of when the send recorded at line i happened: the step that caused it is the next non-send line
RECURSIVE NextOp(_)
NextOp(i) == IF i > Len(TLog) THEN 0 ELSE IF TLog[i].event # "sent" THEN i ELSE NextOp(i + 1)
HeardAt(i) == LET j == NextOp(i) IN
              IF j = 0 THEN heard
              ELSE IF TLog[j].event = "submit" /\ TLog[j].ok /\ Authorised(TLog[j]) THEN heard \cup {TLog[j].req}
              ELSE IF TLog[j].event = "restart" THEN {} ELSE heard
MainDueFails(e, H) ==
    IF e.quiet /\ Authorised(e)
       /\ ~\A m \in DOMAIN TMv : A!MainDue(TMv, TRv, Held(e, H), H, e.h, ToSet(e.chm), ToSet(e.chf), triedM, m)
    THEN {"beyond:MainDue"} ELSE {}
FallbackDueFails(e, H) ==
    IF e.quiet /\ Authorised(e) /\ ~\A r \in DOMAIN TRv : A!FallbackDue(TRv, Held(e, H), e.h, ToSet(e.chm), triedF, r)
    THEN {"beyond:FallbackDue"} ELSE {}
NothingLostFails(e, H) ==
    IF e.quiet /\ Authorised(e) /\ ~(ToSet(e.pool) \subseteq H) THEN {"beyond:NothingLost"} ELSE {}

Step ==
    /\ l <= Len(TLog)
    /\ l' = l + 1
    /\ LET e == TLog[l] IN
       CASE e.event = "init" ->
              /\ TMv' = [i \in DOMAIN e.mains |-> NormMain(e.mains[i])]
              /\ TRv' = [i \in DOMAIN e.reqs |-> NormReq(e.reqs[i])]
              /\ wallet' = ToSet(e.wallet) /\ arrived' = {} /\ heard' = {} /\ triedM' = {} /\ triedF' = {} /\ doneM' = {} /\ doneF' = {} /\ ppool' = {}
         [] e.event = "sent" ->
              LET s == NormSend(e) IN
              /\ triedM' = IF s.kind = "main" THEN triedM \cup {s.main} ELSE triedM
              /\ triedF' = IF s.kind = "fb" THEN triedF \cup {s.req} ELSE triedF
              /\ doneM' = IF s.kind = "main" /\ e.ret THEN doneM \cup {<<e.gen, s.main>>} ELSE doneM
              /\ doneF' = IF s.kind = "fb" /\ e.ret THEN doneF \cup {s.req} ELSE doneF
              /\ UNCHANGED <<TMv, TRv, wallet, arrived, heard, ppool>>
              \* (MainBeforeNvb looks at the pooled requests this instance heard of whose fallback it has not handed over yet: once
              \* all fallbacks of an entry are handed over the service forgets the entry and a later request starts a new one)
              \* sends are recorded before the event of the step that caused them: the request pool at the time of the send
              \* (s.pool) already holds the request that has just arrived
              /\ Report(l, A!JudgedSendFails(TRv, s) \cup A!BeyondSendFails(TMv, TRv, arrived \cup s.pool, (s.pool \cap HeardAt(l)) \ doneF, s)
                           \cup NameIf(A!Withdrawn(TRv, s), "beyond:Withdrawn") \cup NameIf(A!FallbackPooled(s, ppool), "beyond:FallbackPooled")
                           \* one service instance does not hand over a main transaction again that the node has taken from it
                           \cup NameIf(~(s.kind = "main" /\ <<e.gen, s.main>> \in doneM), "beyond:MainOnce"), [ev |-> e])
         [] e.event = "submit" ->
              LET H == IF e.ok /\ Authorised(e) THEN heard \cup {e.req} ELSE heard IN
              /\ arrived' = IF e.ok THEN arrived \cup {e.req} ELSE arrived
              /\ heard' = H
              /\ UNCHANGED <<TMv, TRv, wallet, triedM, triedF, doneM, doneF>>
              /\ ppool' = ToSet(e.pool)
              /\ Report(l, StateFails(e) \cup MainDueFails(e, H), [ev |-> e])
         [] e.event = "block" ->
              LET H == IF Authorised(e) THEN heard ELSE {} IN
              /\ heard' = H
              /\ UNCHANGED <<TMv, TRv, wallet, arrived, triedM, triedF, doneM, doneF>>
              /\ ppool' = ToSet(e.pool)
              /\ Report(l, StateFails(e) \cup NameIf(e.accepted, "Proposable")
                           \cup (IF e.accepted THEN MainDueFails(e, H) \cup FallbackDueFails(e, H) \cup NothingLostFails(e, H) ELSE {}),
                        [ev |-> e])
         [] e.event = "restart" ->
              /\ heard' = {}
              /\ UNCHANGED <<TMv, TRv, wallet, arrived, triedM, triedF, doneM, doneF>>
              /\ ppool' = ToSet(e.pool)
              /\ Report(l, StateFails(e) \cup NothingLostFails(e, {}), [ev |-> e])
         [] e.event = "relay" ->
              /\ UNCHANGED <<TMv, TRv, wallet, arrived, heard, triedM, triedF, doneM, doneF>>
              /\ ppool' = ToSet(e.pool)
              /\ Report(l, StateFails(e), [ev |-> e])
         [] e.event = "twin" ->
              /\ UNCHANGED <<TMv, TRv, wallet, arrived, heard, triedM, triedF, doneM, doneF, ppool>>
              /\ Report(l, NameIf(A!OrderIndependent(e.a, e.b), "beyond:OrderIndependent"), [ev |-> e])

TraceSpec == Init /\ [][Step]_vars
=============================================================================
